/-
  wp `enc2` — the Code 128 encoder model (`chooseCode`, `c128Loop`, `code128Codes`, `code128Modules` of
  Model/OneD.lean) is TOTAL: for every content (any code points, any length) and every forced code set the writer
  can pass (none, A, B, C) the result is a list of symbol characters below 107 or a WriterException — never a
  panic (negative / too large pattern index) and never out of fuel (the `for position < length` loop terminates:
  a code-set switch is followed by a step that consumes input, because `chooseCode` is idempotent in the old code).
-/
import Gzx.Proofs.OneD
import Gzx.Properties.C03
namespace Gzx.OneD
open Gzx Gzx.CheckDigit

/-! ### `chooseCode` -/

/-- the first conjunct of `c128CharOk`: ASCII or one of the four FNC escapes -/
def okc (c : Nat) : Prop := c ≤ 127 ∨ c = 0xF1 ∨ c = 0xF2 ∨ c = 0xF3 ∨ c = 0xF4

theorem findCType_cases (v : List Nat) :
    findCType v = .uncodable ∨ findCType v = .oneDigit ∨ findCType v = .twoDigits ∨ findCType v = .fnc1 := by
  cases findCType v <;> simp

theorem findCType_fnc1 {c : Nat} {rest : List Nat} (h : findCType (c :: rest) = .fnc1) : c = 0xF1 := by
  unfold findCType at h
  by_cases hc : c = 0xF1
  · exact hc
  · simp only [hc, if_false] at h
    split at h
    · cases h
    · split at h
      · cases h
      · split at h <;> cases h

theorem findCType_two {c : Nat} {rest : List Nat} (h : findCType (c :: rest) = .twoDigits) :
    isDigitCp c = true ∧ ∃ c2 r2, rest = c2 :: r2 ∧ isDigitCp c2 = true := by
  unfold findCType at h
  by_cases hc : c = 0xF1
  · simp [hc] at h
  · simp only [hc, if_false] at h
    by_cases hd : isDigitCp c = true
    · simp only [hd, Bool.not_true, Bool.false_eq_true, if_false] at h
      cases rest with
      | nil => cases h
      | cons c2 r2 =>
        simp only at h
        by_cases hd2 : isDigitCp c2 = true
        · exact ⟨hd, c2, r2, rfl, hd2⟩
        · simp [hd2] at h
    · simp [hd] at h

theorem findCType_one {c : Nat} {rest : List Nat} (h : findCType (c :: rest) = .oneDigit) : isDigitCp c = true := by
  unfold findCType at h
  by_cases hc : c = 0xF1
  · simp [hc] at h
  · simp only [hc, if_false] at h
    by_cases hd : isDigitCp c = true
    · exact hd
    · simp [hd] at h

theorem findCType_unc {c : Nat} {rest : List Nat} (h : findCType (c :: rest) = .uncodable) :
    c ≠ 0xF1 ∧ isDigitCp c = false := by
  unfold findCType at h
  by_cases hc : c = 0xF1
  · simp [hc] at h
  · simp only [hc, if_false] at h
    by_cases hd : isDigitCp c = true
    · simp only [hd, Bool.not_true, Bool.false_eq_true, if_false] at h
      cases rest with
      | nil => cases h
      | cons c2 r2 => simp only at h; split at h <;> cases h
    · exact ⟨hc, by simpa using hd⟩

/-- the value of `chooseCode` by look-ahead class -/
theorem chooseCode_one {v : List Nat} (old : Nat) (h : findCType v = .oneDigit) :
    chooseCode v old = if old = 101 then 101 else 100 := by
  unfold chooseCode
  simp [h]

theorem chooseCode_unc {c : Nat} {rest : List Nat} (old : Nat) (h : findCType (c :: rest) = .uncodable) :
    chooseCode (c :: rest) old = if c < 32 ∨ (old = 101 ∧ (c < 96 ∨ (0xF1 ≤ c ∧ c ≤ 0xF4))) then 101 else 100 := by
  unfold chooseCode
  simp [h]

theorem chooseCode_fnc {v : List Nat} (old : Nat) (h : findCType v = .fnc1) :
    chooseCode v old = if old = 101 then 101 else if old = 99 then 99 else if old = 100 then 100
      else if findCType (v.drop 1) = .twoDigits then 99 else 100 := by
  unfold chooseCode
  simp only [h]
  simp

/-- with two digits ahead: stay in C, from B the look-ahead decides (independently of anything else), otherwise C -/
theorem chooseCode_two {v : List Nat} (old : Nat) (h : findCType v = .twoDigits) :
    chooseCode v old = if old = 99 then 99 else if old = 100 then chooseCode v 100 else 99 := by
  by_cases h2 : old = 99
  · subst h2
    unfold chooseCode
    simp [h]
  · by_cases h3 : old = 100
    · subst h3; simp
    · rw [if_neg h2, if_neg h3]
      unfold chooseCode
      simp [h, h2, h3]

theorem chooseCode_two_B {v : List Nat} (h : findCType v = .twoDigits) : chooseCode v 100 = 99 ∨ chooseCode v 100 = 100 := by
  unfold chooseCode
  simp only [h]
  simp
  repeat' split
  all_goals (first | (simp; done) | grind)

/-- `chooseCode` is idempotent in the old code set: after a switch the writer stays -/
theorem chooseCode_idem_all (v : List Nat) (old : Nat) : chooseCode v (chooseCode v old) = chooseCode v old := by
  cases v with
  | nil => simp [chooseCode, findCType]
  | cons c rest =>
    rcases findCType_cases (c :: rest) with h | h | h | h
    · rw [chooseCode_unc _ h, chooseCode_unc _ h]
      by_cases hc : c < 32 ∨ (old = 101 ∧ (c < 96 ∨ (0xF1 ≤ c ∧ c ≤ 0xF4)))
      · rw [if_pos hc]
        have : c < 32 ∨ ((101 : Nat) = 101 ∧ (c < 96 ∨ (0xF1 ≤ c ∧ c ≤ 0xF4))) := by
          rcases hc with h1 | h1
          · exact Or.inl h1
          · exact Or.inr ⟨rfl, h1.2⟩
        rw [if_pos this]
      · rw [if_neg hc]
        have : ¬ (c < 32 ∨ ((100 : Nat) = 101 ∧ (c < 96 ∨ (0xF1 ≤ c ∧ c ≤ 0xF4)))) := by
          intro h1
          rcases h1 with h1 | h1
          · exact hc (Or.inl h1)
          · exact absurd h1.1 (by decide)
        rw [if_neg this]
    · rw [chooseCode_one _ h, chooseCode_one _ h]
      by_cases h1 : old = 101 <;> simp [h1]
    · rw [chooseCode_two old h]
      by_cases h2 : old = 99
      · rw [if_pos h2, chooseCode_two 99 h]; simp
      · rw [if_neg h2]
        by_cases h3 : old = 100
        · rw [if_pos h3]
          rcases chooseCode_two_B h with hb | hb
          · rw [hb, chooseCode_two 99 h]; simp
          · rw [hb]; exact hb
        · rw [if_neg h3, chooseCode_two 99 h]; simp
    · rw [chooseCode_fnc old h]
      by_cases h1 : old = 101
      · rw [if_pos h1, chooseCode_fnc 101 h]; simp
      · rw [if_neg h1]
        by_cases h2 : old = 99
        · rw [if_pos h2, chooseCode_fnc 99 h]; simp
        · rw [if_neg h2]
          by_cases h3 : old = 100
          · rw [if_pos h3, chooseCode_fnc 100 h]; simp
          · rw [if_neg h3]
            by_cases h4 : findCType ((c :: rest).drop 1) = .twoDigits
            · rw [if_pos h4, chooseCode_fnc 99 h]; simp
            · rw [if_neg h4, chooseCode_fnc 100 h]; simp

/-- what the chosen code set says about the character at hand -/
theorem chooseCode_facts (c : Nat) (rest : List Nat) (old : Nat) :
    (chooseCode (c :: rest) old = 99 ∨ chooseCode (c :: rest) old = 100 ∨ chooseCode (c :: rest) old = 101) ∧
    (chooseCode (c :: rest) old = 101 → c < 96 ∨ c = 0xF1 ∨ c = 0xF2 ∨ c = 0xF3 ∨ c = 0xF4) ∧
    (chooseCode (c :: rest) old = 100 → 32 ≤ c) ∧
    (chooseCode (c :: rest) old = 99 → c = 0xF1 ∨ (isDigitCp c = true ∧ ∃ c2 r2, rest = c2 :: r2 ∧ isDigitCp c2 = true)) := by
  rcases findCType_cases (c :: rest) with h | h | h | h
  · rw [chooseCode_unc _ h]
    obtain ⟨hne, hnd⟩ := findCType_unc h
    by_cases hc : c < 32 ∨ (old = 101 ∧ (c < 96 ∨ (0xF1 ≤ c ∧ c ≤ 0xF4)))
    · rw [if_pos hc]
      refine ⟨by simp, fun _ => ?_, by simp, by simp⟩
      omega
    · rw [if_neg hc]
      refine ⟨by simp, by simp, fun _ => ?_, by simp⟩
      omega
  · rw [chooseCode_one _ h]
    have hd := findCType_one h
    have h48 : 48 ≤ c ∧ c ≤ 57 := by simpa [isDigitCp] using hd
    by_cases h1 : old = 101
    · rw [if_pos h1]; refine ⟨by simp, fun _ => by omega, by simp, by simp⟩
    · rw [if_neg h1]; refine ⟨by simp, by simp, fun _ => by omega, by simp⟩
  · obtain ⟨hd, c2, r2, hr, hd2⟩ := findCType_two h
    have h48 : 48 ≤ c ∧ c ≤ 57 := by simpa [isDigitCp] using hd
    have key : chooseCode (c :: rest) old = 99 ∨ chooseCode (c :: rest) old = 100 := by
      rw [chooseCode_two old h]
      by_cases h2 : old = 99
      · simp [h2]
      · rw [if_neg h2]
        by_cases h3 : old = 100
        · rw [if_pos h3]; exact chooseCode_two_B h
        · simp [h3]
    refine ⟨?_, ?_, fun _ => by omega, fun _ => Or.inr ⟨hd, c2, r2, hr, hd2⟩⟩
    · rcases key with k | k <;> simp [k]
    · intro h101; rcases key with k | k <;> rw [k] at h101 <;> cases h101
  · have hc := findCType_fnc1 h
    rw [chooseCode_fnc old h]
    refine ⟨?_, fun _ => Or.inr (Or.inl hc), fun _ => by omega, fun _ => Or.inl hc⟩
    repeat' split
    all_goals simp

/-! ### the main loop -/

/-- the forced code sets `encodeWithHints` can have: none, A, B, C -/
def ForcedOK (forced : Option Nat) : Prop := forced = none ∨ forced = some 99 ∨ forced = some 100 ∨ forced = some 101

/-- `newCodeSet` of one iteration -/
def newCS (forced : Option Nat) (v : List Nat) (cs : Nat) : Nat :=
  match forced with
  | some f => f
  | none => chooseCode v cs

/-- symbol characters below 107, or a WriterException -/
def Good (r : Res (List (Nat × Bool))) : Prop :=
  (∃ out, r = .ok out ∧ ∀ e ∈ out, e.1 < 107) ∨ r = .error .writer

theorem c128CharOk_okc {forced : Option Nat} {c : Nat} (h : c128CharOk forced c = true) : okc c := by
  unfold c128CharOk at h
  simp only [Bool.and_eq_true, Bool.or_eq_true, decide_eq_true_eq] at h
  unfold okc
  omega

theorem newCS_range {forced : Option Nat} (hf : ForcedOK forced) (c : Nat) (rest : List Nat) (cs : Nat) :
    newCS forced (c :: rest) cs = 99 ∨ newCS forced (c :: rest) cs = 100 ∨ newCS forced (c :: rest) cs = 101 := by
  rcases hf with rfl | rfl | rfl | rfl
  · exact (chooseCode_facts c rest cs).1
  · simp [newCS]
  · simp [newCS]
  · simp [newCS]

theorem newCS_idem (forced : Option Nat) (v : List Nat) (cs : Nat) :
    newCS forced v (newCS forced v cs) = newCS forced v cs := by
  cases forced with
  | none => exact chooseCode_idem_all v cs
  | some f => rfl

/-- one iteration, in terms of `newCS` -/
theorem c128Loop_cons (forced : Option Nat) (fuel c : Nat) (rest : List Nat) (moved : Bool) (codeSet : Nat)
    (acc : List (Nat × Bool)) :
    c128Loop forced (fuel + 1) (c :: rest) moved codeSet acc =
      if newCS forced (c :: rest) codeSet = codeSet then
        if c = 0xF1 then c128Loop forced fuel rest true codeSet ((102, true) :: acc)
        else if c = 0xF2 then c128Loop forced fuel rest true codeSet ((97, true) :: acc)
        else if c = 0xF3 then c128Loop forced fuel rest true codeSet ((96, true) :: acc)
        else if c = 0xF4 then
          c128Loop forced fuel rest true codeSet ((if codeSet = 101 then 101 else 100, true) :: acc)
        else if codeSet = 101 then
          c128Loop forced fuel rest true codeSet ((if c < 32 then c + 64 else c - 32, true) :: acc)
        else if codeSet = 100 then
          if c < 32 then .error (.panic "negative pattern index")
          else c128Loop forced fuel rest true codeSet ((c - 32, true) :: acc)
        else
          match rest with
          | [] => .error .writer
          | c2 :: rest2 =>
            if c2 < 48 ∨ c2 > 57 then .error .writer
            else if c < 48 ∨ (c - 48) * 10 + (c2 - 48) ≥ 107 then .error (.panic "pattern index out of range")
            else c128Loop forced fuel rest2 true codeSet (((c - 48) * 10 + (c2 - 48), true) :: acc)
      else
        c128Loop forced fuel (c :: rest) moved (newCS forced (c :: rest) codeSet)
          ((if codeSet = 0 then (if newCS forced (c :: rest) codeSet = 101 then 103
              else if newCS forced (c :: rest) codeSet = 100 then 104 else 105)
            else newCS forced (c :: rest) codeSet, moved) :: acc) := by
  cases forced <;> rfl

/-- one iteration that stays in its code set: consumes input; good if every continuation on shorter input is -/
theorem c128_stable_step {forced : Option Nat} (hf : ForcedOK forced) (fuel : Nat) (c : Nat) (rest : List Nat)
    (moved : Bool) (cs : Nat) (acc : List (Nat × Bool))
    (hok : ∀ x ∈ c :: rest, c128CharOk forced x = true) (hacc : ∀ e ∈ acc, e.1 < 107)
    (hst : newCS forced (c :: rest) cs = cs)
    (hrec : ∀ (v' : List Nat) (acc' : List (Nat × Bool)), v'.length < (c :: rest).length →
      (∀ x ∈ v', c128CharOk forced x = true) → (∀ e ∈ acc', e.1 < 107) → Good (c128Loop forced fuel v' true cs acc')) :
    Good (c128Loop forced (fuel + 1) (c :: rest) moved cs acc) := by
  have hcok := hok c List.mem_cons_self
  have hokc := c128CharOk_okc hcok
  have hrest : ∀ x ∈ rest, c128CharOk forced x = true := fun x hx => hok x (List.mem_cons_of_mem _ hx)
  have hcons : ∀ (i : Nat), i < 107 → ∀ e ∈ (i, true) :: acc, e.1 < 107 := by
    intro i hi e he
    rcases List.mem_cons.mp he with rfl | he
    · exact hi
    · exact hacc e he
  have hlen : rest.length < (c :: rest).length := by simp
  have hrange := newCS_range hf c rest cs
  rw [hst] at hrange
  rw [c128Loop_cons, if_pos hst]
  by_cases h1 : c = 0xF1
  · simp only [h1, if_true]; exact hrec rest _ hlen hrest (hcons _ (by decide : (_ : Nat) < 107))
  · by_cases h2 : c = 0xF2
    · simp only [h2, if_true]; exact hrec rest _ hlen hrest (hcons _ (by decide : (_ : Nat) < 107))
    · by_cases h3 : c = 0xF3
      · simp only [h3, if_true]; exact hrec rest _ hlen hrest (hcons _ (by decide : (_ : Nat) < 107))
      · by_cases h4 : c = 0xF4
        · simp only [h4, if_true]
          exact hrec rest _ hlen hrest (hcons (if cs = 101 then 101 else 100) (by split <;> decide))
        · simp only [h1, h2, h3, h4, if_false]
          have h127 : c ≤ 127 := by unfold okc at hokc; omega
          by_cases hA : cs = 101
          · subst hA
            rw [if_pos rfl]
            exact hrec rest _ hlen hrest (hcons (if c < 32 then c + 64 else c - 32) (by split <;> omega))
          · rw [if_neg hA]
            by_cases hB : cs = 100
            · subst hB
              rw [if_pos rfl]
              have h32 : 32 ≤ c := by
                rcases hf with rfl | rfl | rfl | rfl
                · exact (chooseCode_facts c rest 100).2.2.1 hst
                · simp [newCS] at hst
                · unfold c128CharOk at hcok
                  simp only [Bool.and_eq_true, Bool.not_eq_true', decide_eq_false_iff_not] at hcok
                  omega
                · simp [newCS] at hst
              have : ¬ c < 32 := by omega
              rw [if_neg this]
              exact hrec rest _ hlen hrest (hcons (c - 32) (by omega))
            · rw [if_neg hB]
              have hC : cs = 99 := by omega
              subst hC
              cases rest with
              | nil => exact Or.inr rfl
              | cons c2 r2 =>
                show Good (if c2 < 48 ∨ c2 > 57 then .error .writer
                  else if c < 48 ∨ (c - 48) * 10 + (c2 - 48) ≥ 107 then .error (.panic "pattern index out of range")
                  else c128Loop forced fuel r2 true 99 (((c - 48) * 10 + (c2 - 48), true) :: acc))
                by_cases hd2 : c2 < 48 ∨ c2 > 57
                · rw [if_pos hd2]; exact Or.inr rfl
                · rw [if_neg hd2]
                  have hdig : 48 ≤ c ∧ c ≤ 57 := by
                    rcases hf with rfl | rfl | rfl | rfl
                    · have := (chooseCode_facts c (c2 :: r2) 99).2.2.2 hst
                      rcases this with h | h
                      · exact absurd h h1
                      · simpa [isDigitCp] using h.1
                    · unfold c128CharOk at hcok
                      simp only [Bool.and_eq_true, Bool.not_eq_true', Bool.or_eq_false_iff, Bool.and_eq_false_imp,
                        decide_eq_false_iff_not, decide_eq_true_eq] at hcok
                      omega
                    · simp [newCS] at hst
                    · simp [newCS] at hst
                  have hg : ¬ (c < 48 ∨ (c - 48) * 10 + (c2 - 48) ≥ 107) := by omega
                  rw [if_neg hg]
                  exact hrec r2 _ (by simp only [List.length_cons]; omega) (fun x hx => hrest x (List.mem_cons_of_mem _ hx))
                    (hcons ((c - 48) * 10 + (c2 - 48)) (by omega))

/-- the loop is good whenever the fuel covers two iterations per remaining character (one when the code set is settled) -/
theorem c128Loop_good {forced : Option Nat} (hf : ForcedOK forced) :
    ∀ (n : Nat) (v : List Nat), v.length ≤ n → (∀ x ∈ v, c128CharOk forced x = true) →
      ∀ (fuel : Nat) (moved : Bool) (cs : Nat) (acc : List (Nat × Bool)), (∀ e ∈ acc, e.1 < 107) →
        (2 * v.length + 1 ≤ fuel ∨ (v ≠ [] ∧ 2 * v.length ≤ fuel ∧ newCS forced v cs = cs)) →
        Good (c128Loop forced fuel v moved cs acc) := by
  intro n
  induction n with
  | zero =>
    intro v hv _ fuel moved cs acc hacc hfu
    have : v = [] := List.length_eq_zero_iff.mp (by omega)
    subst this
    rcases hfu with h | h
    · obtain ⟨f, rfl⟩ : ∃ f, fuel = f + 1 := ⟨fuel - 1, by simp at h; omega⟩
      simp only [c128Loop]
      exact Or.inl ⟨_, rfl, fun e he => hacc e (List.mem_reverse.mp he)⟩
    · exact absurd rfl h.1
  | succ n ih =>
    intro v hv hok fuel moved cs acc hacc hfu
    cases v with
    | nil =>
      rcases hfu with h | h
      · obtain ⟨f, rfl⟩ : ∃ f, fuel = f + 1 := ⟨fuel - 1, by simp at h; omega⟩
        simp only [c128Loop]
        exact Or.inl ⟨_, rfl, fun e he => hacc e (List.mem_reverse.mp he)⟩
      · exact absurd rfl h.1
    | cons c rest =>
      have hlen : rest.length ≤ n := by simp at hv; omega
      -- the settled case
      have stable : ∀ (fuel : Nat) (moved : Bool) (cs : Nat) (acc : List (Nat × Bool)), (∀ e ∈ acc, e.1 < 107) →
          2 * (c :: rest).length ≤ fuel + 1 → newCS forced (c :: rest) cs = cs →
          Good (c128Loop forced (fuel + 1) (c :: rest) moved cs acc) := by
        intro fuel moved cs acc hacc hfu hst
        apply c128_stable_step hf fuel c rest moved cs acc hok hacc hst
        intro v' acc' hl hok' hacc'
        simp only [List.length_cons] at hl hfu
        exact ih v' (by omega) hok' fuel true cs acc' hacc' (Or.inl (by omega))
      rcases hfu with h | h
      · obtain ⟨f, rfl⟩ : ∃ f, fuel = f + 1 := ⟨fuel - 1, by simp at h; omega⟩
        by_cases hst : newCS forced (c :: rest) cs = cs
        · exact stable f moved cs acc hacc (by omega) hst
        · -- switch the code set, then the settled case
          rw [c128Loop_cons, if_neg hst]
          have hr := newCS_range hf c rest cs
          obtain ⟨f', rfl⟩ : ∃ f', f = f' + 1 := ⟨f - 1, by simp at h; omega⟩
          apply stable f' moved _ _ _ (by omega) (newCS_idem forced _ cs)
          intro e he
          rcases List.mem_cons.mp he with rfl | he
          · simp only
            split
            · split
              · decide
              · split <;> decide
            · omega
          · exact hacc e he
      · obtain ⟨f, rfl⟩ : ∃ f, fuel = f + 1 := ⟨fuel - 1, by simp at h; omega⟩
        exact stable f moved cs acc hacc (by omega) h.2.2

/-- `c128Loop` with the fuel `code128Codes` gives it -/
theorem c128Loop_total {forced : Option Nat} (hf : ForcedOK forced) (contents : List Nat)
    (hok : contents.all (c128CharOk forced) = true) :
    Good (c128Loop forced (2 * contents.length + 2) contents false 0 []) :=
  c128Loop_good hf contents.length contents (Nat.le_refl _) (fun x hx => List.all_eq_true.mp hok x hx)
    _ false 0 [] (by simp) (Or.inl (by omega))

/-- `code128Codes`: symbol characters all below 107 (at least check character and STOP), or a WriterException -/
theorem code128Codes_total {forced : Option Nat} (hf : ForcedOK forced) (contents : List Nat) :
    (∃ codes, code128Codes contents forced = .ok codes ∧ 2 ≤ codes.length ∧ ∀ k ∈ codes, k < 107) ∨
    code128Codes contents forced = .error .writer := by
  by_cases hl : contents.length < 1 ∨ contents.length > 80
  · right
    exact Gzx.Properties.C03.code128_writer_rejects contents forced (by rcases hl with h | h; exact Or.inl h; exact Or.inr (Or.inl h))
  · by_cases hok : contents.all (c128CharOk forced) = true
    · unfold code128Codes
      rcases c128Loop_total hf contents hok with ⟨out, ho, hlt⟩ | he
      · left
        refine ⟨out.map (·.1) ++ [c128WriterSum out 0 1, 106], ?_, ?_, ?_⟩
        · simp only [hl, if_false, hok, Bool.not_true, Bool.false_eq_true, ho, bind, Except.bind, pure, Except.pure]
        · simp
        · intro k hk
          simp only [List.mem_append, List.mem_map, List.mem_cons, List.not_mem_nil, or_false] at hk
          rcases hk with ⟨e, he, rfl⟩ | rfl | rfl
          · exact hlt e he
          · have := c128WriterSum_lt out 0 1; omega
          · decide
      · right
        simp only [hl, if_false, hok, Bool.not_true, Bool.false_eq_true, he, bind, Except.bind]
    · right
      exact Gzx.Properties.C03.code128_writer_rejects contents forced (Or.inr (Or.inr (by simpa using hok)))

end Gzx.OneD
