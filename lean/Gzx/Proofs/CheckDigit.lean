import Gzx.Model.CheckDigit
namespace Gzx.CheckDigit

/-! ## UPC/EAN mod 10 -/

/-- replacing one digit changes the weighted sum by `w·(d' − d)` with `w ∈ {1, 3}` and keeps the weight phase -/
theorem eanSumAux_set (l : List Nat) (i d' : Nat) (hi : i < l.length) :
    (eanSumAux (l.set i d')).2 = (eanSumAux l).2 ∧
    ∃ w, (w = 1 ∨ w = 3) ∧ (eanSumAux (l.set i d')).1 + w * l[i] = (eanSumAux l).1 + w * d' := by
  induction l generalizing i with
  | nil => simp at hi
  | cons x xs ih =>
    cases i with
    | zero =>
      simp only [List.set_cons_zero, eanSumAux, List.getElem_cons_zero, true_and]
      cases (eanSumAux xs).2
      · exact ⟨1, Or.inl rfl, by simp; omega⟩
      · exact ⟨3, Or.inr rfl, by simp; omega⟩
    | succ j =>
      have hj : j < xs.length := by simpa using hi
      obtain ⟨h2, w, hw, hs⟩ := ih j hj
      simp only [List.set_cons_succ, eanSumAux, List.getElem_cons_succ, h2, true_and]
      exact ⟨w, hw, by omega⟩

theorem goCheckOf_eq_mod {a b : Nat} (h : goCheckOf a = goCheckOf b) : a % 10 = b % 10 := by
  unfold goCheckOf at h
  split at h <;> split at h <;> omega

/-- a single changed digit changes the check digit: weights 1 and 3 are units modulo 10 -/
theorem eanCheckDigit_set_ne (ds : List Nat) (i d' : Nat) (hi : i < ds.length)
    (hd : ds[i] < 10) (hd' : d' < 10) (hne : d' ≠ ds[i]) :
    eanCheckDigit (ds.set i d') ≠ eanCheckDigit ds := by
  intro h
  have hm := goCheckOf_eq_mod h
  obtain ⟨_, w, hw, hs⟩ := eanSumAux_set ds i d' hi
  unfold eanSum at hm
  rcases hw with rfl | rfl <;> omega

theorem eanValid_concat (body : List Nat) (c : Nat) :
    eanValid (body ++ [c]) = (eanCheckDigit body == ((c : Nat) : Int)) := by
  simp [eanValid]

theorem goCheckOf_range (s : Nat) : -9 ≤ goCheckOf s ∧ goCheckOf s ≤ 9 := by
  unfold goCheckOf; split <;> omega

theorem eanSum_le (ds : List Nat) (hd : ∀ d ∈ ds, d < 10) : eanSum ds ≤ 27 * ds.length := by
  unfold eanSum
  induction ds with
  | nil => simp [eanSumAux]
  | cons x xs ih =>
    have hx : x < 10 := hd x (by simp)
    have := ih (fun d h => hd d (by simp [h]))
    simp only [eanSumAux, List.length_cons]
    split <;> omega

theorem goCheckOf_nonneg {s : Nat} (h : s ≤ 1000) : goCheckOf s = (((1000 - s) % 10 : Nat) : Int) := by
  simp [goCheckOf, h]

/-! ## digits? -/

theorem digits?_digitBytes (ds : List Nat) (hd : ∀ d ∈ ds, d < 10) : digits? (digitBytes ds) = some ds := by
  induction ds with
  | nil => simp [digitBytes, digits?]
  | cons x xs ih =>
    have hx : x < 10 := hd x (by simp)
    have := ih (fun d h => hd d (by simp [h]))
    simp only [digitBytes, List.map_cons] at this ⊢
    simp only [digits?, isDigitByte, this]
    have h1 : (decide (48 ≤ x + 48) && decide (x + 48 ≤ 57)) = true := by simp; omega
    rw [if_pos h1]; simp

theorem digits?_some_iff (bs : List Nat) : (∃ ds, digits? bs = some ds) ↔ allDigits bs = true := by
  induction bs with
  | nil => simp [digits?, allDigits]
  | cons b bs ih =>
    simp only [digits?, allDigits, List.all_cons] at ih ⊢
    by_cases hb : isDigitByte b = true
    · simp only [hb, if_true, Bool.true_and]
      rw [← ih]
      constructor
      · rintro ⟨ds, h⟩
        cases h' : digits? bs with
        | none => simp [h'] at h
        | some t => exact ⟨t, rfl⟩
      · rintro ⟨ds, h⟩
        exact ⟨(b - 48) :: ds, by simp [h]⟩
    · simp [hb]

theorem digits?_length {bs ds : List Nat} (h : digits? bs = some ds) : ds.length = bs.length := by
  induction bs generalizing ds with
  | nil => simp [digits?] at h; simp [h]
  | cons b bs ih =>
    simp only [digits?] at h
    split at h
    · cases h' : digits? bs with
      | none => simp [h'] at h
      | some t =>
        simp [h'] at h
        subst h
        simp [ih h']
    · cases h

theorem digits?_lt {bs ds : List Nat} (h : digits? bs = some ds) : ∀ d ∈ ds, d < 10 := by
  induction bs generalizing ds with
  | nil => simp [digits?] at h; simp [h]
  | cons b bs ih =>
    simp only [digits?] at h
    split at h
    · rename_i hb
      cases h' : digits? bs with
      | none => simp [h'] at h
      | some t =>
        simp [h'] at h
        subst h
        intro d hd
        simp only [List.mem_cons] at hd
        rcases hd with rfl | hd
        · simp [isDigitByte] at hb; omega
        · exact ih h' d hd
    · cases h

/-! ## parity tables -/

theorem indexOf?_lt {x : Nat} {T : List Nat} {i : Nat} (h : indexOf? x T = some i) : i < T.length := by
  induction T generalizing i with
  | nil => simp [indexOf?] at h
  | cons y ys ih =>
    simp only [indexOf?] at h
    split at h
    · cases h; simp
    · cases h' : indexOf? x ys with
      | none => simp [h'] at h
      | some j => simp [h'] at h; subst h; have := ih h'; simp; omega

theorem indexOf?_get {x : Nat} {T : List Nat} {i : Nat} (h : indexOf? x T = some i) : T[i]? = some x := by
  induction T generalizing i with
  | nil => simp [indexOf?] at h
  | cons y ys ih =>
    simp only [indexOf?] at h
    split at h
    · rename_i hy; cases h; simp [hy]
    · cases h' : indexOf? x ys with
      | none => simp [h'] at h
      | some j => simp [h'] at h; subst h; simpa using ih h'

theorem indexOf?_none {x : Nat} {T : List Nat} (h : indexOf? x T = none) : x ∉ T := by
  induction T with
  | nil => simp
  | cons y ys ih =>
    simp only [indexOf?] at h
    split at h
    · cases h
    · rename_i hy
      cases h' : indexOf? x ys with
      | none => simp [List.mem_cons]; exact ⟨fun e => hy e.symm, ih h'⟩
      | some j => simp [h'] at h

/-- in a table without repetitions the scan finds exactly the index of an entry -/
theorem indexOf?_getElem {T : List Nat} (hT : distinct T = true) (i : Nat) (hi : i < T.length) :
    indexOf? T[i] T = some i := by
  induction T generalizing i with
  | nil => simp at hi
  | cons y ys ih =>
    simp only [distinct, Bool.and_eq_true, Bool.not_eq_true', List.contains_eq_mem,
      decide_eq_false_iff_not] at hT
    cases i with
    | zero => simp [indexOf?]
    | succ j =>
      have hj : j < ys.length := by simpa using hi
      simp only [List.getElem_cons_succ, indexOf?]
      have hne : ¬ y = ys[j] := by
        intro e; apply hT.1; rw [e]; exact List.getElem_mem hj
      simp [hne, ih hT.2 j hj]

end Gzx.CheckDigit

namespace Gzx.CheckDigit

/-! ## no zero divisors modulo 103 and 47 (both prime): checked by kernel evaluation -/

def noZeroDiv (p : Nat) : Bool :=
  (List.range p).all fun a => (List.range p).all fun b => a == 0 || b == 0 || a * b % p != 0

theorem nzd103 : noZeroDiv 103 = true := by decide +kernel
theorem nzd47 : noZeroDiv 47 = true := by decide +kernel

theorem noZeroDiv_spec {p : Nat} (h : noZeroDiv p = true) {a b : Nat} (ha : a < p) (hb : b < p)
    (ha0 : a ≠ 0) (hb0 : b ≠ 0) : a * b % p ≠ 0 := by
  unfold noZeroDiv at h
  rw [List.all_eq_true] at h
  have h1 := h a (List.mem_range.mpr ha)
  rw [List.all_eq_true] at h1
  have h2 := h1 b (List.mem_range.mpr hb)
  simp at h2
  rcases h2 with h2 | h2
  · rcases h2 with h2 | h2
    · exact absurd h2 ha0
    · exact absurd h2 hb0
  · exact h2

/-- `(S + w·v) ≡ (S + w·v')  (mod p)` with `0 < w < p`, `v ≠ v'`, `v, v' < p` is impossible for prime p -/
theorem weighted_change_detected {p : Nat} (hp : noZeroDiv p = true) (S w v v' : Nat)
    (hw0 : w ≠ 0) (hw : w < p) (hv : v < p) (hv' : v' < p) (hne : v ≠ v') :
    (S + w * v) % p ≠ (S + w * v') % p := by
  intro h
  have hp0 : 0 < p := by omega
  -- wlog v' < v
  have key : ∀ a b : Nat, a < p → b < p → b < a → (S + w * a) % p = (S + w * b) % p → False := by
    intro a b ha hb hlt he
    have hle : w * b ≤ w * a := Nat.mul_le_mul_left w (Nat.le_of_lt hlt)
    have hsub : w * a - w * b = w * (a - b) := (Nat.mul_sub w a b).symm
    have hz : (w * (a - b)) % p = 0 := by
      rw [← hsub]
      have e1 : S + w * a = (S + w * b) + (w * a - w * b) := by omega
      rw [e1] at he
      have := Nat.add_mod (S + w * b) (w * a - w * b) p
      -- ((x % p) + (y % p)) % p = x % p  ⇒  y % p = 0
      have hx : (S + w * b) % p < p := Nat.mod_lt _ hp0
      have hy : (w * a - w * b) % p < p := Nat.mod_lt _ hp0
      rw [this] at he
      generalize (S + w * b) % p = x at *
      generalize (w * a - w * b) % p = y at *
      by_cases hxy : x + y < p
      · rw [Nat.mod_eq_of_lt hxy] at he; omega
      · have : (x + y) % p = x + y - p := by
          rw [Nat.mod_eq_sub_mod (by omega)]
          exact Nat.mod_eq_of_lt (by omega)
        omega
    exact noZeroDiv_spec hp hw (show a - b < p by omega) hw0 (by omega) hz
  rcases Nat.lt_or_gt_of_ne hne with hlt | hgt
  · exact key v' v hv' hv hlt h.symm
  · exact key v v' hv hv' hgt h

/-! ## Code 128 -/

theorem wsumFrom_set (w : Nat) (l : List Nat) (i v' : Nat) (hi : i < l.length) :
    wsumFrom w (l.set i v') + (w + i) * l[i] = wsumFrom w l + (w + i) * v' := by
  induction l generalizing w i with
  | nil => simp at hi
  | cons x xs ih =>
    cases i with
    | zero => simp [wsumFrom]; omega
    | succ j =>
      have hj : j < xs.length := by simpa using hi
      have := ih (w + 1) j hj
      simp only [List.set_cons_succ, wsumFrom, List.getElem_cons_succ]
      have e : w + 1 + j = w + (j + 1) := by omega
      rw [e] at this
      omega

theorem wsumFrom_append (w : Nat) (l : List Nat) (c : Nat) :
    wsumFrom w (l ++ [c]) = wsumFrom w l + (w + l.length) * c := by
  induction l generalizing w with
  | nil => simp [wsumFrom]
  | cons x xs ih =>
    simp only [List.cons_append, wsumFrom, ih, List.length_cons]
    have e : w + 1 + xs.length = w + (xs.length + 1) := by omega
    rw [e]; omega

/-! ## Code 93 -/

theorem c93Next_range {maxW w : Nat} (hm : 1 ≤ maxW) (hw : 1 ≤ w ∧ w ≤ maxW) :
    1 ≤ c93Next maxW w ∧ c93Next maxW w ≤ maxW := by
  unfold c93Next; split <;> omega

/-- substituting one character of the (reversed) list changes the sum by `w·(v' − v)` for a weight
    `1 ≤ w ≤ maxW` -/
theorem c93SumRev_set (maxW w : Nat) (l : List Nat) (i v' : Nat) (hi : i < l.length)
    (hm : 1 ≤ maxW) (hw : 1 ≤ w ∧ w ≤ maxW) :
    ∃ u, 1 ≤ u ∧ u ≤ maxW ∧ c93SumRev maxW w (l.set i v') + u * l[i] = c93SumRev maxW w l + u * v' := by
  induction l generalizing w i with
  | nil => simp at hi
  | cons x xs ih =>
    cases i with
    | zero =>
      refine ⟨w, hw.1, hw.2, ?_⟩
      simp only [List.set_cons_zero, c93SumRev, List.getElem_cons_zero]
      rw [Nat.mul_comm x w, Nat.mul_comm v' w]; omega
    | succ j =>
      have hj : j < xs.length := by simpa using hi
      obtain ⟨u, hu1, hu2, hs⟩ := ih (c93Next maxW w) j hj (c93Next_range hm hw)
      refine ⟨u, hu1, hu2, ?_⟩
      simp only [List.set_cons_succ, c93SumRev, List.getElem_cons_succ]
      omega

theorem reverse_set_exists {α} (l : List α) (i : Nat) (a : α) (hi : i < l.length) :
    ∃ j, ∃ hj : j < l.reverse.length, (l.set i a).reverse = l.reverse.set j a ∧ l.reverse[j] = l[i] := by
  induction l generalizing i with
  | nil => simp at hi
  | cons x xs ih =>
    cases i with
    | zero =>
      refine ⟨xs.length, by simp, ?_, ?_⟩
      · simp only [List.set_cons_zero, List.reverse_cons]
        rw [List.set_append_right _ _ (by simp)]
        simp
      · simp
    | succ k =>
      have hk : k < xs.length := by simpa using hi
      obtain ⟨j, hj, h1, h2⟩ := ih k hk
      have hj' : j < xs.reverse.length := hj
      refine ⟨j, by simp at hj ⊢; omega, ?_, ?_⟩
      · simp only [List.set_cons_succ, List.reverse_cons, h1]
        rw [List.set_append_left _ _ hj']
      · simp only [List.reverse_cons, List.getElem_cons_succ]
        rw [List.getElem_append_left hj']
        exact h2

end Gzx.CheckDigit

namespace Gzx.CheckDigit

/-! ## byte level ↔ digit level -/

theorem allDigits_exists (s : List Nat) (hs : allDigits s = true) :
    ∃ ds, s = digitBytes ds ∧ ∀ d ∈ ds, d < 10 := by
  induction s with
  | nil => exact ⟨[], rfl, by simp⟩
  | cons b bs ih =>
    simp only [allDigits, List.all_cons, Bool.and_eq_true] at hs
    obtain ⟨ds, rfl, hd⟩ := ih hs.2
    have hb := hs.1
    simp only [isDigitByte, Bool.and_eq_true, decide_eq_true_eq] at hb
    refine ⟨(b - 48) :: ds, ?_, ?_⟩
    · simp only [digitBytes, List.map_cons]; congr 1; omega
    · intro d hm
      simp only [List.mem_cons] at hm
      rcases hm with rfl | hm
      · omega
      · exact hd d hm

theorem allDigits_digitBytes (ds : List Nat) (hd : ∀ d ∈ ds, d < 10) : allDigits (digitBytes ds) = true := by
  simp only [allDigits, digitBytes, List.all_map, List.all_eq_true]
  intro d hm
  have := hd d hm
  simp [isDigitByte]; omega

theorem eanChecksumB_digitBytes (ds : List Nat) (hd : ∀ d ∈ ds, d < 10) :
    eanChecksumB (digitBytes ds) = .ok (eanCheckDigit ds) := by
  simp [eanChecksumB, digits?_digitBytes ds hd]

theorem digitBytes_concat (ds : List Nat) (c : Nat) : digitBytes (ds ++ [c]) = digitBytes ds ++ [c + 48] := by
  simp [digitBytes]

theorem checkStandardB_digitBytes (ds : List Nat) (hd : ∀ d ∈ ds, d < 10) :
    checkStandardB (digitBytes ds) = .ok (eanValid ds) := by
  by_cases hne : ds = []
  · subst hne; simp [checkStandardB, digitBytes, eanValid]
  · obtain ⟨body, c, rfl⟩ : ∃ body c, ds = body ++ [c] :=
      ⟨ds.dropLast, ds.getLast hne, (List.dropLast_concat_getLast hne).symm⟩
    have hc : c < 10 := hd c (by simp)
    have hb : ∀ d ∈ body, d < 10 := fun d h => hd d (by simp [h])
    rw [digitBytes_concat, eanValid_concat]
    simp only [checkStandardB, List.getLast?_concat, List.dropLast_concat, eanChecksumB_digitBytes body hb]
    have : byteMinus0 (c + 48) = c := by unfold byteMinus0; omega
    rw [this]

theorem digitBytes_set (ds : List Nat) (i d : Nat) : (digitBytes ds).set i (d + 48) = digitBytes (ds.set i d) := by
  simp [digitBytes, List.map_set]

end Gzx.CheckDigit

namespace Gzx.CheckDigit

theorem take1_of_len_le {α} (l : List α) (h : ¬ l.length > 1) : l.take 1 = l := by
  match l with
  | [] => rfl
  | [_] => rfl
  | _ :: _ :: _ => simp at h


/-- a 10-entry parity table without repetitions -/
def WFParity (T : List Nat) : Bool := T.length == 10 && distinct T

/-- two rows of ten, all twenty entries different -/
def WFParity2 (T : List (List Nat)) : Bool :=
  match T with
  | [r0, r1] => r0.length == 10 && r1.length == 10 && distinct (r0 ++ r1)
  | _ => false

theorem scan10_getElem {T : List Nat} (h : WFParity T = true) (d : Nat) (hd : d < 10) :
    ∃ hd' : d < T.length, scan10 T T[d] = .ok d := by
  simp only [WFParity, Bool.and_eq_true, beq_iff_eq] at h
  have hd' : d < T.length := by omega
  refine ⟨hd', ?_⟩
  unfold scan10
  rw [List.take_of_length_le (by omega), indexOf?_getElem h.2 d hd']

theorem scan10_ok {T : List Nat} {lg d : Nat} (h : scan10 T lg = .ok d) : d < 10 ∧ T[d]? = some lg := by
  unfold scan10 at h
  split at h
  · rename_i d' hd
    cases h
    have h1 := indexOf?_lt hd
    have h2 := indexOf?_get hd
    simp only [List.length_take] at h1
    refine ⟨by omega, ?_⟩
    rw [List.getElem?_take] at h2
    split at h2
    · exact h2
    · cases h2
  · split at h <;> cases h


theorem distinct_append_left {a b : List Nat} (h : distinct (a ++ b) = true) : distinct a = true := by
  induction a with
  | nil => rfl
  | cons x xs ih =>
    simp only [List.cons_append, distinct, Bool.and_eq_true, Bool.not_eq_true', List.contains_eq_mem,
      decide_eq_false_iff_not, List.mem_append, not_or] at h ⊢
    exact ⟨h.1.1, ih h.2⟩

theorem distinct_append_right {a b : List Nat} (h : distinct (a ++ b) = true) : distinct b = true := by
  induction a with
  | nil => exact h
  | cons x xs ih =>
    simp only [List.cons_append, distinct, Bool.and_eq_true] at h
    exact ih h.2

theorem distinct_append_disjoint {a b : List Nat} (h : distinct (a ++ b) = true) : ∀ x ∈ a, x ∉ b := by
  induction a with
  | nil => simp
  | cons y ys ih =>
    simp only [List.cons_append, distinct, Bool.and_eq_true, Bool.not_eq_true', List.contains_eq_mem,
      decide_eq_false_iff_not, List.mem_append, not_or] at h
    intro x hx
    simp only [List.mem_cons] at hx
    rcases hx with rfl | hx
    · exact h.1.2
    · exact ih h.2 x hx


end Gzx.CheckDigit

namespace Gzx.CheckDigit

theorem c93ReaderAccept_concat (data : List Nat) (c k : Nat) :
    c93ReaderAccept (data ++ [c, k]) = .ok (c93Check 20 data == c && c93Check 15 (data ++ [c]) == k) := by
  unfold c93ReaderAccept
  have h1 : (data ++ [c, k]).length = data.length + 2 := by simp
  rw [h1]
  have e1 : (data ++ [c, k]).drop (data.length + 2 - 2) = [c, k] := by simp
  have e2 : (data ++ [c, k]).take (data.length + 2 - 2) = data := by simp
  have e3 : (data ++ [c, k]).take (data.length + 2 - 1) = data ++ [c] := by
    have : data.length + 2 - 1 = data.length + 1 := by omega
    rw [this, List.take_append, List.take_of_length_le (by omega)]
    simp
  rw [e1, e2, e3]
  simp


theorem itoaSmall_nat (n : Nat) : itoaSmall (n : Int) = [48 + n] := by
  unfold itoaSmall
  have : ¬ (n : Int) < 0 := by omega
  rw [if_neg this]
  simp


end Gzx.CheckDigit

namespace Gzx.CheckDigit

/-- digit-level UPC-E → UPC-A expansion (GS1 General Specifications): number system, six digits, optional check digit -/
def expandD : List Nat → Option (List Nat)
  | n :: a :: b :: c :: d :: e :: l :: rest =>
    some (n :: (if l ≤ 2 then [a, b, l, 0, 0, 0, 0, c, d, e]
                else if l = 3 then [a, b, c, 0, 0, 0, 0, 0, d, e]
                else if l = 4 then [a, b, c, d, 0, 0, 0, 0, 0, e]
                else [a, b, c, d, e, 0, 0, 0, 0, l]) ++ rest.take 1)
  | _ => none

theorem convert_digitBytes (ds : List Nat) (hl : 7 ≤ ds.length) :
    ∃ a, expandD ds = some a ∧ convertUPCEtoUPCA (digitBytes ds) = .ok (digitBytes a) := by
  match ds, hl with
  | n :: a :: b :: c :: d :: e :: l :: rest, _ =>
    refine ⟨_, rfl, ?_⟩
    simp only [digitBytes, List.map_cons, convertUPCEtoUPCA]
    by_cases h2 : l ≤ 2
    · have : l = 0 ∨ l = 1 ∨ l = 2 := by omega
      simp [this, h2, List.map_take]
    · have n1 : ¬ (l = 0 ∨ l = 1 ∨ l = 2) := by omega
      by_cases h3 : l = 3
      · subst h3; simp [List.map_take]
      · by_cases h4 : l = 4
        · subst h4; simp [List.map_take]
        · simp [n1, h2, h3, h4, List.map_take]

theorem expandD_lt (ds a : List Nat) (hd : ∀ d ∈ ds, d < 10) (h : expandD ds = some a) : ∀ d ∈ a, d < 10 := by
  unfold expandD at h
  split at h
  · rename_i n a' b c d e l rest
    cases h
    intro x hx
    have hr : ∀ y ∈ rest.take 1, y < 10 := fun y hy => hd y (by
      have := List.mem_of_mem_take hy
      simp [this])
    simp only [List.cons_append, List.mem_cons, List.mem_append] at hx
    have hn := hd n (by simp)
    have ha := hd a' (by simp)
    have hb := hd b (by simp)
    have hc := hd c (by simp)
    have hdd := hd d (by simp)
    have he := hd e (by simp)
    have hl := hd l (by simp)
    rcases hx with rfl | hx
    · exact hn
    · rcases hx with hx | hx
      · split at hx
        · simp at hx; omega
        · split at hx
          · simp at hx; omega
          · split at hx <;> (simp at hx; omega)
      · exact hr x hx
  · cases h


/-- which zero-suppression rule the last body digit of a UPC-E number selects -/
def ruleClass (l : Nat) : Nat := if l ≤ 2 then 0 else if l = 3 then 1 else if l = 4 then 2 else 3

theorem ruleClass_eq {x l : Nat} (h : ruleClass l = ruleClass x) :
    (l ≤ 2 → x ≤ 2) ∧ (l = 3 → x = 3) ∧ (l = 4 → x = 4) ∧ (5 ≤ l → 5 ≤ x) := by
  unfold ruleClass at h
  split at h <;> split at h <;> (try split at h) <;> (try split at h) <;> (try split at h) <;> (try split at h) <;> omega

theorem expandD_seven (n a b c d e l : Nat) (x : List Nat)
    (h : expandD [n, a, b, c, d, e, l] = some x) (k : Nat) :
    expandD [n, a, b, c, d, e, l, k] = some (x ++ [k]) := by
  simp only [expandD] at h ⊢
  cases h
  simp


end Gzx.CheckDigit
