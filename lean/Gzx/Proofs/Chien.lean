/-
  Chien search of the model (`chien`, `findErrorLocations`) on the true locator: it returns exactly the error
  locators, each once.  Helper lemmas for Properties/C04.lean.  Core Lean only.
-/
import Gzx.Proofs.Sugiyama
namespace Gzx.Proofs.Chien
open Gzx Gzx.GF Gzx.RS Gzx.Ref.GF Gzx.Proofs.GF Gzx.Proofs.Poly Gzx.Proofs.Conv Gzx.Proofs.Coef
  Gzx.Proofs.MinDist Gzx.Proofs.SingleError Gzx.Proofs.KeyEq Gzx.Proofs.Locator Gzx.Proofs.Sugiyama
  Gzx.Proofs.Total

section F
variable {F : GF} (hF : FieldOK F)
include hF

theorem invOf_spec (x : Nat) (h0 : x ≠ 0) (hx : x < F.size) :
    F.inv x = .ok (invOf F x) ∧ invOf F x < F.size ∧ invOf F x ≠ 0 ∧ gmul F.prim x (invOf F x) = 1 := by
  obtain ⟨v, hv, hvlt, hv0, hmul⟩ := F_inv hF x h0 hx
  have : invOf F x = v := by unfold invOf; rw [hv]
  rw [this]
  exact ⟨hv, hvlt, hv0, hmul⟩

/-- the inverse of the inverse -/
theorem invOf_invOf (x : Nat) (h0 : x ≠ 0) (hx : x < F.size) : invOf F (invOf F x) = x := by
  have ok := hF.2
  obtain ⟨_, h2, h3, h4⟩ := invOf_spec hF x h0 hx
  obtain ⟨_, g2, _, g4⟩ := invOf_spec hF (invOf F x) h3 h2
  -- both `invOf (invOf x)` and `x` are inverses of `invOf x`
  apply inv_unique ok _ _ (invOf F x) g2 hx h2
  · rw [gmul_comm ok _ _ g2 h2]; exact g4
  · exact h4

/-- the loop collects the inverses of all roots among the candidates, in order, as long as the bound allows -/
theorem chien_eq (sigma : List Nat) (hs : WF F.size sigma) (n : Nat) : ∀ (cands acc : List Nat),
    (∀ i, i ∈ cands → i ≠ 0 ∧ i < F.size) →
    acc.length + (cands.filter (fun i => evalH F.prim i sigma == 0)).length ≤ n →
    chien F sigma n cands acc =
      .ok (acc ++ (cands.filter (fun i => evalH F.prim i sigma == 0)).map (invOf F))
  | [], acc, _, _ => by simp [chien]
  | i :: is, acc, hc, hlen => by
    have hi := hc i (by simp)
    have hc' : ∀ j, j ∈ is → j ≠ 0 ∧ j < F.size := fun j hj => hc j (List.mem_cons_of_mem _ hj)
    unfold chien
    by_cases hfull : acc.length ≥ n
    · rw [if_pos hfull]
      have : (List.filter (fun i => evalH F.prim i sigma == 0) (i :: is)) = [] := by
        apply List.eq_nil_of_length_eq_zero; omega
      rw [this]; simp
    · rw [if_neg hfull, evaluateAt_ok hF sigma hs.2.ne_nil hs.1 i hi.2]
      simp only [bind, Except.bind]
      by_cases hv : evalH F.prim i sigma = 0
      · rw [if_pos hv, (invOf_spec hF i hi.1 hi.2).1]
        simp only
        have hf : List.filter (fun i => evalH F.prim i sigma == 0) (i :: is) =
            i :: List.filter (fun i => evalH F.prim i sigma == 0) is := by
          rw [List.filter_cons_of_pos (by simp [hv])]
        rw [hf] at hlen ⊢
        rw [chien_eq sigma hs n is (acc ++ [invOf F i]) hc' (by simp at hlen ⊢; omega)]
        simp
      · rw [if_neg hv]
        have hf : List.filter (fun i => evalH F.prim i sigma == 0) (i :: is) =
            List.filter (fun i => evalH F.prim i sigma == 0) is := by
          rw [List.filter_cons_of_neg (by simp [hv])]
        rw [hf] at hlen ⊢
        exact chien_eq sigma hs n is acc hc' hlen

/-- `findErrorLocations` on (a polynomial with the coefficients of) the true locator returns the error
    locators: no duplicates, exactly the locators of `L` -/
theorem findErrorLocations_ok (L : List (Nat × Nat)) (hE : ErrSet F.prim F.size L (invOf F))
    (hs1 : 1 ≤ L.length) (sigma : List Nat) (hswf : WF F.size sigma) (hslen : sigma.length = L.length + 1)
    (hscoef : ∀ m, coef sigma m = coef (lamList F.prim L) m) :
    ∃ locs, findErrorLocations F sigma = .ok locs ∧ locs.Nodup ∧ (∀ x, x ∈ locs ↔ ∃ p, p ∈ L ∧ p.2 = x) := by
  have ok := hF.2
  have hsz := size_pos hF
  have hval : ∀ i, i < F.size → evalH F.prim i sigma = lamVal F.prim L i := by
    intro i hi
    rw [evalH_congr_coef ok i hi sigma _ hswf.1 (lamList_inR ok L) hscoef, evalH_lamList ok i hi L hE.inr]
  unfold findErrorLocations
  by_cases h1 : degree sigma = 1
  · -- one error: the shortcut returns the coefficient of x
    have hL1 : L.length = 1 := by unfold degree at h1; omega
    obtain ⟨p, rfl⟩ : ∃ p, L = [p] := by
      cases L with
      | nil => simp at hL1
      | cons p t =>
        cases t with
        | nil => exact ⟨p, rfl⟩
        | cons q t => simp at hL1
    have hp := hE.inr p (by simp)
    have hc1 : coef sigma 1 = p.2 := by
      rw [hscoef 1]
      show coef (mulLin F.prim p.2 [1]) 1 = p.2
      rw [coef_mulLin ok]
      simp only [coef, List.length_nil, ge_iff_le, Nat.le_refl, if_true, Nat.sub_self]
      simp [gmul_one_right ok p.2 hp.2]
    simp only [h1, if_true, getCoefficient_eq_coef sigma 1 (by omega), hc1, liftD, bind, Except.bind]
    refine ⟨[p.2], rfl, by simp, ?_⟩
    intro x
    constructor
    · intro hx; simp at hx; exact ⟨p, by simp, hx.symm⟩
    · intro ⟨q, hq, hqx⟩; simp at hq; rw [← hqx, hq]; simp
  · simp only [h1, if_false]
    have hdeg : degree sigma = L.length := by unfold degree; omega
    -- the roots among the candidates
    have hcands : ∀ i, i ∈ List.range' 1 (F.size - 1) → i ≠ 0 ∧ i < F.size := by
      intro i hi
      have := List.mem_range'_1.1 hi
      constructor <;> omega
    have hroot_iff : ∀ i, i ∈ (List.range' 1 (F.size - 1)).filter (fun i => evalH F.prim i sigma == 0) ↔
        ∃ p, p ∈ L ∧ i = invOf F p.2 := by
      intro i
      rw [List.mem_filter]
      constructor
      · intro ⟨hi, hr⟩
        have hib := hcands i hi
        have hr' : evalH F.prim i sigma = 0 := by simpa using hr
        rw [hval i hib.2] at hr'
        obtain ⟨p, hp, hpi⟩ := (lamVal_eq_zero_iff ok i hib.2 L hE.inr).1 hr'
        refine ⟨p, hp, ?_⟩
        have hinv := hE.inv p hp
        apply inv_unique ok _ _ p.2 hib.2 hinv.1 (hE.inr p hp).2
        · rw [gmul_comm ok _ _ hib.2 (hE.inr p hp).2]; exact hpi
        · rw [gmul_comm ok _ _ hinv.1 (hE.inr p hp).2]; exact hinv.2
      · intro ⟨p, hp, hi⟩
        have hinv := hE.inv p hp
        have hne : invOf F p.2 ≠ 0 := by
          intro h0
          have := hinv.2
          rw [h0, gmul_zero_right ok] at this
          exact absurd this (by decide)
        subst hi
        refine ⟨List.mem_range'_1.2 (by omega), ?_⟩
        rw [hval _ hinv.1, (lamVal_eq_zero_iff ok _ hinv.1 L hE.inr).2 ⟨p, hp, hinv.2⟩]
        rfl
    have hrnd : ((List.range' 1 (F.size - 1)).filter (fun i => evalH F.prim i sigma == 0)).Nodup :=
      List.Pairwise.filter _ (List.nodup_range' 1)
    obtain ⟨hnd0, _⟩ := inv_nodup hF L (invOf F) hE
    have hnd := (List.nodup_cons.1 hnd0).2
    have hlen1 : ((List.range' 1 (F.size - 1)).filter (fun i => evalH F.prim i sigma == 0)).length ≤ L.length := by
      have := List.Nodup.length_le_of_subset hrnd (l₂ := L.map (fun p => invOf F p.2)) (by
        intro i hi
        obtain ⟨p, hp, rfl⟩ := (hroot_iff i).1 hi
        exact List.mem_map.2 ⟨p, hp, rfl⟩)
      simpa using this
    have hlen2 : L.length ≤ ((List.range' 1 (F.size - 1)).filter (fun i => evalH F.prim i sigma == 0)).length := by
      have := List.Nodup.length_le_of_subset hnd
        (l₂ := (List.range' 1 (F.size - 1)).filter (fun i => evalH F.prim i sigma == 0)) (by
        intro i hi
        obtain ⟨p, hp, rfl⟩ := List.mem_map.1 hi
        exact (hroot_iff _).2 ⟨p, hp, rfl⟩)
      simpa using this
    rw [chien_eq hF sigma hswf (degree sigma) _ [] hcands (by rw [hdeg]; simpa using hlen1)]
    simp only [liftD, bind, Except.bind, List.nil_append, List.length_map]
    have hcnt : ¬ ((List.range' 1 (F.size - 1)).filter (fun i => evalH F.prim i sigma == 0)).length ≠ degree sigma := by
      rw [hdeg]; omega
    simp only [hcnt, if_false, pure, Except.pure]
    refine ⟨_, rfl, ?_, ?_⟩
    · -- no duplicates: invOf is injective on the roots
      rw [List.nodup_iff_pairwise_ne, List.pairwise_map]
      apply (List.nodup_iff_pairwise_ne.1 hrnd).imp_of_mem
      intro i j hi hj hne heq
      apply hne
      obtain ⟨p, hp, rfl⟩ := (hroot_iff i).1 hi
      obtain ⟨q, hq, rfl⟩ := (hroot_iff j).1 hj
      rw [invOf_invOf hF p.2 (hE.xnz p hp) (hE.inr p hp).2, invOf_invOf hF q.2 (hE.xnz q hq) (hE.inr q hq).2] at heq
      rw [heq]
    · intro x
      rw [List.mem_map]
      constructor
      · intro ⟨i, hi, hix⟩
        obtain ⟨p, hp, rfl⟩ := (hroot_iff i).1 hi
        rw [invOf_invOf hF p.2 (hE.xnz p hp) (hE.inr p hp).2] at hix
        exact ⟨p, hp, hix⟩
      · intro ⟨p, hp, hpx⟩
        exact ⟨invOf F p.2, (hroot_iff _).2 ⟨p, hp, rfl⟩, by
          rw [invOf_invOf hF p.2 (hE.xnz p hp) (hE.inr p hp).2, hpx]⟩

end F
end Gzx.Proofs.Chien
