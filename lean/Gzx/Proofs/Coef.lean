/-
  Coefficient semantics of the polynomial operations of Model/RS.lean: `coef p m` is the coefficient of
  `x^m` of a coefficient list (highest degree first).  Every operation is described coefficient-wise
  (sum, shift, scaling, convolution product).  Helper lemmas for Properties/C04.lean.  Core Lean only.
-/
import Gzx.Proofs.Conv
import Gzx.Proofs.PolyOps
import Gzx.Proofs.MinDist
namespace Gzx.Proofs.Coef
open Gzx Gzx.GF Gzx.RS Gzx.Ref.GF Gzx.Proofs.GF Gzx.Proofs.Poly Gzx.Proofs.Conv

/-- coefficient of `x^m` -/
def coef : List Nat → Nat → Nat
  | [], _ => 0
  | c :: cs, m => if m = cs.length then c else coef cs m

theorem coef_ge : ∀ (p : List Nat) (m : Nat), p.length ≤ m → coef p m = 0
  | [], _, _ => rfl
  | c :: cs, m, h => by
    simp only [List.length_cons] at h
    have : ¬ m = cs.length := by omega
    simp only [coef, this, if_false]
    exact coef_ge cs m (by omega)

theorem coef_head (c : Nat) (cs : List Nat) : coef (c :: cs) cs.length = c := by simp [coef]

theorem coef_cons_lt (c : Nat) (cs : List Nat) (m : Nat) (h : m < cs.length) : coef (c :: cs) m = coef cs m := by
  have : ¬ m = cs.length := by omega
  simp [coef, this]

theorem coef_zero_cons (cs : List Nat) (m : Nat) : coef (0 :: cs) m = coef cs m := by
  by_cases h : m = cs.length
  · subst h; simp [coef, coef_ge cs cs.length (Nat.le_refl _)]
  · simp [coef, h]

theorem coef_lt {size : Nat} (hs : 0 < size) : ∀ (p : List Nat), InR size p → ∀ m, coef p m < size
  | [], _, _ => hs
  | c :: cs, hp, m => by
    unfold coef
    split
    · exact hp.head
    · exact coef_lt hs cs hp.tail m

theorem coef_append : ∀ (xs ys : List Nat) (m : Nat),
    coef (xs ++ ys) m = if m < ys.length then coef ys m else coef xs (m - ys.length)
  | [], ys, m => by
    simp only [List.nil_append]
    split
    · rfl
    · rw [coef_ge ys m (by omega)]; rfl
  | x :: xs, ys, m => by
    simp only [List.cons_append, coef, List.length_append]
    by_cases h : m = xs.length + ys.length
    · have h1 : ¬ m < ys.length := by omega
      have h2 : m - ys.length = xs.length := by omega
      rw [if_pos h, if_neg h1, if_pos h2]
    · rw [if_neg h, coef_append xs ys m]
      by_cases h1 : m < ys.length
      · simp [h1]
      · have h2 : ¬ m - ys.length = xs.length := by omega
        simp [h1, h2]

theorem coef_replicate_zero (k m : Nat) : coef (List.replicate k 0) m = 0 := by
  induction k with
  | zero => rfl
  | succ k ih => rw [List.replicate_succ, coef_zero_cons, ih]

theorem coef_dropWhile : ∀ (p : List Nat) (m : Nat), coef (p.dropWhile (· == 0)) m = coef p m
  | [], _ => rfl
  | c :: cs, m => by
    rw [List.dropWhile_cons]
    by_cases h : c = 0
    · subst h
      simp only [BEq.rfl, if_true]
      rw [coef_dropWhile cs m, coef_zero_cons]
    · have : (c == 0) = false := by simpa using h
      rw [this]; rfl

theorem coef_normalize (p : List Nat) (m : Nat) : coef (normalize p) m = coef p m := by
  unfold normalize
  have := coef_dropWhile p m
  split
  · rename_i h
    rw [h] at this
    rw [← this]
    show coef [0] m = coef [] m
    rw [coef_zero_cons]
  · exact this

theorem coef_zipWith_xor : ∀ (xs ys : List Nat) (m : Nat), xs.length = ys.length →
    coef (List.zipWith (· ^^^ ·) xs ys) m = coef xs m ^^^ coef ys m
  | [], [], _, _ => by simp [coef]
  | [], _ :: _, _, h => by simp at h
  | _ :: _, [], _, h => by simp at h
  | x :: xs, y :: ys, m, h => by
    have hl : xs.length = ys.length := by simpa using h
    simp only [List.zipWith_cons_cons, coef, List.length_zipWith, hl, Nat.min_self]
    split
    · rfl
    · exact coef_zipWith_xor xs ys m hl

theorem coef_take_drop (l : List Nat) (d m : Nat) :
    coef l m = if m < (l.drop d).length then coef (l.drop d) m else coef (l.take d) (m - (l.drop d).length) := by
  have := coef_append (l.take d) (l.drop d) m
  rw [List.take_append_drop] at this
  exact this

section field
variable {prim size : Nat} (ok : ParamsOK prim size)
include ok

theorem coef_map_gmul (c : Nat) : ∀ (p : List Nat) (m : Nat),
    coef (p.map (gmul prim c)) m = gmul prim c (coef p m)
  | [], _ => (gmul_zero_right ok c).symm
  | x :: xs, m => by
    simp only [List.map_cons, coef, List.length_map]
    split
    · rfl
    · exact coef_map_gmul c xs m

/-- value = Σ coefficient · a^m -/
theorem evalH_eq_xsum (a : Nat) (ha : a < size) : ∀ (p : List Nat), InR size p →
    evalH prim a p = xsum p.length (fun m => gmul prim (gpow prim a m) (coef p m))
  | [], _ => rfl
  | c :: cs, hp => by
    rw [Gzx.Proofs.MinDist.evalH_cons ok a ha c cs hp.head hp.tail, evalH_eq_xsum a ha cs hp.tail]
    show _ = xsum cs.length _ ^^^ gmul prim (gpow prim a cs.length) (coef (c :: cs) cs.length)
    rw [coef_head, Nat.xor_comm]
    congr 1
    apply xsum_congr
    intro m hm
    rw [coef_cons_lt c cs m hm]

theorem evalH_eq_xsum_ge (a : Nat) (ha : a < size) (p : List Nat) (hp : InR size p) (N : Nat)
    (hN : p.length ≤ N) :
    evalH prim a p = xsum N (fun m => gmul prim (gpow prim a m) (coef p m)) := by
  rw [evalH_eq_xsum ok a ha p hp]
  symm
  apply xsum_extend hN
  intro j h1 _
  rw [coef_ge p j h1, gmul_zero_right ok]

end field

theorem coef_add_aligned (s l : List Nat) (h : s.length ≤ l.length) (m : Nat) :
    coef (l.take (l.length - s.length) ++ List.zipWith (· ^^^ ·) s (l.drop (l.length - s.length))) m =
      coef s m ^^^ coef l m := by
  have hd : (l.drop (l.length - s.length)).length = s.length := by rw [List.length_drop]; omega
  rw [coef_append, List.length_zipWith, hd, Nat.min_self, coef_take_drop l (l.length - s.length) m, hd]
  by_cases hm : m < s.length
  · rw [if_pos hm, if_pos hm, coef_zipWith_xor _ _ _ hd.symm]
  · rw [if_neg hm, if_neg hm, coef_ge s m (by omega), Nat.zero_xor]

section F
variable {F : GF} (hF : FieldOK F)
include hF

theorem coef_zero_poly (m : Nat) : coef [0] m = 0 := by rw [coef_zero_cons]; rfl

/-- `AddOrSubtract` adds coefficient-wise -/
theorem addOrSubtract_coef (p q r : List Nat) (hp : WF F.size p) (hq : WF F.size q)
    (h : addOrSubtract p q = .ok r) (m : Nat) : coef r m = coef p m ^^^ coef q m := by
  unfold addOrSubtract at h
  by_cases hzp : isZero p = true
  · rw [if_pos hzp] at h
    have := (isZero_iff hp.2).1 hzp
    subst this
    cases h
    rw [coef_zero_poly hF, Nat.zero_xor]
  · rw [if_neg hzp] at h
    by_cases hzq : isZero q = true
    · rw [if_pos hzq] at h
      have := (isZero_iff hq.2).1 hzq
      subst this
      cases h
      rw [coef_zero_poly hF, Nat.xor_zero]
    · rw [if_neg hzq] at h
      have hpl : 0 < p.length := List.length_pos_iff.2 hp.2.ne_nil
      have hql : 0 < q.length := List.length_pos_iff.2 hq.2.ne_nil
      by_cases hlen : p.length > q.length
      · simp only [hlen, if_true] at h
        rw [mkPoly_ok _ (by
          intro h0; have := congrArg List.length h0
          rw [List.length_append, List.length_take, List.length_zipWith, List.length_drop, List.length_nil] at this
          omega)] at h
        cases h
        rw [coef_normalize, coef_add_aligned q p (by omega), Nat.xor_comm]
      · simp only [hlen, if_false] at h
        rw [mkPoly_ok _ (by
          intro h0; have := congrArg List.length h0
          rw [List.length_append, List.length_take, List.length_zipWith, List.length_drop, List.length_nil] at this
          omega)] at h
        cases h
        rw [coef_normalize, coef_add_aligned p q (by omega)]

/-- `MultiplyByMonomial(d, c)` shifts by `d` and scales by `c` -/
theorem multiplyByMonomial_coef (p r : List Nat) (hp : WF F.size p) (d c : Nat) (hc : c < F.size)
    (h : multiplyByMonomial F p d c = .ok r) (m : Nat) :
    coef r m = if m ≥ d then gmul F.prim c (coef p (m - d)) else 0 := by
  have ok := hF.2
  unfold multiplyByMonomial at h
  by_cases h0 : c = 0
  · subst h0
    rw [if_pos rfl] at h
    cases h
    rw [coef_zero_poly hF]
    split
    · rw [gmul_zero_left ok _ (coef_lt (size_pos hF) p hp.1 _)]
    · rfl
  · rw [if_neg h0, scale_mapM hF p hp.1 c hc] at h
    simp only [bind, Except.bind] at h
    rw [mkPoly_ok _ (by
      have := hp.2.ne_nil
      cases p with
      | nil => exact absurd rfl this
      | cons x xs => simp)] at h
    cases h
    rw [coef_normalize, coef_append, List.length_replicate]
    by_cases hm : m < d
    · have : ¬ m ≥ d := by omega
      rw [if_pos hm, if_neg this, coef_replicate_zero]
    · have : m ≥ d := by omega
      rw [if_neg hm, if_pos this, coef_map_gmul ok]

/-- `BuildMonomial(d, c)` -/
theorem buildMonomial_coef (d c : Nat) (r : List Nat) (h : buildMonomial d c = .ok r) (m : Nat) :
    coef r m = if m = d then c else 0 := by
  unfold buildMonomial at h
  by_cases h0 : c = 0
  · rw [if_pos h0] at h
    cases h
    rw [coef_zero_poly hF, h0]; simp
  · rw [if_neg h0, mkPoly_ok _ (by simp)] at h
    cases h
    rw [coef_normalize]
    simp only [coef, List.length_replicate, coef_replicate_zero]

/-- `MultiplyBy(s)` scales every coefficient -/
theorem multiplyBy_coef (p r : List Nat) (hp : WF F.size p) (s : Nat) (hs : s < F.size)
    (h : multiplyBy F p s = .ok r) (m : Nat) : coef r m = gmul F.prim s (coef p m) := by
  have ok := hF.2
  have hcl := coef_lt (size_pos hF) p hp.1 m
  unfold multiplyBy at h
  by_cases h0 : s = 0
  · subst h0
    rw [if_pos rfl] at h
    cases h
    rw [coef_zero_poly hF, gmul_zero_left ok _ hcl]
  · rw [if_neg h0] at h
    by_cases h1 : s = 1
    · subst h1
      rw [if_pos rfl] at h
      cases h
      rw [gmul_one_left ok _ hcl]
    · rw [if_neg h1, scale_mapM hF p hp.1 s hs] at h
      simp only [bind, Except.bind] at h
      rw [mkPoly_ok _ (by
        have := hp.2.ne_nil
        cases p with
        | nil => exact absurd rfl this
        | cons x xs => simp)] at h
      cases h
      rw [coef_normalize, coef_map_gmul ok]

/-- the coefficient double loop is the convolution product -/
theorem mulRaw_coef (b : List Nat) (hb : InR F.size b) (hbne : b ≠ []) : ∀ (as r : List Nat), InR F.size as →
    mulRaw F as b = .ok r → ∀ m, coef r m = conv F.prim (coef as) (coef b) m
  | [], r, _, h, m => by
    have ok := hF.2
    cases h
    rw [coef_replicate_zero]
    symm
    apply xsum_zero
    intro j _
    show gmul F.prim 0 _ = 0
    exact gmul_zero_left ok _ (coef_lt (size_pos hF) b hb _)
  | a0 :: as, r, has, h, m => by
    have ok := hF.2
    obtain ⟨rest, hrest, hrin, hrlen, _, _⟩ := mulRaw_spec hF b hb hbne as has.tail
    have hbl : 0 < b.length := List.length_pos_iff.2 hbne
    unfold mulRaw at h
    rw [scale_mapM' hF b hb a0 has.head, hrest] at h
    simp only [bind, Except.bind] at h
    cases h
    have hle : (List.map (gmul F.prim a0) b).length ≤ (0 :: rest).length := by
      simp [hrlen]; omega
    have hk : (0 :: rest).length - (List.map (gmul F.prim a0) b).length = as.length := by
      simp [hrlen]; omega
    rw [addInto_eq _ _ hle, hk, coef_zipWith_xor _ _ _ (by simp [hrlen]; omega), coef_zero_cons,
      mulRaw_coef b hb hbne as rest has.tail hrest m, coef_append, List.length_replicate, coef_replicate_zero,
      coef_map_gmul ok]
    -- split the convolution at the index of the leading coefficient
    unfold conv
    have hsplit : ∀ j, gmul F.prim (coef (a0 :: as) j) (coef b (m - j)) =
        (if j = as.length then gmul F.prim a0 (coef b (m - as.length)) else 0) ^^^
          gmul F.prim (coef as j) (coef b (m - j)) := by
      intro j
      by_cases hj : j = as.length
      · subst hj
        rw [coef_head, if_pos rfl, coef_ge as as.length (Nat.le_refl _),
          gmul_zero_left ok _ (coef_lt (size_pos hF) b hb _), Nat.xor_zero]
      · simp only [coef, hj, if_false, Nat.zero_xor]
    rw [xsum_congr (fun j _ => hsplit j), xsum_xor]
    congr 1
    by_cases hm : m < as.length
    · rw [if_pos hm]
      symm
      apply xsum_zero
      intro j hj
      have : ¬ j = as.length := by omega
      rw [if_neg this]
    · rw [if_neg hm]
      have := xsum_single (n := m + 1)
        (F := fun j => if j = as.length then gmul F.prim a0 (coef b (m - as.length)) else 0)
        as.length (by omega) (fun j _ hne => by simp [hne])
      rw [this]; simp

/-- `Multiply` is the convolution product of the coefficient sequences -/
theorem multiply_coef (p q r : List Nat) (hp : WF F.size p) (hq : WF F.size q)
    (h : multiply F p q = .ok r) (m : Nat) : coef r m = conv F.prim (coef p) (coef q) m := by
  have ok := hF.2
  unfold multiply at h
  by_cases hz : (isZero p || isZero q) = true
  · rw [if_pos hz] at h
    cases h
    rw [coef_zero_poly hF]
    symm
    apply xsum_zero
    intro j _
    rcases Bool.or_eq_true_iff.1 hz with h' | h'
    · rw [(isZero_iff hp.2).1 h', coef_zero_poly hF, gmul_zero_left ok _ (coef_lt (size_pos hF) q hq.1 _)]
    · rw [(isZero_iff hq.2).1 h', coef_zero_poly hF, gmul_zero_right ok]
  · rw [if_neg hz] at h
    obtain ⟨pr, hpr, _, hprlen, _, _⟩ := mulRaw_spec hF q hq.1 hq.2.ne_nil p hp.1
    rw [hpr] at h
    simp only [bind, Except.bind] at h
    have hpl : 0 < p.length := List.length_pos_iff.2 hp.2.ne_nil
    have hql : 0 < q.length := List.length_pos_iff.2 hq.2.ne_nil
    rw [mkPoly_ok _ (by intro h0; rw [h0] at hprlen; simp at hprlen; omega)] at h
    cases h
    rw [coef_normalize]
    exact mulRaw_coef hF q hq.1 hq.2.ne_nil p pr hp.1 hpr m

end F
end Gzx.Proofs.Coef
