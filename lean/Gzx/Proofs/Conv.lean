/-
  Finite xor-sums and the convolution product of coefficient sequences over the reference field
  (`gmul prim` on `[0,size)`): linearity, shift, associativity.  The coefficient-level language for the
  key equation `σ·S ≡ ω (mod x^r)`.  Helper lemmas for Properties/C04.lean.  Core Lean only.
-/
import Gzx.Proofs.Poly
namespace Gzx.Proofs.Conv
open Gzx Gzx.GF Gzx.Ref.GF Gzx.Proofs.GF Gzx.Proofs.Poly

/-- `F 0 ⊕ F 1 ⊕ … ⊕ F (n-1)` -/
def xsum : Nat → (Nat → Nat) → Nat
  | 0, _ => 0
  | n + 1, F => xsum n F ^^^ F n

theorem xsum_congr {n : Nat} {F G : Nat → Nat} (h : ∀ j, j < n → F j = G j) : xsum n F = xsum n G := by
  induction n with
  | zero => rfl
  | succ n ih =>
    simp only [xsum]
    rw [ih (fun j hj => h j (by omega)), h n (by omega)]

theorem xsum_zero {n : Nat} {F : Nat → Nat} (h : ∀ j, j < n → F j = 0) : xsum n F = 0 := by
  induction n with
  | zero => rfl
  | succ n ih =>
    simp only [xsum]
    rw [ih (fun j hj => h j (by omega)), h n (by omega)]; rfl

theorem xsum_xor (n : Nat) (F G : Nat → Nat) :
    xsum n (fun j => F j ^^^ G j) = xsum n F ^^^ xsum n G := by
  induction n with
  | zero => simp [xsum]
  | succ n ih =>
    simp only [xsum]
    rw [ih]
    exact Gzx.Proofs.GF2.xor_xor_xor_comm _ _ _ _

/-- only the index `k` contributes -/
theorem xsum_single {n : Nat} {F : Nat → Nat} (k : Nat) (hk : k < n) (h : ∀ j, j < n → j ≠ k → F j = 0) :
    xsum n F = F k := by
  induction n with
  | zero => omega
  | succ n ih =>
    simp only [xsum]
    by_cases hkn : k = n
    · subst hkn
      rw [xsum_zero (fun j hj => h j (by omega) (by omega)), Nat.zero_xor]
    · rw [ih (by omega) (fun j hj hne => h j (by omega) hne), h n (by omega) (by omega), Nat.xor_zero]

/-- trailing zero terms can be dropped / added -/
theorem xsum_extend {n n' : Nat} {F : Nat → Nat} (hle : n ≤ n') (h : ∀ j, n ≤ j → j < n' → F j = 0) :
    xsum n' F = xsum n F := by
  induction n' with
  | zero => have : n = 0 := by omega
            subst this; rfl
  | succ m ih =>
    by_cases hm : n = m + 1
    · subst hm; rfl
    · simp only [xsum]
      rw [ih (by omega) (fun j h1 h2 => h j h1 (by omega)), h m (by omega) (by omega), Nat.xor_zero]

theorem xsum_succ_left (n : Nat) (F : Nat → Nat) : xsum (n + 1) F = F 0 ^^^ xsum n (fun j => F (j + 1)) := by
  induction n with
  | zero => simp [xsum]
  | succ n ih =>
    show xsum (n + 1) F ^^^ F (n + 1) = F 0 ^^^ (xsum n (fun j => F (j + 1)) ^^^ F (n + 1))
    rw [ih, Nat.xor_assoc]

/-- triangle exchange: `Σ_{j<n} Σ_{i≤j} A i j = Σ_{i<n} Σ_{k<n-i} A i (i+k)` -/
theorem xsum_triangle (A : Nat → Nat → Nat) : ∀ n,
    xsum n (fun j => xsum (j + 1) (fun i => A i j)) = xsum n (fun i => xsum (n - i) (fun k => A i (i + k)))
  | 0 => rfl
  | n + 1 => by
    show xsum n (fun j => xsum (j + 1) (fun i => A i j)) ^^^ xsum (n + 1) (fun i => A i n) =
      xsum n (fun i => xsum (n + 1 - i) (fun k => A i (i + k))) ^^^ xsum (n + 1 - n) (fun k => A n (n + k))
    rw [xsum_triangle A n]
    have h1 : xsum n (fun i => xsum (n + 1 - i) (fun k => A i (i + k))) =
        xsum n (fun i => xsum (n - i) (fun k => A i (i + k)) ^^^ A i n) := by
      apply xsum_congr
      intro i hi
      have e : n + 1 - i = (n - i) + 1 := by omega
      rw [e]
      show _ ^^^ A i (i + (n - i)) = _
      have e2 : i + (n - i) = n := by omega
      rw [e2]
    rw [h1, xsum_xor]
    have h2 : xsum (n + 1 - n) (fun k => A n (n + k)) = A n n := by
      have e : n + 1 - n = 1 := by omega
      rw [e]; simp [xsum]
    rw [h2]
    show _ ^^^ (xsum n (fun i => A i n) ^^^ A n n) = _
    rw [Nat.xor_assoc]

/-- leading zero terms can be dropped -/
theorem xsum_drop {k : Nat} {F : Nat → Nat} (h : ∀ j, j < k → F j = 0) : ∀ n,
    xsum (k + n) F = xsum n (fun i => F (k + i))
  | 0 => xsum_zero h
  | n + 1 => by
    show xsum (k + n) F ^^^ F (k + n) = xsum n (fun i => F (k + i)) ^^^ F (k + n)
    rw [xsum_drop h n]

section field
variable {prim size : Nat} (ok : ParamsOK prim size)
include ok

theorem xsum_lt {n : Nat} {F : Nat → Nat} (h : ∀ j, j < n → F j < size) : xsum n F < size := by
  induction n with
  | zero => exact zero_lt_size ok
  | succ n ih => exact xor_lt_size ok _ _ (ih (fun j hj => h j (by omega))) (h n (by omega))

theorem xsum_gmul_left (c : Nat) {n : Nat} {F : Nat → Nat} (h : ∀ j, j < n → F j < size) :
    gmul prim c (xsum n F) = xsum n (fun j => gmul prim c (F j)) := by
  induction n with
  | zero => exact gmul_zero_right ok c
  | succ n ih =>
    simp only [xsum]
    rw [gmul_xor_right ok c _ _ (xsum_lt ok (fun j hj => h j (by omega))) (h n (by omega)),
      ih (fun j hj => h j (by omega))]

theorem xsum_gmul_right (c : Nat) (hc : c < size) {n : Nat} {F : Nat → Nat} (h : ∀ j, j < n → F j < size) :
    gmul prim (xsum n F) c = xsum n (fun j => gmul prim (F j) c) := by
  rw [gmul_comm ok _ c (xsum_lt ok h) hc, xsum_gmul_left ok c h]
  exact xsum_congr (fun j hj => gmul_comm ok c _ hc (h j hj))

/-! ## convolution -/

/-- coefficient `m` of the product of the coefficient sequences `f` and `g` -/
def conv (prim : Nat) (f g : Nat → Nat) (m : Nat) : Nat :=
  xsum (m + 1) (fun j => gmul prim (f j) (g (m - j)))

omit ok in
theorem conv_congr_right {f g g' : Nat → Nat} {m : Nat} (h : ∀ i, i ≤ m → g i = g' i) :
    conv prim f g m = conv prim f g' m := by
  unfold conv
  apply xsum_congr
  intro j hj
  rw [h (m - j) (by omega)]

omit ok in
theorem conv_congr_left {f f' g : Nat → Nat} {m : Nat} (h : ∀ i, i ≤ m → f i = f' i) :
    conv prim f g m = conv prim f' g m := by
  unfold conv
  apply xsum_congr
  intro j hj
  rw [h j (by omega)]

theorem conv_lt (f g : Nat → Nat) (m : Nat) : conv prim f g m < size :=
  xsum_lt ok (fun _ _ => gmul_lt ok _ _)

theorem conv_xor_left (f f' g : Nat → Nat) (hf : ∀ j, f j < size) (hf' : ∀ j, f' j < size)
    (hg : ∀ j, g j < size) (m : Nat) :
    conv prim (fun j => f j ^^^ f' j) g m = conv prim f g m ^^^ conv prim f' g m := by
  unfold conv
  rw [← xsum_xor]
  apply xsum_congr
  intro j _
  exact gmul_xor_left ok _ _ _ (hf j) (hf' j) (hg _)

theorem conv_xor_right (f g g' : Nat → Nat) (hg : ∀ j, g j < size) (hg' : ∀ j, g' j < size) (m : Nat) :
    conv prim f (fun j => g j ^^^ g' j) m = conv prim f g m ^^^ conv prim f g' m := by
  unfold conv
  rw [← xsum_xor]
  apply xsum_congr
  intro j _
  exact gmul_xor_right ok _ _ _ (hg _) (hg' _)

theorem conv_scale_left (c : Nat) (hc : c < size) (f g : Nat → Nat) (hf : ∀ j, f j < size)
    (hg : ∀ j, g j < size) (m : Nat) :
    conv prim (fun j => gmul prim c (f j)) g m = gmul prim c (conv prim f g m) := by
  unfold conv
  rw [xsum_gmul_left ok c (fun _ _ => gmul_lt ok _ _)]
  apply xsum_congr
  intro j _
  exact gmul_assoc ok c _ _ hc (hf j) (hg _)

/-- multiplying the first factor by `x^k` shifts the product -/
theorem conv_shift_left (k : Nat) (f g : Nat → Nat) (hg : ∀ j, g j < size) (m : Nat) :
    conv prim (fun j => if j ≥ k then f (j - k) else 0) g m =
      if m ≥ k then conv prim f g (m - k) else 0 := by
  unfold conv
  by_cases hm : m ≥ k
  · rw [if_pos hm]
    have e : m + 1 = k + (m - k + 1) := by omega
    rw [e, xsum_drop (fun j hj => by
      have : ¬ j ≥ k := by omega
      simp only [this, if_false]
      exact gmul_zero_left ok _ (hg _))]
    apply xsum_congr
    intro i hi
    have h1 : k + i ≥ k := by omega
    have h2 : k + i - k = i := by omega
    have h3 : m - (k + i) = m - k - i := by omega
    simp only [h1, if_true, h2, h3]
  · rw [if_neg hm]
    apply xsum_zero
    intro j hj
    have : ¬ j ≥ k := by omega
    simp only [this, if_false]
    exact gmul_zero_left ok _ (hg _)

/-- associativity -/
theorem conv_assoc (f g h : Nat → Nat) (hf : ∀ j, f j < size) (hg : ∀ j, g j < size) (hh : ∀ j, h j < size)
    (m : Nat) : conv prim (conv prim f g) h m = conv prim f (conv prim g h) m := by
  -- left: Σ_{j≤m} (Σ_{i≤j} f_i g_{j-i}) h_{m-j}
  have hL : conv prim (conv prim f g) h m =
      xsum (m + 1) (fun j => xsum (j + 1) (fun i => gmul prim (gmul prim (f i) (g (j - i))) (h (m - j)))) := by
    unfold conv
    apply xsum_congr
    intro j _
    exact xsum_gmul_right ok _ (hh _) (fun _ _ => gmul_lt ok _ _)
  have hR : conv prim f (conv prim g h) m =
      xsum (m + 1) (fun i => xsum (m + 1 - i)
        (fun k => gmul prim (gmul prim (f i) (g (i + k - i))) (h (m - (i + k))))) := by
    unfold conv
    apply xsum_congr
    intro i hi
    rw [xsum_gmul_left ok _ (fun _ _ => gmul_lt ok _ _)]
    have e : m - i + 1 = m + 1 - i := by omega
    rw [e]
    apply xsum_congr
    intro k hk
    have e1 : i + k - i = k := by omega
    have e2 : m - (i + k) = m - i - k := by omega
    rw [e1, e2, gmul_assoc ok _ _ _ (hf i) (hg k) (hh _)]
  rw [hL, hR]
  exact xsum_triangle (fun i j => gmul prim (gmul prim (f i) (g (j - i))) (h (m - j))) (m + 1)

end field
end Gzx.Proofs.Conv
