/-
  Assembly: `Decode` restores a code word after corruption of at most ⌊r/2⌋ positions.
  Error pattern of an error word, syndromes as power sums, Euclid, Chien, Forney, correction loop.
  Helper lemmas for Properties/C04.lean.  Core Lean only.
-/
import Gzx.Proofs.Forney
namespace Gzx.Proofs.Corrects
open Gzx Gzx.GF Gzx.RS Gzx.Ref.GF Gzx.Proofs.GF Gzx.Proofs.Poly Gzx.Proofs.Conv Gzx.Proofs.Coef
  Gzx.Proofs.MinDist Gzx.Proofs.SingleError Gzx.Proofs.KeyEq Gzx.Proofs.Locator Gzx.Proofs.Sugiyama
  Gzx.Proofs.Total Gzx.Proofs.Chien Gzx.Proofs.Forney Gzx.Proofs.RS

/-- what each entry of `pairs` is: the symbol at distance `len` from the end, times `α^(len·b)`, with locator `α^len` -/
theorem pairs_desc (prim size b : Nat) : ∀ (w : List Nat) (p : Nat × Nat), p ∈ pairs prim size b w →
    ∃ len, len < w.length ∧ p.2 = pw prim size len ∧
      p.1 = gmul prim (w[w.length - 1 - len]?.getD 0) (pw prim size (len * b))
  | [], p, hp => by simp [pairs] at hp
  | c :: cs, p, hp => by
    rcases List.mem_cons.1 hp with rfl | hp
    · refine ⟨cs.length, by simp, rfl, ?_⟩
      simp
    · obtain ⟨len, hlen, h2, h1⟩ := pairs_desc prim size b cs p hp
      refine ⟨len, by simp; omega, h2, ?_⟩
      have e : (c :: cs).length - 1 - len = (cs.length - 1 - len) + 1 := by simp only [List.length_cons]; omega
      rw [e, List.getElem?_cons_succ]
      exact h1

/-- every position contributes its pair -/
theorem pairs_mem (prim size b : Nat) : ∀ (w : List Nat) (j : Nat) (hj : j < w.length),
    (gmul prim w[j] (pw prim size ((w.length - 1 - j) * b)), pw prim size (w.length - 1 - j)) ∈ pairs prim size b w
  | [], j, hj => by simp at hj
  | c :: cs, 0, _ => by simp [pairs]
  | c :: cs, j + 1, hj => by
    have hj' : j < cs.length := by simpa using hj
    have := pairs_mem prim size b cs j hj'
    have e : (c :: cs).length - 1 - (j + 1) = cs.length - 1 - j := by simp only [List.length_cons]; omega
    simp only [List.getElem_cons_succ, e]
    exact List.mem_cons_of_mem _ this

theorem coef_reverse_map (f : Nat → Nat) : ∀ (r m : Nat),
    coef ((List.range' 0 r).map f).reverse m = if m < r then f m else 0
  | 0, m => by simp [coef]
  | r + 1, m => by
    rw [List.range'_1_concat, List.map_append, List.reverse_append]
    simp only [List.map_cons, List.map_nil, List.reverse_cons, List.reverse_nil, List.nil_append,
      List.singleton_append, Nat.zero_add]
    show (if m = (((List.range' 0 r).map f).reverse).length then f r else coef _ m) = _
    rw [List.length_reverse, List.length_map, List.length_range', coef_reverse_map f r m]
    by_cases h : m = r
    · subst h; simp
    · by_cases h2 : m < r
      · have : m < r + 1 := by omega
        simp [h, h2, this]
      · have : ¬ m < r + 1 := by omega
        simp [h, h2, this]

section F
variable {F : GF} (hF : FieldOK F)
include hF

/-- the error pattern of an error word: the non-zero entries of `pairs` -/
def errPairs (F : GF) (e : List Nat) : List (Nat × Nat) :=
  (pairs F.prim F.size F.base e).filter (fun p => p.1 != 0)

omit hF in
theorem errPairs_length (e : List Nat) (he : InR F.size e) (hF : FieldOK F) :
    (errPairs F e).length ≤ weight e := pairs_filter_length hF.2 F.base e he

theorem errPairs_errSet (e : List Nat) (hlen : e.length ≤ F.size - 1) :
    ErrSet F.prim F.size (errPairs F e) (invOf F) := by
  have ok := hF.2
  refine ⟨?_, ?_, ?_, ?_, ?_⟩
  · intro p hp
    exact pairs_in ok F.base e p (List.mem_filter.1 hp).1
  · exact (pairs_distinct ok F.base e hlen).filter _
  · intro p hp
    obtain ⟨len, _, h2, _⟩ := pairs_desc F.prim F.size F.base e p (List.mem_filter.1 hp).1
    rw [h2]; exact pw_ne_zero ok len
  · intro p hp
    have := (List.mem_filter.1 hp).2
    simpa using this
  · intro p hp
    obtain ⟨len, _, h2, _⟩ := pairs_desc F.prim F.size F.base e p (List.mem_filter.1 hp).1
    have := invOf_spec hF p.2 (by rw [h2]; exact pw_ne_zero ok len) (by rw [h2]; exact pw_lt ok len)
    exact ⟨this.2.1, this.2.2.2⟩

/-- syndromes of `c + e` are the power sums of the error pattern -/
theorem syndrome_psum (c e : List Nat) (hlen : e.length = c.length) (hc : InR F.size c) (he : InR F.size e)
    (i : Nat) (hz : evalH F.prim (pw F.prim F.size (i + F.base)) c = 0) :
    evalH F.prim (pw F.prim F.size (i + F.base)) (List.zipWith (· ^^^ ·) c e) = psum F.prim (errPairs F e) i := by
  have ok := hF.2
  have hs := size_pos hF
  have := evalFrom_xor ok (pw F.prim F.size (i + F.base)) c e 0 0 hlen.symm hs hs hc he
  rw [Nat.xor_zero] at this
  show evalFrom F.prim _ 0 _ = _
  rw [this]
  show evalH F.prim _ c ^^^ evalH F.prim _ e = _
  rw [hz, Nat.zero_xor, evalH_eq_psum ok F.base i e he]
  unfold errPairs
  rw [psum_filter ok i _ (pairs_in ok F.base e)]

/-! ### the correction loop -/

/-- the logarithm computed by the model (0 on failure) -/
def logv (F : GF) (x : Nat) : Nat :=
  match F.logOf x with
  | .ok l => l
  | .error _ => 0

/-- the error value at the position addressed by the locator `x` in a word of length `n` -/
def Eval (F : GF) (e : List Nat) (n x : Nat) : Nat := e[n - 1 - logv F x]?.getD 0

/-- the correction loop as a pure function -/
def applyPure (F : GF) (e : List Nat) : List Nat → List Nat → List Nat
  | [], w => w
  | x :: xs, w =>
    applyPure F e xs (w.set (w.length - 1 - logv F x) ((w[w.length - 1 - logv F x]?.getD 0) ^^^ Eval F e w.length x))

omit hF in
theorem applyPure_length (e : List Nat) : ∀ (locs w : List Nat), (applyPure F e locs w).length = w.length
  | [], _ => rfl
  | x :: xs, w => by
    show (applyPure F e xs _).length = _
    rw [applyPure_length e xs, List.length_set]

theorem logv_pw (len : Nat) (h : len < F.size - 1) : logv F (pw F.prim F.size len) = len := by
  unfold logv; rw [F_log_pw hF len h]

theorem apply_eq_pure (e : List Nat) : ∀ (locs w : List Nat),
    (∀ x, x ∈ locs → ∃ len, len < w.length ∧ x = pw F.prim F.size len) → w.length ≤ F.size - 1 →
    applyCorrections F locs (locs.map (Eval F e w.length)) w = .ok (applyPure F e locs w)
  | [], w, _, _ => by unfold applyCorrections; rfl
  | x :: xs, w, hv, hn => by
    obtain ⟨len, hlen, hx⟩ := hv x (by simp)
    have hlog : F.logOf x = .ok len := by rw [hx]; exact F_log_pw hF len (by omega)
    have hlv : logv F x = len := by unfold logv; rw [hlog]
    have hpos : w.length - 1 - len < w.length := by omega
    have hbad : ¬ w.length < len + 1 := by omega
    rw [List.map_cons]
    unfold applyCorrections
    simp only [hlog, liftD, bind, Except.bind, hbad, if_false, pure, Except.pure,
      List.getElem?_eq_getElem hpos]
    have := apply_eq_pure e xs (w.set (w.length - 1 - len) (w[w.length - 1 - len] ^^^ Eval F e w.length x))
      (fun y hy => by rw [List.length_set]; exact hv y (List.mem_cons_of_mem _ hy))
      (by rw [List.length_set]; exact hn)
    rw [List.length_set] at this
    rw [this]
    show _ = Except.ok (applyPure F e xs _)
    rw [hlv, List.getElem?_eq_getElem hpos]
    rfl

theorem applyPure_get (e : List Nat) (n : Nat) (hn : n ≤ F.size - 1) : ∀ (locs w : List Nat), locs.Nodup →
    (∀ x, x ∈ locs → ∃ len, len < n ∧ x = pw F.prim F.size len) → w.length = n →
    ∀ j, j < n → (applyPure F e locs w)[j]?.getD 0 =
      if pw F.prim F.size (n - 1 - j) ∈ locs then (w[j]?.getD 0) ^^^ Eval F e n (pw F.prim F.size (n - 1 - j))
      else w[j]?.getD 0
  | [], w, _, _, _, j, _ => by simp [applyPure]
  | x :: xs, w, hnd, hv, hw, j, hj => by
    have ok := hF.2
    have hnd' := List.nodup_cons.1 hnd
    obtain ⟨len, hlen, hx⟩ := hv x (by simp)
    have hlv : logv F x = len := by rw [hx]; exact logv_pw hF len (by omega)
    show (applyPure F e xs (w.set (w.length - 1 - logv F x) _))[j]?.getD 0 = _
    rw [hw, hlv]
    have ih := applyPure_get e n hn xs (w.set (n - 1 - len) ((w[n - 1 - len]?.getD 0) ^^^ Eval F e n x)) hnd'.2
      (fun y hy => hv y (List.mem_cons_of_mem _ hy)) (by rw [List.length_set]; exact hw) j hj
    rw [ih]
    by_cases hjp : j = n - 1 - len
    · -- the position corrected by `x`
      have hxe : pw F.prim F.size (n - 1 - j) = x := by
        rw [hx]; congr 1; omega
      have hnotin : pw F.prim F.size (n - 1 - j) ∉ xs := by rw [hxe]; exact hnd'.1
      have hin : pw F.prim F.size (n - 1 - j) ∈ x :: xs := by rw [hxe]; simp
      rw [if_neg hnotin, if_pos hin, List.getElem?_set, if_pos hjp.symm, if_pos (by rw [hw]; omega), hxe, hjp]
      rfl
    · have hne : pw F.prim F.size (n - 1 - j) ≠ x := by
        rw [hx]
        intro h
        by_cases hlt : n - 1 - j < len
        · exact pw_inj ok _ _ hlt (by omega) h
        · exact pw_inj ok _ _ (by omega) (by omega) h.symm
      have hmem : pw F.prim F.size (n - 1 - j) ∈ x :: xs ↔ pw F.prim F.size (n - 1 - j) ∈ xs := by
        constructor
        · intro h
          rcases List.mem_cons.1 h with h | h
          · exact absurd h hne
          · exact h
        · exact List.mem_cons_of_mem _
      have hset : (w.set (n - 1 - len) ((w[n - 1 - len]?.getD 0) ^^^ Eval F e n x))[j]? = w[j]? := by
        rw [List.getElem?_set, if_neg (fun h => hjp h.symm)]
      rw [hset]
      by_cases hm : pw F.prim F.size (n - 1 - j) ∈ xs
      · rw [if_pos hm, if_pos (hmem.2 hm)]
      · rw [if_neg hm, if_neg (fun h => hm (hmem.1 h))]

/-- **Decode corrects up to ⌊r/2⌋ corrupted positions** (model decoder with failure reasons) -/
theorem decodeD_corrects (hb : F.base ≤ 1) (c e : List Nat) (r : Nat) (hlen : e.length = c.length)
    (hn : c.length ≤ F.size - 1) (hc : InR F.size c) (he : InR F.size e)
    (hz : ∀ i, i < r → evalH F.prim (pw F.prim F.size (i + F.base)) c = 0)
    (hne : c ≠ []) (hrb : r + F.base ≤ F.size) (hwt : 2 * weight e ≤ r) :
    decodeD F (List.zipWith (· ^^^ ·) c e) r = .ok c := by
  have ok := hF.2
  have hsz := size_pos hF
  have hnpos : 0 < c.length := List.length_pos_iff.2 hne
  have hwin : InR F.size (List.zipWith (· ^^^ ·) c e) := InR_zipWith_xor ok c e hc he
  have hwne : List.zipWith (· ^^^ ·) c e ≠ [] := by
    intro h
    rcases List.zipWith_eq_nil_iff.1 h with h | h
    · exact hne h
    · rw [h] at hlen; simp at hlen; omega
  have hwlen : (List.zipWith (· ^^^ ·) c e).length = c.length := by simp [hlen]
  have hE := errPairs_errSet hF e (by omega)
  have hLlen : 2 * (errPairs F e).length ≤ r := by
    have := errPairs_length e he hF; omega
  -- syndromes
  have hsynd : ∀ i, i < r →
      evalH F.prim (pw F.prim F.size (i + F.base)) (normalize (List.zipWith (· ^^^ ·) c e)) =
        psum F.prim (errPairs F e) i := by
    intro i hi
    rw [evalH_normalize ok, syndrome_psum hF c e hlen hc he i (hz i hi)]
  by_cases hL0 : errPairs F e = []
  · -- no error at all
    have hez : ∀ x, x ∈ e → x = 0 := by
      apply pairs_zero ok F.base e he
      intro p hp
      by_cases h : p.1 = 0
      · exact h
      · exfalso
        have : p ∈ errPairs F e := List.mem_filter.2 ⟨hp, by simpa using h⟩
        rw [hL0] at this; simp at this
    have hw0 : weight e = 0 := by
      unfold weight
      rw [List.length_eq_zero_iff, List.filter_eq_nil_iff]
      intro x hx
      simp [hez x hx]
    rw [zipWith_xor_weight_zero c e hlen hw0]
    exact decodeD_clean hF c hne hc r hrb hz
  · have hs1 : 1 ≤ (errPairs F e).length := by
      cases h : errPairs F e with
      | nil => exact absurd h hL0
      | cons p t => simp
    -- the syndrome list and polynomial
    unfold decodeD
    rw [mkPoly_ok _ hwne]
    simp only [liftD, bind, Except.bind]
    rw [syndromes_spec hF _ (normalize_ne_nil _) (InR_normalize hsz _ hwin) r 0 (by omega)]
    have hmapS : (List.range' 0 r).map
        (fun i => evalH F.prim (pw F.prim F.size (i + F.base)) (normalize (List.zipWith (· ^^^ ·) c e))) =
        (List.range' 0 r).map (psum F.prim (errPairs F e)) := by
      apply List.map_congr_left
      intro i hi
      exact hsynd i (by have := List.mem_range'_1.1 hi; omega)
    simp only [hmapS]
    -- not all syndromes vanish
    have hnotall : ((List.range' 0 r).map (psum F.prim (errPairs F e))).all (· == 0) = false := by
      cases hall : ((List.range' 0 r).map (psum F.prim (errPairs F e))).all (· == 0) with
      | false => rfl
      | true =>
        exfalso
        rw [List.all_eq_true] at hall
        have hv := vandermonde ok (errPairs F e) hE.inr hE.distinct (fun i hi => by
          have := hall (psum F.prim (errPairs F e) i)
            (List.mem_map.2 ⟨i, List.mem_range'_1.2 (by omega), rfl⟩)
          simpa using this)
        cases h : errPairs F e with
        | nil => exact hL0 h
        | cons p t =>
          have hp : p ∈ errPairs F e := by rw [h]; simp
          exact hE.ynz p hp (hv p hp)
    rw [hnotall]
    simp only [Bool.false_eq_true, if_false]
    have hSne : ((List.range' 0 r).map (psum F.prim (errPairs F e))).reverse ≠ [] := by
      intro h
      have : ((List.range' 0 r).map (psum F.prim (errPairs F e))) = [] := by simpa using h
      rw [this] at hnotall; simp at hnotall
    rw [mkPoly_ok _ hSne, buildMonomial_ok r 1 (by decide)]
    simp only
    have hSin : InR F.size ((List.range' 0 r).map (psum F.prim (errPairs F e))).reverse := by
      intro x hx
      obtain ⟨i, _, rfl⟩ := List.mem_map.1 (List.mem_reverse.1 hx)
      exact psum_lt ok _ _
    have hSwf := wf_normalize hsz _ hSin
    have hSlen : (normalize ((List.range' 0 r).map (psum F.prim (errPairs F e))).reverse).length ≤ r := by
      have := normalize_length_le _ hSne
      simpa using this
    have hScoef : ∀ m, coef (normalize ((List.range' 0 r).map (psum F.prim (errPairs F e))).reverse) m =
        Sfun F.prim (errPairs F e) r m := by
      intro m
      rw [coef_normalize, coef_reverse_map]
      rfl
    obtain ⟨sigma, omega, hrun, hsigwf, homwf, hsiglen, hsigc, homc⟩ :=
      euclid_output hF (errPairs F e) (invOf F) hE r hs1 hLlen _ hSwf hSlen hScoef
    rw [hrun]
    simp only
    obtain ⟨locs, hlocs, hlnd, hlmem⟩ := findErrorLocations_ok hF (errPairs F e) hE hs1 sigma hsigwf hsiglen hsigc
    rw [hlocs]
    simp only
    -- the locations are a permutation of the locators
    have hLnd : ((errPairs F e).map (·.2)).Nodup := by
      rw [List.nodup_iff_pairwise_ne, List.pairwise_map]; exact hE.distinct
    have hperm : locs.Perm ((errPairs F e).map (·.2)) := by
      rw [List.perm_ext_iff_of_nodup hlnd hLnd]
      intro x
      rw [hlmem x, List.mem_map]
    -- error values
    have hvalid : ∀ x, x ∈ locs → ∃ len, len < c.length ∧ x = pw F.prim F.size len := by
      intro x hx
      obtain ⟨p, hp, rfl⟩ := (hlmem x).1 hx
      obtain ⟨len, hl, h2, _⟩ := pairs_desc F.prim F.size F.base e p (List.mem_filter.1 hp).1
      exact ⟨len, by omega, h2⟩
    have hEv : ∀ p, p ∈ errPairs F e →
        (if F.base ≠ 0 then gmul F.prim p.1 (invOf F p.2) else p.1) = Eval F e c.length p.2 := by
      intro p hp
      obtain ⟨len, hl, h2, h1⟩ := pairs_desc F.prim F.size F.base e p (List.mem_filter.1 hp).1
      have hlv : logv F p.2 = len := by rw [h2]; exact logv_pw hF len (by omega)
      have hej : (e[e.length - 1 - len]?.getD 0) < F.size := by
        rw [List.getD_getElem?]
        split
        · exact he _ (List.getElem_mem _)
        · exact hsz
      unfold Eval
      rw [hlv, ← hlen, h1]
      by_cases hb0 : F.base = 0
      · simp only [hb0, ne_eq, not_true_eq_false, if_false, Nat.mul_zero]
        show gmul F.prim _ 1 = _
        rw [gmul_one_right ok _ hej]
      · have hb1 : F.base = 1 := by omega
        have hspec := invOf_spec hF p.2 (hE.xnz p hp) (hE.inr p hp).2
        simp only [hb1, ne_eq, Nat.succ_ne_zero, not_false_eq_true, if_true, Nat.mul_one]
        rw [← h2, gmul_assoc ok _ _ _ hej (hE.inr p hp).2 hspec.2.1, hspec.2.2.2, gmul_one_right ok _ hej]
    have hmag : findErrorMagnitudes F omega locs = .ok (locs.map (Eval F e c.length)) :=
      magLoop_ok hF (errPairs F e) hE omega homwf homc locs hlnd hperm (Eval F e c.length) hEv locs [] rfl
    rw [hmag]
    simp only
    have happ := apply_eq_pure hF e locs (List.zipWith (· ^^^ ·) c e)
      (fun x hx => by rw [hwlen]; exact hvalid x hx) (by rw [hwlen]; exact hn)
    rw [hwlen] at happ
    rw [happ]
    congr 1
    -- the corrected word is `c`, position by position
    apply List.ext_getElem?
    intro j
    by_cases hj : j < c.length
    · have hget := applyPure_get hF e c.length hn locs (List.zipWith (· ^^^ ·) c e) hlnd hvalid hwlen j hj
      have hlj : j < (applyPure F e locs (List.zipWith (· ^^^ ·) c e)).length := by
        rw [applyPure_length, hwlen]; exact hj
      have hje : j < e.length := by omega
      have hwj : (List.zipWith (· ^^^ ·) c e)[j]?.getD 0 = c[j] ^^^ e[j] := by
        rw [List.getElem?_zipWith, List.getElem?_eq_getElem hj, List.getElem?_eq_getElem hje]
        rfl
      have hEj : Eval F e c.length (pw F.prim F.size (c.length - 1 - j)) = e[j] := by
        unfold Eval
        rw [logv_pw hF _ (by omega)]
        have : c.length - 1 - (c.length - 1 - j) = j := by omega
        rw [this, List.getElem?_eq_getElem hje]; rfl
      rw [List.getElem?_eq_getElem hlj, List.getElem?_eq_getElem hj]
      congr 1
      have hg : (applyPure F e locs (List.zipWith (· ^^^ ·) c e))[j]?.getD 0 =
          (applyPure F e locs (List.zipWith (· ^^^ ·) c e))[j] := by
        rw [List.getElem?_eq_getElem hlj]; rfl
      rw [← hg, hget, hwj, hEj]
      by_cases hm : pw F.prim F.size (c.length - 1 - j) ∈ locs
      · rw [if_pos hm, Nat.xor_assoc, Nat.xor_self, Nat.xor_zero]
      · rw [if_neg hm]
        -- not a located position: the error symbol there is zero
        have hej0 : e[j] = 0 := by
          apply Classical.byContradiction
          intro hne0
          apply hm
          rw [hlmem]
          have hmem := pairs_mem F.prim F.size F.base e j hje
          refine ⟨_, List.mem_filter.2 ⟨hmem, ?_⟩, by simp only; rw [hlen]⟩
          have : gmul F.prim e[j] (pw F.prim F.size ((e.length - 1 - j) * F.base)) ≠ 0 :=
            gmul_ne_zero ok _ _ (he _ (List.getElem_mem _)) (pw_lt ok _) hne0 (pw_ne_zero ok _)
          simpa using this
        rw [hej0, Nat.xor_zero]
    · rw [List.getElem?_eq_none (by rw [applyPure_length, hwlen]; omega), List.getElem?_eq_none (by omega)]

end F
end Gzx.Proofs.Corrects
