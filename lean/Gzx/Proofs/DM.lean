/-
  Helper lemmas for C08 (Data Matrix ECC 200): generic facts about the reference placement program,
  scatter/gather, bit packing, the LFSR/long-division equivalence.
-/
import Gzx.Ref.DMPlacement
import Gzx.Model.DMRead
namespace Gzx.DMProofs
open Gzx Gzx.DMRef

/-! ## placement invariant: `occ` is the bit set of `seq`, and `seq` has no duplicates unless `dup` -/

def PInv (st : PState) : Prop :=
  st.dup = false → st.seq.Nodup ∧ ∀ c, st.occ.testBit c = true ↔ c ∈ st.seq

theorem pinv_init : PInv {} := by
  intro _
  exact ⟨List.nodup_nil, fun c => by simp [Nat.zero_testBit]⟩

theorem testBit_one_shiftLeft (c x : Nat) : (1 <<< c).testBit x = decide (c = x) := by
  rw [Nat.one_shiftLeft, Nat.testBit_two_pow]

theorem module_inv (nrow ncol : Nat) (st : PState) (r c : Int) (h : PInv st) :
    PInv (module nrow ncol st r c) := by
  unfold module
  simp only
  split
  · rename_i cell _
    intro hd
    simp only [Bool.or_eq_false_iff] at hd
    obtain ⟨hd1, hd2⟩ := hd
    obtain ⟨hn, ho⟩ := h hd1
    have hnot : cell ∉ st.seq := by
      intro hm
      have := (ho cell).2 hm
      rw [hd2] at this
      cases this
    refine ⟨List.nodup_cons.2 ⟨hnot, hn⟩, fun x => ?_⟩
    simp only [Nat.testBit_or, testBit_one_shiftLeft, Bool.or_eq_true, decide_eq_true_eq, List.mem_cons]
    rw [ho x]
    constructor
    · rintro (h1 | h1)
      · exact Or.inr h1
      · exact Or.inl h1.symm
    · rintro (h1 | h1)
      · exact Or.inr h1.symm
      · exact Or.inl h1
  · intro hd
    exact h hd

theorem moduleList_inv (nrow ncol : Nat) (cells : List (Int × Int)) :
    ∀ st, PInv st → PInv (moduleList nrow ncol st cells) := by
  induction cells with
  | nil => intro st h; exact h
  | cons rc rest ih =>
    intro st h
    obtain ⟨r, c⟩ := rc
    exact ih _ (module_inv nrow ncol st r c h)

theorem pinv_setBad (st : PState) (h : PInv st) : PInv { st with bad := true } := h

theorem tryUtah_inv (nrow ncol : Nat) (st : PState) (r c : Int) (h : PInv st) :
    PInv (tryUtah nrow ncol st r c) := by
  unfold tryUtah
  simp only
  split
  · split <;> first | exact h | exact pinv_setBad _ h
  · split
    · exact moduleList_inv _ _ _ _ (pinv_setBad _ h)
    · exact moduleList_inv _ _ _ _ h

theorem sweepUp_inv (nrow ncol : Nat) : ∀ (f : Nat) (st : PState) (r c : Int), PInv st →
    PInv (sweepUp nrow ncol f st r c).1 := by
  intro f
  induction f with
  | zero => intro st r c h; exact pinv_setBad _ h
  | succ f ih =>
    intro st r c h
    unfold sweepUp
    simp only
    have h1 : PInv (if r < (nrow : Int) ∧ c ≥ 0 then tryUtah nrow ncol st r c else st) := by
      split
      · exact tryUtah_inv _ _ _ _ _ h
      · exact h
    split
    · exact ih _ _ _ h1
    · exact h1

theorem sweepDown_inv (nrow ncol : Nat) : ∀ (f : Nat) (st : PState) (r c : Int), PInv st →
    PInv (sweepDown nrow ncol f st r c).1 := by
  intro f
  induction f with
  | zero => intro st r c h; exact pinv_setBad _ h
  | succ f ih =>
    intro st r c h
    unfold sweepDown
    simp only
    have h1 : PInv (if r ≥ 0 ∧ c < (ncol : Int) then tryUtah nrow ncol st r c else st) := by
      split
      · exact tryUtah_inv _ _ _ _ _ h
      · exact h
    split
    · exact ih _ _ _ h1
    · exact h1

theorem ite_inv (p : Prop) [Decidable p] (a b : PState) (ha : PInv a) (hb : PInv b) :
    PInv (if p then a else b) := by
  split
  · exact ha
  · exact hb

theorem corners_inv (nrow ncol : Nat) (st : PState) (r c : Int) (h : PInv st) :
    PInv (corners nrow ncol st r c) := by
  unfold corners
  simp only
  have h1 := ite_inv (r = (nrow : Int) ∧ c = 0) _ _ (moduleList_inv nrow ncol (corner1Cells nrow ncol) st h) h
  have h2 := ite_inv (r = (nrow : Int) - 2 ∧ c = 0 ∧ ncol % 4 ≠ 0) _ _
    (moduleList_inv nrow ncol (corner2Cells nrow ncol) _ h1) h1
  have h3 := ite_inv (r = (nrow : Int) - 2 ∧ c = 0 ∧ ncol % 8 = 4) _ _
    (moduleList_inv nrow ncol (corner3Cells nrow ncol) _ h2) h2
  exact ite_inv (r = (nrow : Int) + 4 ∧ c = 2 ∧ ncol % 8 = 0) _ _
    (moduleList_inv nrow ncol (corner4Cells nrow ncol) _ h3) h3

theorem placeLoop_inv (nrow ncol : Nat) : ∀ (f : Nat) (st : PState) (r c : Int), PInv st →
    PInv (placeLoop nrow ncol f st r c) := by
  intro f
  induction f with
  | zero => intro st r c h; exact pinv_setBad _ h
  | succ f ih =>
    intro st r c h
    unfold placeLoop
    simp only
    have h5 := sweepUp_inv nrow ncol (nrow + ncol) _ r c (corners_inv nrow ncol st r c h)
    generalize sweepUp nrow ncol (nrow + ncol) (corners nrow ncol st r c) r c = up at h5 ⊢
    have h6 := sweepDown_inv nrow ncol (nrow + ncol) _ (up.2.1 + 1) (up.2.2 + 3) h5
    generalize sweepDown nrow ncol (nrow + ncol) up.1 (up.2.1 + 1) (up.2.2 + 3) = dn at h6 ⊢
    split
    · exact ih _ _ _ h6
    · exact h6

theorem placeState_inv (nrow ncol : Nat) : PInv (placeState nrow ncol) :=
  placeLoop_inv nrow ncol _ _ _ _ pinv_init


/-! ## scatter / gather -/

theorem scatter_size (cs : List Nat) : ∀ (bs : List Bool) (g : Array Bool), (scatter cs bs g).size = g.size := by
  induction cs with
  | nil => intro bs g; simp [scatter]
  | cons c cs ih =>
    intro bs g
    cases bs with
    | nil => simp [scatter]
    | cons b bs => simp [scatter, ih]

theorem scatter_not_mem (cs : List Nat) : ∀ (bs : List Bool) (g : Array Bool) (c : Nat), c ∉ cs →
    (scatter cs bs g)[c]? = g[c]? := by
  induction cs with
  | nil => intro bs g c _; simp [scatter]
  | cons c0 cs ih =>
    intro bs g c hc
    cases bs with
    | nil => simp [scatter]
    | cons b bs =>
      simp only [scatter]
      rw [ih bs _ c (fun h => hc (List.mem_cons_of_mem _ h))]
      rw [Array.getElem?_setIfInBounds]
      have : c0 ≠ c := fun h => hc (h ▸ List.mem_cons_self)
      simp [this]

theorem scatter_get (cs : List Nat) : ∀ (bs : List Bool) (g : Array Bool), cs.Nodup → (∀ c ∈ cs, c < g.size) →
    ∀ (i : Nat) (h1 : i < cs.length) (h2 : i < bs.length), (scatter cs bs g)[cs[i]]? = some bs[i] := by
  induction cs with
  | nil => intro bs g _ _ i h1; simp at h1
  | cons c0 cs ih =>
    intro bs g hnd hlt i h1 h2
    cases bs with
    | nil => simp at h2
    | cons b bs =>
      simp only [scatter]
      obtain ⟨hn0, hnd'⟩ := List.nodup_cons.1 hnd
      cases i with
      | zero =>
        simp only [List.getElem_cons_zero]
        rw [scatter_not_mem cs bs _ c0 hn0, Array.getElem?_setIfInBounds]
        simp [hlt c0 List.mem_cons_self]
      | succ i =>
        simp only [List.getElem_cons_succ]
        apply ih bs _ hnd'
        intro c hc
        rw [Array.size_setIfInBounds]
        exact hlt c (List.mem_cons_of_mem _ hc)

/-- reading a scattered array back along the same (duplicate-free, in-range) cell list returns the values -/
theorem gather_scatter (cs : List Nat) (bs : List Bool) (g : Array Bool) (hnd : cs.Nodup)
    (hlt : ∀ c ∈ cs, c < g.size) (hlen : cs.length = bs.length) :
    cs.map (fun c => (scatter cs bs g)[c]?) = bs.map some := by
  apply List.ext_getElem
  · simp [hlen]
  · intro i h1 h2
    simp only [List.getElem_map]
    simp only [List.length_map] at h1 h2
    exact scatter_get cs bs g hnd hlt i h1 h2

/-! ## bit packing -/

theorem bitsOf_length (v : Nat) : (bitsOf v).length = 8 := rfl

set_option maxRecDepth 100000 in
theorem packByte_bitsOf : ∀ v, v < 256 → DMDec.packByte (bitsOf v) = v := by decide +kernel

theorem allBits_length (vs : List Nat) : (allBits vs).length = 8 * vs.length := by
  induction vs with
  | nil => rfl
  | cons v vs ih => simp only [allBits, List.length_append, bitsOf_length, ih, List.length_cons]; omega

theorem packBytes_allBits (vs : List Nat) (h : ∀ v ∈ vs, v < 256) :
    DMDec.packBytes vs.length (allBits vs) = vs := by
  induction vs with
  | nil => rfl
  | cons v vs ih =>
    have hv : v < 256 := h v List.mem_cons_self
    have hne : (bitsOf v ++ allBits vs).isEmpty = false := by simp [bitsOf]
    have ht : (bitsOf v ++ allBits vs).take 8 = bitsOf v := by
      rw [List.take_append_of_le_length (by simp [bitsOf_length])]
      exact List.take_of_length_le (by simp [bitsOf_length])
    have hd : (bitsOf v ++ allBits vs).drop 8 = allBits vs := by
      rw [List.drop_append_of_le_length (by simp [bitsOf_length])]
      simp [bitsOf_length]
    simp only [allBits, List.length_cons, DMDec.packBytes, hne, ht, hd, packByte_bitsOf v hv]
    rw [ih (fun x hx => h x (List.mem_cons_of_mem _ hx))]
    simp

theorem mapM_ok {α β : Type} (f : α → Res β) (g : α → β) :
    ∀ l : List α, (∀ x ∈ l, f x = .ok (g x)) → l.mapM f = .ok (l.map g) := by
  intro l
  induction l with
  | nil => intro _; rfl
  | cons a l ih =>
    intro h
    rw [List.mapM_cons, h a List.mem_cons_self, ih (fun x hx => h x (List.mem_cons_of_mem _ hx))]
    rfl


/-! ## what the kernel evaluates per symbol size, and what follows from it for all codeword vectors -/

/-- one pass of the Annex F program and one pass of the decoder's readCodewords bookkeeping over an
    `nrow x ncol` mapping matrix: no index leaves the matrix, no cell is assigned twice, exactly `8*total`
    cells are assigned, the fixed-pattern cells are untouched, every cell is assigned or fixed, and the
    decoder visits the same cells in the same order. -/
def sizeCheck (nrow ncol total : Nat) : Bool :=
  let st := placeState nrow ncol
  let rs := DMDec.readState nrow ncol
  let fx := fixedCells nrow ncol
  !st.bad && !st.dup && !rs.oob &&
  st.seq.length == 8 * total &&
  st.seq.all (· < nrow * ncol) &&
  fx.all (fun p => decide (p.1 < nrow * ncol) && !st.occ.testBit p.1) &&
  decide ((fx.map (·.1)).Nodup) &&
  (List.range (nrow * ncol)).all (fun c => st.occ.testBit c || fx.any (·.1 == c)) &&
  rs.cells == st.seq && decide (0 < ncol)

structure SizeFacts (nrow ncol total : Nat) : Prop where
  nobad : (placeState nrow ncol).bad = false
  nodup : (placeState nrow ncol).dup = false
  nooob : (DMDec.readState nrow ncol).oob = false
  len : (placeState nrow ncol).seq.length = 8 * total
  inrange : ∀ c ∈ (placeState nrow ncol).seq, c < nrow * ncol
  fixedFree : ∀ p ∈ fixedCells nrow ncol, p.1 < nrow * ncol ∧ (placeState nrow ncol).occ.testBit p.1 = false
  fixedNodup : ((fixedCells nrow ncol).map (·.1)).Nodup
  cover : ∀ c, c < nrow * ncol → (placeState nrow ncol).occ.testBit c = true ∨ ∃ p ∈ fixedCells nrow ncol, p.1 = c
  readEq : (DMDec.readState nrow ncol).cells = (placeState nrow ncol).seq
  colsPos : 0 < ncol

theorem sizeFacts_of_check {nrow ncol total : Nat} (h : sizeCheck nrow ncol total = true) :
    SizeFacts nrow ncol total := by
  unfold sizeCheck at h
  simp only [Bool.and_eq_true, Bool.not_eq_true', beq_iff_eq, List.all_eq_true, decide_eq_true_eq,
    Bool.or_eq_true, List.any_eq_true, List.mem_range] at h
  obtain ⟨⟨⟨⟨⟨⟨⟨⟨⟨h1, h2⟩, h3⟩, h4⟩, h5⟩, h6⟩, h7⟩, h8⟩, h9⟩, h10⟩ := h
  exact ⟨h1, h2, h3, h4, h5, fun p hp => by simpa using h6 p hp, h7,
    fun c hc => by
      rcases h8 c hc with h | ⟨p, hp, he⟩
      · exact Or.inl h
      · exact Or.inr ⟨p, hp, by simpa using he⟩,
    h9, h10⟩

theorem mem_seq_iff {nrow ncol total : Nat} (F : SizeFacts nrow ncol total) (c : Nat) :
    c ∈ (placeState nrow ncol).seq ↔ (placeState nrow ncol).occ.testBit c = true :=
  ((placeState_inv nrow ncol F.nodup).2 c).symm

/-- clause "Annex F placement is total and injective": every cell of the mapping matrix is assigned exactly
    once by the placement program or belongs to the fixed pattern -/
theorem placement_perm {nrow ncol total : Nat} (F : SizeFacts nrow ncol total) :
    (placeSeq nrow ncol ++ (fixedCells nrow ncol).map (·.1)).Nodup ∧
    (∀ c, c ∈ placeSeq nrow ncol ++ (fixedCells nrow ncol).map (·.1) ↔ c < nrow * ncol) ∧
    (placeSeq nrow ncol).length = 8 * total := by
  have hinv := placeState_inv nrow ncol F.nodup
  refine ⟨?_, ?_, ?_⟩
  · rw [List.nodup_append]
    refine ⟨?_, F.fixedNodup, ?_⟩
    · unfold placeSeq; exact ((List.reverse_perm _).nodup_iff).2 hinv.1
    · intro a ha b hb hab
      subst hab
      obtain ⟨p, hp, hpe⟩ := List.mem_map.1 hb
      have h1 := (F.fixedFree p hp).2
      have h2 : (placeState nrow ncol).occ.testBit a = true := by
        apply (mem_seq_iff F a).1
        unfold placeSeq at ha
        exact List.mem_reverse.1 ha
      rw [← hpe, h1] at h2
      cases h2
  · intro c
    constructor
    · intro hc
      rcases List.mem_append.1 hc with h | h
      · unfold placeSeq at h
        exact F.inrange c (List.mem_reverse.1 h)
      · obtain ⟨p, hp, hpe⟩ := List.mem_map.1 h
        exact hpe ▸ (F.fixedFree p hp).1
    · intro hc
      rcases F.cover c hc with h | ⟨p, hp, hpe⟩
      · apply List.mem_append_left
        unfold placeSeq
        exact List.mem_reverse.2 ((mem_seq_iff F c).2 h)
      · exact List.mem_append_right _ (List.mem_map.2 ⟨p, hp, hpe⟩)
  · unfold placeSeq
    rw [List.length_reverse]
    exact F.len

/-- the mapping matrix holds bit `i` of the codeword bit string at the `i`-th cell of the placement order -/
theorem mappingBits_at {nrow ncol total : Nat} (F : SizeFacts nrow ncol total) (cw : List Nat)
    (hlen : cw.length = total) :
    (placeSeq nrow ncol).map (fun c => (mappingBits nrow ncol cw)[c]?) = (allBits cw).map some := by
  obtain ⟨hnd, hmem, hl⟩ := placement_perm F
  have hnd1 : (placeSeq nrow ncol).Nodup := (List.nodup_append.1 hnd).1
  have hdis := (List.nodup_append.1 hnd).2.2
  unfold mappingBits
  simp only
  have hstep : ∀ c ∈ placeSeq nrow ncol,
      (scatter ((fixedCells nrow ncol).map (·.1)) ((fixedCells nrow ncol).map (·.2))
        (scatter (placeSeq nrow ncol) (allBits cw) (Array.replicate (nrow * ncol) false)))[c]? =
      (scatter (placeSeq nrow ncol) (allBits cw) (Array.replicate (nrow * ncol) false))[c]? := by
    intro c hc
    apply scatter_not_mem
    intro hf
    exact hdis c hc c hf rfl
  rw [List.map_congr_left hstep]
  apply gather_scatter _ _ _ hnd1
  · intro c hc
    rw [Array.size_replicate]
    exact (hmem c).1 (List.mem_append_left _ hc)
  · rw [hl, allBits_length, hlen]

theorem mappingBits_size (nrow ncol : Nat) (cw : List Nat) : (mappingBits nrow ncol cw).size = nrow * ncol := by
  unfold mappingBits
  simp only [scatter_size, Array.size_replicate]

/-- `read (place cw) = cw`: the decoder's readCodewords on the reference mapping matrix of `cw` returns `cw`,
    for every codeword vector of the right length -/
theorem read_place {nrow ncol : Nat} (v : DMDec.Version) (F : SizeFacts nrow ncol v.totalCodewords)
    (cw : List Nat) (hlen : cw.length = v.totalCodewords) (hb : ∀ x ∈ cw, x < 256) :
    DMDec.readCodewords v ⟨ncol, nrow, mappingBits nrow ncol cw⟩ = .ok cw := by
  unfold DMDec.readCodewords
  simp only [F.nooob, Bool.false_eq_true, if_false]
  have hcells : (DMDec.readState nrow ncol).cells.reverse = placeSeq nrow ncol := by
    rw [F.readEq]; rfl
  have hclen : (DMDec.readState nrow ncol).cells.length / 8 = v.totalCodewords := by
    rw [F.readEq, F.len]; omega
  rw [hclen, hcells]
  simp only [Nat.lt_irrefl, if_false, ne_eq, not_true_eq_false]
  have hget : ∀ c ∈ placeSeq nrow ncol,
      DMDec.BitGrid.get ⟨ncol, nrow, mappingBits nrow ncol cw⟩ (c % ncol) (c / ncol) =
        .ok (((mappingBits nrow ncol cw)[c]?).getD false) := by
    intro c hc
    have hlt : c < nrow * ncol := ((placement_perm F).2.1 c).1 (List.mem_append_left _ hc)
    have h1 : c % ncol < ncol := Nat.mod_lt _ F.colsPos
    have h2 : c / ncol < nrow := (Nat.div_lt_iff_lt_mul F.colsPos).2 hlt
    have h3 : c / ncol * ncol + c % ncol = c := by rw [Nat.mul_comm]; exact Nat.div_add_mod c ncol
    unfold DMDec.BitGrid.get
    simp only [h1, h2, and_self, if_true, h3]
    have hsz : c < (mappingBits nrow ncol cw).size := by rw [mappingBits_size]; exact hlt
    rw [Array.getElem?_eq_getElem hsz]
    simp
  rw [mapM_ok _ _ _ hget]
  simp only
  have hmap : (placeSeq nrow ncol).map (fun c => ((mappingBits nrow ncol cw)[c]?).getD false) = allBits cw := by
    have h := mappingBits_at F cw hlen
    have h2 := congrArg (List.map (fun o : Option Bool => o.getD false)) h
    simpa [List.map_map, Function.comp_def] using h2
  rw [hmap, ← hlen, packBytes_allBits cw hb]

end Gzx.DMProofs
