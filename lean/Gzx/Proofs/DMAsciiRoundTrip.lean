/-
  C02: complete round trip for encodings that stay in ASCII encodation (digit pairs, ASCII characters,
  upper shift, macro 05/06 header, padding), for every look-ahead oracle that never leaves ASCII.
-/
import Gzx.Proofs.DMInvariant
namespace Gzx.DMHighLevel

/-- the macro trailer, if skipped, really is at the end of the message -/
def TrailerOK (c : Ctx) : Prop :=
  c.skipAtEnd = 0 ∨ (c.skipAtEnd = 2 ∧ 2 ≤ c.msg.length ∧ c.msg.drop (c.msg.length - 2) = macroTrailer)

theorem asciiEncode_newEnc {la : LookAhead} (hla : ∀ m p, la m p ASCII = ASCII) {c c' : Ctx}
    (h : asciiEncode la c = .ok c') : c'.newEnc = c.newEnc := by
  unfold asciiEncode at h
  simp only at h
  split at h
  · split at h
    · cases h; rfl
    · cases h
  · cases hc : c.cur with
    | error e => rw [hc] at h; simp [bind, Except.bind] at h
    | ok ch =>
      rw [hc] at h
      simp only [bind, Except.bind, hla, ne_eq, not_true_eq_false, if_false] at h
      split at h <;> (cases h; rfl)

theorem dispatch_ascii {T : Tables} {syms : List SymbolInfo} {la : LookAhead}
    (hla : ∀ m p, la m p ASCII = ASCII) :
    ∀ (fuel : Nat) (c : Ctx) (a : Acc) (c' : Ctx) (mode : Nat),
      (∀ x ∈ c.msg, x < 256) → Inv T c a → c.newEnc = none → TrailerOK c → c.pos ≤ c.total →
      dispatch syms la fuel ASCII c = .ok (c', mode) →
      mode = ASCII ∧ ∃ a', Inv T c' a' ∧ a'.trailer = a.trailer ∧ SameFrame c c' ∧ c'.pos = c'.total := by
  intro fuel
  induction fuel with
  | zero =>
    intro c a c' mode _ hI _ _ hle h
    simp only [dispatch] at h
    split at h
    · cases h
    · rename_i hm
      cases h
      refine ⟨rfl, a, hI, rfl, ⟨rfl, rfl, rfl, rfl⟩, ?_⟩
      simp only [Ctx.hasMore, decide_eq_true_eq] at hm
      omega
  | succ n ih =>
    intro c a c' mode hb hI hnew htr hle h
    simp only [dispatch] at h
    split at h
    · rename_i hm
      cases h
      refine ⟨rfl, a, hI, rfl, ⟨rfl, rfl, rfl, rfl⟩, ?_⟩
      simp only [Ctx.hasMore, Bool.not_eq_true', decide_eq_false_iff_not] at hm
      omega
    · rename_i hm
      simp only [Bool.not_eq_true', Bool.not_eq_false] at hm
      simp only [encodeMode, if_true] at h
      cases he : asciiEncode la c with
      | error e => rw [he] at h; simp [bind, Except.bind] at h
      | ok c1 =>
        rw [he] at h
        simp only [bind, Except.bind] at h
        have hn1 : c1.newEnc = none := by rw [asciiEncode_newEnc hla he]; exact hnew
        rw [hn1] at h
        simp only at h
        obtain ⟨a1, hI1, htr1, hsf, hpos, hlt⟩ := ascii_step_inv hb hI he hn1
        have hm' : c.pos < c.total := by simpa [Ctx.hasMore] using hm
        have hle1 : c1.pos ≤ c1.total := by
          have htot : c1.total = c.total := by simp [Ctx.total, hsf.msg, hsf.skip]
          rw [htot]
          rcases hpos with h1 | ⟨h2, hlen, d, hd, hdig⟩
          · omega
          · rcases htr with h0 | ⟨hs2, hl2, hdrop⟩
            · simp only [Ctx.total, h0] at hm' ⊢; omega
            · simp only [Ctx.total, hs2] at hm' ⊢
              by_cases hx : c.pos + 1 = c.msg.length - 2
              · exfalso
                obtain ⟨g, _, _, _⟩ := drop_cons_facts (l := c.msg) (pos := c.msg.length - 2) (x := 30) (r := [4]) hdrop
                rw [hx, g] at hd
                cases hd
                simp [isDigit] at hdig
              · omega
        have htr' : TrailerOK c1 := by
          unfold TrailerOK
          rw [hsf.msg, hsf.skip]
          exact htr
        have hb1 : ∀ x ∈ c1.msg, x < 256 := by rw [hsf.msg]; exact hb
        obtain ⟨hmode, a', hI', htr2, hsf2, hend⟩ := ih c1 a1 c' mode hb1 hI1 hn1 htr' hle1 h
        refine ⟨hmode, a', hI', by rw [htr2, htr1], ⟨?_, ?_, ?_, ?_⟩, hend⟩
        · rw [hsf2.msg, hsf.msg]
        · rw [hsf2.cfg, hsf.cfg]
        · rw [hsf2.skip, hsf.skip]
        · rw [hsf2.sym, hsf.sym]

theorem update_cw {syms : List SymbolInfo} {c c' : Ctx} {n : Nat} (h : c.update syms n = .ok c') :
    c'.cw = c.cw := by
  unfold Ctx.update at h
  simp only at h
  split at h
  · split at h
    · cases h; rfl
    · cases h
  · split at h
    · split at h
      · cases h; rfl
      · cases h
    · cases h; rfl

/-- the initial context satisfies the invariant -/
theorem initCtx_inv (T : Tables) (msg : List Nat) (cfg : Cfg) :
    ∃ a, Inv T (initCtx msg cfg) a ∧ (initCtx msg cfg).newEnc = none ∧ TrailerOK (initCtx msg cfg) ∧
      (initCtx msg cfg).pos ≤ (initCtx msg cfg).total ∧ (initCtx msg cfg).msg = msg ∧
      ((initCtx msg cfg).skipAtEnd = 0 ∧ a.trailer = [] ∨
       (initCtx msg cfg).skipAtEnd = 2 ∧ a.trailer = macroTrailer) := by
  have hsuf : ∀ m : List Nat, hasSuffix m macroTrailer = true →
      2 ≤ m.length ∧ m.drop (m.length - 2) = macroTrailer := by
    intro m h
    simp only [hasSuffix, macroTrailer, List.length_cons, List.length_nil, Bool.and_eq_true,
      beq_iff_eq] at h
    have h1 := of_decide_eq_true h.1
    have h2 := h.2
    simp only [Nat.zero_add] at h1 h2
    exact ⟨h1, h2⟩
  have hpre : ∀ (n : Nat) (m : List Nat), (macroHeader n).isPrefixOf m = true → hasSuffix m macroTrailer = true →
      m.take 7 = macroHeader n ∧ 9 ≤ m.length := by
    intro n m h hs
    obtain ⟨t, ht⟩ := List.isPrefixOf_iff_prefix.mp h
    obtain ⟨h2, hd⟩ := hsuf m hs
    have hlen : (macroHeader n).length = 7 := rfl
    refine ⟨by rw [← ht, List.take_left' hlen], ?_⟩
    -- the header ends with GS (29), the trailer starts with RS (30): they cannot overlap
    subst ht
    simp only [List.length_append, hlen] at h2 hd ⊢
    match t, hd with
    | [], hd => simp [macroHeader, macroTrailer] at hd
    | [x], hd => simp [macroHeader, macroTrailer] at hd
    | x :: y :: r, _ => simp; omega
  unfold initCtx
  simp only
  split
  · rename_i h
    simp only [Bool.and_eq_true] at h
    obtain ⟨htake, hlen⟩ := hpre 5 msg h.1 h.2
    obtain ⟨h2, hd⟩ := hsuf msg h.2
    refine ⟨{ ({} : Acc).pushAll (macroHeader 5) with trailer := macroTrailer }, ⟨?_, ?_, rfl⟩, rfl,
      Or.inr ⟨rfl, h2, hd⟩, ?_, rfl, Or.inr ⟨rfl, rfl⟩⟩
    · exact decodesTo_macro T 5 (Or.inl rfl)
    · simp only [Ctx.write]; rw [htake]; rfl
    · simp only [Ctx.total, Ctx.write]; omega
  · split
    · rename_i _ h
      simp only [Bool.and_eq_true] at h
      obtain ⟨htake, hlen⟩ := hpre 6 msg h.1 h.2
      obtain ⟨h2, hd⟩ := hsuf msg h.2
      refine ⟨{ ({} : Acc).pushAll (macroHeader 6) with trailer := macroTrailer }, ⟨?_, ?_, rfl⟩, rfl,
        Or.inr ⟨rfl, h2, hd⟩, ?_, rfl, Or.inr ⟨rfl, rfl⟩⟩
      · exact decodesTo_macro T 6 (Or.inr rfl)
      · simp only [Ctx.write]; rw [htake]; rfl
      · simp only [Ctx.total, Ctx.write]; omega
    · refine ⟨{}, ⟨decodesTo_nil T, by simp, rfl⟩, rfl, Or.inl rfl, by simp [Ctx.total], rfl, Or.inl ⟨rfl, rfl⟩⟩

/-- Round trip for ASCII encodation: for EVERY symbol table, hint configuration and message of bytes, and
    every look-ahead oracle that stays in ASCII, what `encodeHL` returns decodes to the message. -/
theorem roundtrip_ascii (T : Tables) (syms : List SymbolInfo) (la : LookAhead)
    (hla : ∀ m p, la m p ASCII = ASCII) (msg : List Nat) (cfg : Cfg) (cw : List Nat)
    (hb : ∀ x ∈ msg, x < 256) (h : encodeHL syms la msg cfg = .ok cw) :
    decodeText T cw = .ok msg := by
  obtain ⟨a0, hI0, hn0, htr0, hle0, hmsg0, htrail⟩ := initCtx_inv T msg cfg
  unfold encodeHL at h
  cases hd : dispatch syms la (dispatchFuel msg) ASCII (initCtx msg cfg) with
  | error e => rw [hd] at h; simp [bind, Except.bind] at h
  | ok r =>
    obtain ⟨c1, mode⟩ := r
    rw [hd] at h
    simp only [bind, Except.bind] at h
    obtain ⟨hmode, a1, hI1, htr1, hsf, hend⟩ :=
      dispatch_ascii (T := T) hla (dispatchFuel msg) (initCtx msg cfg) a0 c1 mode (by rw [hmsg0]; exact hb) hI0 hn0 htr0 hle0 hd
    subst hmode
    cases hu : c1.update syms c1.count with
    | error e => rw [hu] at h; simp at h
    | ok c2 =>
      rw [hu] at h
      simp only at h
      cases hc : c2.capacity with
      | error e => rw [hc] at h; simp at h
      | ok cap =>
        rw [hc] at h
        simp only [ne_eq, not_true_eq_false, false_and, and_false, if_false, Except.ok.injEq] at h
        subst h
        have hcw : c2.cw = c1.cw := update_cw hu
        unfold decodeText
        rw [hcw, hI1.dec]
        rw [decLoop_padding T a1 _ _ (padding_shape _ _)]
        simp only [Except.map, Acc.text, hI1.text, htr1]
        have hm1 : c1.msg = msg := by rw [hsf.msg, hmsg0]
        rw [hend, hm1]
        congr 1
        simp only [Ctx.total, hm1, hsf.skip]
        rcases htrail with ⟨hs, ht⟩ | ⟨hs, ht⟩
        · rw [hs, ht]; simp
        · rw [hs, ht]
          rcases htr0 with h0 | ⟨_, h2, hdrop⟩
          · rw [hs] at h0; cases h0
          · rw [hmsg0] at hdrop h2
            rw [← hdrop, List.take_append_drop]

end Gzx.DMHighLevel
