/-
  C02: Base-256 segments — the decoder on what the encoder writes (length field + 255-state randomisation),
  and the invariant across a whole Base-256 encoder call.
-/
import Gzx.Proofs.DMInvariant
namespace Gzx.DMHighLevel

def Acc.push256All (a : Acc) : List Nat → Acc
  | [] => a
  | c :: cs => (a.push256 c).push256All cs

theorem Acc.push256All_rev (a : Acc) (cs : List Nat) : (a.push256All cs).rev.reverse = a.rev.reverse ++ cs := by
  induction cs generalizing a with
  | nil => simp [Acc.push256All]
  | cons c cs ih => simp [Acc.push256All, ih, Acc.push256]

theorem Acc.push256All_pend (a : Acc) (cs : List Nat) : (a.push256All cs).pend = a.pend := by
  induction cs generalizing a with
  | nil => rfl
  | cons c cs ih => simp [Acc.push256All, ih, Acc.push256]

theorem Acc.push256All_trailer (a : Acc) (cs : List Nat) : (a.push256All cs).trailer = a.trailer := by
  induction cs generalizing a with
  | nil => rfl
  | cons c cs ih => simp [Acc.push256All, ih, Acc.push256]

theorem rand255All_length (xs : List Nat) (p : Nat) : (rand255All xs p).length = xs.length := by
  induction xs generalizing p with
  | nil => rfl
  | cons x xs ih => simp [rand255All, ih]

theorem rand255All_append (xs ys : List Nat) (p : Nat) :
    rand255All (xs ++ ys) p = rand255All xs p ++ rand255All ys (p + xs.length) := by
  induction xs generalizing p with
  | nil => simp [rand255All]
  | cons x xs ih =>
    simp only [List.cons_append, rand255All, ih, List.length_cons]
    congr 3; omega

/-- un-randomising exactly the randomised data gives the data back, whatever follows -/
theorem b256Data_rand (data suf : List Nat) (pos : Nat) (a : Acc) (hd : ∀ x ∈ data, x < 256) :
    b256Data data.length (rand255All data pos ++ suf) pos a = .ok (a.push256All data) := by
  induction data generalizing pos a with
  | nil => simp [b256Data, Acc.push256All]
  | cons x xs ih =>
    have hx : x < 256 := hd x (by simp)
    simp only [List.length_cons, rand255All, List.cons_append, b256Data, unrand255_rand255 x pos hx,
      Acc.push256All]
    exact ih (pos + 1) (a.push256 x) (fun y hy => hd y (by simp [hy]))

/-- `base256_length_inv`, one-byte length field (1..249 data bytes) -/
theorem b256Seg_len1 (data suf : List Nat) (off : Nat) (a : Acc) (hd : ∀ x ∈ data, x < 256)
    (h1 : 1 ≤ data.length) (h2 : data.length ≤ 249) :
    b256Seg (rand255All (data.length :: data) (off + 1) ++ suf) off a
      = .ok (a.push256All data, 1 + data.length) := by
  simp only [rand255All, List.cons_append, b256Seg, unrand255_rand255 data.length (off + 1) (by omega)]
  have n0 : ¬ data.length = 0 := by omega
  have lt : data.length < 250 := by omega
  simp only [n0, lt, if_false, if_true]
  rw [b256Data_rand data suf (off + 1 + 1) a hd]

/-- `base256_length_inv`, two-byte length field (250..1555 data bytes) -/
theorem b256Seg_len2 (data suf : List Nat) (off : Nat) (a : Acc) (hd : ∀ x ∈ data, x < 256)
    (h1 : 250 ≤ data.length) (h2 : data.length ≤ 1555) :
    b256Seg (rand255All ((data.length / 250 + 249) :: (data.length % 250) :: data) (off + 1) ++ suf) off a
      = .ok (a.push256All data, 2 + data.length) := by
  simp only [rand255All, List.cons_append, b256Seg,
    unrand255_rand255 (data.length / 250 + 249) (off + 1) (by omega),
    unrand255_rand255 (data.length % 250) (off + 1 + 1) (by omega)]
  have n0 : ¬ data.length / 250 + 249 = 0 := by omega
  have lt : ¬ data.length / 250 + 249 < 250 := by omega
  have hc : 250 * (data.length / 250 + 249 - 249) + data.length % 250 = data.length := by omega
  simp only [n0, lt, if_false, hc]
  rw [b256Data_rand data suf (off + 1 + 1 + 1) a hd]

/-- `base256_length_inv`, length 0 = "until the end of the symbol" (nothing may follow) -/
theorem b256Seg_toEnd (data : List Nat) (off : Nat) (a : Acc) (hd : ∀ x ∈ data, x < 256) :
    b256Seg (rand255All (0 :: data) (off + 1)) off a = .ok (a.push256All data, 1 + data.length) := by
  simp only [rand255All, b256Seg, unrand255_rand255 0 (off + 1) (by omega), if_true, rand255All_length]
  have := b256Data_rand data [] (off + 1 + 1) a hd
  simp only [List.append_nil] at this
  rw [this]

/-- skipping the bytes a segment has consumed -/
theorem decLoop_skip (T : Tables) (xs suf : List Nat) (up : Bool) (off : Nat) (a : Acc) :
    decLoop T (xs ++ suf) xs.length up off a = decLoop T suf 0 up (off + xs.length) a := by
  induction xs generalizing off with
  | nil => simp
  | cons x xs ih =>
    simp only [List.cons_append, List.length_cons, decLoop]
    rw [ih]; congr 1; omega

/-- A Base-256 segment with an explicit length field, latch included, extends `DecodesTo`. -/
theorem decodesTo_b256 {T : Tables} {cw : List Nat} {a : Acc} (h : DecodesTo T cw a)
    (hdr data : List Nat) (hd : ∀ x ∈ data, x < 256)
    (hh : (hdr = [data.length] ∧ 1 ≤ data.length ∧ data.length ≤ 249) ∨
          (hdr = [data.length / 250 + 249, data.length % 250] ∧ 250 ≤ data.length ∧ data.length ≤ 1555)) :
    DecodesTo T (cw ++ [231] ++ rand255All (hdr ++ data) (cw.length + 2)) (a.push256All data) := by
  intro suf
  rw [List.append_assoc, List.append_assoc, h]
  have hne : (rand255All (hdr ++ data) (cw.length + 2) ++ suf).isEmpty = false := by
    rcases hh with ⟨rfl, _⟩ | ⟨rfl, _⟩ <;> simp [rand255All]
  simp only [List.singleton_append, List.cons_append, List.nil_append, decLoop]
  have e231 : ¬ (231 : Nat) = 0 := by decide
  simp only [show ¬ (231 : Nat) = 0 by decide, show ¬ (231 : Nat) ≤ 128 by decide,
    show ¬ (231 : Nat) = 129 by decide, show ¬ (231 : Nat) ≤ 229 by decide,
    show ¬ (231 : Nat) = 230 by decide, if_false, if_true, hne, Bool.false_eq_true]
  rcases hh with ⟨rfl, h1, h2⟩ | ⟨rfl, h1, h2⟩
  · have := b256Seg_len1 data suf (cw.length + 1) a hd h1 h2
    simp only [List.singleton_append] at this ⊢
    rw [this]
    simp only
    have hl : 1 + data.length = (rand255All (data.length :: data) (cw.length + 1 + 1)).length := by
      simp [rand255All_length]; omega
    rw [hl, decLoop_skip]
    simp only [List.length_append, List.length_cons, List.length_nil, rand255All_length]
    try (congr 1; try omega)
  · have := b256Seg_len2 data suf (cw.length + 1) a hd h1 h2
    simp only [List.cons_append, List.nil_append] at this ⊢
    rw [this]
    simp only
    have hl : 2 + data.length =
        (rand255All ((data.length / 250 + 249) :: (data.length % 250) :: data) (cw.length + 1 + 1)).length := by
      simp [rand255All_length]; omega
    rw [hl, decLoop_skip]
    simp only [List.length_append, List.length_cons, List.length_nil, rand255All_length]
    try (congr 1; try omega)

/-- A Base-256 segment with length 0 that runs to the end of the symbol: the whole stream decodes. -/
theorem decodes_b256_toEnd {T : Tables} {cw : List Nat} {a : Acc} (h : DecodesTo T cw a)
    (data : List Nat) (hd : ∀ x ∈ data, x < 256) :
    decLoop T (cw ++ [231] ++ rand255All (0 :: data) (cw.length + 2)) 0 false 0 {} = .ok (a.push256All data) := by
  rw [List.append_assoc, h]
  simp only [List.singleton_append, decLoop]
  simp only [show ¬ (231 : Nat) = 0 by decide, show ¬ (231 : Nat) ≤ 128 by decide,
    show ¬ (231 : Nat) = 129 by decide, show ¬ (231 : Nat) ≤ 229 by decide,
    show ¬ (231 : Nat) = 230 by decide, if_false, if_true]
  have hne : (rand255All (0 :: data) (cw.length + 2)).isEmpty = false := by simp [rand255All]
  simp only [hne, Bool.false_eq_true, if_false]
  rw [b256Seg_toEnd data (cw.length + 1) a hd]
  simp only
  have hl : 1 + data.length = (rand255All (0 :: data) (cw.length + 1 + 1)).length := by
    simp [rand255All_length]; omega
  have := decLoop_skip T (rand255All (0 :: data) (cw.length + 1 + 1)) [] false (cw.length + 1) (a.push256All data)
  simp only [List.append_nil] at this
  rw [hl, this]
  simp [decLoop]

end Gzx.DMHighLevel

namespace Gzx.DMHighLevel

/-! ## the encoder side -/

/-- what `UpdateSymbolInfoByLength` changes: the symbol only; afterwards the symbol holds `n` codewords -/
theorem update_spec {syms : List SymbolInfo} {c c' : Ctx} {n : Nat} (h : c.update syms n = .ok c') :
    c'.cw = c.cw ∧ c'.msg = c.msg ∧ c'.pos = c.pos ∧ c'.cfg = c.cfg ∧ c'.skipAtEnd = c.skipAtEnd ∧
    c'.newEnc = c.newEnc ∧ ∃ s, c'.sym = some s ∧ n ≤ s.cap ∧ (c.sym = some s ∨ c.sym = none ∨ ∃ s0, c.sym = some s0 ∧ n > s0.cap) := by
  unfold Ctx.update at h
  simp only at h
  have hl : ∀ s, lookup syms c.cfg n = some s → n ≤ s.cap := by
    intro s hs
    unfold lookup at hs
    have := List.find?_some hs
    simp only [Bool.and_eq_true, decide_eq_true_eq] at this
    exact this.2
  split at h
  · rename_i hs
    split at h
    · rename_i s hlk
      cases h
      exact ⟨rfl, rfl, rfl, rfl, rfl, rfl, s, rfl, hl s hlk, Or.inr (Or.inl hs)⟩
    · cases h
  · rename_i s0 hs
    split at h
    · rename_i hgt
      split at h
      · rename_i s hlk
        cases h
        exact ⟨rfl, rfl, rfl, rfl, rfl, rfl, s, rfl, hl s hlk, Or.inr (Or.inr ⟨s0, hs, hgt⟩)⟩
      · cases h
    · rename_i hle
      cases h
      exact ⟨rfl, rfl, rfl, rfl, rfl, rfl, s0, hs, by omega, Or.inl hs⟩

theorem hasMore_iff' (c : Ctx) : c.hasMore = true ↔ c.pos < c.total := by simp [Ctx.hasMore]
theorem hasMore_false_iff' (c : Ctx) : c.hasMore = false ↔ ¬ c.pos < c.total := by simp [Ctx.hasMore]

theorem cur_spec {c : Ctx} {ch : Nat} (h : c.cur = .ok ch) : c.msg[c.pos]? = some ch ∧ c.pos < c.msg.length := by
  unfold Ctx.cur at h
  split at h
  · rename_i x hx
    cases h
    refine ⟨hx, ?_⟩
    rcases Nat.lt_or_ge c.pos c.msg.length with hlt | hge
    · exact hlt
    · rw [List.getElem?_eq_none hge] at hx; cases hx
  · cases h

theorem hasMore_cur' {c : Ctx} (h : c.hasMore = true) : ∃ ch, c.cur = .ok ch ∧ c.msg[c.pos]? = some ch := by
  have hlt : c.pos < c.msg.length := by
    have := (hasMore_iff' c).mp h
    simp only [Ctx.total] at this; omega
  refine ⟨c.msg[c.pos], ?_, List.getElem?_eq_getElem hlt⟩
  simp [Ctx.cur, List.getElem?_eq_getElem hlt]

theorem drop_eq_cons_of_getElem? {l : List Nat} {i x : Nat} (h : l[i]? = some x) :
    l.drop i = x :: l.drop (i + 1) := by
  have hlt : i < l.length := by
    rcases Nat.lt_or_ge i l.length with hlt | hge
    · exact hlt
    · rw [List.getElem?_eq_none hge] at h; cases h
  rw [List.drop_eq_getElem_cons hlt]
  congr 1
  rw [List.getElem?_eq_getElem hlt] at h
  exact Option.some.inj h

/-- the Base-256 loop collects exactly the characters it steps over -/
theorem b256Loop_spec (la : LookAhead) :
    ∀ (fuel : Nat) (c : Ctx) (data0 : List Nat) (c1 : Ctx) (data : List Nat),
      c.pos ≤ c.total → b256Loop la fuel c data0 = .ok (c1, data) →
      c1.cw = c.cw ∧ SameFrame c c1 ∧ c.pos ≤ c1.pos ∧ c1.pos ≤ c1.total ∧
      data = data0 ++ (c.msg.drop c.pos).take (c1.pos - c.pos) ∧
      ((c1.newEnc = c.newEnc ∧ c1.hasMore = false) ∨ c1.newEnc = some ASCII) ∧
      (c.hasMore = true → c.pos < c1.pos) := by
  intro fuel
  induction fuel with
  | zero =>
    intro c data0 c1 data hle h
    simp only [b256Loop] at h
    split at h
    · cases h
    · rename_i hm
      cases h
      simp only [Bool.not_eq_true] at hm
      exact ⟨rfl, ⟨rfl, rfl, rfl, rfl⟩, Nat.le_refl _, hle, by simp, Or.inl ⟨rfl, hm⟩, by simp [hm]⟩
  | succ n ih =>
    intro c data0 c1 data hle h
    simp only [b256Loop] at h
    split at h
    · rename_i hm
      cases h
      simp only [Bool.not_eq_true', ] at hm
      exact ⟨rfl, ⟨rfl, rfl, rfl, rfl⟩, Nat.le_refl _, hle, by simp, Or.inl ⟨rfl, hm⟩, by simp [hm]⟩
    · rename_i hm
      simp only [Bool.not_eq_true', Bool.not_eq_false] at hm
      cases hc : c.cur with
      | error e => rw [hc] at h; simp [bind, Except.bind] at h
      | ok ch =>
        rw [hc] at h
        simp only [bind, Except.bind] at h
        obtain ⟨hget, hlt⟩ := cur_spec hc
        have hdrop := drop_eq_cons_of_getElem? hget
        have hm' : c.pos < c.total := by simpa [Ctx.hasMore] using hm
        split at h
        · -- look-ahead leaves Base 256
          cases h
          refine ⟨rfl, ⟨rfl, rfl, rfl, rfl⟩, Nat.le_succ c.pos, ?_, ?_, Or.inr rfl, fun _ => Nat.lt_succ_self c.pos⟩
          · simp only [Ctx.signal, Ctx.total] at hm' ⊢; omega
          · simp only [Ctx.signal]
            rw [hdrop]
            have : c.pos + 1 - c.pos = 1 := by omega
            simp [this]
        · have hle' : ({ c with pos := c.pos + 1 } : Ctx).pos ≤ ({ c with pos := c.pos + 1 } : Ctx).total := by
            simp only [Ctx.total] at hm' ⊢; omega
          obtain ⟨hcw, hsf, hp, hpt, hdata, hne, _⟩ := ih { c with pos := c.pos + 1 } (data0 ++ [ch]) c1 data hle' h
          refine ⟨hcw, ⟨hsf.msg, hsf.cfg, hsf.skip, hsf.sym⟩, by simp only at hp; omega, hpt, ?_, hne, fun _ => by simp only at hp; omega⟩
          rw [hdata]
          simp only at hp ⊢
          rw [hdrop]
          have : c1.pos - c.pos = (c1.pos - (c.pos + 1)) + 1 := by omega
          rw [this, List.take_succ_cons]
          simp

/-- state right after the ASCII encoder has written the Base-256 latch -/
def Latched256 (T : Tables) (c : Ctx) (a : Acc) : Prop :=
  ∃ cw0, c.cw = cw0 ++ [231] ∧ DecodesTo T cw0 a ∧ a.rev.reverse = c.msg.take c.pos ∧ a.pend = 0

/-- the whole stream decodes (nothing may follow) and the symbol is exactly full -/
structure Exact (T : Tables) (c : Ctx) (a : Acc) : Prop where
  dec : decLoop T c.cw 0 false 0 {} = .ok a
  text : a.rev.reverse = c.msg.take c.pos
  full : ∃ s, c.sym = some s ∧ s.cap = c.count
  pend : a.pend = 0

theorem take_add_drop_take (l : List Nat) (i k : Nat) :
    l.take i ++ (l.drop i).take k = l.take (i + k) := by
  rw [List.take_add]

/-- `dm_encoder_invariant`, Base 256: a whole call of the Base-256 encoder, started right after the latch,
    re-establishes the invariant (explicit length field) or ends the symbol exactly (length 0); for EVERY
    look-ahead oracle. -/
theorem b256_step_inv {T : Tables} {syms : List SymbolInfo} {la : LookAhead} {c c' : Ctx} {a : Acc}
    (hbytes : ∀ x ∈ c.msg, x < 256) (hL : Latched256 T c a) (hle : c.pos ≤ c.total) (hmore : c.hasMore = true)
    (hnew : c.newEnc = none) (h : b256Encode syms la c = .ok c') :
    ∃ a', a'.trailer = a.trailer ∧ c'.msg = c.msg ∧ c'.cfg = c.cfg ∧ c'.skipAtEnd = c.skipAtEnd ∧
      c.pos < c'.pos ∧ c'.pos ≤ c'.total ∧
      ((c'.newEnc = none ∧ c'.hasMore = false) ∨ c'.newEnc = some ASCII) ∧
      (Inv T c' a' ∨ (c'.hasMore = false ∧ Exact T c' a')) := by
  obtain ⟨cw0, hLcw, hLdec, hLtext, hLpend⟩ := hL
  unfold b256Encode at h
  cases hl : b256Loop la c.remaining c [] with
  | error e => rw [hl] at h; simp [bind, Except.bind] at h
  | ok r =>
    obtain ⟨c1, data⟩ := r
    rw [hl] at h
    simp only [bind, Except.bind] at h
    obtain ⟨hcw1, hsf1, hp1, hpt1, hdata, hne1, hprog⟩ := b256Loop_spec la c.remaining c [] c1 data hle hl
    simp only [List.nil_append] at hdata
    cases hu : c1.update syms (c1.count + data.length + 1) with
    | error e => rw [hu] at h; simp at h
    | ok c2 =>
      rw [hu] at h
      simp only at h
      obtain ⟨ucw, umsg, upos, ucfg, uskip, unew, s, hs, hcap, _⟩ := update_spec hu
      cases hc : c2.capacity with
      | error e => rw [hc] at h; simp at h
      | ok cap =>
        rw [hc] at h
        simp only at h
        have hcapeq : cap = s.cap := by
          unfold Ctx.capacity at hc; rw [hs] at hc; cases hc; rfl
        have hdb : ∀ x ∈ data, x < 256 := by
          intro x hx
          rw [hdata] at hx
          exact hbytes x (List.mem_of_mem_drop (List.mem_of_mem_take hx))
        have hcount2 : c2.count = cw0.length + 1 := by
          simp [Ctx.count, ucw, hcw1, hLcw]
        have hcount1 : c1.count = cw0.length + 1 := by
          simp [Ctx.count, hcw1, hLcw]
        have hmore2 : c2.hasMore = c1.hasMore := by
          unfold Ctx.hasMore Ctx.total; rw [umsg, upos, uskip]
        have htext : (a.push256All data).rev.reverse = c2.msg.take c2.pos := by
          rw [Acc.push256All_rev, hLtext, hdata, umsg, upos, hsf1.msg, take_add_drop_take]
          congr 1; omega
        have hlen : 1 ≤ data.length := by
          have := hprog hmore
          rw [hdata, List.length_take, List.length_drop]
          have : c1.pos ≤ c.msg.length := by
            have := hpt1; simp only [Ctx.total, hsf1.msg] at this; omega
          omega
        have hnew2 : (c2.newEnc = none ∧ c2.hasMore = false) ∨ c2.newEnc = some ASCII := by
          rw [unew, hmore2]
          rcases hne1 with ⟨h1, h2⟩ | h1
          · exact Or.inl ⟨by rw [h1, hnew], h2⟩
          · exact Or.inr h1
        have hpos2 : c.pos < c2.pos := by rw [upos]; exact hprog hmore
        have hpt2 : c2.pos ≤ c2.total := by simpa [Ctx.total, umsg, upos, uskip] using hpt1
        -- the three shapes of the length field
        by_cases hcond : c2.hasMore = true ∨ cap - (c1.count + data.length + 1) > 0
        · simp only [hcond, if_true] at h
          by_cases h249 : data.length ≤ 249
          · simp only [h249, if_true, Except.ok.injEq] at h
            subst h
            refine ⟨a.push256All data, Acc.push256All_trailer _ _, by simp [Ctx.writeAll, umsg, hsf1.msg],
              by simp [Ctx.writeAll, ucfg, hsf1.cfg], by simp [Ctx.writeAll, uskip, hsf1.skip], hpos2, hpt2, hnew2,
              Or.inl ⟨?_, htext, by rw [Acc.push256All_pend]; exact hLpend⟩⟩
            have := decodesTo_b256 hLdec [data.length] data hdb (Or.inl ⟨rfl, hlen, h249⟩)
            simpa [Ctx.writeAll, ucw, hcw1, hLcw, hcount2, List.append_assoc] using this
          · by_cases h1555 : data.length ≤ 1555
            · simp only [h249, h1555, if_true, if_false, Except.ok.injEq] at h
              subst h
              refine ⟨a.push256All data, Acc.push256All_trailer _ _, by simp [Ctx.writeAll, umsg, hsf1.msg],
                by simp [Ctx.writeAll, ucfg, hsf1.cfg], by simp [Ctx.writeAll, uskip, hsf1.skip], hpos2, hpt2, hnew2,
                Or.inl ⟨?_, htext, by rw [Acc.push256All_pend]; exact hLpend⟩⟩
              have := decodesTo_b256 hLdec [data.length / 250 + 249, data.length % 250] data hdb
                (Or.inr ⟨rfl, by omega, h1555⟩)
              simpa [Ctx.writeAll, ucw, hcw1, hLcw, hcount2, List.append_assoc] using this
            · simp [h249, h1555] at h
        · -- the run fills the symbol: length 0
          simp only [hcond, if_false, Except.ok.injEq] at h
          subst h
          simp only [not_or, Bool.not_eq_true, gt_iff_lt, Nat.not_lt, Nat.le_zero_eq] at hcond
          obtain ⟨hm2, hfull⟩ := hcond
          refine ⟨a.push256All data, Acc.push256All_trailer _ _, by simp [Ctx.writeAll, umsg, hsf1.msg],
            by simp [Ctx.writeAll, ucfg, hsf1.cfg], by simp [Ctx.writeAll, uskip, hsf1.skip], hpos2, hpt2, hnew2,
            Or.inr ⟨hm2, ⟨?_, htext, ⟨s, hs, ?_⟩, by rw [Acc.push256All_pend]; exact hLpend⟩⟩⟩
          · have := decodes_b256_toEnd hLdec data hdb
            simpa [Ctx.writeAll, ucw, hcw1, hLcw, hcount2, List.append_assoc] using this
          · have e1 : s.cap = c1.count + data.length + 1 := by rw [hcapeq] at hfull; omega
            have e2 : c2.cw.length = cw0.length + 1 := hcount2
            simp only [Ctx.writeAll, Ctx.count, List.length_append, rand255All_length, List.length_cons, List.length_nil]
            rw [e1, e2, hcount1]
            omega

end Gzx.DMHighLevel
