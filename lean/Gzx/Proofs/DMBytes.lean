/-
  C08: the reference codeword sequence of a byte vector consists of bytes (needed to chain the placement
  round trip, which packs bits into bytes, behind the Reed-Solomon stage).
-/
import Gzx.Ref.DM
import Gzx.Proofs.DMEcc
namespace Gzx.DMProofs
open Gzx Gzx.DMRef

set_option maxRecDepth 100000 in
theorem xtime_lt : ∀ a, a < 256 → xtime a < 256 := by decide +kernel

theorem gfMulAux_lt : ∀ (k a b acc : Nat), a < 256 → acc < 256 → gfMulAux k a b acc < 256 := by
  intro k
  induction k with
  | zero => intro a b acc _ h; simpa [gfMulAux] using h
  | succ k ih =>
    intro a b acc ha hacc
    simp only [gfMulAux]
    apply ih _ _ _ (xtime_lt a ha)
    split
    · exact Nat.xor_lt_two_pow (n := 8) hacc ha
    · exact hacc

theorem gfMul_lt (a b : Nat) (ha : a < 256) : gfMul a b < 256 :=
  gfMulAux_lt 8 a b 0 ha (by decide)

def allBytes (l : List Nat) : Prop := ∀ x ∈ l, x < 256

theorem xorPrefix_bytes : ∀ (a b : List Nat), allBytes a → allBytes b → allBytes (xorPrefix a b)
  | [], [], _, _ => by intro x hx; simp [xorPrefix] at hx
  | [], _ :: _, _, _ => by intro x hx; simp [xorPrefix] at hx
  | _ :: _, [], ha, _ => by simpa [xorPrefix] using ha
  | x :: xs, y :: ys, ha, hb => by
    intro z hz
    simp only [xorPrefix, List.mem_cons] at hz
    rcases hz with rfl | hz
    · exact Nat.xor_lt_two_pow (n := 8) (ha x List.mem_cons_self) (hb y List.mem_cons_self)
    · exact xorPrefix_bytes xs ys (fun w hw => ha w (List.mem_cons_of_mem _ hw))
        (fun w hw => hb w (List.mem_cons_of_mem _ hw)) z hz

theorem polyRem_bytes (gs : List Nat) : ∀ (k : Nat) (xs : List Nat), allBytes xs →
    allBytes (polyRem gfMul gs k xs) := by
  intro k
  induction k with
  | zero => intro xs h; simpa [polyRem] using h
  | succ k ih =>
    intro xs h
    cases xs with
    | nil => intro x hx; simp [polyRem] at hx
    | cons c xs =>
      simp only [polyRem]
      apply ih
      apply xorPrefix_bytes
      · exact fun w hw => h w (List.mem_cons_of_mem _ hw)
      · intro w hw
        obtain ⟨g, _, rfl⟩ := List.mem_map.1 hw
        exact gfMul_lt c g (h c List.mem_cons_self)

theorem eccBlock_bytes (n : Nat) (data : List Nat) (h : allBytes data) : allBytes (eccBlock n data) := by
  unfold eccBlock
  apply polyRem_bytes
  intro x hx
  rcases List.mem_append.1 hx with h1 | h1
  · exact h x h1
  · rw [List.eq_of_mem_replicate h1]; decide

theorem mem_everyNthAux (B : Nat) : ∀ (xs : List Nat) (k x : Nat), x ∈ everyNthAux B k xs → x ∈ xs := by
  intro xs
  induction xs with
  | nil => intro k x h; cases k <;> simp [everyNthAux] at h
  | cons y ys ih =>
    intro k x h
    cases k with
    | zero =>
      simp only [everyNthAux, List.mem_cons] at h
      rcases h with rfl | h
      · exact List.mem_cons_self
      · exact List.mem_cons_of_mem _ (ih _ _ h)
    | succ k =>
      simp only [everyNthAux] at h
      exact List.mem_cons_of_mem _ (ih _ _ h)

theorem blockData_bytes (s : Sym) (d : List Nat) (b : Nat) (h : allBytes d) : allBytes (blockData s d b) := by
  intro x hx
  unfold blockData everyNth at hx
  exact h x (List.mem_of_mem_drop (mem_everyNthAux _ _ _ _ hx))

/-- the complete reference codeword sequence of a byte vector consists of bytes -/
theorem codewords_bytes (s : Sym) (d : List Nat) (h : allBytes d) : allBytes (codewords s d) := by
  intro x hx
  unfold codewords at hx
  simp only at hx
  rcases List.mem_append.1 hx with h1 | h1
  · exact h x h1
  · obtain ⟨k, _, rfl⟩ := List.mem_map.1 h1
    have hall : ∀ l ∈ (List.range s.blocks).map (blockEcc s d), allBytes l := by
      intro l hl
      obtain ⟨b, _, rfl⟩ := List.mem_map.1 hl
      exact eccBlock_bytes _ _ (blockData_bytes s d b h)
    generalize ((List.range s.blocks).map (blockEcc s d)) = eccs at hall
    generalize (s.nData + k) % s.blocks = j
    have hl : allBytes (eccs.getD j []) := by
      rw [List.getD_eq_getElem?_getD]
      cases hj : eccs[j]? with
      | none => intro y hy; simp at hy
      | some l => exact hall l (List.mem_of_getElem? hj)
    generalize eccs.getD j [] = l at hl
    rw [List.getD_eq_getElem?_getD]
    cases hi : l[k / s.blocks]? with
    | none => simp
    | some v => exact hl v (List.mem_of_getElem? hi)

end Gzx.DMProofs
