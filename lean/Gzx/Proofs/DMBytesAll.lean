/-
  C02 / C12 / wp dmenc — every codeword `EncodeHighLevel` writes is a byte, for EVERY look-ahead oracle (the existing
  `encodeHL_bytes` needs the oracle conditions of the round-trip theorem because it goes through the decoder
  invariant).  New: the EDIFACT encoder; the dispatch loop; the padding.
-/
import Gzx.Proofs.DMSymFF
import Gzx.Proofs.DMBytesCw
import Gzx.Proofs.DMTermDispatch
namespace Gzx.DMHighLevel

theorem edifactWord_bytes (a b c d : Nat) : Bytes (edifactWord a b c d) := by
  intro x hx
  simp only [edifactWord, List.mem_cons, List.mem_nil_iff, or_false] at hx
  rcases hx with rfl | rfl | rfl <;> omega

theorem writeQuads_bytes : ∀ (n : Nat) (l : List Nat), l.length ≤ n → Bytes (writeQuads l).1 := by
  intro n
  induction n using Nat.strongRecOn with
  | _ n ih =>
    intro l hl
    match l, hl with
    | [], _ => intro x hx; simp [writeQuads] at hx
    | [_], _ => intro x hx; simp [writeQuads] at hx
    | [_, _], _ => intro x hx; simp [writeQuads] at hx
    | [_, _, _], _ => intro x hx; simp [writeQuads] at hx
    | a :: b :: c :: d :: r, hl =>
      rw [writeQuads_cons4]
      exact (edifactWord_bytes a b c d).append (ih (n - 4) (by simp at hl; omega) r (by simp at hl; omega))

theorem edifactPack_bytes (l : List Nat) : Bytes (edifactPack l) := by
  have ht : ∀ (a b c d k : Nat), Bytes ((edifactWord a b c d).take k) :=
    fun a b c d k x hx => edifactWord_bytes a b c d x (List.mem_of_mem_take hx)
  match l with
  | [] => intro x hx; simp [edifactPack] at hx
  | [a] => exact ht a 0 0 0 1
  | [a, b] => exact ht a b 0 0 2
  | [a, b, c] => exact edifactWord_bytes a b c 0
  | a :: b :: c :: d :: _ => exact edifactWord_bytes a b c d

theorem edifact_bytes {syms : List SymbolInfo} {la : LookAhead} {c c' : Ctx} (hc : Bytes c.cw)
    (hle : c.pos ≤ c.total) (h : edifactEncode syms la c = .ok c') : Bytes c'.cw := by
  unfold edifactEncode at h
  obtain ⟨r, hl, h⟩ := bind_ok h
  obtain ⟨c1, buf1⟩ := r
  obtain ⟨chars, _, _, hcw1, _, _, _, hp1t, _⟩ := edifactLoop_spec la c.remaining c [] c1 buf1 (by simp) hle hl
  have h1 : Bytes c1.cw := by rw [hcw1]; exact hc.append (writeQuads_bytes _ _ (Nat.le_refl _))
  simp only at h
  rw [edifactHandleEOD_eq] at h
  split at h
  · simp only [Except.ok.injEq] at h; subst h; exact h1
  · obtain ⟨p, hp, h⟩ := bind_ok h
    obtain ⟨c2, nu⟩ := p
    obtain ⟨_, hcw2⟩ := (ediEarly_total (syms := syms) (buf1 ++ [31]).length hp1t).2 c2 nu hp
    have h2 : Bytes c2.cw := by rw [hcw2]; exact h1
    simp only at h
    split at h
    · simp only [Except.ok.injEq] at h; subst h; exact h2
    · split at h
      · cases h
      · obtain ⟨p2, hp2, h⟩ := bind_ok h
        obtain ⟨c3, ria⟩ := p2
        obtain ⟨_, hcw3, _⟩ := (ediStep_total (syms := syms) (c := c2) (buf1 ++ [31])).2 c3 ria hp2
        have h3 : Bytes c3.cw := by rw [hcw3]; exact h2
        simp only at h
        split at h
        · obtain ⟨c4, h4, h⟩ := bind_ok h
          simp only [Except.ok.injEq] at h
          subst h
          obtain ⟨_, rfl⟩ := back_spec h4
          exact h3
        · simp only [Except.ok.injEq] at h
          subst h
          exact h3.append (edifactPack_bytes _)

theorem encodeMode_bytes {syms : List SymbolInfo} {la : LookAhead} {mode : Nat} {c c' : Ctx} (hb : Bytes c.msg)
    (hc : Bytes c.cw) (hm : c.hasMore = true) (hnew : c.newEnc = none)
    (h : encodeMode syms la mode c = .ok c') : Bytes c'.cw := by
  have hle : c.pos ≤ c.total := Nat.le_of_lt ((hasMore_iff' c).mp hm)
  unfold encodeMode at h
  repeat' split at h
  · exact ascii_bytes hb hc h
  · exact c40_bytes hc hle hm hnew h
  · exact c40_bytes hc hle hm hnew h
  · exact x12_bytes hc hle h
  · exact edifact_bytes hc hle h
  · exact b256_bytes hb hc hle h
  · cases h

theorem encodeMode_msg {syms : List SymbolInfo} {la : LookAhead} {mode : Nat} {c c' : Ctx}
    (hm : c.hasMore = true) (hnew : c.newEnc = none)
    (h : encodeMode syms la mode c = .ok c') : c'.msg = c.msg := by
  have hle : c.pos ≤ c.total := Nat.le_of_lt ((hasMore_iff' c).mp hm)
  unfold encodeMode at h
  repeat' split at h
  · exact ((ascii_total_gen hm).2 c' h).1
  · exact ((c40Encode_total hle hm hnew).2 c' h).1
  · exact ((c40Encode_total hle hm hnew).2 c' h).1
  · exact ((x12Encode_total hle hnew).2 c' h).1
  · exact ((edifactEncode_total hle hnew).2 c' h).1
  · rcases b256_total (syms := syms) (la := la) hm hle hnew with he | ⟨c1, he, hmsg, _⟩
    · rw [he] at h; cases h
    · rw [he] at h; cases h; exact hmsg
  · cases h

theorem dispatch_bytes {syms : List SymbolInfo} {la : LookAhead} :
    ∀ (fuel mode : Nat) (c c' : Ctx) (m' : Nat), Bytes c.msg → Bytes c.cw → c.newEnc = none →
      dispatch syms la fuel mode c = .ok (c', m') → Bytes c'.cw := by
  intro fuel
  induction fuel with
  | zero =>
    intro mode c c' m' _ hc _ h
    simp only [dispatch] at h
    split at h
    · cases h
    · simp only [Except.ok.injEq, Prod.mk.injEq] at h
      obtain ⟨rfl, _⟩ := h
      exact hc
  | succ n ih =>
    intro mode c c' m' hb hc hnew h
    simp only [dispatch] at h
    split at h
    · simp only [Except.ok.injEq, Prod.mk.injEq] at h
      obtain ⟨rfl, _⟩ := h
      exact hc
    · rename_i hm
      simp only [Bool.not_eq_true', Bool.not_eq_false] at hm
      obtain ⟨c1, h1, h⟩ := bind_ok h
      have hc1 := encodeMode_bytes hb hc hm hnew h1
      have hm1 := encodeMode_msg hm hnew h1
      cases hn : c1.newEnc with
      | some m =>
        rw [hn] at h
        simp only at h
        exact ih m ({ c1 with newEnc := none } : Ctx) c' m' (by show Bytes c1.msg; rw [hm1]; exact hb) hc1 rfl h
      | none =>
        rw [hn] at h
        simp only at h
        exact ih mode c1 c' m' (by rw [hm1]; exact hb) hc1 hn h

theorem padFrom_bytes : ∀ (n p : Nat), Bytes (padFrom n p) := by
  intro n
  induction n with
  | zero => intro p x hx; simp [padFrom] at hx
  | succ m ihm =>
    intro p x hx
    simp only [padFrom, List.mem_cons] at hx
    rcases hx with rfl | hx
    · have := rand253_range p; omega
    · exact ihm _ x hx

theorem padding_bytes (len cap : Nat) : Bytes (padding len cap) := by
  unfold padding
  split
  · intro x hx
    simp only [List.mem_cons] at hx
    rcases hx with rfl | hx
    · decide
    · exact padFrom_bytes _ _ x hx
  · intro x hx; simp at hx

/-- the codewords `encodeHL` returns are bytes — every look-ahead oracle, every table -/
theorem encodeHL_bytes_all (syms : List SymbolInfo) (la : LookAhead) (msg : List Nat) (cfg : Cfg) (cw : List Nat)
    (hb : ∀ x ∈ msg, x < 256) (h : encodeHL syms la msg cfg = .ok cw) : Bytes cw := by
  obtain ⟨a0, _, hn0, _, _, hmsg0, _⟩ := initCtx_inv refTables msg cfg
  unfold encodeHL at h
  obtain ⟨r, hd, h⟩ := bind_ok h
  obtain ⟨c1, mode⟩ := r
  obtain ⟨c2, hu, h⟩ := bind_ok h
  obtain ⟨cap, _, h⟩ := bind_ok h
  have hB1 := dispatch_bytes _ _ _ _ _ (by rw [hmsg0]; exact hb) (initCtx_bytes msg cfg) hn0 hd
  obtain ⟨ucw, _⟩ := update_spec hu
  simp only [Except.ok.injEq] at h
  subst h
  have h2 : Bytes c2.cw := by rw [ucw]; exact hB1
  apply Bytes.append _ (padding_bytes _ _)
  split
  · exact h2.append (Bytes.single (by decide))
  · exact h2

end Gzx.DMHighLevel
