/-
  C02: every codeword the (non-EDIFACT) encoders write is a byte.
-/
import Gzx.Proofs.DMC40
namespace Gzx.DMHighLevel

def Bytes (l : List Nat) : Prop := ∀ x ∈ l, x < 256

theorem Bytes.append {a b : List Nat} (ha : Bytes a) (hb : Bytes b) : Bytes (a ++ b) := by
  intro x hx; simp only [List.mem_append] at hx; rcases hx with h | h; exact ha x h; exact hb x h

theorem Bytes.single {x : Nat} (h : x < 256) : Bytes [x] := by
  intro y hy; simp only [List.mem_singleton] at hy; omega

theorem writeTriplets_bytes : ∀ (n : Nat) (l : List Nat), l.length ≤ n → Bytes (writeTriplets l).1 := by
  intro n
  induction n using Nat.strongRecOn with
  | _ n ih =>
    intro l hl
    match l, hl with
    | [], _ => intro x hx; simp [writeTriplets] at hx
    | [_], _ => intro x hx; simp [writeTriplets] at hx
    | [_, _], _ => intro x hx; simp [writeTriplets] at hx
    | a :: b :: c :: r, hl =>
      rw [writeTriplets_cons3]
      apply Bytes.append
      · intro x hx
        simp only [packTriplet, List.mem_cons, List.mem_nil_iff, or_false] at hx
        rcases hx with h | h <;> omega
      · exact ih (n - 3) (by simp at hl; omega) r (by simp at hl; omega)

theorem rand255All_bytes (xs : List Nat) (p : Nat) (h : Bytes xs) : Bytes (rand255All xs p) := by
  induction xs generalizing p with
  | nil => intro x hx; simp [rand255All] at hx
  | cons y ys ih =>
    intro x hx
    simp only [rand255All, List.mem_cons] at hx
    rcases hx with rfl | hx
    · exact rand255_lt y p (h y (by simp))
    · exact ih (p + 1) (fun z hz => h z (by simp [hz])) x hx

theorem ascii_bytes {la : LookAhead} {c c' : Ctx} (hb : Bytes c.msg) (hc : Bytes c.cw)
    (h : asciiEncode la c = .ok c') : Bytes c'.cw := by
  unfold asciiEncode at h
  simp only at h
  split at h
  · rename_i hn
    obtain ⟨d1, d2, r, hl, hd1, hd2⟩ := digitRun_two hn
    obtain ⟨g1, _, dr1, _⟩ := drop_cons_facts hl
    obtain ⟨g2, _, _, _⟩ := drop_cons_facts dr1
    rw [g1, g2] at h
    simp only [Except.ok.injEq] at h
    subst h
    simp only [isDigit, Bool.and_eq_true, decide_eq_true_eq] at hd1 hd2
    exact hc.append (Bytes.single (by omega))
  · cases hcur : c.cur with
    | error e => rw [hcur] at h; simp [bind, Except.bind] at h
    | ok ch =>
      rw [hcur] at h
      simp only [bind, Except.bind] at h
      obtain ⟨hget, _⟩ := cur_spec hcur
      have hch : ch < 256 := hb ch (List.mem_of_getElem? hget)
      split at h
      · repeat' split at h
        all_goals first
          | (cases h; exact hc.append (Bytes.single (by decide)))
          | cases h
      · split at h
        · rename_i hext
          cases h
          simp only [isExtended, Bool.and_eq_true, decide_eq_true_eq] at hext
          exact (hc.append (Bytes.single (by decide))).append (Bytes.single (by omega))
        · rename_i hext
          cases h
          have : ch < 128 := by
            simp only [isExtended, Bool.and_eq_true, decide_eq_true_eq, not_and] at hext; omega
          exact hc.append (Bytes.single (by omega))

theorem b256_bytes {syms : List SymbolInfo} {la : LookAhead} {c c' : Ctx} (hb : Bytes c.msg) (hc : Bytes c.cw)
    (hle : c.pos ≤ c.total) (h : b256Encode syms la c = .ok c') : Bytes c'.cw := by
  unfold b256Encode at h
  cases hl : b256Loop la c.remaining c [] with
  | error e => rw [hl] at h; simp [bind, Except.bind] at h
  | ok r =>
    obtain ⟨c1, data⟩ := r
    rw [hl] at h
    simp only [bind, Except.bind] at h
    obtain ⟨hcw1, _, _, _, hdata, _, _⟩ := b256Loop_spec la c.remaining c [] c1 data hle hl
    simp only [List.nil_append] at hdata
    have hdb : Bytes data := by
      intro x hx; rw [hdata] at hx
      exact hb x (List.mem_of_mem_drop (List.mem_of_mem_take hx))
    cases hu : c1.update syms (c1.count + data.length + 1) with
    | error e => rw [hu] at h; simp at h
    | ok c2 =>
      rw [hu] at h
      simp only at h
      obtain ⟨ucw, _⟩ := update_spec hu
      cases hcap : c2.capacity with
      | error e => rw [hcap] at h; simp at h
      | ok cap =>
        rw [hcap] at h
        simp only at h
        have hc2 : Bytes c2.cw := by rw [ucw, hcw1]; exact hc
        by_cases hcond : c2.hasMore = true ∨ cap - (c1.count + data.length + 1) > 0
        · simp only [hcond, if_true] at h
          by_cases h249 : data.length ≤ 249
          · simp only [h249, if_true, Except.ok.injEq] at h
            subst h
            exact hc2.append (rand255All_bytes _ _ ((Bytes.single (by omega)).append hdb))
          · by_cases h1555 : data.length ≤ 1555
            · simp only [h249, h1555, if_true, if_false, Except.ok.injEq] at h
              subst h
              refine hc2.append (rand255All_bytes _ _ (Bytes.append ?_ hdb))
              intro x hx
              simp only [List.mem_cons, List.mem_nil_iff, or_false] at hx
              rcases hx with e | e <;> omega
            · simp [h249, h1555] at h
        · simp only [hcond, if_false, Except.ok.injEq] at h
          subst h
          exact hc2.append (rand255All_bytes _ _ ((Bytes.single (by decide)).append hdb))

theorem x12_bytes {syms : List SymbolInfo} {la : LookAhead} {c c' : Ctx} (hc : Bytes c.cw)
    (hle : c.pos ≤ c.total) (h : x12Encode syms la c = .ok c') : Bytes c'.cw := by
  unfold x12Encode at h
  cases hl : x12Loop la c.remaining c [] with
  | error e => rw [hl] at h; simp [bind, Except.bind] at h
  | ok r =>
    obtain ⟨c1, buf1⟩ := r
    rw [hl] at h
    simp only [bind, Except.bind] at h
    obtain ⟨vals, _, i2, _⟩ := x12Loop_spec la c.remaining c [] c1 buf1 [] [] (by simp) hle rfl hl
    simp only [List.nil_append] at i2
    have h1 : Bytes c1.cw := by rw [i2]; exact hc.append (writeTriplets_bytes _ _ (Nat.le_refl _))
    unfold x12HandleEOD at h
    simp only [bind, Except.bind] at h
    cases hu : c1.update syms c1.count with
    | error e => rw [hu] at h; simp at h
    | ok c2 =>
      rw [hu] at h
      simp only at h
      obtain ⟨ucw, _⟩ := update_spec hu
      cases hcap : c2.capacity with
      | error e => rw [hcap] at h; simp at h
      | ok cap =>
        rw [hcap] at h
        simp only at h
        cases hbk : c2.back buf1.length with
        | error e => rw [hbk] at h; simp at h
        | ok c3 =>
          rw [hbk] at h
          simp only [Except.ok.injEq] at h
          obtain ⟨_, hc3⟩ := back_spec hbk
          have h3 : Bytes c3.cw := by rw [hc3]; simp only; rw [ucw]; exact h1
          subst h
          split
          · obtain ⟨_, f2, _⟩ := ite_signal_fields (c3.write 254)
            rw [f2]; exact h3.append (Bytes.single (by decide))
          · obtain ⟨_, f2, _⟩ := ite_signal_fields c3
            rw [f2]; exact h3

theorem c40_bytes {text : Bool} {syms : List SymbolInfo} {la : LookAhead} {c c' : Ctx} (hc : Bytes c.cw)
    (hle : c.pos ≤ c.total) (hm : c.hasMore = true) (hnew : c.newEnc = none)
    (h : c40Encode syms la text c = .ok c') : Bytes c'.cw := by
  have hB0 : CBuf text c c [] := ⟨rfl, rfl, rfl, rfl, Nat.le_refl _, hle, by simp [charsOf, cVals]⟩
  unfold c40Encode at h
  cases hl : c40Loop syms la text c.remaining c [] with
  | error e => rw [hl] at h; simp [bind, Except.bind] at h
  | ok r =>
    obtain ⟨c1, buf1⟩ := r
    rw [hl] at h
    simp only [bind, Except.bind] at h
    obtain ⟨hB1, _⟩ := c40Loop_spec c.remaining c [] c1 buf1 hB0 hm hnew hl
    unfold c40HandleEOD at h
    cases hav : c40Available syms c1 buf1 with
    | error e => rw [hav] at h; simp [bind, Except.bind] at h
    | ok r2 =>
      obtain ⟨c2, av⟩ := r2
      rw [hav] at h
      simp only [bind, Except.bind] at h
      obtain ⟨a1, _⟩ := c40Available_spec hav
      have h2 : Bytes c2.cw := by rw [a1, hB1.cw]; exact hc
      have hw : ∀ l : List Nat, Bytes (c2.writeAll (writeTriplets l).1).cw := fun l =>
        h2.append (writeTriplets_bytes _ _ (Nat.le_refl _))
      have h254 : ∀ cc : Ctx, Bytes cc.cw → Bytes (if cc.hasMore = true then cc.write 254 else cc).cw := by
        intro cc hcc; split
        · exact hcc.append (Bytes.single (by decide))
        · exact hcc
      split at h
      · cases h; exact h254 _ (hw _)
      · split at h
        · cases hbk : (if (c2.writeAll (writeTriplets buf1).1).hasMore = true
              then (c2.writeAll (writeTriplets buf1).1).write 254 else c2.writeAll (writeTriplets buf1).1).back 1 with
          | error e => rw [hbk] at h; simp at h
          | ok c3 =>
            rw [hbk] at h
            simp only [Except.ok.injEq] at h
            subst h
            obtain ⟨_, hc3⟩ := back_spec hbk
            show Bytes c3.cw
            rw [hc3]; exact h254 _ (hw _)
        · split at h
          · cases h
            show Bytes (if _ then _ else _ : Ctx).cw
            split
            · exact (hw _).append (Bytes.single (by decide))
            · exact hw _
          · cases h

end Gzx.DMHighLevel
