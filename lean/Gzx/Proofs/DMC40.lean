/-
  C02: a whole call of the C40 / Text encoder: buffering, look-ahead exit, end-of-message backtracking,
  `c40HandleEOD` (all rest cases).
-/
import Gzx.Proofs.DMX12
namespace Gzx.DMHighLevel

/-! ## decoder: segments of arbitrary complete value triplets -/

theorem cSeg_open_tail (T : Tables) (text : Bool) (suf : List Nat) (st : CState) (a : Acc) (n : Nat)
    (hs : suf.length ≤ 1) : cSeg T text suf st a n = .ok (a, n) := by
  match suf, hs with
  | [], _ => simp [cSeg]
  | [x], _ => simp [cSeg]

theorem latch_step (T : Tables) (text : Bool) (rest : List Nat) (off : Nat) (a : Acc) :
    decLoop T ((if text then 239 else 230) :: rest) 0 false off a =
      match cSeg T text rest {} a 0 with
      | .ok (a', n) => decLoop T rest n false (off + 1) a'.endSeg
      | .error e => .error e := by
  cases text
  · simp only [Bool.false_eq_true, if_false, decLoop,
      show ¬ (230 : Nat) = 0 by decide, show ¬ (230 : Nat) ≤ 128 by decide,
      show ¬ (230 : Nat) = 129 by decide, show ¬ (230 : Nat) ≤ 229 by decide, if_true]
    try rfl
  · simp only [if_true, decLoop,
      show ¬ (239 : Nat) = 0 by decide, show ¬ (239 : Nat) ≤ 128 by decide,
      show ¬ (239 : Nat) = 129 by decide, show ¬ (239 : Nat) ≤ 229 by decide,
      show ¬ (239 : Nat) = 230 by decide, show ¬ (239 : Nat) = 231 by decide, show ¬ (239 : Nat) = 232 by decide,
      show ¬ ((239 : Nat) = 233 ∨ (239 : Nat) = 234) by decide, show ¬ (239 : Nat) = 235 by decide,
      show ¬ (239 : Nat) = 236 by decide, show ¬ (239 : Nat) = 237 by decide,
      show ¬ (239 : Nat) = 238 by decide, if_false]
    try rfl

/-- complete triplets of values + unlatch -/
theorem decodesTo_cvals {T : Tables} {cw : List Nat} {a : Acc} (text : Bool) (h : DecodesTo T cw a)
    (k : Nat) (vals : List Nat) (hl : vals.length = 3 * k) (hv : ∀ v ∈ vals, v < 40)
    (st' : CState) (es : List Emit) (hr : runVals T text (vals.map Int.ofNat) {} = .ok (st', es)) :
    DecodesTo T (cw ++ [if text then 239 else 230] ++ (writeTriplets vals).1 ++ [254]) (a.emitAll es).endSeg := by
  intro suf
  have hseg := cSeg_triplets T text k vals (254 :: suf) {} st' es a 0 hl hv hr
  rw [List.append_assoc, List.append_assoc, List.append_assoc, h]
  simp only [List.singleton_append, List.cons_append, List.nil_append]
  rw [latch_step, hseg]
  simp only [Nat.zero_add]
  cases suf with
  | nil =>
    simp only [cSeg]
    have := decLoop_skip' T (writeTriplets vals).1 [254] false (cw.length + 1) (a.emitAll es).endSeg
    rw [this]
    simp [decLoop]
  | cons s ss =>
    simp only [cSeg, if_true]
    have := decLoop_skip' T ((writeTriplets vals).1 ++ [254]) (s :: ss) false (cw.length + 1) (a.emitAll es).endSeg
    simp only [List.length_append, List.length_cons, List.length_nil, List.append_assoc,
      List.singleton_append] at this
    rw [this]
    congr 1
    simp only [List.length_append, List.length_cons, List.length_nil]
    omega

/-- complete triplets of values, segment left open: at most one more codeword is read in ASCII -/
theorem decK_cvals_open {T : Tables} {cw : List Nat} {a : Acc} (text : Bool) (h : DecodesTo T cw a)
    (k : Nat) (vals : List Nat) (hl : vals.length = 3 * k) (hv : ∀ v ∈ vals, v < 40)
    (st' : CState) (es : List Emit) (hr : runVals T text (vals.map Int.ofNat) {} = .ok (st', es)) :
    DecK T (cw ++ [if text then 239 else 230] ++ (writeTriplets vals).1) (a.emitAll es).endSeg 1 := by
  intro suf hs
  have hseg := cSeg_triplets T text k vals suf {} st' es a 0 hl hv hr
  rw [List.append_assoc, List.append_assoc, h]
  simp only [List.singleton_append, List.cons_append, List.nil_append]
  rw [latch_step, hseg, cSeg_open_tail T text suf st' _ _ hs]
  simp only [Nat.zero_add]
  rw [decLoop_skip']
  first | rfl | (congr 1; (try simp only [List.length_append, List.length_cons, List.length_nil]); (try omega))

/-! ## values of characters -/

theorem cVals_append (text : Bool) (xs ys : List Nat) : cVals text (xs ++ ys) = cVals text xs ++ cVals text ys := by
  induction xs with
  | nil => rfl
  | cons x xs ih => simp [cVals, ih]

theorem cEncodeChar_pos (text : Bool) (c : Nat) : 0 < (cEncodeChar text c).length := by
  unfold cEncodeChar
  simp only
  split
  · cases text
    · simp only [Bool.false_eq_true, if_false]; unfold c40Base; repeat' split
      all_goals simp
    · simp only [if_true]; unfold textBase; repeat' split
      all_goals simp
  · simp

/-- for bytes: one or two values ⇒ not an extended character; the first of two values is a shift (< 3) -/
def smallCharOK (text : Bool) (c : Nat) : Bool :=
  let e := cEncodeChar text c
  (decide (e.length ≤ 2) → decide (c < 128)) &&
  (match e with
   | [s, _] => decide (s < 3)
   | _ => true)

set_option maxRecDepth 100000 in
theorem smallChar_c40 : ∀ c : Fin 256, smallCharOK false c.val = true := by decide +kernel
set_option maxRecDepth 100000 in
theorem smallChar_text : ∀ c : Fin 256, smallCharOK true c.val = true := by decide +kernel

theorem smallChar (text : Bool) (c : Nat) (hc : c < 256) : smallCharOK text c = true := by
  cases text
  · exact smallChar_c40 ⟨c, hc⟩
  · exact smallChar_text ⟨c, hc⟩

/-- the values of whole characters followed by one shift value (0, 1 or 2): the automaton emits the
    characters and ends in a shift state -/
theorem chars_run_shift (text : Bool) (chars : List Nat) (hb : ∀ c ∈ chars, c < 256) (s : Nat) (hs : s < 3) :
    ∃ st es, runVals refTables text ((cVals text chars ++ [s]).map Int.ofNat) {} = .ok (st, es) ∧
      (∀ a : Acc, a.emitAll es = a.pushAll chars) ∧ ∀ v ∈ cVals text chars ++ [s], v < 40 := by
  obtain ⟨es, hr, hem, hv⟩ := chars_run text chars hb
  have h1 : runVals refTables text ([s].map Int.ofNat) {} = .ok ({ shift := (s : Int) + 1 }, [.none]) := by
    have : ((s : Nat) : Int) < 3 := by omega
    simp [runVals, cValueCore, this]
  refine ⟨{ shift := (s : Int) + 1 }, es ++ [.none], ?_, ?_, ?_⟩
  · rw [List.map_append]
    exact runVals_append refTables text _ _ {} {} _ es [.none] hr h1
  · intro a
    rw [emitAll_append, hem]
    simp [Acc.emitAll, Acc.emit]
  · intro v hv'
    simp only [List.mem_append, List.mem_singleton] at hv'
    rcases hv' with h | h
    · exact hv v h
    · omega

end Gzx.DMHighLevel

namespace Gzx.DMHighLevel

/-! ## encoder: the buffer invariant -/

/-- the characters consumed since the call started at `c0` -/
def charsOf (c0 c : Ctx) : List Nat := (c0.msg.drop c0.pos).take (c.pos - c0.pos)

/-- size of the character that ends the buffer (0 if nothing is buffered) -/
def lastSz (text : Bool) (c0 c : Ctx) : Nat :=
  if c0.pos < c.pos then
    match c.msg[c.pos - 1]? with
    | some p => (cEncodeChar text p).length
    | none => 0
  else 0

/-- the C40 / Text encoder's loop invariant: nothing written yet, `buf` = values of the characters consumed -/
structure CBuf (text : Bool) (c0 c : Ctx) (buf : List Nat) : Prop where
  cw : c.cw = c0.cw
  msg : c.msg = c0.msg
  cfg : c.cfg = c0.cfg
  skip : c.skipAtEnd = c0.skipAtEnd
  lo : c0.pos ≤ c.pos
  hi : c.pos ≤ c.total
  buf : buf = cVals text (charsOf c0 c)

theorem charsOf_succ {c0 c : Ctx} {ch : Nat} (hm : c.msg = c0.msg) (hlo : c0.pos ≤ c.pos)
    (hget : c.msg[c.pos]? = some ch) (c' : Ctx) (hp : c'.pos = c.pos + 1) :
    charsOf c0 c' = charsOf c0 c ++ [ch] := by
  unfold charsOf
  rw [hp]
  have h1 : c.pos + 1 - c0.pos = (c.pos - c0.pos) + 1 := by omega
  rw [h1, List.take_add_one]
  congr 1
  rw [List.getElem?_drop]
  have : c0.pos + (c.pos - c0.pos) = c.pos := by omega
  rw [this, ← hm, hget]; rfl

theorem c40Available_spec {syms : List SymbolInfo} {c c2 : Ctx} {buf : List Nat} {av : Nat}
    (h : c40Available syms c buf = .ok (c2, av)) :
    c2.cw = c.cw ∧ c2.msg = c.msg ∧ c2.pos = c.pos ∧ c2.cfg = c.cfg ∧ c2.skipAtEnd = c.skipAtEnd ∧
    c2.newEnc = c.newEnc ∧ ∃ s, c2.sym = some s ∧ c.count + buf.length / 3 * 2 ≤ s.cap ∧
      av = s.cap - (c.count + buf.length / 3 * 2) ∧ c40Available syms c2 buf = .ok (c2, av) := by
  unfold c40Available at h
  simp only [bind, Except.bind] at h
  cases hu : c.update syms (c.count + buf.length / 3 * 2) with
  | error e => rw [hu] at h; simp at h
  | ok c3 =>
    rw [hu] at h
    simp only at h
    obtain ⟨ucw, umsg, upos, ucfg, uskip, unew, s, hs, hcap, _⟩ := update_spec hu
    have hcapok : c3.capacity = .ok s.cap := by simp [Ctx.capacity, hs]
    rw [hcapok] at h
    simp only [Except.ok.injEq, Prod.mk.injEq] at h
    obtain ⟨rfl, rfl⟩ := h
    refine ⟨ucw, umsg, upos, ucfg, uskip, unew, s, hs, hcap, rfl, ?_⟩
    have hcount : c3.count = c.count := by simp [Ctx.count, ucw]
    unfold c40Available
    have hu2 : c3.update syms (c3.count + buf.length / 3 * 2) = .ok c3 := by
      unfold Ctx.update
      simp only [hs]
      have : ¬ (c3.count + buf.length / 3 * 2 > s.cap) := by rw [hcount]; omega
      simp [this]
    rw [hcount] at hu2
    simp only [bind, Except.bind, hcount, hu2, hcapok]

theorem CBuf.avail {text : Bool} {syms : List SymbolInfo} {c0 c c2 : Ctx} {buf : List Nat} {av : Nat}
    (hB : CBuf text c0 c buf) (h : c40Available syms c buf = .ok (c2, av)) : CBuf text c0 c2 buf := by
  obtain ⟨a1, a2, a3, a4, a5, a6, _⟩ := c40Available_spec h
  refine ⟨by rw [a1, hB.cw], by rw [a2, hB.msg], by rw [a4, hB.cfg], by rw [a5, hB.skip],
    by rw [a3]; exact hB.lo, ?_, ?_⟩
  · simp only [Ctx.total, a2, a3, a5]; exact hB.hi
  · have : charsOf c0 c2 = charsOf c0 c := by simp [charsOf, a3]
    rw [this]; exact hB.buf

theorem lastSz_congr (text : Bool) (c0 c c2 : Ctx) (h1 : c2.msg = c.msg) (h2 : c2.pos = c.pos) :
    lastSz text c0 c2 = lastSz text c0 c := by simp [lastSz, h1, h2]

/-- backtrackOneCharacter on the invariant -/
theorem backtrackOne_spec {text : Bool} {c0 c c' : Ctx} {buf buf' : List Nat} {last' : Nat}
    (hB : CBuf text c0 c buf) (hne : c0.pos < c.pos)
    (h : backtrackOne text c buf (lastSz text c0 c) = .ok (c', buf', last')) :
    CBuf text c0 c' buf' ∧ c'.pos + 1 = c.pos ∧ c'.newEnc = c.newEnc ∧ last' = lastSz text c0 c' ∧
      c'.hasMore = true ∧ buf'.length < buf.length := by
  have hlen : c.pos ≤ c.msg.length := by have := hB.hi; simp only [Ctx.total] at this; omega
  have hget : c.msg[c.pos - 1]? = some c.msg[c.pos - 1] := List.getElem?_eq_getElem (by omega)
  -- the last character and its values
  let cm : Ctx := { c with pos := c.pos - 1 }
  have hchars : charsOf c0 c = charsOf c0 cm ++ [c.msg[c.pos - 1]] := by
    have := charsOf_succ (c0 := c0) (c := cm) (ch := c.msg[c.pos - 1]) hB.msg (by simp [cm]; omega) hget c
      (by simp [cm]; omega)
    exact this
  have hls : lastSz text c0 c = (cEncodeChar text c.msg[c.pos - 1]).length := by
    simp [lastSz, hne, hget]
  have hbuf : buf = cVals text (charsOf c0 cm) ++ cEncodeChar text c.msg[c.pos - 1] := by
    rw [hB.buf, hchars, cVals_append]; simp [cVals]
  unfold backtrackOne at h
  have hle : ¬ lastSz text c0 c > buf.length := by rw [hls, hbuf]; simp
  simp only [hle, if_false] at h
  have hback : c.back 1 = .ok cm := by simp [Ctx.back, cm]; omega
  rw [hback] at h
  simp only [bind, Except.bind] at h
  have hcur : cm.cur = .ok c.msg[c.pos - 1] := by simp [Ctx.cur, cm, hget]
  rw [hcur] at h
  simp only at h
  have htake : buf.take (buf.length - lastSz text c0 c) = cVals text (charsOf c0 cm) := by
    rw [hls, hbuf]; simp
  rw [htake] at h
  have hpos' : 0 < (cEncodeChar text c.msg[c.pos - 1]).length := cEncodeChar_pos _ _
  have hcb : ∀ cc : Ctx, cc.cw = c.cw → cc.msg = c.msg → cc.cfg = c.cfg → cc.skipAtEnd = c.skipAtEnd →
      cc.pos = c.pos - 1 → CBuf text c0 cc (cVals text (charsOf c0 cm)) := by
    intro cc e1 e2 e3 e4 e5
    refine ⟨by rw [e1, hB.cw], by rw [e2, hB.msg], by rw [e3, hB.cfg], by rw [e4, hB.skip], by omega, ?_, ?_⟩
    · have := hB.hi; simp only [Ctx.total, e2, e4, e5] at this ⊢; omega
    · simp [charsOf, e5, cm]
  have hmore : ∀ cc : Ctx, cc.msg = c.msg → cc.skipAtEnd = c.skipAtEnd → cc.pos = c.pos - 1 →
      cc.hasMore = true := by
    intro cc e2 e4 e5
    rw [hasMore_iff']
    have := hB.hi; simp only [Ctx.total, e2, e4, e5] at this ⊢; omega
  have hcmp : cm.pos = c.pos - 1 := rfl
  have hnil_of : ¬ c0.pos < c.pos - 1 → charsOf c0 cm = [] := by
    intro hx; unfold charsOf; rw [hcmp]
    have : c.pos - 1 - c0.pos = 0 := by omega
    rw [this]; simp
  have hbl : (cVals text (charsOf c0 cm)).length < buf.length := by rw [hbuf]; simp; omega
  have hposeq : ∀ cc : Ctx, cc.pos = c.pos - 1 → cc.pos + 1 = c.pos := by intro cc e; omega
  split at h
  · rename_i hpos
    have hlt0 : c0.pos < c.pos - 1 := by
      by_cases hx : c0.pos < c.pos - 1
      · exact hx
      · exfalso
        rw [hnil_of hx] at hpos; simp [cVals] at hpos
    split at h
    · rename_i h0
      exfalso
      have : cm.pos = 0 := h0
      omega
    · split at h
      · rename_i p hp
        simp only [Except.ok.injEq, Prod.mk.injEq] at h
        obtain ⟨rfl, rfl, rfl⟩ := h
        refine ⟨hcb _ rfl rfl rfl rfl rfl, hposeq _ rfl, rfl, ?_, hmore _ rfl rfl rfl, hbl⟩
        have hp' : c.msg[c.pos - 1 - 1]? = some p := hp
        unfold lastSz
        simp only [hcmp, hlt0, if_true]
        show _ = match c.msg[c.pos - 1 - 1]? with
          | some p => (cEncodeChar text p).length
          | none => 0
        rw [hp']
      · cases h
  · rename_i hpos
    simp only [Except.ok.injEq, Prod.mk.injEq] at h
    obtain ⟨rfl, rfl, rfl⟩ := h
    refine ⟨hcb _ rfl rfl rfl rfl rfl, hposeq _ rfl, rfl, ?_, hmore _ rfl rfl rfl, hbl⟩
    -- buffer empty: no characters left
    have hnil : cVals text (charsOf c0 cm) = [] := List.eq_nil_of_length_eq_zero (by omega)
    have hx : ¬ c0.pos < c.pos - 1 := by
      intro hx
      have hg : c.msg[c.pos - 2]? = some c.msg[c.pos - 2] := List.getElem?_eq_getElem (by omega)
      have := charsOf_succ (c0 := c0) (c := ({ c with pos := c.pos - 2 } : Ctx)) (ch := c.msg[c.pos - 2]) hB.msg
        (by show c0.pos ≤ c.pos - 2; omega) hg cm (by show cm.pos = c.pos - 2 + 1; omega)
      rw [this, cVals_append] at hnil
      have hp2 := cEncodeChar_pos text c.msg[c.pos - 2]
      have hl0 := congrArg List.length hnil
      simp only [cVals, List.length_append, List.append_nil, List.length_nil] at hl0
      omega
    unfold lastSz
    have hx' : ¬ c0.pos < cm.pos := by rw [hcmp]; exact hx
    exact (if_neg hx').symm

end Gzx.DMHighLevel

namespace Gzx.DMHighLevel

theorem hasMore_congr (c c2 : Ctx) (h1 : c2.msg = c.msg) (h2 : c2.pos = c.pos) (h3 : c2.skipAtEnd = c.skipAtEnd) :
    c2.hasMore = c.hasMore := by unfold Ctx.hasMore Ctx.total; rw [h1, h2, h3]

theorem CBuf.nonempty {text : Bool} {c0 c : Ctx} {buf : List Nat} (hB : CBuf text c0 c buf) (h : buf ≠ []) :
    c0.pos < c.pos := by
  by_cases hx : c0.pos < c.pos
  · exact hx
  · exfalso; apply h
    rw [hB.buf]
    have : c.pos - c0.pos = 0 := by omega
    simp [charsOf, this, cVals]

/-- the backtracking loop on the invariant -/
theorem backtrackLoop_spec {text : Bool} {syms : List SymbolInfo} {c0 : Ctx} :
    ∀ (fuel : Nat) (c : Ctx) (buf : List Nat) (av : Nat) (c' : Ctx) (buf' : List Nat),
      CBuf text c0 c buf → c40Available syms c buf = .ok (c, av) →
      backtrackLoop syms text fuel c buf (lastSz text c0 c) av = .ok (c', buf') →
      CBuf text c0 c' buf' ∧ c'.newEnc = c.newEnc ∧ ∃ av', c40Available syms c' buf' = .ok (c', av') ∧
        ¬ (buf'.length % 3 = 1 ∧ (lastSz text c0 c' > 2 ∨ av' ≠ 1)) ∧
        ((c' = c ∧ buf' = buf ∧ av' = av) ∨ c'.hasMore = true) := by
  intro fuel
  induction fuel with
  | zero => intro c buf av c' buf' _ _ h; simp [backtrackLoop] at h
  | succ n ih =>
    intro c buf av c' buf' hB hav h
    simp only [backtrackLoop] at h
    split at h
    · rename_i hcond
      have hne : buf ≠ [] := by intro e; rw [e] at hcond; simp at hcond
      have hlt := hB.nonempty hne
      cases h1 : backtrackOne text c buf (lastSz text c0 c) with
      | error e => rw [h1] at h; simp [bind, Except.bind] at h
      | ok r1 =>
        obtain ⟨c1, buf1, last1⟩ := r1
        rw [h1] at h
        simp only [bind, Except.bind] at h
        obtain ⟨hB1, hp1, hn1, hl1, hm1, _⟩ := backtrackOne_spec hB hlt h1
        cases h2 : c40Available syms c1 buf1 with
        | error e => rw [h2] at h; simp at h
        | ok r2 =>
          obtain ⟨c2, av2⟩ := r2
          rw [h2] at h
          simp only at h
          obtain ⟨a1, a2, a3, a4, a5, a6, s, hs, _, _, hidem⟩ := c40Available_spec h2
          have hB2 := hB1.avail h2
          have hl2 : last1 = lastSz text c0 c2 := by rw [hl1, lastSz_congr text c0 c1 c2 a2 a3]
          rw [hl2] at h
          obtain ⟨hB', hn', av', hav', hnc, hor⟩ := ih c2 buf1 av2 c' buf' hB2 hidem h
          have hm2 : c2.hasMore = true := by rw [hasMore_congr c1 c2 a2 a3 a5]; exact hm1
          refine ⟨hB', by rw [hn', a6, hn1], av', hav', hnc, Or.inr ?_⟩
          rcases hor with ⟨e, _, _⟩ | e
          · rw [e]; exact hm2
          · exact e
    · rename_i hcond
      cases h
      exact ⟨hB, rfl, av, hav, hcond, Or.inl ⟨rfl, rfl, rfl⟩⟩

/-- the main loop of the C40 / Text encoder on the invariant -/
theorem c40Loop_spec {text : Bool} {syms : List SymbolInfo} {la : LookAhead} {c0 : Ctx} :
    ∀ (fuel : Nat) (c : Ctx) (buf : List Nat) (c1 : Ctx) (buf1 : List Nat),
      CBuf text c0 c buf → c.hasMore = true → c.newEnc = none →
      c40Loop syms la text fuel c buf = .ok (c1, buf1) →
      CBuf text c0 c1 buf1 ∧
      ((c1.newEnc = some ASCII ∧ buf1.length % 3 = 0 ∧ c1.hasMore = true) ∨
       (c1.newEnc = none ∧ ∃ av, c40Available syms c1 buf1 = .ok (c1, av) ∧
          ¬ (buf1.length % 3 = 1 ∧ (lastSz text c0 c1 > 2 ∨ av ≠ 1)) ∧
          (c1.hasMore = true ∨ ¬ (buf1.length % 3 = 2 ∧ av ≠ 2)))) := by
  intro fuel
  induction fuel with
  | zero => intro c buf c1 buf1 _ hm _ h; simp [c40Loop, hm] at h
  | succ n ih =>
    intro c buf c1 buf1 hB hm hnew h
    simp only [c40Loop, hm, Bool.not_true, Bool.false_eq_true, if_false] at h
    obtain ⟨ch, hc, hget⟩ := hasMore_cur' hm
    rw [hc] at h
    simp only [bind, Except.bind] at h
    -- the context after consuming `ch`
    have hlt : c.pos < c.total := (hasMore_iff' c).mp hm
    have hB' : CBuf text c0 ({ c with pos := c.pos + 1 } : Ctx) (buf ++ cEncodeChar text ch) := by
      refine ⟨hB.cw, hB.msg, hB.cfg, hB.skip, by have := hB.lo; simp only; omega, ?_, ?_⟩
      · simp only [Ctx.total] at hlt ⊢; omega
      · rw [charsOf_succ hB.msg hB.lo hget _ rfl, cVals_append, ← hB.buf]; simp [cVals]
    cases h2 : c40Available syms ({ c with pos := c.pos + 1 } : Ctx) (buf ++ cEncodeChar text ch) with
    | error e => rw [h2] at h; simp at h
    | ok r2 =>
      obtain ⟨c2, av⟩ := r2
      rw [h2] at h
      simp only at h
      obtain ⟨a1, a2, a3, a4, a5, a6, s, hs, _, _, hidem⟩ := c40Available_spec h2
      have hB2 := hB'.avail h2
      have hn2 : c2.newEnc = none := by rw [a6]; exact hnew
      have hls : (cEncodeChar text ch).length = lastSz text c0 c2 := by
        have h1 : c0.pos < c2.pos := by rw [a3]; have := hB.lo; simp only; omega
        have h2' : c2.msg[c2.pos - 1]? = some ch := by
          rw [a2, a3]; simp only; rw [Nat.add_sub_cancel]; exact hget
        simp [lastSz, h1, h2']
      split at h
      · -- the last character has been consumed
        rename_i hnm
        simp only [Bool.not_eq_true', ] at hnm
        split at h
        · rename_i hc2
          rw [hls] at h
          cases h3 : backtrackOne text c2 (buf ++ cEncodeChar text ch) (lastSz text c0 c2) with
          | error e => rw [h3] at h; simp [bind, Except.bind] at h
          | ok r3 =>
            obtain ⟨c3, buf3, last3⟩ := r3
            rw [h3] at h
            simp only [bind, Except.bind] at h
            have hne : buf ++ cEncodeChar text ch ≠ [] := by
              have := cEncodeChar_pos text ch
              intro e; have := congrArg List.length e
              simp only [List.length_append, List.length_nil] at this; omega
            obtain ⟨hB3, hp3, hn3, hl3, hm3, _⟩ := backtrackOne_spec hB2 (hB2.nonempty hne) h3
            cases h4 : c40Available syms c3 buf3 with
            | error e => rw [h4] at h; simp at h
            | ok r4 =>
              obtain ⟨c4, av4⟩ := r4
              rw [h4] at h
              simp only at h
              obtain ⟨b1, b2, b3, b4, b5, b6, _, _, _, _, hidem4⟩ := c40Available_spec h4
              have hB4 := hB3.avail h4
              have hl4 : last3 = lastSz text c0 c4 := by rw [hl3, lastSz_congr text c0 c3 c4 b2 b3]
              rw [hl4] at h
              obtain ⟨hBf, hnf, avf, havf, hncf, horf⟩ := backtrackLoop_spec _ c4 buf3 av4 c1 buf1 hB4 hidem4 h
              have hm4 : c4.hasMore = true := by rw [hasMore_congr c3 c4 b2 b3 b5]; exact hm3
              refine ⟨hBf, Or.inr ⟨by rw [hnf, b6, hn3, hn2], avf, havf, hncf, Or.inl ?_⟩⟩
              rcases horf with ⟨e, _, _⟩ | e
              · rw [e]; exact hm4
              · exact e
        · rename_i hc2
          rw [hls] at h
          obtain ⟨hBf, hnf, avf, havf, hncf, horf⟩ :=
            backtrackLoop_spec _ c2 (buf ++ cEncodeChar text ch) av c1 buf1 hB2 hidem h
          refine ⟨hBf, Or.inr ⟨by rw [hnf, hn2], avf, havf, hncf, ?_⟩⟩
          rcases horf with ⟨e1, e2, e3⟩ | e
          · right; rw [e2, e3]; exact hc2
          · left; exact e
      · rename_i hnm
        have hm2 : c2.hasMore = true := by simpa using hnm
        by_cases h3 : (buf ++ cEncodeChar text ch).length % 3 = 0
        · simp only [h3, if_true] at h
          by_cases hla : la c2.msg c2.pos (if text = true then TEXT else C40) ≠ (if text = true then TEXT else C40)
          · rw [if_pos hla] at h
            simp only [Except.ok.injEq, Prod.mk.injEq] at h
            obtain ⟨rfl, rfl⟩ := h
            refine ⟨⟨hB2.cw, hB2.msg, hB2.cfg, hB2.skip, hB2.lo, hB2.hi, hB2.buf⟩, Or.inl ⟨rfl, h3, hm2⟩⟩
          · rw [if_neg hla] at h
            exact ih c2 _ c1 buf1 hB2 hm2 hn2 h
        · simp only [h3, if_false] at h
          exact ih c2 _ c1 buf1 hB2 hm2 hn2 h

end Gzx.DMHighLevel

namespace Gzx.DMHighLevel

theorem writeTriplets_exact (l : List Nat) (k : Nat) (h : l.length = 3 * k) :
    (writeTriplets l).2 = [] ∧ (writeTriplets l).1.length = 2 * k := by
  obtain ⟨k', h1, h2, h3, _, _, h6⟩ := writeTriplets_split l.length l (Nat.le_refl _)
  have : k' = k := by omega
  subst this
  refine ⟨?_, h6⟩
  rw [h3]; apply List.drop_eq_nil_of_le; omega

theorem writeTriplets_take (l : List Nat) (k : Nat) (h1 : 3 * k ≤ l.length) (h2 : l.length < 3 * k + 3) :
    (writeTriplets l).1 = (writeTriplets (l.take (3 * k))).1 ∧ (writeTriplets l).1.length = 2 * k := by
  obtain ⟨k', g1, g2, _, g4, _, g6⟩ := writeTriplets_split l.length l (Nat.le_refl _)
  have : k' = k := by omega
  subst this
  exact ⟨g4, g6⟩

theorem charsOf_text {c0 c : Ctx} {a : Acc} (hm : c.msg = c0.msg) (hlo : c0.pos ≤ c.pos)
    (ht : a.rev.reverse = c0.msg.take c0.pos) : a.rev.reverse ++ charsOf c0 c = c.msg.take c.pos := by
  rw [ht, hm]; unfold charsOf
  rw [take_add_drop_take]; congr 1; omega

/-- `c40HandleEOD` after the loop: every reachable combination of rest / free space / more characters ends in
    the invariant or a tail state -/
theorem c40HandleEOD_post {text : Bool} {syms : List SymbolInfo} {la : LookAhead} {c0 c c' : Ctx} {a : Acc}
    {buf : List Nat} {av : Nat}
    (hbytes : ∀ x ∈ c0.msg, x < 256)
    (hL : LatchedM refTables (if text then TEXT else C40) (if text then 239 else 230) la c0 a)
    (hB : CBuf text c0 c buf) (hav : c40Available syms c buf = .ok (c, av))
    (h1 : ¬ (buf.length % 3 = 1 ∧ (lastSz text c0 c > 2 ∨ av ≠ 1)))
    (h2 : c.hasMore = true ∨ ¬ (buf.length % 3 = 2 ∧ av ≠ 2))
    (h : c40HandleEOD syms c buf = .ok c') :
    ∃ a', a'.trailer = a.trailer ∧ c'.msg = c0.msg ∧ c'.cfg = c0.cfg ∧ c'.skipAtEnd = c0.skipAtEnd ∧
      c0.pos ≤ c'.pos ∧ c'.pos ≤ c'.total ∧ c'.newEnc = some ASCII ∧
      (Inv refTables c' a' ∨ ∃ k, k ≤ 1 ∧ Tail refTables c' a' k) := by
  obtain ⟨cw0, hcw, hdec, htext, hpend, _⟩ := hL
  obtain ⟨_, _, _, _, _, _, s, hs, hcap, havs, _⟩ := c40Available_spec hav
  have hcb : ∀ x ∈ charsOf c0 c, x < 256 := by
    intro x hx; unfold charsOf at hx
    exact hbytes x (List.mem_of_mem_drop (List.mem_of_mem_take hx))
  have htx := charsOf_text hB.msg hB.lo htext
  have htr : ∀ cs : List Nat, ((a.pushAll cs).endSeg).trailer = a.trailer := by
    intro cs; rw [Acc.endSeg_trailer, pushAll_trailer]
  unfold c40HandleEOD at h
  rw [hav] at h
  simp only [bind, Except.bind] at h
  have hw : ∀ (cc : Ctx) (xs : List Nat), (cc.writeAll xs).hasMore = cc.hasMore := fun _ _ => rfl
  have htot : ∀ cc : Ctx, cc.msg = c.msg → cc.skipAtEnd = c.skipAtEnd → cc.total = c.total := by
    intro cc e1 e2; simp [Ctx.total, e1, e2]
  by_cases hr2 : buf.length % 3 = 2
  · -- two values left: pad with a shift-1 value
    simp only [hr2, if_true, hw] at h
    obtain ⟨k, hk⟩ : ∃ k, (buf ++ [0]).length = 3 * k := ⟨(buf.length + 1) / 3, by simp; omega⟩
    obtain ⟨st, es, hrun, hem, hv40⟩ := chars_run_shift text (charsOf c0 c) hcb 0 (by decide)
    rw [← hB.buf] at hrun hv40
    obtain ⟨hw2, hwl⟩ := writeTriplets_exact (buf ++ [0]) k hk
    by_cases hm : c.hasMore = true
    · simp only [hm, if_true, Except.ok.injEq] at h
      subst h
      refine ⟨(a.pushAll (charsOf c0 c)).endSeg, htr _, hB.msg, hB.cfg, hB.skip, hB.lo, ?_, rfl, Or.inl ⟨?_, ?_, rfl⟩⟩
      · exact hB.hi
      · have := decodesTo_cvals text hdec k (buf ++ [0]) hk hv40 st es hrun
        rw [hem] at this
        simpa [Ctx.signal, Ctx.write, Ctx.writeAll, hB.cw, hcw, List.append_assoc] using this
      · simp only [Ctx.signal, Ctx.write, Ctx.writeAll, Acc.endSeg_rev, pushAll_rev]; exact htx
    · simp only [hm, Bool.false_eq_true, if_false, Except.ok.injEq] at h
      subst h
      have hav2 : av = 2 := by
        rcases h2 with e | e
        · exact absurd e hm
        · by_cases hx : av = 2
          · exact hx
          · exact absurd ⟨hr2, hx⟩ e
      have hmf : c.hasMore = false := by simpa using hm
      refine ⟨(a.pushAll (charsOf c0 c)).endSeg, htr _, hB.msg, hB.cfg, hB.skip, hB.lo, ?_, rfl,
        Or.inr ⟨0, by omega, ?_, ?_, rfl, ⟨s, hs, ?_⟩, ?_⟩⟩
      · exact hB.hi
      · have := (decK_cvals_open text hdec k (buf ++ [0]) hk hv40 st es hrun).mono (Nat.zero_le 1)
        rw [hem] at this
        simpa [Ctx.signal, Ctx.writeAll, hB.cw, hcw, List.append_assoc] using this
      · simp only [Ctx.signal, Ctx.writeAll, Acc.endSeg_rev, pushAll_rev]; exact htx
      · simp only [Ctx.signal, Ctx.writeAll, Ctx.count, List.length_append, hwl]
        simp only [Ctx.count] at havs hcap
        simp only [List.length_append, List.length_cons, List.length_nil] at hk
        omega
      · have hr0 : c.remaining = 0 := by
          have := (hasMore_false_iff' c).mp hmf
          simp only [Ctx.remaining]; omega
        have : ((c.writeAll (writeTriplets (buf ++ [0])).1).signal ASCII).rest = c.rest := rfl
        rw [this]; simp [Ctx.rest, hr0, asciiNeed]
  · by_cases hr1 : buf.length % 3 = 1
    · -- one value left: the last character goes to ASCII encodation
      have hav1 : av = 1 := by
        by_cases hx : av = 1
        · exact hx
        · exact absurd ⟨hr1, Or.inr hx⟩ h1
      have hls : lastSz text c0 c ≤ 2 := by
        by_cases hx : lastSz text c0 c ≤ 2
        · exact hx
        · exact absurd ⟨hr1, Or.inl (by omega)⟩ h1
      simp only [hr1, show ¬ (1 : Nat) = 2 by decide, if_false, hav1, and_self, if_true, hw] at h
      have hne : buf ≠ [] := by intro e; rw [e] at hr1; simp at hr1
      have hlt := hB.nonempty hne
      -- the last character
      have hlen : c.pos ≤ c.msg.length := by have := hB.hi; simp only [Ctx.total] at this; omega
      have hget : c.msg[c.pos - 1]? = some c.msg[c.pos - 1] := List.getElem?_eq_getElem (by omega)
      have hcm : charsOf c0 c = charsOf c0 ({ c with pos := c.pos - 1 } : Ctx) ++ [c.msg[c.pos - 1]] :=
        charsOf_succ (c0 := c0) (c := ({ c with pos := c.pos - 1 } : Ctx)) hB.msg (by show c0.pos ≤ c.pos - 1; omega)
          hget c (by show c.pos = c.pos - 1 + 1; omega)
      generalize hch' : charsOf c0 ({ c with pos := c.pos - 1 } : Ctx) = chars' at hcm
      have hlc : c.msg[c.pos - 1] < 256 := hcb _ (by rw [hcm]; simp)
      have hcb' : ∀ x ∈ chars', x < 256 := fun x hx => hcb x (by rw [hcm]; simp [hx])
      have hlsz : lastSz text c0 c = (cEncodeChar text c.msg[c.pos - 1]).length := by simp [lastSz, hlt, hget]
      have hbuf : buf = cVals text chars' ++ cEncodeChar text c.msg[c.pos - 1] := by
        rw [hB.buf, hcm, cVals_append]; simp [cVals]
      have hsm := smallChar text _ hlc
      unfold smallCharOK at hsm
      simp only [Bool.and_eq_true] at hsm
      have hl128 : c.msg[c.pos - 1] < 128 := by
        have h1' := of_decide_eq_true hsm.1
        exact of_decide_eq_true (h1' (decide_eq_true (by omega)))
      obtain ⟨k, hk⟩ : ∃ k, buf.length = 3 * k + 1 := ⟨buf.length / 3, by omega⟩
      obtain ⟨hwt, hwl⟩ := writeTriplets_take buf k (by omega) (by omega)
      -- the first 3k values: whole characters, possibly followed by the shift of the last one
      have hV : ∃ st es, runVals refTables text ((buf.take (3 * k)).map Int.ofNat) {} = .ok (st, es) ∧
          (∀ b : Acc, b.emitAll es = b.pushAll chars') ∧ ∀ v ∈ buf.take (3 * k), v < 40 := by
        have hpos := cEncodeChar_pos text c.msg[c.pos - 1]
        by_cases hsz : (cEncodeChar text c.msg[c.pos - 1]).length = 1
        · obtain ⟨es, hr, hem, hv⟩ := chars_run text chars' hcb'
          have : buf.take (3 * k) = cVals text chars' := by
            rw [hbuf]; rw [hbuf] at hk
            simp only [List.length_append] at hk
            rw [List.take_append_of_le_length (by omega)]
            apply List.take_of_length_le; omega
          rw [this]
          exact ⟨{}, es, hr, hem, hv⟩
        · have hsz2 : (cEncodeChar text c.msg[c.pos - 1]).length = 2 := by omega
          match hq : cEncodeChar text c.msg[c.pos - 1], hsz2 with
          | [sv, xv], _ =>
            have hs3 : sv < 3 := by have := hsm.2; rw [hq] at this; simpa using this
            obtain ⟨st, es, hr, hem, hv⟩ := chars_run_shift text chars' hcb' sv hs3
            have : buf.take (3 * k) = cVals text chars' ++ [sv] := by
              rw [hbuf, hq]; rw [hbuf, hq] at hk
              simp only [List.length_append, List.length_cons, List.length_nil] at hk
              have e : cVals text chars' ++ [sv, xv] = (cVals text chars' ++ [sv]) ++ [xv] := by simp
              rw [e, List.take_append_of_le_length (by simp; omega)]
              apply List.take_of_length_le; simp; omega
            rw [this]
            exact ⟨st, es, hr, hem, hv⟩
      obtain ⟨st, es, hrun, hem, hv40⟩ := hV
      have hlen3 : (buf.take (3 * k)).length = 3 * k := by rw [List.length_take]; omega
      have htx' : a.rev.reverse ++ chars' = c.msg.take (c.pos - 1) := by
        have := charsOf_text (c0 := c0) (c := ({ c with pos := c.pos - 1 } : Ctx)) (a := a) hB.msg
          (by show c0.pos ≤ c.pos - 1; omega) htext
        rw [hch'] at this; exact this
      by_cases hm : c.hasMore = true
      · simp only [hm, if_true] at h
        have hbk : ((c.writeAll (writeTriplets buf).1).write 254).back 1
            = .ok { (c.writeAll (writeTriplets buf).1).write 254 with pos := c.pos - 1 } := by
          simp [Ctx.back, Ctx.write, Ctx.writeAll]; omega
        rw [hbk] at h
        simp only [Except.ok.injEq] at h
        subst h
        refine ⟨(a.pushAll chars').endSeg, htr _, hB.msg, hB.cfg, hB.skip, by show c0.pos ≤ c.pos - 1; omega, ?_, rfl,
          Or.inl ⟨?_, ?_, rfl⟩⟩
        · show c.pos - 1 ≤ c.total; have := hB.hi; omega
        · have := decodesTo_cvals text hdec k (buf.take (3 * k)) hlen3 hv40 st es hrun
          rw [hem, ← hwt] at this
          simpa [Ctx.signal, Ctx.write, Ctx.writeAll, hB.cw, hcw, List.append_assoc] using this
        · simp only [Ctx.signal, Ctx.write, Ctx.writeAll, Acc.endSeg_rev, pushAll_rev]; exact htx'
      · simp only [hm, Bool.false_eq_true, if_false] at h
        have hmf : c.hasMore = false := by simpa using hm
        have hbk : (c.writeAll (writeTriplets buf).1).back 1
            = .ok { c.writeAll (writeTriplets buf).1 with pos := c.pos - 1 } := by
          unfold Ctx.back
          rw [if_pos (by show 1 ≤ c.pos; omega)]
          rfl
        rw [hbk] at h
        simp only [Except.ok.injEq] at h
        subst h
        have hpt : c.pos = c.total := by
          have := (hasMore_false_iff' c).mp hmf; have := hB.hi; omega
        refine ⟨(a.pushAll chars').endSeg, htr _, hB.msg, hB.cfg, hB.skip, by show c0.pos ≤ c.pos - 1; omega, ?_, rfl,
          Or.inr ⟨1, by omega, ?_, ?_, rfl, ⟨s, hs, ?_⟩, ?_⟩⟩
        · show c.pos - 1 ≤ c.total; omega
        · have := decK_cvals_open text hdec k (buf.take (3 * k)) hlen3 hv40 st es hrun
          rw [hem, ← hwt] at this
          simpa [Ctx.signal, Ctx.writeAll, hB.cw, hcw, List.append_assoc] using this
        · simp only [Ctx.signal, Ctx.writeAll, Acc.endSeg_rev, pushAll_rev]; exact htx'
        · simp only [Ctx.signal, Ctx.writeAll, Ctx.count, List.length_append, hwl]
          simp only [Ctx.count] at havs hcap
          omega
        · have hrest : (({ c.writeAll (writeTriplets buf).1 with pos := c.pos - 1 } : Ctx).signal ASCII).rest
              = [c.msg[c.pos - 1]] := by
            simp only [Ctx.rest, Ctx.signal, Ctx.writeAll, Ctx.remaining, Ctx.total]
            rw [drop_eq_cons_of_getElem? hget]
            have : c.msg.length - c.skipAtEnd - (c.pos - 1) = 1 := by
              simp only [Ctx.total] at hpt; omega
            rw [this]; rfl
          rw [hrest]
          have : isExtended c.msg[c.pos - 1] = false := by simp [isExtended]; omega
          simp [asciiNeed, this]
    · -- complete triplets
      have hr0 : buf.length % 3 = 0 := by omega
      simp only [hr0, show ¬ (0 : Nat) = 2 by decide, show ¬ (0 : Nat) = 1 by decide, if_false, and_false,
        if_true, hw] at h
      obtain ⟨k, hk⟩ : ∃ k, buf.length = 3 * k := ⟨buf.length / 3, by omega⟩
      obtain ⟨es, hrun, hem, hv40⟩ := chars_run text (charsOf c0 c) hcb
      rw [← hB.buf] at hrun hv40
      obtain ⟨_, hwl⟩ := writeTriplets_exact buf k hk
      by_cases hcond : av > 0 ∨ c.hasMore = true
      · simp only [hcond, if_true, Except.ok.injEq] at h
        subst h
        refine ⟨(a.pushAll (charsOf c0 c)).endSeg, htr _, hB.msg, hB.cfg, hB.skip, hB.lo, ?_, rfl, Or.inl ⟨?_, ?_, rfl⟩⟩
        · exact hB.hi
        · have := decodesTo_cvals text hdec k buf hk hv40 {} es hrun
          rw [hem] at this
          simpa [Ctx.signal, Ctx.write, Ctx.writeAll, hB.cw, hcw, List.append_assoc] using this
        · simp only [Ctx.signal, Ctx.write, Ctx.writeAll, Acc.endSeg_rev, pushAll_rev]; exact htx
      · simp only [hcond, if_false, Except.ok.injEq] at h
        subst h
        simp only [not_or, Nat.not_lt, Nat.le_zero_eq, Bool.not_eq_true] at hcond
        obtain ⟨hav0, hmf⟩ := hcond
        refine ⟨(a.pushAll (charsOf c0 c)).endSeg, htr _, hB.msg, hB.cfg, hB.skip, hB.lo, ?_, rfl,
          Or.inr ⟨0, by omega, ?_, ?_, rfl, ⟨s, hs, ?_⟩, ?_⟩⟩
        · exact hB.hi
        · have := (decK_cvals_open text hdec k buf hk hv40 {} es hrun).mono (Nat.zero_le 1)
          rw [hem] at this
          simpa [Ctx.signal, Ctx.writeAll, hB.cw, hcw, List.append_assoc] using this
        · simp only [Ctx.signal, Ctx.writeAll, Acc.endSeg_rev, pushAll_rev]; exact htx
        · simp only [Ctx.signal, Ctx.writeAll, Ctx.count, List.length_append, hwl]
          simp only [Ctx.count] at havs hcap
          omega
        · have hr0' : c.remaining = 0 := by
            have := (hasMore_false_iff' c).mp hmf
            simp only [Ctx.remaining]; omega
          have : ((c.writeAll (writeTriplets buf).1).signal ASCII).rest = c.rest := rfl
          rw [this]; simp [Ctx.rest, hr0', asciiNeed]

end Gzx.DMHighLevel

namespace Gzx.DMHighLevel

/-- `dm_encoder_invariant`, C40 / Text: a whole call of the C40 (Text) encoder, started right after the latch,
    ends with the invariant (unlatch written) or in a tail state (symbol exactly used up, or one codeword left
    for the last character, which is not an extended one) — for EVERY look-ahead oracle. -/
theorem c40_step_post {text : Bool} {syms : List SymbolInfo} {la : LookAhead} {c c' : Ctx} {a : Acc}
    (hbytes : ∀ x ∈ c.msg, x < 256)
    (hL : LatchedM refTables (if text then TEXT else C40) (if text then 239 else 230) la c a)
    (hle : c.pos ≤ c.total) (hm : c.hasMore = true) (hnew : c.newEnc = none)
    (h : c40Encode syms la text c = .ok c') :
    ∃ a', a'.trailer = a.trailer ∧ c'.msg = c.msg ∧ c'.cfg = c.cfg ∧ c'.skipAtEnd = c.skipAtEnd ∧
      c.pos ≤ c'.pos ∧ c'.pos ≤ c'.total ∧ c'.newEnc = some ASCII ∧
      (Inv refTables c' a' ∨ ∃ k, k ≤ 1 ∧ Tail refTables c' a' k) := by
  have hB0 : CBuf text c c [] := ⟨rfl, rfl, rfl, rfl, Nat.le_refl _, hle, by simp [charsOf, cVals]⟩
  unfold c40Encode at h
  cases hl : c40Loop syms la text c.remaining c [] with
  | error e => rw [hl] at h; simp [bind, Except.bind] at h
  | ok r =>
    obtain ⟨c1, buf1⟩ := r
    rw [hl] at h
    simp only [bind, Except.bind] at h
    obtain ⟨hB1, hexit⟩ := c40Loop_spec c.remaining c [] c1 buf1 hB0 hm hnew hl
    rcases hexit with ⟨hn1, h3, hm1⟩ | ⟨hn1, av, hav, hc1, hc2⟩
    · -- the look-ahead asked to leave with complete triplets
      obtain ⟨cw0, hcw, hdec, htext, hpend, _⟩ := hL
      have hcb : ∀ x ∈ charsOf c c1, x < 256 := by
        intro x hx; unfold charsOf at hx
        exact hbytes x (List.mem_of_mem_drop (List.mem_of_mem_take hx))
      have hBuf : Buffered text c1 a (charsOf c c1) buf1 :=
        ⟨cw0, by rw [hB1.cw, hcw], hdec, charsOf_text hB1.msg hB1.lo htext, hB1.buf⟩
      obtain ⟨k, hk⟩ : ∃ k, buf1.length = 3 * k := ⟨buf1.length / 3, by omega⟩
      obtain ⟨hI, hp, hmsg, hne⟩ := c40HandleEOD_midstream hBuf hcb k hk hm1 h
      have hcfg : c'.cfg = c.cfg ∧ c'.skipAtEnd = c.skipAtEnd := by
        -- c40HandleEOD touches neither hints nor skipAtEnd
        unfold c40HandleEOD at h
        cases hav : c40Available syms c1 buf1 with
        | error e => rw [hav] at h; simp [bind, Except.bind] at h
        | ok r =>
          obtain ⟨c2, av⟩ := r
          obtain ⟨_, _, _, a4, a5, _⟩ := c40Available_spec hav
          rw [hav] at h
          have hr0 : buf1.length % 3 = 0 := by omega
          have hm2 : c2.hasMore = true := by
            obtain ⟨_, a2, a3, _, a5', _⟩ := c40Available_spec hav
            rw [hasMore_congr c1 c2 a2 a3 a5']; exact hm1
          have hw : ∀ (cc : Ctx) (xs : List Nat), (cc.writeAll xs).hasMore = cc.hasMore := fun _ _ => rfl
          simp only [bind, Except.bind, hr0, show ¬ (0 : Nat) = 2 by decide, show ¬ (0 : Nat) = 1 by decide,
            if_false, and_false, if_true, hw, hm2, or_true, Except.ok.injEq] at h
          subst h
          exact ⟨by simp [Ctx.signal, Ctx.write, Ctx.writeAll, a4, hB1.cfg],
                 by simp [Ctx.signal, Ctx.write, Ctx.writeAll, a5, hB1.skip]⟩
      refine ⟨_, by rw [Acc.endSeg_trailer, pushAll_trailer], by rw [hmsg, hB1.msg], hcfg.1, hcfg.2,
        by rw [hp]; exact hB1.lo, ?_, hne, Or.inl hI⟩
      rw [hp]
      have : c'.total = c1.total := by simp [Ctx.total, hmsg, hcfg.2, hB1.skip, hB1.msg]
      rw [this]; exact hB1.hi
    · exact c40HandleEOD_post (la := la) hbytes hL hB1 hav hc1 hc2 h

end Gzx.DMHighLevel
