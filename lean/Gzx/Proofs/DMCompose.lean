/-
  C02 / C05 (Data Matrix): composition of the low-level decoder chain of C08 with Reed-Solomon decoding (C04).

  * `blockOfStream s raw b`  : block `b` of ANY codeword stream = the codewords at the positions `p ≡ b (mod B)`
                               in stream order (the standard's interleaving rule)
  * `getDataBlocks_stream`   : the decoder's DataBlocks_getDataBlocks computes exactly that for every stream of
                               the symbol's length, for each of the 30 sizes (144x144 = version 24 included)
  * `DMDec.correctErrors`, `DMDec.decodeCodewordBlocks`, `DMDec.decodeMatrix` (Model/DMDecodeChain.lean) : the
                               remaining glue of datamatrix/decoder/decoder.go (Decode / correctErrors)
  * `block_clean`, `block_corrected` : C04's `rs_decode_clean` / `rs_corrects_received` applied to a block
-/
import Gzx.Properties.C08
import Gzx.Properties.C04
import Gzx.Model.DMDecodeChain

namespace Gzx.DMProofs
open Gzx Gzx.GF Gzx.DMRef Gzx.Properties.C04 Gzx.Proofs.MinDist

/-! ## block `b` of a codeword stream -/

/-- the stream positions that belong to block `b`: "codeword number p belongs to block p mod B" -/
def blockPositions (s : Sym) (b : Nat) : List Nat := (List.range s.total).filter (fun p => p % s.blocks == b)

/-- block `b` of an arbitrary codeword stream, in stream order -/
def blockOfStream (s : Sym) (raw : List Nat) (b : Nat) : List Nat :=
  (blockPositions s b).map (fun p => raw.getD p 0)

/-- kernel-evaluated per row: the positions of block `b`, in increasing order, are sent by the reference owner
    map to `(b, 0), (b, 1), …, (b, len_b - 1)` -/
def posCheck (s : Sym) : Bool :=
  (List.range s.blocks).all (fun b =>
    (blockPositions s b).map (ownerRef s) == (List.range (s.dataLen b + s.blkErr)).map (fun i => (b, i)))

set_option maxRecDepth 10000000 in
theorem posCheck_all : table7.all posCheck = true := by decide +kernel

theorem blockPositions_spec (s : Sym) (h : posCheck s = true) (b : Nat) (hb : b < s.blocks) :
    (blockPositions s b).length = s.dataLen b + s.blkErr ∧
    ∀ i (hi : i < (blockPositions s b).length),
      (blockPositions s b)[i] < s.total ∧ ownerRef s ((blockPositions s b)[i]) = (b, i) := by
  unfold posCheck at h
  rw [List.all_eq_true] at h
  have h1 := h b (List.mem_range.2 hb)
  simp only [beq_iff_eq] at h1
  have hl : (blockPositions s b).length = s.dataLen b + s.blkErr := by
    have := congrArg List.length h1
    simpa using this
  refine ⟨hl, ?_⟩
  intro i hi
  constructor
  · have hm : (blockPositions s b)[i] ∈ blockPositions s b := List.getElem_mem hi
    unfold blockPositions at hm
    exact List.mem_range.1 (List.mem_filter.1 hm).1
  · have h2 : ((blockPositions s b).map (ownerRef s))[i]? =
        ((List.range (s.dataLen b + s.blkErr)).map (fun i => (b, i)))[i]? := by rw [h1]
    rw [List.getElem?_map, List.getElem?_eq_getElem hi, List.getElem?_map,
      List.getElem?_range (by omega)] at h2
    simpa using h2

theorem blockOfStream_length (s : Sym) (h : posCheck s = true) (raw : List Nat) (b : Nat) (hb : b < s.blocks) :
    (blockOfStream s raw b).length = s.dataLen b + s.blkErr := by
  unfold blockOfStream
  rw [List.length_map]
  exact (blockPositions_spec s h b hb).1

theorem blockOfStream_bytes (s : Sym) (raw : List Nat) (b : Nat) (h : ∀ x ∈ raw, x < 256) :
    ∀ x ∈ blockOfStream s raw b, x < 256 := by
  intro x hx
  unfold blockOfStream at hx
  obtain ⟨p, _, rfl⟩ := List.mem_map.1 hx
  rw [List.getD_eq_getElem?_getD]
  cases hp : raw[p]? with
  | none => simp
  | some v => exact h v (List.mem_of_getElem? hp)

/-- For a row whose index maps pass `idxCheck` and `posCheck`: de-interleaving ANY codeword stream of the symbol's
    length gives, per block, (its data count, the codewords at the positions `≡ b (mod B)` in stream order). -/
theorem getDataBlocks_stream (k : Nat) (s : Sym) (hc : idxCheck k s = true) (hpc : posCheck s = true)
    (raw : List Nat) (hl : raw.length = s.total) :
    DMDec.getDataBlocks raw (DMDec.ofSym k s) =
      .ok ((List.range s.blocks).map (fun b => (s.dataLen b, blockOfStream s raw b))) := by
  have F := idxFacts_of_check hc
  obtain ⟨ts, hts⟩ : ∃ ts, ts = (List.range s.total).map (ownerRef s) := ⟨_, rfl⟩
  obtain ⟨init, hinit⟩ : ∃ init, init =
      (List.range s.blocks).map (fun b => List.replicate (s.dataLen b + s.blkErr) 0) := ⟨_, rfl⟩
  have htl : ts.length = s.total := by rw [hts]; simp
  have hlen : ts.length = raw.length := by rw [htl, hl]
  have hinit_look : ∀ j i, j < s.blocks → i < s.dataLen j + s.blkErr → look init j i = some 0 := by
    intro j i hj hi
    rw [look_eq_getElem? init j i (by rw [hinit]; simpa using hj)]
    simp [hinit, hi]
  have hsome : ∀ t ∈ ts, (look init t.1 t.2).isSome = true := by
    intro t ht
    rw [hts] at ht
    obtain ⟨h1, h2, _⟩ := F.inShape t ht
    rw [hinit_look t.1 t.2 h1 h2]; rfl
  obtain ⟨res, hres, hshape, _, hget⟩ := fill_spec ts raw init hlen hsome
  have hspec := dupFreeKeys_spec (keysOf ts) 0 (dupFreeKeys (keysOf ts) 0).2 (by
    rw [hts]; exact Prod.ext F.nodup rfl)
  have hnd : ts.Nodup := nodup_of_map _ _ hspec.1
  have hreslen : res.length = s.blocks := by
    have := congrArg List.length hshape
    simpa [hinit] using this
  have hresj : ∀ j (hj : j < s.blocks), (res[j]'(by omega)).length = s.dataLen j + s.blkErr := by
    intro j hj
    have h1 : (res.map List.length)[j]? = (init.map List.length)[j]? := by rw [hshape]
    simp only [List.getElem?_map, hinit, List.getElem?_range hj, Option.map_some,
      List.length_replicate] at h1
    rw [List.getElem?_eq_getElem (by omega)] at h1
    simpa using h1
  have hres_eq : res = (List.range s.blocks).map (blockOfStream s raw) := by
    apply List.ext_getElem?
    intro j
    by_cases hj : j < s.blocks
    · rw [List.getElem?_eq_getElem (by omega), List.getElem?_map, List.getElem?_range hj]
      simp only [Option.map_some, Option.some.injEq]
      obtain ⟨hPl, hP⟩ := blockPositions_spec s hpc j hj
      apply List.ext_getElem?
      intro i
      by_cases hi : i < s.dataLen j + s.blkErr
      · have hi' : i < (blockPositions s j).length := by omega
        obtain ⟨hplt, hown⟩ := hP i hi'
        have hp : (blockPositions s j)[i] < ts.length := by omega
        have htsp : ts[(blockPositions s j)[i]] = (j, i) := by
          simp only [hts, List.getElem_map, List.getElem_range]
          exact hown
        have h1 := hget hnd _ hp
        rw [htsp] at h1
        simp only at h1
        rw [look_eq_getElem? res j i (by omega)] at h1
        rw [h1]
        unfold blockOfStream
        rw [List.getElem?_map, List.getElem?_eq_getElem hi']
        simp only [Option.map_some]
        rw [List.getD_eq_getElem?_getD, List.getElem?_eq_getElem (by omega)]
        simp
      · rw [List.getElem?_eq_none (by rw [hresj j hj]; omega),
          List.getElem?_eq_none (by rw [blockOfStream_length s hpc raw j hj]; omega)]
    · rw [List.getElem?_eq_none (by omega), List.getElem?_eq_none (by simp; omega)]
  unfold DMDec.getDataBlocks
  rw [F.targets, F.shapes]
  simp only
  have hinit' : List.map (fun s_1 : Nat × Nat => List.replicate s_1.2 0)
      (List.map (fun b => (s.dataLen b, s.dataLen b + s.blkErr)) (List.range s.blocks)) = init := by
    rw [hinit, List.map_map]; rfl
  rw [hinit', ← hts, hres]
  simp only [Except.ok.injEq]
  rw [hres_eq, List.map_map]
  exact zip_map_same _ _ _

/-- block `b` of the reference codeword sequence is `data_b ++ ecc_b` -/
theorem blockOfStream_codewords (k : Nat) (s : Sym) (hc : idxCheck k s = true) (hpc : posCheck s = true)
    (d : List Nat) (hd : d.length = s.nData) (b : Nat) (hb : b < s.blocks) :
    blockOfStream s (codewords s d) b = blockData s d b ++ blockEcc s d b := by
  have h1 := getDataBlocks_stream k s hc hpc (codewords s d) (codewords_length s d hd)
  rw [getDataBlocks_codewords k s hc d hd] at h1
  have h2 := Except.ok.inj h1
  have h3 : ((List.range s.blocks).map (fun b => (s.dataLen b, blockOf s d b)))[b]? =
      ((List.range s.blocks).map (fun b => (s.dataLen b, blockOfStream s (codewords s d) b)))[b]? := by rw [h2]
  rw [List.getElem?_map, List.getElem?_map, List.getElem?_range hb] at h3
  simp only [Option.map_some, Option.some.injEq, Prod.mk.injEq, true_and] at h3
  rw [← h3]; rfl

/-! ## the de-interlace copy only reads the data part of a block -/

theorem deinterlacePairs_take (blocks : List (Nat × List Nat)) :
    DMDec.deinterlacePairs (blocks.map (fun b => (b.1, b.2.take b.1))) = DMDec.deinterlacePairs blocks := by
  unfold DMDec.deinterlacePairs
  rw [List.zipIdx_map, List.flatMap_map, List.length_map]
  congr 1
  funext bj
  simp [List.take_take]

theorem resultBytes_take (blocks : List (Nat × List Nat)) (h : ∀ b ∈ blocks, b.1 ≤ b.2.length) :
    DMDec.resultBytes blocks = DMDec.resultBytes (blocks.map (fun b => (b.1, b.2.take b.1))) := by
  unfold DMDec.resultBytes
  have h1 : blocks.any (fun b => decide (b.2.length < b.1)) = false := by
    rw [List.any_eq_false]
    intro b hb
    have := h b hb
    simp only [decide_eq_true_eq]; omega
  have h2 : (blocks.map (fun b => (b.1, b.2.take b.1))).any (fun b => decide (b.2.length < b.1)) = false := by
    rw [List.any_eq_false]
    intro b hb
    obtain ⟨b0, hb0, rfl⟩ := List.mem_map.1 hb
    have := h b0 hb0
    simp only [List.length_take, decide_eq_true_eq]; omega
  rw [h1, h2, deinterlacePairs_take, List.map_map]
  rfl

/-! ## Reed-Solomon on one block -/

theorem dmField_facts : dataMatrix256.size = 256 ∧ dataMatrix256.base = 1 ∧ dataMatrix256.prim = 0x12D := by
  decide +kernel

/-- every reference block is a non-empty zero-syndrome word over GF(256) of length ≤ 255 -/
theorem block_is_codeword (s : Sym) (hs : s ∈ table7) (d : List Nat) (hd : d.length = s.nData)
    (hb : ∀ x ∈ d, x < 256) (b : Nat) (hbB : b < s.blocks) :
    let c := blockData s d b ++ blockEcc s d b
    c ≠ [] ∧ c.length = s.dataLen b + s.blkErr ∧ c.length ≤ dataMatrix256.size - 1 ∧ InField dataMatrix256 c ∧
      ZeroSyndromes dataMatrix256 c s.blkErr ∧ s.blkErr + dataMatrix256.base ≤ dataMatrix256.size := by
  obtain ⟨hpar, hB, hBn, hfit⟩ := Gzx.Properties.C08.block_shapes_fit s hs
  obtain ⟨h1, h2⟩ := hfit b hbB
  obtain ⟨fs, fb, _⟩ := dmField_facts
  have hl : (blockData s d b).length = s.dataLen b := blockData_length s hB d hd b (by omega)
  have hle : (blockEcc s d b).length = s.blkErr := eccBlock_length _ _
  have hdb := blockData_bytes s d b hb
  have heb : allBytes (blockEcc s d b) := eccBlock_bytes _ _ hdb
  simp only
  refine ⟨?_, by simp [hl, hle], by simp [hl, hle, fs]; omega, ?_, ?_, by rw [fs, fb]; omega⟩
  · intro hnil
    have := congrArg List.length hnil
    simp [hl] at this
    omega
  · intro x hx
    rw [fs]
    rcases List.mem_append.1 hx with h | h
    · exact hdb x h
    · exact heb x h
  · exact eccBlock_zero_syndromes s.blkErr hpar (blockData s d b) hdb

/-- C04 `rs_decode_clean` on a reference block: the decoder returns it unchanged -/
theorem block_clean (s : Sym) (hs : s ∈ table7) (d : List Nat) (hd : d.length = s.nData)
    (hb : ∀ x ∈ d, x < 256) (b : Nat) (hbB : b < s.blocks) :
    RS.decode GF.dataMatrix256 (blockData s d b ++ blockEcc s d b) s.blkErr =
      .ok (blockData s d b ++ blockEcc s d b) := by
  obtain ⟨h1, _, _, h4, h5, h6⟩ := block_is_codeword s hs d hd hb b hbB
  exact rs_decode_clean _ dmFieldOK _ _ h1 h4 h6 h5

/-- C04 `rs_corrects_received` on a damaged block: any byte word of the block's length that differs from the
    reference block in at most ⌊blkErr/2⌋ positions decodes to the reference block -/
theorem block_corrected (s : Sym) (hs : s ∈ table7) (d : List Nat) (hd : d.length = s.nData)
    (hb : ∀ x ∈ d, x < 256) (b : Nat) (hbB : b < s.blocks) (v : List Nat)
    (hvl : v.length = s.dataLen b + s.blkErr) (hvb : ∀ x ∈ v, x < 256)
    (hdist : 2 * hamming (blockData s d b ++ blockEcc s d b) v ≤ s.blkErr) :
    RS.decode GF.dataMatrix256 v s.blkErr = .ok (blockData s d b ++ blockEcc s d b) := by
  obtain ⟨h1, h2, h3, h4, h5, h6⟩ := block_is_codeword s hs d hd hb b hbB
  obtain ⟨fs, fb, _⟩ := dmField_facts
  exact rs_corrects_received _ dmFieldOK (by rw [fb]; omega) _ v _ (by rw [hvl, h2]) h3 h4
    (by intro x hx; rw [fs]; exact hvb x hx) h5 h1 h6 hdist

/-! ## the block loop of Decode -/

theorem mapM_ok_of_forall {α β : Type} (f : α → Res β) (g : α → β) :
    ∀ (l : List α), (∀ a ∈ l, f a = .ok (g a)) → l.mapM f = .ok (l.map g) := by
  intro l
  induction l with
  | nil => intro _; rfl
  | cons a l ih =>
    intro h
    rw [List.mapM_cons, h a List.mem_cons_self, ih (fun x hx => h x (List.mem_cons_of_mem _ hx))]
    rfl

/-- THE BLOCK STEP: if the de-interleaved blocks `(dataLen b, v_b)` are byte words of the right length, each
    within ⌊blkErr/2⌋ positions of its reference block, the decoder's block loop returns the data vector -/
theorem decodeCodewordBlocks_corrects (p : Sym × Nat) (hp : p ∈ table7.zipIdx) (d : List Nat)
    (hd : d.length = p.1.nData) (hb : ∀ x ∈ d, x < 256) (v : Nat → List Nat)
    (hvl : ∀ b, b < p.1.blocks → (v b).length = p.1.dataLen b + p.1.blkErr)
    (hvb : ∀ b, b < p.1.blocks → ∀ x ∈ v b, x < 256)
    (hdist : ∀ b, b < p.1.blocks → 2 * hamming (blockData p.1 d b ++ blockEcc p.1 d b) (v b) ≤ p.1.blkErr) :
    DMDec.decodeCodewordBlocks ((List.range p.1.blocks).map (fun b => (p.1.dataLen b, v b))) = .ok d := by
  have hs := Gzx.Properties.C08.zipIdx_mem_table7 p hp
  obtain ⟨_, hB, hBn, _⟩ := Gzx.Properties.C08.block_shapes_fit p.1 hs
  unfold DMDec.decodeCodewordBlocks
  have hmap : ((List.range p.1.blocks).map (fun b => (p.1.dataLen b, v b))).mapM DMDec.correctErrors =
      .ok ((List.range p.1.blocks).map (fun b =>
        (p.1.dataLen b, blockData p.1 d b ++ (v b).drop (p.1.dataLen b)))) := by
    rw [List.mapM_map]
    have := mapM_ok_of_forall (fun b => DMDec.correctErrors (p.1.dataLen b, v b))
      (fun b => (p.1.dataLen b, blockData p.1 d b ++ (v b).drop (p.1.dataLen b))) (List.range p.1.blocks) (by
        intro b hbm
        have hbB := List.mem_range.1 hbm
        unfold DMDec.correctErrors
        simp only
        have hr : (v b).length - p.1.dataLen b = p.1.blkErr := by rw [hvl b hbB]; omega
        rw [hr, block_corrected p.1 hs d hd hb b hbB (v b) (hvl b hbB) (hvb b hbB) (hdist b hbB)]
        simp only
        have hl : (blockData p.1 d b).length = p.1.dataLen b := blockData_length p.1 hB d hd b (by omega)
        rw [List.take_append_of_le_length (by omega), List.take_of_length_le (by omega)])
    exact this
  rw [hmap]
  simp only
  rw [resultBytes_take _ (by
    intro x hx
    obtain ⟨b, hbm, rfl⟩ := List.mem_map.1 hx
    have hl : (blockData p.1 d b).length = p.1.dataLen b :=
      blockData_length p.1 hB d hd b (by have := List.mem_range.1 hbm; omega)
    simp only [List.length_append, hl]; omega)]
  have hr := (Gzx.Properties.C08.ecc_interleave_inv p hp d hd).2
  rw [resultBytes_take _ (by
    intro x hx
    obtain ⟨b, hbm, rfl⟩ := List.mem_map.1 hx
    have hl : (blockData p.1 d b).length = p.1.dataLen b :=
      blockData_length p.1 hB d hd b (by have := List.mem_range.1 hbm; omega)
    simp only [List.length_append, hl]; omega)] at hr
  rw [← hr]
  congr 1
  rw [List.map_map, List.map_map]
  apply List.map_congr_left
  intro b hbm
  have hl : (blockData p.1 d b).length = p.1.dataLen b :=
    blockData_length p.1 hB d hd b (by have := List.mem_range.1 hbm; omega)
  simp only [Function.comp, Prod.mk.injEq, true_and]
  rw [List.take_append_of_le_length (by omega), List.take_append_of_le_length (by omega)]

/-! ## the whole low-level chain on an arbitrary codeword stream -/

theorem posCheck_of_mem (s : Sym) (hs : s ∈ table7) : posCheck s = true := by
  have h := posCheck_all
  rw [List.all_eq_true] at h
  exact h s hs

/-- for each of the 30 sizes and EVERY byte stream `raw` of the symbol's total codeword count: the decoder model
    applied to the symbol carrying `raw` (Annex-F placement + finder/clock framing) recovers the version, the
    mapping matrix, `raw` itself, and the blocks `raw` splits into -/
theorem chain_of_stream (p : Sym × Nat) (hp : p ∈ table7.zipIdx) (raw : List Nat) (hl : raw.length = p.1.total)
    (hrb : ∀ x ∈ raw, x < 256) :
    DMDec.newBitMatrixParser DMDec.versions ⟨p.1.cols, p.1.rows, (symbolOfCodewords p.1 raw).flatten.toArray⟩ =
        .ok (DMDec.ofSym (p.2 + 1) p.1, ⟨p.1.mapCols, p.1.mapRows, mappingBits p.1.mapRows p.1.mapCols raw⟩) ∧
    DMDec.readCodewords (DMDec.ofSym (p.2 + 1) p.1)
        ⟨p.1.mapCols, p.1.mapRows, mappingBits p.1.mapRows p.1.mapCols raw⟩ = .ok raw ∧
    DMDec.getDataBlocks raw (DMDec.ofSym (p.2 + 1) p.1) =
      .ok ((List.range p.1.blocks).map (fun b => (p.1.dataLen b, blockOfStream p.1 raw b))) := by
  have hs := Gzx.Properties.C08.zipIdx_mem_table7 p hp
  refine ⟨?_, ?_, ?_⟩
  · exact Gzx.Properties.C08.extract_inverts_framing p hp _ (mappingBits_size _ _ _)
  · exact Gzx.Properties.C08.read_place_inv p.1 hs (p.2 + 1) raw hl hrb
  · exact getDataBlocks_stream (p.2 + 1) p.1 (Gzx.Properties.C08.ecc_interleave_index_inv p hp)
      (posCheck_of_mem p.1 hs) raw hl

/-- BLOCK-ERROR TOLERANCE of the low-level chain: if the byte stream `raw` differs from the reference codeword
    sequence of `d` in at most ⌊blkErr/2⌋ positions of every interleaved block, `Decoder.Decode` (model, up to
    the byte stream) applied to the symbol carrying `raw` returns exactly `d` -/
theorem decodeMatrixBytes_tolerates (p : Sym × Nat) (hp : p ∈ table7.zipIdx) (d : List Nat)
    (hd : d.length = p.1.nData) (hb : ∀ x ∈ d, x < 256) (raw : List Nat) (hl : raw.length = p.1.total)
    (hrb : ∀ x ∈ raw, x < 256)
    (hdist : ∀ b, b < p.1.blocks →
      2 * hamming (blockOfStream p.1 (codewords p.1 d) b) (blockOfStream p.1 raw b) ≤ p.1.blkErr) :
    DMDec.decodeMatrixBytes ⟨p.1.cols, p.1.rows, (symbolOfCodewords p.1 raw).flatten.toArray⟩ = .ok d := by
  have hs := Gzx.Properties.C08.zipIdx_mem_table7 p hp
  have hpc := posCheck_of_mem p.1 hs
  obtain ⟨h1, h2, h3⟩ := chain_of_stream p hp raw hl hrb
  unfold DMDec.decodeMatrixBytes
  rw [h1]
  simp only
  rw [h2]
  simp only
  rw [h3]
  simp only
  apply decodeCodewordBlocks_corrects p hp d hd hb (blockOfStream p.1 raw)
  · intro b hbB; exact blockOfStream_length p.1 hpc raw b hbB
  · intro b hbB; exact blockOfStream_bytes p.1 raw b hrb
  · intro b hbB
    rw [← blockOfStream_codewords (p.2 + 1) p.1 (Gzx.Properties.C08.ecc_interleave_index_inv p hp) hpc d hd b hbB]
    exact hdist b hbB

theorem hamming_self (c : List Nat) : hamming c c = 0 := by
  unfold hamming
  exact weight_zipWith_self c

/-! ## faults given as a list of (stream position, new byte) -/

/-- replace the codewords at the listed stream positions (later entries win; positions outside the stream are
    ignored) -/
def applyFaults (cw : List Nat) : List (Nat × Nat) → List Nat
  | [] => cw
  | (pos, v) :: fs => applyFaults (cw.set pos v) fs

/-- number of listed faults that hit block `b` (position `≡ b (mod B)`) -/
def faultsInBlock (s : Sym) (fs : List (Nat × Nat)) (b : Nat) : Nat :=
  (fs.filter (fun f => f.1 % s.blocks == b)).length

theorem applyFaults_length (cw : List Nat) (fs : List (Nat × Nat)) : (applyFaults cw fs).length = cw.length := by
  induction fs generalizing cw with
  | nil => rfl
  | cons f fs ih => obtain ⟨q, v⟩ := f; simp [applyFaults, ih]

theorem applyFaults_bytes (cw : List Nat) (fs : List (Nat × Nat)) (hc : ∀ x ∈ cw, x < 256)
    (hf : ∀ f ∈ fs, f.2 < 256) : ∀ x ∈ applyFaults cw fs, x < 256 := by
  induction fs generalizing cw with
  | nil => exact hc
  | cons f fs ih =>
    obtain ⟨q, v⟩ := f
    simp only [applyFaults]
    apply ih
    · intro x hx
      rcases List.mem_or_eq_of_mem_set hx with h | h
      · exact hc x h
      · rw [h]; exact hf (q, v) List.mem_cons_self
    · intro f hf'; exact hf f (List.mem_cons_of_mem _ hf')

/-- one replaced codeword changes at most one position of its own block and nothing of the other blocks -/
theorem hamming_set_le (s : Sym) (x : List Nat) (q v b : Nat) :
    hamming (blockOfStream s x b) (blockOfStream s (x.set q v) b) ≤ if q % s.blocks == b then 1 else 0 := by
  unfold hamming blockOfStream weight
  rw [List.zipWith_map_left, List.zipWith_map_right, List.zipWith_self, List.filter_map, List.length_map]
  have hnd : (blockPositions s b).Nodup := by
    unfold blockPositions
    exact List.Pairwise.filter _ List.nodup_range
  have hsub : ∀ r ∈ (blockPositions s b).filter
      ((fun y => y != 0) ∘ fun r => x.getD r 0 ^^^ (x.set q v).getD r 0), r = q ∧ q % s.blocks = b := by
    intro r hr
    obtain ⟨hr1, hr2⟩ := List.mem_filter.1 hr
    simp only [Function.comp, bne_iff_ne, ne_eq] at hr2
    have hrq : r = q := by
      apply Classical.byContradiction
      intro hne
      apply hr2
      rw [List.getD_eq_getElem?_getD, List.getD_eq_getElem?_getD, List.getElem?_set_ne (fun h => hne h.symm)]
      exact Nat.xor_self _
    refine ⟨hrq, ?_⟩
    unfold blockPositions at hr1
    have := (List.mem_filter.1 hr1).2
    rw [hrq] at this
    simpa using this
  have hnd2 : ((blockPositions s b).filter ((fun y => y != 0) ∘ fun r => x.getD r 0 ^^^ (x.set q v).getD r 0)).Nodup := List.Pairwise.filter _ hnd
  generalize (blockPositions s b).filter _ = L at hsub hnd2
  match L, hsub, hnd2 with
  | [], _, _ => simp
  | [r], hs1, _ =>
    have := (hs1 r List.mem_cons_self).2
    simp [this]
  | r1 :: r2 :: _, hs1, hn =>
    exfalso
    have e1 := (hs1 r1 List.mem_cons_self).1
    have e2 := (hs1 r2 (List.mem_cons_of_mem _ List.mem_cons_self)).1
    rw [List.nodup_cons] at hn
    exact hn.1 (by rw [e1, ← e2]; exact List.mem_cons_self)

/-- the number of damaged codewords of a block is at most the number of listed faults that hit it -/
theorem hamming_applyFaults_le (s : Sym) (hpc : posCheck s = true) (b : Nat) (hb : b < s.blocks) :
    ∀ (fs : List (Nat × Nat)) (cw : List Nat),
      hamming (blockOfStream s cw b) (blockOfStream s (applyFaults cw fs) b) ≤ faultsInBlock s fs b := by
  intro fs
  induction fs with
  | nil => intro cw; simp [applyFaults, hamming_self, faultsInBlock]
  | cons f fs ih =>
    intro cw
    obtain ⟨q, v⟩ := f
    simp only [applyFaults]
    have h1 := hamming_set_le s cw q v b
    have h2 := ih (cw.set q v)
    have hl := blockOfStream_length s hpc
    have htri := Gzx.Proofs.MinDist.weight_triangle (blockOfStream s cw b) (blockOfStream s (cw.set q v) b)
      (blockOfStream s (applyFaults (cw.set q v) fs) b) (by rw [hl _ b hb, hl _ b hb]) (by rw [hl _ b hb, hl _ b hb])
    unfold hamming at h1 h2 ⊢
    unfold faultsInBlock at h2 ⊢
    simp only [List.filter_cons]
    by_cases hq : (q % s.blocks == b) = true
    · simp only [hq, if_true] at h1 ⊢
      simp only [List.length_cons]; omega
    · simp only [hq, if_false, Bool.false_eq_true] at h1 ⊢
      omega


end Gzx.DMProofs
