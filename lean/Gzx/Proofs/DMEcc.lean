/-
  Helper lemmas for C08, error-correction side: the LFSR loop of createECCBlock is schoolbook long division
  (generic in the multiplication and in the factor list).
-/
import Gzx.Ref.DM
import Gzx.Model.DMEncoder
namespace Gzx.DMProofs
open Gzx Gzx.DMRef

theorem enc_xorZip_eq : ∀ (a b : List Nat), DMEnc.xorZip a b = DMRef.xorZip a b
  | [], _ => by simp [DMEnc.xorZip, DMRef.xorZip]
  | _ :: _, [] => by simp [DMEnc.xorZip, DMRef.xorZip]
  | x :: xs, y :: ys => by simp [DMEnc.xorZip, DMRef.xorZip, enc_xorZip_eq xs ys]

theorem xorZip_length : ∀ (a b : List Nat), (xorZip a b).length = min a.length b.length
  | [], _ => by simp [xorZip]
  | _ :: _, [] => by simp [xorZip]
  | x :: xs, y :: ys => by simp [xorZip, xorZip_length xs ys]

theorem xorZip_append : ∀ (a b c d : List Nat), a.length = b.length →
    xorZip (a ++ c) (b ++ d) = xorZip a b ++ xorZip c d
  | [], [], c, d, _ => by simp [xorZip]
  | [], _ :: _, _, _, h => by simp at h
  | _ :: _, [], _, _, h => by simp at h
  | x :: xs, y :: ys, c, d, h => by
    simp only [List.cons_append, xorZip, List.cons.injEq, true_and]
    exact xorZip_append xs ys c d (by simpa using h)

theorem xorZip_reverse (a b : List Nat) (h : a.length = b.length) :
    (xorZip a b).reverse = xorZip a.reverse b.reverse := by
  induction a generalizing b with
  | nil => cases b <;> simp [xorZip] at *
  | cons x xs ih =>
    cases b with
    | nil => simp at h
    | cons y ys =>
      simp only [xorZip, List.reverse_cons]
      rw [xorZip_append _ _ _ _ (by simpa using h), ih ys (by simpa using h)]
      simp [xorZip]

theorem xorPrefix_length : ∀ (a b : List Nat), (xorPrefix a b).length = a.length
  | [], [] => by simp [xorPrefix]
  | [], _ :: _ => by simp [xorPrefix]
  | _ :: _, [] => by simp [xorPrefix]
  | x :: xs, y :: ys => by simp [xorPrefix, xorPrefix_length xs ys]

theorem xorPrefix_zeros : ∀ (n : Nat) (H : List Nat), H.length = n → xorPrefix (List.replicate n 0) H = H
  | 0, [], _ => by simp [xorPrefix]
  | 0, _ :: _, h => by simp at h
  | n + 1, [], h => by simp at h
  | n + 1, x :: xs, h => by
    simp only [List.replicate_succ, xorPrefix, Nat.zero_xor, List.cons.injEq, true_and]
    exact xorPrefix_zeros n xs (by simpa using h)

theorem xorPrefix_by_zeros : ∀ (A : List Nat) (n : Nat), xorPrefix A (List.replicate n 0) = A
  | [], 0 => by simp [xorPrefix]
  | [], _ + 1 => by simp [List.replicate_succ, xorPrefix]
  | _ :: _, 0 => by simp [xorPrefix]
  | a :: A, n + 1 => by simp [List.replicate_succ, xorPrefix, xorPrefix_by_zeros A n]

/-- xor-ing `H'` and then `G` into a prefix = xor-ing the combined register `(H' ++ [0]) xor G` -/
theorem xorPrefix_xorPrefix : ∀ (A H G : List Nat), G.length = H.length + 1 → G.length ≤ A.length →
    xorPrefix (xorPrefix A H) G = xorPrefix A (xorZip (H ++ [0]) G)
  | [], _, G, h1, h2 => by
    cases G with
    | nil => simp at h1
    | cons g G => simp at h2
  | a :: A, [], G, h1, _ => by
    match G, h1 with
    | [g], _ => simp [xorPrefix, xorZip]
  | a :: A, h :: H, G, h1, h2 => by
    cases G with
    | nil => simp at h1
    | cons g G =>
      simp only [xorPrefix, List.cons_append, xorZip, List.cons.injEq]
      refine ⟨Nat.xor_assoc _ _ _, ?_⟩
      exact xorPrefix_xorPrefix A H G (by simpa using h1) (by simpa using h2)

/-- the register update of the LFSR on the register stored HIGH order first -/
def stepHigh (mul : Nat → Nat → Nat) (gs : List Nat) (H : List Nat) (d : Nat) : List Nat :=
  xorZip (H.tail ++ [0]) (gs.map (mul (H.headD 0 ^^^ d)))

theorem stepHigh_length (mul : Nat → Nat → Nat) (gs H : List Nat) (d : Nat) (h : H.length = gs.length)
    (hpos : 0 < gs.length) : (stepHigh mul gs H d).length = gs.length := by
  unfold stepHigh
  rw [xorZip_length]
  simp only [List.length_append, List.length_tail, List.length_cons, List.length_nil, List.length_map]
  omega

/-- long division of `data ++ zeros`, with register `H` already xor-ed into the front, runs the LFSR -/
theorem polyRem_eq_fold (mul : Nat → Nat → Nat) (gs : List Nat) (hpos : 0 < gs.length) :
    ∀ (ds H : List Nat), H.length = gs.length →
      polyRem mul gs ds.length (xorPrefix (ds ++ List.replicate gs.length 0) H) =
        ds.foldl (stepHigh mul gs) H := by
  intro ds
  induction ds with
  | nil =>
    intro H hH
    simp only [List.length_nil, polyRem, List.nil_append, List.foldl_nil]
    exact xorPrefix_zeros _ _ hH
  | cons d ds ih =>
    intro H hH
    cases H with
    | nil => simp at hH; omega
    | cons h H' =>
      simp only [List.length_cons, List.cons_append, xorPrefix, polyRem, List.foldl_cons]
      have hH' : H'.length + 1 = gs.length := by simpa using hH
      rw [xorPrefix_xorPrefix _ _ _ (by simp; omega) (by simp)]
      have hstep : xorZip (H' ++ [0]) (gs.map (mul (d ^^^ h))) = stepHigh mul gs (h :: H') d := by
        unfold stepHigh
        simp [Nat.xor_comm]
      rw [hstep]
      exact ih _ (stepHigh_length mul gs _ d hH hpos)

theorem eccStep_reverse (mul : Nat → Nat → Nat) (poly ecc : List Nat) (d : Nat)
    (h : ecc.length = poly.length) (hpos : 0 < poly.length) :
    (DMEnc.eccStep mul poly ecc d).reverse = stepHigh mul poly.reverse ecc.reverse d := by
  unfold DMEnc.eccStep stepHigh
  simp only
  rw [enc_xorZip_eq, xorZip_reverse _ _ (by
    simp only [List.length_cons, List.length_dropLast, List.length_map]; omega)]
  have h1 : (0 :: ecc.dropLast).reverse = ecc.reverse.tail ++ [0] := by
    rw [List.reverse_cons, List.tail_reverse]
  have h2 : ecc.getLastD 0 = ecc.reverse.headD 0 := by
    rw [List.getLastD_eq_getLast?, List.headD_eq_head?_getD, List.head?_reverse]
  rw [h1, h2, List.map_reverse]

theorem eccStep_length (mul : Nat → Nat → Nat) (poly ecc : List Nat) (d : Nat)
    (h : ecc.length = poly.length) (hpos : 0 < poly.length) :
    (DMEnc.eccStep mul poly ecc d).length = poly.length := by
  unfold DMEnc.eccStep
  simp only
  rw [enc_xorZip_eq, xorZip_length]
  simp only [List.length_cons, List.length_dropLast, List.length_map]
  omega

theorem lfsr_fold_reverse (mul : Nat → Nat → Nat) (poly : List Nat) (hpos : 0 < poly.length) :
    ∀ (ds ecc : List Nat), ecc.length = poly.length →
      (ds.foldl (DMEnc.eccStep mul poly) ecc).reverse = ds.foldl (stepHigh mul poly.reverse) ecc.reverse := by
  intro ds
  induction ds with
  | nil => intro ecc _; rfl
  | cons d ds ih =>
    intro ecc h
    simp only [List.foldl_cons]
    rw [ih _ (eccStep_length mul poly ecc d h hpos), eccStep_reverse mul poly ecc d h hpos]

/-- The LFSR loop of `createECCBlock` (register stored low order first, reversed at the end) computes the
    remainder of `data(x)·x^n` modulo the monic polynomial whose non-leading coefficients are `poly`
    (low order first) — for every multiplication `mul` and every factor list `poly` of length `n ≥ 1`. -/
theorem lfsr_eq_polyRem (mul : Nat → Nat → Nat) (poly : List Nat) (hpos : 0 < poly.length) (ds : List Nat) :
    (DMEnc.lfsr mul poly poly.length ds).reverse =
      polyRem mul poly.reverse ds.length (ds ++ List.replicate poly.length 0) := by
  unfold DMEnc.lfsr
  rw [lfsr_fold_reverse mul poly hpos ds _ (by simp), List.reverse_replicate]
  have h := polyRem_eq_fold mul poly.reverse (by simpa using hpos) ds (List.replicate poly.length 0) (by simp)
  rw [List.length_reverse] at h
  rw [← h, xorPrefix_by_zeros]

theorem polyRem_length (mul : Nat → Nat → Nat) (gs : List Nat) : ∀ (k : Nat) (xs : List Nat), k ≤ xs.length →
    (polyRem mul gs k xs).length = xs.length - k := by
  intro k
  induction k with
  | zero => intro xs _; simp [polyRem]
  | succ k ih =>
    intro xs h
    cases xs with
    | nil => simp at h
    | cons c xs =>
      simp only [polyRem]
      rw [ih _ (by rw [xorPrefix_length]; simpa using h), xorPrefix_length]
      simp

theorem eccBlock_length (n : Nat) (data : List Nat) : (eccBlock n data).length = n := by
  unfold eccBlock
  rw [polyRem_length _ _ _ _ (by simp)]
  simp

end Gzx.DMProofs
