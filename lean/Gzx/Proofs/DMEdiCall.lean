/-
  C02 / wp dmenc, item (b) — the EDIFACT encoder call when characters REMAIN afterwards (`c'.hasMore = true`):
  exactly three outcomes, with the facts the composition needs
    tail     no unlatch: symbol has `k ≤ 2` codewords left, rest of the message needs at most `k` in ASCII;
    mid      one-codeword unlatch 124 written behind `k ≥ 1` quadruples; the symbol `s` current at that moment has
             room for the unlatch, and either two more codewords, or the rest of the message does not fit in what is
             left of it (`MidFacts`);
    rewound  end of message with one or two characters buffered and fewer than three codewords left: nothing written
             for them, position rewound, symbol forgotten; an admissible symbol with at most two codewords behind the
             quadruples holds them.
  (For `c'.hasMore = false` the end states of `edifact_step_post` are used as they are.)
-/
import Gzx.Proofs.DMSwap
import Gzx.Proofs.DMEdifactEOD
namespace Gzx.DMHighLevel

theorem update_noop {syms : List SymbolInfo} {c : Ctx} {s : SymbolInfo} {n : Nat} (hs : c.sym = some s)
    (hn : n ≤ s.cap) : c.update syms n = .ok c := by
  unfold Ctx.update
  simp only [hs]
  have : ¬ n > s.cap := by omega
  simp [this]

/-- the symbol after `UpdateSymbolInfoByLength(n)`: admissible member of the table if the previous one was -/
theorem update_sym_adm {syms : List SymbolInfo} {c c' : Ctx} {n : Nat} (hff : SymFF syms c)
    (h : c.update syms n = .ok c') :
    ∃ s, c'.sym = some s ∧ n ≤ s.cap ∧ s ∈ syms ∧ admissible c.cfg s = true := by
  have hff' := (update_symStep h).ff hff
  obtain ⟨_, _, _, hcfg, _, _, s, hs, hcap, _⟩ := update_spec h
  obtain ⟨m, hm⟩ := hff' s hs
  rw [hcfg] at hm
  obtain ⟨_, _, hmem, hadm⟩ := lookup_idem hm
  exact ⟨s, hs, hcap, hmem, hadm⟩

/-- the `count == 1` prelude in detail -/
theorem ediEarly_one {syms : List SymbolInfo} {c c2 : Ctx} {nu : Bool} (hle : c.pos ≤ c.total)
    (h : ediEarly syms c 1 = .ok (c2, nu)) :
    ∃ s r, c2.sym = some s ∧ c.count ≤ s.cap ∧ edifactRestNeed c = .ok r ∧
      nu = decide (r ≤ s.cap - c.count ∧ s.cap - c.count ≤ 2) ∧ (s.cap - c.count < r → c.count + 1 ≤ s.cap) ∧
      Frame c c2 ∧ c2.cw = c.cw := by
  unfold ediEarly at h
  simp only [if_true] at h
  obtain ⟨c1, hu1, h⟩ := bind_ok h
  obtain ⟨cap, hc1, h⟩ := bind_ok h
  obtain ⟨rem, hr, h⟩ := bind_ok h
  obtain ⟨p, hp, h⟩ := bind_ok h
  obtain ⟨c3, av⟩ := p
  simp only [Except.ok.injEq, Prod.mk.injEq] at h
  obtain ⟨rfl, rfl⟩ := h
  obtain ⟨ucw, umsg, upos, ucfg, uskip, unew, s1, hs1, hcap1, _⟩ := update_spec hu1
  have hf1 := update_frame hu1
  have hcnt1 : c1.count = c.count := by simp [Ctx.count, ucw]
  have hcapv : cap = s1.cap := by unfold Ctx.capacity at hc1; rw [hs1] at hc1; cases hc1; rfl
  have hr' : edifactRestNeed c = .ok rem := by
    have : edifactRestNeed c1 = edifactRestNeed c := by
      unfold edifactRestNeed Ctx.remaining Ctx.total
      rw [umsg, upos, uskip]
    rw [← this]; exact hr
  by_cases hgt : rem > cap - c1.count
  · rw [if_pos hgt] at hp
    obtain ⟨c4, hu4, hp⟩ := bind_ok hp
    obtain ⟨cap4, hc4, hp⟩ := bind_ok hp
    simp only [pure, Except.pure, Except.ok.injEq, Prod.mk.injEq] at hp
    obtain ⟨rfl, rfl⟩ := hp
    obtain ⟨ucw4, _, _, _, _, _, s4, hs4, hcap4, _⟩ := update_spec hu4
    have hcnt4 : c4.count = c.count := by simp [Ctx.count, ucw4, ucw]
    have hcapv4 : cap4 = s4.cap := by unfold Ctx.capacity at hc4; rw [hs4] at hc4; cases hc4; rfl
    refine ⟨s4, rem, hs4, by rw [hcnt1] at hcap4; omega, hr', ?_, fun _ => by rw [hcnt1] at hcap4; omega,
      hf1.trans (update_frame hu4), by rw [ucw4, ucw]⟩
    rw [hcapv4, hcnt4]
  · rw [if_neg hgt] at hp
    simp only [pure, Except.pure, Except.ok.injEq, Prod.mk.injEq] at hp
    obtain ⟨rfl, rfl⟩ := hp
    refine ⟨s1, rem, hs1, hcap1, hr', ?_, fun hlt => ?_, hf1, ucw⟩
    · rw [hcapv, hcnt1]
    · exfalso; rw [hcapv, hcnt1] at hgt; omega

/-- what is known right after the one-codeword unlatch has been written (`c'.count` includes it): the symbol `s`
    current at that moment holds the unlatch, and it has two more codewords, or is exactly full, or has one more and
    the rest of the message needs more than two codewords in ASCII -/
def MidFacts (c' : Ctx) : Prop :=
  ∃ s, c'.sym = some s ∧ c'.count ≤ s.cap ∧
    (c'.count + 2 ≤ s.cap ∨ s.cap = c'.count ∨
      (s.cap = c'.count + 1 ∧ (2 < c'.remaining ∨ 2 < asciiNeed c'.rest)))

inductive EdiMore (T : Tables) (syms : List SymbolInfo) (cw0 : List Nat) (a : Acc) (c' : Ctx) (a' : Acc) : Prop where
  | tail (k : Nat) : k ≤ 2 → Tail T c' a' k → EdiMore T syms cw0 a c' a'
  | mid (Q : List Nat) (kq : Nat) : Q.length = 4 * kq → 1 ≤ kq → (∀ x ∈ Q, isNativeEDIFACT x = true) →
      c'.cw = cw0 ++ [240] ++ (writeQuads (Q.map ediVal)).1 ++ [124] → a' = a.pushAll Q → MidFacts c' →
      EdiMore T syms cw0 a c' a'
  | rewound : DecK T c'.cw a' 2 → c'.sym = none → 1 ≤ c'.remaining → c'.remaining ≤ 2 →
      (∀ x ∈ c'.rest, isNativeEDIFACT x = true) →
      (∃ s, s ∈ syms ∧ admissible c'.cfg s = true ∧ c'.count + c'.remaining ≤ s.cap ∧ s.cap ≤ c'.count + 2) →
      EdiMore T syms cw0 a c' a'

theorem rest_congr {c d : Ctx} (h1 : d.msg = c.msg) (h2 : d.pos = c.pos) (h3 : d.skipAtEnd = c.skipAtEnd) :
    d.rest = c.rest ∧ d.remaining = c.remaining := by
  unfold Ctx.rest Ctx.remaining Ctx.total
  rw [h1, h2, h3]; exact ⟨rfl, rfl⟩

/-- the EDIFACT call that leaves characters behind -/
theorem edifact_call_more {T : Tables} {syms : List SymbolInfo} {la : LookAhead} {c c' : Ctx} {a : Acc}
    {cw0 : List Nat} (hcw : c.cw = cw0 ++ [240]) (hdec : DecodesTo T cw0 a)
    (htext : a.rev.reverse = c.msg.take c.pos) (hpend : a.pend = 0)
    (hle : c.pos ≤ c.total) (hff : SymFF syms c)
    (h : edifactEncode syms la c = .ok c') (hmore : c'.hasMore = true) :
    ∃ a', a'.trailer = a.trailer ∧ a'.rev.reverse = c'.msg.take c'.pos ∧ a'.pend = 0 ∧ EdiMore T syms cw0 a c' a' := by
  unfold edifactEncode at h
  obtain ⟨r, hl, h⟩ := bind_ok h
  obtain ⟨c1, buf1⟩ := r
  simp only at h
  obtain ⟨chars, hchars, hnat, hcw1, hbuf1, hsf, hp1, hp1t, hclen, hexit⟩ :=
    edifactLoop_spec la c.remaining c [] c1 buf1 (by simp) hle hl
  simp only [List.nil_append] at hcw1 hbuf1
  obtain ⟨k, hk1, hk2, hq1, hq2⟩ := writeQuads_split _ (chars.map ediVal) (Nat.le_refl _)
  rw [List.length_map] at hk1 hk2
  obtain ⟨charsQ, hQ⟩ : ∃ x, x = chars.take (4 * k) := ⟨_, rfl⟩
  obtain ⟨charsB, hB⟩ : ∃ x, x = chars.drop (4 * k) := ⟨_, rfl⟩
  have hQl : charsQ.length = 4 * k := by rw [hQ, List.length_take]; omega
  have hBl : charsB.length < 4 := by rw [hB, List.length_drop]; omega
  have hQn : ∀ x ∈ charsQ, isNativeEDIFACT x = true := fun x hx => hnat x (by rw [hQ] at hx; exact List.mem_of_mem_take hx)
  have hBn : ∀ x ∈ charsB, isNativeEDIFACT x = true := fun x hx => hnat x (by rw [hB] at hx; exact List.mem_of_mem_drop hx)
  have hcw1' : c1.cw = cw0 ++ [240] ++ (writeQuads (charsQ.map ediVal)).1 := by
    rw [hcw1, hq1, hcw, hQ, List.map_take]
  have hbuf1' : buf1 = charsB.map ediVal := by rw [hbuf1, hq2, hB, List.map_drop]
  have hopen := edifact_segment_open hdec hpend k charsQ hQl hQn
  rw [← hcw1'] at hopen
  have hsplit : charsQ ++ charsB = chars := by rw [hQ, hB]; exact List.take_append_drop _ _
  have hlt128 : ∀ x ∈ chars, x < 128 := fun x hx => (ediVal_facts x (hnat x hx)).2.2.2.2
  have hQText : (a.pushAll charsQ).rev.reverse = c.msg.take (c.pos + 4 * k) := by
    rw [pushAll_rev, htext, hQ, hchars, List.take_take, Nat.min_eq_left (by omega), take_add_drop_take]
  have hpendQ : (a.pushAll charsQ).pend = 0 := by
    rw [pushAll_pend_lt charsQ _ (fun x hx => hlt128 x (by rw [← hsplit]; exact List.mem_append_left _ hx)), hpend]
  have hc1len : c1.pos = c.pos + 4 * k + charsB.length := by
    have : chars.length = charsQ.length + charsB.length := by rw [← hsplit, List.length_append]
    omega
  have hff1 : SymFF syms c1 := (SymStep.of_eq (syms := syms) hsf.cfg hsf.sym).ff hff
  have hbl : (buf1 ++ [31]).length - 1 = buf1.length := by simp
  rw [edifactHandleEOD_eq] at h
  have hne0 : ¬ (buf1 ++ [31]).length = 0 := by simp
  simp only [hne0, if_false] at h
  obtain ⟨p, hp, h⟩ := bind_ok h
  obtain ⟨c2, nu⟩ := p
  simp only at h
  by_cases hm1 : c1.hasMore = true
  · -- the look-ahead left EDIFACT in mid-stream: nothing is buffered
    have hb0 : buf1 = [] := by
      rcases hexit with ⟨_, hf⟩ | ⟨_, hb, _, _⟩
      · rw [hf] at hm1; cases hm1
      · exact hb
    have hB0 : charsB = [] := by
      rw [hb0] at hbuf1'
      exact List.map_eq_nil_iff.mp hbuf1'.symm
    have hkpos : 1 ≤ k := by
      rcases hexit with ⟨_, hf⟩ | ⟨_, _, hlt, _⟩
      · rw [hf] at hm1; cases hm1
      · rw [hB0] at hc1len; simp at hc1len; omega
    rw [hb0] at h hp
    simp only [List.nil_append, List.length_cons, List.length_nil, Nat.zero_add] at h hp
    obtain ⟨s, r, hs2, hcap2, hr, hnu, hroom, hf2, hcw2⟩ := ediEarly_one hp1t hp
    have hc1pos : c1.pos = c.pos + 4 * k := by rw [hB0] at hc1len; simpa using hc1len
    have hAllQ : chars = charsQ := by rw [← hsplit, hB0, List.append_nil]
    obtain ⟨hrs1, hrs2⟩ := edifactRestNeed_spec hp1t hr
    cases hnuv : nu with
    | true =>
      rw [hnuv] at h hnu
      simp only [if_true, Except.ok.injEq] at h
      subst h
      have hd := of_decide_eq_true hnu.symm
      obtain ⟨e1, e2, e3⟩ := rest_congr (c := c1) (d := c2.signal ASCII) hf2.msg hf2.pos hf2.skip |>.1, hf2, hd
      have hrem : (c2.signal ASCII).remaining = c1.remaining :=
        (rest_congr (c := c1) (d := c2.signal ASCII) hf2.msg hf2.pos hf2.skip).2
      have hcnt : (c2.signal ASCII).count = c1.count := by simp [Ctx.signal, Ctx.count, hcw2]
      refine ⟨a.pushAll charsQ, pushAll_trailer _ _, ?_, hpendQ, EdiMore.tail (s.cap - c1.count) hd.2 ?_⟩
      · show _ = (c2.signal ASCII).msg.take (c2.signal ASCII).pos
        have : (c2.signal ASCII).msg = c.msg := by rw [show (c2.signal ASCII).msg = c2.msg from rfl, hf2.msg, hsf.msg]
        rw [this, show (c2.signal ASCII).pos = c2.pos from rfl, hf2.pos, hc1pos]
        exact hQText
      · refine ⟨?_, ?_, hpendQ, ⟨s, hs2, by rw [hcnt]; omega⟩, ?_⟩
        · show DecK T c2.cw _ _
          rw [hcw2]; exact hopen.mono hd.2
        · show _ = (c2.signal ASCII).msg.take (c2.signal ASCII).pos
          have : (c2.signal ASCII).msg = c.msg := by rw [show (c2.signal ASCII).msg = c2.msg from rfl, hf2.msg, hsf.msg]
          rw [this, show (c2.signal ASCII).pos = c2.pos from rfl, hf2.pos, hc1pos]
          exact hQText
        · rw [e1]
          by_cases h2 : c1.remaining ≤ 2
          · rw [← hrs1 h2]; exact hd.1
          · have := hrs2 (by omega); omega
    | false =>
      rw [hnuv] at h hnu
      simp only [Bool.false_eq_true, if_false, show ¬ (1 > 4) by decide] at h
      obtain ⟨p2, hp2, h⟩ := bind_ok h
      obtain ⟨c3, ria⟩ := p2
      simp only at h
      obtain ⟨hf3, hcw3, hria⟩ := (ediStep_total (syms := syms) (c := c2) [31]).2 c3 ria hp2
      have hm2 : c2.hasMore = true := by rw [hf2.hasMore]; exact hm1
      have hriaf : ria = false := by
        cases ria with
        | false => rfl
        | true => have := (hria rfl).1; rw [this] at hm2; cases hm2
      rw [hriaf] at h
      simp only [Bool.false_eq_true, if_false, Except.ok.injEq] at h
      subst h
      -- the symbol is unchanged by the two UpdateSymbolInfoByLength calls of this branch
      have hcnt2 : c2.count = c1.count := by simp [Ctx.count, hcw2]
      have hs3 : c3.sym = some s := by
        unfold ediStep at hp2
        simp only [List.length_cons, List.length_nil, Nat.zero_add, Nat.sub_self, Nat.zero_le, if_true, Nat.add_zero] at hp2
        rw [update_noop hs2 (by rw [hcnt2]; exact hcap2)] at hp2
        simp only [bind, Except.bind, Ctx.capacity, hs2] at hp2
        by_cases h3 : s.cap - c2.count ≥ 3
        · simp only [h3, if_true] at hp2
          rw [update_noop hs2 (by simp [edifactPack, edifactWord]; rw [hcnt2] at h3 ⊢; omega)] at hp2
          simp only [Except.ok.injEq, Prod.mk.injEq] at hp2
          rw [← hp2.1]; exact hs2
        · simp only [h3, if_false, Except.ok.injEq, Prod.mk.injEq] at hp2
          rw [← hp2.1]; exact hs2
      have hf := hf2.trans hf3
      have hpack : edifactPack [31] = [124] := by decide
      have hcwf : ((c3.writeAll (edifactPack [31])).signal ASCII).cw =
          cw0 ++ [240] ++ (writeQuads (charsQ.map ediVal)).1 ++ [124] := by
        simp only [Ctx.signal, Ctx.writeAll, hpack, hcw3, hcw2, hcw1']
      have hcntf : ((c3.writeAll (edifactPack [31])).signal ASCII).count = c1.count + 1 := by
        simp [Ctx.signal, Ctx.writeAll, Ctx.count, hpack, hcw3, hcw2]
      obtain ⟨hrestf, hremf⟩ := rest_congr (c := c1) (d := (c3.writeAll (edifactPack [31])).signal ASCII)
        hf.msg hf.pos hf.skip
      have hd : ¬ (r ≤ s.cap - c1.count ∧ s.cap - c1.count ≤ 2) := by
        intro hx; rw [decide_eq_true hx] at hnu; cases hnu
      refine ⟨a.pushAll charsQ, pushAll_trailer _ _, ?_, hpendQ,
        EdiMore.mid charsQ k hQl hkpos hQn hcwf rfl ⟨s, hs3, ?_, ?_⟩⟩
      · show _ = List.take c3.pos c3.msg
        rw [hf.msg, hsf.msg, hf.pos, hc1pos]
        exact hQText
      · rw [hcntf]
        by_cases hx : s.cap - c1.count < r
        · exact hroom hx
        · omega
      · rw [hcntf, hremf, hrestf]
        by_cases hA : c1.count + 3 ≤ s.cap
        · left; omega
        · right
          have hx : s.cap - c1.count < r := by omega
          have := hroom hx
          by_cases hB1 : s.cap = c1.count + 1
          · left; exact hB1
          · right
            refine ⟨by omega, ?_⟩
            have hr2 : 2 < r := by omega
            by_cases h2 : c1.remaining ≤ 2
            · right; rw [← hrs1 h2]; exact hr2
            · left; omega
  · -- end of the message reached inside the loop; characters remain only if the buffered ones are rewound
    simp only [Bool.not_eq_true] at hm1
    have hend : c1.pos = c1.total := by
      have := (hasMore_false_iff' c1).mp hm1; omega
    have hr12 : 1 ≤ buf1.length ∧ buf1.length ≤ 2 := by
      have hpost := (edifactHandleEOD_total (syms := syms) (c := c1) (buf := buf1 ++ [31]) hp1t
        (by simp only [List.length_append, List.length_cons, List.length_nil]; rw [hbuf1', List.length_map]; omega)).2 c' (by
          rw [edifactHandleEOD_eq]; simp only [hne0, if_false, bind, Except.bind, hp]; exact h)
      obtain ⟨q1, q2, _, _, q5⟩ := hpost
      have hlt := (hasMore_iff' c').mp hmore
      have htot : c'.total = c1.total := by simp [Ctx.total, q1, q2]
      rw [hbl] at q5
      rcases q5 with e | ⟨_, e2, e3⟩
      · omega
      · omega
    have hcount : ¬ (buf1 ++ [31]).length = 1 := by
      simp only [List.length_append, List.length_cons, List.length_nil]; omega
    have hearly : c2 = c1 ∧ nu = false := by
      unfold ediEarly at hp
      simp only [hcount, if_false, Except.ok.injEq, Prod.mk.injEq] at hp
      exact ⟨hp.1.symm, hp.2.symm⟩
    obtain ⟨rfl, rfl⟩ := hearly
    have hn4 : ¬ (buf1 ++ [31]).length > 4 := by
      simp only [List.length_append, List.length_cons, List.length_nil]; omega
    simp only [Bool.false_eq_true, if_false, hn4] at h
    obtain ⟨p2, hp2, h⟩ := bind_ok h
    obtain ⟨c3, ria⟩ := p2
    simp only at h
    -- the symbol re-selection for the buffered characters
    unfold ediStep at hp2
    simp only [hbl, hr12.2, if_true, hm1, Bool.not_false, Bool.true_and, decide_true] at hp2
    obtain ⟨c2x, hux, hp2⟩ := bind_ok hp2
    obtain ⟨cap, hcx, hp2⟩ := bind_ok hp2
    obtain ⟨s, hsx, hcapx, hmem, hadm⟩ := update_sym_adm hff1 hux
    have hfx := update_frame hux
    have hcwx := (update_spec hux).1
    have hcapv : cap = s.cap := by unfold Ctx.capacity at hcx; rw [hsx] at hcx; cases hcx; rfl
    have hcntx : c2x.count = c2.count := by simp [Ctx.count, hcwx]
    by_cases h3 : cap - c2x.count ≥ 3
    · -- enough room: the unlatch is written, nothing is rewound
      exfalso
      simp only [h3, if_true] at hp2
      obtain ⟨c4, hu4, hp2⟩ := bind_ok hp2
      simp only [Except.ok.injEq, Prod.mk.injEq] at hp2
      obtain ⟨rfl, rfl⟩ := hp2
      simp only [Bool.false_eq_true, if_false, Except.ok.injEq] at h
      subst h
      have hf4 := update_frame hu4
      have : ((c4.writeAll (edifactPack (buf1 ++ [31]))).signal ASCII).hasMore = c2.hasMore := by
        have hf := hfx.trans hf4
        exact hf.hasMore
      rw [this, hm1] at hmore; cases hmore
    · simp only [h3, if_false, Except.ok.injEq, Prod.mk.injEq] at hp2
      obtain ⟨rfl, rfl⟩ := hp2
      simp only [if_true] at h
      obtain ⟨c5, h5, h⟩ := bind_ok h
      simp only [Except.ok.injEq] at h
      subst h
      obtain ⟨hk5, hc5⟩ := back_spec h5
      simp only [hbl] at hk5 hc5
      have g1 : c5.msg = c.msg := by rw [hc5]; show c2x.msg = _; rw [hfx.msg, hsf.msg]
      have g2 : c5.pos = c.pos + 4 * k := by
        rw [hc5]; show c2x.pos - buf1.length = _; rw [hfx.pos]
        have : charsB.length = buf1.length := by rw [hbuf1', List.length_map]
        omega
      have g3 : c5.skipAtEnd = c2.skipAtEnd := by rw [hc5]; exact hfx.skip
      have g4 : c5.cw = c2.cw := by rw [hc5]; exact hcwx
      have g5 : c5.sym = none := by rw [hc5]
      have g6 : c5.cfg = c2.cfg := by rw [hc5]; exact hfx.cfg
      have hBlen : charsB.length = buf1.length := by rw [hbuf1', List.length_map]
      have gtot : (c5.signal ASCII).total = c2.total := by
        show c5.msg.length - c5.skipAtEnd = _
        rw [g3, g1, ← hsf.msg]; rfl
      have grem : (c5.signal ASCII).remaining = buf1.length := by
        show (c5.signal ASCII).total - c5.pos = _
        rw [gtot, g2]; omega
      refine ⟨a.pushAll charsQ, pushAll_trailer _ _, ?_, hpendQ, EdiMore.rewound ?_ g5 ?_ ?_ ?_ ⟨s, hmem, ?_, ?_, ?_⟩⟩
      · show _ = List.take c5.pos c5.msg
        rw [g1, g2]; exact hQText
      · show DecK T c5.cw _ 2
        rw [g4]; exact hopen
      · rw [grem]; exact hr12.1
      · rw [grem]; exact hr12.2
      · intro x hx
        have hrest : (c5.signal ASCII).rest = charsB := by
          show (List.drop c5.pos c5.msg).take (c5.signal ASCII).remaining = _
          rw [grem, g1, g2, hB, hchars, List.drop_take, List.drop_drop]
          congr 1; omega
        rw [hrest] at hx
        exact hBn x hx
      · show admissible c5.cfg s = true
        rw [g6]; exact hadm
      · rw [grem]
        show c5.cw.length + _ ≤ _
        rw [g4]
        simp only [Ctx.count] at hcapx
        exact hcapx
      · show s.cap ≤ c5.cw.length + 2
        rw [g4]
        rw [hcapv, hcntx] at h3
        simp only [Ctx.count] at h3
        omega

end Gzx.DMHighLevel
