/-
  C02: the EDIFACT encoder as a whole call, and the decoder on what it writes.
    Part 1  decoder: complete quadruples, the four unlatch forms, the "two or fewer bytes left" rule
    Part 2  encoder: the loop of EdifactEncoder.encode
-/
import Gzx.Proofs.DMGeneral
import Gzx.Proofs.DMX12
namespace Gzx.DMHighLevel

/-! # Part 1 — decoder -/

/-- the 6-bit value of an EDIFACT-native character -/
def ediVal (c : Nat) : Nat := if c < 64 then c else c - 64

theorem ediVal_facts_small : ∀ c : Fin 256, isNativeEDIFACT c.val = true →
    edifactEncodeChar c.val = .ok (ediVal c.val) ∧ ediVal c.val < 64 ∧ ediVal c.val ≠ 31 ∧
    edifactChar (ediVal c.val) = c.val ∧ c.val < 128 := by decide +kernel

theorem ediVal_facts (c : Nat) (h : isNativeEDIFACT c = true) :
    edifactEncodeChar c = .ok (ediVal c) ∧ ediVal c < 64 ∧ ediVal c ≠ 31 ∧ edifactChar (ediVal c) = c ∧ c < 128 := by
  have hlt : c < 256 := by
    simp only [isNativeEDIFACT, Bool.and_eq_true, decide_eq_true_eq] at h; omega
  exact ediVal_facts_small ⟨c, hlt⟩ h

theorem edifactEncodeChar_ok {c v : Nat} (h : edifactEncodeChar c = .ok v) :
    isNativeEDIFACT c = true ∧ v = ediVal c := by
  unfold edifactEncodeChar at h
  unfold isNativeEDIFACT ediVal
  split at h
  · cases h; simp only [Bool.and_eq_true, decide_eq_true_eq]; refine ⟨by omega, ?_⟩; split <;> omega
  · split at h
    · cases h; simp only [Bool.and_eq_true, decide_eq_true_eq]; refine ⟨by omega, ?_⟩; split <;> omega
    · cases h

/-- codewords of the complete quadruples of a value list, and the values left over -/
def writeQuads : List Nat → List Nat × List Nat
  | a :: b :: c :: d :: rest =>
    let (cws, left) := writeQuads rest
    (edifactWord a b c d ++ cws, left)
  | left => ([], left)

theorem writeQuads_short (l : List Nat) (h : l.length < 4) : writeQuads l = ([], l) := by
  match l, h with
  | [], _ => rfl
  | [_], _ => rfl
  | [_, _], _ => rfl
  | [_, _, _], _ => rfl

theorem writeQuads_cons4 (a b c d : Nat) (r : List Nat) :
    writeQuads (a :: b :: c :: d :: r) = (edifactWord a b c d ++ (writeQuads r).1, (writeQuads r).2) := rfl

/-- "If there is only two or less bytes left then it will be encoded as ASCII" -/
theorem edifactSeg_short (suf : List Nat) (a : Acc) (n : Nat) (h : suf.length ≤ 2) :
    edifactSeg suf a n = (a, n) := by
  match suf, h with
  | [], _ => rfl
  | [_], _ => rfl
  | [_, _], _ => rfl

/-- one complete quadruple of character values -/
theorem edifactSeg_quad (c1 c2 c3 c4 : Nat) (h1 : isNativeEDIFACT c1 = true) (h2 : isNativeEDIFACT c2 = true)
    (h3 : isNativeEDIFACT c3 = true) (h4 : isNativeEDIFACT c4 = true) (rest : List Nat) (a : Acc) (n : Nat) :
    edifactSeg (edifactWord (ediVal c1) (ediVal c2) (ediVal c3) (ediVal c4) ++ rest) a n =
      edifactSeg rest ((((a.push c1).push c2).push c3).push c4) (n + 3) := by
  obtain ⟨_, a1, a2, a3, _⟩ := ediVal_facts c1 h1
  obtain ⟨_, b1, b2, b3, _⟩ := ediVal_facts c2 h2
  obtain ⟨_, d1, d2, d3, _⟩ := ediVal_facts c3 h3
  obtain ⟨_, e1, e2, e3, _⟩ := ediVal_facts c4 h4
  obtain ⟨x, y, z, hw, _, _, _, hu⟩ := edifactUnpack_word _ _ _ _ a1 b1 d1 e1
  rw [hw]
  simp only [List.cons_append, List.nil_append, edifactSeg, hu, edifactVals, a2, b2, d2, e2, if_false, a3, b3, d3, e3]

/-- complete quadruples of EDIFACT-native characters are read back, whatever follows -/
theorem edifactSeg_quads : ∀ (k : Nat) (chars : List Nat), chars.length = 4 * k →
    (∀ c ∈ chars, isNativeEDIFACT c = true) → ∀ (rest : List Nat) (a : Acc) (n : Nat),
    edifactSeg ((writeQuads (chars.map ediVal)).1 ++ rest) a n = edifactSeg rest (a.pushAll chars) (n + 3 * k) := by
  intro k
  induction k with
  | zero =>
    intro chars hl _ rest a n
    have : chars = [] := List.eq_nil_of_length_eq_zero (by omega)
    subst this
    simp [writeQuads, Acc.pushAll]
  | succ k ih =>
    intro chars hl hn rest a n
    match chars, hl with
    | c1 :: c2 :: c3 :: c4 :: cs, hl =>
      simp only [List.map_cons, writeQuads_cons4, List.append_assoc]
      rw [edifactSeg_quad c1 c2 c3 c4 (hn _ (by simp)) (hn _ (by simp)) (hn _ (by simp)) (hn _ (by simp))]
      rw [ih cs (by simp only [List.length_cons] at hl; omega) (fun c hc => hn c (by simp [hc]))]
      simp only [Acc.pushAll]
      congr 1
      omega

/-- unlatch alone (one codeword, 31 in the top six bits): read as unlatch iff at least two more codewords follow -/
theorem edifactSeg_unlatch1 (x y : Nat) (hx : x < 256) (hy : y < 256) (rest : List Nat) (a : Acc) (n : Nat) :
    edifactSeg ((edifactWord 31 0 0 0).take 1 ++ x :: y :: rest) a n = (a, n + 1) := by
  have hu : edifactUnpack 124 x y = [31, (124 * 65536 + x * 256 + y) / 4096 % 64,
      (124 * 65536 + x * 256 + y) / 64 % 64, (124 * 65536 + x * 256 + y) % 64] := by
    unfold edifactUnpack
    simp only
    have e1 : (124 * 65536 + x * 256 + y) / 262144 % 64 = 31 := by omega
    rw [e1]
  have hw : (edifactWord 31 0 0 0).take 1 = [124] := by decide
  rw [hw]
  simp only [List.cons_append, List.nil_append, edifactSeg, hu, edifactVals, if_true]

theorem unl2_arith (v z : Nat) (hv : v < 64) (hz : z < 256) :
    (v * 262144 + 31 * 4096) / 65536 % 256 = 4 * v + 1 ∧ (v * 262144 + 31 * 4096) / 256 % 256 = 240 ∧
    ((4 * v + 1) * 65536 + 240 * 256 + z) / 262144 % 64 = v ∧
    ((4 * v + 1) * 65536 + 240 * 256 + z) / 4096 % 64 = 31 := by
  refine ⟨by omega, by omega, by omega, by omega⟩

/-- one character and the unlatch (two codewords): needs one more codeword behind -/
theorem edifactSeg_unlatch2 (c1 : Nat) (h1 : isNativeEDIFACT c1 = true) (z : Nat) (hz : z < 256) (rest : List Nat)
    (a : Acc) (n : Nat) :
    edifactSeg ((edifactWord (ediVal c1) 31 0 0).take 2 ++ z :: rest) a n = (a.push c1, n + 2) := by
  obtain ⟨_, a1, a2, a3, _⟩ := ediVal_facts c1 h1
  generalize ediVal c1 = v at a1 a2 a3
  have hw : (edifactWord v 31 0 0).take 2 = [(v * 262144 + 31 * 4096) / 65536 % 256, (v * 262144 + 31 * 4096) / 256 % 256] := by
    simp [edifactWord]
  rw [hw]
  simp only [List.cons_append, List.nil_append, edifactSeg]
  obtain ⟨hB1, hB2, e1, e2⟩ := unl2_arith v z a1 hz
  rw [hB1, hB2]
  have hu : edifactUnpack (4 * v + 1) 240 z = [v, 31, ((4 * v + 1) * 65536 + 240 * 256 + z) / 64 % 64,
      ((4 * v + 1) * 65536 + 240 * 256 + z) % 64] := by
    unfold edifactUnpack
    simp only
    rw [e1, e2]
  rw [hu]
  simp only [edifactVals, a2, if_false, if_true, a3]
  rfl

/-- two characters and the unlatch: three full codewords -/
theorem edifactSeg_unlatch3 (c1 c2 : Nat) (h1 : isNativeEDIFACT c1 = true) (h2 : isNativeEDIFACT c2 = true)
    (rest : List Nat) (a : Acc) (n : Nat) :
    edifactSeg (edifactWord (ediVal c1) (ediVal c2) 31 0 ++ rest) a n = ((a.push c1).push c2, n + 3) := by
  obtain ⟨_, a1, a2, a3, _⟩ := ediVal_facts c1 h1
  obtain ⟨_, b1, b2, b3, _⟩ := ediVal_facts c2 h2
  obtain ⟨x, y, z, hw, _, _, _, hu⟩ := edifactUnpack_word (ediVal c1) (ediVal c2) 31 0 a1 b1 (by omega) (by omega)
  rw [hw]
  simp only [List.cons_append, List.nil_append, edifactSeg, hu, edifactVals, a2, b2, if_false, if_true, a3, b3]
  rfl

/-- three characters and the unlatch: three full codewords -/
theorem edifactSeg_unlatch4 (c1 c2 c3 : Nat) (h1 : isNativeEDIFACT c1 = true) (h2 : isNativeEDIFACT c2 = true)
    (h3 : isNativeEDIFACT c3 = true) (rest : List Nat) (a : Acc) (n : Nat) :
    edifactSeg (edifactWord (ediVal c1) (ediVal c2) (ediVal c3) 31 ++ rest) a n =
      (((a.push c1).push c2).push c3, n + 3) := by
  obtain ⟨_, a1, a2, a3, _⟩ := ediVal_facts c1 h1
  obtain ⟨_, b1, b2, b3, _⟩ := ediVal_facts c2 h2
  obtain ⟨_, d1, d2, d3, _⟩ := ediVal_facts c3 h3
  obtain ⟨x, y, z, hw, _, _, _, hu⟩ := edifactUnpack_word (ediVal c1) (ediVal c2) (ediVal c3) 31 a1 b1 d1 (by omega)
  rw [hw]
  simp only [List.cons_append, List.nil_append, edifactSeg, hu, edifactVals, a2, b2, d2, if_false, if_true, a3, b3, d3]
  rfl

/-- the main loop at the EDIFACT latch -/
theorem latch_step_edifact (T : Tables) (rest : List Nat) (off : Nat) (a : Acc) :
    decLoop T (240 :: rest) 0 false off a =
      decLoop T rest (edifactSeg rest a 0).2 false (off + 1) (edifactSeg rest a 0).1.endSeg := by
  simp only [decLoop,
    show ¬ (240 : Nat) = 0 by decide, show ¬ (240 : Nat) ≤ 128 by decide,
    show ¬ (240 : Nat) = 129 by decide, show ¬ (240 : Nat) ≤ 229 by decide,
    show ¬ (240 : Nat) = 230 by decide, show ¬ (240 : Nat) = 231 by decide, show ¬ (240 : Nat) = 232 by decide,
    show ¬ ((240 : Nat) = 233 ∨ (240 : Nat) = 234) by decide, show ¬ (240 : Nat) = 235 by decide,
    show ¬ (240 : Nat) = 236 by decide, show ¬ (240 : Nat) = 237 by decide,
    show ¬ (240 : Nat) = 238 by decide, show ¬ (240 : Nat) = 239 by decide, if_false, if_true]

/-- the decoder reads on correctly for every continuation of at least `j` codewords -/
def DecFrom (T : Tables) (j : Nat) (cw : List Nat) (a : Acc) : Prop :=
  ∀ suf, j ≤ suf.length → (∀ x ∈ suf, x < 256) →
    decLoop T (cw ++ suf) 0 false 0 {} = decLoop T suf 0 false cw.length a

theorem DecodesTo.decFrom {T : Tables} {cw : List Nat} {a : Acc} (h : DecodesTo T cw a) (j : Nat) :
    DecFrom T j cw a := fun suf _ _ => h suf

theorem writeQuads_fst_length : ∀ (k : Nat) (vals : List Nat), vals.length = 4 * k →
    (writeQuads vals).1.length = 3 * k ∧ (writeQuads vals).2 = [] := by
  intro k
  induction k with
  | zero =>
    intro vals hl
    have : vals = [] := List.eq_nil_of_length_eq_zero (by omega)
    subst this; exact ⟨rfl, rfl⟩
  | succ k ih =>
    intro vals hl
    match vals, hl with
    | c1 :: c2 :: c3 :: c4 :: cs, hl =>
      obtain ⟨i1, i2⟩ := ih cs (by simp only [List.length_cons] at hl; omega)
      simp only [writeQuads_cons4, List.length_append, i1, i2]
      refine ⟨?_, trivial⟩
      simp [edifactWord]; omega

/-- the shape of an EDIFACT segment: latch, complete quadruples of `chars`, then `tailcw` on which (followed by
    `suf`) the segment decoder stops after `tailcw.length` codewords having appended `last` -/
theorem edifact_segment_core {T : Tables} {cw0 : List Nat} {a : Acc} (h : DecodesTo T cw0 a) (hp : a.pend = 0)
    (k : Nat) (chars : List Nat) (hl : chars.length = 4 * k) (hn : ∀ c ∈ chars, isNativeEDIFACT c = true)
    (tailcw last : List Nat) (hlast : ∀ c ∈ last, c < 128) (suf : List Nat)
    (hseg : ∀ (b : Acc) (n : Nat), edifactSeg (tailcw ++ suf) b n = (b.pushAll last, n + tailcw.length)) :
    decLoop T (cw0 ++ [240] ++ (writeQuads (chars.map ediVal)).1 ++ tailcw ++ suf) 0 false 0 {} =
      decLoop T suf 0 false (cw0 ++ [240] ++ (writeQuads (chars.map ediVal)).1 ++ tailcw).length
        ((a.pushAll chars).pushAll last) := by
  have e : cw0 ++ [240] ++ (writeQuads (chars.map ediVal)).1 ++ tailcw ++ suf =
      cw0 ++ (240 :: ((writeQuads (chars.map ediVal)).1 ++ (tailcw ++ suf))) := by simp
  rw [e, h _, latch_step_edifact, edifactSeg_quads k chars hl hn, hseg]
  simp only
  have hq := (writeQuads_fst_length k (chars.map ediVal) (by simpa using hl)).1
  have e2 : (writeQuads (chars.map ediVal)).1 ++ (tailcw ++ suf) =
      ((writeQuads (chars.map ediVal)).1 ++ tailcw) ++ suf := by simp
  have e3 : 0 + 3 * k + tailcw.length = ((writeQuads (chars.map ediVal)).1 ++ tailcw).length := by
    rw [List.length_append, hq]; omega
  rw [e2, e3, decLoop_skip']
  have hpend : ((a.pushAll chars).pushAll last).pend = 0 := by
    rw [pushAll_pend_lt last _ hlast, pushAll_pend_lt chars _ (fun c hc => (ediVal_facts c (hn c hc)).2.2.2.2), hp]
  rw [Acc.endSeg_of_pend _ hpend]
  congr 1
  simp only [List.length_append, List.length_cons, List.length_nil]
  omega

/-- closed by nothing: at most two codewords follow and are read in ASCII -/
theorem edifact_segment_open {T : Tables} {cw0 : List Nat} {a : Acc} (h : DecodesTo T cw0 a) (hp : a.pend = 0)
    (k : Nat) (chars : List Nat) (hl : chars.length = 4 * k) (hn : ∀ c ∈ chars, isNativeEDIFACT c = true) :
    DecK T (cw0 ++ [240] ++ (writeQuads (chars.map ediVal)).1) (a.pushAll chars) 2 := by
  intro suf hs
  have := edifact_segment_core h hp k chars hl hn [] [] (by simp) suf (by
    intro b n; simp only [List.nil_append, edifactSeg_short suf b n hs, Acc.pushAll, List.length_nil, Nat.add_zero])
  simpa [Acc.pushAll] using this

/-! # Part 2 — the loop of EdifactEncoder.encode -/

theorem edifactLoop_spec (la : LookAhead) :
    ∀ (fuel : Nat) (c : Ctx) (buf : List Nat) (c1 : Ctx) (buf1 : List Nat),
      buf.length < 4 → c.pos ≤ c.total → edifactLoop la fuel c buf = .ok (c1, buf1) →
      ∃ chars, chars = (c.msg.drop c.pos).take (c1.pos - c.pos) ∧ (∀ x ∈ chars, isNativeEDIFACT x = true) ∧
        c1.cw = c.cw ++ (writeQuads (buf ++ chars.map ediVal)).1 ∧
        buf1 = (writeQuads (buf ++ chars.map ediVal)).2 ∧
        SameFrame c c1 ∧ c.pos ≤ c1.pos ∧ c1.pos ≤ c1.total ∧ chars.length = c1.pos - c.pos ∧
        ((c1.newEnc = c.newEnc ∧ c1.hasMore = false) ∨
         (c1.newEnc = some ASCII ∧ buf1 = [] ∧ c.pos < c1.pos ∧ la c.msg c1.pos EDIFACT ≠ EDIFACT)) := by
  intro fuel
  induction fuel with
  | zero =>
    intro c buf c1 buf1 hb hle h
    simp only [edifactLoop] at h
    split at h
    · cases h
    · rename_i hm
      cases h
      simp only [Bool.not_eq_true] at hm
      exact ⟨[], by simp, by simp, by simp [writeQuads_short buf hb], by simp [writeQuads_short buf hb],
        ⟨rfl, rfl, rfl, rfl⟩, Nat.le_refl _, hle, by simp, Or.inl ⟨rfl, hm⟩⟩
  | succ n ih =>
    intro c buf c1 buf1 hb hle h
    simp only [edifactLoop] at h
    split at h
    · rename_i hm
      cases h
      simp only [Bool.not_eq_true'] at hm
      exact ⟨[], by simp, by simp, by simp [writeQuads_short buf hb], by simp [writeQuads_short buf hb],
        ⟨rfl, rfl, rfl, rfl⟩, Nat.le_refl _, hle, by simp, Or.inl ⟨rfl, hm⟩⟩
    · rename_i hm
      simp only [Bool.not_eq_true', Bool.not_eq_false] at hm
      have hlt : c.pos < c.total := (hasMore_iff' c).mp hm
      cases hc : c.cur with
      | error e => rw [hc] at h; simp [bind, Except.bind] at h
      | ok ch =>
        rw [hc] at h
        simp only [bind, Except.bind] at h
        obtain ⟨hget, _⟩ := cur_spec hc
        have hdrop := drop_eq_cons_of_getElem? hget
        cases he : edifactEncodeChar ch with
        | error e => rw [he] at h; simp at h
        | ok v =>
          rw [he] at h
          simp only at h
          obtain ⟨hnat, hv⟩ := edifactEncodeChar_ok he
          subst hv
          have hle' : ({ c with pos := c.pos + 1 } : Ctx).pos ≤ ({ c with pos := c.pos + 1 } : Ctx).total := by
            simp only [Ctx.total] at hlt ⊢; omega
          have hchars : ∀ p1, c.pos + 1 ≤ p1 →
              (c.msg.drop c.pos).take (p1 - c.pos) = ch :: (c.msg.drop (c.pos + 1)).take (p1 - (c.pos + 1)) := by
            intro p1 hp
            rw [hdrop]
            have : p1 - c.pos = (p1 - (c.pos + 1)) + 1 := by omega
            rw [this, List.take_succ_cons]
          by_cases h4 : (buf ++ [ediVal ch]).length ≥ 4
          · have hl3 : buf.length = 3 := by
              simp only [List.length_append, List.length_cons, List.length_nil] at h4; omega
            obtain ⟨x, y, z, hxyz⟩ : ∃ x y z, buf = [x, y, z] := by
              match buf, hl3 with
              | [x, y, z], _ => exact ⟨x, y, z, rfl⟩
            subst hxyz
            simp only [List.cons_append, List.nil_append, List.length_cons, List.length_nil, Nat.reduceAdd,
              ge_iff_le, Nat.le_refl, if_true, edifactPack, List.drop_succ_cons, List.drop_zero] at h
            split at h
            · rename_i hla
              cases h
              refine ⟨[ch], ?_, ?_, ?_, ?_, ⟨rfl, rfl, rfl, rfl⟩, by simp [Ctx.signal, Ctx.writeAll],
                by simp only [Ctx.signal, Ctx.writeAll, Ctx.total] at hlt ⊢; omega, by simp [Ctx.signal, Ctx.writeAll],
                Or.inr ⟨rfl, by simp [writeQuads], by simp [Ctx.signal, Ctx.writeAll],
                  by simpa [Ctx.signal, Ctx.writeAll] using hla⟩⟩
              · simp only [Ctx.signal, Ctx.writeAll]
                rw [hchars (c.pos + 1) (Nat.le_refl _)]; simp
              · intro x hx; simp at hx; rw [hx]; exact hnat
              · simp [Ctx.signal, Ctx.writeAll, writeQuads]
              · simp [writeQuads]
            · rename_i hla
              obtain ⟨chars, i1, i2, i3, i4, i5, i6, i7, i8, i9⟩ :=
                ih (({ c with pos := c.pos + 1 } : Ctx).writeAll (edifactWord x y z (ediVal ch))) [] c1 buf1
                  (by simp) (by simp only [Ctx.writeAll, Ctx.total] at hlt ⊢; omega) h
              simp only [Ctx.writeAll] at i1 i3 i6 i8 i9
              refine ⟨ch :: chars, ?_, ?_, ?_, ?_, ⟨i5.msg, i5.cfg, i5.skip, i5.sym⟩, by omega, i7,
                by simp; omega, ?_⟩
              · rw [hchars c1.pos i6, i1]
              · intro x hx
                rcases List.mem_cons.1 hx with rfl | hx
                · exact hnat
                · exact i2 x hx
              · rw [i3]; simp [writeQuads_cons4, List.append_assoc]
              · rw [i4]; simp [writeQuads_cons4]
              · rcases i9 with ⟨e1, e2⟩ | ⟨e1, e2, e3, e4⟩
                · exact Or.inl ⟨e1, e2⟩
                · exact Or.inr ⟨e1, e2, by omega, e4⟩
          · have hl3 : buf.length < 3 := by
              simp only [List.length_append, List.length_cons, List.length_nil] at h4; omega
            simp only [h4, if_false] at h
            obtain ⟨chars, i1, i2, i3, i4, i5, i6, i7, i8, i9⟩ :=
              ih ({ c with pos := c.pos + 1 } : Ctx) (buf ++ [ediVal ch]) c1 buf1 (by simp; omega) hle' h
            simp only at i1 i3 i6 i8 i9
            refine ⟨ch :: chars, ?_, ?_, ?_, ?_, ⟨i5.msg, i5.cfg, i5.skip, i5.sym⟩, by omega, i7,
              by simp; omega, ?_⟩
            · rw [hchars c1.pos i6, i1]
            · intro x hx
              rcases List.mem_cons.1 hx with rfl | hx
              · exact hnat
              · exact i2 x hx
            · rw [i3]; simp [List.append_assoc]
            · rw [i4]; simp [List.append_assoc]
            · rcases i9 with ⟨e1, e2⟩ | ⟨e1, e2, e3, e4⟩
              · exact Or.inl ⟨e1, e2⟩
              · exact Or.inr ⟨e1, e2, by omega, e4⟩

end Gzx.DMHighLevel
