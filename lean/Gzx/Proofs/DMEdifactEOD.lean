/-
  C02: the EDIFACT encoder as a WHOLE CALL (EdifactEncoder.encode + edifactHandleEOD, after the repair 7bca761):
  what state it leaves, for every look-ahead oracle and every symbol table.
-/
import Gzx.Proofs.DMEdifact
import Gzx.Proofs.DMMidstream
import Gzx.Proofs.DMC40
namespace Gzx.DMHighLevel

/-! ## helpers -/

theorem writeQuads_split : ∀ (n : Nat) (l : List Nat), l.length ≤ n →
    ∃ k, 4 * k ≤ l.length ∧ l.length < 4 * k + 4 ∧ (writeQuads l).1 = (writeQuads (l.take (4 * k))).1 ∧
      (writeQuads l).2 = l.drop (4 * k) := by
  intro n
  induction n with
  | zero =>
    intro l hl
    have : l = [] := List.eq_nil_of_length_eq_zero (by omega)
    subst this
    exact ⟨0, by simp, by simp, rfl, rfl⟩
  | succ n ih =>
    intro l hl
    match l, hl with
    | [], _ => exact ⟨0, by simp, by simp, rfl, rfl⟩
    | [_], _ => exact ⟨0, by simp, by simp, rfl, rfl⟩
    | [_, _], _ => exact ⟨0, by simp, by simp, rfl, rfl⟩
    | [_, _, _], _ => exact ⟨0, by simp, by simp, rfl, rfl⟩
    | a :: b :: c :: d :: r, hl =>
      obtain ⟨k, h1, h2, h3, h4⟩ := ih r (by simp only [List.length_cons] at hl; omega)
      refine ⟨k + 1, by simp only [List.length_cons]; omega, by simp only [List.length_cons]; omega, ?_, ?_⟩
      · have e : 4 * (k + 1) = 4 * k + 1 + 1 + 1 + 1 := by omega
        rw [e]
        simp only [List.take_succ_cons, writeQuads_cons4, h3]
      · have e : 4 * (k + 1) = 4 * k + 1 + 1 + 1 + 1 := by omega
        rw [e]
        simp only [List.drop_succ_cons, writeQuads_cons4, h4]

theorem asciiNeed_eq (l : List Nat) : asciiNeed l = l.length + (l.filter isExtended).length := by
  induction l with
  | nil => rfl
  | cons c cs ih =>
    simp only [asciiNeed, ih, List.length_cons, List.filter_cons]
    by_cases hc : isExtended c = true
    · simp only [hc, if_true, List.length_cons]; omega
    · simp only [hc, if_false, Bool.false_eq_true]; omega

theorem asciiNeed_native (l : List Nat) (h : ∀ x ∈ l, isNativeEDIFACT x = true) : asciiNeed l = l.length := by
  induction l with
  | nil => rfl
  | cons c cs ih =>
    have hc := (ediVal_facts c (h c (by simp))).2.2.2.2
    have : isExtended c = false := by simp [isExtended]; omega
    simp only [asciiNeed, this, List.length_cons, ih (fun x hx => h x (by simp [hx]))]
    simp; omega

theorem edifactRestNeed_spec {c : Ctx} {r : Nat} (hle : c.pos ≤ c.total) (h : edifactRestNeed c = .ok r) :
    (c.remaining ≤ 2 → r = asciiNeed c.rest) ∧ (2 < c.remaining → r = c.remaining) := by
  unfold edifactRestNeed at h
  simp only at h
  split at h
  · rename_i h2
    split at h
    · cases h
      refine ⟨fun _ => ?_, fun h3 => by omega⟩
      rw [asciiNeed_eq]
      have hlen : c.rest.length = c.remaining := by
        unfold Ctx.rest
        rw [List.length_take, List.length_drop]
        omega
      unfold Ctx.rest at hlen ⊢
      rw [hlen]
    · cases h
  · rename_i h2
    cases h
    exact ⟨fun h3 => by omega, fun _ => rfl⟩

/-- the four unlatch forms after complete quadruples -/
theorem edifact_closed1 {T : Tables} {cw0 : List Nat} {a : Acc} (h : DecodesTo T cw0 a) (hp : a.pend = 0)
    (k : Nat) (chars : List Nat) (hl : chars.length = 4 * k) (hn : ∀ c ∈ chars, isNativeEDIFACT c = true) :
    DecFrom T 2 (cw0 ++ [240] ++ (writeQuads (chars.map ediVal)).1 ++ edifactPack [31]) (a.pushAll chars) := by
  intro suf hs hb
  match suf, hs, hb with
  | x :: y :: rest, _, hb =>
    have := edifact_segment_core h hp k chars hl hn (edifactPack [31]) [] (by simp) (x :: y :: rest) (by
      intro b n
      exact edifactSeg_unlatch1 x y (hb x (by simp)) (hb y (by simp)) rest b n)
    simpa [Acc.pushAll] using this

theorem edifact_closed2 {T : Tables} {cw0 : List Nat} {a : Acc} (h : DecodesTo T cw0 a) (hp : a.pend = 0)
    (k : Nat) (chars : List Nat) (hl : chars.length = 4 * k) (hn : ∀ c ∈ chars, isNativeEDIFACT c = true)
    (c1 : Nat) (h1 : isNativeEDIFACT c1 = true) :
    DecFrom T 1 (cw0 ++ [240] ++ (writeQuads (chars.map ediVal)).1 ++ edifactPack [ediVal c1, 31])
      ((a.pushAll chars).pushAll [c1]) := by
  intro suf hs hb
  match suf, hs, hb with
  | z :: rest, _, hb =>
    exact edifact_segment_core h hp k chars hl hn (edifactPack [ediVal c1, 31]) [c1]
      (by intro c hc; simp at hc; rw [hc]; exact (ediVal_facts c1 h1).2.2.2.2) (z :: rest) (by
        intro b n
        have := edifactSeg_unlatch2 c1 h1 z (hb z (by simp)) rest b n
        simpa [edifactPack, Acc.pushAll, edifactWord] using this)

theorem edifact_closed3 {T : Tables} {cw0 : List Nat} {a : Acc} (h : DecodesTo T cw0 a) (hp : a.pend = 0)
    (k : Nat) (chars : List Nat) (hl : chars.length = 4 * k) (hn : ∀ c ∈ chars, isNativeEDIFACT c = true)
    (c1 c2 : Nat) (h1 : isNativeEDIFACT c1 = true) (h2 : isNativeEDIFACT c2 = true) :
    DecFrom T 0 (cw0 ++ [240] ++ (writeQuads (chars.map ediVal)).1 ++ edifactPack [ediVal c1, ediVal c2, 31])
      ((a.pushAll chars).pushAll [c1, c2]) := by
  intro suf _ _
  exact edifact_segment_core h hp k chars hl hn (edifactPack [ediVal c1, ediVal c2, 31]) [c1, c2]
    (by intro c hc; simp at hc; rcases hc with rfl | rfl
        · exact (ediVal_facts _ h1).2.2.2.2
        · exact (ediVal_facts _ h2).2.2.2.2) suf (by
      intro b n
      have := edifactSeg_unlatch3 c1 c2 h1 h2 suf b n
      simpa [edifactPack, Acc.pushAll, edifactWord] using this)

theorem edifact_closed4 {T : Tables} {cw0 : List Nat} {a : Acc} (h : DecodesTo T cw0 a) (hp : a.pend = 0)
    (k : Nat) (chars : List Nat) (hl : chars.length = 4 * k) (hn : ∀ c ∈ chars, isNativeEDIFACT c = true)
    (c1 c2 c3 : Nat) (h1 : isNativeEDIFACT c1 = true) (h2 : isNativeEDIFACT c2 = true)
    (h3 : isNativeEDIFACT c3 = true) :
    DecFrom T 0 (cw0 ++ [240] ++ (writeQuads (chars.map ediVal)).1 ++
        edifactPack [ediVal c1, ediVal c2, ediVal c3, 31])
      ((a.pushAll chars).pushAll [c1, c2, c3]) := by
  intro suf _ _
  exact edifact_segment_core h hp k chars hl hn (edifactPack [ediVal c1, ediVal c2, ediVal c3, 31]) [c1, c2, c3]
    (by intro c hc; simp at hc; rcases hc with rfl | rfl | rfl
        · exact (ediVal_facts _ h1).2.2.2.2
        · exact (ediVal_facts _ h2).2.2.2.2
        · exact (ediVal_facts _ h3).2.2.2.2) suf (by
      intro b n
      have := edifactSeg_unlatch4 c1 c2 c3 h1 h2 h3 suf b n
      simpa [edifactPack, Acc.pushAll, edifactWord] using this)

/-! ## the whole call -/

/-- the states a whole call of the EDIFACT encoder can end in (entry context `c`, result `c'`) -/
inductive EdiPost (T : Tables) (syms : List SymbolInfo) (c c' : Ctx) (a' : Acc) : Prop where
  /-- unlatch written inside full codewords (two or three buffered characters): decoder back in ASCII, whatever follows -/
  | closed : DecFrom T 0 c'.cw a' → EdiPost T syms c c' a'
  /-- no unlatch: the symbol has `k ≤ 2` codewords left and the rest of the message fits there in ASCII -/
  | tail (k : Nat) : k ≤ 2 → Tail T c' a' k → EdiPost T syms c c' a'
  /-- end of message with one or two buffered characters and fewer than three codewords left: nothing written for
      them, position rewound, symbol forgotten; the symbol UpdateSymbolInfoByLength picks for them has at most two
      codewords behind the last quadruple -/
  | rewound : DecK T c'.cw a' 2 → c'.sym = none → c'.remaining ≤ 2 → (∀ x ∈ c'.rest, isNativeEDIFACT x = true) →
      (∃ c2 s, ({ c' with sym := c.sym } : Ctx).update syms (c'.count + c'.remaining) = .ok c2 ∧ c2.sym = some s ∧
        s.cap ≤ c'.count + 2) → EdiPost T syms c c' a'
  /-- end of message, unlatch written in one or two codewords: read as unlatch because the symbol has at least
      `j` more codewords (padding) -/
  | endpad (j : Nat) : j ≤ 2 → DecFrom T j c'.cw a' → c'.hasMore = false →
      (∃ s, c'.sym = some s ∧ c'.count + j ≤ s.cap) → EdiPost T syms c c' a'
  /-- the look-ahead left EDIFACT in mid-stream and the one-codeword unlatch 124 was written: read as unlatch iff
      at least two more codewords follow in the FINAL symbol -/
  | mid : DecFrom T 2 c'.cw a' → c'.hasMore = true → c.pos < c'.pos → EdiPost T syms c c' a'

theorem update_sym_congr {syms : List SymbolInfo} {c d c2 : Ctx} {n : Nat} (h1 : d.cfg = c.cfg) (h2 : d.sym = c.sym)
    (h : c.update syms n = .ok c2) : ∃ d2, d.update syms n = .ok d2 ∧ d2.sym = c2.sym := by
  unfold Ctx.update at h ⊢
  simp only [h1, h2] at h ⊢
  cases hs : c.sym with
  | none =>
    rw [hs] at h
    simp only at h ⊢
    cases hl : lookup syms c.cfg n with
    | none => rw [hl] at h; cases h
    | some s => rw [hl] at h; cases h; exact ⟨_, rfl, rfl⟩
  | some s0 =>
    rw [hs] at h
    simp only at h ⊢
    split
    · rename_i hgt
      simp only [hgt, if_true] at h
      cases hl : lookup syms c.cfg n with
      | none => rw [hl] at h; cases h
      | some s => rw [hl] at h; cases h; exact ⟨_, rfl, rfl⟩
    · rename_i hgt
      simp only [hgt, if_false] at h
      cases h
      exact ⟨_, rfl, by simp [h2, hs]⟩

/-- the part of edifactHandleEOD after the `count == 1` prelude, for `r = count - 1 ≤ 2` buffered characters -/
def eodRest (syms : List SymbolInfo) (c1 : Ctx) (r : Nat) (pack : List Nat) : Res Ctx := do
  let step : Res (Ctx × Bool) := do
    let c ← c1.update syms (c1.count + r)
    let cap ← c.capacity
    if cap - c.count ≥ 3 then do
      let c ← c.update syms (c.count + pack.length)
      .ok (c, false)
    else .ok (c, !c1.hasMore)
  let (c, restInAscii) ← step
  if restInAscii then do
    let c ← ({ c with sym := none } : Ctx).back r
    .ok (c.signal ASCII)
  else .ok ((c.writeAll pack).signal ASCII)

theorem edifact_step_post {T : Tables} {syms : List SymbolInfo} {la : LookAhead} {c c' : Ctx} {a : Acc}
    (hL : LatchedM T EDIFACT 240 la c a) (hle : c.pos ≤ c.total) (hnew : c.newEnc = none)
    (h : edifactEncode syms la c = .ok c') :
    ∃ a', a'.trailer = a.trailer ∧ c'.msg = c.msg ∧ c'.cfg = c.cfg ∧ c'.skipAtEnd = c.skipAtEnd ∧
      c.pos ≤ c'.pos ∧ c'.pos ≤ c'.total ∧ c'.newEnc = some ASCII ∧ a'.rev.reverse = c'.msg.take c'.pos ∧
      a'.pend = 0 ∧ EdiPost T syms c c' a' := by
  obtain ⟨cw0, hcw, hdec, htext, hpend, _⟩ := hL
  unfold edifactEncode at h
  cases hl : edifactLoop la c.remaining c [] with
  | error e => rw [hl] at h; simp [bind, Except.bind] at h
  | ok r =>
    obtain ⟨c1, buf1⟩ := r
    rw [hl] at h
    simp only [bind, Except.bind] at h
    obtain ⟨chars, hchars, hnat, hcw1, hbuf1, hsf, hp1, hp1t, hclen, hexit⟩ :=
      edifactLoop_spec la c.remaining c [] c1 buf1 (by simp) hle hl
    simp only [List.nil_append] at hcw1 hbuf1
    obtain ⟨k, hk1, hk2, hq1, hq2⟩ := writeQuads_split _ (chars.map ediVal) (Nat.le_refl _)
    rw [List.length_map] at hk1 hk2
    -- split the characters
    obtain ⟨charsQ, hQ⟩ : ∃ x, x = chars.take (4 * k) := ⟨_, rfl⟩
    obtain ⟨charsB, hB⟩ : ∃ x, x = chars.drop (4 * k) := ⟨_, rfl⟩
    have hQl : charsQ.length = 4 * k := by rw [hQ, List.length_take]; omega
    have hBl : charsB.length < 4 := by rw [hB, List.length_drop]; omega
    have hQn : ∀ x ∈ charsQ, isNativeEDIFACT x = true := fun x hx => hnat x (by rw [hQ] at hx; exact List.mem_of_mem_take hx)
    have hBn : ∀ x ∈ charsB, isNativeEDIFACT x = true := fun x hx => hnat x (by rw [hB] at hx; exact List.mem_of_mem_drop hx)
    have hcw1' : c1.cw = cw0 ++ [240] ++ (writeQuads (charsQ.map ediVal)).1 := by
      rw [hcw1, hq1, hcw, hQ, List.map_take]
    have hbuf1' : buf1 = charsB.map ediVal := by rw [hbuf1, hq2, hB, List.map_drop]
    have hopen := edifact_segment_open hdec hpend k charsQ hQl hQn
    rw [← hcw1'] at hopen
    subst hbuf1'
    have hsplit : charsQ ++ charsB = chars := by rw [hQ, hB]; exact List.take_append_drop _ _
    have hlt128 : ∀ x ∈ chars, x < 128 := fun x hx => (ediVal_facts x (hnat x hx)).2.2.2.2
    have hAllText : (a.pushAll chars).rev.reverse = c.msg.take c1.pos := by
      rw [pushAll_rev, htext, hchars, take_add_drop_take]; congr 1; omega
    have hQText : (a.pushAll charsQ).rev.reverse = c.msg.take (c.pos + 4 * k) := by
      rw [pushAll_rev, htext, hQ, hchars, List.take_take, Nat.min_eq_left (by omega), take_add_drop_take]
    have hpendAll : (a.pushAll chars).pend = 0 := by rw [pushAll_pend_lt chars _ hlt128, hpend]
    have hpendQ : (a.pushAll charsQ).pend = 0 := by
      rw [pushAll_pend_lt charsQ _ (fun x hx => hlt128 x (by rw [← hsplit]; exact List.mem_append_left _ hx)), hpend]
    have hpa : (a.pushAll charsQ).pushAll charsB = a.pushAll chars := by rw [← pushAll_append, hsplit]
    have hc1len : c1.pos = c.pos + 4 * k + charsB.length := by
      have : chars.length = charsQ.length + charsB.length := by rw [← hsplit, List.length_append]
      omega
    -- one or two characters buffered at the end of the message
    have hgen : ∀ (last pack : List Nat) (j : Nat), (a.pushAll charsQ).pushAll last = a.pushAll chars →
        c1.pos = c.pos + 4 * k + last.length → last = chars.drop (4 * k) → 1 ≤ last.length → last.length ≤ 2 →
        pack.length + j = 3 → j ≤ 2 → DecFrom T j (c1.cw ++ pack) (a.pushAll chars) → c1.hasMore = false →
        eodRest syms c1 last.length pack = Except.ok c' →
        ∃ a', a'.trailer = a.trailer ∧ c'.msg = c.msg ∧ c'.cfg = c.cfg ∧ c'.skipAtEnd = c.skipAtEnd ∧
          c.pos ≤ c'.pos ∧ c'.pos ≤ c'.total ∧ c'.newEnc = some ASCII ∧
          a'.rev.reverse = c'.msg.take c'.pos ∧ a'.pend = 0 ∧ EdiPost T syms c c' a' := by
      intro last pack j gpa glen gdrop g1 g2 gpj gj gdf gm h
      simp [eodRest, bind, Except.bind] at h
      cases hu2 : c1.update syms (c1.count + last.length) with
      | error e => rw [hu2] at h; cases h
      | ok c2 =>
        rw [hu2] at h
        simp only at h
        obtain ⟨u1, u2, u3, u4, u5, u6, s2, hs2, hle2, _⟩ := update_spec hu2
        have hcap2 : c2.capacity = .ok s2.cap := by simp [Ctx.capacity, hs2]
        rw [hcap2] at h
        simp only at h
        have hc2count : c2.count = c1.count := by simp [Ctx.count, u1]
        by_cases h3 : 3 ≤ s2.cap - c2.count
        · simp only [h3, if_true] at h
          cases hu3 : c2.update syms (c2.count + pack.length) with
          | error e => rw [hu3] at h; cases h
          | ok c3 =>
            rw [hu3] at h
            simp only [Bool.false_eq_true, if_false, Except.ok.injEq] at h
            subst h
            obtain ⟨t1, t2, t3, t4, t5, t6, s3, hs3, hle3, hwhich3⟩ := update_spec hu3
            have hs3s : s3 = s2 := by
              rcases hwhich3 with e | e | ⟨s0, e, hgt⟩
              · rw [hs2] at e; exact (Option.some.inj e).symm
              · rw [hs2] at e; cases e
              · rw [hs2] at e; cases e; omega
            subst hs3s
            refine ⟨a.pushAll chars, pushAll_trailer _ _, by simp [Ctx.signal, Ctx.writeAll, t2, u2, hsf.msg],
              by simp [Ctx.signal, Ctx.writeAll, t4, u4, hsf.cfg], by simp [Ctx.signal, Ctx.writeAll, t5, u5, hsf.skip],
              by show c.pos ≤ c3.pos; rw [t3, u3]; exact hp1,
              by simp only [Ctx.signal, Ctx.writeAll, Ctx.total, t3, u3, t2, u2, t5, u5]; exact hp1t, rfl, ?_, hpendAll, ?_⟩
            · simp only [Ctx.signal, Ctx.writeAll, t3, u3, t2, u2, hsf.msg]; exact hAllText
            · refine EdiPost.endpad j gj ?_ ?_ ⟨s3, hs3, ?_⟩
              · simpa [Ctx.signal, Ctx.writeAll, t1, u1] using gdf
              · rw [hasMore_congr c1 _ (by simp [Ctx.signal, Ctx.writeAll, t2, u2]) (by simp [Ctx.signal, Ctx.writeAll, t3, u3])
                  (by simp [Ctx.signal, Ctx.writeAll, t5, u5])]
                exact gm
              · have hcnt : ((c3.writeAll pack).signal ASCII).count = c1.count + pack.length := by
                  simp [Ctx.signal, Ctx.writeAll, Ctx.count, t1, u1]
                rw [hcnt]; rw [hc2count] at h3; omega
        · simp only [h3, if_false, gm, Bool.not_false, if_true] at h
          split at h
          · cases h
          · rename_i c6 hbk
            simp only [Except.ok.injEq] at h
            obtain ⟨hk6, hc6⟩ := back_spec hbk
            have f1 : c'.msg = c1.msg := by rw [← h, hc6]; exact u2
            have f2 : c'.cfg = c1.cfg := by rw [← h, hc6]; exact u4
            have f3 : c'.skipAtEnd = c1.skipAtEnd := by rw [← h, hc6]; exact u5
            have f4 : c'.pos = c1.pos - last.length := by rw [← h, hc6]; simp [Ctx.signal, u3]
            have f5 : c'.cw = c1.cw := by rw [← h, hc6]; exact u1
            have f6 : c'.sym = none := by rw [← h, hc6]; rfl
            have f7 : c'.newEnc = some ASCII := by rw [← h]; rfl
            have hk6' : last.length ≤ c1.pos := by simpa [u3] using hk6
            have hposT : c1.pos = c1.total := by
              have := (hasMore_false_iff' c1).mp gm; omega
            have e1 : c1.pos - last.length = c.pos + 4 * k := by omega
            have hr : c'.remaining = last.length := by
              simp only [Ctx.remaining, Ctx.total, f1, f3, f4]
              simp only [Ctx.total] at hposT; omega
            have hdropB : ∀ n, n = c1.pos - c.pos - 4 * k → chars.drop (4 * k) = (c.msg.drop (c.pos + 4 * k)).take n := by
              intro n hn
              rw [hchars, List.drop_take, List.drop_drop, hn]
            have hrest : c'.rest = last := by
              simp only [Ctx.rest, hr, f1, f4, hsf.msg]
              rw [e1, ← hdropB last.length (by omega)]
              exact gdrop.symm
            refine ⟨a.pushAll charsQ, pushAll_trailer _ _, by rw [f1, hsf.msg], by rw [f2, hsf.cfg], by rw [f3, hsf.skip],
              by rw [f4]; omega, by simp only [Ctx.total, f1, f3, f4]; simp only [Ctx.total] at hp1t; omega, f7, ?_, hpendQ, ?_⟩
            · rw [f4, f1, hsf.msg, e1]; exact hQText
            · refine EdiPost.rewound ?_ f6 (by rw [hr]; exact g2) ?_ ?_
              · rw [f5]; exact hopen
              · rw [hrest]; intro x hx; exact hnat x (by rw [gdrop] at hx; exact List.mem_of_mem_drop hx)
              · rw [hr]
                obtain ⟨d2, hd2, hd2s⟩ := update_sym_congr (c := c1) (d := ({ c' with sym := c.sym } : Ctx))
                  (n := c1.count + last.length) (by simp [f2]) (by simp [hsf.sym]) hu2
                refine ⟨d2, s2, ?_, by rw [hd2s, hs2], ?_⟩
                · have : c'.count = c1.count := by simp [Ctx.count, f5]
                  rw [this]; exact hd2
                · have : c'.count = c1.count := by simp [Ctx.count, f5]
                  rw [this]; rw [hc2count] at h3; omega
    match charsB, hBl, hB, hBn, hpa, hc1len with
    | [], _, hB, _, hpa, hc1len =>
      simp [edifactHandleEOD, bind, Except.bind] at h
      split at h
      · cases h
      · rename_i v hv
        have hcB : c1.pos = c.pos + 4 * k := by simpa using hc1len
        -- the `count == 1` prelude
        cases hu1 : c1.update syms c1.count with
        | error e => rw [hu1] at hv; cases hv
        | ok c2 =>
          rw [hu1] at hv
          simp only at hv
          obtain ⟨u1, u2, u3, u4, u5, u6, s2, hs2, hle2, _⟩ := update_spec hu1
          have hcap2 : c2.capacity = .ok s2.cap := by simp [Ctx.capacity, hs2]
          rw [hcap2] at hv
          simp only at hv
          cases hrn : edifactRestNeed c2 with
          | error e => rw [hrn] at hv; cases hv
          | ok need =>
            rw [hrn] at hv
            simp only at hv
            split at hv
            · cases hv
            · rename_i w hw
              have hwf : w.1.cw = c1.cw ∧ w.1.msg = c1.msg ∧ w.1.pos = c1.pos ∧ w.1.cfg = c1.cfg ∧
                  w.1.skipAtEnd = c1.skipAtEnd ∧ w.1.newEnc = c1.newEnc ∧
                  ∃ s, w.1.sym = some s ∧ w.1.count ≤ s.cap ∧ w.2 = s.cap - w.1.count := by
                by_cases hgt : s2.cap - c2.count < need
                · simp only [hgt, if_true] at hw
                  cases hu3 : c2.update syms (c2.count + 1) with
                  | error e => rw [hu3] at hw; cases hw
                  | ok c3 =>
                    rw [hu3] at hw
                    simp only at hw
                    obtain ⟨x1, x2, x3, x4, x5, x6, s3, hs3, hle3, _⟩ := update_spec hu3
                    have hcap3 : c3.capacity = .ok s3.cap := by simp [Ctx.capacity, hs3]
                    rw [hcap3] at hw
                    simp only [pure, Except.pure, Except.ok.injEq] at hw
                    subst hw
                    refine ⟨by rw [x1, u1], by rw [x2, u2], by rw [x3, u3], by rw [x4, u4], by rw [x5, u5],
                      by rw [x6, u6], s3, hs3, ?_, rfl⟩
                    simp only [Ctx.count, x1] at hle3 ⊢; omega
                · simp only [hgt, if_false, pure, Except.pure, Except.ok.injEq] at hw
                  subst hw
                  refine ⟨u1, u2, u3, u4, u5, u6, s2, hs2, ?_, rfl⟩
                  simp only [Ctx.count, u1] at hle2 ⊢; exact hle2
              obtain ⟨w1, w2, w3, w4, w5, w6, s, hs, hcs, hav⟩ := hwf
              simp only [Except.ok.injEq] at hv
              subst hv
              simp only at h
              have hmoreW : w.1.hasMore = c1.hasMore := hasMore_congr c1 w.1 w2 w3 w5
              have hne : c1.newEnc = some ASCII ∨ c1.newEnc = none := by
                rcases hexit with ⟨e1, _⟩ | ⟨e1, _⟩
                · right; rw [e1, hnew]
                · left; exact e1
              have hrest2 : c2.rest = w.1.rest := by
                simp only [Ctx.rest, Ctx.remaining, Ctx.total, u2, u3, u5, w2, w3, w5]
              have hrem2 : c2.remaining = w.1.remaining := by
                simp only [Ctx.remaining, Ctx.total, u2, u3, u5, w2, w3, w5]
              have hle2' : c2.pos ≤ c2.total := by simp only [Ctx.total, u2, u3, u5]; exact hp1t
              obtain ⟨hn1, hn2⟩ := edifactRestNeed_spec hle2' hrn
              split at h
              · -- no unlatch
                rename_i hno
                simp only [Bool.and_eq_true, decide_eq_true_eq] at hno
                cases h
                refine ⟨a.pushAll charsQ, pushAll_trailer _ _, by simp [Ctx.signal, w2, hsf.msg],
                  by simp [Ctx.signal, w4, hsf.cfg], by simp [Ctx.signal, w5, hsf.skip],
                  by simp only [Ctx.signal, w3]; omega,
                  by simp only [Ctx.signal, Ctx.total, w3, w2, w5]; exact hp1t, rfl, ?_, hpendQ, ?_⟩
                · simp only [Ctx.signal, w3, w2, hsf.msg, hcB]; exact hQText
                · refine EdiPost.tail w.2 hno.2 ⟨?_, ?_, hpendQ, ⟨s, hs, by show s.cap = w.1.count + w.2; rw [hav]; omega⟩, ?_⟩
                  · simp only [Ctx.signal, w1]; exact hopen.mono hno.2
                  · simp only [Ctx.signal, w3, w2, hsf.msg, hcB]; exact hQText
                  · have : (w.1.signal ASCII).rest = w.1.rest := rfl
                    rw [this, ← hrest2]
                    by_cases hr2 : c2.remaining ≤ 2
                    · rw [← hn1 hr2]; exact hno.1
                    · have := hn2 (by omega); omega
              · rename_i hno
                simp only [Bool.and_eq_true, decide_eq_true_eq] at hno
                split at h
                · cases h
                · rename_i u hu
                  -- `restChars = 0`: the second symbol update
                  cases hu4 : w.1.update syms w.1.count with
                  | error e => rw [hu4] at hu; cases hu
                  | ok c4 =>
                    rw [hu4] at hu
                    simp only at hu
                    obtain ⟨y1, y2, y3, y4, y5, y6, s4, hs4, hle4, hwhich4⟩ := update_spec hu4
                    have hs4s : s4 = s := by
                      rcases hwhich4 with e | e | ⟨s0, e, hgt⟩
                      · rw [hs] at e; exact (Option.some.inj e).symm
                      · rw [hs] at e; cases e
                      · rw [hs] at e; cases e; omega
                    subst hs4s
                    have hcap4 : c4.capacity = .ok s4.cap := by simp [Ctx.capacity, hs4]
                    rw [hcap4] at hu
                    simp only at hu
                    have hc4count : c4.count = w.1.count := by simp [Ctx.count, y1]
                    -- what is written: the one-codeword unlatch
                    have hfin : ∀ cZ : Ctx, cZ.cw = c1.cw → cZ.msg = c1.msg → cZ.pos = c1.pos → cZ.cfg = c1.cfg →
                        cZ.skipAtEnd = c1.skipAtEnd → (c1.hasMore = false → ∃ sz, cZ.sym = some sz ∧ cZ.count + 3 ≤ sz.cap) →
                        (cZ.writeAll (edifactPack [31])).signal ASCII = c' →
                        ∃ a', a'.trailer = a.trailer ∧ c'.msg = c.msg ∧ c'.cfg = c.cfg ∧ c'.skipAtEnd = c.skipAtEnd ∧
                          c.pos ≤ c'.pos ∧ c'.pos ≤ c'.total ∧ c'.newEnc = some ASCII ∧
                          a'.rev.reverse = c'.msg.take c'.pos ∧ a'.pend = 0 ∧ EdiPost T syms c c' a' := by
                      intro cZ z1 z2 z3 z4 z5 zs hz
                      subst hz
                      have hdf := edifact_closed1 hdec hpend k charsQ hQl hQn (T := T)
                      rw [← hcw1'] at hdf
                      refine ⟨a.pushAll charsQ, pushAll_trailer _ _, by simp [Ctx.signal, Ctx.writeAll, z2, hsf.msg],
                        by simp [Ctx.signal, Ctx.writeAll, z4, hsf.cfg], by simp [Ctx.signal, Ctx.writeAll, z5, hsf.skip],
                        by simp only [Ctx.signal, Ctx.writeAll, z3]; omega,
                        by simp only [Ctx.signal, Ctx.writeAll, Ctx.total, z3, z2, z5]; exact hp1t, rfl, ?_, hpendQ, ?_⟩
                      · simp only [Ctx.signal, Ctx.writeAll, z3, z2, hsf.msg, hcB]; exact hQText
                      · have hmZ : ((cZ.writeAll (edifactPack [31])).signal ASCII).hasMore = c1.hasMore :=
                          hasMore_congr c1 _ z2 z3 z5
                        cases hm1 : c1.hasMore with
                        | true =>
                          refine EdiPost.mid ?_ (by rw [hmZ, hm1]) ?_
                          · simpa [Ctx.signal, Ctx.writeAll, z1] using hdf
                          · rcases hexit with ⟨_, e2⟩ | ⟨_, _, e3, _⟩
                            · rw [hm1] at e2; cases e2
                            · simp only [Ctx.signal, Ctx.writeAll, z3]; exact e3
                        | false =>
                          obtain ⟨sz, hsz, hcz⟩ := zs hm1
                          refine EdiPost.endpad 2 (Nat.le_refl _) ?_ (by rw [hmZ, hm1]) ⟨sz, hsz, ?_⟩
                          · simpa [Ctx.signal, Ctx.writeAll, z1] using hdf
                          · have : (edifactPack [31]).length = 1 := by decide
                            simp only [Ctx.signal, Ctx.writeAll, Ctx.count, List.length_append, this] at hcz ⊢
                            omega
                    by_cases h3 : 3 ≤ s4.cap - c4.count
                    · simp only [h3, if_true] at hu
                      cases hu5 : c4.update syms (c4.count + (edifactPack [31]).length) with
                      | error e => rw [hu5] at hu; cases hu
                      | ok c5 =>
                        rw [hu5] at hu
                        simp only [Except.ok.injEq] at hu
                        subst hu
                        simp only [Bool.false_eq_true, if_false, Except.ok.injEq] at h
                        obtain ⟨t1, t2, t3, t4, t5, t6, s5, hs5, hle5, hwhich5⟩ := update_spec hu5
                        have hlen1 : (edifactPack [31]).length = 1 := by decide
                        rw [hlen1] at hle5 hwhich5
                        have hs5s : s5 = s4 := by
                          rcases hwhich5 with e | e | ⟨s0, e, hgt⟩
                          · rw [hs4] at e; exact (Option.some.inj e).symm
                          · rw [hs4] at e; cases e
                          · rw [hs4] at e; cases e; omega
                        subst hs5s
                        exact hfin c5 (by rw [t1, y1, w1]) (by rw [t2, y2, w2]) (by rw [t3, y3, w3]) (by rw [t4, y4, w4])
                          (by rw [t5, y5, w5]) (fun _ => ⟨s5, hs5, by simp only [Ctx.count, t1] at h3 ⊢; omega⟩) h
                    · simp only [h3, if_false, Except.ok.injEq] at hu
                      subst hu
                      simp only at h
                      cases hm1 : c1.hasMore with
                      | false =>
                        -- unreachable: nothing remains, so "no unlatch" would have applied or three codewords are free
                        exfalso
                        have hrem0 : w.1.remaining = 0 := by
                          have := (hasMore_false_iff' w.1).mp (by rw [hmoreW, hm1])
                          simp only [Ctx.remaining]; omega
                        have hneed0 : need = 0 := by
                          rw [hn1 (by omega), hrest2]
                          simp [Ctx.rest, hrem0, asciiNeed]
                        rw [hc4count] at h3
                        omega
                      | true =>
                        simp only [hmoreW, hm1, Bool.not_true, Bool.false_eq_true, if_false, Except.ok.injEq] at h
                        exact hfin c4 (by rw [y1, w1]) (by rw [y2, w2]) (by rw [y3, w3]) (by rw [y4, w4])
                          (by rw [y5, w5]) (fun hf => by rw [hm1] at hf; cases hf) h
    | [b1], _, hB, hBn, hpa, hc1len =>
      simp [edifactHandleEOD, bind, Except.bind] at h
      have hm1 : c1.hasMore = false := by
        rcases hexit with ⟨_, e⟩ | ⟨_, e, _⟩
        · exact e
        · simp at e
      have hdf := edifact_closed2 hdec hpend k charsQ hQl hQn b1 (hBn b1 (by simp)) (T := T)
      rw [← hcw1', hpa] at hdf
      refine hgen [b1] (edifactPack [ediVal b1, 31]) 1 hpa hc1len hB (by simp) (by simp)
        (by simp [edifactPack, edifactWord]) (by omega) hdf hm1 ?_
      simp [eodRest, bind, Except.bind]
      exact h
    | [b1, b2], _, hB, hBn, hpa, hc1len =>
      simp [edifactHandleEOD, bind, Except.bind] at h
      have hm1 : c1.hasMore = false := by
        rcases hexit with ⟨_, e⟩ | ⟨_, e, _⟩
        · exact e
        · simp at e
      have hdf := edifact_closed3 hdec hpend k charsQ hQl hQn b1 b2 (hBn b1 (by simp)) (hBn b2 (by simp)) (T := T)
      rw [← hcw1', hpa] at hdf
      refine hgen [b1, b2] (edifactPack [ediVal b1, ediVal b2, 31]) 0 hpa hc1len hB (by simp) (by simp)
        (by simp [edifactPack, edifactWord]) (by omega) hdf hm1 ?_
      simp [eodRest, bind, Except.bind]
      exact h
    | [b1, b2, b3], _, hB, hBn, hpa, hc1len =>
      simp [edifactHandleEOD, bind, Except.bind] at h
      subst h
      refine ⟨(a.pushAll charsQ).pushAll [b1, b2, b3], ?_, hsf.msg, hsf.cfg, hsf.skip, hp1, hp1t, rfl, ?_, ?_, ?_⟩
      · rw [pushAll_trailer, pushAll_trailer]
      · rw [hpa]; simpa [Ctx.signal, Ctx.writeAll, hsf.msg] using hAllText
      · rw [hpa]; exact hpendAll
      · apply EdiPost.closed
        have := edifact_closed4 hdec hpend k charsQ hQl hQn b1 b2 b3 (hBn b1 (by simp)) (hBn b2 (by simp)) (hBn b3 (by simp))
        simpa [Ctx.signal, Ctx.writeAll, hcw1'] using this

end Gzx.DMHighLevel
