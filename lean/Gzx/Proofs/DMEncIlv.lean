/-
  C08: the ENCODER model's ErrorCorrection_EncodeECC200 (block extraction by stride, per-block createECCBlock,
  error codewords written by stride from the repaired start offset `(b + B - cap mod B) mod B`) produces exactly
  the reference codeword sequence `DMRef.codewords s d`, for every row of Table 7 and every byte vector d.
  Generic lemma about the stride writes + a cheap per-row decidable fact about the start offsets.
-/
import Gzx.Proofs.DMGF
import Gzx.Proofs.DMIlv2
namespace Gzx.DMProofs
open Gzx Gzx.DMRef

/-! ## the inner write loop: consistent writes along an arithmetic progression -/

theorem putEcc_spec (T : List Nat) (B limit base : Nat) : ∀ (ecc : List Nat) (fuel : Nat) (sb : List Nat) (e : Nat),
    sb.length = T.length → base + limit ≤ T.length →
    (∀ t, t < ecc.length → e + t * B < limit) → limit ≤ e + ecc.length * B → ecc.length < fuel →
    (∀ t (h : t < ecc.length), T[base + (e + t * B)]? = some ecc[t]) →
    ∃ sb', DMEnc.putEcc B limit base fuel sb ecc e = .ok sb' ∧ sb'.length = sb.length ∧
      (∀ p : Nat, sb[p]? = T[p]? → sb'[p]? = T[p]?) ∧
      (∀ t : Nat, t < ecc.length → sb'[base + (e + t * B)]? = T[base + (e + t * B)]?) := by
  intro ecc
  induction ecc with
  | nil =>
    intro fuel sb e _ _ _ hlim hfuel _
    cases fuel with
    | zero => simp at hfuel
    | succ f =>
      have : ¬ e < limit := by simp at hlim; omega
      exact ⟨sb, by simp [DMEnc.putEcc, this], rfl, fun _ h => h, fun t ht => by simp at ht⟩
  | cons x rest ih =>
    intro fuel sb e hlen hbase hin hlim hfuel hcons
    cases fuel with
    | zero => simp at hfuel
    | succ f =>
      have he : e < limit := by have := hin 0 (by simp); simpa using this
      have hpos : base + e < sb.length := by omega
      have h0 : T[base + e]? = some x := by
        have := hcons 0 (by simp)
        simpa using this
      have hstep : ∀ t, e + B + t * B = e + (t + 1) * B := by
        intro t; rw [Nat.succ_mul]; omega
      obtain ⟨sb', hres, hl', hkeep, hnew⟩ := ih f (sb.set (base + e) x) (e + B)
        (by rw [List.length_set]; exact hlen) hbase
        (by intro t ht; rw [hstep]; exact hin (t + 1) (by simpa using ht))
        (by rw [hstep]; simpa using hlim)
        (by simpa using hfuel)
        (by intro t ht; rw [hstep]; have := hcons (t + 1) (by simpa using ht); simpa using this)
      have hagree0 : (sb.set (base + e) x)[base + e]? = T[base + e]? := by
        rw [List.getElem?_set, h0]; simp [hpos]
      refine ⟨sb', ?_, ?_, ?_, ?_⟩
      · simp only [DMEnc.putEcc, he, if_true, hpos]; exact hres
      · rw [hl', List.length_set]
      · intro p hp
        apply hkeep
        rw [List.getElem?_set]
        by_cases hpe : base + e = p
        · subst hpe; simp [hpos, h0]
        · simp [hpe, hp]
      · intro t ht
        cases t with
        | zero => simpa using hkeep _ hagree0
        | succ t =>
          have := hnew t (by simpa using ht)
          rw [hstep] at this
          exact this

/-! ## per-row facts about the block structure and the start offsets -/

/-- start offset of block `b` in the error area, as the repaired Go code computes it -/
def startOf (s : Sym) (b : Nat) : Nat := (b + s.blocks - s.nData % s.blocks) % s.blocks

def encCheck (s : Sym) : Bool :=
  decide ((DMEnc.ofSym s).interleavedBlockCount = .ok (s.blocks : Int)) && decide (0 < s.blocks) &&
  decide (s.blocks * s.blkErr = s.nErr) && parityLengths.contains s.blkErr &&
  (List.range s.blocks).all (fun b => decide (startOf s b < s.blocks) &&
    decide ((s.nData + startOf s b) % s.blocks = b)) &&
  (List.range s.blocks).all (fun r => decide (startOf s ((s.nData % s.blocks + r) % s.blocks) = r)) &&
  decide (s.blocks ≤ s.nData)

theorem encCheck_all : table7.all encCheck = true := by decide +kernel

structure EncFacts (s : Sym) : Prop where
  count : (DMEnc.ofSym s).interleavedBlockCount = .ok (s.blocks : Int)
  hB : 0 < s.blocks
  hE : s.blocks * s.blkErr = s.nErr
  hpar : s.blkErr ∈ parityLengths
  start : ∀ b, b < s.blocks → startOf s b < s.blocks ∧ (s.nData + startOf s b) % s.blocks = b
  inv : ∀ r, r < s.blocks → startOf s ((s.nData % s.blocks + r) % s.blocks) = r
  hBn : s.blocks ≤ s.nData

theorem encFacts_of_check {s : Sym} (h : encCheck s = true) : EncFacts s := by
  unfold encCheck at h
  simp only [Bool.and_eq_true, decide_eq_true_eq, List.all_eq_true, List.mem_range, List.contains_iff_mem] at h
  obtain ⟨⟨⟨⟨⟨⟨h1, h2⟩, h3⟩, h4⟩, h5⟩, h6⟩, h7⟩ := h
  exact ⟨h1, h2, h3, h4, h5, h6, h7⟩

/-! ## what the reference sequence holds in the error area -/

theorem codewords_ecc_at (s : Sym) (F : EncFacts s) (d : List Nat) (hd : d.length = s.nData)
    (b t : Nat) (hb : b < s.blocks) (ht : t < s.blkErr) :
    (codewords s d)[s.nData + (startOf s b + t * s.blocks)]? = some ((blockEcc s d b).getD t 0) := by
  obtain ⟨hst, hmod⟩ := F.start b hb
  have hk : startOf s b + t * s.blocks < s.nErr := by
    rw [← F.hE]
    have : (t + 1) * s.blocks ≤ s.blkErr * s.blocks := Nat.mul_le_mul_right _ ht
    rw [Nat.succ_mul] at this
    rw [Nat.mul_comm s.blocks s.blkErr]
    omega
  unfold codewords
  simp only
  rw [List.getElem?_append_right (by omega), hd, Nat.add_sub_cancel_left, List.getElem?_map,
    List.getElem?_range hk]
  simp only [Option.map_some, Option.some.injEq]
  have h1 : (s.nData + (startOf s b + t * s.blocks)) % s.blocks = b := by
    rw [← Nat.add_assoc, Nat.add_mul_mod_self_right]; exact hmod
  have h2 : (startOf s b + t * s.blocks) / s.blocks = t := by
    rw [Nat.add_mul_div_right _ _ F.hB, Nat.div_eq_of_lt hst, Nat.zero_add]
  rw [h1, h2]
  simp [List.getD_eq_getElem?_getD, hb]

theorem ofSym_dataLength_nonneg (s : Sym) (i : Nat) : ¬ (DMEnc.ofSym s).dataLengthForInterleavedBlock i < 0 := by
  unfold DMEnc.SymbolInfo.dataLengthForInterleavedBlock DMEnc.ofSym
  simp only
  split
  · split <;> omega
  · first
      | omega
      | (split <;> omega)

/-! ## the block loop -/

theorem blocksLoop_spec (s : Sym) (F : EncFacts s) (d : List Nat) (hd : d.length = s.nData)
    (hbytes : allBytes d) :
    ∀ (fuel block : Nat) (sb : List Nat), block + fuel = s.blocks →
      sb.length = (codewords s d).length →
      (∀ p, p < s.nData → sb[p]? = (codewords s d)[p]?) →
      (∀ b t, b < block → t < s.blkErr →
        sb[s.nData + (startOf s b + t * s.blocks)]? = (codewords s d)[s.nData + (startOf s b + t * s.blocks)]?) →
      ∃ sb', DMEnc.blocksLoop parityLengths factorTable d (DMEnc.ofSym s) true s.blocks fuel block sb = .ok sb' ∧
        sb'.length = (codewords s d).length ∧
        (∀ p, p < s.nData → sb'[p]? = (codewords s d)[p]?) ∧
        (∀ b t, b < s.blocks → t < s.blkErr →
          sb'[s.nData + (startOf s b + t * s.blocks)]? =
            (codewords s d)[s.nData + (startOf s b + t * s.blocks)]?) := by
  intro fuel
  induction fuel with
  | zero =>
    intro block sb hbf hlen hdata hdone
    have : block = s.blocks := by omega
    subst this
    exact ⟨sb, rfl, hlen, hdata, hdone⟩
  | succ fuel ih =>
    intro block sb hbf hlen hdata hdone
    have hblk : block < s.blocks := by omega
    have hN : (codewords s d).length = s.nData + s.nErr := by
      rw [codewords_length s d hd]; rfl
    -- the block's error codewords
    have htemp : DMEnc.strideFrom s.blocks d block = blockData s d block := rfl
    have hecc : DMEnc.createECCBlock parityLengths factorTable (blockData s d block) s.blkErr =
        .ok (blockEcc s d block) :=
      createECCBlock_eq_ref s.blkErr F.hpar _ (blockData_bytes s d block hbytes)
    have heccl : (blockEcc s d block).length = s.blkErr := eccBlock_length _ _
    obtain ⟨hst, _⟩ := F.start block hblk
    obtain ⟨sb1, hput, hl1, hkeep, hnew⟩ := putEcc_spec (codewords s d) s.blocks (s.blkErr * s.blocks) s.nData
      (blockEcc s d block) (s.blkErr * s.blocks + 1) sb (startOf s block) hlen
      (by rw [hN, ← F.hE, Nat.mul_comm s.blocks]; exact Nat.le_refl _)
      (by
        intro t ht
        rw [heccl] at ht
        have : (t + 1) * s.blocks ≤ s.blkErr * s.blocks := Nat.mul_le_mul_right _ ht
        rw [Nat.succ_mul] at this
        omega)
      (by rw [heccl]; exact Nat.le_add_left _ _)
      (by rw [heccl]; have := Nat.le_mul_of_pos_right s.blkErr F.hB; omega)
      (by
        intro t ht
        rw [heccl] at ht
        rw [codewords_ecc_at s F d hd block t hblk ht, List.getD_eq_getElem?_getD,
          List.getElem?_eq_getElem (by rw [heccl]; exact ht)]
        rfl)
    obtain ⟨sb', hres, hl', hd', hall⟩ := ih (block + 1) sb1 (by omega) (by rw [hl1]; exact hlen)
      (fun p hp => hkeep p (hdata p hp))
      (by
        intro b t hb ht
        by_cases hbb : b = block
        · subst hbb
          exact hnew t (by rw [heccl]; exact ht)
        · exact hkeep _ (hdone b t (by omega) ht))
    refine ⟨sb', ?_, hl', hd', hall⟩
    simp only [DMEnc.blocksLoop, hblk, if_true, ofSym_dataLength_nonneg, if_false, htemp]
    have herr : (DMEnc.ofSym s).errorLengthForInterleavedBlock (block + 1) = s.blkErr := rfl
    have hcap : (DMEnc.ofSym s).dataCapacity = s.nData := rfl
    simp only [herr, hcap, hecc]
    have hstart : (block + s.blocks - s.nData % s.blocks) % s.blocks = startOf s block := rfl
    rw [hstart, hput]
    exact hres

theorem everyNthAux_one : ∀ (xs : List Nat), everyNthAux 1 0 xs = xs
  | [] => rfl
  | x :: xs => by simp [everyNthAux, everyNthAux_one xs]

theorem map_getD_range (l : List Nat) : (List.range l.length).map (fun k => l.getD k 0) = l := by
  apply List.ext_getElem
  · simp
  · intro i h1 h2
    simp [List.getD_eq_getElem?_getD, h2]

/-- The modelled ErrorCorrection_EncodeECC200 (as coded, with the repaired start rule) returns the reference
    codeword sequence — for a row whose start offsets pass `encCheck`, and every byte vector of its capacity. -/
theorem encodeECC200_eq_codewords (s : Sym) (hc : encCheck s = true) (d : List Nat) (hd : d.length = s.nData)
    (hbytes : allBytes d) :
    DMEnc.encodeECC200 parityLengths factorTable d (DMEnc.ofSym s) = .ok (codewords s d) := by
  have F := encFacts_of_check hc
  unfold DMEnc.encodeECC200
  have hcap : (DMEnc.ofSym s).dataCapacity = s.nData := rfl
  have herrc : (DMEnc.ofSym s).errorCodewords = s.nErr := rfl
  simp only [hcap, hd, ne_eq, not_true_eq_false, if_false, F.count, herrc]
  by_cases h1 : (s.blocks : Int) = 1
  · -- a single block: data ++ parity
    have hB1 : s.blocks = 1 := by omega
    simp only [h1, if_true]
    have hE1 : s.blkErr = s.nErr := by have := F.hE; rw [hB1] at this; omega
    have hbd : blockData s d 0 = d := by
      unfold blockData everyNth
      rw [hB1, List.drop_zero, everyNthAux_one]
    have hecc := createECCBlock_eq_ref s.blkErr F.hpar d hbytes
    rw [← hE1, hecc]
    congr 1
    unfold codewords
    simp only
    congr 1
    have hl : (eccBlock s.blkErr d).length = s.nErr := by rw [eccBlock_length, hE1]
    have hmap : (List.range s.nErr).map (fun k =>
        (((List.range s.blocks).map (blockEcc s d)).getD ((s.nData + k) % s.blocks) []).getD (k / s.blocks) 0) =
        (List.range (eccBlock s.blkErr d).length).map (fun k => (eccBlock s.blkErr d).getD k 0) := by
      rw [hl]
      apply List.map_congr_left
      intro k _
      rw [hB1]
      simp [Nat.mod_one, blockEcc, hbd]
    rw [hmap, map_getD_range]
  · simp only [h1, if_false]
    have hneg : ¬ (s.blocks : Int) < 0 := by omega
    simp only [hneg, if_false, Int.toNat_natCast]
    obtain ⟨sb', hres, hl', hdat, hall⟩ := blocksLoop_spec s F d hd hbytes s.blocks 0
      (d ++ List.replicate s.nErr 0) (by omega)
      (by rw [codewords_length s d hd]; simp [hd, Sym.total])
      (by
        intro p hp
        unfold codewords
        simp only
        rw [List.getElem?_append_left (by omega), List.getElem?_append_left (by omega)])
      (by intro b t hb; omega)
    rw [hres]
    congr 1
    apply List.ext_getElem?
    intro p
    by_cases hp : p < s.nData
    · exact hdat p hp
    · by_cases hp2 : p < s.nData + s.nErr
      · -- an error position: p = nData + k, k = start_b + t·B with b = (nData + k) mod B
        obtain ⟨k, rfl⟩ : ∃ k, p = s.nData + k := ⟨p - s.nData, by omega⟩
        have hk : k < s.nErr := by omega
        have hr : k % s.blocks < s.blocks := Nat.mod_lt _ F.hB
        have hinv := F.inv (k % s.blocks) hr
        have hb : (s.nData % s.blocks + k % s.blocks) % s.blocks < s.blocks := Nat.mod_lt _ F.hB
        have ht : k / s.blocks < s.blkErr := by
          apply Nat.div_lt_of_lt_mul
          rw [F.hE]; exact hk
        have := hall _ (k / s.blocks) hb ht
        rw [hinv] at this
        have hkk : k % s.blocks + k / s.blocks * s.blocks = k := by
          rw [Nat.mul_comm]; exact Nat.mod_add_div k s.blocks
        rw [hkk] at this
        exact this
      · rw [List.getElem?_eq_none (by rw [hl', codewords_length s d hd]; simp [Sym.total]; omega),
          List.getElem?_eq_none (by rw [codewords_length s d hd]; simp [Sym.total]; omega)]

end Gzx.DMProofs
