/-
  C08: the decoder's extractDataRegion undoes the reference finder/clock framing — per-size kernel evaluation of the
  coordinate map (`extractCheck`) + generic lemmas about reading a symbol built by `DMRef.symbolOfMapping`.
-/
import Gzx.Ref.DM
import Gzx.Model.DMDecoder
import Gzx.Proofs.DM
import Gzx.Proofs.DMFinderChk
namespace Gzx.DMProofs
open Gzx Gzx.DMRef

theorem symbolModule_of_cell (s : Sym) (m : Array Bool) (r c i : Nat) (h : symbolCell s r c = some i) :
    symbolModule s m r c = m.getD i false := by
  unfold symbolCell at h
  unfold symbolModule
  simp only at h ⊢
  split at h
  · cases h
  · rename_i hn
    simp only [not_or] at hn
    obtain ⟨h1, h2, h3, h4⟩ := hn
    simp only [h1, h2, h3, h4, if_false]
    simp only [Option.some.injEq] at h
    rw [h]

/-- the reference symbol as the decoder sees it -/
def symbolGrid (s : Sym) (m : Array Bool) : DMDec.BitGrid :=
  ⟨s.cols, s.rows, (symbolOfMapping s m).flatten.toArray⟩

theorem flatten_getElem?_uniform {α : Type} (E : Nat) : ∀ (L : List (List α)) (b t : Nat),
    (∀ l ∈ L, l.length = E) → b < L.length → t < E → L.flatten[b * E + t]? = (L[b]?).bind (·[t]?) := by
  intro L
  induction L with
  | nil => intro b t _ hb; simp at hb
  | cons l L ih =>
    intro b t hu hb ht
    have hl : l.length = E := hu l List.mem_cons_self
    cases b with
    | zero =>
      simp only [Nat.zero_mul, Nat.zero_add, List.flatten_cons, List.getElem?_cons_zero, Option.bind_some]
      rw [List.getElem?_append_left (by omega)]
    | succ b =>
      simp only [List.flatten_cons, List.getElem?_cons_succ]
      have : (b + 1) * E + t = l.length + (b * E + t) := by rw [Nat.succ_mul, hl]; omega
      rw [this, List.getElem?_append_right (by omega)]
      have h2 : l.length + (b * E + t) - l.length = b * E + t := by omega
      rw [h2]
      exact ih b t (fun l' hl' => hu l' (List.mem_cons_of_mem _ hl')) (by simpa using hb) ht

theorem symbolGrid_get (s : Sym) (m : Array Bool) (x y : Nat) (hx : x < s.cols) (hy : y < s.rows) :
    (symbolGrid s m).get x y = .ok (symbolModule s m y x) := by
  unfold DMDec.BitGrid.get symbolGrid
  simp only [hx, hy, and_self, if_true, List.getElem?_toArray]
  unfold symbolOfMapping
  rw [flatten_getElem?_uniform s.cols _ y x (by
    intro l hl
    obtain ⟨r, _, rfl⟩ := List.mem_map.1 hl
    simp) (by simpa using hy) hx]
  simp [List.getElem?_map, List.getElem?_range hy, List.getElem?_range hx]

/-- the decoder front half (dimension check, version by dimensions, extractDataRegion) applied to the reference
    symbol of a mapping matrix `m` returns the row's version and `m` itself -/
theorem parser_of_symbolGrid (k : Nat) (s : Sym) (hc : extractCheck k s = true) (m : Array Bool)
    (hm : m.size = s.mapRows * s.mapCols) :
    DMDec.newBitMatrixParser DMDec.versions (symbolGrid s m) =
      .ok (DMDec.ofSym k s, ⟨s.mapCols, s.mapRows, m⟩) := by
  unfold extractCheck at hc
  simp only [Bool.and_eq_true, decide_eq_true_eq] at hc
  obtain ⟨⟨⟨⟨hv, h8⟩, h144⟩, heven⟩, hex⟩ := hc
  unfold DMDec.newBitMatrixParser
  have hh : (symbolGrid s m).height = s.rows := rfl
  have hw : (symbolGrid s m).width = s.cols := rfl
  have hdim : ¬ (s.rows < 8 ∨ s.rows > 144 ∨ s.rows % 2 ≠ 0) := by omega
  simp only [hh, hw]
  simp only [hdim, if_false, hv]
  unfold DMDec.extractDataRegion
  have hrows : (DMDec.ofSym k s).symbolSizeRows = s.rows := rfl
  simp only [hh, hrows, ne_eq, not_true_eq_false, if_false]
  cases hco : DMDec.extractCoords (DMDec.ofSym k s) with
  | error e => simp [hco] at hex
  | ok r =>
    obtain ⟨w, h, coords⟩ := r
    simp only [hco, Bool.and_eq_true, beq_iff_eq, List.all_eq_true, decide_eq_true_eq] at hex
    obtain ⟨⟨⟨hw', hh'⟩, hin⟩, hcells⟩ := hex
    simp only
    have hget : ∀ xy ∈ coords, (symbolGrid s m).get xy.1 xy.2 =
        .ok (((symbolCell s xy.2 xy.1).map (fun i => m.getD i false)).getD false) := by
      intro xy hxy
      obtain ⟨hx, hy⟩ := hin xy hxy
      rw [symbolGrid_get s m xy.1 xy.2 hx hy]
      have hsome : ∃ i, symbolCell s xy.2 xy.1 = some i := by
        have hmem : symbolCell s xy.2 xy.1 ∈ coords.map (fun xy => symbolCell s xy.2 xy.1) :=
          List.mem_map.2 ⟨xy, hxy, rfl⟩
        rw [hcells] at hmem
        obtain ⟨i, _, hi⟩ := List.mem_map.1 hmem
        exact ⟨i, hi.symm⟩
      obtain ⟨i, hi⟩ := hsome
      rw [symbolModule_of_cell s m _ _ i hi, hi]
      rfl
    rw [mapM_ok _ _ _ hget]
    simp only
    have hbits : coords.map (fun xy => ((symbolCell s xy.2 xy.1).map (fun i => m.getD i false)).getD false) =
        m.toList := by
      have h1 : coords.map (fun xy => ((symbolCell s xy.2 xy.1).map (fun i => m.getD i false)).getD false) =
          (coords.map (fun xy => symbolCell s xy.2 xy.1)).map
            (fun o => (o.map (fun i => m.getD i false)).getD false) := by
        rw [List.map_map]; rfl
      rw [h1, hcells, List.map_map]
      apply List.ext_getElem
      · simp [hm]
      · intro i h1 h2
        simp only [List.getElem_map, List.getElem_range, Function.comp_apply, Option.map_some,
          Option.getD_some]
        have hi : i < m.size := by simpa using h2
        simp [Array.getD, hi]
    rw [hbits, hw', hh']

end Gzx.DMProofs
