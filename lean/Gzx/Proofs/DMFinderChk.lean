/-
  C08: per-size kernel evaluation of the decoder's extractDataRegion coordinate map against the reference framing
  (kept apart from the lemmas that use it: the evaluation takes a few minutes of kernel time).
-/
import Gzx.Ref.DM
import Gzx.Model.DMDecoder
namespace Gzx.DMProofs
open Gzx Gzx.DMRef

/-- per-size kernel evaluation: version lookup by dimensions, size of the extracted matrix, and the coordinate
    map of extractDataRegion against the reference framing (`symbolCell`) -/
def extractCheck (k : Nat) (s : Sym) : Bool :=
  decide (DMDec.getVersionForDimensions DMDec.versions s.rows s.cols = .ok (DMDec.ofSym k s)) &&
  decide (8 ≤ s.rows) && decide (s.rows ≤ 144) && decide (s.rows % 2 = 0) &&
  (match DMDec.extractCoords (DMDec.ofSym k s) with
   | .ok (w, h, coords) =>
     w == s.mapCols && h == s.mapRows &&
     coords.all (fun xy => decide (xy.1 < s.cols) && decide (xy.2 < s.rows)) &&
     coords.map (fun xy => symbolCell s xy.2 xy.1) == (List.range (s.mapRows * s.mapCols)).map some
   | .error _ => false)

set_option maxRecDepth 10000000 in
theorem extractCheck_all : (table7.zipIdx.all (fun p => extractCheck (p.2 + 1) p.1)) = true := by decide +kernel

end Gzx.DMProofs
