/-
  C02 / wp dmenc, item (c) — `dm_fits_encodes`, the part with a closed form: as long as the look-ahead keeps ASCII
  encodation (always the case for all-digit messages), `EncodeHighLevel` writes the ASCII encodation `asciiCws msg`
  (digit pairs, upper shift for extended characters) and succeeds exactly when an admissible symbol holds it.
-/
import Gzx.Proofs.DMTermDispatch
namespace Gzx.DMHighLevel

/-- one character in ASCII encodation -/
def asciiOne (c : Nat) : List Nat := if isExtended c then [235, c - 128 + 1] else [c + 1]

/-- the ASCII encodation of a message: two digits per codeword where two digits meet -/
def asciiCws : List Nat → List Nat
  | [] => []
  | [c] => asciiOne c
  | d1 :: d2 :: r =>
    if isDigit d1 && isDigit d2 then ((d1 - 48) * 10 + (d2 - 48) + 130) :: asciiCws r
    else asciiOne d1 ++ asciiCws (d2 :: r)

theorem digitRun_lt_two {d1 d2 : Nat} {r : List Nat} (h : ¬ digitRun (d1 :: d2 :: r) ≥ 2) :
    (isDigit d1 && isDigit d2) = false := by
  simp only [digitRun] at h
  cases h1 : isDigit d1 <;> cases h2 : isDigit d2 <;> simp_all

theorem asciiCws_single_step (ch : Nat) (rest : List Nat) (h : ¬ digitRun (ch :: rest) ≥ 2) :
    asciiCws (ch :: rest) = asciiOne ch ++ asciiCws rest := by
  cases rest with
  | nil => simp [asciiCws]
  | cons d2 r => simp only [asciiCws, digitRun_lt_two h, Bool.false_eq_true, if_false]

theorem match_newEnc_none {β : Type} (cc : Ctx) (A : Nat → β) (B : β) (h : cc.newEnc = none) :
    (match cc.newEnc with
      | some m => A m
      | none => B) = B := by rw [h]

theorem ctx_newEnc_none (c : Ctx) (h : c.newEnc = none) : ({ c with newEnc := none } : Ctx) = c := by
  cases c; simp only at h; subst h; rfl

/-- the dispatch loop while the look-ahead stays in ASCII (message without macro envelope) -/
theorem ascii_run {syms : List SymbolInfo} {la : LookAhead} :
    ∀ (n : Nat) (c : Ctx), c.skipAtEnd = 0 → c.newEnc = none → c.pos ≤ c.msg.length → c.msg.length - c.pos ≤ n →
      (∀ p, c.pos ≤ p → p < c.msg.length → ¬ digitRun (c.msg.drop p) ≥ 2 → la c.msg p ASCII = ASCII) →
      ∀ fuel, 2 * (c.msg.length - c.pos) + 1 < fuel →
        dispatch syms la fuel ASCII c =
          .ok ({ c with cw := c.cw ++ asciiCws (c.msg.drop c.pos), pos := c.msg.length, newEnc := none }, ASCII) := by
  intro n
  induction n using Nat.strongRecOn with
  | _ n ih =>
    intro c hskip hnew hle hn hla fuel hfuel
    cases fuel with
    | zero => omega
    | succ f =>
      simp only [dispatch]
      by_cases hm : c.hasMore = true
      · simp only [hm, Bool.not_true, Bool.false_eq_true, if_false]
        have hlt : c.pos < c.msg.length := by
          have := (hasMore_iff' c).mp hm; simp only [Ctx.total, hskip] at this; omega
        rw [encodeMode_ascii]
        unfold asciiEncode
        simp only
        by_cases hd : digitRun (c.msg.drop c.pos) ≥ 2
        · simp only [hd, if_true]
          obtain ⟨d1, d2, r, hl, hd1, hd2⟩ := digitRun_two hd
          obtain ⟨g1, _, dr1, l1⟩ := drop_cons_facts hl
          obtain ⟨g2, _, dr2, l2⟩ := drop_cons_facts dr1
          rw [g1, g2]
          simp only [bind, Except.bind]
          have hn1 : ({ c.write ((d1 - 48) * 10 + (d2 - 48) + 130) with pos := c.pos + 2 } : Ctx).newEnc = none := hnew
          split
          · rename_i m heq
            have : (c.write ((d1 - 48) * 10 + (d2 - 48) + 130)).newEnc = c.newEnc := rfl
            rw [this, hnew] at heq; cases heq
          have hlen2 : c.pos + 2 ≤ c.msg.length := by omega
          have := ih (n - 2) (by omega) ({ c.write ((d1 - 48) * 10 + (d2 - 48) + 130) with pos := c.pos + 2 } : Ctx)
            hskip hnew hlen2 (by show c.msg.length - (c.pos + 2) ≤ n - 2; omega)
            (fun p hp1 hp2 hp3 => hla p (by show c.pos ≤ p; have : c.pos + 2 ≤ p := hp1; omega) hp2 hp3) f
            (by show 2 * (c.msg.length - (c.pos + 2)) + 1 < f; omega)
          rw [this]
          have hdd : c.msg.drop (c.pos + 2) = r := by
            have : c.pos + 1 + 1 = c.pos + 2 := by omega
            rw [← this]; exact dr2
          simp only [Ctx.write, hdd, hl, asciiCws, hd1, hd2, Bool.and_self, if_true, List.append_assoc,
            List.singleton_append]
        · simp only [hd, if_false]
          obtain ⟨ch, hc, hget⟩ := hasMore_cur' hm
          rw [hc]
          simp only [bind, Except.bind]
          have hlaA := hla c.pos (Nat.le_refl _) hlt hd
          rw [hlaA]
          simp only [ne_eq, not_true_eq_false, if_false]
          have hdrop := drop_eq_cons_of_getElem? hget
          have hcws : asciiCws (c.msg.drop c.pos) = asciiOne ch ++ asciiCws (c.msg.drop (c.pos + 1)) := by
            rw [hdrop]; exact asciiCws_single_step ch _ (by rw [← hdrop]; exact hd)
          have step : ∀ (c1 : Ctx) (x : List Nat), c1 = ({ c with cw := c.cw ++ x, pos := c.pos + 1 } : Ctx) →
              x = asciiOne ch →
              (match c1.newEnc with
                | some m => dispatch syms la f m { c1 with newEnc := none }
                | none => dispatch syms la f ASCII c1) =
              .ok ({ c with cw := c.cw ++ asciiCws (c.msg.drop c.pos), pos := c.msg.length, newEnc := none }, ASCII) := by
            intro c1 x e ex
            subst e
            have hn1 : ({ c with cw := c.cw ++ x, pos := c.pos + 1 } : Ctx).newEnc = none := hnew
            split
            · rename_i m heq
              rw [hn1] at heq; cases heq
            have := ih (n - 1) (by omega) ({ c with cw := c.cw ++ x, pos := c.pos + 1 } : Ctx) hskip hnew
              (by show c.pos + 1 ≤ c.msg.length; omega) (by show c.msg.length - (c.pos + 1) ≤ n - 1; omega)
              (fun p hp1 hp2 hp3 => hla p (by show c.pos ≤ p; have : c.pos + 1 ≤ p := hp1; omega) hp2 hp3) f
              (by show 2 * (c.msg.length - (c.pos + 1)) + 1 < f; omega)
            rw [this, hcws, ex]
            simp only [List.append_assoc]
          by_cases hext : isExtended ch = true
          · simp only [hext, if_true]
            exact step ({ (c.write 235).write (ch - 128 + 1) with pos := c.pos + 1 } : Ctx) [235, ch - 128 + 1]
              (by simp [Ctx.write]) (by simp [asciiOne, hext])
          · simp only [hext, if_false]
            exact step ({ c.write (ch + 1) with pos := c.pos + 1 } : Ctx) [ch + 1] (by simp [Ctx.write]) (by simp [asciiOne, hext])
      · simp only [Bool.not_eq_true] at hm
        simp only [hm, Bool.not_false, if_true]
        have hpe : c.pos = c.msg.length := by
          have := (hasMore_false_iff' c).mp hm; simp only [Ctx.total, hskip] at this; omega
        have : c.msg.drop c.pos = [] := by rw [hpe]; exact List.drop_length
        rw [this]
        simp only [asciiCws, List.append_nil, ← hpe]
        have := ctx_newEnc_none c hnew
        cases c; simp only at hnew; subst hnew; rfl

/-- `encodeHL` on a message without macro envelope while the look-ahead stays in ASCII: closed form -/
theorem encodeHL_ascii (syms : List SymbolInfo) (la : LookAhead) (msg : List Nat) (cfg : Cfg)
    (hplain : initCtx msg cfg = { msg := msg, cfg := cfg })
    (hla : ∀ p, p < msg.length → ¬ digitRun (msg.drop p) ≥ 2 → la msg p ASCII = ASCII) :
    encodeHL syms la msg cfg =
      match lookup syms cfg (asciiCws msg).length with
      | some s => .ok (asciiCws msg ++ padding (asciiCws msg).length s.cap)
      | none => .error .writer := by
  unfold encodeHL
  rw [hplain]
  have hrun := ascii_run (syms := syms) (la := la) msg.length ({ msg := msg, cfg := cfg } : Ctx) rfl rfl (Nat.zero_le _)
    (by simp) (fun p _ hp2 hp3 => hla p hp2 hp3) (dispatchFuel msg) (by simp [dispatchFuel]; omega)
  rw [hrun]
  simp only [bind, Except.bind, List.drop_zero, List.nil_append, Ctx.count, Ctx.update]
  cases hl : lookup syms cfg (asciiCws msg).length with
  | none => rfl
  | some s =>
    simp only [Ctx.capacity, Ctx.write]
    simp

theorem asciiCws_digits_length : ∀ (n : Nat) (l : List Nat), l.length ≤ n → (∀ x ∈ l, isDigit x = true) →
    (asciiCws l).length = (l.length + 1) / 2 := by
  intro n
  induction n using Nat.strongRecOn with
  | _ n ih =>
    intro l hl hd
    match l, hl, hd with
    | [], _, _ => rfl
    | [c], _, hd =>
      have : isExtended c = false := by
        have := hd c (by simp)
        simp only [isDigit, Bool.and_eq_true, decide_eq_true_eq] at this
        simp [isExtended]; omega
      simp [asciiCws, asciiOne, this]
    | d1 :: d2 :: r, hl, hd =>
      have h1 := hd d1 (by simp)
      have h2 := hd d2 (by simp)
      simp only [asciiCws, h1, h2, Bool.and_self, if_true, List.length_cons]
      rw [ih (n - 2) (by simp at hl; omega) r (by simp at hl; omega) (fun x hx => hd x (by simp [hx]))]
      omega

theorem initCtx_plain_of_digit (msg : List Nat) (cfg : Cfg) (d : Nat) (r : List Nat) (hm : msg = d :: r)
    (hd : isDigit d = true) : initCtx msg cfg = { msg := msg, cfg := cfg } := by
  have hne : (91 == d) = false := by
    simp only [isDigit, Bool.and_eq_true, decide_eq_true_eq] at hd
    simp; omega
  unfold initCtx
  have h5 : macro05.isPrefixOf msg = false := by
    rw [hm]; simp [macro05, macroHeader, List.isPrefixOf, hne]
  have h6 : macro06.isPrefixOf msg = false := by
    rw [hm]; simp [macro06, macroHeader, List.isPrefixOf, hne]
  simp [h5, h6]

/-- all-digit messages under a float-like look-ahead: the look-ahead is consulted for the last digit of an odd
    number only, and stays in ASCII there -/
theorem digits_la {la : LookAhead} (hla : LaFloatLike la) (msg : List Nat) (hd : ∀ x ∈ msg, isDigit x = true) :
    ∀ p, p < msg.length → ¬ digitRun (msg.drop p) ≥ 2 → la msg p ASCII = ASCII := by
  intro p hp hrun
  have hlast : p + 1 = msg.length := by
    by_cases h : p + 1 < msg.length
    · exfalso; apply hrun
      rw [drop_succ_of_lt hp, drop_succ_of_lt h]
      have h1 := hd msg[p] (List.getElem_mem hp)
      have h2 := hd msg[p + 1] (List.getElem_mem h)
      simp only [digitRun, h1, h2, if_true]
      omega
    · omega
  obtain ⟨ρ, hρ⟩ := hla msg p ASCII
  rw [hρ]
  exact laExactR_tail_ascii ρ msg msg.length (Or.inl rfl) p hlast

end Gzx.DMHighLevel
