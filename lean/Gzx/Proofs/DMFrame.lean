/-
  C08: the encoder model's encodeLowLevel (row loop of datamatrix_writer.go: top clock row, left solid / right
  alternating modules around each run of region columns, bottom solid row) against the reference framing
  (`DMRef.symbolModule`: per-module definition).  Both only arrange the mapping-matrix cells and two constants, so
  they are compared on LABELS (0 = light, 1 = dark, 2+i = cell i) by kernel evaluation per size (`frameCheck`),
  and the result is transferred to every mapping matrix by naturality.
-/
import Gzx.Ref.DM
import Gzx.Model.DMEncoder
namespace Gzx.DMProofs
open Gzx Gzx.DMRef

/-- `DMEnc.lowLevelRows` over an arbitrary module type -/
def lowLevelRowsG {α : Type} (s : DMEnc.SymbolInfo) (cell : Nat → Nat → α) (dark light : α) (y : Nat) :
    List (List α) :=
  let top : List (List α) :=
    if y % s.matrixHeight = 0 then [(List.range s.symbolWidth).map (fun x => if x % 2 == 0 then dark else light)]
    else []
  let body : List α := (List.range s.symbolDataWidth).flatMap (fun x =>
    (if x % s.matrixWidth = 0 then [dark] else []) ++ [cell x y] ++
    (if x % s.matrixWidth = s.matrixWidth - 1 then [if y % 2 == 0 then dark else light] else []))
  let bottom : List (List α) :=
    if y % s.matrixHeight = s.matrixHeight - 1 then [List.replicate s.symbolWidth dark] else []
  top ++ [body] ++ bottom

theorem lowLevelRows_eq_G (s : DMEnc.SymbolInfo) (getBit : Nat → Nat → Bool) (y : Nat) :
    DMEnc.lowLevelRows s getBit y = lowLevelRowsG s getBit true false y := by
  unfold DMEnc.lowLevelRows lowLevelRowsG
  have hb : ∀ b : Bool, (if b = true then true else false) = b := by intro b; cases b <;> rfl
  simp only [hb]

theorem lowLevelRowsG_map {α β : Type} (f : α → β) (s : DMEnc.SymbolInfo) (cell : Nat → Nat → α)
    (dark light : α) (y : Nat) :
    (lowLevelRowsG s cell dark light y).map (List.map f) =
      lowLevelRowsG s (fun x y => f (cell x y)) (f dark) (f light) y := by
  unfold lowLevelRowsG
  simp only [List.map_append, List.map_cons, List.map_nil, List.map_flatMap, apply_ite (List.map (List.map f)),
    apply_ite (List.map f), apply_ite f, List.map_map, List.map_replicate, Function.comp_def]

/-- label of symbol module (r, c): 0 light, 1 dark, 2 + i = cell i of the mapping matrix -/
def symbolLabel (s : Sym) (r c : Nat) : Nat :=
  let rr := r % (s.regRows + 2)
  let cc := c % (s.regCols + 2)
  if cc = 0 then 1
  else if rr = s.regRows + 1 then 1
  else if rr = 0 then (if cc % 2 == 0 then 1 else 0)
  else if cc = s.regCols + 1 then (if rr % 2 == 1 then 1 else 0)
  else 2 + ((r / (s.regRows + 2) * s.regRows + (rr - 1)) * s.mapCols + (c / (s.regCols + 2) * s.regCols + (cc - 1)))

/-- value of a label in a mapping matrix -/
def labelVal (m : Array Bool) (l : Nat) : Bool :=
  if l = 0 then false else if l = 1 then true else m.getD (l - 2) false

theorem symbolModule_eq_label (s : Sym) (m : Array Bool) (r c : Nat) :
    symbolModule s m r c = labelVal m (symbolLabel s r c) := by
  unfold symbolModule symbolLabel labelVal
  simp only
  split
  · simp
  · split
    · simp
    · split
      · split <;> simp_all
      · split
        · split <;> simp_all
        · have h : ∀ i : Nat, ¬ (2 + i = 0) ∧ ¬ (2 + i = 1) ∧ 2 + i - 2 = i := by intro i; omega
          simp [h]

/-- per-size kernel evaluation on labels -/
def frameCheck (s : Sym) : Bool :=
  let si := DMEnc.ofSym s
  decide (0 < si.matrixHeight) && decide (0 < si.matrixWidth) &&
  decide ((List.range si.symbolDataHeight).flatMap
      (lowLevelRowsG si (fun x y => 2 + (y * si.symbolDataWidth + x)) 1 0) =
    (List.range s.rows).map (fun r => (List.range s.cols).map (symbolLabel s r)))

/-- the modelled encodeLowLevel (0x0 request) of the mapping matrix `m` is the reference symbol of `m` -/
theorem encodeLowLevel_eq_reference (s : Sym) (hc : frameCheck s = true) (m : Array Bool) :
    DMEnc.encodeLowLevel (DMEnc.ofSym s)
        (fun x y => m.getD (y * (DMEnc.ofSym s).symbolDataWidth + x) false) =
      .ok (symbolOfMapping s m) := by
  unfold frameCheck at hc
  simp only [Bool.and_eq_true, decide_eq_true_eq] at hc
  obtain ⟨⟨h1, h2⟩, h3⟩ := hc
  unfold DMEnc.encodeLowLevel
  have hnz : ¬ ((DMEnc.ofSym s).symbolDataHeight > 0 ∧ ((DMEnc.ofSym s).matrixHeight = 0 ∨
      ((DMEnc.ofSym s).symbolDataWidth > 0 ∧ (DMEnc.ofSym s).matrixWidth = 0))) := by omega
  rw [if_neg hnz]
  congr 1
  have hrows : ∀ y, DMEnc.lowLevelRows (DMEnc.ofSym s)
        (fun x y => m.getD (y * (DMEnc.ofSym s).symbolDataWidth + x) false) y =
      (lowLevelRowsG (DMEnc.ofSym s) (fun x y => 2 + (y * (DMEnc.ofSym s).symbolDataWidth + x)) 1 0 y).map
        (List.map (labelVal m)) := by
    intro y
    rw [lowLevelRows_eq_G, lowLevelRowsG_map]
    have hv : ∀ i : Nat, labelVal m (2 + i) = m.getD i false := by
      intro i
      unfold labelVal
      have : ¬ (2 + i = 0) ∧ ¬ (2 + i = 1) ∧ 2 + i - 2 = i := by omega
      simp [this]
    simp only [hv]
    rfl
  have hfun : DMEnc.lowLevelRows (DMEnc.ofSym s)
        (fun x y => m.getD (y * (DMEnc.ofSym s).symbolDataWidth + x) false) =
      fun y => (lowLevelRowsG (DMEnc.ofSym s) (fun x y => 2 + (y * (DMEnc.ofSym s).symbolDataWidth + x)) 1 0 y).map
        (List.map (labelVal m)) := funext hrows
  rw [hfun, ← List.map_flatMap, h3]
  unfold symbolOfMapping
  simp only [List.map_map, Function.comp_def, symbolModule_eq_label]

end Gzx.DMProofs
