/-
  C08: per-size kernel evaluation of `Gzx.DMProofs.frameCheck` (encoder model row loop vs reference framing, on labels).
  Generated list; split over several files so that lake checks them in parallel.
-/
import Gzx.Proofs.DMFrame
namespace Gzx.DMProofs
open Gzx.DMRef

set_option maxRecDepth 10000000 in
/-- symbol 144x144 = row 23 of Table 7 -/
theorem frame_144x144 : frameCheck (table7.getD 23 default) = true := by decide +kernel

set_option maxRecDepth 10000000 in
/-- symbol 88x88 = row 18 of Table 7 -/
theorem frame_88x88 : frameCheck (table7.getD 18 default) = true := by decide +kernel

end Gzx.DMProofs
