/-
  C08: per-size kernel evaluation of `Gzx.DMProofs.frameCheck` (encoder model row loop vs reference framing, on labels).
  Generated list; split over several files so that lake checks them in parallel.
-/
import Gzx.Proofs.DMFrame
namespace Gzx.DMProofs
open Gzx.DMRef

set_option maxRecDepth 10000000 in
/-- symbol 132x132 = row 22 of Table 7 -/
theorem frame_132x132 : frameCheck (table7.getD 22 default) = true := by decide +kernel

set_option maxRecDepth 10000000 in
/-- symbol 96x96 = row 19 of Table 7 -/
theorem frame_96x96 : frameCheck (table7.getD 19 default) = true := by decide +kernel

end Gzx.DMProofs
