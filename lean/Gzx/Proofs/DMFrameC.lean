/-
  C08: per-size kernel evaluation of `Gzx.DMProofs.frameCheck` (encoder model row loop vs reference framing, on labels).
  Generated list; split over several files so that lake checks them in parallel.
-/
import Gzx.Proofs.DMFrame
namespace Gzx.DMProofs
open Gzx.DMRef

set_option maxRecDepth 10000000 in
/-- symbol 120x120 = row 21 of Table 7 -/
theorem frame_120x120 : frameCheck (table7.getD 21 default) = true := by decide +kernel

set_option maxRecDepth 10000000 in
/-- symbol 104x104 = row 20 of Table 7 -/
theorem frame_104x104 : frameCheck (table7.getD 20 default) = true := by decide +kernel

set_option maxRecDepth 10000000 in
/-- symbol 80x80 = row 17 of Table 7 -/
theorem frame_80x80 : frameCheck (table7.getD 17 default) = true := by decide +kernel

end Gzx.DMProofs
