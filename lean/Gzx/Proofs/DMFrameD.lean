/-
  C08: per-size kernel evaluation of `Gzx.DMProofs.frameCheck` (encoder model row loop vs reference framing, on labels).
  Generated list; split over several files so that lake checks them in parallel.
-/
import Gzx.Proofs.DMFrame
namespace Gzx.DMProofs
open Gzx.DMRef

set_option maxRecDepth 10000000 in
/-- symbol 72x72 = row 16 of Table 7 -/
theorem frame_72x72 : frameCheck (table7.getD 16 default) = true := by decide +kernel

set_option maxRecDepth 10000000 in
/-- symbol 64x64 = row 15 of Table 7 -/
theorem frame_64x64 : frameCheck (table7.getD 15 default) = true := by decide +kernel

set_option maxRecDepth 10000000 in
/-- symbol 52x52 = row 14 of Table 7 -/
theorem frame_52x52 : frameCheck (table7.getD 14 default) = true := by decide +kernel

set_option maxRecDepth 10000000 in
/-- symbol 48x48 = row 13 of Table 7 -/
theorem frame_48x48 : frameCheck (table7.getD 13 default) = true := by decide +kernel

set_option maxRecDepth 10000000 in
/-- symbol 44x44 = row 12 of Table 7 -/
theorem frame_44x44 : frameCheck (table7.getD 12 default) = true := by decide +kernel

set_option maxRecDepth 10000000 in
/-- symbol 40x40 = row 11 of Table 7 -/
theorem frame_40x40 : frameCheck (table7.getD 11 default) = true := by decide +kernel

set_option maxRecDepth 10000000 in
/-- symbol 36x36 = row 10 of Table 7 -/
theorem frame_36x36 : frameCheck (table7.getD 10 default) = true := by decide +kernel

set_option maxRecDepth 10000000 in
/-- symbol 32x32 = row 9 of Table 7 -/
theorem frame_32x32 : frameCheck (table7.getD 9 default) = true := by decide +kernel

set_option maxRecDepth 10000000 in
/-- symbol 26x26 = row 8 of Table 7 -/
theorem frame_26x26 : frameCheck (table7.getD 8 default) = true := by decide +kernel

set_option maxRecDepth 10000000 in
/-- symbol 24x24 = row 7 of Table 7 -/
theorem frame_24x24 : frameCheck (table7.getD 7 default) = true := by decide +kernel

set_option maxRecDepth 10000000 in
/-- symbol 22x22 = row 6 of Table 7 -/
theorem frame_22x22 : frameCheck (table7.getD 6 default) = true := by decide +kernel

set_option maxRecDepth 10000000 in
/-- symbol 20x20 = row 5 of Table 7 -/
theorem frame_20x20 : frameCheck (table7.getD 5 default) = true := by decide +kernel

set_option maxRecDepth 10000000 in
/-- symbol 18x18 = row 4 of Table 7 -/
theorem frame_18x18 : frameCheck (table7.getD 4 default) = true := by decide +kernel

set_option maxRecDepth 10000000 in
/-- symbol 16x16 = row 3 of Table 7 -/
theorem frame_16x16 : frameCheck (table7.getD 3 default) = true := by decide +kernel

set_option maxRecDepth 10000000 in
/-- symbol 14x14 = row 2 of Table 7 -/
theorem frame_14x14 : frameCheck (table7.getD 2 default) = true := by decide +kernel

set_option maxRecDepth 10000000 in
/-- symbol 12x12 = row 1 of Table 7 -/
theorem frame_12x12 : frameCheck (table7.getD 1 default) = true := by decide +kernel

set_option maxRecDepth 10000000 in
/-- symbol 10x10 = row 0 of Table 7 -/
theorem frame_10x10 : frameCheck (table7.getD 0 default) = true := by decide +kernel

set_option maxRecDepth 10000000 in
/-- symbol 8x18 = row 24 of Table 7 -/
theorem frame_8x18 : frameCheck (table7.getD 24 default) = true := by decide +kernel

set_option maxRecDepth 10000000 in
/-- symbol 8x32 = row 25 of Table 7 -/
theorem frame_8x32 : frameCheck (table7.getD 25 default) = true := by decide +kernel

set_option maxRecDepth 10000000 in
/-- symbol 12x26 = row 26 of Table 7 -/
theorem frame_12x26 : frameCheck (table7.getD 26 default) = true := by decide +kernel

set_option maxRecDepth 10000000 in
/-- symbol 12x36 = row 27 of Table 7 -/
theorem frame_12x36 : frameCheck (table7.getD 27 default) = true := by decide +kernel

set_option maxRecDepth 10000000 in
/-- symbol 16x36 = row 28 of Table 7 -/
theorem frame_16x36 : frameCheck (table7.getD 28 default) = true := by decide +kernel

set_option maxRecDepth 10000000 in
/-- symbol 16x48 = row 29 of Table 7 -/
theorem frame_16x48 : frameCheck (table7.getD 29 default) = true := by decide +kernel

end Gzx.DMProofs
