/-
  C02 / wp dmenc, item (b) — auxiliaries of the whole-message round trip WITH EDIFACT:
    * `tableOK`: the condition on the symbol table (capacities ascend; different capacities differ by at least 2);
      `lookup_min`: in such a table the first fit is a smallest admissible symbol;
    * `Sim`: the real codeword prefix decodes like a virtual one on every byte continuation of at least `j` codewords;
    * `TailG` / `CapFact`: a segment left open with `k ≤ 2` codewords to go, with or without a current symbol;
    * what ONE further codeword can make the decoder append (`decLoop_single`).
-/
import Gzx.Proofs.DMSymB
import Gzx.Proofs.DMLookAhead
namespace Gzx.DMHighLevel

/-! ## the table condition -/

def sortedCap : List SymbolInfo → Bool
  | [] => true
  | s :: rest => rest.all (fun r => decide (s.cap ≤ r.cap)) && sortedCap rest

def gapCap (syms : List SymbolInfo) : Bool :=
  syms.all (fun s => syms.all (fun r => decide (s.cap < r.cap → s.cap + 2 ≤ r.cap)))

/-- capacities ascend along the table, and two different capacities differ by at least two codewords -/
def tableOK (syms : List SymbolInfo) : Bool := sortedCap syms && gapCap syms

theorem lookup_min {syms : List SymbolInfo} {cfg : Cfg} {n : Nat} {s : SymbolInfo} (hs : sortedCap syms = true)
    (h : lookup syms cfg n = some s) :
    ∀ r ∈ syms, admissible cfg r = true → n ≤ r.cap → s.cap ≤ r.cap := by
  unfold lookup at h
  induction syms with
  | nil => cases h
  | cons a rest ih =>
    unfold sortedCap at hs
    rw [Bool.and_eq_true, List.all_eq_true] at hs
    rw [List.find?_cons] at h
    cases hp : (admissible cfg a && decide (n ≤ a.cap)) with
    | true =>
      rw [hp] at h
      simp only [Option.some.injEq] at h
      subst h
      intro r hr _ _
      rcases List.mem_cons.mp hr with rfl | hr'
      · exact Nat.le_refl _
      · simpa using hs.1 r hr'
    | false =>
      rw [hp] at h
      intro r hr hadm hcap
      rcases List.mem_cons.mp hr with rfl | hr'
      · rw [hadm, Bool.true_and, decide_eq_false_iff_not] at hp
        exact absurd hcap hp
      · exact ih hs.2 h r hr' hadm hcap

theorem gap_of {syms : List SymbolInfo} (hg : gapCap syms = true) {s r : SymbolInfo} (hs : s ∈ syms) (hr : r ∈ syms)
    (h : s.cap < r.cap) : s.cap + 2 ≤ r.cap := by
  unfold gapCap at hg
  rw [List.all_eq_true] at hg
  have := hg s hs
  rw [List.all_eq_true] at this
  have := this r hr
  simp only [decide_eq_true_eq] at this
  exact this h

/-! ## real and virtual prefix -/

def Sim (T : Tables) (j : Nat) (P V : List Nat) : Prop :=
  P.length = V.length ∧
  ∀ S, Bytes S → j ≤ S.length → decLoop T (P ++ S) 0 false 0 {} = decLoop T (V ++ S) 0 false 0 {}

theorem Sim.refl (T : Tables) (P : List Nat) : Sim T 0 P P := ⟨rfl, fun _ _ _ => rfl⟩

theorem Sim.append {T : Tables} {j : Nat} {P V x : List Nat} (h : Sim T j P V) (hx : Bytes x) :
    Sim T (j - x.length) (P ++ x) (V ++ x) := by
  refine ⟨by simp [h.1], ?_⟩
  intro S hS hj
  rw [List.append_assoc, List.append_assoc]
  exact h.2 (x ++ S) (hx.append hS) (by simp; omega)

theorem Sim.mono {T : Tables} {j j' : Nat} {P V : List Nat} (h : Sim T j P V) (hj : j ≤ j') : Sim T j' P V :=
  ⟨h.1, fun S hS hl => h.2 S hS (by omega)⟩

/-- behind the one-codeword EDIFACT unlatch the virtual prefix is replaced by one that decodes for EVERY continuation -/
theorem Sim.swap {T : Tables} {j : Nat} {P V L : List Nat} {a : Acc} (h : Sim T j P V) (hV : DecFrom T 2 V a)
    (hL : DecodesTo T L a) (hlen : L.length = V.length) : Sim T (max j 2) P L := by
  refine ⟨by rw [h.1, hlen], ?_⟩
  intro S hS hj
  rw [h.2 S hS (by omega), hV S (by omega) hS, hL S, hlen]

/-! ## open segments -/

structure TailG (T : Tables) (c : Ctx) (a : Acc) (k : Nat) : Prop where
  dec : DecK T c.cw a k
  text : a.rev.reverse = c.msg.take c.pos
  pend : a.pend = 0
  need : asciiNeed c.rest ≤ k

/-- an admissible symbol of the table with exactly `k` codewords behind the current ones; it is the current symbol, or
    the symbol has been forgotten -/
def CapFact (syms : List SymbolInfo) (c : Ctx) (k : Nat) : Prop :=
  ∃ s, s ∈ syms ∧ admissible c.cfg s = true ∧ s.cap = c.count + k ∧ (c.sym = some s ∨ c.sym = none)

theorem asciiEncode_keeps {la : LookAhead} {c c' : Ctx} (h : asciiEncode la c = .ok c') :
    c'.sym = c.sym ∧ c'.cfg = c.cfg ∧ c'.msg = c.msg ∧ c'.skipAtEnd = c.skipAtEnd := by
  unfold asciiEncode at h
  simp only at h
  split at h
  · split at h
    · cases h; exact ⟨rfl, rfl, rfl, rfl⟩
    · cases h
  · obtain ⟨ch, _, h⟩ := bind_ok h
    repeat' split at h
    all_goals first | (cases h; done) | (cases h; exact ⟨rfl, rfl, rfl, rfl⟩)

theorem asciiEncode_symswap {la : LookAhead} (c : Ctx) (x : Option SymbolInfo) :
    asciiEncode la { c with sym := x } = (asciiEncode la c).map (fun c' => { c' with sym := x }) := by
  unfold asciiEncode
  have hmsg : ({ c with sym := x } : Ctx).msg = c.msg := rfl
  have hpos : ({ c with sym := x } : Ctx).pos = c.pos := rfl
  have hcur : ({ c with sym := x } : Ctx).cur = c.cur := rfl
  simp only [hmsg, hpos, hcur]
  split
  · cases c.msg[c.pos]? <;> cases c.msg[c.pos + 1]? <;> rfl
  · cases c.cur with
    | error e => rfl
    | ok ch =>
      simp only [bind, Except.bind]
      generalize la c.msg c.pos ASCII = m
      by_cases h0 : m ≠ ASCII
      · rw [if_pos h0, if_pos h0]
        by_cases h5 : m = BASE256
        · rw [if_pos h5, if_pos h5]; rfl
        · rw [if_neg h5, if_neg h5]
          by_cases h1 : m = C40
          · rw [if_pos h1, if_pos h1]; rfl
          · rw [if_neg h1, if_neg h1]
            by_cases h3 : m = X12
            · rw [if_pos h3, if_pos h3]; rfl
            · rw [if_neg h3, if_neg h3]
              by_cases h2 : m = TEXT
              · rw [if_pos h2, if_pos h2]; rfl
              · rw [if_neg h2, if_neg h2]
                by_cases h4 : m = EDIFACT
                · rw [if_pos h4, if_pos h4]; rfl
                · rw [if_neg h4, if_neg h4]; rfl
      · rw [if_neg h0, if_neg h0]
        by_cases he : isExtended ch = true
        · rw [if_pos he, if_pos he]; rfl
        · rw [if_neg he, if_neg he]; rfl

/-- one ASCII step in an open-segment state (the look-ahead has to stay in ASCII there) -/
theorem ascii_step_tailG {T : Tables} {syms : List SymbolInfo} {la : LookAhead} {c c' : Ctx} {a : Acc} {k : Nat}
    (hbytes : ∀ x ∈ c.msg, x < 256) (hT : TailG T c a k) (hC : CapFact syms c k) (hm : c.hasMore = true)
    (hle : c.pos ≤ c.total) (htr : TrailerOK c) (hla : la c.msg c.pos ASCII = ASCII)
    (h : asciiEncode la c = .ok c') :
    ∃ a' k', TailG T c' a' k' ∧ CapFact syms c' k' ∧ k' < k ∧ a'.trailer = a.trailer ∧ c.pos < c'.pos ∧
      c'.pos ≤ c'.total ∧ c'.newEnc = c.newEnc := by
  let sf : SymbolInfo := ⟨false, c.count + k, 0, 0, 0, 0⟩
  have hTf : Tail T ({ c with sym := some sf } : Ctx) a k :=
    ⟨hT.dec, hT.text, hT.pend, ⟨sf, rfl, rfl⟩, hT.need⟩
  have hf : asciiEncode la ({ c with sym := some sf } : Ctx) = .ok { c' with sym := some sf } := by
    rw [asciiEncode_symswap, h]; rfl
  obtain ⟨a', k', hT', hk', htr', hsf, hpos, hpt, hnew⟩ :=
    ascii_step_tail (c := ({ c with sym := some sf } : Ctx)) hbytes hTf hm hle htr hla hf
  obtain ⟨s', hs', hcap'⟩ := hT'.full
  have hs'' : s' = sf := by
    have : ({ c' with sym := some sf } : Ctx).sym = some sf := rfl
    rw [this] at hs'; exact (Option.some.inj hs').symm
  have hcnt : c'.count + k' = c.count + k := by
    rw [hs''] at hcap'
    have : ({ c' with sym := some sf } : Ctx).count = c'.count := rfl
    rw [this] at hcap'
    exact hcap'.symm
  obtain ⟨k1, k2, k3, k4⟩ := asciiEncode_keeps h
  refine ⟨a', k', ⟨hT'.dec, hT'.text, hT'.pend, hT'.need⟩, ?_, hk', htr', hpos, hpt, hnew⟩
  obtain ⟨s, hmem, hadm, hcap, hsym⟩ := hC
  exact ⟨s, hmem, by rw [k2]; exact hadm, by omega, by rw [k1]; exact hsym⟩

/-! ## what one codeword can decode to -/

theorem pushAll_rev2 (a : Acc) (d1 d2 : Nat) : (a.pushAll [d1, d2]).rev.reverse = a.rev.reverse ++ [d1, d2] := by
  simp [Acc.pushAll, Acc.push]

/-- one codeword read in ASCII state, with the macro trailer unchanged, appends at most two characters, none of them
    extended -/
theorem decLoop_single (T : Tables) (x off : Nat) (a a' : Acc)
    (h : decLoop T [x] 0 false off a = .ok a') (htr : a'.trailer = a.trailer) :
    ∃ l, a'.rev.reverse = a.rev.reverse ++ l ∧ l.length ≤ 2 ∧ ∀ c ∈ l, c < 128 := by
  unfold decLoop at h
  by_cases h0 : x = 0
  · simp [h0] at h
  · simp only [h0, if_false] at h
    by_cases h1 : x ≤ 128
    · simp only [h1, if_true, decLoop, Except.ok.injEq, Bool.false_eq_true, if_false] at h
      subst h
      exact ⟨[x - 1], by simp [Acc.endSeg, Acc.push], by simp, by intro c hc; simp at hc; omega⟩
    · simp only [h1, if_false] at h
      by_cases h2 : x = 129
      · simp only [h2, if_true, Except.ok.injEq] at h
        subst h
        exact ⟨[], by simp, by simp, by simp⟩
      · simp only [h2, if_false] at h
        by_cases h3 : x ≤ 229
        · simp only [h3, if_true, decLoop, Except.ok.injEq] at h
          subst h
          have hv : x - 130 < 100 := by omega
          have hdp : digitPair (x - 130) = [48 + (x - 130) / 10, 48 + (x - 130) % 10] := by
            have := digitPair_digits ((x - 130) / 10) ((x - 130) % 10) (by omega) (by omega)
            have e : (x - 130) / 10 * 10 + (x - 130) % 10 = x - 130 := by omega
            rw [e] at this; exact this
          refine ⟨[48 + (x - 130) / 10, 48 + (x - 130) % 10], ?_, by simp, ?_⟩
          · rw [hdp]; exact pushAll_rev2 _ _ _
          · intro c hc; simp at hc; omega
        · simp only [h3, if_false] at h
          by_cases h4 : x = 230
          · simp only [h4, if_true, cSeg, decLoop, Except.ok.injEq] at h
            subst h
            exact ⟨[], by simp [Acc.endSeg], by simp, by simp⟩
          · simp only [h4, if_false] at h
            by_cases h5 : x = 231
            · simp only [h5, if_true, List.isEmpty_nil, Except.ok.injEq] at h
              subst h
              exact ⟨[], by simp, by simp, by simp⟩
            · simp only [h5, if_false] at h
              by_cases h6 : x = 232
              · simp only [h6, if_true, decLoop, Except.ok.injEq] at h
                subst h
                exact ⟨[29], by simp [Acc.fnc, Acc.push], by simp, by simp⟩
              · simp only [h6, if_false] at h
                by_cases h7 : x = 233 ∨ x = 234
                · simp only [h7, if_true, decLoop, Except.ok.injEq] at h
                  subst h
                  exact ⟨[], by simp, by simp, by simp⟩
                · simp only [h7, if_false] at h
                  by_cases h8 : x = 235
                  · simp only [h8, if_true, decLoop, Except.ok.injEq] at h
                    subst h
                    exact ⟨[], by simp, by simp, by simp⟩
                  · simp only [h8, if_false] at h
                    by_cases h9 : x = 236
                    · simp only [h9, if_true, decLoop, Except.ok.injEq] at h
                      subst h
                      exfalso
                      have := congrArg List.length htr
                      simp [macroTrailer] at this
                      omega
                    · simp only [h9, if_false] at h
                      by_cases h10 : x = 237
                      · simp only [h10, if_true, decLoop, Except.ok.injEq] at h
                        subst h
                        exfalso
                        have := congrArg List.length htr
                        simp [macroTrailer] at this
                        omega
                      · simp only [h10, if_false] at h
                        by_cases h11 : x = 238
                        · simp only [h11, if_true, x12Seg, decLoop, Except.ok.injEq] at h
                          subst h
                          exact ⟨[], by simp [Acc.endSeg], by simp, by simp⟩
                        · simp only [h11, if_false] at h
                          by_cases h12 : x = 239
                          · simp only [h12, if_true, cSeg, decLoop, Except.ok.injEq] at h
                            subst h
                            exact ⟨[], by simp [Acc.endSeg], by simp, by simp⟩
                          · simp only [h12, if_false] at h
                            by_cases h13 : x = 240
                            · simp only [h13, if_true, edifactSeg, decLoop, Except.ok.injEq] at h
                              subst h
                              exact ⟨[], by simp [Acc.endSeg], by simp, by simp⟩
                            · simp only [h13, if_false] at h
                              by_cases h14 : x = 241
                              · simp only [h14, if_true, List.isEmpty_nil, decLoop, Except.ok.injEq] at h
                                subst h
                                exact ⟨[], by simp, by simp, by simp⟩
                              · simp only [h14, if_false, List.isEmpty_nil, Bool.not_true, Bool.false_eq_true, or_false] at h
                                by_cases h15 : x ≠ 254
                                · simp [h15] at h
                                · simp only [h15, if_false, decLoop, Except.ok.injEq] at h
                                  subst h
                                  exact ⟨[], by simp, by simp, by simp⟩

/-- every step of the ASCII encoder writes at least one codeword -/
theorem asciiEncode_writes {la : LookAhead} {c c' : Ctx} (h : asciiEncode la c = .ok c') :
    c.count + 1 ≤ c'.count := by
  unfold asciiEncode at h
  simp only at h
  split at h
  · split at h
    · cases h; simp [Ctx.write, Ctx.count]
    · cases h
  · obtain ⟨ch, _, h⟩ := bind_ok h
    repeat' split at h
    all_goals first | (cases h; done) | (cases h; simp [Ctx.write, Ctx.signal, Ctx.count])

end Gzx.DMHighLevel
