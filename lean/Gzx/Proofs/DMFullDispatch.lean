/-
  C02 / wp dmenc, item (b) — the induction over the dispatch loop (all six modes).
-/
import Gzx.Proofs.DMFullRun
namespace Gzx.DMHighLevel

def RunGoal (syms : List SymbolInfo) (c : Ctx) (trl : List Nat) (c' : Ctx) (mode' : Nat) : Prop :=
  (mode' = ASCII ∨ mode' = BASE256) ∧ Bytes c'.cw ∧ ∃ V' a' j', V'.length = c'.cw.length ∧
    Fin syms (c'.swap V') a' ∧ a'.trailer = trl ∧ c'.msg = c.msg ∧ c'.skipAtEnd = c.skipAtEnd ∧ c'.cfg = c.cfg ∧
    c'.pos = c'.total ∧ SymFF syms c' ∧ Sim refTables j' c'.cw V' ∧ Debt syms mode' c' V' trl j'

theorem RunGoal.congr {syms : List SymbolInfo} {c c1 c' : Ctx} {trl : List Nat} {m' : Nat}
    (h : RunGoal syms c1 trl c' m') (e1 : c1.msg = c.msg) (e2 : c1.skipAtEnd = c.skipAtEnd) (e3 : c1.cfg = c.cfg) :
    RunGoal syms c trl c' m' := by
  obtain ⟨r1, r2, V', a', j', q1, q2, q3, q4, q5, q6, q7, q8, q9, q10⟩ := h
  exact ⟨r1, r2, V', a', j', q1, q2, q3, by rw [q4, e1], by rw [q5, e2], by rw [q6, e3], q7, q8, q9, q10⟩

theorem run_base {syms : List SymbolInfo} {la : LookAhead} {mode : Nat} {c : Ctx} {V : List Nat} {a : Acc} {j : Nat}
    (hcb : Bytes c.cw) (hV : V.length = c.cw.length) (hS : FSt syms la mode (c.swap V) a)
    (hm : c.hasMore = false) (hle : c.pos ≤ c.total) (hff : SymFF syms c) (hsim : Sim refTables j c.cw V)
    (hdebt : Debt syms mode c V a.trailer j) : RunGoal syms c a.trailer c mode := by
  have hend : c.pos = c.total := by
    have := (hasMore_false_iff' c).mp hm; omega
  have hmv : (c.swap V).hasMore = c.hasMore := rfl
  cases hS with
  | ascii hI => exact ⟨Or.inl rfl, hcb, V, a, j, hV, Fin.inv hI, rfl, rfl, rfl, rfl, hend, hff, hsim, hdebt⟩
  | tail k hk hT hC hmode =>
    exact ⟨by rcases hmode with e | ⟨e, _⟩ <;> simp [e], hcb, V, a, j, hV, Fin.tail k hk hT hC, rfl, rfl, rfl, rfl, hend,
      hff, hsim, hdebt⟩
  | latched _ _ hm' _ => rw [hmv, hm] at hm'; cases hm'
  | done256 hI _ => exact ⟨Or.inr rfl, hcb, V, a, j, hV, Fin.inv hI, rfl, rfl, rfl, rfl, hend, hff, hsim, hdebt⟩
  | endpad jj hd ht _ hs =>
    exact ⟨Or.inl rfl, hcb, V, a, j, hV, Fin.endpad jj hd ht hs, rfl, rfl, rfl, rfl, hend, hff, hsim, hdebt⟩

structure Pre (syms : List SymbolInfo) (la : LookAhead) (mode : Nat) (c : Ctx) (V : List Nat) (a : Acc) (j : Nat) :
    Prop where
  hb : Bytes c.msg
  hcb : Bytes c.cw
  hV : V.length = c.cw.length
  st : FSt syms la mode (c.swap V) a
  hnew : c.newEnc = none
  htr : TrailerOK c
  hle : c.pos ≤ c.total
  htot : TotOK c.msg c.total
  hff : SymFF syms c
  hsb : SymB syms c
  hsim : Sim refTables j c.cw V
  hdebt : Debt syms mode c V a.trailer j

def IHyp (syms : List SymbolInfo) (la : LookAhead) (n : Nat) (c' : Ctx) (m' : Nat) : Prop :=
  ∀ (mode : Nat) (c : Ctx) (V : List Nat) (a : Acc) (j : Nat), Pre syms la mode c V a j →
    dispatch syms la n mode c = .ok (c', m') → RunGoal syms c a.trailer c' m'

/-- common facts about one encoder call on the real context -/
theorem call_facts {syms : List SymbolInfo} {la : LookAhead} {mode : Nat} {c c1 : Ctx} {V : List Nat} {a : Acc} {j : Nat}
    (P : Pre syms la mode c V a j) (hm : c.hasMore = true) (h1 : encodeMode syms la mode c = .ok c1) :
    ∃ x, c1.cw = c.cw ++ x ∧ Bytes x ∧ Bytes c1.cw ∧ (V ++ x).length = c1.cw.length ∧
      encodeMode syms la mode (c.swap V) = .ok (c1.swap (V ++ x)) ∧ SymFF syms c1 ∧ SymB syms c1 ∧
      Sim refTables (j - x.length) c1.cw (V ++ x) ∧ c1.msg = c.msg := by
  obtain ⟨x, hx, hxb, hB1, hlen, hv⟩ := virt_step P.hb P.hcb P.hV hm P.hnew h1
  refine ⟨x, hx, hxb, hB1, hlen, hv, (encodeMode_symStep P.hle h1).ff P.hff, (encodeMode_symB P.hsb P.hle h1).1, ?_,
    encodeMode_msg hm P.hnew h1⟩
  rw [hx]; exact P.hsim.append hxb

/-- one iteration in ASCII state -/
theorem iter_ascii {syms : List SymbolInfo} {la : LookAhead} {n : Nat} {c c' : Ctx} {V : List Nat} {a : Acc} {j m' : Nat}
    (IH : IHyp syms la n c' m') (P : Pre syms la ASCII c V a j) (hI : Inv refTables (c.swap V) a)
    (hm : c.hasMore = true)
    (h : (do
        let c1 ← encodeMode syms la ASCII c
        match c1.newEnc with
        | some m => dispatch syms la n m { c1 with newEnc := none }
        | none => dispatch syms la n ASCII c1) = .ok (c', m')) : RunGoal syms c a.trailer c' m' := by
  obtain ⟨c1, h1, h⟩ := bind_ok h
  obtain ⟨x, hx, hxb, hB1, hlen, hv, hff1, hsb1, hsim1, hmsg1⟩ := call_facts P hm h1
  rw [encodeMode_ascii] at h1 hv
  have hm' : c.pos < c.total := (hasMore_iff' c).mp hm
  obtain ⟨_, hcfg1, _, hskip1⟩ := asciiEncode_keeps h1
  have hxl : 1 ≤ x.length := by
    have := asciiEncode_writes h1
    simp only [Ctx.count, hx, List.length_append] at this; omega
  have htot1 : c1.total = c.total := by simp [Ctx.total, hmsg1, hskip1]
  have htr1 : TrailerOK c1 := by unfold TrailerOK; rw [hmsg1, hskip1]; exact P.htr
  cases hn1 : c1.newEnc with
  | none =>
    rw [hn1] at h
    simp only at h
    have hn1v : (c1.swap (V ++ x)).newEnc = none := hn1
    obtain ⟨a1, hI1, htr1a, hsf, hpos, hlt⟩ := ascii_step_inv (c := c.swap V) P.hb hI hv hn1v
    have hle1 : c1.pos ≤ c1.total := by
      rw [htot1]
      have hpos' : c1.pos = c.pos + 1 ∨ (c1.pos = c.pos + 2 ∧ c.pos + 2 ≤ c.msg.length ∧
          ∃ d, c.msg[c.pos + 1]? = some d ∧ isDigit d = true) := hpos
      rcases hpos' with e1 | ⟨e2, hlen2, d, hd, hdig⟩
      · omega
      · rcases P.htr with h0 | ⟨hs2, hl2, hdrop⟩
        · simp only [Ctx.total, h0] at hm' ⊢; omega
        · simp only [Ctx.total, hs2] at hm' ⊢
          by_cases hxx : c.pos + 1 = c.msg.length - 2
          · exfalso
            obtain ⟨g, _, _, _⟩ := drop_cons_facts (l := c.msg) (pos := c.msg.length - 2) (x := 30) (r := [4]) hdrop
            rw [hxx, g] at hd
            cases hd
            simp [isDigit] at hdig
          · omega
    have P1 : Pre syms la ASCII c1 (V ++ x) a1 (j - x.length) :=
      ⟨by rw [hmsg1]; exact P.hb, hB1, hlen, FSt.ascii hI1, hn1, htr1, hle1, by rw [hmsg1, htot1]; exact P.htot, hff1,
        hsb1, hsim1, by rw [htr1a]; exact P.hdebt.step hmsg1 hskip1 hcfg1 (fun _ => hxl)⟩
    have := IH ASCII c1 (V ++ x) a1 (j - x.length) P1 h
    rw [htr1a] at this
    exact this.congr hmsg1 hskip1 hcfg1
  | some m =>
    rw [hn1] at h
    simp only at h
    have hn1v : (c1.swap (V ++ x)).newEnc ≠ none := by show c1.newEnc ≠ none; rw [hn1]; simp
    obtain ⟨mm, code, hlam, hc1, hcases⟩ := ascii_latch_gen (c := c.swap V) hv hn1v P.hnew
    have hmm : m = mm := by
      have : (c1.swap (V ++ x)).newEnc = some mm := by rw [hc1]; rfl
      have h2 : (c1.swap (V ++ x)).newEnc = some m := hn1
      rw [h2] at this; exact Option.some.inj this
    subst hmm
    have hpos1 : c1.pos = c.pos := by
      have : (c1.swap (V ++ x)).pos = (c.swap V).pos := by rw [hc1]; rfl
      exact this
    have hcases' : (m = BASE256 ∧ code = 231) ∨ (m = C40 ∧ code = 230) ∨ (m = X12 ∧ code = 238) ∨
        (m = TEXT ∧ code = 239) ∨ (m = EDIFACT ∧ code = 240) := by
      rcases hcases with y | y | y | y | y
      · exact Or.inl y
      · exact Or.inr (Or.inl y)
      · exact Or.inr (Or.inr (Or.inl y))
      · exact Or.inr (Or.inr (Or.inr (Or.inl y)))
      · exact Or.inr (Or.inr (Or.inr (Or.inr y)))
    have hL : LatchedM refTables m code la (({ c1 with newEnc := none } : Ctx).swap (V ++ x)) a := by
      have e : (({ c1 with newEnc := none } : Ctx).swap (V ++ x)) =
          ({ (c1.swap (V ++ x)) with newEnc := none } : Ctx) := rfl
      rw [e, hc1]
      exact ⟨V, rfl, hI.dec, hI.text, hI.pend, hlam⟩
    have hne : ¬ m = ASCII := by rcases hcases' with ⟨e, _⟩ | ⟨e, _⟩ | ⟨e, _⟩ | ⟨e, _⟩ | ⟨e, _⟩ <;> rw [e] <;> decide
    have hmore1 : (({ c1 with newEnc := none } : Ctx).swap (V ++ x)).hasMore = true := by
      have : (({ c1 with newEnc := none } : Ctx).swap (V ++ x)).hasMore = c.hasMore := by
        unfold Ctx.hasMore Ctx.total
        show decide (c1.pos < c1.msg.length - c1.skipAtEnd) = _
        rw [hmsg1, hskip1, hpos1]
      rw [this]; exact hm
    have P1 : Pre syms la m ({ c1 with newEnc := none } : Ctx) (V ++ x) a (j - x.length) :=
      ⟨by show Bytes c1.msg; rw [hmsg1]; exact P.hb, hB1, hlen,
        FSt.latched code hL hmore1 hcases',
        rfl, htr1, by show c1.pos ≤ c1.total; rw [htot1, hpos1]; exact P.hle,
        by show TotOK c1.msg c1.total; rw [hmsg1, htot1]; exact P.htot, hff1, hsb1, hsim1,
        P.hdebt.step (c' := ({ c1 with newEnc := none } : Ctx)) hmsg1 hskip1 hcfg1 (fun _ => hxl)⟩
    have := IH m _ (V ++ x) a (j - x.length) P1 h
    exact this.congr (c1 := ({ c1 with newEnc := none } : Ctx)) hmsg1 hskip1 hcfg1

/-- one iteration in an open-segment state -/
theorem iter_tail {syms : List SymbolInfo} {la : LookAhead} (hla : LaFloatLike la) {n : Nat} {c c' : Ctx} {V : List Nat}
    {a : Acc} {j m' k : Nat}
    (IH : IHyp syms la n c' m') (P : Pre syms la ASCII c V a j) (hk : k ≤ 2) (hT : TailG refTables (c.swap V) a k)
    (hC : CapFact syms (c.swap V) k) (hm : c.hasMore = true)
    (h : (do
        let c1 ← encodeMode syms la ASCII c
        match c1.newEnc with
        | some m => dispatch syms la n m { c1 with newEnc := none }
        | none => dispatch syms la n ASCII c1) = .ok (c', m')) : RunGoal syms c a.trailer c' m' := by
  obtain ⟨c1, h1, h⟩ := bind_ok h
  obtain ⟨x, hx, hxb, hB1, hlen, hv, hff1, hsb1, hsim1, hmsg1⟩ := call_facts P hm h1
  rw [encodeMode_ascii] at h1 hv
  obtain ⟨_, hcfg1, _, hskip1⟩ := asciiEncode_keeps h1
  have hxl : 1 ≤ x.length := by
    have := asciiEncode_writes h1
    simp only [Ctx.count, hx, List.length_append] at this; omega
  have htot1 : c1.total = c.total := by simp [Ctx.total, hmsg1, hskip1]
  have htr1 : TrailerOK c1 := by unfold TrailerOK; rw [hmsg1, hskip1]; exact P.htr
  have hneed2 : asciiNeed c.rest ≤ 2 := by
    have h0 : asciiNeed (c.swap V).rest ≤ k := hT.need
    have h1 : (c.swap V).rest = c.rest := rfl
    rw [h1] at h0; omega
  have hlaA : la c.msg c.pos ASCII = ASCII := tail_la_ascii hla P.htot hm hneed2
  obtain ⟨a1, k1, hT1, hC1, hk1, htr1a, hpos, hpt, hnew1⟩ :=
    ascii_step_tailG (c := c.swap V) P.hb hT hC hm P.hle P.htr hlaA hv
  have hn1 : c1.newEnc = none := by
    have : (c1.swap (V ++ x)).newEnc = (c.swap V).newEnc := hnew1
    exact this.trans P.hnew
  rw [hn1] at h
  simp only at h
  have P1 : Pre syms la ASCII c1 (V ++ x) a1 (j - x.length) :=
    ⟨by rw [hmsg1]; exact P.hb, hB1, hlen, FSt.tail k1 (by omega) hT1 hC1 (Or.inl rfl), hn1, htr1, hpt,
      by rw [hmsg1, htot1]; exact P.htot, hff1, hsb1, hsim1,
      by rw [htr1a]; exact P.hdebt.step hmsg1 hskip1 hcfg1 (fun _ => hxl)⟩
  have := IH ASCII c1 (V ++ x) a1 (j - x.length) P1 h
  rw [htr1a] at this
  exact this.congr hmsg1 hskip1 hcfg1

/-- back to ASCII encodation after a whole call of another encoder -/
theorem cont_ascii {syms : List SymbolInfo} {la : LookAhead} {n mode : Nat} {c c1 c' : Ctx} {V V1 : List Nat}
    {a a1 : Acc} {j j1 m' : Nat} (IH : IHyp syms la n c' m') (P : Pre syms la mode c V a j)
    (hmsg1 : c1.msg = c.msg) (hskip1 : c1.skipAtEnd = c.skipAtEnd) (hcfg1 : c1.cfg = c.cfg)
    (hpt : c1.pos ≤ c1.total) (hB1 : Bytes c1.cw) (hlen : V1.length = c1.cw.length) (hn : c1.newEnc = some ASCII)
    (htra : a1.trailer = a.trailer)
    (hS : FSt syms la ASCII (({ c1 with newEnc := none } : Ctx).swap V1) a1) (hff1 : SymFF syms c1)
    (hsb1 : SymB syms c1) (hsim1 : Sim refTables j1 c1.cw V1)
    (hdebt1 : Debt syms ASCII ({ c1 with newEnc := none } : Ctx) V1 a.trailer j1)
    (h : (match c1.newEnc with
        | some m => dispatch syms la n m { c1 with newEnc := none }
        | none => dispatch syms la n mode c1) = .ok (c', m')) : RunGoal syms c a.trailer c' m' := by
  rw [hn] at h
  simp only at h
  have htot1 : c1.total = c.total := by simp [Ctx.total, hmsg1, hskip1]
  have P1 : Pre syms la ASCII ({ c1 with newEnc := none } : Ctx) V1 a1 j1 :=
    ⟨by show Bytes c1.msg; rw [hmsg1]; exact P.hb, hB1, hlen, hS, rfl,
      by show TrailerOK ({ c1 with newEnc := none } : Ctx); unfold TrailerOK; show _ ∨ _; rw [hmsg1, hskip1]; exact P.htr,
      hpt, by show TotOK c1.msg c1.total; rw [hmsg1, htot1]; exact P.htot, hff1, hsb1, hsim1, by rw [htra]; exact hdebt1⟩
  have := IH ASCII _ V1 a1 j1 P1 h
  rw [htra] at this
  exact this.congr (c1 := ({ c1 with newEnc := none } : Ctx)) hmsg1 hskip1 hcfg1

/-- the result of a whole call as a state: invariant or open segment -/
theorem state_of_post {syms : List SymbolInfo} {la : LookAhead} {c1 : Ctx} {V1 : List Nat} {a1 : Acc}
    (hff1 : SymFF syms c1)
    (hres : Inv refTables (c1.swap V1) a1 ∨ ∃ k, k ≤ 2 ∧ Tail refTables (c1.swap V1) a1 k) :
    FSt syms la ASCII (({ c1 with newEnc := none } : Ctx).swap V1) a1 := by
  rcases hres with hI | ⟨k, hk, hT⟩
  · exact FSt.ascii ⟨hI.dec, hI.text, hI.pend⟩
  · refine FSt.tail k hk ⟨hT.dec, hT.text, hT.pend, hT.need⟩ ?_ (Or.inl rfl)
    exact capFact_of_full (c := ({ c1 with newEnc := none } : Ctx).swap V1) hff1 hT.full

/-- one iteration for C40 / Text / X12 -/
theorem iter_simple {syms : List SymbolInfo} {la : LookAhead} {n mode : Nat} {c c' : Ctx} {V : List Nat} {a : Acc}
    {j m' : Nat} (IH : IHyp syms la n c' m') (P : Pre syms la mode c V a j) (hne : ¬ mode = ASCII)
    (hm : c.hasMore = true)
    (post : ∀ (c1 : Ctx) (x : List Nat), encodeMode syms la mode (c.swap V) = .ok (c1.swap (V ++ x)) →
      ∃ a1, a1.trailer = a.trailer ∧ c1.cfg = c.cfg ∧ c1.skipAtEnd = c.skipAtEnd ∧ c1.pos ≤ c1.total ∧
        c1.newEnc = some ASCII ∧
        (Inv refTables (c1.swap (V ++ x)) a1 ∨ ∃ k, k ≤ 1 ∧ Tail refTables (c1.swap (V ++ x)) a1 k))
    (h : (do
        let c1 ← encodeMode syms la mode c
        match c1.newEnc with
        | some m => dispatch syms la n m { c1 with newEnc := none }
        | none => dispatch syms la n mode c1) = .ok (c', m')) : RunGoal syms c a.trailer c' m' := by
  obtain ⟨c1, h1, h⟩ := bind_ok h
  obtain ⟨x, hx, hxb, hB1, hlen, hv, hff1, hsb1, hsim1, hmsg1⟩ := call_facts P hm h1
  obtain ⟨a1, htra, hcfg1, hskip1, hpt, hn, hres⟩ := post c1 x hv
  have hres' : Inv refTables (c1.swap (V ++ x)) a1 ∨ ∃ k, k ≤ 2 ∧ Tail refTables (c1.swap (V ++ x)) a1 k := by
    rcases hres with hI | ⟨k, hk, hT⟩
    · exact Or.inl hI
    · exact Or.inr ⟨k, by omega, hT⟩
  exact cont_ascii IH P hmsg1 hskip1 hcfg1 hpt hB1 hlen hn htra (state_of_post hff1 hres') hff1 hsb1 hsim1
    (P.hdebt.step (c' := ({ c1 with newEnc := none } : Ctx)) hmsg1 hskip1 hcfg1 (fun e => absurd e hne)) h

/-- one iteration for Base 256 -/
theorem iter_b256 {syms : List SymbolInfo} {la : LookAhead} {n : Nat} {c c' : Ctx} {V : List Nat} {a : Acc}
    {j m' : Nat} (IH : IHyp syms la n c' m') (P : Pre syms la BASE256 c V a j)
    (hL : LatchedM refTables BASE256 231 la (c.swap V) a) (hm : c.hasMore = true)
    (h : (do
        let c1 ← encodeMode syms la BASE256 c
        match c1.newEnc with
        | some m => dispatch syms la n m { c1 with newEnc := none }
        | none => dispatch syms la n BASE256 c1) = .ok (c', m')) : RunGoal syms c a.trailer c' m' := by
  obtain ⟨c1, h1, h⟩ := bind_ok h
  obtain ⟨x, hx, hxb, hB1, hlen, hv, hff1, hsb1, hsim1, hmsg1⟩ := call_facts P hm h1
  rw [encodeMode_b256] at hv
  have hL' : Latched256 refTables (c.swap V) a := by
    obtain ⟨cw0, x1, x2, x3, x4, _⟩ := hL
    exact ⟨cw0, x1, x2, x3, x4⟩
  obtain ⟨a1, htra, _, hcfg1v, hskip1v, hpos1, hpt1v, hnew1, hres1⟩ :=
    b256_step_inv (c := c.swap V) P.hb hL' P.hle hm P.hnew hv
  have hcfg1 : c1.cfg = c.cfg := hcfg1v
  have hskip1 : c1.skipAtEnd = c.skipAtEnd := hskip1v
  have hpt1 : c1.pos ≤ c1.total := hpt1v
  have hres' : Inv refTables (c1.swap (V ++ x)) a1 ∨ ∃ k, k ≤ 2 ∧ Tail refTables (c1.swap (V ++ x)) a1 k := by
    rcases hres1 with hI | ⟨hf, hE⟩
    · exact Or.inl hI
    · exact Or.inr ⟨0, by omega, hE.tail hf⟩
  have hdebt1 : ∀ md, Debt syms md c1 (V ++ x) a.trailer (j - x.length) := fun md =>
    P.hdebt.step hmsg1 hskip1 hcfg1 (fun e => absurd e (by decide))
  rcases hnew1 with ⟨hn, hf⟩ | hn
  · have hn' : c1.newEnc = none := hn
    rw [hn'] at h
    simp only at h
    have htot1 : c1.total = c.total := by simp [Ctx.total, hmsg1, hskip1]
    have hS1 : FSt syms la BASE256 (c1.swap (V ++ x)) a1 := by
      rcases hres' with hI | ⟨k, hk, hT⟩
      · exact FSt.done256 hI hf
      · exact FSt.tail k hk ⟨hT.dec, hT.text, hT.pend, hT.need⟩
          (capFact_of_full (c := c1.swap (V ++ x)) hff1 hT.full) (Or.inr ⟨rfl, hf⟩)
    have P1 : Pre syms la BASE256 c1 (V ++ x) a1 (j - x.length) :=
      ⟨by rw [hmsg1]; exact P.hb, hB1, hlen, hS1, hn', by unfold TrailerOK; rw [hmsg1, hskip1]; exact P.htr, hpt1,
        by rw [hmsg1, htot1]; exact P.htot, hff1, hsb1, hsim1, by rw [htra]; exact hdebt1 _⟩
    have := IH BASE256 c1 (V ++ x) a1 (j - x.length) P1 h
    rw [htra] at this
    exact this.congr hmsg1 hskip1 hcfg1
  · exact cont_ascii IH P hmsg1 hskip1 hcfg1 hpt1 hB1 hlen hn htra (state_of_post hff1 hres') hff1 hsb1 hsim1
      (P.hdebt.step (c' := ({ c1 with newEnc := none } : Ctx)) hmsg1 hskip1 hcfg1 (fun e => absurd e (by decide))) h

theorem tail_of_rewound {syms : List SymbolInfo} {c : Ctx} {a : Acc} {s : SymbolInfo}
    (hd : DecK refTables c.cw a 2) (htext : a.rev.reverse = c.msg.take c.pos) (hpend : a.pend = 0)
    (hnone : c.sym = none) (hnat : ∀ x ∈ c.rest, isNativeEDIFACT x = true) (hmem : s ∈ syms)
    (hadm : admissible c.cfg s = true) (h1 : c.count + c.remaining ≤ s.cap) (h2 : s.cap ≤ c.count + 2) :
    ∃ k, k ≤ 2 ∧ TailG refTables c a k ∧ CapFact syms c k := by
  refine ⟨s.cap - c.count, by omega, ⟨hd.mono (by omega), htext, hpend, ?_⟩, ⟨s, hmem, hadm, by omega, Or.inr hnone⟩⟩
  rw [asciiNeed_native _ hnat]
  have : c.rest.length ≤ c.remaining := by
    unfold Ctx.rest; rw [List.length_take]; omega
  omega

/-- one iteration for EDIFACT -/
theorem iter_edifact {syms : List SymbolInfo} {la : LookAhead} {n : Nat} {c c' : Ctx} {V : List Nat} {a : Acc}
    {j m' : Nat} (IH : IHyp syms la n c' m') (P : Pre syms la EDIFACT c V a j)
    (hL : LatchedM refTables EDIFACT 240 la (c.swap V) a) (hm : c.hasMore = true)
    (h : (do
        let c1 ← encodeMode syms la EDIFACT c
        match c1.newEnc with
        | some m => dispatch syms la n m { c1 with newEnc := none }
        | none => dispatch syms la n EDIFACT c1) = .ok (c', m')) : RunGoal syms c a.trailer c' m' := by
  obtain ⟨c1, h1, h⟩ := bind_ok h
  obtain ⟨x, hx, hxb, hB1, hlen, hv, hff1, hsb1, hsim1, hmsg1⟩ := call_facts P hm h1
  have hee : ∀ cc : Ctx, encodeMode syms la EDIFACT cc = edifactEncode syms la cc := by
    intro cc
    unfold encodeMode
    simp only [show ¬ (EDIFACT : Nat) = ASCII by decide, show ¬ (EDIFACT : Nat) = C40 by decide,
      show ¬ (EDIFACT : Nat) = TEXT by decide, show ¬ (EDIFACT : Nat) = X12 by decide, if_false, if_true]
  rw [hee] at h1 hv
  obtain ⟨_, hskip1, hcfg1, hn, _, hpt, _⟩ := (edifactEncode_total (syms := syms) (la := la) P.hle P.hnew).2 c1 h1
  have hdebt1 : Debt syms ASCII ({ c1 with newEnc := none } : Ctx) (V ++ x) a.trailer (j - x.length) :=
    P.hdebt.step (c' := ({ c1 with newEnc := none } : Ctx)) hmsg1 hskip1 hcfg1 (fun e => absurd e (by decide))
  have hj2 : j ≤ 2 := by
    rcases P.hdebt with e | ⟨_, y, _, _, _, _, _, e, _⟩ <;> omega
  by_cases hm1 : c1.hasMore = true
  · -- characters remain
    obtain ⟨cw0, hcw, hdec, htext, hpend, _⟩ := hL
    obtain ⟨a1, htra, htext1, hpend1, hout⟩ :=
      edifact_call_more (c := c.swap V) hcw hdec htext hpend P.hle P.hff hv hm1
    cases hout with
    | tail k hk hT =>
      exact cont_ascii IH P hmsg1 hskip1 hcfg1 hpt hB1 hlen hn htra
        (state_of_post hff1 (Or.inr ⟨k, hk, hT⟩)) hff1 hsb1 hsim1 hdebt1 h
    | rewound hd hnone hr1 hr2 hnat hs =>
      obtain ⟨s, hmem, hadm, hc1, hc2⟩ := hs
      obtain ⟨k, hk, hT, hC⟩ := tail_of_rewound hd htext1 hpend1 hnone hnat hmem hadm hc1 hc2
      exact cont_ascii IH P hmsg1 hskip1 hcfg1 hpt hB1 hlen hn htra
        (FSt.tail (c := ({ c1 with newEnc := none } : Ctx).swap (V ++ x)) k hk ⟨hT.dec, hT.text, hT.pend, hT.need⟩ hC
          (Or.inl rfl)) hff1 hsb1 hsim1 hdebt1 h
    | mid Q kq hQl hkq hQn hcwm ham hfacts =>
      obtain ⟨hDF, L, hLlen, hLdec⟩ := mid_virtual hdec hpend kq Q hQl hkq hQn
      have hcwm' : V ++ x = cw0 ++ [240] ++ (writeQuads (Q.map ediVal)).1 ++ [124] := hcwm
      rw [← hcwm'] at hDF hLlen
      rw [← ham] at hDF hLdec
      have hLc : L.length = c1.cw.length := by rw [hLlen, hlen]
      have hsimL : Sim refTables 2 c1.cw L := by
        have := hsim1.swap hDF hLdec hLlen
        have e : max (j - x.length) 2 = 2 := by omega
        rw [e] at this; exact this
      obtain ⟨s, hs, hcapge, hcase⟩ := hfacts
      have hs' : c1.sym = some s := hs
      obtain ⟨n0, hn0, hl0⟩ := hsb1 s hs'
      obtain ⟨_, _, hmem, hadm⟩ := lookup_idem hl0
      have hcnt : (c1.swap (V ++ x)).count = L.length := by
        show (V ++ x).length = L.length; rw [hLlen]
      have hcnt1 : c1.count = L.length := by simp only [Ctx.count]; rw [hLc]
      have hmid : Debt syms ASCII ({ c1 with newEnc := none } : Ctx) L a.trailer 2 := by
        right
        refine ⟨L, [], a1, c1.pos, s, n0, by simp, by simp, hLdec, htext1, htra, (hasMore_iff' c1).mp hm1, hmem,
          hadm, hl0, by rw [← hcnt1]; exact hn0, by rw [← hcnt]; exact hcapge, ?_, fun _ => ⟨rfl, hm1⟩⟩
        rw [← hcnt]
        exact hcase
      exact cont_ascii IH P hmsg1 hskip1 hcfg1 hpt hB1 hLc hn htra
        (FSt.ascii (c := ({ c1 with newEnc := none } : Ctx).swap L) ⟨hLdec, htext1, hpend1⟩) hff1 hsb1 hsimL hmid h
  · -- end of the message
    simp only [Bool.not_eq_true] at hm1
    obtain ⟨a1, htra, _, _, _, _, _, _, htext1, hpend1, hpost⟩ :=
      edifact_step_post (c := c.swap V) hL P.hle P.hnew hv
    have hmv : (({ c1 with newEnc := none } : Ctx).swap (V ++ x)).hasMore = false := hm1
    cases hpost with
    | closed hd =>
      exact cont_ascii IH P hmsg1 hskip1 hcfg1 hpt hB1 hlen hn htra
        (FSt.endpad (c := ({ c1 with newEnc := none } : Ctx).swap (V ++ x)) 0 hd htext1 hmv (Or.inl rfl))
        hff1 hsb1 hsim1 hdebt1 h
    | tail k hk hT =>
      exact cont_ascii IH P hmsg1 hskip1 hcfg1 hpt hB1 hlen hn htra
        (state_of_post hff1 (Or.inr ⟨k, hk, hT⟩)) hff1 hsb1 hsim1 hdebt1 h
    | rewound hd hnone hr2 hnat hs =>
      obtain ⟨c2, s, hu, hs2, hcap2⟩ := hs
      have hffx : SymFF syms ({ (c1.swap (V ++ x)) with sym := (c.swap V).sym } : Ctx) := by
        intro s' hs'
        obtain ⟨m, hm'⟩ := P.hff s' hs'
        exact ⟨m, by show lookup syms c1.cfg m = some s'; rw [hcfg1]; exact hm'⟩
      obtain ⟨s', hs', hge, hmem, hadm⟩ := update_sym_adm hffx hu
      have hss : s' = s := by rw [hs2] at hs'; exact (Option.some.inj hs').symm
      subst hss
      obtain ⟨k, hk, hT, hC⟩ := tail_of_rewound hd htext1 hpend1 hnone hnat hmem hadm hge hcap2
      exact cont_ascii IH P hmsg1 hskip1 hcfg1 hpt hB1 hlen hn htra
        (FSt.tail (c := ({ c1 with newEnc := none } : Ctx).swap (V ++ x)) k hk ⟨hT.dec, hT.text, hT.pend, hT.need⟩ hC
          (Or.inl rfl)) hff1 hsb1 hsim1 hdebt1 h
    | endpad jj hjj hd hf hs =>
      exact cont_ascii IH P hmsg1 hskip1 hcfg1 hpt hB1 hlen hn htra
        (FSt.endpad (c := ({ c1 with newEnc := none } : Ctx).swap (V ++ x)) jj hd htext1 hmv (Or.inr hs))
        hff1 hsb1 hsim1 hdebt1 h
    | mid _ hmm _ =>
      have : (c1.swap (V ++ x)).hasMore = c1.hasMore := rfl
      rw [this, hm1] at hmm; cases hmm

/-- the dispatch loop with all six modes -/
theorem dispatch_full {syms : List SymbolInfo} {la : LookAhead} (hla : LaFloatLike la) :
    ∀ (fuel : Nat) (c' : Ctx) (m' : Nat), IHyp syms la fuel c' m' := by
  intro fuel
  induction fuel with
  | zero =>
    intro c' m' mode c V a j P h
    simp only [dispatch] at h
    split at h
    · cases h
    · rename_i hm
      simp only [Except.ok.injEq, Prod.mk.injEq] at h
      obtain ⟨rfl, rfl⟩ := h
      exact run_base P.hcb P.hV P.st (by simpa using hm) P.hle P.hff P.hsim P.hdebt
  | succ n ih =>
    intro c' m' mode c V a j P h
    simp only [dispatch] at h
    split at h
    · rename_i hm
      simp only [Except.ok.injEq, Prod.mk.injEq] at h
      obtain ⟨rfl, rfl⟩ := h
      exact run_base P.hcb P.hV P.st (by simpa using hm) P.hle P.hff P.hsim P.hdebt
    · rename_i hm
      simp only [Bool.not_eq_true', Bool.not_eq_false] at hm
      have IH := ih c' m'
      have hmv : (c.swap V).hasMore = c.hasMore := rfl
      have hX12T : LaX12Tail la c.msg c.total := (floatLike_tail_conditions la hla c.msg c.total P.htot).2
      cases hst : P.st with
      | ascii hI => exact iter_ascii IH P hI hm h
      | tail k hk hT hC hmode =>
        have hmA : mode = ASCII := by
          rcases hmode with e | ⟨_, e⟩
          · exact e
          · rw [hmv, hm] at e; cases e
        subst hmA
        exact iter_tail hla IH P hk hT hC hm h
      | done256 _ hf => rw [hmv, hm] at hf; cases hf
      | endpad _ _ _ hf _ => rw [hmv, hm] at hf; cases hf
      | latched code hL _ hcases =>
        rcases hcases with ⟨rfl, rfl⟩ | ⟨rfl, rfl⟩ | ⟨rfl, rfl⟩ | ⟨rfl, rfl⟩ | ⟨rfl, rfl⟩
        · exact iter_b256 IH P hL hm h
        · -- C40
          refine iter_simple IH P (by decide) hm ?_ h
          intro c1 x hv
          rw [encodeMode_c40] at hv
          obtain ⟨a1, htr1, _, hcfg1, hskip1, _, hpt1, hn, hres1⟩ :=
            c40_step_post (text := false) (c := c.swap V) P.hb hL P.hle hm P.hnew hv
          exact ⟨a1, htr1, hcfg1, hskip1, hpt1, hn, hres1⟩
        · -- X12
          refine iter_simple IH P (by decide) hm ?_ h
          intro c1 x hv
          rw [encodeMode_x12] at hv
          obtain ⟨a1, htr1, _, hcfg1, hskip1, _, hpt1, hn, hres1⟩ :=
            x12_step_post (c := c.swap V) hL P.hle P.hnew (fun p ch e1 e2 e3 => hX12T p ch e1 e2 e3) hv
          exact ⟨a1, htr1, hcfg1, hskip1, hpt1, hn, hres1⟩
        · -- Text
          refine iter_simple IH P (by decide) hm ?_ h
          intro c1 x hv
          rw [encodeMode_text] at hv
          obtain ⟨a1, htr1, _, hcfg1, hskip1, _, hpt1, hn, hres1⟩ :=
            c40_step_post (text := true) (c := c.swap V) P.hb hL P.hle hm P.hnew hv
          exact ⟨a1, htr1, hcfg1, hskip1, hpt1, hn, hres1⟩
        · exact iter_edifact IH P hL hm h

end Gzx.DMHighLevel
