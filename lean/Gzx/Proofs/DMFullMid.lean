/-
  C02 / wp dmenc, item (b) — behind the one-codeword EDIFACT unlatch: a virtual prefix of the same length that decodes
  to the same text for EVERY continuation (the last quadruple is re-coded as "three characters + unlatch" in one
  codeword group followed by the fourth character in ASCII).
-/
import Gzx.Proofs.DMFullAux
namespace Gzx.DMHighLevel

/-- three characters and the unlatch close the segment whatever follows (`edifact_closed4` without the byte
    hypothesis on the continuation) -/
theorem edifact_closed4_all {T : Tables} {cw0 : List Nat} {a : Acc} (h : DecodesTo T cw0 a) (hp : a.pend = 0)
    (k : Nat) (chars : List Nat) (hl : chars.length = 4 * k) (hn : ∀ c ∈ chars, isNativeEDIFACT c = true)
    (c1 c2 c3 : Nat) (h1 : isNativeEDIFACT c1 = true) (h2 : isNativeEDIFACT c2 = true)
    (h3 : isNativeEDIFACT c3 = true) :
    DecodesTo T (cw0 ++ [240] ++ (writeQuads (chars.map ediVal)).1 ++
        edifactPack [ediVal c1, ediVal c2, ediVal c3, 31])
      ((a.pushAll chars).pushAll [c1, c2, c3]) := by
  intro suf
  exact edifact_segment_core h hp k chars hl hn (edifactPack [ediVal c1, ediVal c2, ediVal c3, 31]) [c1, c2, c3]
    (by intro c hc; simp at hc; rcases hc with rfl | rfl | rfl
        · exact (ediVal_facts _ h1).2.2.2.2
        · exact (ediVal_facts _ h2).2.2.2.2
        · exact (ediVal_facts _ h3).2.2.2.2) suf (by
      intro b n
      have := edifactSeg_unlatch4 c1 c2 c3 h1 h2 h3 suf b n
      simpa [edifactPack, Acc.pushAll, edifactWord] using this)

theorem pushAll_append' (a : Acc) (xs ys : List Nat) : a.pushAll (xs ++ ys) = (a.pushAll xs).pushAll ys := by
  induction xs generalizing a with
  | nil => rfl
  | cons x xs ih => simp [Acc.pushAll, ih]

/-- the virtual prefix -/
theorem mid_virtual {T : Tables} {cw0 : List Nat} {a : Acc} (h : DecodesTo T cw0 a) (hp : a.pend = 0)
    (kq : Nat) (Q : List Nat) (hl : Q.length = 4 * kq) (hk : 1 ≤ kq) (hn : ∀ c ∈ Q, isNativeEDIFACT c = true) :
    DecFrom T 2 (cw0 ++ [240] ++ (writeQuads (Q.map ediVal)).1 ++ [124]) (a.pushAll Q) ∧
    ∃ L, L.length = (cw0 ++ [240] ++ (writeQuads (Q.map ediVal)).1 ++ [124]).length ∧
      DecodesTo T L (a.pushAll Q) := by
  constructor
  · have := edifact_closed1 h hp kq Q hl hn
    have hpack : edifactPack [31] = [124] := by decide
    rw [hpack] at this
    exact this
  · -- split off the last quadruple
    obtain ⟨Q', hQ'⟩ : ∃ x, x = Q.take (4 * (kq - 1)) := ⟨_, rfl⟩
    obtain ⟨R, hR⟩ : ∃ x, x = Q.drop (4 * (kq - 1)) := ⟨_, rfl⟩
    have hQl : Q'.length = 4 * (kq - 1) := by rw [hQ', List.length_take]; omega
    have hRl : R.length = 4 := by rw [hR, List.length_drop]; omega
    have hsplit : Q = Q' ++ R := by rw [hQ', hR]; exact (List.take_append_drop _ _).symm
    match R, hRl, hsplit with
    | [c1, c2, c3, c4], _, hsplit =>
      have hn' : ∀ c ∈ Q', isNativeEDIFACT c = true := fun c hc => hn c (by rw [hsplit]; exact List.mem_append_left _ hc)
      have g1 : isNativeEDIFACT c1 = true := hn c1 (by rw [hsplit]; simp)
      have g2 : isNativeEDIFACT c2 = true := hn c2 (by rw [hsplit]; simp)
      have g3 : isNativeEDIFACT c3 = true := hn c3 (by rw [hsplit]; simp)
      have g4 : isNativeEDIFACT c4 = true := hn c4 (by rw [hsplit]; simp)
      have hc4 : c4 < 128 := (ediVal_facts c4 g4).2.2.2.2
      have hc4lo : 32 ≤ c4 := by
        simp only [isNativeEDIFACT, Bool.and_eq_true, decide_eq_true_eq] at g4; exact g4.1
      have hD := edifact_closed4_all h hp (kq - 1) Q' hQl hn' c1 c2 c3 g1 g2 g3
      have hA := decodesTo_ascii hD (c4 + 1) (by omega) (by omega)
      refine ⟨cw0 ++ [240] ++ (writeQuads (Q'.map ediVal)).1 ++ edifactPack [ediVal c1, ediVal c2, ediVal c3, 31] ++
        [c4 + 1], ?_, ?_⟩
      rotate_left
      · have hacc : (((a.pushAll Q').pushAll [c1, c2, c3]).push (c4 + 1 - 1)).endSeg = a.pushAll Q := by
          have hpend : (((a.pushAll Q').pushAll [c1, c2, c3]).push (c4 + 1 - 1)).pend = 0 := by
            rw [Nat.add_sub_cancel, Acc.push_pend_lt _ _ hc4,
              pushAll_pend_lt [c1, c2, c3] _ (by
                intro c hc; simp at hc; rcases hc with rfl | rfl | rfl
                · exact (ediVal_facts _ g1).2.2.2.2
                · exact (ediVal_facts _ g2).2.2.2.2
                · exact (ediVal_facts _ g3).2.2.2.2),
              pushAll_pend_lt Q' _ (fun c hc => (ediVal_facts c (hn' c hc)).2.2.2.2), hp]
          rw [Acc.endSeg_of_pend _ hpend, Nat.add_sub_cancel, hsplit, pushAll_append']
          simp [Acc.pushAll]
        rw [hacc] at hA
        exact hA
      · have q1 := (writeQuads_fst_length kq (Q.map ediVal) (by simpa using hl)).1
        have q2 := (writeQuads_fst_length (kq - 1) (Q'.map ediVal) (by simpa using hQl)).1
        simp only [List.length_append, List.length_cons, List.length_nil, q1, q2]
        have : (edifactPack [ediVal c1, ediVal c2, ediVal c3, 31]).length = 3 := by simp [edifactPack, edifactWord]
        rw [this]
        omega

end Gzx.DMHighLevel
