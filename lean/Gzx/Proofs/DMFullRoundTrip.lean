/-
  C02 / wp dmenc, item (b) — `dm_roundtrip` for ALL six encodation modes: for every symbol table with ascending
  capacities in which different capacities differ by at least two (`tableOK`; shown necessary by
  `dm_roundtrip_edifact_needs_symbol_gap`), every look-ahead that is exact arithmetic up to float rounding, every
  message of bytes and every hint configuration, what `encodeHL` returns decodes to exactly the message.
-/
import Gzx.Proofs.DMFullDispatch
namespace Gzx.DMHighLevel

theorem roundtrip_full (syms : List SymbolInfo) (htab : tableOK syms = true) (la : LookAhead)
    (hla : LaFloatLike la) (msg : List Nat) (cfg : Cfg) (cw : List Nat) (hb : ∀ x ∈ msg, x < 256)
    (h : encodeHL syms la msg cfg = .ok cw) : decodeText refTables cw = .ok msg := by
  obtain ⟨hsorted, hgap⟩ : sortedCap syms = true ∧ gapCap syms = true := by
    unfold tableOK at htab; rw [Bool.and_eq_true] at htab; exact htab
  obtain ⟨a0, hI0, hn0, htr0, hle0, hmsg0, htrail⟩ := initCtx_inv refTables msg cfg
  obtain ⟨hs0, hcfg0⟩ := initCtx_sym msg cfg
  have htot0 := totOK_initCtx msg cfg
  unfold encodeHL at h
  obtain ⟨r, hd, h⟩ := bind_ok h
  obtain ⟨c1, mode⟩ := r
  obtain ⟨c2, hu, h⟩ := bind_ok h
  obtain ⟨cap, hc, h⟩ := bind_ok h
  have P0 : Pre syms la ASCII (initCtx msg cfg) (initCtx msg cfg).cw a0 0 :=
    ⟨by rw [hmsg0]; exact hb, initCtx_bytes msg cfg, rfl, FSt.ascii hI0, hn0, htr0, hle0, by rw [hmsg0]; exact htot0,
      (by intro s hs; rw [hs0] at hs; cases hs), (by intro s hs; rw [hs0] at hs; cases hs), Sim.refl _ _, Or.inl rfl⟩
  obtain ⟨hmode, hB1, V', a', j', hV', hfin, htra, hmsg1, hskip1, hcfg1, hend, hff1, hsim, hdebt⟩ :=
    dispatch_full hla (dispatchFuel msg) c1 mode ASCII (initCtx msg cfg) (initCtx msg cfg).cw a0 0 P0 hd
  have hm1 : c1.msg = msg := by rw [hmsg1, hmsg0]
  -- the final symbol
  obtain ⟨ucw, _, _, ucfg, _, _, s, hs, hcapN, _⟩ := update_spec hu
  obtain ⟨s', hs', _, hmem, hadm⟩ := update_sym_adm hff1 hu
  have hss : s' = s := by rw [hs] at hs'; exact (Option.some.inj hs').symm
  subst hss
  obtain ⟨_, _, hkf⟩ := update_kf hu
  have hcapv : cap = s'.cap := by unfold Ctx.capacity at hc; rw [hs] at hc; cases hc; rfl
  have hnolatch : ¬ (c1.count < cap ∧ mode ≠ ASCII ∧ mode ≠ BASE256 ∧ mode ≠ EDIFACT) := by
    rcases hmode with rfl | rfl <;> simp
  simp only [hnolatch, if_false, Except.ok.injEq] at h
  subst h
  have hcnt2 : c2.count = c1.count := by simp [Ctx.count, ucw]
  rw [hcnt2, ucw]
  have hN : c1.count = V'.length := by simp only [Ctx.count]; rw [hV']
  obtain ⟨pad, hpad⟩ : ∃ p, p = padding c1.count cap := ⟨_, rfl⟩
  rw [← hpad]
  have hplen : c1.count + pad.length = cap := by rw [hpad]; exact padding_length _ _ (by rw [hcapv]; exact hcapN)
  have hpbytes : Bytes pad := by rw [hpad]; exact padding_bytes _ _
  have hpshape : pad = [] ∨ ∃ r, pad = 129 :: r := by rw [hpad]; exact padding_shape _ _
  -- (I) the virtual stream decodes
  have hvirt : decLoop refTables (V' ++ pad) 0 false 0 {} = .ok a' ∧ a'.rev.reverse = c1.msg.take c1.pos := by
    cases hfin with
    | inv hI =>
      have hdv : DecodesTo refTables V' a' := hI.dec
      exact ⟨by rw [hdv pad, decLoop_padding refTables a' _ _ hpshape], hI.text⟩
    | tail k hk hT hC =>
      refine ⟨?_, hT.text⟩
      obtain ⟨sk, hkm, hka, hkc, hksym⟩ := hC
      have hkc' : sk.cap = c1.count + k := by rw [hN]; exact hkc
      have hle : pad.length ≤ k := by
        rcases hksym with e | e
        · have e' : c1.sym = some sk := e
          have : c2.sym = some sk := by
            have h0 := update_noop (syms := syms) e' (n := c1.count) (by omega)
            rw [h0] at hu; cases hu; exact e'
          rw [hs] at this; cases this; omega
        · have e' : c1.sym = none := e
          rcases hkf with k1 | ⟨s2, hl2, hs2⟩
          · rw [k1, e'] at hs; cases hs
          · rw [hs] at hs2; cases hs2
            have := lookup_min hsorted hl2 sk hkm hka (by omega)
            omega
      have hdv : DecK refTables V' a' k := hT.dec
      rw [hdv pad hle, decLoop_padding refTables a' _ _ hpshape]
    | endpad jj hdj ht hsj =>
      refine ⟨?_, ht⟩
      have hle : jj ≤ pad.length := by
        rcases hsj with e | ⟨sj, hsj1, hsj2⟩
        · omega
        · have e' : c1.sym = some sj := hsj1
          have hsj2' : c1.count + jj ≤ sj.cap := by rw [hN]; exact hsj2
          have : c2.sym = some sj := by
            have h0 := update_noop (syms := syms) e' (n := c1.count) (by omega)
            rw [h0] at hu; cases hu; exact e'
          rw [hs] at this; cases this; omega
      have hdv : DecFrom refTables jj V' a' := hdj
      rw [hdv pad hle hpbytes, decLoop_padding refTables a' _ _ hpshape]
  -- (III) what is owed behind an EDIFACT unlatch is there
  have hj : j' ≤ pad.length := by
    rcases hdebt with e | ⟨L, y, am, pm, sm, n0, hVL, hjy, hdL, htm, htrm, hpm, hmm, hma, hlm, hn0, hcapm, hcases, hy⟩
    · omega
    · have hnm : c1.hasMore = false := by rw [hasMore_false_iff']; omega
      have hyne : y ≠ [] := by
        intro e; have := (hy e).2; rw [hnm] at this; cases this
      by_cases hy2 : 2 ≤ y.length
      · omega
      · have hy1 : y.length = 1 := by
          have : y.length ≠ 0 := fun e => hyne (List.eq_nil_of_length_eq_zero e)
          omega
        have hNL : c1.count = L.length + 1 := by rw [hN, hVL, List.length_append, hy1]
        rw [hjy, hy1]
        show 1 ≤ pad.length
        have hadm' : admissible c1.cfg s' = true := hadm
        rcases hcases with hA | hB | ⟨hC1, hC2⟩
        · have := lookup_min hsorted hlm s' hmem hadm' (by omega)
          omega
        · have := gap_of hgap hmm hmem (by omega)
          omega
        · -- the symbol at the unlatch had one codeword left and the rest did not fit: it cannot have fitted
          by_cases hp0 : pad.length = 0
          · exfalso
            have hpnil : pad = [] := List.eq_nil_of_length_eq_zero hp0
            obtain ⟨hdv, htv⟩ := hvirt
            rw [hpnil, List.append_nil, hVL] at hdv
            match y, hy1 with
            | [x1], _ =>
              rw [hdL [x1]] at hdv
              obtain ⟨l, hl1, hl2, hl3⟩ := decLoop_single refTables x1 _ am a' hdv (by rw [htra, htrm])
              rw [htv, htm, hend] at hl1
              have hsplit : c1.msg.take c1.total = c1.msg.take pm ++ (c1.msg.drop pm).take (c1.total - pm) := by
                rw [take_add_drop_take]; congr 1; omega
              rw [hsplit] at hl1
              have hl : (c1.msg.drop pm).take (c1.total - pm) = l := List.append_cancel_left hl1
              have hlen : l.length = c1.total - pm := by
                rw [← hl, List.length_take, List.length_drop]
                have : c1.total ≤ c1.msg.length := by simp only [Ctx.total]; omega
                omega
              rw [hl] at hC2
              have hneed : asciiNeed l = l.length := by
                rw [asciiNeed_eq]
                have : l.filter isExtended = [] := by
                  rw [List.filter_eq_nil_iff]
                  intro c hc
                  have := hl3 c hc
                  simp [isExtended]; omega
                rw [this]; simp
              rcases hC2 with e | e <;> omega
          · omega
  -- (II) transfer to the real stream
  unfold decodeText
  rw [hsim.2 pad hpbytes hj, hvirt.1]
  simp only [Except.map]
  congr 1
  simp only [Acc.text, hvirt.2, htra, hend, hm1, Ctx.total, hskip1]
  rcases htrail with ⟨hs, ht0⟩ | ⟨hs, ht0⟩
  · rw [hs, ht0]; simp
  · rw [hs, ht0]
    rcases htr0 with h0 | ⟨_, h2, hdrop⟩
    · rw [hs] at h0; cases h0
    · rw [hmsg0] at hdrop h2
      rw [← hdrop, List.take_append_drop]

end Gzx.DMHighLevel
