/-
  C02 / wp dmenc, item (b) — the dispatch loop of `EncodeHighLevel` with ALL SIX encodation modes, for every look-ahead
  that is exact arithmetic up to float rounding and every symbol table satisfying `tableOK`:
  invariant "the decoder, run on a VIRTUAL codeword prefix of the same length, has produced exactly the message
  consumed so far" + "the real prefix decodes like the virtual one on every byte continuation of at least `j`
  codewords" (`Sim`), where `j > 0` only behind a one-codeword EDIFACT unlatch (`MidInfo` keeps what was known about
  the symbol at that moment).
-/
import Gzx.Proofs.DMFullMid
import Gzx.Proofs.DMTermDispatch
import Gzx.Proofs.DMRoundTripGen
namespace Gzx.DMHighLevel

/-- the states of the dispatch loop, on the virtual context -/
inductive FSt (syms : List SymbolInfo) (la : LookAhead) : Nat → Ctx → Acc → Prop where
  | ascii {c a} : Inv refTables c a → FSt syms la ASCII c a
  | tail {m c a} (k : Nat) : k ≤ 2 → TailG refTables c a k → CapFact syms c k →
      (m = ASCII ∨ (m = BASE256 ∧ c.hasMore = false)) → FSt syms la m c a
  | latched {m c a} (code : Nat) : LatchedM refTables m code la c a → c.hasMore = true →
      ((m = BASE256 ∧ code = 231) ∨ (m = C40 ∧ code = 230) ∨ (m = X12 ∧ code = 238) ∨ (m = TEXT ∧ code = 239) ∨
       (m = EDIFACT ∧ code = 240)) → FSt syms la m c a
  | done256 {c a} : Inv refTables c a → c.hasMore = false → FSt syms la BASE256 c a
  | endpad {c a} (j : Nat) : DecFrom refTables j c.cw a → a.rev.reverse = c.msg.take c.pos → c.hasMore = false →
      (j = 0 ∨ ∃ s, c.sym = some s ∧ c.count + j ≤ s.cap) → FSt syms la ASCII c a

/-- the states the loop can end in -/
inductive Fin (syms : List SymbolInfo) (c : Ctx) (a : Acc) : Prop where
  | inv : Inv refTables c a → Fin syms c a
  | tail (k : Nat) : k ≤ 2 → TailG refTables c a k → CapFact syms c k → Fin syms c a
  | endpad (j : Nat) : DecFrom refTables j c.cw a → a.rev.reverse = c.msg.take c.pos →
      (j = 0 ∨ ∃ s, c.sym = some s ∧ c.count + j ≤ s.cap) → Fin syms c a

/-- what is remembered behind a one-codeword EDIFACT unlatch: `V = L ++ y` where `L` is the virtual prefix at the
    unlatch and `y` what has been written since; `j = 2 - |y|` codewords are still owed -/
def MidInfo (syms : List SymbolInfo) (mode : Nat) (c : Ctx) (V : List Nat) (trl : List Nat) (j : Nat) : Prop :=
  ∃ (L y : List Nat) (am : Acc) (pm : Nat) (sm : SymbolInfo) (n0 : Nat),
    V = L ++ y ∧ j = 2 - y.length ∧ DecodesTo refTables L am ∧ am.rev.reverse = c.msg.take pm ∧ am.trailer = trl ∧
    pm < c.total ∧ sm ∈ syms ∧ admissible c.cfg sm = true ∧ lookup syms c.cfg n0 = some sm ∧ n0 ≤ L.length + 1 ∧
    L.length ≤ sm.cap ∧
    (L.length + 2 ≤ sm.cap ∨ sm.cap = L.length ∨
      (sm.cap = L.length + 1 ∧ (2 < c.total - pm ∨ 2 < asciiNeed ((c.msg.drop pm).take (c.total - pm))))) ∧
    (y = [] → mode = ASCII ∧ c.hasMore = true)

def Debt (syms : List SymbolInfo) (mode : Nat) (c : Ctx) (V : List Nat) (trl : List Nat) (j : Nat) : Prop :=
  j = 0 ∨ MidInfo syms mode c V trl j

/-- a step that appends `x` (at least one codeword if nothing had been written since the unlatch) keeps the debt -/
theorem Debt.step {syms : List SymbolInfo} {mode mode' : Nat} {c c' : Ctx} {V x trl : List Nat} {j : Nat}
    (h : Debt syms mode c V trl j) (hmsg : c'.msg = c.msg) (hskip : c'.skipAtEnd = c.skipAtEnd)
    (hcfg : c'.cfg = c.cfg) (hx : mode = ASCII → 1 ≤ x.length) :
    Debt syms mode' c' (V ++ x) trl (j - x.length) := by
  rcases h with h | ⟨L, y, am, pm, sm, n0, hV, hj, hd, ht, htr, hpm, hmem, hadm, hl, hn0, hcap, hfacts, hy⟩
  · left; omega
  · have htot : c'.total = c.total := by simp [Ctx.total, hmsg, hskip]
    right
    refine ⟨L, y ++ x, am, pm, sm, n0, by rw [hV, List.append_assoc], by simp; omega, hd, by rw [hmsg]; exact ht, htr,
      by rw [htot]; exact hpm, hmem, by rw [hcfg]; exact hadm, by rw [hcfg]; exact hl, hn0, hcap, ?_, ?_⟩
    · rw [htot, hmsg]; exact hfacts
    · intro hyx
      exfalso
      have hy0 : y = [] := List.append_eq_nil_iff.mp hyx |>.1
      have hx0 : x = [] := List.append_eq_nil_iff.mp hyx |>.2
      have := hx (hy hy0).1
      rw [hx0] at this; simp at this

/-- the appended codewords of one encoder call, on the real and on the virtual context -/
theorem virt_step {syms : List SymbolInfo} {la : LookAhead} {mode : Nat} {c c1 : Ctx} {V : List Nat}
    (hb : Bytes c.msg) (hcb : Bytes c.cw) (hV : V.length = c.cw.length) (hm : c.hasMore = true)
    (hnew : c.newEnc = none) (h : encodeMode syms la mode c = .ok c1) :
    ∃ x, c1.cw = c.cw ++ x ∧ Bytes x ∧ Bytes c1.cw ∧ (V ++ x).length = c1.cw.length ∧
      encodeMode syms la mode (c.swap V) = .ok (c1.swap (V ++ x)) := by
  obtain ⟨x, hx, hx'⟩ := encodeMode_swap hV h
  have hB := encodeMode_bytes hb hcb hm hnew h
  refine ⟨x, hx, ?_, hB, by rw [hx]; simp [hV], hx'⟩
  intro y hy
  exact hB y (by rw [hx]; exact List.mem_append_right _ hy)

theorem capFact_of_full {syms : List SymbolInfo} {c : Ctx} {k : Nat} (hff : SymFF syms c)
    (h : ∃ s, c.sym = some s ∧ s.cap = c.count + k) : CapFact syms c k := by
  obtain ⟨s, hs, hcap⟩ := h
  obtain ⟨n, hn⟩ := hff s hs
  obtain ⟨_, _, hmem, hadm⟩ := lookup_idem hn
  exact ⟨s, hmem, hadm, hcap, Or.inl hs⟩

theorem symFF_swap {syms : List SymbolInfo} {c : Ctx} {V : List Nat} (h : SymFF syms c) : SymFF syms (c.swap V) := h

/-- with at most two codewords' worth of characters left the look-ahead stays in ASCII -/
theorem tail_la_ascii {la : LookAhead} (hla : LaFloatLike la) {c : Ctx} (htot : TotOK c.msg c.total)
    (hm : c.hasMore = true) (hneed : asciiNeed c.rest ≤ 2) : la c.msg c.pos ASCII = ASCII := by
  obtain ⟨ρ, hρ⟩ := hla c.msg c.pos ASCII
  rw [hρ]
  have hlt := (hasMore_iff' c).mp hm
  have hlen := totOK_le htot
  have hrl : c.rest.length = c.total - c.pos := by
    simp only [Ctx.rest, Ctx.remaining, List.length_take, List.length_drop]; omega
  have hge := asciiNeed_ge_length c.rest
  by_cases h1 : c.pos + 1 = c.total
  · exact laExactR_tail_ascii ρ c.msg c.total htot c.pos h1
  · have h2 : c.pos + 2 = c.total := by omega
    have h0 : c.pos < c.msg.length := by omega
    have h1' : c.pos + 1 < c.msg.length := by omega
    have hrest : c.rest = [c.msg[c.pos], c.msg[c.pos + 1]] := by
      simp only [Ctx.rest, Ctx.remaining]
      rw [show c.total - c.pos = 2 by omega, drop_succ_of_lt h0, drop_succ_of_lt h1']
      rfl
    rw [hrest] at hneed
    simp only [asciiNeed] at hneed
    have e1 : isExtended c.msg[c.pos] = false := by
      cases h : isExtended c.msg[c.pos] with
      | false => rfl
      | true => rw [h] at hneed; simp at hneed; split at hneed <;> omega
    have e2 : isExtended c.msg[c.pos + 1] = false := by
      cases h : isExtended c.msg[c.pos + 1] with
      | false => rfl
      | true => rw [h] at hneed; simp at hneed; split at hneed <;> omega
    exact laExactR_tail2_ascii ρ c.msg c.total htot c.pos _ _ h2 (List.getElem?_eq_getElem h0)
      (List.getElem?_eq_getElem h1') e1 e2

end Gzx.DMHighLevel
