/-
  C08: the table multiplication of the modelled createECCBlock (log/alog as init() builds them) equals the
  reference field multiplication (shift-and-add modulo 0x12D) on bytes; hence the modelled createECCBlock with the
  standard's factor table equals the reference parity `eccBlock` for every byte vector and every parity length.
-/
import Gzx.Proofs.DMGFChk
import Gzx.Proofs.DMEcc
import Gzx.Proofs.DMBytes
namespace Gzx.DMProofs
open Gzx Gzx.DMRef

theorem gfRowsOK_row : ∀ (n i : Nat), gfRowsOK n = true → i < n →
    DMEnc.alog.map (gfMul (DMEnc.alog.getD i 0)) = DMEnc.alog.drop i ++ DMEnc.alog.take i := by
  intro n
  induction n with
  | zero => intro i _ hi; omega
  | succ n ih =>
    intro i h hi
    simp only [gfRowsOK, Bool.and_eq_true, beq_iff_eq] at h
    by_cases hin : i = n
    · subst hin; exact h.1
    · exact ih i h.2 (by omega)

theorem alog_length : DMEnc.alog.length = 255 := by
  have h := logOK_true
  unfold logOK at h
  simp only [Bool.and_eq_true, beq_iff_eq] at h
  exact h.1.1.1

theorem rot_getElem? (l : List Nat) (hl : l.length = 255) (i j : Nat) (hi : i < 255) (hj : j < 255) :
    (l.drop i ++ l.take i)[j]? = l[(i + j) % 255]? := by
  by_cases h : j < 255 - i
  · rw [List.getElem?_append_left (by rw [List.length_drop, hl]; exact h), List.getElem?_drop]
    congr 1
    omega
  · rw [List.getElem?_append_right (by rw [List.length_drop, hl]; omega), List.length_drop, hl,
      List.getElem?_take]
    have h1 : j - (255 - i) < i := by omega
    rw [if_pos h1]
    congr 1
    omega

/-- `2^i · 2^j = 2^((i+j) mod 255)` for the reference multiplication and the modelled antilog table -/
theorem gfMul_alog (i j : Nat) (hi : i < 255) (hj : j < 255) :
    gfMul (DMEnc.alog.getD i 0) (DMEnc.alog.getD j 0) = DMEnc.alog.getD ((i + j) % 255) 0 := by
  have hrow := gfRowsOK_row 255 i gfRowsOK_all hi
  have h1 := congrArg (fun l => l[j]?) hrow
  simp only [List.getElem?_map] at h1
  rw [rot_getElem? _ alog_length i j hi hj] at h1
  have hjl : j < DMEnc.alog.length := by rw [alog_length]; exact hj
  have hkl : (i + j) % 255 < DMEnc.alog.length := by rw [alog_length]; exact Nat.mod_lt _ (by decide)
  rw [List.getElem?_eq_getElem hjl, List.getElem?_eq_getElem hkl] at h1
  simp only [Option.map_some, Option.some.injEq] at h1
  simp only [List.getD_eq_getElem?_getD, List.getElem?_eq_getElem hjl, List.getElem?_eq_getElem hkl,
    Option.getD_some]
  exact h1

theorem gfMulAux_zero_left : ∀ (k b acc : Nat), gfMulAux k 0 b acc = acc := by
  intro k
  induction k with
  | zero => intro b acc; rfl
  | succ k ih =>
    intro b acc
    simp only [gfMulAux]
    have hx : xtime 0 = 0 := by decide
    rw [hx, ih]
    split <;> simp

theorem gfMulAux_zero_right : ∀ (k a acc : Nat), gfMulAux k a 0 acc = acc := by
  intro k
  induction k with
  | zero => intro a acc; rfl
  | succ k ih =>
    intro a acc
    simp only [gfMulAux]
    rw [Nat.zero_div, ih]
    simp

/-- the modelled table multiplication is the reference field multiplication on bytes -/
theorem tabMul_eq_gfMul (a b : Nat) (ha : a < 256) (hb : b < 256) : DMEnc.tabMul a b = gfMul a b := by
  have hlog := logOK_true
  unfold logOK at hlog
  simp only [Bool.and_eq_true, beq_iff_eq, List.all_eq_true, List.mem_range, Bool.or_eq_true,
    decide_eq_true_eq] at hlog
  obtain ⟨⟨⟨_, _⟩, hinv⟩, _⟩ := hlog
  unfold DMEnc.tabMul
  by_cases ha0 : a = 0
  · subst ha0
    simp only [ne_eq, not_true_eq_false, false_and, if_false]
    unfold gfMul
    rw [gfMulAux_zero_left]
  by_cases hb0 : b = 0
  · subst hb0
    simp only [ne_eq, not_true_eq_false, and_false, if_false]
    unfold gfMul
    rw [gfMulAux_zero_right]
  simp only [ne_eq, ha0, hb0, not_false_eq_true, and_self, if_true]
  rcases hinv a ha with h | ⟨hla, hia⟩
  · exact absurd h ha0
  rcases hinv b hb with h | ⟨hlb, hib⟩
  · exact absurd h hb0
  have := gfMul_alog _ _ hla hlb
  rw [hia, hib] at this
  exact this.symm

theorem polyRem_congr (gs : List Nat) (hgs : allBytes gs) : ∀ (k : Nat) (xs : List Nat), allBytes xs →
    polyRem DMEnc.tabMul gs k xs = polyRem gfMul gs k xs := by
  intro k
  induction k with
  | zero => intro xs _; rfl
  | succ k ih =>
    intro xs h
    cases xs with
    | nil => rfl
    | cons c xs =>
      simp only [polyRem]
      have hc : c < 256 := h c List.mem_cons_self
      have hmap : gs.map (DMEnc.tabMul c) = gs.map (gfMul c) := by
        apply List.map_congr_left
        intro g hg
        exact tabMul_eq_gfMul c g hc (hgs g hg)
      rw [hmap]
      apply ih
      apply xorPrefix_bytes
      · exact fun w hw => h w (List.mem_cons_of_mem _ hw)
      · intro w hw
        obtain ⟨g, _, rfl⟩ := List.mem_map.1 hw
        exact gfMul_lt c g hc

/-- per parity length: where the table row is found and what it is -/
def factorRowsOK : Bool :=
  parityLengths.zipIdx.all (fun nt =>
    decide (DMEnc.findTable nt.1 parityLengths 0 = some nt.2) &&
    decide (factorTable[nt.2]? = some ((genPoly nt.1).take nt.1)) &&
    decide (((genPoly nt.1).take nt.1).length = nt.1) && decide (0 < nt.1) &&
    ((genPoly nt.1).take nt.1).all (· < 256))

set_option maxRecDepth 1000000 in
theorem factorRowsOK_true : factorRowsOK = true := by decide +kernel

/-- The modelled `createECCBlock` with the standard's tables (which the regenerated Go tables equal:
    `Obligations.C08.gen_factorSets_eq`, `gen_factors_eq`) returns the reference parity `eccBlock n data`
    for every byte vector `data` and each of the 16 parity lengths `n`. -/
theorem createECCBlock_eq_ref (n : Nat) (hn : n ∈ parityLengths) (data : List Nat) (hd : allBytes data) :
    DMEnc.createECCBlock parityLengths factorTable data n = .ok (eccBlock n data) := by
  obtain ⟨t, hnt⟩ : ∃ t, (n, t) ∈ parityLengths.zipIdx := by
    obtain ⟨t, ht, hte⟩ := List.mem_iff_getElem.1 hn
    exact ⟨t, List.mem_zipIdx_iff_getElem?.2 (by simp [List.getElem?_eq_getElem ht, hte])⟩
  have hrow := factorRowsOK_true
  unfold factorRowsOK at hrow
  rw [List.all_eq_true] at hrow
  have h := hrow (n, t) hnt
  simp only [Bool.and_eq_true, decide_eq_true_eq, List.all_eq_true] at h
  obtain ⟨⟨⟨⟨h1, h2⟩, h3⟩, h4⟩, h5⟩ := h
  have hb : ((genPoly n).take n).all (· < 256) = true := by
    rw [List.all_eq_true]; intro x hx; simpa using h5 x hx
  have hmodel : DMEnc.createECCBlock parityLengths factorTable data n =
      .ok (polyRem DMEnc.tabMul ((genPoly n).take n).reverse data.length (data ++ List.replicate n 0)) := by
    unfold DMEnc.createECCBlock
    simp only [h1, h2]
    have htake : ((genPoly n).take n).take n = (genPoly n).take n := List.take_of_length_le (by omega)
    cases data with
    | nil => simp [polyRem]
    | cons d ds =>
      have hn0 : ¬ n = 0 := by omega
      have hlt : ¬ ((genPoly n).take n).length < n := by omega
      simp only [List.isEmpty_cons, Bool.false_eq_true, if_false, hn0, hlt, hb, Bool.not_true, htake]
      have := lfsr_eq_polyRem DMEnc.tabMul ((genPoly n).take n) (by omega) (d :: ds)
      rw [h3] at this
      rw [this]
  rw [hmodel]
  unfold eccBlock genHigh
  congr 1
  apply polyRem_congr
  · intro g hg
    have hg' := List.mem_reverse.1 hg
    exact h5 g hg'
  · intro x hx
    rcases List.mem_append.1 hx with hx1 | hx1
    · exact hd x hx1
    · rw [List.eq_of_mem_replicate hx1]; decide

end Gzx.DMProofs
