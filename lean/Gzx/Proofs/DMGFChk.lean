/-
  C08: kernel evaluation of the GF(256)/0x12D multiplication table in exponent order:
  for every i < 255, the row `y ↦ gfMul (2^i) y` over `y = 2^0, 2^1, …, 2^254` is the antilog table rotated by i,
  i.e. `gfMul (2^i) (2^j) = 2^((i+j) mod 255)` with the shift-and-add multiplication of the reference and the
  antilog table built as the Go init() builds it.  65025 products; about two minutes of kernel time.
-/
import Gzx.Ref.DM
import Gzx.Model.DMEncoder
namespace Gzx.DMProofs
open Gzx Gzx.DMRef

def gfRowsOK : Nat → Bool
  | 0 => true
  | i + 1 => (DMEnc.alog.map (gfMul (DMEnc.alog.getD i 0)) == DMEnc.alog.drop i ++ DMEnc.alog.take i) && gfRowsOK i

set_option maxRecDepth 10000000 in
theorem gfRowsOK_all : gfRowsOK 255 = true := by decide +kernel

/-- log / antilog tables of the model are inverse on 1..255 -/
def logOK : Bool :=
  DMEnc.alog.length == 255 && DMEnc.log.length == 256 &&
  (List.range 256).all (fun a => a == 0 ||
    (decide (DMEnc.log.getD a 0 < 255) && DMEnc.alog.getD (DMEnc.log.getD a 0) 0 == a)) &&
  DMEnc.alog.all (fun v => decide (0 < v) && decide (v < 256))

set_option maxRecDepth 10000000 in
theorem logOK_true : logOK = true := by decide +kernel

end Gzx.DMProofs
