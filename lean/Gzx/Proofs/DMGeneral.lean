/-
  C02: bounded-suffix decoder facts (`DecK`) and the "tail" state: a non-ASCII segment was ended WITHOUT an
  unlatch because the symbol has only `k ≤ 2` codewords left, which the decoder reads in ASCII.
-/
import Gzx.Proofs.DMAsciiRoundTrip
import Gzx.Proofs.DMBase256
namespace Gzx.DMHighLevel

/-- like `DecodesTo`, but only for at most `k` further codewords -/
def DecK (T : Tables) (cw : List Nat) (a : Acc) (k : Nat) : Prop :=
  ∀ suf, suf.length ≤ k → decLoop T (cw ++ suf) 0 false 0 {} = decLoop T suf 0 false cw.length a

theorem DecodesTo.decK {T : Tables} {cw : List Nat} {a : Acc} (h : DecodesTo T cw a) (k : Nat) : DecK T cw a k :=
  fun suf _ => h suf

theorem DecK.mono {T : Tables} {cw : List Nat} {a : Acc} {k k' : Nat} (h : DecK T cw a k) (hk : k' ≤ k) :
    DecK T cw a k' := fun suf hs => h suf (by omega)

theorem decK_ascii {T : Tables} {cw : List Nat} {a : Acc} {k : Nat} (h : DecK T cw a (k + 1))
    (b : Nat) (h1 : 1 ≤ b) (h2 : b ≤ 128) : DecK T (cw ++ [b]) ((a.push (b - 1)).endSeg) k := by
  intro suf hs
  rw [List.append_assoc, h _ (by simp; omega)]
  have hb0 : ¬ b = 0 := by omega
  simp [decLoop, hb0, h2]

theorem decK_digits {T : Tables} {cw : List Nat} {a : Acc} {k : Nat} (h : DecK T cw a (k + 1))
    (b : Nat) (h1 : 130 ≤ b) (h2 : b ≤ 229) : DecK T (cw ++ [b]) (a.pushAll (digitPair (b - 130))) k := by
  intro suf hs
  rw [List.append_assoc, h _ (by simp; omega)]
  have hb0 : ¬ b = 0 := by omega
  have hb1 : ¬ b ≤ 128 := by omega
  have hb2 : ¬ b = 129 := by omega
  simp [decLoop, hb0, hb1, hb2, h2]

theorem decK_upper {T : Tables} {cw : List Nat} {a : Acc} {k : Nat} (h : DecK T cw a (k + 2))
    (b : Nat) (h1 : 1 ≤ b) (h2 : b ≤ 128) : DecK T (cw ++ [235, b]) ((a.push (b + 128 - 1)).endSeg) k := by
  intro suf hs
  rw [List.append_assoc, h _ (by simp; omega)]
  have hb0 : ¬ b = 0 := by omega
  simp [decLoop, hb0, h2]

/-- codewords the ASCII encodation needs at most: two for an extended character, one otherwise -/
def asciiNeed : List Nat → Nat
  | [] => 0
  | c :: cs => (if isExtended c then 2 else 1) + asciiNeed cs

theorem asciiNeed_ge_length (l : List Nat) : l.length ≤ asciiNeed l := by
  induction l with
  | nil => simp [asciiNeed]
  | cons c cs ih => simp only [asciiNeed, List.length_cons]; split <;> omega

/-- the characters still to be encoded -/
def Ctx.rest (c : Ctx) : List Nat := (c.msg.drop c.pos).take c.remaining

/-- A segment was closed without unlatch: the symbol has exactly `k` codewords left, the rest of the message
    fits there in ASCII encodation, and the decoder reads up to `k` further codewords in ASCII. -/
structure Tail (T : Tables) (c : Ctx) (a : Acc) (k : Nat) : Prop where
  dec : DecK T c.cw a k
  text : a.rev.reverse = c.msg.take c.pos
  pend : a.pend = 0
  full : ∃ s, c.sym = some s ∧ s.cap = c.count + k
  need : asciiNeed c.rest ≤ k

theorem Exact.tail {T : Tables} {c : Ctx} {a : Acc} (h : Exact T c a) (hm : c.hasMore = false) :
    Tail T c a 0 := by
  refine ⟨?_, h.text, h.pend, ?_, ?_⟩
  · intro suf hs
    have : suf = [] := List.eq_nil_of_length_eq_zero (by omega)
    subst this
    simp only [List.append_nil, decLoop]
    exact h.dec
  · obtain ⟨s, hs, hc⟩ := h.full
    exact ⟨s, hs, by omega⟩
  · have : c.remaining = 0 := by
      have := (hasMore_false_iff' c).mp hm
      simp only [Ctx.remaining]; omega
    simp [Ctx.rest, this, asciiNeed]

/-- one ASCII step in a tail state (the oracle has to stay in ASCII there) -/
theorem ascii_step_tail {T : Tables} {la : LookAhead} {c c' : Ctx} {a : Acc} {k : Nat}
    (hbytes : ∀ x ∈ c.msg, x < 256) (hT : Tail T c a k) (hm : c.hasMore = true) (hle : c.pos ≤ c.total)
    (htr : TrailerOK c) (hla : la c.msg c.pos ASCII = ASCII) (h : asciiEncode la c = .ok c') :
    ∃ a' k', Tail T c' a' k' ∧ k' < k ∧ a'.trailer = a.trailer ∧ SameFrame c c' ∧ c.pos < c'.pos ∧
      c'.pos ≤ c'.total ∧ c'.newEnc = c.newEnc := by
  have hlt : c.pos < c.total := (hasMore_iff' c).mp hm
  have hrem : c.remaining = c.total - c.pos := rfl
  unfold asciiEncode at h
  simp only at h
  split at h
  · -- digit pair
    rename_i hn
    obtain ⟨d1, d2, r, hl, hd1, hd2⟩ := digitRun_two hn
    obtain ⟨g1, t1, dr1, lt1⟩ := drop_cons_facts hl
    obtain ⟨g2, t2, _, lt2⟩ := drop_cons_facts dr1
    rw [g1, g2] at h
    simp only [Except.ok.injEq] at h
    subst h
    have hd1' := hd1
    have hd2' := hd2
    simp only [isDigit, Bool.and_eq_true, decide_eq_true_eq] at hd1 hd2
    -- the second digit is before the (skipped) macro trailer
    have hpos2 : c.pos + 2 ≤ c.total := by
      rcases htr with h0 | ⟨hs2, hl2, hdrop⟩
      · simp only [Ctx.total, h0] at hlt ⊢; omega
      · simp only [Ctx.total, hs2] at hlt ⊢
        by_cases hx : c.pos + 1 = c.msg.length - 2
        · exfalso
          obtain ⟨g, _, _, _⟩ := drop_cons_facts (l := c.msg) (pos := c.msg.length - 2) (x := 30) (r := [4]) hdrop
          rw [hx, g] at g2
          cases g2
          omega
        · omega
    have hrest : c.rest = d1 :: d2 :: (r.take (c.remaining - 2)) := by
      simp only [Ctx.rest, hl]
      have : c.remaining = (c.remaining - 2) + 1 + 1 := by omega
      rw [this, List.take_succ_cons, List.take_succ_cons]
      simp
    have hneed := hT.need
    rw [hrest] at hneed
    have e1 : isExtended d1 = false := by simp [isExtended]; omega
    have e2 : isExtended d2 = false := by simp [isExtended]; omega
    simp only [asciiNeed, e1, e2, Bool.false_eq_true, if_false] at hneed
    have hk : 2 ≤ k := by omega
    obtain ⟨s, hs, hcap⟩ := hT.full
    have hcw : (d1 - 48) * 10 + (d2 - 48) + 130 - 130 = (d1 - 48) * 10 + (d2 - 48) := by omega
    have hdp := digitPair_digits (d1 - 48) (d2 - 48) (by omega) (by omega)
    have e1' : 48 + (d1 - 48) = d1 := by omega
    have e2' : 48 + (d2 - 48) = d2 := by omega
    rw [e1', e2'] at hdp
    refine ⟨(a.push d1).push d2, k - 1, ⟨?_, ?_, ?_, ⟨s, hs, ?_⟩, ?_⟩, by omega, rfl, ⟨rfl, rfl, rfl, rfl⟩,
      by simp, by simp only [Ctx.write, Ctx.total] at hpos2 ⊢; exact hpos2, rfl⟩
    · have hk1 : k = (k - 1) + 1 := by omega
      have hd := hT.dec
      rw [hk1] at hd
      have := decK_digits hd ((d1 - 48) * 10 + (d2 - 48) + 130) (by omega) (by omega)
      rw [hcw, hdp] at this
      simpa [Ctx.write, Acc.pushAll] using this
    · simp only [Ctx.write, Acc.push_rev, hT.text]
      rw [t2, t1]
    · rw [Acc.push_pend_lt _ _ (by omega), Acc.push_pend_lt _ _ (by omega), hT.pend]
    · simp only [Ctx.write, Ctx.count, List.length_append, List.length_cons, List.length_nil] at hcap ⊢
      omega
    · have hr' : ({ c.write ((d1 - 48) * 10 + (d2 - 48) + 130) with pos := c.pos + 2 } : Ctx).rest
          = r.take (c.remaining - 2) := by
        simp only [Ctx.rest, Ctx.write, Ctx.remaining, Ctx.total]
        have hdd : c.msg.drop (c.pos + 2) = r := by
          have : c.msg.drop (c.pos + 2) = (c.msg.drop c.pos).drop 2 := by rw [List.drop_drop]
          rw [this, hl]; rfl
        rw [hdd]
        first | rfl | (congr 1; omega)
      rw [hr']; omega
  · cases hc : c.cur with
    | error e => rw [hc] at h; simp [bind, Except.bind] at h
    | ok ch =>
      rw [hc] at h
      simp only [bind, Except.bind, hla, ne_eq, not_true_eq_false, if_false] at h
      obtain ⟨hget, hltl⟩ := cur_spec hc
      have hch : ch < 256 := hbytes ch (List.mem_of_getElem? hget)
      have htake : c.msg.take (c.pos + 1) = c.msg.take c.pos ++ [ch] := by
        rw [List.take_add_one, hget]; rfl
      have hdrop := drop_eq_cons_of_getElem? hget
      have hrest : c.rest = ch :: ((c.msg.drop (c.pos + 1)).take (c.remaining - 1)) := by
        simp only [Ctx.rest, hdrop]
        have : c.remaining = (c.remaining - 1) + 1 := by omega
        rw [this, List.take_succ_cons]; simp
      have hneed := hT.need
      rw [hrest] at hneed
      simp only [asciiNeed] at hneed
      obtain ⟨s, hs, hcap⟩ := hT.full
      have hrest' : ∀ (cc : Ctx), cc.msg = c.msg → cc.pos = c.pos + 1 → cc.skipAtEnd = c.skipAtEnd →
          cc.rest = (c.msg.drop (c.pos + 1)).take (c.remaining - 1) := by
        intro cc e1 e2 e3
        simp only [Ctx.rest, Ctx.remaining, Ctx.total, e1, e2, e3]
        first | rfl | (congr 1; omega)
      split at h
      · rename_i hext
        simp only [Except.ok.injEq] at h
        subst h
        simp only [hext, if_true] at hneed
        have hext' := hext
        simp only [isExtended, Bool.and_eq_true, decide_eq_true_eq] at hext
        refine ⟨(a.push ch).endSeg, k - 2, ⟨?_, ?_, rfl, ⟨s, hs, ?_⟩, ?_⟩, by omega, rfl, ⟨rfl, rfl, rfl, rfl⟩,
          by simp [Ctx.write], by simp only [Ctx.write, Ctx.total] at hlt ⊢; omega, rfl⟩
        · have hk1 : k = (k - 2) + 2 := by omega
          have hd := hT.dec
          rw [hk1] at hd
          have := decK_upper hd (ch - 128 + 1) (by omega) (by omega)
          have e : ch - 128 + 1 + 128 - 1 = ch := by omega
          rw [e] at this
          simpa [Ctx.write, List.append_assoc] using this
        · simp only [Ctx.write, Acc.endSeg_rev, Acc.push_rev, hT.text, htake]
        · simp only [Ctx.write, Ctx.count, List.length_append, List.length_cons, List.length_nil] at hcap ⊢
          omega
        · have := hrest' ({ (c.write 235).write (ch - 128 + 1) with pos := c.pos + 1 } : Ctx) rfl rfl rfl
          rw [this]; omega
      · rename_i hext
        simp only [Except.ok.injEq] at h
        subst h
        simp only [hext, Bool.false_eq_true, if_false] at hneed
        have hlt128 : ch < 128 := by
          simp only [isExtended, Bool.and_eq_true, decide_eq_true_eq, not_and] at hext
          omega
        refine ⟨(a.push ch).endSeg, k - 1, ⟨?_, ?_, rfl, ⟨s, hs, ?_⟩, ?_⟩, by omega, rfl, ⟨rfl, rfl, rfl, rfl⟩,
          by simp [Ctx.write], by simp only [Ctx.write, Ctx.total] at hlt ⊢; omega, rfl⟩
        · have hk1 : k = (k - 1) + 1 := by omega
          have hd := hT.dec
          rw [hk1] at hd
          have := decK_ascii hd (ch + 1) (by omega) (by omega)
          simpa [Ctx.write] using this
        · simp only [Ctx.write, Acc.endSeg_rev, Acc.push_rev, hT.text, htake]
        · simp only [Ctx.write, Ctx.count, List.length_append, List.length_cons, List.length_nil] at hcap ⊢
          omega
        · have := hrest' ({ c.write (ch + 1) with pos := c.pos + 1 } : Ctx) rfl rfl rfl
          rw [this]; omega

end Gzx.DMHighLevel
