/-
  Helper lemmas for C02 (Data Matrix codeword level): codec inverses.
-/
import Gzx.Model.DMHighLevel
namespace Gzx.DMHighLevel

/-! ## ASCII digit pairs -/

theorem digitPair_digits (d1 d2 : Nat) (h1 : d1 < 10) (h2 : d2 < 10) :
    digitPair (d1 * 10 + d2) = [48 + d1, 48 + d2] := by
  unfold digitPair itoa2
  by_cases h : d1 * 10 + d2 < 10
  · have h0 : d1 = 0 := by omega
    subst h0
    have hd : 0 * 10 + d2 = d2 := by omega
    rw [hd] at h ⊢
    simp [h]
  · have e1 : (d1 * 10 + d2) / 10 = d1 := by omega
    have e2 : (d1 * 10 + d2) % 10 = d2 := by omega
    simp [h, e1, e2]

/-! ## C40 / Text / X12 triplet packing -/

theorem parseTwoBytes_pack (c1 c2 c3 : Nat) (h1 : c1 < 40) (h2 : c2 < 40) (h3 : c3 < 40) :
    parseTwoBytes ((1600 * c1 + 40 * c2 + c3 + 1) / 256 % 256) ((1600 * c1 + 40 * c2 + c3 + 1) % 256)
      = ((c1 : Int), (c2 : Int), (c3 : Int)) := by
  unfold parseTwoBytes
  have hv : (1600 * c1 + 40 * c2 + c3 + 1) / 256 % 256 = (1600 * c1 + 40 * c2 + c3 + 1) / 256 := by omega
  rw [hv]
  have hfull : ((((1600 * c1 + 40 * c2 + c3 + 1) / 256 : Nat) : Int) * 256
      + (((1600 * c1 + 40 * c2 + c3 + 1) % 256 : Nat) : Int) - 1) = ((1600 * c1 + 40 * c2 + c3 : Nat) : Int) := by
    omega
  simp only [hfull]
  have t1 : Int.tdiv ((1600 * c1 + 40 * c2 + c3 : Nat) : Int) 1600 = (c1 : Int) := by
    rw [Int.tdiv_eq_ediv_of_nonneg (by omega)]
    omega
  simp only [t1]
  have hrem : ((1600 * c1 + 40 * c2 + c3 : Nat) : Int) - (c1 : Int) * 1600 = ((40 * c2 + c3 : Nat) : Int) := by
    omega
  simp only [hrem]
  have t2 : Int.tdiv ((40 * c2 + c3 : Nat) : Int) 40 = (c2 : Int) := by
    rw [Int.tdiv_eq_ediv_of_nonneg (by omega)]
    omega
  simp only [t2]
  have : ((40 * c2 + c3 : Nat) : Int) - (c2 : Int) * 40 = (c3 : Int) := by omega
  simp only [this]

/-! ## Base 256 randomisation -/

theorem unrand255_rand255 (b p : Nat) (hb : b < 256) : unrand255 (rand255 b p) p = b := by
  unfold unrand255 rand255
  simp only
  split <;> split <;> omega

theorem rand255_lt (b p : Nat) (hb : b < 256) : rand255 b p < 256 := by
  unfold rand255
  simp only
  split <;> omega

/-! ## pad codewords -/

theorem rand253_range (p : Nat) : 1 ≤ rand253 p ∧ rand253 p ≤ 254 ∧ rand253 p ≠ 129 := by
  unfold rand253
  simp only
  split <;> omega

/-! ## EDIFACT -/

theorem edifactUnpack_word (c1 c2 c3 c4 : Nat) (h1 : c1 < 64) (h2 : c2 < 64) (h3 : c3 < 64) (h4 : c4 < 64) :
    ∃ b1 b2 b3, edifactWord c1 c2 c3 c4 = [b1, b2, b3] ∧ b1 < 256 ∧ b2 < 256 ∧ b3 < 256 ∧
      edifactUnpack b1 b2 b3 = [c1, c2, c3, c4] := by
  refine ⟨_, _, _, rfl, by omega, by omega, by omega, ?_⟩
  unfold edifactUnpack
  simp only
  have hv : (c1 * 262144 + c2 * 4096 + c3 * 64 + c4) / 65536 % 256 * 65536
      + (c1 * 262144 + c2 * 4096 + c3 * 64 + c4) / 256 % 256 * 256
      + (c1 * 262144 + c2 * 4096 + c3 * 64 + c4) % 256 = c1 * 262144 + c2 * 4096 + c3 * 64 + c4 := by omega
  rw [hv]
  have e1 : (c1 * 262144 + c2 * 4096 + c3 * 64 + c4) / 262144 % 64 = c1 := by omega
  have e2 : (c1 * 262144 + c2 * 4096 + c3 * 64 + c4) / 4096 % 64 = c2 := by omega
  have e3 : (c1 * 262144 + c2 * 4096 + c3 * 64 + c4) / 64 % 64 = c3 := by omega
  have e4 : (c1 * 262144 + c2 * 4096 + c3 * 64 + c4) % 64 = c4 := by omega
  rw [e1, e2, e3, e4]

end Gzx.DMHighLevel

namespace Gzx.DMHighLevel

/-! ## the C40 / Text value automaton on a list of values -/

/-- run `cValueCore` over a list of values, collecting what is appended -/
def runVals (T : Tables) (text : Bool) : List Int → CState → Res (CState × List Emit)
  | [], st => .ok (st, [])
  | v :: vs, st =>
    match cValueCore T text v st with
    | .error x => .error x
    | .ok (st', e) =>
      match runVals T text vs st' with
      | .error x => .error x
      | .ok (st'', es) => .ok (st'', e :: es)

def realEmits (es : List Emit) : List Emit := es.filter (fun e => e != .none)

/-- decidable form of "the values of character `c` decode to exactly `c` and leave the automaton in its
    initial state" -/
def charRoundTrips (T : Tables) (text : Bool) (c : Nat) : Bool :=
  match runVals T text ((cEncodeChar text c).map Int.ofNat) {} with
  | .ok (st, es) => st == {} && realEmits es == [.char c] && (cEncodeChar text c).all (· < 40)
  | .error _ => false

set_option maxRecDepth 100000 in
theorem c40_chars_roundtrip : ∀ c : Fin 256, charRoundTrips refTables false c.val = true := by decide +kernel
set_option maxRecDepth 100000 in
theorem text_chars_roundtrip : ∀ c : Fin 256, charRoundTrips refTables true c.val = true := by decide +kernel

def x12RoundTrips (c : Nat) : Bool :=
  match x12EncodeChar c with
  | .ok v => isNativeX12 c && decide (v < 40) && x12Value (v : Int) == .ok c
  | .error _ => !isNativeX12 c

set_option maxRecDepth 100000 in
theorem x12_chars_roundtrip : ∀ c : Fin 256, x12RoundTrips c.val = true := by decide +kernel

def edifactRoundTrips (c : Nat) : Bool :=
  match edifactEncodeChar c with
  | .ok v => isNativeEDIFACT c && decide (v < 64) && decide (v ≠ 31) && edifactChar v == c
  | .error _ => !isNativeEDIFACT c

set_option maxRecDepth 100000 in
theorem edifact_chars_roundtrip : ∀ c : Fin 256, edifactRoundTrips c.val = true := by decide +kernel

end Gzx.DMHighLevel
