/-
  Helper lemmas for C08, interleaving side.  The reference interleaving (`DMRef.codewords`), the decoder's
  de-interleaving (`DMDec.getDataBlocks`) and the decoder's final copy (`DMDec.resultBytes`) only MOVE
  codewords.  So their composition is determined by what it does to a vector of distinct labels:
  `ilvCheck` runs them on labels (kernel evaluation, per symbol size), the naturality lemmas below transfer
  the result to every codeword vector.
-/
import Gzx.Ref.DM
import Gzx.Model.DMDecoder
import Gzx.Proofs.DMEcc
namespace Gzx.DMProofs
open Gzx Gzx.DMRef

/-! ## the reference interleaving with the error codewords as a parameter -/

/-- `DMRef.codewords` with the per-block error codewords given -/
def assemble (s : Sym) (d : List Nat) (eccs : List (List Nat)) : List Nat :=
  d ++ (List.range s.nErr).map (fun k => ((eccs.getD ((s.nData + k) % s.blocks) []).getD (k / s.blocks) 0))

theorem codewords_eq_assemble (s : Sym) (d : List Nat) :
    codewords s d = assemble s d ((List.range s.blocks).map (blockEcc s d)) := rfl

/-! ## naturality: the functions commute with `map f` (for `f 0 = 0` where a zero default is involved) -/

theorem getD_map0 (f : Nat → Nat) (h0 : f 0 = 0) (l : List Nat) (i : Nat) :
    (l.map f).getD i 0 = f (l.getD i 0) := by
  simp only [List.getD_eq_getElem?_getD, List.getElem?_map]
  cases l[i]? <;> simp [h0]

theorem getD_mapmap (f : Nat → Nat) (L : List (List Nat)) (i : Nat) :
    (L.map (List.map f)).getD i [] = (L.getD i []).map f := by
  simp only [List.getD_eq_getElem?_getD, List.getElem?_map]
  cases L[i]? <;> simp

theorem assemble_map (f : Nat → Nat) (h0 : f 0 = 0) (s : Sym) (d : List Nat) (eccs : List (List Nat)) :
    assemble s (d.map f) (eccs.map (List.map f)) = (assemble s d eccs).map f := by
  unfold assemble
  simp only [List.map_append, List.map_map]
  congr 1
  apply List.map_congr_left
  intro k _
  simp only [Function.comp_apply, getD_mapmap, getD_map0 f h0]

theorem everyNthAux_map (f : Nat → Nat) (B : Nat) : ∀ (xs : List Nat) (k : Nat),
    everyNthAux B k (xs.map f) = (everyNthAux B k xs).map f := by
  intro xs
  induction xs with
  | nil => intro k; cases k <;> simp [everyNthAux]
  | cons x xs ih =>
    intro k
    cases k with
    | zero => simp [everyNthAux, ih]
    | succ k => simp [everyNthAux, ih]

theorem blockData_map (f : Nat → Nat) (s : Sym) (d : List Nat) (b : Nat) :
    blockData s (d.map f) b = (blockData s d b).map f := by
  unfold blockData everyNth
  rw [← List.map_drop, everyNthAux_map]

theorem set2_map (f : Nat → Nat) (blocks : List (List Nat)) (j i x : Nat) :
    DMDec.set2 (blocks.map (List.map f)) j i (f x) = (DMDec.set2 blocks j i x).map (List.map (List.map f)) := by
  unfold DMDec.set2
  rw [List.getElem?_map]
  cases blocks[j]? with
  | none => rfl
  | some b =>
    simp only [Option.map_some, List.length_map]
    split
    · simp [List.map_set]
    · rfl

def mapBlocks (f : Nat → Nat) : Res (List (List Nat)) → Res (List (List Nat))
  | .ok bs => .ok (bs.map (List.map f))
  | .error e => .error e

theorem fillBlocks_map (f : Nat → Nat) : ∀ (ts : List (Nat × Nat)) (raw : List Nat) (blocks : List (List Nat)),
    DMDec.fillBlocks ts (raw.map f) (blocks.map (List.map f)) = mapBlocks f (DMDec.fillBlocks ts raw blocks) := by
  intro ts
  induction ts with
  | nil =>
    intro raw blocks
    cases raw <;> simp [DMDec.fillBlocks, mapBlocks]
  | cons t ts ih =>
    intro raw blocks
    obtain ⟨j, i⟩ := t
    cases raw with
    | nil => simp [DMDec.fillBlocks, mapBlocks]
    | cons x xs =>
      simp only [List.map_cons, DMDec.fillBlocks, set2_map]
      cases DMDec.set2 blocks j i x with
      | none => simp [mapBlocks]
      | some b => simp only [Option.map_some]; exact ih xs b

def mapDB (f : Nat → Nat) : Res (List (Nat × List Nat)) → Res (List (Nat × List Nat))
  | .ok bs => .ok (bs.map (fun b => (b.1, b.2.map f)))
  | .error e => .error e

theorem getDataBlocks_map (f : Nat → Nat) (h0 : f 0 = 0) (raw : List Nat) (v : DMDec.Version) :
    DMDec.getDataBlocks (raw.map f) v = mapDB f (DMDec.getDataBlocks raw v) := by
  unfold DMDec.getDataBlocks
  cases DMDec.dbTargets v with
  | error e => rfl
  | ok ts =>
    simp only
    have hinit : (DMDec.blockShapes v).map (fun s => List.replicate s.2 0) =
        ((DMDec.blockShapes v).map (fun s => List.replicate s.2 0)).map (List.map f) := by
      simp [List.map_map, Function.comp_def, List.map_replicate, h0]
    rw [hinit, fillBlocks_map]
    rw [← hinit]
    cases DMDec.fillBlocks ts raw ((DMDec.blockShapes v).map (fun s => List.replicate s.2 0)) with
    | error e => rfl
    | ok blocks =>
      simp only [mapBlocks, mapDB]
      congr 1
      rw [List.zip_map_right]
      apply List.map_congr_left
      intro b _
      rfl

def mapRes (f : Nat → Nat) : Res (List Nat) → Res (List Nat)
  | .ok l => .ok (l.map f)
  | .error e => .error e

theorem storeAll_map (f : Nat → Nat) : ∀ (ts : List (Nat × Nat)) (acc : List Nat),
    DMDec.storeAll (ts.map (fun t => (t.1, f t.2))) (acc.map f) = mapRes f (DMDec.storeAll ts acc) := by
  intro ts
  induction ts with
  | nil => intro acc; rfl
  | cons t ts ih =>
    intro acc
    obtain ⟨p, x⟩ := t
    simp only [List.map_cons, DMDec.storeAll, List.length_map]
    split
    · rw [← List.map_set]; exact ih _
    · rfl

theorem deinterlacePairs_map (f : Nat → Nat) (blocks : List (Nat × List Nat)) :
    DMDec.deinterlacePairs (blocks.map (fun b => (b.1, b.2.map f))) =
      (DMDec.deinterlacePairs blocks).map (fun t => (t.1, f t.2)) := by
  unfold DMDec.deinterlacePairs
  rw [List.zipIdx_map, List.flatMap_map, List.map_flatMap, List.length_map]
  congr 1
  funext bj
  simp only [Prod.map, id, ← List.map_take, List.zipIdx_map, List.map_map]
  apply List.map_congr_left
  intro xi _
  rfl

theorem resultBytes_map (f : Nat → Nat) (h0 : f 0 = 0) (blocks : List (Nat × List Nat)) :
    DMDec.resultBytes (blocks.map (fun b => (b.1, b.2.map f))) = mapRes f (DMDec.resultBytes blocks) := by
  unfold DMDec.resultBytes
  have hany : (blocks.map (fun b => (b.1, b.2.map f))).any (fun b => decide (b.2.length < b.1)) =
      blocks.any (fun b => decide (b.2.length < b.1)) := by
    simp [List.any_map, Function.comp_def]
  have hsum : ((blocks.map (fun b => (b.1, b.2.map f))).map (·.1)).sum = (blocks.map (·.1)).sum := by
    simp [List.map_map, Function.comp_def]
  rw [hany, hsum, deinterlacePairs_map]
  cases blocks.any (fun b => decide (b.2.length < b.1)) with
  | true => rfl
  | false =>
    simp only [Bool.false_eq_true, if_false]
    have hz : List.replicate (blocks.map (·.1)).sum 0 = (List.replicate (blocks.map (·.1)).sum 0).map f := by
      simp [h0]
    have h := storeAll_map f (DMDec.deinterlacePairs blocks) (List.replicate (blocks.map (·.1)).sum 0)
    rw [← hz] at h
    exact h

/-! ## labels -/

/-- data labels 1..nData -/
def dLabels (s : Sym) : List Nat := List.range' 1 s.nData
/-- error-codeword labels: block `b` gets `1+nData+b·E .. 1+nData+b·E+E-1` -/
def eccLabels (s : Sym) : List (List Nat) :=
  (List.range s.blocks).map (fun b => List.range' (1 + s.nData + b * s.blkErr) s.blkErr)

/-- what de-interleaving must produce: block `b` = (its data count, its data followed by its own error codewords) -/
def expectedBlocks (s : Sym) (d : List Nat) (eccs : List (List Nat)) : List (Nat × List Nat) :=
  (List.range s.blocks).map (fun b => (s.dataLen b, blockData s d b ++ eccs.getD b []))

/-- per-size kernel evaluation on labels: the decoder's getDataBlocks applied to the reference interleaving
    yields exactly (data_b ++ ecc_b) per block, and its final copy loop restores the data order -/
def ilvCheck (k : Nat) (s : Sym) : Bool :=
  decide (DMDec.getDataBlocks (assemble s (dLabels s) (eccLabels s)) (DMDec.ofSym k s) =
      .ok (expectedBlocks s (dLabels s) (eccLabels s))) &&
  decide (DMDec.resultBytes (expectedBlocks s (dLabels s) (eccLabels s)) = .ok (dLabels s))

/-- value of a label -/
def valOf (d : List Nat) (eccs : List (List Nat)) (l : Nat) : Nat := (0 :: (d ++ eccs.flatten)).getD l 0

theorem valOf_zero (d : List Nat) (eccs : List (List Nat)) : valOf d eccs 0 = 0 := rfl

theorem dLabels_map (s : Sym) (d : List Nat) (eccs : List (List Nat)) (hd : d.length = s.nData) :
    (dLabels s).map (valOf d eccs) = d := by
  apply List.ext_getElem
  · simp [dLabels, hd]
  · intro i h1 h2
    simp only [dLabels, List.getElem_map, List.getElem_range', valOf]
    have : 1 + 1 * i = i + 1 := by omega
    rw [this, List.getD_cons_succ, List.getD_eq_getElem?_getD, List.getElem?_append_left h2]
    simp [h2]

theorem flatten_getD_uniform (E : Nat) : ∀ (L : List (List Nat)) (b t : Nat), (∀ l ∈ L, l.length = E) →
    b < L.length → t < E → L.flatten.getD (b * E + t) 0 = (L.getD b []).getD t 0 := by
  intro L
  induction L with
  | nil => intro b t _ hb; simp at hb
  | cons l L ih =>
    intro b t hu hb ht
    have hl : l.length = E := hu l List.mem_cons_self
    cases b with
    | zero =>
      simp only [Nat.zero_mul, Nat.zero_add, List.flatten_cons, List.getD_eq_getElem?_getD]
      rw [List.getElem?_append_left (by omega)]
      simp
    | succ b =>
      simp only [List.flatten_cons, List.getD_cons_succ]
      have : (b + 1) * E + t = l.length + (b * E + t) := by rw [Nat.succ_mul, hl]; omega
      rw [this, List.getD_eq_getElem?_getD, List.getElem?_append_right (by omega)]
      have h2 : l.length + (b * E + t) - l.length = b * E + t := by omega
      rw [h2, ← List.getD_eq_getElem?_getD]
      exact ih b t (fun l' hl' => hu l' (List.mem_cons_of_mem _ hl')) (by simpa using hb) ht

theorem eccLabels_map (s : Sym) (d : List Nat) (eccs : List (List Nat)) (hd : d.length = s.nData)
    (hB : eccs.length = s.blocks) (hE : ∀ l ∈ eccs, l.length = s.blkErr) :
    (eccLabels s).map (List.map (valOf d eccs)) = eccs := by
  apply List.ext_getElem
  · simp [eccLabels, hB]
  · intro b h1 h2
    simp only [eccLabels, List.getElem_map, List.getElem_range]
    apply List.ext_getElem
    · simp [hE _ (List.getElem_mem h2)]
    · intro t h3 h4
      simp only [List.getElem_map, List.getElem_range', valOf]
      have htE : t < s.blkErr := by simpa using h3
      have : 1 + s.nData + b * s.blkErr + 1 * t = (d.length + (b * s.blkErr + t)) + 1 := by omega
      rw [this, List.getD_cons_succ, List.getD_eq_getElem?_getD, List.getElem?_append_right (by omega)]
      have h5 : d.length + (b * s.blkErr + t) - d.length = b * s.blkErr + t := by omega
      rw [h5, ← List.getD_eq_getElem?_getD, flatten_getD_uniform s.blkErr eccs b t hE h2 htE]
      simp [List.getD_eq_getElem?_getD, h2, h4]

theorem expectedBlocks_map (f : Nat → Nat) (s : Sym) (d : List Nat) (eccs : List (List Nat)) :
    (expectedBlocks s d eccs).map (fun b => (b.1, b.2.map f)) =
      expectedBlocks s (d.map f) (eccs.map (List.map f)) := by
  unfold expectedBlocks
  simp only [List.map_map]
  apply List.map_congr_left
  intro b _
  simp only [Function.comp_apply, List.map_append, blockData_map, getD_mapmap]

theorem polyRem_length (mul : Nat → Nat → Nat) (gs : List Nat) : ∀ (k : Nat) (xs : List Nat), k ≤ xs.length →
    (polyRem mul gs k xs).length = xs.length - k := by
  intro k
  induction k with
  | zero => intro xs _; simp [polyRem]
  | succ k ih =>
    intro xs h
    cases xs with
    | nil => simp at h
    | cons c xs =>
      simp only [polyRem]
      rw [ih _ (by rw [xorPrefix_length]; simpa using h), xorPrefix_length]
      simp

theorem eccBlock_length (n : Nat) (data : List Nat) : (eccBlock n data).length = n := by
  unfold eccBlock
  rw [polyRem_length _ _ _ _ (by simp)]
  simp

/-- From the label evaluation to every data vector: the decoder's de-interleaving of the reference codeword
    sequence gives, per block, its data codewords followed by exactly its own error codewords, and the
    decoder's copy loop then restores the original data order. -/
theorem interleave_inv_of_check (k : Nat) (s : Sym) (hc : ilvCheck k s = true) (d : List Nat)
    (hd : d.length = s.nData) :
    DMDec.getDataBlocks (codewords s d) (DMDec.ofSym k s) =
        .ok (expectedBlocks s d ((List.range s.blocks).map (blockEcc s d))) ∧
    DMDec.resultBytes (expectedBlocks s d ((List.range s.blocks).map (blockEcc s d))) = .ok d := by
  unfold ilvCheck at hc
  simp only [Bool.and_eq_true, decide_eq_true_eq] at hc
  obtain ⟨hc1, hc2⟩ := hc
  generalize heccs : (List.range s.blocks).map (blockEcc s d) = eccs
  have hB : eccs.length = s.blocks := by rw [← heccs]; simp
  have hE : ∀ l ∈ eccs, l.length = s.blkErr := by
    intro l hl
    rw [← heccs] at hl
    obtain ⟨b, _, rfl⟩ := List.mem_map.1 hl
    exact eccBlock_length _ _
  have hdm := dLabels_map s d eccs hd
  have hem := eccLabels_map s d eccs hd hB hE
  have h0 := valOf_zero d eccs
  have hasm : assemble s d eccs = (assemble s (dLabels s) (eccLabels s)).map (valOf d eccs) := by
    rw [← assemble_map _ h0, hdm, hem]
  have hexp : expectedBlocks s d eccs =
      (expectedBlocks s (dLabels s) (eccLabels s)).map (fun b => (b.1, b.2.map (valOf d eccs))) := by
    rw [expectedBlocks_map, hdm, hem]
  constructor
  · rw [codewords_eq_assemble, heccs, hasm, getDataBlocks_map _ h0, hc1, hexp]
    rfl
  · rw [hexp, resultBytes_map _ h0, hc2]
    simp only [mapRes]
    rw [hdm]

end Gzx.DMProofs
