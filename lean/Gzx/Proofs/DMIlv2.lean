/-
  C08: from the kernel-evaluated index maps (`idxCheck`) to values — generic semantics of the reference
  interleaving (which codeword of which block sits at stream position p) and of the decoder's `fillBlocks`
  (a scatter) give: getDataBlocks (codewords s d) = blocks of (data_b ++ ecc_b), for EVERY data vector d.
-/
import Gzx.Proofs.DMIlvIdx
import Gzx.Proofs.DMEcc
namespace Gzx.DMProofs
open Gzx Gzx.DMRef

/-! ## everyNth -/

theorem everyNthAux_getElem? (B : Nat) (hB : 0 < B) : ∀ (xs : List Nat) (k i : Nat),
    (everyNthAux B k xs)[i]? = xs[k + i * B]? := by
  intro xs
  induction xs with
  | nil => intro k i; cases k <;> simp [everyNthAux]
  | cons x xs ih =>
    intro k i
    cases k with
    | zero =>
      cases i with
      | zero => simp [everyNthAux]
      | succ i =>
        simp only [everyNthAux, List.getElem?_cons_succ, ih]
        have h : 0 + (i + 1) * B = (B - 1 + i * B) + 1 := by rw [Nat.succ_mul]; omega
        rw [h, List.getElem?_cons_succ]
    | succ k =>
      simp only [everyNthAux, ih]
      have h : k + 1 + i * B = (k + i * B) + 1 := by omega
      rw [h, List.getElem?_cons_succ]

theorem everyNthAux_length (B : Nat) (hB : 0 < B) : ∀ (xs : List Nat) (k : Nat),
    (everyNthAux B k xs).length = (xs.length + B - 1 - k) / B := by
  intro xs
  induction xs with
  | nil =>
    intro k
    cases k with
    | zero => simp only [everyNthAux, List.length_nil]; exact (Nat.div_eq_of_lt (by omega)).symm
    | succ k => simp only [everyNthAux, List.length_nil]; exact (Nat.div_eq_of_lt (by omega)).symm
  | cons x xs ih =>
    intro k
    cases k with
    | zero =>
      simp only [everyNthAux, List.length_cons, ih]
      have h1 : xs.length + B - 1 - (B - 1) = xs.length := by omega
      have h2 : xs.length + 1 + B - 1 - 0 = xs.length + B := by omega
      rw [h1, h2, Nat.add_div_right _ hB]
    | succ k =>
      simp only [everyNthAux, List.length_cons, ih]
      have h : xs.length + 1 + B - 1 - (k + 1) = xs.length + B - 1 - k := by omega
      rw [h]

theorem blockData_getElem? (s : Sym) (hB : 0 < s.blocks) (d : List Nat) (b i : Nat) :
    (blockData s d b)[i]? = d[b + i * s.blocks]? := by
  unfold blockData everyNth
  rw [everyNthAux_getElem? _ hB, List.getElem?_drop]
  simp

theorem blockData_length (s : Sym) (hB : 0 < s.blocks) (d : List Nat) (hd : d.length = s.nData) (b : Nat)
    (hb : b ≤ s.nData) : (blockData s d b).length = s.dataLen b := by
  unfold blockData everyNth Sym.dataLen
  rw [everyNthAux_length _ hB, List.length_drop, hd]
  congr 1
  omega

/-! ## which codeword sits at stream position p -/

/-- block `b` as the decoder must reconstruct it: its data codewords followed by its error codewords -/
def blockOf (s : Sym) (d : List Nat) (b : Nat) : List Nat := blockData s d b ++ blockEcc s d b

theorem codewords_length (s : Sym) (d : List Nat) (hd : d.length = s.nData) :
    (codewords s d).length = s.total := by
  unfold codewords Sym.total
  simp [hd]

/-- the reference codeword sequence holds at position `p` the codeword `ownerRef s p` of the blocks -/
theorem codewords_getElem? (s : Sym) (d : List Nat) (hd : d.length = s.nData) (hB : 0 < s.blocks)
    (hBn : s.blocks ≤ s.nData) (hE : s.blocks * s.blkErr = s.nErr) (p : Nat) (hp : p < s.total) :
    (codewords s d)[p]? = (blockOf s d (ownerRef s p).1)[(ownerRef s p).2]? := by
  unfold ownerRef
  by_cases h : p < s.nData
  · simp only [h, if_true]
    have h1 : (codewords s d)[p]? = d[p]? := by
      unfold codewords
      simp only
      rw [List.getElem?_append_left (by omega)]
    have h2 : (blockData s d (p % s.blocks))[p / s.blocks]? = d[p]? := by
      rw [blockData_getElem? s hB]
      congr 1
      rw [Nat.mul_comm]
      exact Nat.mod_add_div p s.blocks
    have h3 : p / s.blocks < (blockData s d (p % s.blocks)).length := by
      have : (blockData s d (p % s.blocks))[p / s.blocks]? = some d[p] := by
        rw [h2]; exact List.getElem?_eq_getElem (by omega)
      exact (List.getElem?_eq_some_iff.1 this).1
    unfold blockOf
    rw [h1, List.getElem?_append_left h3, h2]
  · simp only [h, if_false]
    have hk : p - s.nData < s.nErr := by unfold Sym.total at hp; omega
    have hj : p % s.blocks < s.blocks := Nat.mod_lt _ hB
    have hq : (p - s.nData) / s.blocks < s.blkErr := by
      apply Nat.div_lt_of_lt_mul
      rw [hE]; exact hk
    have h1 : (codewords s d)[p]? =
        some (((List.range s.blocks).map (blockEcc s d)).getD ((s.nData + (p - s.nData)) % s.blocks) []
          |>.getD ((p - s.nData) / s.blocks) 0) := by
      unfold codewords
      simp only
      rw [List.getElem?_append_right (by omega), hd, List.getElem?_map, List.getElem?_range hk]
      rfl
    have h2 : s.nData + (p - s.nData) = p := by omega
    have h3 : ((List.range s.blocks).map (blockEcc s d)).getD (p % s.blocks) [] = blockEcc s d (p % s.blocks) := by
      simp [List.getD_eq_getElem?_getD, hj]
    have h4 : (blockEcc s d (p % s.blocks)).length = s.blkErr := eccBlock_length _ _
    have h5 : (blockData s d (p % s.blocks)).length = s.dataLen (p % s.blocks) :=
      blockData_length s hB d hd _ (by omega)
    unfold blockOf
    rw [h1, h2, h3, List.getElem?_append_right (by rw [h5]; exact Nat.le_add_right _ _), h5]
    rw [Nat.add_sub_cancel_left, List.getD_eq_getElem?_getD,
      List.getElem?_eq_getElem (by rw [h4]; exact hq)]
    simp

/-! ## the bit-set pass of `idxCheck` is sound -/

theorem dupFreeKeys_spec : ∀ (cs : List Nat) (seen seen' : Nat), dupFreeKeys cs seen = (true, seen') →
    cs.Nodup ∧ (∀ c ∈ cs, seen.testBit c = false) ∧
    (∀ x, seen'.testBit x = true ↔ (seen.testBit x = true ∨ x ∈ cs)) := by
  intro cs
  induction cs with
  | nil =>
    intro seen seen' h
    simp only [dupFreeKeys, Prod.mk.injEq, true_and] at h
    subst h
    exact ⟨List.nodup_nil, fun c hc => by simp at hc, fun x => by simp⟩
  | cons c cs ih =>
    intro seen seen' h
    simp only [dupFreeKeys] at h
    split at h
    · simp at h
    · rename_i hbit
      have hbit' : seen.testBit c = false := by simpa using hbit
      obtain ⟨hnd, hfree, hfin⟩ := ih _ _ h
      have hcs : c ∉ cs := by
        intro hm
        have := hfree c hm
        simp [Nat.testBit_or, Nat.one_shiftLeft] at this
      refine ⟨List.nodup_cons.2 ⟨hcs, hnd⟩, ?_, ?_⟩
      · intro c' hc'
        rcases List.mem_cons.1 hc' with rfl | hm
        · exact hbit'
        · have := hfree c' hm
          simp only [Nat.testBit_or, Bool.or_eq_false_iff] at this
          exact this.1
      · intro x
        rw [hfin x]
        simp only [Nat.testBit_or, Nat.one_shiftLeft, Nat.testBit_two_pow, Bool.or_eq_true,
          decide_eq_true_eq, List.mem_cons]
        constructor
        · rintro ((h1 | h1) | h1)
          · exact Or.inl h1
          · exact Or.inr (Or.inl h1.symm)
          · exact Or.inr (Or.inr h1)
        · rintro (h1 | h1 | h1)
          · exact Or.inl (Or.inl h1)
          · exact Or.inl (Or.inr h1.symm)
          · exact Or.inr h1

theorem nodup_of_map {α β : Type} (f : α → β) : ∀ (l : List α), (l.map f).Nodup → l.Nodup := by
  intro l
  induction l with
  | nil => intro _; exact List.nodup_nil
  | cons a l ih =>
    intro h
    simp only [List.map_cons, List.nodup_cons] at h
    exact List.nodup_cons.2 ⟨fun hm => h.1 (List.mem_map.2 ⟨a, hm, rfl⟩), ih h.2⟩

/-! ## fillBlocks is a scatter -/

/-- element `i` of block `j` -/
def look (bs : List (List Nat)) (j i : Nat) : Option Nat := (bs[j]?).bind (fun b => b[i]?)

theorem set2_some_iff (bs bs' : List (List Nat)) (j i x : Nat) :
    DMDec.set2 bs j i x = some bs' ↔ ∃ b, bs[j]? = some b ∧ i < b.length ∧ bs' = bs.set j (b.set i x) := by
  unfold DMDec.set2
  cases hb : bs[j]? with
  | none => simp
  | some b =>
    simp only [Option.some.injEq, exists_eq_left']
    split
    · rename_i hi
      simp only [Option.some.injEq, hi, true_and]
      exact ⟨fun h => h.symm, fun h => h.symm⟩
    · rename_i hi
      simp [hi]

theorem look_set2 {bs bs' : List (List Nat)} {j i x : Nat} (h : DMDec.set2 bs j i x = some bs') (j' i' : Nat) :
    look bs' j' i' = if j = j' ∧ i = i' then some x else look bs j' i' := by
  obtain ⟨b, hb, hi, rfl⟩ := (set2_some_iff _ _ _ _ _).1 h
  have hj : j < bs.length := (List.getElem?_eq_some_iff.1 hb).1
  unfold look
  rw [List.getElem?_set]
  by_cases hjj : j = j'
  · subst hjj
    simp only [true_and, hj, if_true, Option.bind_some, hb]
    rw [List.getElem?_set]
    by_cases hii : i = i'
    · subst hii; simp [hi]
    · simp [hii]
  · simp [hjj]

theorem shape_set2 {bs bs' : List (List Nat)} {j i x : Nat} (h : DMDec.set2 bs j i x = some bs') :
    bs'.map List.length = bs.map List.length := by
  obtain ⟨b, hb, hi, rfl⟩ := (set2_some_iff _ _ _ _ _).1 h
  apply List.ext_getElem?
  intro n
  simp only [List.getElem?_map, List.getElem?_set]
  by_cases hn : j = n
  · subst hn
    obtain ⟨hj, hbj⟩ := List.getElem?_eq_some_iff.1 hb
    simp [hj, hbj]
  · simp [hn]

theorem set2_of_look {bs : List (List Nat)} {j i : Nat} (x : Nat) (h : (look bs j i).isSome = true) :
    ∃ bs', DMDec.set2 bs j i x = some bs' := by
  unfold look at h
  cases hb : bs[j]? with
  | none => simp [hb] at h
  | some b =>
    simp only [hb, Option.bind_some] at h
    have hi : i < b.length := by
      cases hbi : b[i]? with
      | none => simp [hbi] at h
      | some v => exact (List.getElem?_eq_some_iff.1 hbi).1
    exact ⟨_, (set2_some_iff _ _ _ _ _).2 ⟨b, hb, hi, rfl⟩⟩

theorem fill_spec : ∀ (ts : List (Nat × Nat)) (raw : List Nat) (bs : List (List Nat)),
    ts.length = raw.length → (∀ t ∈ ts, (look bs t.1 t.2).isSome = true) →
    ∃ res, DMDec.fillBlocks ts raw bs = .ok res ∧ res.map List.length = bs.map List.length ∧
      (∀ j i, (j, i) ∉ ts → look res j i = look bs j i) ∧
      (ts.Nodup → ∀ p (h : p < ts.length), look res ts[p].1 ts[p].2 = raw[p]?) := by
  intro ts
  induction ts with
  | nil =>
    intro raw bs hlen _
    cases raw with
    | nil => exact ⟨bs, rfl, rfl, fun _ _ _ => rfl, fun _ p h => by simp at h⟩
    | cons x xs => simp at hlen
  | cons t ts ih =>
    intro raw bs hlen hsome
    obtain ⟨j, i⟩ := t
    cases raw with
    | nil => simp at hlen
    | cons x xs =>
      obtain ⟨bs1, hset⟩ := set2_of_look x (hsome (j, i) List.mem_cons_self)
      have hsome1 : ∀ t ∈ ts, (look bs1 t.1 t.2).isSome = true := by
        intro t ht
        rw [look_set2 hset]
        split
        · rfl
        · exact hsome t (List.mem_cons_of_mem _ ht)
      obtain ⟨res, hres, hshape, hnot, hget⟩ := ih xs bs1 (by simpa using hlen) hsome1
      refine ⟨res, ?_, ?_, ?_, ?_⟩
      · simp only [DMDec.fillBlocks, hset]; exact hres
      · rw [hshape, shape_set2 hset]
      · intro j' i' hn
        have h1 : (j', i') ∉ ts := fun h => hn (List.mem_cons_of_mem _ h)
        have h2 : ¬ (j = j' ∧ i = i') := by
          rintro ⟨rfl, rfl⟩
          exact hn List.mem_cons_self
        rw [hnot j' i' h1, look_set2 hset, if_neg h2]
      · intro hnd p hp
        obtain ⟨hn0, hnd'⟩ := List.nodup_cons.1 hnd
        cases p with
        | zero =>
          simp only [List.getElem_cons_zero, List.getElem?_cons_zero]
          rw [hnot j i hn0, look_set2 hset]
          simp
        | succ p =>
          simp only [List.getElem_cons_succ, List.getElem?_cons_succ]
          exact hget hnd' p (by simpa using hp)

/-! ## from `idxCheck` to values -/

structure IdxFacts (k : Nat) (s : Sym) : Prop where
  targets : DMDec.dbTargets (DMDec.ofSym k s) = .ok ((List.range s.total).map (ownerRef s))
  shapes : DMDec.blockShapes (DMDec.ofSym k s) =
    (List.range s.blocks).map (fun b => (s.dataLen b, s.dataLen b + s.blkErr))
  nodup : (dupFreeKeys (keysOf ((List.range s.total).map (ownerRef s))) 0).1 = true
  inShape : ∀ t ∈ (List.range s.total).map (ownerRef s),
    t.1 < s.blocks ∧ t.2 < s.dataLen t.1 + s.blkErr ∧ t.2 < 4096
  cover : ∀ j, j < s.blocks → ∀ i, i < s.dataLen j + s.blkErr →
    (dupFreeKeys (keysOf ((List.range s.total).map (ownerRef s))) 0).2.testBit (j * 4096 + i) = true
  small : ∀ j, j < s.blocks → s.dataLen j + s.blkErr ≤ 4096
  hB : 0 < s.blocks
  hBn : s.blocks ≤ s.nData
  hE : s.blocks * s.blkErr = s.nErr

theorem idxFacts_of_check {k : Nat} {s : Sym} (h : idxCheck k s = true) : IdxFacts k s := by
  unfold idxCheck at h
  simp only [Bool.and_eq_true, decide_eq_true_eq, List.all_eq_true, List.mem_range, List.mem_map,
    forall_exists_index, and_imp, forall_apply_eq_imp_iff₂] at h
  obtain ⟨⟨⟨⟨⟨⟨⟨⟨⟨h1, h2⟩, h3⟩, h4⟩, h5⟩, h6⟩, _⟩, h8⟩, h9⟩, h10⟩ := h
  refine ⟨h1, h2, h3, ?_, h5, h6, h8, h9, h10⟩
  intro t ht
  obtain ⟨p, hp, rfl⟩ := List.mem_map.1 ht
  have h := h4 p (List.mem_range.1 hp)
  exact ⟨h.1.1, h.1.2, h.2⟩

theorem zip_map_same {α β γ : Type} (f : α → β) (g : α → γ) : ∀ l : List α,
    List.zip (l.map f) (l.map g) = l.map (fun a => (f a, g a)) := by
  intro l
  induction l with
  | nil => rfl
  | cons a l ih => simp [ih]

theorem look_eq_getElem? (bs : List (List Nat)) (j i : Nat) (hj : j < bs.length) :
    look bs j i = bs[j][i]? := by
  unfold look
  rw [List.getElem?_eq_getElem hj]
  rfl

/-- For a row whose index maps pass `idxCheck`: de-interleaving the reference codeword sequence of ANY data
    vector gives, per block, (its data count, its data codewords ++ its own error codewords). -/
theorem getDataBlocks_codewords (k : Nat) (s : Sym) (hc : idxCheck k s = true) (d : List Nat)
    (hd : d.length = s.nData) :
    DMDec.getDataBlocks (codewords s d) (DMDec.ofSym k s) =
      .ok ((List.range s.blocks).map (fun b => (s.dataLen b, blockOf s d b))) := by
  have F := idxFacts_of_check hc
  obtain ⟨ts, hts⟩ : ∃ ts, ts = (List.range s.total).map (ownerRef s) := ⟨_, rfl⟩
  obtain ⟨init, hinit⟩ : ∃ init, init =
      (List.range s.blocks).map (fun b => List.replicate (s.dataLen b + s.blkErr) 0) := ⟨_, rfl⟩
  have htl : ts.length = s.total := by rw [hts]; simp
  have hlen : ts.length = (codewords s d).length := by rw [htl, codewords_length s d hd]
  have hinit_look : ∀ j i, j < s.blocks → i < s.dataLen j + s.blkErr → look init j i = some 0 := by
    intro j i hj hi
    rw [look_eq_getElem? init j i (by rw [hinit]; simpa using hj)]
    simp [hinit, hi]
  have hsome : ∀ t ∈ ts, (look init t.1 t.2).isSome = true := by
    intro t ht
    rw [hts] at ht
    obtain ⟨h1, h2, _⟩ := F.inShape t ht
    rw [hinit_look t.1 t.2 h1 h2]; rfl
  obtain ⟨res, hres, hshape, _, hget⟩ := fill_spec ts (codewords s d) init hlen hsome
  have hspec := dupFreeKeys_spec (keysOf ts) 0 (dupFreeKeys (keysOf ts) 0).2 (by
    rw [hts]; exact Prod.ext F.nodup rfl)
  have hnd : ts.Nodup := nodup_of_map _ _ hspec.1
  have hreslen : res.length = s.blocks := by
    have := congrArg List.length hshape
    simpa [hinit] using this
  have hresj : ∀ j (hj : j < s.blocks), (res[j]'(by omega)).length = s.dataLen j + s.blkErr := by
    intro j hj
    have h1 : (res.map List.length)[j]? = (init.map List.length)[j]? := by rw [hshape]
    simp only [List.getElem?_map, hinit, List.getElem?_range hj, Option.map_some,
      List.length_replicate] at h1
    rw [List.getElem?_eq_getElem (by omega)] at h1
    simpa using h1
  have hblk : ∀ j, j < s.blocks → (blockOf s d j).length = s.dataLen j + s.blkErr := by
    intro j hj
    unfold blockOf
    rw [List.length_append, blockData_length s F.hB d hd j (by have := F.hBn; omega)]
    congr 1
    exact eccBlock_length _ _
  have hres_eq : res = (List.range s.blocks).map (blockOf s d) := by
    apply List.ext_getElem?
    intro j
    by_cases hj : j < s.blocks
    · rw [List.getElem?_eq_getElem (by omega), List.getElem?_map, List.getElem?_range hj]
      simp only [Option.map_some, Option.some.injEq]
      apply List.ext_getElem?
      intro i
      by_cases hi : i < s.dataLen j + s.blkErr
      · -- some stream position is sent to (j, i)
        have hbit := F.cover j hj i hi
        rw [← hts] at hbit
        have hmem := (hspec.2.2 (j * 4096 + i)).1 hbit
        simp only [Nat.zero_testBit, Bool.false_eq_true, false_or] at hmem
        unfold keysOf at hmem
        obtain ⟨t, ht, hte⟩ := List.mem_map.1 hmem
        have htin := F.inShape t (hts ▸ ht)
        have hsm := F.small j hj
        have htj : t = (j, i) := by
          obtain ⟨t1, t2⟩ := t
          simp only at hte htin
          have : t1 = j ∧ t2 = i := by omega
          rw [this.1, this.2]
        obtain ⟨p, hp, hpe⟩ := List.mem_iff_getElem.1 ht
        have hown : ts[p] = ownerRef s p := by
          simp only [hts, List.getElem_map, List.getElem_range]
        have h1 := hget hnd p hp
        rw [hpe, htj] at h1
        simp only at h1
        rw [look_eq_getElem? res j i (by omega)] at h1
        rw [h1, codewords_getElem? s d hd F.hB F.hBn F.hE p (by omega)]
        rw [← hown, hpe, htj]
      · rw [List.getElem?_eq_none (by rw [hresj j hj]; omega),
          List.getElem?_eq_none (by rw [hblk j hj]; omega)]
    · rw [List.getElem?_eq_none (by omega), List.getElem?_eq_none (by simp; omega)]
  unfold DMDec.getDataBlocks
  rw [F.targets, F.shapes]
  simp only
  have hinit' : List.map (fun s_1 : Nat × Nat => List.replicate s_1.2 0)
      (List.map (fun b => (s.dataLen b, s.dataLen b + s.blkErr)) (List.range s.blocks)) = init := by
    rw [hinit, List.map_map]; rfl
  rw [hinit', ← hts, hres]
  simp only [Except.ok.injEq]
  rw [hres_eq, List.map_map]
  exact zip_map_same _ _ _

/-! ## the decoder's copy loop restores the data order -/

theorem storeAll_spec (d : List Nat) : ∀ (pairs : List (Nat × Nat)) (acc : List Nat),
    (∀ t ∈ pairs, t.1 < acc.length ∧ d[t.1]? = some t.2) →
    ∃ res, DMDec.storeAll pairs acc = .ok res ∧ res.length = acc.length ∧
      (∀ q, q ∈ pairs.map (·.1) → res[q]? = d[q]?) ∧ (∀ q, q ∉ pairs.map (·.1) → res[q]? = acc[q]?) := by
  intro pairs
  induction pairs with
  | nil => intro acc _; exact ⟨acc, rfl, rfl, fun q hq => by simp at hq, fun _ _ => rfl⟩
  | cons t pairs ih =>
    intro acc h
    obtain ⟨q0, x0⟩ := t
    obtain ⟨h0, hd0⟩ := h (q0, x0) List.mem_cons_self
    simp only at h0 hd0
    obtain ⟨res, hres, hlen, hin, hout⟩ := ih (acc.set q0 x0) (by
      intro t ht
      rw [List.length_set]
      exact h t (List.mem_cons_of_mem _ ht))
    refine ⟨res, ?_, ?_, ?_, ?_⟩
    · simp only [DMDec.storeAll, h0, if_true]; exact hres
    · rw [hlen, List.length_set]
    · intro q hq
      by_cases hq' : q ∈ pairs.map (·.1)
      · exact hin q hq'
      · have hq0 : q = q0 := by
          simp only [List.map_cons, List.mem_cons] at hq
          rcases hq with h1 | h1
          · exact h1
          · exact absurd h1 hq'
        subst hq0
        rw [hout q hq', List.getElem?_set]
        simp [h0, hd0]
    · intro q hq
      simp only [List.map_cons, List.mem_cons, not_or] at hq
      rw [hout q hq.2, List.getElem?_set]
      have : ¬ q0 = q := fun h => hq.1 h.symm
      simp [this]

/-- `resultBytes` of the de-interleaved blocks of a reference codeword sequence is the data vector -/
theorem resultBytes_blocks (s : Sym) (hB : 0 < s.blocks) (hBn : s.blocks ≤ s.nData)
    (hsum : s.dataLens.sum = s.nData) (d : List Nat) (hd : d.length = s.nData) :
    DMDec.resultBytes ((List.range s.blocks).map (fun b => (s.dataLen b, blockOf s d b))) = .ok d := by
  obtain ⟨blocks, hblocks⟩ : ∃ bl, bl = (List.range s.blocks).map (fun b => (s.dataLen b, blockOf s d b)) :=
    ⟨_, rfl⟩
  rw [← hblocks]
  have hbl : blocks.length = s.blocks := by rw [hblocks]; simp
  have hget : ∀ j, j < s.blocks → blocks[j]? = some (s.dataLen j, blockOf s d j) := by
    intro j hj
    rw [hblocks, List.getElem?_map, List.getElem?_range hj]; rfl
  have hnotshort : blocks.any (fun b => decide (b.2.length < b.1)) = false := by
    rw [List.any_eq_false]
    intro b hb
    rw [hblocks] at hb
    obtain ⟨j, hj, rfl⟩ := List.mem_map.1 hb
    have hj' : j < s.blocks := List.mem_range.1 hj
    simp only [decide_eq_true_eq, Nat.not_lt]
    unfold blockOf
    rw [List.length_append, blockData_length s hB d hd j (by omega)]
    exact Nat.le_add_right _ _
  have hsum' : (blocks.map (·.1)).sum = s.nData := by
    rw [hblocks, List.map_map, ← hsum]; rfl
  -- every pair of the copy loop stores d[q] at q < nData
  have hpairs : ∀ t ∈ DMDec.deinterlacePairs blocks,
      t.1 < (List.replicate s.nData 0).length ∧ d[t.1]? = some t.2 := by
    intro t ht
    unfold DMDec.deinterlacePairs at ht
    obtain ⟨bj, hbj, ht2⟩ := List.mem_flatMap.1 ht
    obtain ⟨xi, hxi, rfl⟩ := List.mem_map.1 ht2
    have hb := List.mem_zipIdx_iff_getElem?.1 hbj
    have hx := List.mem_zipIdx_iff_getElem?.1 hxi
    have hjlt : bj.2 < s.blocks := by
      have := (List.getElem?_eq_some_iff.1 hb).1
      omega
    rw [hget bj.2 hjlt] at hb
    have hb1 : bj.1 = (s.dataLen bj.2, blockOf s d bj.2) := (Option.some.inj hb).symm
    rw [hb1, List.getElem?_take] at hx
    simp only at hx
    split at hx
    · rename_i hi
      have hbd : (blockData s d bj.2)[xi.2]? = some xi.1 := by
        unfold blockOf at hx
        rwa [List.getElem?_append_left (by
          rw [blockData_length s hB d hd bj.2 (by omega)]; exact hi)] at hx
      rw [blockData_getElem? s hB] at hbd
      simp only [List.length_replicate, hbl]
      have hlt := (List.getElem?_eq_some_iff.1 hbd).1
      have hcomm : xi.2 * s.blocks + bj.2 = bj.2 + xi.2 * s.blocks := Nat.add_comm _ _
      rw [hcomm]
      exact ⟨by omega, hbd⟩
    · cases hx
  -- every q < nData is a target
  have hcover : ∀ q, q < s.nData → q ∈ (DMDec.deinterlacePairs blocks).map (·.1) := by
    intro q hq
    have hj : q % s.blocks < s.blocks := Nat.mod_lt _ hB
    have hdq : (blockData s d (q % s.blocks))[q / s.blocks]? = some d[q] := by
      rw [blockData_getElem? s hB]
      have : q % s.blocks + q / s.blocks * s.blocks = q := by
        rw [Nat.mul_comm]; exact Nat.mod_add_div q s.blocks
      rw [this]
      exact List.getElem?_eq_getElem (by omega)
    have hi : q / s.blocks < s.dataLen (q % s.blocks) := by
      rw [← blockData_length s hB d hd (q % s.blocks) (by omega)]
      exact (List.getElem?_eq_some_iff.1 hdq).1
    apply List.mem_map.2
    refine ⟨(q / s.blocks * s.blocks + q % s.blocks, d[q]), ?_, ?_⟩
    · unfold DMDec.deinterlacePairs
      apply List.mem_flatMap.2
      refine ⟨((s.dataLen (q % s.blocks), blockOf s d (q % s.blocks)), q % s.blocks), ?_, ?_⟩
      · exact List.mem_zipIdx_iff_getElem?.2 (hget _ hj)
      · apply List.mem_map.2
        refine ⟨(d[q], q / s.blocks), ?_, ?_⟩
        · apply List.mem_zipIdx_iff_getElem?.2
          simp only
          rw [List.getElem?_take, if_pos hi]
          unfold blockOf
          rw [List.getElem?_append_left (by
            rw [blockData_length s hB d hd _ (by omega)]; exact hi)]
          exact hdq
        · simp [hbl]
    · simp only
      rw [Nat.mul_comm]
      exact Nat.div_add_mod q s.blocks
  unfold DMDec.resultBytes
  rw [hnotshort, hsum']
  simp only [Bool.false_eq_true, if_false]
  obtain ⟨res, hres, hlen, hin, _⟩ := storeAll_spec d _ _ hpairs
  rw [hres]
  congr 1
  apply List.ext_getElem?
  intro q
  by_cases hq : q < s.nData
  · exact hin q (hcover q hq)
  · rw [List.getElem?_eq_none (by rw [hlen]; simp; omega), List.getElem?_eq_none (by omega)]

end Gzx.DMProofs
