/-
  C08: the interleaving at the level of INDEX MAPS, kernel-evaluated for every row of Table 7 (cheap: linear in the
  number of codewords).  `ownerRef` is the standard's rule "codeword p of the symbol belongs to block p mod B";
  `idxCheck` says the decoder's DataBlocks_getDataBlocks sends stream position p to exactly that (block, index),
  for every p, that no (block, index) is hit twice and that every position of every block is hit.
-/
import Gzx.Ref.DM
import Gzx.Model.DMDecoder
namespace Gzx.DMProofs
open Gzx Gzx.DMRef

/-- the (block, index within block) that holds codeword `p` of the reference codeword sequence:
    data codeword `p` is the `p / B`-th data codeword of block `p mod B`; error codeword `k = p - nData` is the
    `k / B`-th error codeword of block `p mod B` and sits behind that block's data codewords -/
def ownerRef (s : Sym) (p : Nat) : Nat × Nat :=
  if p < s.nData then (p % s.blocks, p / s.blocks)
  else (p % s.blocks, s.dataLen (p % s.blocks) + (p - s.nData) / s.blocks)

/-- duplicate-freeness and coverage of a list of (block, index) targets w.r.t. the block lengths `lens`,
    one pass with a bit set over the flat key `j * 4096 + i` -/
def keysOf (ts : List (Nat × Nat)) : List Nat := ts.map (fun t => t.1 * 4096 + t.2)

def dupFreeKeys : List Nat → Nat → Bool × Nat
  | [], seen => (true, seen)
  | c :: cs, seen => if seen.testBit c then (false, seen) else dupFreeKeys cs (seen ||| (1 <<< c))

def idxCheck (k : Nat) (s : Sym) : Bool :=
  let v := DMDec.ofSym k s
  let ts := (List.range s.total).map (ownerRef s)
  let lens := (List.range s.blocks).map (fun b => s.dataLen b + s.blkErr)
  let r := dupFreeKeys (keysOf ts) 0
  decide (DMDec.dbTargets v = .ok ts) &&
  decide (DMDec.blockShapes v = (List.range s.blocks).map (fun b => (s.dataLen b, s.dataLen b + s.blkErr))) &&
  r.1 &&
  ts.all (fun t => decide (t.1 < s.blocks) && decide (t.2 < s.dataLen t.1 + s.blkErr) && decide (t.2 < 4096)) &&
  (List.range s.blocks).all (fun j => (List.range (s.dataLen j + s.blkErr)).all (fun i => r.2.testBit (j * 4096 + i))) &&
  lens.all (fun l => decide (l ≤ 4096)) &&
  decide (lens.sum = s.total) && decide (0 < s.blocks) && decide (s.blocks ≤ s.nData) &&
  decide (s.blocks * s.blkErr = s.nErr)

set_option maxRecDepth 10000000 in
/-- for every row of Table 7 (decoder version = row number, 144x144 = version 24 with its special handling
    included): the decoder de-interleaves exactly along the reference interleaving rule, bijectively -/
theorem idxCheck_all : (table7.zipIdx.all (fun p => idxCheck (p.2 + 1) p.1)) = true := by decide +kernel

end Gzx.DMProofs
