/-
  C02: the decoder state after a prefix of codewords (`DecodesTo`) and how the ASCII-mode encoder steps
  extend it.
-/
import Gzx.Proofs.DMHighLevel
namespace Gzx.DMHighLevel

/-- After the codewords `cw` the decoder is back at the top of its main loop, in ASCII mode without a pending
    upper shift, with accumulator `a` — whatever codewords follow. -/
def DecodesTo (T : Tables) (cw : List Nat) (a : Acc) : Prop :=
  ∀ suf, decLoop T (cw ++ suf) 0 false 0 {} = decLoop T suf 0 false cw.length a

theorem decodesTo_nil (T : Tables) : DecodesTo T [] {} := by
  intro suf; simp

/-- one plain ASCII codeword (value + 1) -/
theorem decodesTo_ascii {T : Tables} {cw : List Nat} {a : Acc} (h : DecodesTo T cw a)
    (b : Nat) (h1 : 1 ≤ b) (h2 : b ≤ 128) :
    DecodesTo T (cw ++ [b]) ((a.push (b - 1)).endSeg) := by
  intro suf
  rw [List.append_assoc, h]
  have hb0 : ¬ b = 0 := by omega
  simp [decLoop, hb0, h2]

/-- a digit-pair codeword -/
theorem decodesTo_digits {T : Tables} {cw : List Nat} {a : Acc} (h : DecodesTo T cw a)
    (b : Nat) (h1 : 130 ≤ b) (h2 : b ≤ 229) :
    DecodesTo T (cw ++ [b]) (a.pushAll (digitPair (b - 130))) := by
  intro suf
  rw [List.append_assoc, h]
  have hb0 : ¬ b = 0 := by omega
  have hb1 : ¬ b ≤ 128 := by omega
  have hb2 : ¬ b = 129 := by omega
  simp [decLoop, hb0, hb1, hb2, h2]

/-- upper shift followed by (value - 127) -/
theorem decodesTo_upper {T : Tables} {cw : List Nat} {a : Acc} (h : DecodesTo T cw a)
    (b : Nat) (h1 : 1 ≤ b) (h2 : b ≤ 128) :
    DecodesTo T (cw ++ [235, b]) ((a.push (b + 128 - 1)).endSeg) := by
  intro suf
  rw [List.append_assoc, h]
  have hb0 : ¬ b = 0 := by omega
  simp [decLoop, hb0, h2]

/-- macro 05 / 06 as the first codeword -/
theorem decodesTo_macro (T : Tables) (n : Nat) (hn : n = 5 ∨ n = 6) :
    DecodesTo T [231 + n]
      { ({} : Acc).pushAll (macroHeader n) with trailer := macroTrailer } := by
  intro suf
  rcases hn with rfl | rfl <;> simp [decLoop, macroTrailer]

/-- the padding (none, or 129 followed by anything) ends the decoding -/
theorem decLoop_padding (T : Tables) (a : Acc) (off : Nat) (pad : List Nat)
    (hp : pad = [] ∨ ∃ r, pad = 129 :: r) : decLoop T pad 0 false off a = .ok a := by
  rcases hp with rfl | ⟨r, rfl⟩
  · simp [decLoop]
  · simp [decLoop]

theorem padding_shape (len cap : Nat) : padding len cap = [] ∨ ∃ r, padding len cap = 129 :: r := by
  unfold padding
  split
  · exact Or.inr ⟨_, rfl⟩
  · exact Or.inl rfl

end Gzx.DMHighLevel

namespace Gzx.DMHighLevel

/-! ## list facts -/

theorem drop_cons_facts {l : List Nat} {pos x : Nat} {r : List Nat} (h : l.drop pos = x :: r) :
    l[pos]? = some x ∧ l.take (pos + 1) = l.take pos ++ [x] ∧ l.drop (pos + 1) = r ∧ pos < l.length := by
  have hlt : pos < l.length := by
    by_cases hlt : pos < l.length
    · exact hlt
    · have : l.drop pos = [] := List.drop_eq_nil_of_le (by omega)
      rw [this] at h; cases h
  have hx : l[pos]? = some x := by
    have := List.getElem?_drop (xs := l) (i := pos) (j := 0)
    rw [h] at this
    simpa using this.symm
  refine ⟨hx, ?_, ?_, hlt⟩
  · rw [List.take_add_one, hx]; rfl
  · have : l.drop (pos + 1) = (l.drop pos).drop 1 := by rw [List.drop_drop]
    rw [this, h]; rfl

theorem digitRun_two {l : List Nat} (h : digitRun l ≥ 2) :
    ∃ d1 d2 r, l = d1 :: d2 :: r ∧ isDigit d1 = true ∧ isDigit d2 = true := by
  match l, h with
  | [], h => simp [digitRun] at h
  | [d1], h =>
    simp only [digitRun] at h
    split at h <;> omega
  | d1 :: d2 :: r, h =>
    refine ⟨d1, d2, r, rfl, ?_, ?_⟩
    · simp only [digitRun] at h
      by_cases c1 : isDigit d1 = true
      · exact c1
      · simp [c1] at h
    · simp only [digitRun] at h
      by_cases c1 : isDigit d1 = true
      · by_cases c2 : isDigit d2 = true
        · exact c2
        · simp [c1, c2] at h
      · simp [c1] at h

/-! ## the encoder invariant -/

/-- The decoder, run on the codewords written so far, has produced exactly the characters consumed so far and
    is in ASCII state (no open segment). -/
structure Inv (T : Tables) (c : Ctx) (a : Acc) : Prop where
  dec : DecodesTo T c.cw a
  text : a.rev.reverse = c.msg.take c.pos
  pend : a.pend = 0

theorem Acc.push_rev (a : Acc) (x : Nat) : (a.push x).rev.reverse = a.rev.reverse ++ [x] := by
  simp [Acc.push]

theorem Acc.endSeg_rev (a : Acc) : a.endSeg.rev = a.rev := rfl
theorem Acc.endSeg_pend (a : Acc) : a.endSeg.pend = 0 := rfl
theorem Acc.endSeg_trailer (a : Acc) : a.endSeg.trailer = a.trailer := rfl
theorem Acc.push_trailer (a : Acc) (x : Nat) : (a.push x).trailer = a.trailer := rfl
theorem Acc.push_pend_lt (a : Acc) (x : Nat) (hx : x < 128) : (a.push x).pend = a.pend := by
  have : ¬ x ≥ 128 := by omega
  simp [Acc.push, this]

/-- what an ASCII-mode step leaves unchanged -/
structure SameFrame (c c' : Ctx) : Prop where
  msg : c'.msg = c.msg
  cfg : c'.cfg = c.cfg
  skip : c'.skipAtEnd = c.skipAtEnd
  sym : c'.sym = c.sym

/-- `dm_encoder_invariant`, ASCII mode: a data step of the ASCII encoder (digit pair, ASCII character, upper
    shift + character) preserves the invariant and advances; this holds for EVERY look-ahead oracle. -/
theorem ascii_step_inv {T : Tables} {la : LookAhead} {c c' : Ctx} {a : Acc}
    (hbytes : ∀ x ∈ c.msg, x < 256) (hI : Inv T c a)
    (h : asciiEncode la c = .ok c') (hno : c'.newEnc = none) :
    ∃ a', Inv T c' a' ∧ a'.trailer = a.trailer ∧ SameFrame c c' ∧
      (c'.pos = c.pos + 1 ∨ (c'.pos = c.pos + 2 ∧ c.pos + 2 ≤ c.msg.length ∧
        ∃ d, c.msg[c.pos + 1]? = some d ∧ isDigit d = true)) ∧ c.pos < c.msg.length := by
  unfold asciiEncode at h
  simp only at h
  split at h
  · -- digit pair
    rename_i hn
    obtain ⟨d1, d2, r, hl, hd1, hd2⟩ := digitRun_two hn
    obtain ⟨g1, t1, dr1, lt1⟩ := drop_cons_facts hl
    obtain ⟨g2, t2, _, lt2⟩ := drop_cons_facts dr1
    rw [g1, g2] at h
    simp only [Except.ok.injEq] at h
    subst h
    simp only [isDigit, Bool.and_eq_true, decide_eq_true_eq] at hd1 hd2
    have hcw : (d1 - 48) * 10 + (d2 - 48) + 130 - 130 = (d1 - 48) * 10 + (d2 - 48) := by omega
    have hdp := digitPair_digits (d1 - 48) (d2 - 48) (by omega) (by omega)
    have e1 : 48 + (d1 - 48) = d1 := by omega
    have e2 : 48 + (d2 - 48) = d2 := by omega
    rw [e1, e2] at hdp
    refine ⟨(a.push d1).push d2, ⟨?_, ?_, ?_⟩, rfl, ⟨rfl, rfl, rfl, rfl⟩, Or.inr ⟨rfl, by omega, d2, g2, by simp [isDigit]; omega⟩, lt1⟩
    · have := decodesTo_digits hI.dec ((d1 - 48) * 10 + (d2 - 48) + 130) (by omega) (by omega)
      rw [hcw, hdp] at this
      simpa [Ctx.write, Acc.pushAll] using this
    · simp only [Ctx.write, Acc.push_rev, hI.text]
      rw [t2, t1]
    · rw [Acc.push_pend_lt _ _ (by omega), Acc.push_pend_lt _ _ (by omega), hI.pend]
  · -- single character
    cases hc : c.cur with
    | error e => rw [hc] at h; simp [bind, Except.bind] at h
    | ok ch =>
      rw [hc] at h
      simp only [bind, Except.bind] at h
      have hget : c.msg[c.pos]? = some ch := by
        unfold Ctx.cur at hc
        split at hc
        · rename_i x hx; cases hc; exact hx
        · cases hc
      have hlt : c.pos < c.msg.length := by
        rcases Nat.lt_or_ge c.pos c.msg.length with hlt | hge
        · exact hlt
        · rw [List.getElem?_eq_none hge] at hget; cases hget
      have hch : ch < 256 := hbytes ch (List.mem_of_getElem? hget)
      have htake : c.msg.take (c.pos + 1) = c.msg.take c.pos ++ [ch] := by
        rw [List.take_add_one, hget]; rfl
      split at h
      · -- a latch: signals a new encoding, excluded by `hno`
        exfalso
        repeat' split at h
        all_goals first
          | (cases h; simp [Ctx.signal, Ctx.write] at hno)
          | (cases h)
      · split at h
        · -- extended
          rename_i hext
          simp only [Except.ok.injEq] at h
          subst h
          simp only [isExtended, Bool.and_eq_true, decide_eq_true_eq] at hext
          refine ⟨(a.push ch).endSeg, ⟨?_, ?_, rfl⟩, rfl, ⟨rfl, rfl, rfl, rfl⟩, Or.inl rfl, hlt⟩
          · have := decodesTo_upper hI.dec (ch - 128 + 1) (by omega) (by omega)
            have e : ch - 128 + 1 + 128 - 1 = ch := by omega
            rw [e] at this
            simpa [Ctx.write, List.append_assoc] using this
          · simp only [Ctx.write, Acc.endSeg_rev, Acc.push_rev, hI.text, htake]
        · rename_i hext
          simp only [Except.ok.injEq] at h
          subst h
          have hlt128 : ch < 128 := by
            simp only [isExtended, Bool.and_eq_true, decide_eq_true_eq, not_and] at hext
            omega
          refine ⟨(a.push ch).endSeg, ⟨?_, ?_, rfl⟩, rfl, ⟨rfl, rfl, rfl, rfl⟩, Or.inl rfl, hlt⟩
          · have := decodesTo_ascii hI.dec (ch + 1) (by omega) (by omega)
            simpa [Ctx.write] using this
          · simp only [Ctx.write, Acc.endSeg_rev, Acc.push_rev, hI.text, htake]

end Gzx.DMHighLevel

namespace Gzx.DMHighLevel

/-- skipping the bytes a segment has consumed -/
theorem decLoop_skip' (T : Tables) (xs suf : List Nat) (up : Bool) (off : Nat) (a : Acc) :
    decLoop T (xs ++ suf) xs.length up off a = decLoop T suf 0 up (off + xs.length) a := by
  induction xs generalizing off with
  | nil => simp
  | cons x xs ih =>
    simp only [List.cons_append, List.length_cons, decLoop]
    rw [ih]; congr 1; omega

end Gzx.DMHighLevel
