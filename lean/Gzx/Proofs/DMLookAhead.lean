/-
  C02: properties of the exact look-ahead `laExactR ρ` (Model/DMHighLevel.lean, Part 5) for EVERY float rounding
  oracle `ρ`, hence for every `LaFloatLike` look-ahead:
    * with one character left (plus the macro trailer, if any) it answers ASCII from ASCII   (`LaTailAscii`)
    * for three characters followed by one extended character (plus trailer) it never answers X12, neither
      from X12 nor from ASCII                                                                 (`LaX12Tail`)
  Method: the look-ahead depends on a character only through its class; there are nine classes; the count
  trajectories do not depend on `ρ` (only the final integer conversion of C40/Text/X12 does, upwards), so the two
  facts reduce to inequalities between exact counts, kernel-evaluated over all class combinations.
-/
import Gzx.Proofs.DMRoundTripGen
namespace Gzx.DMHighLevel

/-! ## the nine character classes -/

def otherClass : CharClass := ⟨false, false, false, false, false, false, false⟩
def extClass : CharClass := ⟨false, true, false, false, false, false, false⟩

/-- digit, space, upper case, lower case, CR, `*` / `>`, EDIFACT-only, none, extended -/
def allClasses : List CharClass := [
  ⟨true, false, true, true, true, true, false⟩, ⟨false, false, true, true, true, true, false⟩,
  ⟨false, false, true, false, true, true, false⟩, ⟨false, false, false, true, false, false, false⟩,
  ⟨false, false, false, false, true, false, true⟩, ⟨false, false, false, false, true, true, true⟩,
  ⟨false, false, false, false, false, true, false⟩, otherClass, extClass]

theorem classOf_mem_small : ∀ c : Fin 256, classOf c.val ∈ allClasses := by decide +kernel

theorem classOf_big (ch : Nat) (h : 256 ≤ ch) : classOf ch = otherClass := by
  unfold classOf otherClass isDigit isExtended isNativeC40 isNativeText isNativeX12 isNativeEDIFACT isX12TermSep
  simp only [CharClass.mk.injEq, Bool.and_eq_false_iff, Bool.or_eq_false_iff, decide_eq_false_iff_not]
  omega

theorem classOf_mem (ch : Nat) : classOf ch ∈ allClasses := by
  by_cases h : ch < 256
  · exact classOf_mem_small ⟨ch, h⟩
  · rw [classOf_big ch (by omega)]; decide

theorem classOf_ext_small : ∀ c : Fin 256, isExtended c.val = true → classOf c.val = extClass := by decide +kernel

theorem classOf_ext (ch : Nat) (h : isExtended ch = true) : classOf ch = extClass := by
  have hlt : ch < 256 := by
    simp only [isExtended, Bool.and_eq_true, decide_eq_true_eq] at h; omega
  exact classOf_ext_small ⟨ch, hlt⟩ h

theorem classOf_30 : classOf 30 = otherClass := by decide
theorem classOf_4 : classOf 4 = otherClass := by decide

/-! ## integer conversion: `ρ` only moves C40 / Text / X12 upwards -/

theorem ceil12R_ge (b : Bool) (n : Nat) : ceil12 n ≤ ceil12R b n := by
  unfold ceil12R; omega

theorem minCount_mk (a c t x e b : Nat) : (mkIntCounts a c t x e b).min ≤ a := by
  unfold mkIntCounts
  exact Nat.le_trans (Nat.min_le_right _ _) (Nat.min_le_left _ _)

/-- step K never answers X12 when the ASCII count is below the X12 count -/
theorem decideK_ne_x12 (a c t x e b : Nat) (h : a < x) : decideK (mkIntCounts a c t x e b) ≠ X12 := by
  have hmin := minCount_mk a c t x e b
  have hx : (mkIntCounts a c t x e b).isMin x = false := by
    unfold IntCounts.isMin
    simp only [beq_eq_false_iff_ne, ne_eq]
    omega
  have hxf : (mkIntCounts a c t x e b).x = x := rfl
  unfold decideK
  simp only [hxf, hx]
  repeat' split
  all_goals first | decide | simp_all

/-- step R never answers X12 when the ASCII count is below the X12 count -/
theorem decideR_ne_x12 (a c t x e b scan : Nat) (h : a < x) :
    decideR (mkIntCounts a c t x e b) scan ≠ some X12 := by
  have hmin := minCount_mk a c t x e b
  have hx : (mkIntCounts a c t x e b).isMin x = false := by
    unfold IntCounts.isMin
    simp only [beq_eq_false_iff_ne, ne_eq]
    omega
  have hf : (mkIntCounts a c t x e b).x = x ∧ (mkIntCounts a c t x e b).a = a ∧ (mkIntCounts a c t x e b).c = c := ⟨rfl, rfl, rfl⟩
  unfold decideR
  simp only [hf.1, hf.2.1, hf.2.2, hx]
  repeat' split
  all_goals (intro hh; first | (cases hh; done) | omega | (simp_all; done))

/-- step K answers ASCII when the ASCII count is minimal -/
theorem decideK_ascii (a c t x e b : Nat) (h1 : a ≤ c) (h2 : a ≤ t) (h3 : a ≤ x) (h4 : a ≤ e) (h5 : a ≤ b)
    (h6 : a ≤ 2147483647) : decideK (mkIntCounts a c t x e b) = ASCII := by
  have hm : (mkIntCounts a c t x e b).min = a := by
    unfold mkIntCounts
    simp only [Nat.min_def]
    repeat' split
    all_goals omega
  have ha : (mkIntCounts a c t x e b).a = a := rfl
  unfold decideK
  simp only [ha, hm, if_true]

/-! ## the two trajectory checks -/

/-- along the exact trajectory the ASCII count stays below the X12 count wherever steps R / K look -/
def axOK : List CharClass → Nat → ECounts → Bool
  | [], _, k => decide (ceil12 k.a < ceil12 k.x)
  | ch :: rest, n, k =>
    let k' := stepECounts k ch
    (decide (n + 1 < 4) || decide (ceil12 k'.a < ceil12 k'.x)) && axOK rest (n + 1) k'

theorem laLoopR_ne_x12 (ρ : Bump) : ∀ (cls : List CharClass) (n : Nat) (k : ECounts),
    axOK cls n k = true → laLoopR ρ cls n k ≠ X12 := by
  intro cls
  induction cls with
  | nil =>
    intro n k h
    simp only [axOK, decide_eq_true_eq] at h
    unfold laLoopR eIntCountsR
    exact decideK_ne_x12 _ _ _ _ _ _ (Nat.lt_of_lt_of_le h (ceil12R_ge _ _))
  | cons ch rest ih =>
    intro n k h
    simp only [axOK, Bool.and_eq_true, Bool.or_eq_true, decide_eq_true_eq] at h
    obtain ⟨h1, h2⟩ := h
    unfold laLoopR
    simp only
    split
    · rename_i hge
      have hlt : ceil12 (stepECounts k ch).a < ceil12 (stepECounts k ch).x := by
        rcases h1 with h1 | h1
        · omega
        · exact h1
      have hR := decideR_ne_x12 (ceil12 (stepECounts k ch).a) (ceil12R (ρ (n + 1) 1) (stepECounts k ch).c)
        (ceil12R (ρ (n + 1) 2) (stepECounts k ch).t) (ceil12R (ρ (n + 1) 3) (stepECounts k ch).x)
        (ceil12 (stepECounts k ch).e) (ceil12 (stepECounts k ch).b) (x12ScanC (rest.drop 1))
        (Nat.lt_of_lt_of_le hlt (ceil12R_ge _ _))
      unfold eIntCountsR
      split
      · rename_i m hm
        intro hmx
        rw [hmx] at hm
        exact hR hm
      · exact ih _ _ h2
    · exact ih _ _ h2

/-- fewer than four characters are looked at and at the end the ASCII count is minimal -/
def asciiTailOK : List CharClass → Nat → ECounts → Bool
  | [], _, k =>
    decide (ceil12 k.a ≤ ceil12 k.c) && decide (ceil12 k.a ≤ ceil12 k.t) && decide (ceil12 k.a ≤ ceil12 k.x) &&
    decide (ceil12 k.a ≤ ceil12 k.e) && decide (ceil12 k.a ≤ ceil12 k.b) && decide (ceil12 k.a ≤ 2147483647)
  | ch :: rest, n, k => decide (n + 1 < 4) && asciiTailOK rest (n + 1) (stepECounts k ch)

theorem laLoopR_ascii (ρ : Bump) : ∀ (cls : List CharClass) (n : Nat) (k : ECounts),
    asciiTailOK cls n k = true → laLoopR ρ cls n k = ASCII := by
  intro cls
  induction cls with
  | nil =>
    intro n k h
    simp only [asciiTailOK, Bool.and_eq_true, decide_eq_true_eq] at h
    obtain ⟨⟨⟨⟨⟨h1, h2⟩, h3⟩, h4⟩, h5⟩, h6⟩ := h
    unfold laLoopR eIntCountsR
    exact decideK_ascii _ _ _ _ _ _ (Nat.le_trans h1 (ceil12R_ge _ _)) (Nat.le_trans h2 (ceil12R_ge _ _))
      (Nat.le_trans h3 (ceil12R_ge _ _)) h4 h5 h6
  | cons ch rest ih =>
    intro n k h
    simp only [asciiTailOK, Bool.and_eq_true, decide_eq_true_eq] at h
    obtain ⟨h1, h2⟩ := h
    unfold laLoopR
    simp only
    split
    · omega
    · exact ih _ _ h2

/-! ## kernel evaluation over all class combinations -/

theorem asciiTail_checked : ∀ k1 ∈ allClasses,
    asciiTailOK [k1] 0 (startCounts ASCII) = true ∧
    asciiTailOK [k1, otherClass, otherClass] 0 (startCounts ASCII) = true := by decide +kernel

theorem x12Tail_checked : ∀ k1 ∈ allClasses, ∀ k2 ∈ allClasses, ∀ k3 ∈ allClasses,
    axOK [k1, k2, k3, extClass] 0 (startCounts X12) = true ∧
    axOK [k1, k2, k3, extClass] 0 (startCounts ASCII) = true ∧
    axOK [k1, k2, k3, extClass, otherClass, otherClass] 0 (startCounts X12) = true ∧
    axOK [k1, k2, k3, extClass, otherClass, otherClass] 0 (startCounts ASCII) = true := by decide +kernel

/-! ## the oracle conditions for `laExactR ρ` -/

/-- how the message ends behind the last character the encoder handles: nothing, or the macro trailer -/
def TotOK (msg : List Nat) (tot : Nat) : Prop := tot = msg.length ∨ (tot + 2 = msg.length ∧ msg.drop tot = [30, 4])

theorem drop_succ_of_lt {l : List Nat} {p : Nat} (h : p < l.length) : l.drop p = l[p] :: l.drop (p + 1) :=
  List.drop_eq_getElem_cons h

theorem tail_cases {msg : List Nat} {tot : Nat} (h : TotOK msg tot) :
    msg.drop tot = [] ∨ msg.drop tot = [30, 4] := by
  rcases h with h | ⟨_, h⟩
  · left; rw [h]; exact List.drop_length
  · right; exact h

theorem laExactR_tail_ascii (ρ : Bump) (msg : List Nat) (tot : Nat) (h : TotOK msg tot) :
    LaTailAscii (laExactR ρ) msg tot := by
  intro p hp
  have hlen : tot ≤ msg.length := by rcases h with h | ⟨h, _⟩ <;> omega
  have hplt : p < msg.length := by omega
  have hd : msg.drop p = msg[p] :: msg.drop tot := by rw [drop_succ_of_lt hplt, hp]
  unfold laExactR laClsR
  have hnot : ¬ p ≥ (msg.map classOf).length := by simp; omega
  simp only [hnot, if_false]
  rw [← List.map_drop, hd, List.map_cons]
  obtain ⟨c1, c2⟩ := asciiTail_checked (classOf msg[p]) (classOf_mem _)
  have hA : laLoopR ρ (classOf msg[p] :: (msg.drop tot).map classOf) 0 (startCounts ASCII) = ASCII := by
    rcases tail_cases h with ht | ht
    · rw [ht]; exact laLoopR_ascii ρ _ _ _ c1
    · rw [ht]
      simp only [List.map_cons, List.map_nil, classOf_30, classOf_4]
      exact laLoopR_ascii ρ _ _ _ c2
  rw [hA]
  simp

theorem laExactR_x12_tail (ρ : Bump) (msg : List Nat) (tot : Nat) (h : TotOK msg tot) :
    LaX12Tail (laExactR ρ) msg tot := by
  intro p ch hp hch hext
  have hlen : tot ≤ msg.length := by rcases h with h | ⟨h, _⟩ <;> omega
  have h0 : p < msg.length := by omega
  have h1 : p + 1 < msg.length := by omega
  have h2 : p + 2 < msg.length := by omega
  have h3 : p + 3 < msg.length := by omega
  have hd : msg.drop p = msg[p] :: msg[p + 1] :: msg[p + 2] :: ch :: msg.drop tot := by
    rw [drop_succ_of_lt h0, drop_succ_of_lt h1, drop_succ_of_lt h2, drop_succ_of_lt h3]
    have : msg[p + 3] = ch := by
      rw [List.getElem?_eq_getElem h3] at hch; exact Option.some.inj hch
    rw [this, show p + 3 + 1 = tot by omega]
  obtain ⟨c1, c2, c3, c4⟩ := x12Tail_checked (classOf msg[p]) (classOf_mem _) (classOf msg[p + 1]) (classOf_mem _)
    (classOf msg[p + 2]) (classOf_mem _)
  have key : ∀ mode, (mode = X12 ∨ mode = ASCII) →
      laLoopR ρ ((msg.drop p).map classOf) 0 (startCounts mode) ≠ X12 := by
    intro mode hm
    rw [hd]
    simp only [List.map_cons, classOf_ext ch hext]
    rcases tail_cases h with ht | ht
    · rw [ht]
      rcases hm with rfl | rfl
      · exact laLoopR_ne_x12 ρ _ _ _ c1
      · exact laLoopR_ne_x12 ρ _ _ _ c2
    · rw [ht]
      simp only [List.map_cons, List.map_nil, classOf_30, classOf_4]
      rcases hm with rfl | rfl
      · exact laLoopR_ne_x12 ρ _ _ _ c3
      · exact laLoopR_ne_x12 ρ _ _ _ c4
  have fin : ∀ mode, (mode = X12 ∨ mode = ASCII) → laExactR ρ msg p mode ≠ X12 := by
    intro mode hm
    unfold laExactR laClsR
    have hnot : ¬ p ≥ (msg.map classOf).length := by simp; omega
    simp only [hnot, if_false]
    rw [← List.map_drop]
    have := key mode hm
    split
    · decide
    · split
      · decide
      · exact this
  exact ⟨fin X12 (Or.inl rfl), fin ASCII (Or.inr rfl)⟩

/-- both conditions for every look-ahead that is exact arithmetic up to float rounding -/
theorem floatLike_tail_conditions (la : LookAhead) (hla : LaFloatLike la) (msg : List Nat) (tot : Nat)
    (h : TotOK msg tot) : LaTailAscii la msg tot ∧ LaX12Tail la msg tot := by
  constructor
  · intro p hp
    obtain ⟨ρ, hρ⟩ := hla msg p ASCII
    rw [hρ]; exact laExactR_tail_ascii ρ msg tot h p hp
  · intro p ch hp hch hext
    obtain ⟨ρ1, hρ1⟩ := hla msg p X12
    obtain ⟨ρ2, hρ2⟩ := hla msg p ASCII
    rw [hρ1, hρ2]
    exact ⟨(laExactR_x12_tail ρ1 msg tot h p ch hp hch hext).1, (laExactR_x12_tail ρ2 msg tot h p ch hp hch hext).2⟩

theorem totOK_initCtx (msg : List Nat) (cfg : Cfg) : TotOK msg (initCtx msg cfg).total := by
  obtain ⟨_, _, _, htr, _, hmsg, _⟩ := initCtx_inv refTables msg cfg
  unfold TotOK Ctx.total
  rw [hmsg]
  rcases htr with h0 | ⟨h2, hl, hd⟩
  · left; rw [h0]; rfl
  · right
    rw [hmsg] at hl hd
    rw [h2]
    exact ⟨by omega, hd⟩

/-! ## when EDIFACT is never proposed -/

/-- the classes of EDIFACT-native characters: digit, space, upper case, `*` / `>`, EDIFACT-only -/
def ediClasses : List CharClass := allClasses.filter (·.edi)

theorem classOf_edi_small : ∀ c : Fin 256, isNativeEDIFACT c.val = true → classOf c.val ∈ ediClasses := by
  decide +kernel

theorem classOf_edi (ch : Nat) (h : isNativeEDIFACT ch = true) : classOf ch ∈ ediClasses := by
  have hlt : ch < 256 := by
    simp only [isNativeEDIFACT, Bool.and_eq_true, decide_eq_true_eq] at h; omega
  exact classOf_edi_small ⟨ch, hlt⟩ h

/-- up to three EDIFACT-native characters before the end of the message: ASCII from ASCII -/
theorem ediTail_checked : ∀ k1 ∈ ediClasses, ∀ k2 ∈ ediClasses, ∀ k3 ∈ ediClasses,
    asciiTailOK [k1] 0 (startCounts ASCII) = true ∧ asciiTailOK [k1, k2] 0 (startCounts ASCII) = true ∧
    asciiTailOK [k1, k2, k3] 0 (startCounts ASCII) = true := by decide +kernel

/-- a message in which every window of four consecutive characters contains a character that EDIFACT cannot
    encode is never sent to EDIFACT by the exact look-ahead, whatever the float rounding -/
theorem laExactR_no_edifact (ρ : Bump) (msg : List Nat)
    (H : ∀ p, p + 4 ≤ msg.length → ((msg.drop p).take 4).all isNativeEDIFACT = false) :
    LaNoEdifactOn (laExactR ρ) msg := by
  intro p
  unfold laExactR laClsR
  by_cases hp : p ≥ (msg.map classOf).length
  · simp only [hp, if_true]; decide
  · simp only [hp, if_false]
    rw [← List.map_drop]
    have hall : (((msg.drop p).map classOf).take 4).all (·.edi) = ((msg.drop p).take 4).all isNativeEDIFACT := by
      rw [← List.map_take, List.all_map]; rfl
    rw [hall]
    cases hA : ((msg.drop p).take 4).all isNativeEDIFACT with
    | false =>
      simp only [Bool.not_false, and_true]
      split
      · decide
      · split
        · decide
        · assumption
    | true =>
      have hlen : ¬ p + 4 ≤ msg.length := fun h4 => by rw [H p h4] at hA; cases hA
      have hp' : p < msg.length := by simpa using hp
      have hdl : (msg.drop p).length = msg.length - p := List.length_drop
      have htake : (msg.drop p).take 4 = msg.drop p := List.take_of_length_le (by omega)
      rw [htake, List.all_eq_true] at hA
      have hASCII : laLoopR ρ ((msg.drop p).map classOf) 0 (startCounts ASCII) = ASCII := by
        match hl : msg.drop p, hA, hdl with
        | [], _, hdl => simp at hdl; omega
        | [a], hA, _ =>
          obtain ⟨c1, _, _⟩ := ediTail_checked _ (classOf_edi a (hA a (by simp))) _ (classOf_edi a (hA a (by simp)))
            _ (classOf_edi a (hA a (by simp)))
          exact laLoopR_ascii ρ _ _ _ c1
        | [a, b], hA, _ =>
          obtain ⟨_, c2, _⟩ := ediTail_checked _ (classOf_edi a (hA a (by simp))) _ (classOf_edi b (hA b (by simp)))
            _ (classOf_edi a (hA a (by simp)))
          exact laLoopR_ascii ρ _ _ _ c2
        | [a, b, c], hA, _ =>
          obtain ⟨_, _, c3⟩ := ediTail_checked _ (classOf_edi a (hA a (by simp))) _ (classOf_edi b (hA b (by simp)))
            _ (classOf_edi c (hA c (by simp)))
          exact laLoopR_ascii ρ _ _ _ c3
        | _ :: _ :: _ :: _ :: _, _, hdl => simp at hdl; omega
      rw [hASCII]
      simp

/-! ## two characters left -/

/-- step R answers ASCII when the ASCII count is strictly below all others -/
theorem decideR_ascii (a c t x e b scan : Nat) (h1 : a < b) (h2 : a < c) (h3 : a < t) (h4 : a < x) (h5 : a < e) :
    decideR (mkIntCounts a c t x e b) scan = some ASCII := by
  have hf : (mkIntCounts a c t x e b).a = a ∧ (mkIntCounts a c t x e b).b = b ∧ (mkIntCounts a c t x e b).c = c ∧
      (mkIntCounts a c t x e b).t = t ∧ (mkIntCounts a c t x e b).x = x ∧ (mkIntCounts a c t x e b).e = e :=
    ⟨rfl, rfl, rfl, rfl, rfl, rfl⟩
  unfold decideR
  simp only [hf.1, hf.2.1, hf.2.2.1, hf.2.2.2.1, hf.2.2.2.2.1, hf.2.2.2.2.2, h1, h2, h3, h4, h5, and_self, if_true]

/-- like `asciiTailOK`, and from the fourth character on the ASCII count is STRICTLY minimal at once -/
def asciiStrictOK : List CharClass → Nat → ECounts → Bool
  | [], n, k => asciiTailOK [] n k
  | ch :: rest, n, k =>
    let k' := stepECounts k ch
    if n + 1 ≥ 4 then
      decide (ceil12 k'.a < ceil12 k'.b) && decide (ceil12 k'.a < ceil12 k'.c) && decide (ceil12 k'.a < ceil12 k'.t) &&
      decide (ceil12 k'.a < ceil12 k'.x) && decide (ceil12 k'.a < ceil12 k'.e)
    else asciiStrictOK rest (n + 1) k'

theorem laLoopR_ascii_strict (ρ : Bump) : ∀ (cls : List CharClass) (n : Nat) (k : ECounts),
    asciiStrictOK cls n k = true → laLoopR ρ cls n k = ASCII := by
  intro cls
  induction cls with
  | nil => intro n k h; exact laLoopR_ascii ρ [] n k h
  | cons ch rest ih =>
    intro n k h
    unfold asciiStrictOK at h
    simp only at h
    unfold laLoopR
    simp only
    split
    · rename_i hge
      simp only [hge, if_true, Bool.and_eq_true, decide_eq_true_eq] at h
      obtain ⟨⟨⟨⟨h1, h2⟩, h3⟩, h4⟩, h5⟩ := h
      unfold eIntCountsR
      rw [decideR_ascii _ _ _ _ _ _ _ h1 (Nat.lt_of_lt_of_le h2 (ceil12R_ge _ _)) (Nat.lt_of_lt_of_le h3 (ceil12R_ge _ _))
        (Nat.lt_of_lt_of_le h4 (ceil12R_ge _ _)) h5]
    · rename_i hge
      simp only [hge, if_false] at h
      exact ih _ _ h

/-- the classes of non-extended characters -/
def plainClasses : List CharClass := allClasses.filter (fun k => !k.ext)

theorem classOf_plain_small : ∀ c : Fin 256, isExtended c.val = false → classOf c.val ∈ plainClasses := by
  decide +kernel

theorem classOf_plain (ch : Nat) (h : isExtended ch = false) : classOf ch ∈ plainClasses := by
  by_cases hlt : ch < 256
  · exact classOf_plain_small ⟨ch, hlt⟩ h
  · rw [classOf_big ch (by omega)]; decide

theorem asciiTail2_checked : ∀ k1 ∈ plainClasses, ∀ k2 ∈ plainClasses,
    asciiStrictOK [k1, k2] 0 (startCounts ASCII) = true ∧
    asciiStrictOK [k1, k2, otherClass, otherClass] 0 (startCounts ASCII) = true := by decide +kernel

/-- with two non-extended characters left the oracle asked from ASCII stays in ASCII — the condition an EDIFACT
    segment that ends without unlatch (or is rewound) relies on -/
def LaTail2Ascii (la : LookAhead) (msg : List Nat) (tot : Nat) : Prop :=
  ∀ p c1 c2, p + 2 = tot → msg[p]? = some c1 → msg[p + 1]? = some c2 → isExtended c1 = false →
    isExtended c2 = false → la msg p ASCII = ASCII

theorem laExactR_tail2_ascii (ρ : Bump) (msg : List Nat) (tot : Nat) (h : TotOK msg tot) :
    LaTail2Ascii (laExactR ρ) msg tot := by
  intro p c1 c2 hp hc1 hc2 he1 he2
  have hlen : tot ≤ msg.length := by rcases h with h | ⟨h, _⟩ <;> omega
  have h0 : p < msg.length := by omega
  have h1 : p + 1 < msg.length := by omega
  have hd : msg.drop p = c1 :: c2 :: msg.drop tot := by
    rw [drop_succ_of_lt h0, drop_succ_of_lt h1]
    have e1 : msg[p] = c1 := by rw [List.getElem?_eq_getElem h0] at hc1; exact Option.some.inj hc1
    have e2 : msg[p + 1] = c2 := by rw [List.getElem?_eq_getElem h1] at hc2; exact Option.some.inj hc2
    rw [e1, e2, show p + 1 + 1 = tot by omega]
  unfold laExactR laClsR
  have hnot : ¬ p ≥ (msg.map classOf).length := by simp; omega
  simp only [hnot, if_false]
  rw [← List.map_drop, hd]
  simp only [List.map_cons]
  obtain ⟨q1, q2⟩ := asciiTail2_checked _ (classOf_plain c1 he1) _ (classOf_plain c2 he2)
  have hA : laLoopR ρ (classOf c1 :: classOf c2 :: (msg.drop tot).map classOf) 0 (startCounts ASCII) = ASCII := by
    rcases tail_cases h with ht | ht
    · rw [ht]; exact laLoopR_ascii_strict ρ _ _ _ q1
    · rw [ht]
      simp only [List.map_cons, List.map_nil, classOf_30, classOf_4]
      exact laLoopR_ascii_strict ρ _ _ _ q2
  rw [hA]
  simp

end Gzx.DMHighLevel
