/-
  C02: leaving C40 / Text / X12 encodation in mid-stream (complete triplets, more characters follow):
  the end-of-data handlers write the triplets and the unlatch, and the invariant holds again.
-/
import Gzx.Proofs.DMTriplets
import Gzx.Proofs.DMBase256
namespace Gzx.DMHighLevel

/-- the C40 / Text encoder has buffered the values of the characters `chars` = msg[pos0, pos) after the latch -/
def Buffered (text : Bool) (c : Ctx) (a : Acc) (chars buf : List Nat) : Prop :=
  ∃ cw0, c.cw = cw0 ++ [if text then 239 else 230] ∧ DecodesTo refTables cw0 a ∧
    a.rev.reverse ++ chars = c.msg.take c.pos ∧ buf = cVals text chars

theorem pushAll_rev (a : Acc) (cs : List Nat) : (a.pushAll cs).rev.reverse = a.rev.reverse ++ cs := by
  induction cs generalizing a with
  | nil => simp [Acc.pushAll]
  | cons c cs ih => simp [Acc.pushAll, ih, Acc.push]

/-- `dm_encoder_invariant`, C40 / Text left in mid-stream: complete triplets buffered and more characters to
    come (the look-ahead asked to leave): `c40HandleEOD` re-establishes the invariant. -/
theorem c40HandleEOD_midstream {syms : List SymbolInfo} {text : Bool} {c c' : Ctx} {a : Acc}
    {chars buf : List Nat} (hB : Buffered text c a chars buf) (hb : ∀ x ∈ chars, x < 256)
    (k : Nat) (h3 : buf.length = 3 * k) (hmore : c.hasMore = true)
    (h : c40HandleEOD syms c buf = .ok c') :
    Inv refTables c' (a.pushAll chars).endSeg ∧ c'.pos = c.pos ∧ c'.msg = c.msg ∧ c'.newEnc = some ASCII := by
  obtain ⟨cw0, hcw, hdec, htext, hbuf⟩ := hB
  unfold c40HandleEOD at h
  unfold c40Available at h
  simp only [bind, Except.bind] at h
  cases hu : c.update syms (c.count + buf.length / 3 * 2) with
  | error e => rw [hu] at h; simp at h
  | ok c2 =>
    rw [hu] at h
    simp only at h
    obtain ⟨ucw, umsg, upos, _, uskip, _, s, hs, _, _⟩ := update_spec hu
    have hcapok : c2.capacity = .ok s.cap := by simp [Ctx.capacity, hs]
    rw [hcapok] at h
    have hmore2 : c2.hasMore = true := by
      unfold Ctx.hasMore Ctx.total at hmore ⊢; rw [umsg, upos, uskip]; exact hmore
    have hr0 : buf.length % 3 = 0 := by omega
    have hw : ∀ (cc : Ctx) (xs : List Nat), (cc.writeAll xs).hasMore = cc.hasMore := fun _ _ => rfl
    simp only [hr0, show ¬ (0 : Nat) = 2 by decide, if_false, show ¬ (0 : Nat) = 1 by decide, and_false,
      if_true, hw, hmore2, or_true, Except.ok.injEq] at h
    subst h
    refine ⟨⟨?_, ?_, rfl⟩, ?_, ?_, rfl⟩
    · have := decodesTo_c40 text hdec chars hb k (by rw [← hbuf]; exact h3)
      rw [← hbuf] at this
      simpa [Ctx.signal, Ctx.write, Ctx.writeAll, ucw, hcw, List.append_assoc] using this
    · simp only [Ctx.signal, Ctx.write, Ctx.writeAll, Acc.endSeg_rev, pushAll_rev, umsg, upos, htext]
    · simp [Ctx.signal, Ctx.write, Ctx.writeAll, upos]
    · simp [Ctx.signal, Ctx.write, Ctx.writeAll, umsg]

end Gzx.DMHighLevel
