/-
  C08 ↔ C04: the Data Matrix reference parity `DMRef.eccBlock n data` IS the Reed-Solomon encoding of C04,
  `Gzx.RS.encode Gzx.GF.dataMatrix256 data n` (the model of common/reedsolomon, whose correction capability
  C04/C05 prove).  Route: reference multiplication = C04's reference product on bytes; long division keeps the
  value at every root of the generator; hence `data ++ eccBlock n data` has zero syndromes; `rs_encode_unique`.
-/
import Gzx.Proofs.DMRSChk
import Gzx.Proofs.DMGF
import Gzx.Properties.C04
namespace Gzx.DMProofs
open Gzx Gzx.DMRef Gzx.GF Gzx.Ref.GF Gzx.Proofs.GF Gzx.Proofs.Poly

theorem dmFieldOK : FieldOK dataMatrix256 := fieldOK_mk' dmParamsOK

theorem alog_getD_eq_pw (j : Nat) (hj : j < 255) : DMEnc.alog.getD j 0 = pw 0x12D 256 j := by
  rw [alog_eq_pw, List.getD_eq_getElem?_getD, List.getElem?_map, List.getElem?_range hj]
  rfl

/-- the reference multiplication of `Gzx.DMRef` is C04's reference product `pmod 0x12D (clmul a b)` on bytes -/
theorem gfMul_eq_gmul (a b : Nat) (ha : a < 256) (hb : b < 256) : gfMul a b = gmul 0x12D a b := by
  have hlog := logOK_true
  unfold logOK at hlog
  simp only [Bool.and_eq_true, beq_iff_eq, List.all_eq_true, List.mem_range, Bool.or_eq_true,
    decide_eq_true_eq] at hlog
  obtain ⟨⟨⟨_, _⟩, hinv⟩, _⟩ := hlog
  by_cases ha0 : a = 0
  · subst ha0
    rw [gmul_zero_left dmParamsOK b hb]
    unfold gfMul; rw [gfMulAux_zero_left]
  by_cases hb0 : b = 0
  · subst hb0
    rw [gmul_zero_right dmParamsOK a]
    unfold gfMul; rw [gfMulAux_zero_right]
  rcases hinv a ha with h | ⟨hla, hia⟩
  · exact absurd h ha0
  rcases hinv b hb with h | ⟨hlb, hib⟩
  · exact absurd h hb0
  have h1 := gfMul_alog _ _ hla hlb
  rw [hia, hib] at h1
  rw [h1, alog_getD_eq_pw _ (Nat.mod_lt _ (by decide))]
  have h2 := gmul_pw_pw dmParamsOK (DMEnc.log.getD a 0) (DMEnc.log.getD b 0)
  rw [← alog_getD_eq_pw _ hla, ← alog_getD_eq_pw _ hlb, hia, hib] at h2
  rw [h2]
  exact pw_mod dmParamsOK _

theorem polyRem_congr' (m1 m2 : Nat → Nat → Nat) (hm : ∀ a b, a < 256 → b < 256 → m1 a b = m2 a b)
    (hlt : ∀ a b, a < 256 → m2 a b < 256) (gs : List Nat) (hgs : allBytes gs) :
    ∀ (k : Nat) (xs : List Nat), allBytes xs → polyRem m1 gs k xs = polyRem m2 gs k xs := by
  intro k
  induction k with
  | zero => intro xs _; rfl
  | succ k ih =>
    intro xs h
    cases xs with
    | nil => rfl
    | cons c xs =>
      simp only [polyRem]
      have hc : c < 256 := h c List.mem_cons_self
      have hmap : gs.map (m1 c) = gs.map (m2 c) :=
        List.map_congr_left (fun g hg => hm c g hc (hgs g hg))
      rw [hmap]
      apply ih
      apply xorPrefix_bytes
      · exact fun w hw => h w (List.mem_cons_of_mem _ hw)
      · intro w hw
        obtain ⟨g, _, rfl⟩ := List.mem_map.1 hw
        exact hlt c g hc

theorem xorPrefix_split : ∀ (A G B : List Nat), A.length = G.length →
    xorPrefix (A ++ B) G = List.zipWith (· ^^^ ·) A G ++ B
  | [], [], B, _ => by cases B <;> simp [xorPrefix]
  | [], _ :: _, _, h => by simp at h
  | _ :: _, [], _, h => by simp at h
  | a :: A, g :: G, B, h => by
    simp only [List.cons_append, xorPrefix, List.zipWith_cons_cons, List.cons.injEq, true_and]
    exact xorPrefix_split A G B (by simpa using h)

section root
variable (ρ : Nat) (hρ : ρ < 256) (gs : List Nat) (hgs : InR 256 gs)
  (hroot : evalH 0x12D ρ (1 :: gs) = 0)
include hρ hgs hroot

/-- one step of long division by the monic polynomial `x^n + gs` does not change the value at a root `ρ` -/
theorem polyRem_step_eval (c : Nat) (hc : c < 256) (rest : List Nat) (hrest : InR 256 rest)
    (hlen : gs.length ≤ rest.length) :
    evalH 0x12D ρ (xorPrefix rest (gs.map (gmul 0x12D c))) = evalH 0x12D ρ (c :: rest) := by
  have ok := dmParamsOK
  obtain ⟨A, B, hAB, hA⟩ : ∃ A B, rest = A ++ B ∧ A.length = gs.length :=
    ⟨rest.take gs.length, rest.drop gs.length, (List.take_append_drop _ _).symm, by simp; omega⟩
  subst hAB
  have hAin : InR 256 A := fun x hx => hrest x (List.mem_append_left _ hx)
  have hBin : InR 256 B := fun x hx => hrest x (List.mem_append_right _ hx)
  have hGin : InR 256 (gs.map (gmul 0x12D c)) := InR_map_gmul ok c gs
  rw [xorPrefix_split A _ B (by simp [hA])]
  have hzin : InR 256 (List.zipWith (· ^^^ ·) A (gs.map (gmul 0x12D c))) := InR_zipWith_xor ok _ _ hAin hGin
  rw [evalH_append ok ρ hρ _ B hzin hBin]
  have hcA : InR 256 (c :: A) := InR.cons hc hAin
  have hcons : c :: (A ++ B) = (c :: A) ++ B := rfl
  rw [hcons, evalH_append ok ρ hρ _ B hcA hBin]
  congr 2
  -- value of the xor-ed head
  have h1 : evalH 0x12D ρ (List.zipWith (· ^^^ ·) A (gs.map (gmul 0x12D c))) =
      evalFrom 0x12D ρ c A ^^^ evalFrom 0x12D ρ c (gs.map (gmul 0x12D c)) := by
    have := evalFrom_xor ok ρ A (gs.map (gmul 0x12D c)) c c (by simp [hA]) hc hc hAin hGin
    rw [Nat.xor_self] at this
    exact this
  have h2 : evalFrom 0x12D ρ c (gs.map (gmul 0x12D c)) = 0 := by
    have hs := evalFrom_scale ok ρ c hρ hc gs 1 (one_lt_size ok) hgs
    rw [gmul_one_right ok c hc] at hs
    rw [hs]
    have : evalFrom 0x12D ρ 1 gs = evalH 0x12D ρ (1 :: gs) := by
      unfold evalH
      rw [evalFrom_cons, gmul_zero_right ok, Nat.zero_xor]
    rw [this, hroot, gmul_zero_right ok]
  have h3 : evalH 0x12D ρ (c :: A) = evalFrom 0x12D ρ c A := by
    unfold evalH
    rw [evalFrom_cons, gmul_zero_right ok, Nat.zero_xor]
  rw [h1, h2, Nat.xor_zero, h3]

theorem polyRem_eval : ∀ (k : Nat) (xs : List Nat), InR 256 xs → k + gs.length ≤ xs.length →
    evalH 0x12D ρ (polyRem (gmul 0x12D) gs k xs) = evalH 0x12D ρ xs := by
  intro k
  induction k with
  | zero => intro xs _ _; rfl
  | succ k ih =>
    intro xs hxs hlen
    cases xs with
    | nil => simp at hlen
    | cons c rest =>
      simp only [polyRem]
      have hc : c < 256 := hxs c List.mem_cons_self
      have hrest : InR 256 rest := fun x hx => hxs x (List.mem_cons_of_mem _ hx)
      have hl : gs.length ≤ rest.length := by simp at hlen; omega
      rw [ih _ ?_ ?_]
      · exact polyRem_step_eval ρ hρ gs hgs hroot c hc rest hrest hl
      · have := xorPrefix_bytes rest (gs.map (gmul 0x12D c)) hrest (InR_map_gmul dmParamsOK c gs)
        exact this
      · rw [xorPrefix_length]; simp at hlen; omega

end root

theorem evalH_zeros (ρ : Nat) : ∀ k, evalH 0x12D ρ (List.replicate k 0) = 0
  | 0 => rfl
  | k + 1 => by rw [List.replicate_succ, evalH_zero_cons dmParamsOK, evalH_zeros ρ k]

theorem genHigh_bytes (n : Nat) (hn : n ∈ parityLengths) : InR 256 (genHigh n) := by
  have h := factorRowsOK_true
  unfold factorRowsOK at h
  rw [List.all_eq_true] at h
  obtain ⟨t, ht, hte⟩ := List.mem_iff_getElem.1 hn
  have hnt : (n, t) ∈ parityLengths.zipIdx :=
    List.mem_zipIdx_iff_getElem?.2 (by simp [List.getElem?_eq_getElem ht, hte])
  have := h (n, t) hnt
  simp only [Bool.and_eq_true, decide_eq_true_eq, List.all_eq_true] at this
  intro x hx
  unfold genHigh at hx
  exact this.2 x (List.mem_reverse.1 hx)

/-- the reference parity with C04's product instead of the shift-and-add product -/
theorem eccBlock_eq_gmul (n : Nat) (hn : n ∈ parityLengths) (data : List Nat) (hd : allBytes data) :
    eccBlock n data = polyRem (gmul 0x12D) (genHigh n) data.length (data ++ List.replicate n 0) := by
  unfold eccBlock
  apply polyRem_congr' gfMul (gmul 0x12D) gfMul_eq_gmul (fun a b _ => gmul_lt dmParamsOK a b)
    (genHigh n) (genHigh_bytes n hn)
  intro x hx
  rcases List.mem_append.1 hx with h | h
  · exact hd x h
  · rw [List.eq_of_mem_replicate h]; decide

/-- `data ++ eccBlock n data` vanishes at `2^1 … 2^n` (C04's `ZeroSyndromes` for the Data Matrix field) -/
theorem eccBlock_zero_syndromes (n : Nat) (hn : n ∈ parityLengths) (data : List Nat) (hd : allBytes data) :
    Gzx.Properties.C04.ZeroSyndromes dataMatrix256 (data ++ eccBlock n data) n := by
  intro i hi
  have ok := dmParamsOK
  rw [Gzx.Properties.C04.alpha_eq_pw dataMatrix256 dmFieldOK]
  show evalH 0x12D (pw 0x12D 256 (i + 1)) (data ++ eccBlock n data) = 0
  have hρ : pw 0x12D 256 (i + 1) < 256 := pw_lt ok _
  have hroot : evalH 0x12D (pw 0x12D 256 (i + 1)) (1 :: genHigh n) = 0 := by
    have h := rsRootsOK_true
    unfold rsRootsOK at h
    simp only [List.all_eq_true, List.mem_range, beq_iff_eq] at h
    exact h n hn i hi
  have hgl : (genHigh n).length = n := by
    have h := factorRowsOK_true
    unfold factorRowsOK at h
    rw [List.all_eq_true] at h
    obtain ⟨t, ht, hte⟩ := List.mem_iff_getElem.1 hn
    have := h (n, t) (List.mem_zipIdx_iff_getElem?.2 (by simp [List.getElem?_eq_getElem ht, hte]))
    simp only [Bool.and_eq_true, decide_eq_true_eq] at this
    unfold genHigh
    rw [List.length_reverse]
    exact this.1.1.2
  have hecc : InR 256 (eccBlock n data) := eccBlock_bytes n data hd
  have hzin : InR 256 (List.replicate n 0) := InR.replicate (by decide)
  have hinv := polyRem_eval (pw 0x12D 256 (i + 1)) hρ (genHigh n) (genHigh_bytes n hn) hroot data.length
    (data ++ List.replicate n 0) (InR.append hd hzin) (by simp [hgl])
  rw [← eccBlock_eq_gmul n hn data hd] at hinv
  rw [evalH_append ok _ hρ data _ hd hecc, hinv, evalH_append ok _ hρ data _ hd hzin, evalH_zeros,
    Nat.xor_zero]
  have hl : (eccBlock n data).length = (List.replicate n 0).length := by
    rw [eccBlock_length]; simp
  rw [hl, Nat.xor_self]

/-- THE LINK TO C04: the reference parity of a Data Matrix block is what the model of the library's
    Reed-Solomon encoder (`Gzx.RS.encode` over `Gzx.GF.dataMatrix256`) computes — for each of the 16 parity
    lengths and every non-empty byte vector that fits a GF(256) code word. -/
theorem eccBlock_eq_rs_encode (n : Nat) (hn : n ∈ parityLengths) (data : List Nat) (hne : data ≠ [])
    (hd : allBytes data) (hlen : data.length + n ≤ 255) :
    Gzx.RS.encode dataMatrix256 data n = .ok (eccBlock n data) := by
  have hn0 : 0 < n := by
    have : ∀ m ∈ parityLengths, 0 < m := by decide
    exact this n hn
  exact Gzx.Properties.C04.rs_encode_unique dataMatrix256 dmFieldOK data (eccBlock n data) n hne hn0
    hd (eccBlock_bytes n data hd) (eccBlock_length n data) hlen (by
      show n + 1 ≤ 256
      omega) (eccBlock_zero_syndromes n hn data hd)

end Gzx.DMProofs
