/-
  C08 ↔ C04: kernel evaluations linking the Data Matrix reference arithmetic to the reference arithmetic of C04
  (`Gzx.Ref.GF.gmul`, `Gzx.Proofs.GF.pw`, `Gzx.Proofs.Poly.evalH`) for the field 0x12D / 256.
-/
import Gzx.Ref.DM
import Gzx.Model.DMEncoder
import Gzx.Proofs.Poly
namespace Gzx.DMProofs
open Gzx Gzx.DMRef Gzx.GF Gzx.Ref.GF Gzx.Proofs.GF Gzx.Proofs.Poly

/-- 0x12D is a primitive polynomial of degree 8 (C04's decidable parameter check) -/
theorem dmParamsOK : ParamsOK 0x12D 256 := by decide +kernel

set_option maxRecDepth 1000000 in
/-- the antilog table (built as the Go init() of error_correction.go builds it) lists C04's powers of x -/
theorem alog_eq_pw : DMEnc.alog = (List.range 255).map (pw 0x12D 256) := by decide +kernel

/-- every `2^(i+1)`, `i < n`, is a root of the monic generator `x^n + genHigh n` — evaluated with C04's Horner
    evaluation over C04's reference product, for each of the 16 parity lengths -/
def rsRootsOK : Bool :=
  parityLengths.all (fun n => (List.range n).all (fun i =>
    evalH 0x12D (pw 0x12D 256 (i + 1)) (1 :: genHigh n) == 0))

set_option maxRecDepth 10000000 in
theorem rsRootsOK_true : rsRootsOK = true := by decide +kernel

end Gzx.DMProofs
