/-
  C02: whole-message round trip for encodings that use ASCII and Base-256 encodation only
  (any look-ahead oracle that proposes nothing but these two modes).
-/
import Gzx.Proofs.DMAsciiRoundTrip
import Gzx.Proofs.DMBase256
namespace Gzx.DMHighLevel

/-- the oracle proposes only ASCII or Base 256 -/
def LaAB (la : LookAhead) : Prop := ∀ m p k, la m p k = ASCII ∨ la m p k = BASE256

/-- what a latching ASCII step does -/
theorem ascii_latch {la : LookAhead} (hla : LaAB la) {c c' : Ctx}
    (h : asciiEncode la c = .ok c') (hsome : c'.newEnc ≠ none) (hnew : c.newEnc = none) :
    c' = (c.write 231).signal BASE256 := by
  unfold asciiEncode at h
  simp only at h
  split at h
  · split at h
    · cases h; exact absurd hnew hsome
    · cases h
  · cases hc : c.cur with
    | error e => rw [hc] at h; simp [bind, Except.bind] at h
    | ok ch =>
      rw [hc] at h
      simp only [bind, Except.bind] at h
      rcases hla c.msg c.pos ASCII with h0 | h5
      · rw [h0] at h
        simp only [ne_eq, not_true_eq_false, if_false] at h
        split at h <;> (cases h; exact absurd hnew hsome)
      · rw [h5] at h
        simp only [show (BASE256 : Nat) ≠ ASCII by decide, ne_eq, not_false_eq_true, if_true,
          Except.ok.injEq] at h
        exact h.symm

/-- the states the dispatch loop passes through -/
inductive St (T : Tables) : Nat → Ctx → Acc → Prop where
  | ascii {c a} : Inv T c a → St T ASCII c a
  | latched {c a} : Latched256 T c a → c.hasMore = true → St T BASE256 c a
  | done256 {c a} : Inv T c a → c.hasMore = false → St T BASE256 c a
  | exact {m c a} : (m = ASCII ∨ m = BASE256) → Exact T c a → c.hasMore = false → St T m c a

theorem dispatch_ab {T : Tables} {syms : List SymbolInfo} {la : LookAhead} (hla : LaAB la) :
    ∀ (fuel mode : Nat) (c : Ctx) (a : Acc) (c' : Ctx) (mode' : Nat),
      (∀ x ∈ c.msg, x < 256) → St T mode c a → c.newEnc = none → TrailerOK c → c.pos ≤ c.total →
      dispatch syms la fuel mode c = .ok (c', mode') →
      (mode' = ASCII ∨ mode' = BASE256) ∧ ∃ a', (Inv T c' a' ∨ Exact T c' a') ∧ a'.trailer = a.trailer ∧
        c'.msg = c.msg ∧ c'.skipAtEnd = c.skipAtEnd ∧ c'.pos = c'.total := by
  intro fuel
  induction fuel with
  | zero =>
    intro mode c a c' mode' _ hS _ _ hle h
    simp only [dispatch] at h
    split at h
    · cases h
    · rename_i hm
      cases h
      have hend : c.pos = c.total := by
        simp only [Ctx.hasMore, decide_eq_true_eq] at hm; omega
      cases hS with
      | ascii hI => exact ⟨Or.inl rfl, a, Or.inl hI, rfl, rfl, rfl, hend⟩
      | latched _ hm' => simp [hm'] at hm
      | done256 hI _ => exact ⟨Or.inr rfl, a, Or.inl hI, rfl, rfl, rfl, hend⟩
      | exact hmode hE _ => exact ⟨hmode, a, Or.inr hE, rfl, rfl, rfl, hend⟩
  | succ n ih =>
    intro mode c a c' mode' hb hS hnew htr hle h
    simp only [dispatch] at h
    split at h
    · rename_i hm
      cases h
      have hend : c.pos = c.total := by
        simp only [Ctx.hasMore, Bool.not_eq_true', decide_eq_false_iff_not] at hm; omega
      cases hS with
      | ascii hI => exact ⟨Or.inl rfl, a, Or.inl hI, rfl, rfl, rfl, hend⟩
      | latched _ hm' => simp [hm'] at hm
      | done256 hI _ => exact ⟨Or.inr rfl, a, Or.inl hI, rfl, rfl, rfl, hend⟩
      | exact hmode hE _ => exact ⟨hmode, a, Or.inr hE, rfl, rfl, rfl, hend⟩
    · rename_i hm
      simp only [Bool.not_eq_true', Bool.not_eq_false] at hm
      have hm' : c.pos < c.total := by simpa [Ctx.hasMore] using hm
      cases hS with
      | done256 _ hf => rw [hf] at hm; cases hm
      | exact _ _ hf => rw [hf] at hm; cases hm
      | ascii hI =>
        simp only [encodeMode, if_true] at h
        cases he : asciiEncode la c with
        | error e => rw [he] at h; simp [bind, Except.bind] at h
        | ok c1 =>
          rw [he] at h
          simp only [bind, Except.bind] at h
          cases hn1 : c1.newEnc with
          | none =>
            rw [hn1] at h
            simp only at h
            obtain ⟨a1, hI1, htr1, hsf, hpos, hlt⟩ := ascii_step_inv hb hI he hn1
            have htot : c1.total = c.total := by simp [Ctx.total, hsf.msg, hsf.skip]
            have hle1 : c1.pos ≤ c1.total := by
              rw [htot]
              rcases hpos with h1 | ⟨h2, hlen, d, hd, hdig⟩
              · omega
              · rcases htr with h0 | ⟨hs2, hl2, hdrop⟩
                · simp only [Ctx.total, h0] at hm' ⊢; omega
                · simp only [Ctx.total, hs2] at hm' ⊢
                  by_cases hx : c.pos + 1 = c.msg.length - 2
                  · exfalso
                    obtain ⟨g, _, _, _⟩ := drop_cons_facts (l := c.msg) (pos := c.msg.length - 2) (x := 30) (r := [4]) hdrop
                    rw [hx, g] at hd
                    cases hd
                    simp [isDigit] at hdig
                  · omega
            have htr' : TrailerOK c1 := by
              unfold TrailerOK; rw [hsf.msg, hsf.skip]; exact htr
            obtain ⟨hmode, a', hres, htr2, hmsg2, hskip2, hend⟩ :=
              ih ASCII c1 a1 c' mode' (by rw [hsf.msg]; exact hb) (St.ascii hI1) hn1 htr' hle1 h
            exact ⟨hmode, a', hres, by rw [htr2, htr1], by rw [hmsg2, hsf.msg], by rw [hskip2, hsf.skip], hend⟩
          | some m =>
            rw [hn1] at h
            simp only at h
            have hc1 := ascii_latch hla he (by rw [hn1]; simp) hnew
            have hm5 : m = BASE256 := by
              rw [hc1] at hn1; simp only [Ctx.signal, Option.some.injEq] at hn1; exact hn1.symm
            subst hm5
            have hL : Latched256 T ({ c1 with newEnc := none } : Ctx) a := by
              rw [hc1]
              exact ⟨c.cw, rfl, hI.dec, hI.text, hI.pend⟩
            have hmore1 : ({ c1 with newEnc := none } : Ctx).hasMore = true := by rw [hc1]; exact hm
            have htr' : TrailerOK ({ c1 with newEnc := none } : Ctx) := by rw [hc1]; exact htr
            have hle1 : ({ c1 with newEnc := none } : Ctx).pos ≤ ({ c1 with newEnc := none } : Ctx).total := by
              rw [hc1]; exact hle
            obtain ⟨hmode, a', hres, htr2, hmsg2, hskip2, hend⟩ :=
              ih BASE256 _ a c' mode' (by rw [hc1]; exact hb) (St.latched hL hmore1) rfl htr' hle1 h
            refine ⟨hmode, a', hres, htr2, ?_, ?_, hend⟩
            · rw [hmsg2, hc1]; rfl
            · rw [hskip2, hc1]; rfl
      | latched hL _ =>
        simp only [encodeMode, show ¬ (BASE256 : Nat) = ASCII by decide, show ¬ (BASE256 : Nat) = C40 by decide,
          show ¬ (BASE256 : Nat) = TEXT by decide, show ¬ (BASE256 : Nat) = X12 by decide,
          show ¬ (BASE256 : Nat) = EDIFACT by decide, if_false, if_true] at h
        cases he : b256Encode syms la c with
        | error e => rw [he] at h; simp [bind, Except.bind] at h
        | ok c1 =>
          rw [he] at h
          simp only [bind, Except.bind] at h
          obtain ⟨a1, htr1, hmsg1, hcfg1, hskip1, hpos1, hpt1, hnew1, hres1⟩ :=
            b256_step_inv hb hL hle hm hnew he
          have htrk : ∀ c2 : Ctx, c2.msg = c1.msg → c2.skipAtEnd = c1.skipAtEnd → TrailerOK c2 := by
            intro c2 e1 e2
            unfold TrailerOK; rw [e1, e2, hmsg1, hskip1]; exact htr
          rcases hnew1 with ⟨hn, hf⟩ | hn
          · rw [hn] at h
            simp only at h
            have hS1 : St T BASE256 c1 a1 := by
              rcases hres1 with hI | ⟨_, hE⟩
              · exact St.done256 hI hf
              · exact St.exact (Or.inr rfl) hE hf
            obtain ⟨hmode, a', hres, htr2, hmsg2, hskip2, hend⟩ :=
              ih BASE256 c1 a1 c' mode' (by rw [hmsg1]; exact hb) hS1 hn (htrk c1 rfl rfl) hpt1 h
            exact ⟨hmode, a', hres, by rw [htr2, htr1], by rw [hmsg2, hmsg1], by rw [hskip2, hskip1], hend⟩
          · rw [hn] at h
            simp only at h
            have hS1 : St T ASCII ({ c1 with newEnc := none } : Ctx) a1 := by
              rcases hres1 with hI | ⟨hf, hE⟩
              · exact St.ascii ⟨hI.dec, hI.text, hI.pend⟩
              · exact St.exact (Or.inl rfl) ⟨hE.dec, hE.text, hE.full, hE.pend⟩ hf
            obtain ⟨hmode, a', hres, htr2, hmsg2, hskip2, hend⟩ :=
              ih ASCII _ a1 c' mode' (by show ∀ x ∈ c1.msg, x < 256; rw [hmsg1]; exact hb) hS1 rfl
                (htrk _ rfl rfl) hpt1 h
            exact ⟨hmode, a', hres, by rw [htr2, htr1], by rw [hmsg2]; exact hmsg1, by rw [hskip2]; exact hskip1, hend⟩

/-- Round trip for ASCII + Base-256 encodation: every message of bytes, every symbol table, every hint
    configuration, every look-ahead oracle proposing only these two modes. -/
theorem roundtrip_ab (T : Tables) (syms : List SymbolInfo) (la : LookAhead) (hla : LaAB la)
    (msg : List Nat) (cfg : Cfg) (cw : List Nat)
    (hb : ∀ x ∈ msg, x < 256) (h : encodeHL syms la msg cfg = .ok cw) :
    decodeText T cw = .ok msg := by
  obtain ⟨a0, hI0, hn0, htr0, hle0, hmsg0, htrail⟩ := initCtx_inv T msg cfg
  unfold encodeHL at h
  cases hd : dispatch syms la (dispatchFuel msg) ASCII (initCtx msg cfg) with
  | error e => rw [hd] at h; simp [bind, Except.bind] at h
  | ok r =>
    obtain ⟨c1, mode⟩ := r
    rw [hd] at h
    simp only [bind, Except.bind] at h
    obtain ⟨hmode, a1, hres, htr1, hmsg1, hskip1, hend⟩ :=
      dispatch_ab (T := T) hla (dispatchFuel msg) ASCII (initCtx msg cfg) a0 c1 mode
        (by rw [hmsg0]; exact hb) (St.ascii hI0) hn0 htr0 hle0 hd
    have hm1 : c1.msg = msg := by rw [hmsg1, hmsg0]
    -- the text the accumulator stands for is the message
    have htext : ∀ a : Acc, a.rev.reverse = c1.msg.take c1.pos → a.trailer = a0.trailer → a.text = msg := by
      intro a ht htl
      simp only [Acc.text, ht, htl, hend, hm1, Ctx.total, hskip1]
      rcases htrail with ⟨hs, ht0⟩ | ⟨hs, ht0⟩
      · rw [hs, ht0]; simp
      · rw [hs, ht0]
        rcases htr0 with h0 | ⟨_, h2, hdrop⟩
        · rw [hs] at h0; cases h0
        · rw [hmsg0] at hdrop h2
          rw [← hdrop, List.take_append_drop]
    cases hu : c1.update syms c1.count with
    | error e => rw [hu] at h; simp at h
    | ok c2 =>
      rw [hu] at h
      simp only at h
      cases hc : c2.capacity with
      | error e => rw [hc] at h; simp at h
      | ok cap =>
        rw [hc] at h
        have hnolatch : ¬ (c1.count < cap ∧ mode ≠ ASCII ∧ mode ≠ BASE256 ∧ mode ≠ EDIFACT) := by
          rcases hmode with rfl | rfl <;> simp
        simp only [hnolatch, if_false, Except.ok.injEq] at h
        subst h
        obtain ⟨ucw, _, _, _, _, _, s, hs, hcap, hwhich⟩ := update_spec hu
        unfold decodeText
        rcases hres with hI | hE
        · rw [ucw, hI.dec, decLoop_padding T a1 _ _ (padding_shape _ _)]
          simp only [Except.map]
          rw [htext a1 hI.text htr1]
        · -- exactly full: no padding
          obtain ⟨s0, hs0, hfull⟩ := hE.full
          have hsame : s = s0 := by
            rcases hwhich with h1 | h1 | ⟨s1, h1, hgt⟩
            · rw [hs0] at h1; exact (Option.some.inj h1).symm
            · rw [hs0] at h1; cases h1
            · rw [hs0] at h1; cases h1; omega
          have hcapv : cap = c2.count := by
            unfold Ctx.capacity at hc; rw [hs] at hc; cases hc
            rw [hsame, hfull]; simp [Ctx.count, ucw]
          have hpad : padding c2.count cap = [] := by simp [padding, hcapv]
          rw [hpad, List.append_nil, ucw, hE.dec]
          simp only [Except.map]
          rw [htext a1 hE.text htr1]

end Gzx.DMHighLevel
