/-
  C02: whole-message round trip for every look-ahead oracle that never chooses EDIFACT, i.e. for messages
  encoded with ASCII, C40, Text, X12 and Base-256 encodation in any combination — under two explicit
  conditions on the oracle's behaviour at the very end of the message (without which the statement is false).
-/
import Gzx.Proofs.DMC40
import Gzx.Proofs.DMBytesCw
import Gzx.Proofs.DMRoundTripAB
namespace Gzx.DMHighLevel

/-- the oracle, asked from ASCII encodation, never proposes EDIFACT -/
def LaNoEdifact (la : LookAhead) : Prop := ∀ m p, la m p ASCII ≠ EDIFACT

/-- the same for one message only: along THIS message the oracle, asked from ASCII, never proposes EDIFACT -/
def LaNoEdifactOn (la : LookAhead) (msg : List Nat) : Prop := ∀ p, la msg p ASCII ≠ EDIFACT

theorem LaNoEdifact.on {la : LookAhead} (h : LaNoEdifact la) (msg : List Nat) : LaNoEdifactOn la msg :=
  fun p => h msg p

/-- with one character left, the oracle asked from ASCII encodation stays in ASCII -/
def LaTailAscii (la : LookAhead) (msg : List Nat) (tot : Nat) : Prop :=
  ∀ p, p + 1 = tot → la msg p ASCII = ASCII

/-- the oracle neither stays in nor enters X12 for a last triplet that is followed by one extended character -/
def LaX12Tail (la : LookAhead) (msg : List Nat) (tot : Nat) : Prop :=
  ∀ p ch, p + 4 = tot → msg[p + 3]? = some ch → isExtended ch = true →
    la msg p X12 ≠ X12 ∧ la msg p ASCII ≠ X12

/-- what a latching ASCII step does, in general -/
theorem ascii_latch_gen {la : LookAhead} {c c' : Ctx}
    (h : asciiEncode la c = .ok c') (hsome : c'.newEnc ≠ none) (hnew : c.newEnc = none) :
    ∃ m code, la c.msg c.pos ASCII = m ∧ c' = (c.write code).signal m ∧
      ((m = BASE256 ∧ code = 231) ∨ (m = C40 ∧ code = 230) ∨ (m = X12 ∧ code = 238) ∨
       (m = TEXT ∧ code = 239) ∨ (m = EDIFACT ∧ code = 240)) := by
  unfold asciiEncode at h
  simp only at h
  split at h
  · split at h
    · cases h; exact absurd hnew hsome
    · cases h
  · cases hc : c.cur with
    | error e => rw [hc] at h; simp [bind, Except.bind] at h
    | ok ch =>
      rw [hc] at h
      simp only [bind, Except.bind] at h
      split at h
      · split at h
        · rename_i hm; cases h; exact ⟨_, _, hm, rfl, Or.inl ⟨rfl, rfl⟩⟩
        · split at h
          · rename_i hm; cases h; exact ⟨_, _, hm, rfl, Or.inr (Or.inl ⟨rfl, rfl⟩)⟩
          · split at h
            · rename_i hm; cases h; exact ⟨_, _, hm, rfl, Or.inr (Or.inr (Or.inl ⟨rfl, rfl⟩))⟩
            · split at h
              · rename_i hm; cases h; exact ⟨_, _, hm, rfl, Or.inr (Or.inr (Or.inr (Or.inl ⟨rfl, rfl⟩)))⟩
              · split at h
                · rename_i hm; cases h; exact ⟨_, _, hm, rfl, Or.inr (Or.inr (Or.inr (Or.inr ⟨rfl, rfl⟩)))⟩
                · cases h
      · split at h <;> (cases h; exact absurd hnew hsome)

/-- the states the dispatch loop passes through -/
inductive GSt (la : LookAhead) : Nat → Ctx → Acc → Prop where
  | ascii {c a} : Inv refTables c a → GSt la ASCII c a
  | tail {m c a} (k : Nat) : k ≤ 1 → Tail refTables c a k → (m = ASCII ∨ (m = BASE256 ∧ c.hasMore = false)) →
      GSt la m c a
  | latched {m c a} (code : Nat) : LatchedM refTables m code la c a → c.hasMore = true →
      ((m = BASE256 ∧ code = 231) ∨ (m = C40 ∧ code = 230) ∨ (m = X12 ∧ code = 238) ∨ (m = TEXT ∧ code = 239)) →
      GSt la m c a
  | done256 {c a} : Inv refTables c a → c.hasMore = false → GSt la BASE256 c a

theorem encodeMode_c40 (syms : List SymbolInfo) (la : LookAhead) (c : Ctx) :
    encodeMode syms la C40 c = c40Encode syms la false c := by simp [encodeMode]
theorem encodeMode_text (syms : List SymbolInfo) (la : LookAhead) (c : Ctx) :
    encodeMode syms la TEXT c = c40Encode syms la true c := by simp [encodeMode]
theorem encodeMode_x12 (syms : List SymbolInfo) (la : LookAhead) (c : Ctx) :
    encodeMode syms la X12 c = x12Encode syms la c := by
  unfold encodeMode
  simp only [show ¬ (X12 : Nat) = ASCII by decide, show ¬ (X12 : Nat) = C40 by decide,
    show ¬ (X12 : Nat) = TEXT by decide, if_false, if_true]
theorem encodeMode_b256 (syms : List SymbolInfo) (la : LookAhead) (c : Ctx) :
    encodeMode syms la BASE256 c = b256Encode syms la c := by
  unfold encodeMode
  simp only [show ¬ (BASE256 : Nat) = ASCII by decide, show ¬ (BASE256 : Nat) = C40 by decide,
    show ¬ (BASE256 : Nat) = TEXT by decide, show ¬ (BASE256 : Nat) = X12 by decide,
    show ¬ (BASE256 : Nat) = EDIFACT by decide, if_false, if_true]
theorem encodeMode_ascii (syms : List SymbolInfo) (la : LookAhead) (c : Ctx) :
    encodeMode syms la ASCII c = asciiEncode la c := by simp [encodeMode]

theorem dispatch_gen_on {syms : List SymbolInfo} {la : LookAhead} :
    ∀ (fuel mode : Nat) (c : Ctx) (a : Acc) (c' : Ctx) (mode' : Nat), LaNoEdifactOn la c.msg →
      (∀ x ∈ c.msg, x < 256) → Bytes c.cw → GSt la mode c a → c.newEnc = none → TrailerOK c → c.pos ≤ c.total →
      LaTailAscii la c.msg c.total → LaX12Tail la c.msg c.total →
      dispatch syms la fuel mode c = .ok (c', mode') →
      (mode' = ASCII ∨ mode' = BASE256) ∧ Bytes c'.cw ∧ ∃ a', (Inv refTables c' a' ∨ ∃ k, k ≤ 1 ∧ Tail refTables c' a' k) ∧
        a'.trailer = a.trailer ∧ c'.msg = c.msg ∧ c'.skipAtEnd = c.skipAtEnd ∧ c'.pos = c'.total := by
  intro fuel
  induction fuel with
  | zero =>
    intro mode c a c' mode' _ _ hcwB hS _ _ hle _ _ h
    simp only [dispatch] at h
    split at h
    · cases h
    · rename_i hm
      cases h
      have hend : c.pos = c.total := by
        have := (hasMore_false_iff' c).mp (by simpa using hm); omega
      cases hS with
      | ascii hI => exact ⟨Or.inl rfl, hcwB, a, Or.inl hI, rfl, rfl, rfl, hend⟩
      | tail k hk hT hmode =>
        exact ⟨by rcases hmode with e | ⟨e, _⟩ <;> simp [e], hcwB, a, Or.inr ⟨k, hk, hT⟩, rfl, rfl, rfl, hend⟩
      | latched _ _ hm' _ => simp [hm'] at hm
      | done256 hI _ => exact ⟨Or.inr rfl, hcwB, a, Or.inl hI, rfl, rfl, rfl, hend⟩
  | succ n ih =>
    intro mode c a c' mode' hNoE hb hcwB hS hnew htr hle hTA hXT h
    simp only [dispatch] at h
    split at h
    · rename_i hm
      cases h
      have hend : c.pos = c.total := by
        have := (hasMore_false_iff' c).mp (by simpa using hm); omega
      cases hS with
      | ascii hI => exact ⟨Or.inl rfl, hcwB, a, Or.inl hI, rfl, rfl, rfl, hend⟩
      | tail k hk hT hmode =>
        exact ⟨by rcases hmode with e | ⟨e, _⟩ <;> simp [e], hcwB, a, Or.inr ⟨k, hk, hT⟩, rfl, rfl, rfl, hend⟩
      | latched _ _ hm' _ => simp [hm'] at hm
      | done256 hI _ => exact ⟨Or.inr rfl, hcwB, a, Or.inl hI, rfl, rfl, rfl, hend⟩
    · rename_i hm
      simp only [Bool.not_eq_true', Bool.not_eq_false] at hm
      have hm' : c.pos < c.total := (hasMore_iff' c).mp hm
      -- how the hypotheses about the oracle carry over to a context with the same message
      have carry : ∀ c1 : Ctx, c1.msg = c.msg → c1.skipAtEnd = c.skipAtEnd →
          ((∀ x ∈ c1.msg, x < 256) ∧ LaNoEdifactOn la c1.msg) ∧ TrailerOK c1 ∧ LaTailAscii la c1.msg c1.total ∧
            LaX12Tail la c1.msg c1.total := by
        intro c1 e1 e2
        have et : c1.total = c.total := by simp [Ctx.total, e1, e2]
        refine ⟨⟨by rw [e1]; exact hb, by rw [e1]; exact hNoE⟩, ?_, by rw [e1, et]; exact hTA, by rw [e1, et]; exact hXT⟩
        unfold TrailerOK; rw [e1, e2]; exact htr
      -- one more round with the result of an encoder call that signalled ASCII
      have finish : ∀ (c1 : Ctx) (a1 : Acc), c1.msg = c.msg → c1.skipAtEnd = c.skipAtEnd → c1.pos ≤ c1.total →
          Bytes c1.cw → c1.newEnc = some ASCII → a1.trailer = a.trailer →
          (Inv refTables c1 a1 ∨ ∃ k, k ≤ 1 ∧ Tail refTables c1 a1 k) →
          dispatch syms la n ASCII { c1 with newEnc := none } = .ok (c', mode') →
          (mode' = ASCII ∨ mode' = BASE256) ∧ Bytes c'.cw ∧ ∃ a', (Inv refTables c' a' ∨ ∃ k, k ≤ 1 ∧ Tail refTables c' a' k) ∧
            a'.trailer = a.trailer ∧ c'.msg = c.msg ∧ c'.skipAtEnd = c.skipAtEnd ∧ c'.pos = c'.total := by
        intro c1 a1 e1 e2 hle1 hB1 _ htr1 hres hd
        obtain ⟨q1, q2, q3, q4⟩ := carry ({ c1 with newEnc := none } : Ctx) e1 e2
        have hS1 : GSt la ASCII ({ c1 with newEnc := none } : Ctx) a1 := by
          rcases hres with hI | ⟨k, hk, hT⟩
          · exact GSt.ascii ⟨hI.dec, hI.text, hI.pend⟩
          · exact GSt.tail k hk ⟨hT.dec, hT.text, hT.pend, hT.full, hT.need⟩ (Or.inl rfl)
        obtain ⟨r1, rB, a', r2, r3, r4, r5, r6⟩ := ih ASCII _ a1 c' mode' q1.2 q1.1 hB1 hS1 rfl q2 hle1 q3 q4 hd
        exact ⟨r1, rB, a', r2, by rw [r3, htr1], by rw [r4]; exact e1, by rw [r5]; exact e2, r6⟩
      cases hS with
      | done256 _ hf => rw [hf] at hm; cases hm
      | ascii hI =>
        rw [encodeMode_ascii] at h
        cases he : asciiEncode la c with
        | error e => rw [he] at h; simp [bind, Except.bind] at h
        | ok c1 =>
          rw [he] at h
          simp only [bind, Except.bind] at h
          cases hn1 : c1.newEnc with
          | none =>
            rw [hn1] at h
            simp only at h
            obtain ⟨a1, hI1, htr1, hsf, hpos, hlt⟩ := ascii_step_inv hb hI he hn1
            have htot : c1.total = c.total := by simp [Ctx.total, hsf.msg, hsf.skip]
            have hle1 : c1.pos ≤ c1.total := by
              rw [htot]
              rcases hpos with h1 | ⟨h2, hlen, d, hd, hdig⟩
              · omega
              · rcases htr with h0 | ⟨hs2, hl2, hdrop⟩
                · simp only [Ctx.total, h0] at hm' ⊢; omega
                · simp only [Ctx.total, hs2] at hm' ⊢
                  by_cases hx : c.pos + 1 = c.msg.length - 2
                  · exfalso
                    obtain ⟨g, _, _, _⟩ := drop_cons_facts (l := c.msg) (pos := c.msg.length - 2) (x := 30) (r := [4]) hdrop
                    rw [hx, g] at hd
                    cases hd
                    simp [isDigit] at hdig
                  · omega
            obtain ⟨q1, q2, q3, q4⟩ := carry c1 hsf.msg hsf.skip
            obtain ⟨r1, rB, a', r2, r3, r4, r5, r6⟩ := ih ASCII c1 a1 c' mode' q1.2 q1.1 (ascii_bytes hb hcwB he) (GSt.ascii hI1) hn1 q2 hle1 q3 q4 h
            exact ⟨r1, rB, a', r2, by rw [r3, htr1], by rw [r4, hsf.msg], by rw [r5, hsf.skip], r6⟩
          | some m =>
            rw [hn1] at h
            simp only at h
            obtain ⟨m', code, hlam, hc1, hcases⟩ := ascii_latch_gen he (by rw [hn1]; simp) hnew
            have hmm : m = m' := by
              rw [hc1] at hn1; simp only [Ctx.signal, Option.some.injEq] at hn1; exact hn1.symm
            subst hmm
            have hcases' : (m = BASE256 ∧ code = 231) ∨ (m = C40 ∧ code = 230) ∨ (m = X12 ∧ code = 238) ∨
                (m = TEXT ∧ code = 239) := by
              rcases hcases with x | x | x | x | ⟨x, _⟩
              · exact Or.inl x
              · exact Or.inr (Or.inl x)
              · exact Or.inr (Or.inr (Or.inl x))
              · exact Or.inr (Or.inr (Or.inr x))
              · exact absurd (x ▸ hlam) (hNoE c.pos)
            have hL : LatchedM refTables m code la ({ c1 with newEnc := none } : Ctx) a := by
              rw [hc1]
              exact ⟨c.cw, rfl, hI.dec, hI.text, hI.pend, hlam⟩
            have hmore1 : ({ c1 with newEnc := none } : Ctx).hasMore = true := by rw [hc1]; exact hm
            obtain ⟨q1, q2, q3, q4⟩ := carry ({ c1 with newEnc := none } : Ctx) (by rw [hc1]; rfl) (by rw [hc1]; rfl)
            have hle1 : ({ c1 with newEnc := none } : Ctx).pos ≤ ({ c1 with newEnc := none } : Ctx).total := by
              rw [hc1]; exact hle
            obtain ⟨r1, rB, a', r2, r3, r4, r5, r6⟩ :=
              ih m _ a c' mode' q1.2 q1.1 (show Bytes c1.cw from ascii_bytes hb hcwB he) (GSt.latched code hL hmore1 hcases') rfl q2 hle1 q3 q4 h
            refine ⟨r1, rB, a', r2, r3, ?_, ?_, r6⟩
            · rw [r4, hc1]; rfl
            · rw [r5, hc1]; rfl
      | tail k hk hT hmode =>
        have hmA : mode = ASCII := by
          rcases hmode with e | ⟨_, e⟩
          · exact e
          · rw [e] at hm; cases hm
        subst hmA
        rw [encodeMode_ascii] at h
        -- one character is left: the oracle stays in ASCII
        have hk1 : k = 1 := by
          have h1 := asciiNeed_ge_length c.rest
          have h2 := hT.need
          have : 1 ≤ c.rest.length := by
            simp only [Ctx.rest, List.length_take, List.length_drop, Ctx.remaining, Ctx.total] at hm' ⊢
            omega
          omega
        have hrem : c.pos + 1 = c.total := by
          have h1 := asciiNeed_ge_length c.rest
          have h2 := hT.need
          have : c.rest.length = c.total - c.pos := by
            simp only [Ctx.rest, List.length_take, List.length_drop, Ctx.remaining, Ctx.total] at hm' ⊢
            omega
          omega
        have hla := hTA c.pos hrem
        cases he : asciiEncode la c with
        | error e => rw [he] at h; simp [bind, Except.bind] at h
        | ok c1 =>
          rw [he] at h
          simp only [bind, Except.bind] at h
          obtain ⟨a1, k1, hT1, hk1', htr1, hsf, hp1, hle1, hn1⟩ := ascii_step_tail hb hT hm hle htr hla he
          rw [hn1, hnew] at h
          simp only at h
          obtain ⟨q1, q2, q3, q4⟩ := carry c1 hsf.msg hsf.skip
          obtain ⟨r1, rB, a', r2, r3, r4, r5, r6⟩ :=
            ih ASCII c1 a1 c' mode' q1.2 q1.1 (ascii_bytes hb hcwB he) (GSt.tail k1 (by omega) hT1 (Or.inl rfl)) (by rw [hn1, hnew]) q2 hle1 q3 q4 h
          exact ⟨r1, rB, a', r2, by rw [r3, htr1], by rw [r4, hsf.msg], by rw [r5, hsf.skip], r6⟩
      | latched code hL _ hcases =>
        rcases hcases with ⟨rfl, rfl⟩ | ⟨rfl, rfl⟩ | ⟨rfl, rfl⟩ | ⟨rfl, rfl⟩
        · -- Base 256
          rw [encodeMode_b256] at h
          cases he : b256Encode syms la c with
          | error e => rw [he] at h; simp [bind, Except.bind] at h
          | ok c1 =>
            rw [he] at h
            simp only [bind, Except.bind] at h
            have hL' : Latched256 refTables c a := by
              obtain ⟨cw0, x1, x2, x3, x4, _⟩ := hL
              exact ⟨cw0, x1, x2, x3, x4⟩
            obtain ⟨a1, htr1, hmsg1, hcfg1, hskip1, hpos1, hpt1, hnew1, hres1⟩ :=
              b256_step_inv hb hL' hle hm hnew he
            have hres1' : Inv refTables c1 a1 ∨ ∃ k, k ≤ 1 ∧ Tail refTables c1 a1 k := by
              rcases hres1 with hI | ⟨hf, hE⟩
              · exact Or.inl hI
              · exact Or.inr ⟨0, by omega, hE.tail hf⟩
            rcases hnew1 with ⟨hn, hf⟩ | hn
            · rw [hn] at h
              simp only at h
              obtain ⟨q1, q2, q3, q4⟩ := carry c1 hmsg1 hskip1
              have hS1 : GSt la BASE256 c1 a1 := by
                rcases hres1' with hI | ⟨k, hk, hT⟩
                · exact GSt.done256 hI hf
                · exact GSt.tail k hk hT (Or.inr ⟨rfl, hf⟩)
              obtain ⟨r1, rB, a', r2, r3, r4, r5, r6⟩ := ih BASE256 c1 a1 c' mode' q1.2 q1.1 (b256_bytes hb hcwB hle he) hS1 hn q2 hpt1 q3 q4 h
              exact ⟨r1, rB, a', r2, by rw [r3, htr1], by rw [r4, hmsg1], by rw [r5, hskip1], r6⟩
            · rw [hn] at h
              simp only at h
              exact finish c1 a1 hmsg1 hskip1 hpt1 (b256_bytes hb hcwB hle he) hn htr1 hres1' h
        · -- C40
          rw [encodeMode_c40] at h
          cases he : c40Encode syms la false c with
          | error e => rw [he] at h; simp [bind, Except.bind] at h
          | ok c1 =>
            rw [he] at h
            simp only [bind, Except.bind] at h
            obtain ⟨a1, htr1, hmsg1, _, hskip1, _, hpt1, hn, hres1⟩ :=
              c40_step_post (text := false) hb hL hle hm hnew he
            rw [hn] at h
            simp only at h
            exact finish c1 a1 hmsg1 hskip1 hpt1 (c40_bytes hcwB hle hm hnew he) hn htr1 hres1 h
        · -- X12
          rw [encodeMode_x12] at h
          cases he : x12Encode syms la c with
          | error e => rw [he] at h; simp [bind, Except.bind] at h
          | ok c1 =>
            rw [he] at h
            simp only [bind, Except.bind] at h
            obtain ⟨a1, htr1, hmsg1, _, hskip1, _, hpt1, hn, hres1⟩ :=
              x12_step_post hL hle hnew (fun p ch e1 e2 e3 => hXT p ch e1 e2 e3) he
            rw [hn] at h
            simp only at h
            exact finish c1 a1 hmsg1 hskip1 hpt1 (x12_bytes hcwB hle he) hn htr1 hres1 h
        · -- Text
          rw [encodeMode_text] at h
          cases he : c40Encode syms la true c with
          | error e => rw [he] at h; simp [bind, Except.bind] at h
          | ok c1 =>
            rw [he] at h
            simp only [bind, Except.bind] at h
            obtain ⟨a1, htr1, hmsg1, _, hskip1, _, hpt1, hn, hres1⟩ :=
              c40_step_post (text := true) hb hL hle hm hnew he
            rw [hn] at h
            simp only at h
            exact finish c1 a1 hmsg1 hskip1 hpt1 (c40_bytes hcwB hle hm hnew he) hn htr1 hres1 h

theorem dispatch_gen {syms : List SymbolInfo} {la : LookAhead} (hNoE : LaNoEdifact la)
    (fuel mode : Nat) (c : Ctx) (a : Acc) (c' : Ctx) (mode' : Nat) :
      (∀ x ∈ c.msg, x < 256) → Bytes c.cw → GSt la mode c a → c.newEnc = none → TrailerOK c → c.pos ≤ c.total →
      LaTailAscii la c.msg c.total → LaX12Tail la c.msg c.total →
      dispatch syms la fuel mode c = .ok (c', mode') →
      (mode' = ASCII ∨ mode' = BASE256) ∧ Bytes c'.cw ∧ ∃ a', (Inv refTables c' a' ∨ ∃ k, k ≤ 1 ∧ Tail refTables c' a' k) ∧
        a'.trailer = a.trailer ∧ c'.msg = c.msg ∧ c'.skipAtEnd = c.skipAtEnd ∧ c'.pos = c'.total :=
  dispatch_gen_on fuel mode c a c' mode' (hNoE.on c.msg)

end Gzx.DMHighLevel

namespace Gzx.DMHighLevel

theorem initCtx_bytes (msg : List Nat) (cfg : Cfg) : Bytes (initCtx msg cfg).cw := by
  unfold initCtx
  simp only
  split
  · intro x hx; simp [Ctx.write] at hx; omega
  · split
    · intro x hx; simp [Ctx.write] at hx; omega
    · intro x hx; simp at hx

/-- Round trip for every oracle that does not choose EDIFACT (from ASCII), under the two end-of-message
    conditions `LaTailAscii` and `LaX12Tail`. -/
theorem roundtrip_gen_on (syms : List SymbolInfo) (la : LookAhead) (msg : List Nat) (cfg : Cfg) (cw : List Nat)
    (hNoE : LaNoEdifactOn la msg)
    (hTA : LaTailAscii la msg (initCtx msg cfg).total) (hXT : LaX12Tail la msg (initCtx msg cfg).total)
    (hb : ∀ x ∈ msg, x < 256) (h : encodeHL syms la msg cfg = .ok cw) :
    decodeText refTables cw = .ok msg := by
  obtain ⟨a0, hI0, hn0, htr0, hle0, hmsg0, htrail⟩ := initCtx_inv refTables msg cfg
  unfold encodeHL at h
  cases hd : dispatch syms la (dispatchFuel msg) ASCII (initCtx msg cfg) with
  | error e => rw [hd] at h; simp [bind, Except.bind] at h
  | ok r =>
    obtain ⟨c1, mode⟩ := r
    rw [hd] at h
    simp only [bind, Except.bind] at h
    obtain ⟨hmode, _, a1, hres, htr1, hmsg1, hskip1, hend⟩ :=
      dispatch_gen_on (syms := syms) (dispatchFuel msg) ASCII (initCtx msg cfg) a0 c1 mode (by rw [hmsg0]; exact hNoE)
        (by rw [hmsg0]; exact hb) (initCtx_bytes msg cfg) (GSt.ascii hI0) hn0 htr0 hle0 (by rw [hmsg0]; exact hTA) (by rw [hmsg0]; exact hXT) hd
    have hm1 : c1.msg = msg := by rw [hmsg1, hmsg0]
    have htext : ∀ a : Acc, a.rev.reverse = c1.msg.take c1.pos → a.trailer = a0.trailer → a.text = msg := by
      intro a ht htl
      simp only [Acc.text, ht, htl, hend, hm1, Ctx.total, hskip1]
      rcases htrail with ⟨hs, ht0⟩ | ⟨hs, ht0⟩
      · rw [hs, ht0]; simp
      · rw [hs, ht0]
        rcases htr0 with h0 | ⟨_, h2, hdrop⟩
        · rw [hs] at h0; cases h0
        · rw [hmsg0] at hdrop h2
          rw [← hdrop, List.take_append_drop]
    cases hu : c1.update syms c1.count with
    | error e => rw [hu] at h; simp at h
    | ok c2 =>
      rw [hu] at h
      simp only at h
      cases hc : c2.capacity with
      | error e => rw [hc] at h; simp at h
      | ok cap =>
        rw [hc] at h
        have hnolatch : ¬ (c1.count < cap ∧ mode ≠ ASCII ∧ mode ≠ BASE256 ∧ mode ≠ EDIFACT) := by
          rcases hmode with rfl | rfl <;> simp
        simp only [hnolatch, if_false, Except.ok.injEq] at h
        subst h
        obtain ⟨ucw, _, _, _, _, _, s, hs, hcap, hwhich⟩ := update_spec hu
        unfold decodeText
        rcases hres with hI | ⟨k, hk, hT⟩
        · rw [ucw, hI.dec, decLoop_padding refTables a1 _ _ (padding_shape _ _)]
          simp only [Except.map]
          rw [htext a1 hI.text htr1]
        · -- tail state: exactly `k` pad codewords follow
          obtain ⟨s0, hs0, hfull⟩ := hT.full
          have hsame : s = s0 := by
            rcases hwhich with h1 | h1 | ⟨s1, h1, hgt⟩
            · rw [hs0] at h1; exact (Option.some.inj h1).symm
            · rw [hs0] at h1; cases h1
            · rw [hs0] at h1; cases h1; omega
          have hcapv : cap = c2.count + k := by
            unfold Ctx.capacity at hc; rw [hs] at hc; cases hc
            rw [hsame, hfull]; simp [Ctx.count, ucw]
          have hplen : (padding c2.count cap).length ≤ k := by
            unfold padding
            split
            · have hpf : ∀ n p, (padFrom n p).length = n := by
                intro n; induction n with
                | zero => intro p; rfl
                | succ m ihm => intro p; simp [padFrom, ihm]
              simp only [List.length_cons, hpf]; omega
            · simp
          rw [ucw, hT.dec _ hplen, decLoop_padding refTables a1 _ _ (padding_shape _ _)]
          simp only [Except.map]
          rw [htext a1 hT.text htr1]

/-- the codewords `encodeHL` returns are bytes (oracles that never choose EDIFACT, same conditions) -/
theorem encodeHL_bytes_on (syms : List SymbolInfo) (la : LookAhead) (msg : List Nat) (cfg : Cfg) (cw : List Nat)
    (hNoE : LaNoEdifactOn la msg)
    (hTA : LaTailAscii la msg (initCtx msg cfg).total) (hXT : LaX12Tail la msg (initCtx msg cfg).total)
    (hb : ∀ x ∈ msg, x < 256) (h : encodeHL syms la msg cfg = .ok cw) : Bytes cw := by
  obtain ⟨a0, hI0, hn0, htr0, hle0, hmsg0, _⟩ := initCtx_inv refTables msg cfg
  unfold encodeHL at h
  cases hd : dispatch syms la (dispatchFuel msg) ASCII (initCtx msg cfg) with
  | error e => rw [hd] at h; simp [bind, Except.bind] at h
  | ok r =>
    obtain ⟨c1, mode⟩ := r
    rw [hd] at h
    simp only [bind, Except.bind] at h
    obtain ⟨hmode, hB1, _⟩ :=
      dispatch_gen_on (syms := syms) (dispatchFuel msg) ASCII (initCtx msg cfg) a0 c1 mode (by rw [hmsg0]; exact hNoE)
        (by rw [hmsg0]; exact hb) (initCtx_bytes msg cfg) (GSt.ascii hI0) hn0 htr0 hle0
        (by rw [hmsg0]; exact hTA) (by rw [hmsg0]; exact hXT) hd
    cases hu : c1.update syms c1.count with
    | error e => rw [hu] at h; simp at h
    | ok c2 =>
      rw [hu] at h
      simp only at h
      cases hc : c2.capacity with
      | error e => rw [hc] at h; simp at h
      | ok cap =>
        rw [hc] at h
        have hnolatch : ¬ (c1.count < cap ∧ mode ≠ ASCII ∧ mode ≠ BASE256 ∧ mode ≠ EDIFACT) := by
          rcases hmode with rfl | rfl <;> simp
        simp only [hnolatch, if_false, Except.ok.injEq] at h
        subst h
        obtain ⟨ucw, _⟩ := update_spec hu
        apply Bytes.append (by rw [ucw]; exact hB1)
        unfold padding
        split
        · have hpf : ∀ n p, Bytes (padFrom n p) := by
            intro n; induction n with
            | zero => intro p x hx; simp [padFrom] at hx
            | succ m ihm =>
              intro p x hx
              simp only [padFrom, List.mem_cons] at hx
              rcases hx with rfl | hx
              · have := rand253_range p; omega
              · exact ihm _ x hx
          intro x hx
          simp only [List.mem_cons] at hx
          rcases hx with rfl | hx
          · decide
          · exact hpf _ _ x hx
        · intro x hx; simp at hx

/-- the original statements (oracle that never proposes EDIFACT on any message) -/
theorem roundtrip_gen (syms : List SymbolInfo) (la : LookAhead) (msg : List Nat) (cfg : Cfg) (cw : List Nat)
    (hNoE : LaNoEdifact la)
    (hTA : LaTailAscii la msg (initCtx msg cfg).total) (hXT : LaX12Tail la msg (initCtx msg cfg).total)
    (hb : ∀ x ∈ msg, x < 256) (h : encodeHL syms la msg cfg = .ok cw) :
    decodeText refTables cw = .ok msg :=
  roundtrip_gen_on syms la msg cfg cw (hNoE.on msg) hTA hXT hb h

theorem encodeHL_bytes (syms : List SymbolInfo) (la : LookAhead) (msg : List Nat) (cfg : Cfg) (cw : List Nat)
    (hNoE : LaNoEdifact la)
    (hTA : LaTailAscii la msg (initCtx msg cfg).total) (hXT : LaX12Tail la msg (initCtx msg cfg).total)
    (hb : ∀ x ∈ msg, x < 256) (h : encodeHL syms la msg cfg = .ok cw) : Bytes cw :=
  encodeHL_bytes_on syms la msg cfg cw (hNoE.on msg) hTA hXT hb h

end Gzx.DMHighLevel
