/-
  C08: per-size kernel evaluation of `Gzx.DMProofs.sizeCheck` (one run of the Annex F placement program and of
  the decoder read order over the mapping matrix of the size).  Generated list, heavy for the kernel (about 4 ms per
  module); split over several files so that lake checks them in parallel.  Rebuilt only when the reference or the
  decoder model changes.
-/
import Gzx.Proofs.DM
namespace Gzx.DMProofs

set_option maxRecDepth 10000000 in
/-- symbol 144x144: mapping matrix 132x132, 2178 codewords -/
theorem check_144x144 : sizeCheck 132 132 2178 = true := by decide +kernel

end Gzx.DMProofs
