/-
  C08: per-size kernel evaluation of `Gzx.DMProofs.sizeCheck` (one run of the Annex F placement program and of
  the decoder read order over the mapping matrix of the size).  Generated list, heavy for the kernel (about 4 ms per
  module); split over several files so that lake checks them in parallel.  Rebuilt only when the reference or the
  decoder model changes.
-/
import Gzx.Proofs.DM
namespace Gzx.DMProofs

set_option maxRecDepth 10000000 in
/-- symbol 120x120: mapping matrix 108x108, 1458 codewords -/
theorem check_120x120 : sizeCheck 108 108 1458 = true := by decide +kernel

set_option maxRecDepth 10000000 in
/-- symbol 64x64: mapping matrix 56x56, 392 codewords -/
theorem check_64x64 : sizeCheck 56 56 392 = true := by decide +kernel

end Gzx.DMProofs
