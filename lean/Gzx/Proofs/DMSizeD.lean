/-
  C08: per-size kernel evaluation of `Gzx.DMProofs.sizeCheck` (one run of the Annex F placement program and of
  the decoder read order over the mapping matrix of the size).  Generated list, heavy for the kernel (about 4 ms per
  module); split over several files so that lake checks them in parallel.  Rebuilt only when the reference or the
  decoder model changes.
-/
import Gzx.Proofs.DM
namespace Gzx.DMProofs

set_option maxRecDepth 10000000 in
/-- symbol 104x104: mapping matrix 96x96, 1152 codewords -/
theorem check_104x104 : sizeCheck 96 96 1152 = true := by decide +kernel

set_option maxRecDepth 10000000 in
/-- symbol 80x80: mapping matrix 72x72, 648 codewords -/
theorem check_80x80 : sizeCheck 72 72 648 = true := by decide +kernel

end Gzx.DMProofs
