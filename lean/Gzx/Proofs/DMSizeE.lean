/-
  C08: per-size kernel evaluation of `Gzx.DMProofs.sizeCheck` (one run of the Annex F placement program and of
  the decoder read order over the mapping matrix of the size).  Generated list, heavy for the kernel (about 4 ms per
  module); split over several files so that lake checks them in parallel.  Rebuilt only when the reference or the
  decoder model changes.
-/
import Gzx.Proofs.DM
namespace Gzx.DMProofs

set_option maxRecDepth 10000000 in
/-- symbol 96x96: mapping matrix 88x88, 968 codewords -/
theorem check_96x96 : sizeCheck 88 88 968 = true := by decide +kernel

set_option maxRecDepth 10000000 in
/-- symbol 88x88: mapping matrix 80x80, 800 codewords -/
theorem check_88x88 : sizeCheck 80 80 800 = true := by decide +kernel

end Gzx.DMProofs
