/-
  C08: per-size kernel evaluation of `Gzx.DMProofs.sizeCheck` (one run of the Annex F placement program and of
  the decoder read order over the mapping matrix of the size).  Generated list, heavy for the kernel (about 4 ms per
  module); split over several files so that lake checks them in parallel.  Rebuilt only when the reference or the
  decoder model changes.
-/
import Gzx.Proofs.DM
namespace Gzx.DMProofs

set_option maxRecDepth 10000000 in
/-- symbol 72x72: mapping matrix 64x64, 512 codewords -/
theorem check_72x72 : sizeCheck 64 64 512 = true := by decide +kernel

set_option maxRecDepth 10000000 in
/-- symbol 52x52: mapping matrix 48x48, 288 codewords -/
theorem check_52x52 : sizeCheck 48 48 288 = true := by decide +kernel

set_option maxRecDepth 10000000 in
/-- symbol 48x48: mapping matrix 44x44, 242 codewords -/
theorem check_48x48 : sizeCheck 44 44 242 = true := by decide +kernel

set_option maxRecDepth 10000000 in
/-- symbol 44x44: mapping matrix 40x40, 200 codewords -/
theorem check_44x44 : sizeCheck 40 40 200 = true := by decide +kernel

set_option maxRecDepth 10000000 in
/-- symbol 40x40: mapping matrix 36x36, 162 codewords -/
theorem check_40x40 : sizeCheck 36 36 162 = true := by decide +kernel

set_option maxRecDepth 10000000 in
/-- symbol 36x36: mapping matrix 32x32, 128 codewords -/
theorem check_36x36 : sizeCheck 32 32 128 = true := by decide +kernel

set_option maxRecDepth 10000000 in
/-- symbol 32x32: mapping matrix 28x28, 98 codewords -/
theorem check_32x32 : sizeCheck 28 28 98 = true := by decide +kernel

end Gzx.DMProofs
