/-
  C08: per-size kernel evaluation of `Gzx.DMProofs.sizeCheck` (one run of the Annex F placement program and of
  the decoder read order over the mapping matrix of the size).  Generated list, heavy for the kernel (about 4 ms per
  module); split over several files so that lake checks them in parallel.  Rebuilt only when the reference or the
  decoder model changes.
-/
import Gzx.Proofs.DM
namespace Gzx.DMProofs

set_option maxRecDepth 10000000 in
/-- symbol 10x10: mapping matrix 8x8, 8 codewords -/
theorem check_10x10 : sizeCheck 8 8 8 = true := by decide +kernel

set_option maxRecDepth 10000000 in
/-- symbol 12x12: mapping matrix 10x10, 12 codewords -/
theorem check_12x12 : sizeCheck 10 10 12 = true := by decide +kernel

set_option maxRecDepth 10000000 in
/-- symbol 14x14: mapping matrix 12x12, 18 codewords -/
theorem check_14x14 : sizeCheck 12 12 18 = true := by decide +kernel

set_option maxRecDepth 10000000 in
/-- symbol 16x16: mapping matrix 14x14, 24 codewords -/
theorem check_16x16 : sizeCheck 14 14 24 = true := by decide +kernel

set_option maxRecDepth 10000000 in
/-- symbol 18x18: mapping matrix 16x16, 32 codewords -/
theorem check_18x18 : sizeCheck 16 16 32 = true := by decide +kernel

set_option maxRecDepth 10000000 in
/-- symbol 20x20: mapping matrix 18x18, 40 codewords -/
theorem check_20x20 : sizeCheck 18 18 40 = true := by decide +kernel

set_option maxRecDepth 10000000 in
/-- symbol 22x22: mapping matrix 20x20, 50 codewords -/
theorem check_22x22 : sizeCheck 20 20 50 = true := by decide +kernel

set_option maxRecDepth 10000000 in
/-- symbol 24x24: mapping matrix 22x22, 60 codewords -/
theorem check_24x24 : sizeCheck 22 22 60 = true := by decide +kernel

set_option maxRecDepth 10000000 in
/-- symbol 26x26: mapping matrix 24x24, 72 codewords -/
theorem check_26x26 : sizeCheck 24 24 72 = true := by decide +kernel

set_option maxRecDepth 10000000 in
/-- symbol 8x18: mapping matrix 6x16, 12 codewords -/
theorem check_8x18 : sizeCheck 6 16 12 = true := by decide +kernel

set_option maxRecDepth 10000000 in
/-- symbol 8x32: mapping matrix 6x28, 21 codewords -/
theorem check_8x32 : sizeCheck 6 28 21 = true := by decide +kernel

set_option maxRecDepth 10000000 in
/-- symbol 12x26: mapping matrix 10x24, 30 codewords -/
theorem check_12x26 : sizeCheck 10 24 30 = true := by decide +kernel

set_option maxRecDepth 10000000 in
/-- symbol 12x36: mapping matrix 10x32, 40 codewords -/
theorem check_12x36 : sizeCheck 10 32 40 = true := by decide +kernel

set_option maxRecDepth 10000000 in
/-- symbol 16x36: mapping matrix 14x32, 56 codewords -/
theorem check_16x36 : sizeCheck 14 32 56 = true := by decide +kernel

set_option maxRecDepth 10000000 in
/-- symbol 16x48: mapping matrix 14x44, 77 codewords -/
theorem check_16x48 : sizeCheck 14 44 77 = true := by decide +kernel

end Gzx.DMProofs
