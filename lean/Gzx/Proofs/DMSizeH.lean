/-
  C08 (and C06): the 18 DMRE versions 31..48 of the decoder table are outside ISO/IEC 16022 (for 26x40 and 26x48 the
  Annex F program of ISO 16022 even leaves the matrix; ISO 21471 amends it), so there is no reference placement to
  compare with.  What is kernel-checked here is the decoder alone: the read order never leaves the mapping matrix,
  visits every cell at most once, and yields exactly `totalCodewords` codewords (readCodewords neither panics nor
  returns a FormatException on any matrix of these dimensions).
-/
import Gzx.Proofs.DM
namespace Gzx.DMProofs

def dupFree : List Nat → Nat → Bool
  | [], _ => true
  | c :: cs, seen => !seen.testBit c && dupFree cs (seen ||| (1 <<< c))

/-- decoder-only check of one mapping-matrix size -/
def readOnlyCheck (nrow ncol total : Nat) : Bool :=
  let rs := DMDec.readState nrow ncol
  !rs.oob && rs.cells.length == 8 * total && rs.cells.all (· < nrow * ncol) && dupFree rs.cells 0

set_option maxRecDepth 10000000 in
/-- DMRE symbol 8x48: mapping matrix 6x44, 33 codewords -/
theorem check_dmre_8x48 : readOnlyCheck 6 44 33 = true := by decide +kernel

set_option maxRecDepth 10000000 in
/-- DMRE symbol 8x64: mapping matrix 6x56, 42 codewords -/
theorem check_dmre_8x64 : readOnlyCheck 6 56 42 = true := by decide +kernel

set_option maxRecDepth 10000000 in
/-- DMRE symbol 8x80: mapping matrix 6x72, 54 codewords -/
theorem check_dmre_8x80 : readOnlyCheck 6 72 54 = true := by decide +kernel

set_option maxRecDepth 10000000 in
/-- DMRE symbol 8x96: mapping matrix 6x88, 66 codewords -/
theorem check_dmre_8x96 : readOnlyCheck 6 88 66 = true := by decide +kernel

set_option maxRecDepth 10000000 in
/-- DMRE symbol 8x120: mapping matrix 6x108, 81 codewords -/
theorem check_dmre_8x120 : readOnlyCheck 6 108 81 = true := by decide +kernel

set_option maxRecDepth 10000000 in
/-- DMRE symbol 8x144: mapping matrix 6x132, 99 codewords -/
theorem check_dmre_8x144 : readOnlyCheck 6 132 99 = true := by decide +kernel

set_option maxRecDepth 10000000 in
/-- DMRE symbol 12x64: mapping matrix 10x56, 70 codewords -/
theorem check_dmre_12x64 : readOnlyCheck 10 56 70 = true := by decide +kernel

set_option maxRecDepth 10000000 in
/-- DMRE symbol 12x88: mapping matrix 10x80, 100 codewords -/
theorem check_dmre_12x88 : readOnlyCheck 10 80 100 = true := by decide +kernel

set_option maxRecDepth 10000000 in
/-- DMRE symbol 16x64: mapping matrix 14x56, 98 codewords -/
theorem check_dmre_16x64 : readOnlyCheck 14 56 98 = true := by decide +kernel

set_option maxRecDepth 10000000 in
/-- DMRE symbol 20x36: mapping matrix 18x32, 72 codewords -/
theorem check_dmre_20x36 : readOnlyCheck 18 32 72 = true := by decide +kernel

set_option maxRecDepth 10000000 in
/-- DMRE symbol 20x44: mapping matrix 18x40, 90 codewords -/
theorem check_dmre_20x44 : readOnlyCheck 18 40 90 = true := by decide +kernel

set_option maxRecDepth 10000000 in
/-- DMRE symbol 20x64: mapping matrix 18x56, 126 codewords -/
theorem check_dmre_20x64 : readOnlyCheck 18 56 126 = true := by decide +kernel

set_option maxRecDepth 10000000 in
/-- DMRE symbol 22x48: mapping matrix 20x44, 110 codewords -/
theorem check_dmre_22x48 : readOnlyCheck 20 44 110 = true := by decide +kernel

set_option maxRecDepth 10000000 in
/-- DMRE symbol 24x48: mapping matrix 22x44, 121 codewords -/
theorem check_dmre_24x48 : readOnlyCheck 22 44 121 = true := by decide +kernel

set_option maxRecDepth 10000000 in
/-- DMRE symbol 24x64: mapping matrix 22x56, 154 codewords -/
theorem check_dmre_24x64 : readOnlyCheck 22 56 154 = true := by decide +kernel

set_option maxRecDepth 10000000 in
/-- DMRE symbol 26x40: mapping matrix 24x36, 108 codewords -/
theorem check_dmre_26x40 : readOnlyCheck 24 36 108 = true := by decide +kernel

set_option maxRecDepth 10000000 in
/-- DMRE symbol 26x48: mapping matrix 24x44, 132 codewords -/
theorem check_dmre_26x48 : readOnlyCheck 24 44 132 = true := by decide +kernel

set_option maxRecDepth 10000000 in
/-- DMRE symbol 26x64: mapping matrix 24x56, 168 codewords -/
theorem check_dmre_26x64 : readOnlyCheck 24 56 168 = true := by decide +kernel

end Gzx.DMProofs
