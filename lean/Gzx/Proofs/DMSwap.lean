/-
  C02 / wp dmenc, item (b) — the mode encoders use the codewords written so far only through their NUMBER
  (`GetCodewordCount`) and by APPENDING to them: replacing the codeword list of the entry context by any list of the
  same length changes nothing but that prefix (`*_swap`).  This lets the decoder invariant be stated for a "virtual"
  prefix that decodes like the real one (needed behind the one-codeword EDIFACT unlatch, which the decoder recognises
  only when two more codewords follow).
-/
import Gzx.Proofs.DMSymFF
import Gzx.Proofs.DMBytesAll
namespace Gzx.DMHighLevel

def Ctx.swap (c : Ctx) (V : List Nat) : Ctx := { c with cw := V }

theorem swap_count {c : Ctx} {V : List Nat} (hV : V.length = c.cw.length) : (c.swap V).count = c.count := hV

theorem update_swap (syms : List SymbolInfo) (c : Ctx) (V : List Nat) (n : Nat) :
    (c.swap V).update syms n = (c.update syms n).map (·.swap V) := by
  unfold Ctx.update Ctx.swap
  simp only
  cases hs : c.sym with
  | none =>
    simp only
    cases lookup syms c.cfg n <;> rfl
  | some s =>
    simp only
    split
    · cases lookup syms c.cfg n <;> rfl
    · simp only [Except.map, hs]

theorem capacity_swap (c : Ctx) (V : List Nat) : (c.swap V).capacity = c.capacity := rfl
theorem back_swap (c : Ctx) (V : List Nat) (k : Nat) : (c.swap V).back k = (c.back k).map (·.swap V) := by
  unfold Ctx.back Ctx.swap
  simp only
  split <;> rfl

theorem c40Available_swap {syms : List SymbolInfo} {c c2 : Ctx} {V buf : List Nat} {av : Nat}
    (hV : V.length = c.cw.length) (h : c40Available syms c buf = .ok (c2, av)) :
    c2.cw = c.cw ∧ c40Available syms (c.swap V) buf = .ok (c2.swap V, av) := by
  unfold c40Available at h ⊢
  obtain ⟨c3, h3, h⟩ := bind_ok h
  obtain ⟨cap, hc, h⟩ := bind_ok h
  simp only [Except.ok.injEq, Prod.mk.injEq] at h
  obtain ⟨rfl, rfl⟩ := h
  simp only [swap_count hV, update_swap, h3, Except.map, bind, Except.bind, capacity_swap, hc]
  exact ⟨(update_spec h3).1, trivial⟩

theorem backtrackOne_swap (text : Bool) (c : Ctx) (V buf : List Nat) (ls : Nat) :
    backtrackOne text (c.swap V) buf ls = (backtrackOne text c buf ls).map (fun r => (r.1.swap V, r.2.1, r.2.2)) := by
  unfold backtrackOne
  split
  · rfl
  · rw [back_swap]
    cases hb : c.back 1 with
    | error e => rfl
    | ok c1 =>
      simp only [Except.map, bind, Except.bind]
      have hcur : (c1.swap V).cur = c1.cur := rfl
      rw [hcur]
      cases c1.cur with
      | error e => rfl
      | ok ch =>
        simp only
        split
        · have hp : (c1.swap V).pos = c1.pos := rfl
          have hm : (c1.swap V).msg = c1.msg := rfl
          simp only [Ctx.swap]
          by_cases h0 : c1.pos = 0
          · simp only [h0, if_true]
          · simp only [h0, if_false]
            cases c1.msg[c1.pos - 1]? <;> rfl
        · rfl

theorem backtrackLoop_swap {syms : List SymbolInfo} {text : Bool} :
    ∀ (fuel : Nat) (c : Ctx) (V buf : List Nat) (ls av : Nat) (c' : Ctx) (buf' : List Nat),
      V.length = c.cw.length → backtrackLoop syms text fuel c buf ls av = .ok (c', buf') →
      c'.cw = c.cw ∧ backtrackLoop syms text fuel (c.swap V) buf ls av = .ok (c'.swap V, buf') := by
  intro fuel
  induction fuel with
  | zero => intro c V buf ls av c' buf' _ h; simp [backtrackLoop] at h
  | succ n ih =>
    intro c V buf ls av c' buf' hV h
    simp only [backtrackLoop] at h ⊢
    split
    · rename_i hcond
      simp only [hcond, and_self, if_true] at h
      obtain ⟨r1, h1, h⟩ := bind_ok h
      obtain ⟨c1, buf1, l1⟩ := r1
      obtain ⟨r2, h2, h⟩ := bind_ok h
      obtain ⟨c2, av2⟩ := r2
      have hcw1 : c1.cw = c.cw := by
        unfold backtrackOne at h1
        split at h1
        · cases h1
        · obtain ⟨c3, h3, h1⟩ := bind_ok h1
          obtain ⟨_, _, h1⟩ := bind_ok h1
          obtain ⟨_, rfl⟩ := back_spec h3
          simp only at h1
          repeat' split at h1
          all_goals first | (cases h1; done) | (simp only [Except.ok.injEq, Prod.mk.injEq] at h1; obtain ⟨rfl, _⟩ := h1; rfl)
      have hV1 : V.length = c1.cw.length := by rw [hcw1]; exact hV
      obtain ⟨hcw2, h2'⟩ := c40Available_swap hV1 h2
      obtain ⟨hcw', h'⟩ := ih c2 V buf1 l1 av2 c' buf' (by rw [hcw2]; exact hV1) h
      refine ⟨by rw [hcw', hcw2, hcw1], ?_⟩
      rw [backtrackOne_swap, h1]
      simp only [Except.map, bind, Except.bind, h2']
      exact h'
    · rename_i hcond
      simp only [hcond, if_false] at h
      simp only [Except.ok.injEq, Prod.mk.injEq] at h
      obtain ⟨rfl, rfl⟩ := h
      exact ⟨rfl, rfl⟩

theorem backtrackOne_cw {text : Bool} {c c' : Ctx} {buf buf' : List Nat} {ls l' : Nat}
    (h1 : backtrackOne text c buf ls = .ok (c', buf', l')) : c'.cw = c.cw := by
  unfold backtrackOne at h1
  split at h1
  · cases h1
  · obtain ⟨c3, h3, h1⟩ := bind_ok h1
    obtain ⟨_, _, h1⟩ := bind_ok h1
    obtain ⟨_, rfl⟩ := back_spec h3
    simp only at h1
    repeat' split at h1
    all_goals first | (cases h1; done) | (simp only [Except.ok.injEq, Prod.mk.injEq] at h1; obtain ⟨rfl, _⟩ := h1; rfl)

theorem c40Loop_swap {syms : List SymbolInfo} {la : LookAhead} {text : Bool} :
    ∀ (fuel : Nat) (c : Ctx) (V buf : List Nat) (c' : Ctx) (buf' : List Nat),
      V.length = c.cw.length → c40Loop syms la text fuel c buf = .ok (c', buf') →
      c'.cw = c.cw ∧ c40Loop syms la text fuel (c.swap V) buf = .ok (c'.swap V, buf') := by
  intro fuel
  induction fuel with
  | zero =>
    intro c V buf c' buf' _ h
    simp only [c40Loop] at h ⊢
    have hm : (c.swap V).hasMore = c.hasMore := rfl
    rw [hm]
    by_cases hmm : c.hasMore = true
    · simp only [hmm, if_true] at h; cases h
    · simp only [Bool.not_eq_true] at hmm
      simp only [hmm, Bool.false_eq_true, if_false] at h ⊢
      simp only [Except.ok.injEq, Prod.mk.injEq] at h
      obtain ⟨rfl, rfl⟩ := h
      exact ⟨rfl, rfl⟩
  | succ n ih =>
    intro c V buf c' buf' hV h
    simp only [c40Loop] at h ⊢
    have hm : (c.swap V).hasMore = c.hasMore := rfl
    rw [hm]
    by_cases hmm : c.hasMore = true
    · simp only [hmm, Bool.not_true, Bool.false_eq_true, if_false] at h ⊢
      have hcur : (c.swap V).cur = c.cur := rfl
      rw [hcur]
      obtain ⟨ch, hch, h⟩ := bind_ok h
      obtain ⟨r2, h2, h⟩ := bind_ok h
      obtain ⟨c2, av⟩ := r2
      rw [hch]
      simp only [bind, Except.bind]
      have hV0 : V.length = ({ c with pos := c.pos + 1 } : Ctx).cw.length := hV
      obtain ⟨hcw2, h2'⟩ := c40Available_swap (V := V) hV0 h2
      have e0 : ({ c.swap V with pos := (c.swap V).pos + 1 } : Ctx) = ({ c with pos := c.pos + 1 } : Ctx).swap V := rfl
      rw [e0, h2']
      simp only at h ⊢
      have hV2 : V.length = c2.cw.length := by rw [hcw2]; exact hV
      have hm2 : (c2.swap V).hasMore = c2.hasMore := rfl
      rw [hm2]
      by_cases hnm : c2.hasMore = true
      · simp only [hnm, Bool.not_true, Bool.false_eq_true, if_false] at h ⊢
        have hmsg : (c2.swap V).msg = c2.msg := rfl
        have hpos : (c2.swap V).pos = c2.pos := rfl
        by_cases h3 : (buf ++ cEncodeChar text ch).length % 3 = 0
        · simp only [h3, if_true] at h ⊢
          rw [hmsg, hpos]
          by_cases hla : la c2.msg c2.pos (if text = true then TEXT else C40) ≠ (if text = true then TEXT else C40)
          · rw [if_pos hla] at h ⊢
            simp only [Except.ok.injEq, Prod.mk.injEq] at h
            obtain ⟨rfl, rfl⟩ := h
            exact ⟨hcw2, rfl⟩
          · rw [if_neg hla] at h ⊢
            obtain ⟨hcw', h'⟩ := ih c2 V _ c' buf' hV2 h
            exact ⟨by rw [hcw', hcw2], h'⟩
        · simp only [h3, if_false] at h ⊢
          obtain ⟨hcw', h'⟩ := ih c2 V _ c' buf' hV2 h
          exact ⟨by rw [hcw', hcw2], h'⟩
      · simp only [Bool.not_eq_true] at hnm
        simp only [hnm, Bool.not_false, if_true] at h ⊢
        by_cases hc2 : (buf ++ cEncodeChar text ch).length % 3 = 2 ∧ av ≠ 2
        · rw [if_pos hc2] at h ⊢
          obtain ⟨r3, h3, h⟩ := bind_ok h
          obtain ⟨c3, buf3, l3⟩ := r3
          obtain ⟨r4, h4, h⟩ := bind_ok h
          obtain ⟨c4, av4⟩ := r4
          have hcw3 := backtrackOne_cw h3
          have hV3 : V.length = c3.cw.length := by rw [hcw3]; exact hV2
          obtain ⟨hcw4, h4'⟩ := c40Available_swap hV3 h4
          obtain ⟨hcw', h'⟩ := backtrackLoop_swap _ c4 V buf3 l3 av4 c' buf' (by rw [hcw4]; exact hV3) h
          refine ⟨by rw [hcw', hcw4, hcw3, hcw2], ?_⟩
          rw [backtrackOne_swap, h3]
          simp only [Except.map, bind, Except.bind, h4']
          exact h'
        · rw [if_neg hc2] at h ⊢
          obtain ⟨hcw', h'⟩ := backtrackLoop_swap _ c2 V _ _ av c' buf' hV2 h
          exact ⟨by rw [hcw', hcw2], h'⟩
    · simp only [Bool.not_eq_true] at hmm
      simp only [hmm, Bool.not_false, if_true] at h ⊢
      simp only [Except.ok.injEq, Prod.mk.injEq] at h
      obtain ⟨rfl, rfl⟩ := h
      exact ⟨rfl, rfl⟩

theorem c40HandleEOD_swap {syms : List SymbolInfo} {c c' : Ctx} {V buf : List Nat}
    (hV : V.length = c.cw.length) (h : c40HandleEOD syms c buf = .ok c') :
    ∃ x, c'.cw = c.cw ++ x ∧ c40HandleEOD syms (c.swap V) buf = .ok (c'.swap (V ++ x)) := by
  unfold c40HandleEOD at h ⊢
  obtain ⟨r, hav, h⟩ := bind_ok h
  obtain ⟨c2, av⟩ := r
  obtain ⟨hcw2, hav'⟩ := c40Available_swap hV hav
  rw [hav']
  simp only [bind, Except.bind] at h ⊢
  have hw : ∀ (cc : Ctx) (xs : List Nat), (cc.writeAll xs).hasMore = cc.hasMore := fun _ _ => rfl
  have hs : (c2.swap V).hasMore = c2.hasMore := rfl
  simp only [hw, hs] at h ⊢
  by_cases hr2 : buf.length % 3 = 2
  · simp only [hr2, if_true] at h ⊢
    by_cases hm : c2.hasMore = true
    · simp only [hm, if_true, Except.ok.injEq] at h ⊢
      subst h
      exact ⟨(writeTriplets (buf ++ [0])).1 ++ [254], by simp [Ctx.signal, Ctx.write, Ctx.writeAll, hcw2],
        by simp [Ctx.signal, Ctx.write, Ctx.writeAll, Ctx.swap]⟩
    · have hm' : c2.hasMore = false := by simpa using hm
      simp only [hm', Bool.false_eq_true, if_false, Except.ok.injEq] at h ⊢
      subst h
      exact ⟨(writeTriplets (buf ++ [0])).1, by simp [Ctx.signal, Ctx.writeAll, hcw2],
        by simp [Ctx.signal, Ctx.writeAll, Ctx.swap]⟩
  · simp only [hr2, if_false] at h ⊢
    by_cases h1 : av = 1 ∧ buf.length % 3 = 1
    · rw [if_pos h1] at h ⊢
      by_cases hm : c2.hasMore = true
      · simp only [hm, if_true] at h ⊢
        obtain ⟨c3, h3, h⟩ := bind_ok h
        simp only [Except.ok.injEq] at h
        subst h
        obtain ⟨hk, rfl⟩ := back_spec h3
        refine ⟨(writeTriplets buf).1 ++ [254], by simp [Ctx.signal, Ctx.write, Ctx.writeAll, hcw2], ?_⟩
        have : ((c2.swap V).writeAll (writeTriplets buf).1).write 254 =
            ((c2.writeAll (writeTriplets buf).1).write 254).swap (V ++ ((writeTriplets buf).1 ++ [254])) := by
          simp [Ctx.write, Ctx.writeAll, Ctx.swap]
        rw [this, back_swap, h3]
        rfl
      · have hm' : c2.hasMore = false := by simpa using hm
        simp only [hm', Bool.false_eq_true, if_false] at h ⊢
        obtain ⟨c3, h3, h⟩ := bind_ok h
        simp only [Except.ok.injEq] at h
        subst h
        obtain ⟨hk, rfl⟩ := back_spec h3
        refine ⟨(writeTriplets buf).1, by simp [Ctx.signal, Ctx.writeAll, hcw2], ?_⟩
        have : (c2.swap V).writeAll (writeTriplets buf).1 =
            (c2.writeAll (writeTriplets buf).1).swap (V ++ (writeTriplets buf).1) := rfl
        rw [this, back_swap, h3]
        rfl
    · rw [if_neg h1] at h ⊢
      by_cases hr0 : buf.length % 3 = 0
      · simp only [hr0, if_true] at h ⊢
        by_cases hm : av > 0 ∨ c2.hasMore = true
        · simp only [hm, if_true, Except.ok.injEq] at h ⊢
          subst h
          exact ⟨(writeTriplets buf).1 ++ [254], by simp [Ctx.signal, Ctx.write, Ctx.writeAll, hcw2],
            by simp [Ctx.signal, Ctx.write, Ctx.writeAll, Ctx.swap]⟩
        · simp only [hm, if_false, Except.ok.injEq] at h ⊢
          subst h
          exact ⟨(writeTriplets buf).1, by simp [Ctx.signal, Ctx.writeAll, hcw2],
            by simp [Ctx.signal, Ctx.writeAll, Ctx.swap]⟩
      · simp only [hr0, if_false] at h
        cases h

theorem c40Encode_swap {syms : List SymbolInfo} {la : LookAhead} {text : Bool} {c c' : Ctx} {V : List Nat}
    (hV : V.length = c.cw.length) (h : c40Encode syms la text c = .ok c') :
    ∃ x, c'.cw = c.cw ++ x ∧ c40Encode syms la text (c.swap V) = .ok (c'.swap (V ++ x)) := by
  unfold c40Encode at h ⊢
  obtain ⟨r, hl, h⟩ := bind_ok h
  obtain ⟨c1, buf1⟩ := r
  have hrem : (c.swap V).remaining = c.remaining := rfl
  rw [hrem]
  obtain ⟨hcw1, hl'⟩ := c40Loop_swap _ c V [] c1 buf1 hV hl
  rw [hl']
  simp only [bind, Except.bind]
  obtain ⟨x, hx, hx'⟩ := c40HandleEOD_swap (V := V) (by rw [hcw1]; exact hV) h
  exact ⟨x, by rw [hx, hcw1], hx'⟩

theorem x12Loop_swap {la : LookAhead} :
    ∀ (fuel : Nat) (c : Ctx) (V buf : List Nat) (c' : Ctx) (buf' : List Nat),
      x12Loop la fuel c buf = .ok (c', buf') →
      ∃ x, c'.cw = c.cw ++ x ∧ x12Loop la fuel (c.swap V) buf = .ok (c'.swap (V ++ x), buf') := by
  intro fuel
  induction fuel with
  | zero =>
    intro c V buf c' buf' h
    simp only [x12Loop] at h ⊢
    have hm : (c.swap V).hasMore = c.hasMore := rfl
    rw [hm]
    by_cases hmm : c.hasMore = true
    · simp only [hmm, if_true] at h; cases h
    · simp only [Bool.not_eq_true] at hmm
      simp only [hmm, Bool.false_eq_true, if_false] at h ⊢
      simp only [Except.ok.injEq, Prod.mk.injEq] at h
      obtain ⟨rfl, rfl⟩ := h
      exact ⟨[], by simp, by simp⟩
  | succ n ih =>
    intro c V buf c' buf' h
    simp only [x12Loop] at h ⊢
    have hm : (c.swap V).hasMore = c.hasMore := rfl
    rw [hm]
    by_cases hmm : c.hasMore = true
    · simp only [hmm, Bool.not_true, Bool.false_eq_true, if_false] at h ⊢
      have hcur : (c.swap V).cur = c.cur := rfl
      rw [hcur]
      obtain ⟨ch, hch, h⟩ := bind_ok h
      obtain ⟨v, hv, h⟩ := bind_ok h
      rw [hch]
      simp only [bind, Except.bind, hv]
      by_cases h3 : (buf ++ [v]).length % 3 = 0
      · simp only [h3, if_true] at h ⊢
        have key : ∀ g : List Nat × List Nat,
            (if la (({ c with pos := c.pos + 1 } : Ctx).writeAll g.1).msg (({ c with pos := c.pos + 1 } : Ctx).writeAll g.1).pos X12 ≠ X12
              then Except.ok ((({ c with pos := c.pos + 1 } : Ctx).writeAll g.1).signal ASCII, g.2)
              else x12Loop la n (({ c with pos := c.pos + 1 } : Ctx).writeAll g.1) g.2) = Except.ok (c', buf') →
            ∃ x, c'.cw = c.cw ++ x ∧
              (if la (({ c.swap V with pos := (c.swap V).pos + 1 } : Ctx).writeAll g.1).msg
                  (({ c.swap V with pos := (c.swap V).pos + 1 } : Ctx).writeAll g.1).pos X12 ≠ X12
                then Except.ok ((({ c.swap V with pos := (c.swap V).pos + 1 } : Ctx).writeAll g.1).signal ASCII, g.2)
                else x12Loop la n (({ c.swap V with pos := (c.swap V).pos + 1 } : Ctx).writeAll g.1) g.2) =
                Except.ok (c'.swap (V ++ x), buf') := by
          intro g h
          obtain ⟨cws, rest⟩ := g
          simp only at h ⊢
          have e0 : ({ c.swap V with pos := (c.swap V).pos + 1 } : Ctx).writeAll cws =
              (({ c with pos := c.pos + 1 } : Ctx).writeAll cws).swap (V ++ cws) := rfl
          rw [e0]
          have hmsg : ∀ (cc : Ctx) (W : List Nat), (cc.swap W).msg = cc.msg := fun _ _ => rfl
          have hpos : ∀ (cc : Ctx) (W : List Nat), (cc.swap W).pos = cc.pos := fun _ _ => rfl
          rw [hmsg, hpos]
          by_cases hla : la (({ c with pos := c.pos + 1 } : Ctx).writeAll cws).msg
              (({ c with pos := c.pos + 1 } : Ctx).writeAll cws).pos X12 ≠ X12
          · rw [if_pos hla] at h ⊢
            simp only [Except.ok.injEq, Prod.mk.injEq] at h
            obtain ⟨rfl, rfl⟩ := h
            exact ⟨cws, rfl, rfl⟩
          · rw [if_neg hla] at h ⊢
            obtain ⟨x, hx, hx'⟩ := ih _ (V ++ cws) _ c' buf' h
            refine ⟨cws ++ x, ?_, ?_⟩
            · rw [hx]; simp [Ctx.writeAll]
            · rw [hx']; simp [Ctx.swap]
        exact key _ h
      · simp only [h3, if_false] at h ⊢
        have e0 : ({ c.swap V with pos := (c.swap V).pos + 1 } : Ctx) = ({ c with pos := c.pos + 1 } : Ctx).swap V := rfl
        rw [e0]
        obtain ⟨x, hx, hx'⟩ := ih _ V _ c' buf' h
        exact ⟨x, hx, hx'⟩
    · simp only [Bool.not_eq_true] at hmm
      simp only [hmm, Bool.not_false, if_true] at h ⊢
      simp only [Except.ok.injEq, Prod.mk.injEq] at h
      obtain ⟨rfl, rfl⟩ := h
      exact ⟨[], by simp, by simp⟩

theorem x12HandleEOD_swap {syms : List SymbolInfo} {c c' : Ctx} {V buf : List Nat}
    (hV : V.length = c.cw.length) (h : x12HandleEOD syms c buf = .ok c') :
    ∃ x, c'.cw = c.cw ++ x ∧ x12HandleEOD syms (c.swap V) buf = .ok (c'.swap (V ++ x)) := by
  unfold x12HandleEOD at h ⊢
  obtain ⟨c2, h2, h⟩ := bind_ok h
  obtain ⟨cap, hc, h⟩ := bind_ok h
  obtain ⟨c3, h3, h⟩ := bind_ok h
  have hcw2 := (update_spec h2).1
  obtain ⟨_, rfl⟩ := back_spec h3
  simp only [swap_count hV, update_swap, h2, Except.map, bind, Except.bind, capacity_swap, hc, back_swap, h3]
  have hc2 : (c2.swap V).count = c2.count := swap_count (by rw [hcw2]; exact hV)
  simp only [hc2]
  have hrem : (({ c2 with pos := c2.pos - buf.length } : Ctx).swap V).remaining =
      ({ c2 with pos := c2.pos - buf.length } : Ctx).remaining := rfl
  simp only [hrem]
  simp only [Except.ok.injEq] at h
  subst h
  by_cases hw : ({ c2 with pos := c2.pos - buf.length } : Ctx).remaining > 1 ∨ cap - c2.count > 1 ∨
      ({ c2 with pos := c2.pos - buf.length } : Ctx).remaining ≠ cap - c2.count
  · rw [if_pos hw, if_pos hw]
    by_cases hn : c2.newEnc.isNone = true
    · refine ⟨[254], ?_, ?_⟩ <;> simp [hn, Ctx.write, Ctx.swap, Ctx.signal, hcw2]
    · refine ⟨[254], ?_, ?_⟩ <;> simp [hn, Ctx.write, Ctx.swap, Ctx.signal, hcw2]
  · rw [if_neg hw, if_neg hw]
    by_cases hn : c2.newEnc.isNone = true
    · refine ⟨[], ?_, ?_⟩ <;> simp [hn, Ctx.swap, Ctx.signal, hcw2]
    · refine ⟨[], ?_, ?_⟩ <;> simp [hn, Ctx.swap, Ctx.signal, hcw2]

theorem x12Encode_swap {syms : List SymbolInfo} {la : LookAhead} {c c' : Ctx} {V : List Nat}
    (hV : V.length = c.cw.length) (h : x12Encode syms la c = .ok c') :
    ∃ x, c'.cw = c.cw ++ x ∧ x12Encode syms la (c.swap V) = .ok (c'.swap (V ++ x)) := by
  unfold x12Encode at h ⊢
  obtain ⟨r, hl, h⟩ := bind_ok h
  obtain ⟨c1, buf1⟩ := r
  have hrem : (c.swap V).remaining = c.remaining := rfl
  rw [hrem]
  obtain ⟨x1, hx1, hl'⟩ := x12Loop_swap _ c V [] c1 buf1 hl
  rw [hl']
  simp only [bind, Except.bind]
  obtain ⟨x2, hx2, h2'⟩ := x12HandleEOD_swap (V := V ++ x1) (by rw [hx1]; simp [hV]) h
  refine ⟨x1 ++ x2, by rw [hx2, hx1, List.append_assoc], ?_⟩
  rw [h2', List.append_assoc]

theorem edifactLoop_swap {la : LookAhead} :
    ∀ (fuel : Nat) (c : Ctx) (V buf : List Nat) (c' : Ctx) (buf' : List Nat),
      edifactLoop la fuel c buf = .ok (c', buf') →
      ∃ x, c'.cw = c.cw ++ x ∧ edifactLoop la fuel (c.swap V) buf = .ok (c'.swap (V ++ x), buf') := by
  intro fuel
  induction fuel with
  | zero =>
    intro c V buf c' buf' h
    simp only [edifactLoop] at h ⊢
    have hm : (c.swap V).hasMore = c.hasMore := rfl
    rw [hm]
    by_cases hmm : c.hasMore = true
    · simp only [hmm, if_true] at h; cases h
    · simp only [Bool.not_eq_true] at hmm
      simp only [hmm, Bool.false_eq_true, if_false] at h ⊢
      simp only [Except.ok.injEq, Prod.mk.injEq] at h
      obtain ⟨rfl, rfl⟩ := h
      exact ⟨[], by simp, by simp⟩
  | succ n ih =>
    intro c V buf c' buf' h
    simp only [edifactLoop] at h ⊢
    have hm : (c.swap V).hasMore = c.hasMore := rfl
    rw [hm]
    by_cases hmm : c.hasMore = true
    · simp only [hmm, Bool.not_true, Bool.false_eq_true, if_false] at h ⊢
      have hcur : (c.swap V).cur = c.cur := rfl
      rw [hcur]
      obtain ⟨ch, hch, h⟩ := bind_ok h
      obtain ⟨v, hv, h⟩ := bind_ok h
      rw [hch]
      simp only [bind, Except.bind, hv]
      by_cases h4 : (buf ++ [v]).length ≥ 4
      · simp only [h4, if_true] at h ⊢
        have e0 : ({ c.swap V with pos := (c.swap V).pos + 1 } : Ctx).writeAll (edifactPack (buf ++ [v])) =
            (({ c with pos := c.pos + 1 } : Ctx).writeAll (edifactPack (buf ++ [v]))).swap (V ++ edifactPack (buf ++ [v])) := rfl
        rw [e0]
        have hmsg : ∀ (cc : Ctx) (W : List Nat), (cc.swap W).msg = cc.msg := fun _ _ => rfl
        have hpos : ∀ (cc : Ctx) (W : List Nat), (cc.swap W).pos = cc.pos := fun _ _ => rfl
        rw [hmsg, hpos]
        by_cases hla : la (({ c with pos := c.pos + 1 } : Ctx).writeAll (edifactPack (buf ++ [v]))).msg
            (({ c with pos := c.pos + 1 } : Ctx).writeAll (edifactPack (buf ++ [v]))).pos EDIFACT ≠ EDIFACT
        · rw [if_pos hla] at h ⊢
          simp only [Except.ok.injEq, Prod.mk.injEq] at h
          obtain ⟨rfl, rfl⟩ := h
          exact ⟨edifactPack (buf ++ [v]), rfl, rfl⟩
        · rw [if_neg hla] at h ⊢
          obtain ⟨x, hx, hx'⟩ := ih _ (V ++ edifactPack (buf ++ [v])) _ c' buf' h
          refine ⟨edifactPack (buf ++ [v]) ++ x, ?_, ?_⟩
          · rw [hx]; simp [Ctx.writeAll]
          · rw [hx']; simp [Ctx.swap]
      · simp only [h4, if_false] at h ⊢
        have e0 : ({ c.swap V with pos := (c.swap V).pos + 1 } : Ctx) = ({ c with pos := c.pos + 1 } : Ctx).swap V := rfl
        rw [e0]
        obtain ⟨x, hx, hx'⟩ := ih _ V _ c' buf' h
        exact ⟨x, hx, hx'⟩
    · simp only [Bool.not_eq_true] at hmm
      simp only [hmm, Bool.not_false, if_true] at h ⊢
      simp only [Except.ok.injEq, Prod.mk.injEq] at h
      obtain ⟨rfl, rfl⟩ := h
      exact ⟨[], by simp, by simp⟩

theorem restNeed_swap (c : Ctx) (V : List Nat) : edifactRestNeed (c.swap V) = edifactRestNeed c := rfl

theorem ediEarly_swap {syms : List SymbolInfo} {c c2 : Ctx} {V : List Nat} {count : Nat} {b : Bool}
    (hV : V.length = c.cw.length) (h : ediEarly syms c count = .ok (c2, b)) :
    c2.cw = c.cw ∧ ediEarly syms (c.swap V) count = .ok (c2.swap V, b) := by
  unfold ediEarly at h ⊢
  by_cases h1 : count = 1
  · simp only [h1, if_true] at h ⊢
    obtain ⟨c1, hu1, h⟩ := bind_ok h
    obtain ⟨cap, hc1, h⟩ := bind_ok h
    obtain ⟨rem, hr, h⟩ := bind_ok h
    obtain ⟨p, hp, h⟩ := bind_ok h
    obtain ⟨c3, av⟩ := p
    simp only [Except.ok.injEq, Prod.mk.injEq] at h
    obtain ⟨rfl, rfl⟩ := h
    have hcw1 := (update_spec hu1).1
    have hc1' : (c1.swap V).count = c1.count := swap_count (by rw [hcw1]; exact hV)
    simp only [swap_count hV, update_swap, hu1, Except.map, bind, Except.bind, capacity_swap, hc1, restNeed_swap, hr, hc1']
    by_cases hgt : rem > cap - c1.count
    · rw [if_pos hgt] at hp ⊢
      obtain ⟨c4, hu4, hp⟩ := bind_ok hp
      obtain ⟨cap4, hc4, hp⟩ := bind_ok hp
      simp only [pure, Except.pure, Except.ok.injEq, Prod.mk.injEq] at hp
      obtain ⟨rfl, rfl⟩ := hp
      have hcw4 := (update_spec hu4).1
      have hc4' : (c4.swap V).count = c4.count := swap_count (by rw [hcw4, hcw1]; exact hV)
      simp only [update_swap, hu4, Except.map, bind, Except.bind, capacity_swap, hc4, pure, Except.pure, hc4']
      exact ⟨by rw [hcw4, hcw1], trivial⟩
    · rw [if_neg hgt] at hp ⊢
      simp only [pure, Except.pure, Except.ok.injEq, Prod.mk.injEq] at hp
      obtain ⟨rfl, rfl⟩ := hp
      simp only [pure, Except.pure]
      exact ⟨hcw1, trivial⟩
  · simp only [h1, if_false] at h ⊢
    simp only [Except.ok.injEq, Prod.mk.injEq] at h
    obtain ⟨rfl, rfl⟩ := h
    exact ⟨rfl, rfl⟩

theorem ediStep_swap {syms : List SymbolInfo} {c c2 : Ctx} {V buf : List Nat} {b : Bool}
    (hV : V.length = c.cw.length) (h : ediStep syms c buf = .ok (c2, b)) :
    c2.cw = c.cw ∧ ediStep syms (c.swap V) buf = .ok (c2.swap V, b) := by
  unfold ediStep at h ⊢
  have hm : (c.swap V).hasMore = c.hasMore := rfl
  simp only [hm] at h ⊢
  by_cases h2 : buf.length - 1 ≤ 2
  · simp only [h2, if_true] at h ⊢
    obtain ⟨c1, hu1, h⟩ := bind_ok h
    obtain ⟨cap, hc1, h⟩ := bind_ok h
    have hcw1 := (update_spec hu1).1
    have hc1' : (c1.swap V).count = c1.count := swap_count (by rw [hcw1]; exact hV)
    simp only [swap_count hV, update_swap, hu1, Except.map, bind, Except.bind, capacity_swap, hc1, hc1']
    by_cases h3 : cap - c1.count ≥ 3
    · simp only [h3, if_true] at h ⊢
      obtain ⟨c3, hu3, h⟩ := bind_ok h
      simp only [Except.ok.injEq, Prod.mk.injEq] at h
      obtain ⟨rfl, rfl⟩ := h
      simp only [hu3]
      exact ⟨by rw [(update_spec hu3).1, hcw1], trivial⟩
    · simp only [h3, if_false] at h ⊢
      simp only [Except.ok.injEq, Prod.mk.injEq] at h
      obtain ⟨rfl, rfl⟩ := h
      exact ⟨hcw1, rfl⟩
  · simp only [h2, if_false] at h ⊢
    simp only [Except.ok.injEq, Prod.mk.injEq] at h
    obtain ⟨rfl, rfl⟩ := h
    exact ⟨rfl, rfl⟩

theorem edifactHandleEOD_swap {syms : List SymbolInfo} {c c' : Ctx} {V buf : List Nat}
    (hV : V.length = c.cw.length) (h : edifactHandleEOD syms c buf = .ok c') :
    ∃ x, c'.cw = c.cw ++ x ∧ edifactHandleEOD syms (c.swap V) buf = .ok (c'.swap (V ++ x)) := by
  rw [edifactHandleEOD_eq] at h ⊢
  by_cases h0 : buf.length = 0
  · simp only [h0, if_true, Except.ok.injEq] at h ⊢
    subst h
    exact ⟨[], by simp [Ctx.signal], by simp [Ctx.signal, Ctx.swap]⟩
  · simp only [h0, if_false] at h ⊢
    obtain ⟨p, hp, h⟩ := bind_ok h
    obtain ⟨c1, nu⟩ := p
    obtain ⟨hcw1, hp'⟩ := ediEarly_swap hV hp
    rw [hp']
    simp only [bind, Except.bind] at h ⊢
    by_cases hnu : nu = true
    · simp only [hnu, if_true, Except.ok.injEq] at h ⊢
      subst h
      exact ⟨[], by simp [Ctx.signal, hcw1], by simp [Ctx.signal, Ctx.swap]⟩
    · have hnu' : nu = false := by simpa using hnu
      simp only [hnu', Bool.false_eq_true, if_false] at h ⊢
      by_cases h4 : buf.length > 4
      · simp only [h4, if_true] at h; cases h
      · simp only [h4, if_false] at h ⊢
        obtain ⟨p2, hp2, h⟩ := bind_ok h
        obtain ⟨c2, ria⟩ := p2
        obtain ⟨hcw2, hp2'⟩ := ediStep_swap (V := V) (by rw [hcw1]; exact hV) hp2
        rw [hp2']
        simp only [bind, Except.bind] at h ⊢
        by_cases hr : ria = true
        · simp only [hr, if_true] at h ⊢
          obtain ⟨c3, h3, h⟩ := bind_ok h
          simp only [Except.ok.injEq] at h
          subst h
          obtain ⟨_, rfl⟩ := back_spec h3
          have e : ({ c2.swap V with sym := none } : Ctx) = ({ c2 with sym := none } : Ctx).swap V := rfl
          rw [e, back_swap, h3]
          exact ⟨[], by simp [Ctx.signal, hcw2, hcw1], by simp [Ctx.signal, Ctx.swap, Except.map]⟩
        · have hr' : ria = false := by simpa using hr
          simp only [hr', Bool.false_eq_true, if_false, Except.ok.injEq] at h ⊢
          subst h
          exact ⟨edifactPack buf, by simp [Ctx.signal, Ctx.writeAll, hcw2, hcw1],
            by simp [Ctx.signal, Ctx.writeAll, Ctx.swap]⟩

theorem edifactEncode_swap {syms : List SymbolInfo} {la : LookAhead} {c c' : Ctx} {V : List Nat}
    (hV : V.length = c.cw.length) (h : edifactEncode syms la c = .ok c') :
    ∃ x, c'.cw = c.cw ++ x ∧ edifactEncode syms la (c.swap V) = .ok (c'.swap (V ++ x)) := by
  unfold edifactEncode at h ⊢
  obtain ⟨r, hl, h⟩ := bind_ok h
  obtain ⟨c1, buf1⟩ := r
  have hrem : (c.swap V).remaining = c.remaining := rfl
  rw [hrem]
  obtain ⟨x1, hx1, hl'⟩ := edifactLoop_swap _ c V [] c1 buf1 hl
  rw [hl']
  simp only [bind, Except.bind]
  obtain ⟨x2, hx2, h2'⟩ := edifactHandleEOD_swap (V := V ++ x1) (by rw [hx1]; simp [hV]) h
  refine ⟨x1 ++ x2, by rw [hx2, hx1, List.append_assoc], ?_⟩
  rw [h2', List.append_assoc]

theorem b256Loop_swap {la : LookAhead} :
    ∀ (fuel : Nat) (c : Ctx) (V data : List Nat) (c' : Ctx) (data' : List Nat),
      b256Loop la fuel c data = .ok (c', data') →
      c'.cw = c.cw ∧ b256Loop la fuel (c.swap V) data = .ok (c'.swap V, data') := by
  intro fuel
  induction fuel with
  | zero =>
    intro c V data c' data' h
    simp only [b256Loop] at h ⊢
    have hm : (c.swap V).hasMore = c.hasMore := rfl
    rw [hm]
    by_cases hmm : c.hasMore = true
    · simp only [hmm, if_true] at h; cases h
    · simp only [Bool.not_eq_true] at hmm
      simp only [hmm, Bool.false_eq_true, if_false] at h ⊢
      simp only [Except.ok.injEq, Prod.mk.injEq] at h
      obtain ⟨rfl, rfl⟩ := h
      exact ⟨rfl, rfl⟩
  | succ n ih =>
    intro c V data c' data' h
    simp only [b256Loop] at h ⊢
    have hm : (c.swap V).hasMore = c.hasMore := rfl
    rw [hm]
    by_cases hmm : c.hasMore = true
    · simp only [hmm, Bool.not_true, Bool.false_eq_true, if_false] at h ⊢
      have hcur : (c.swap V).cur = c.cur := rfl
      rw [hcur]
      obtain ⟨ch, hch, h⟩ := bind_ok h
      rw [hch]
      simp only [bind, Except.bind]
      have hmsg' : (c.swap V).msg = c.msg := rfl
      have hpos' : (c.swap V).pos = c.pos := rfl
      simp only [hmsg', hpos'] at h ⊢
      by_cases hla : la c.msg (c.pos + 1) BASE256 ≠ BASE256
      · rw [if_pos hla] at h ⊢
        simp only [Except.ok.injEq, Prod.mk.injEq] at h
        obtain ⟨rfl, rfl⟩ := h
        exact ⟨rfl, rfl⟩
      · rw [if_neg hla] at h ⊢
        exact ih ({ c with pos := c.pos + 1 } : Ctx) V _ c' data' h
    · simp only [Bool.not_eq_true] at hmm
      simp only [hmm, Bool.not_false, if_true] at h ⊢
      simp only [Except.ok.injEq, Prod.mk.injEq] at h
      obtain ⟨rfl, rfl⟩ := h
      exact ⟨rfl, rfl⟩

theorem b256Encode_swap {syms : List SymbolInfo} {la : LookAhead} {c c' : Ctx} {V : List Nat}
    (hV : V.length = c.cw.length) (h : b256Encode syms la c = .ok c') :
    ∃ x, c'.cw = c.cw ++ x ∧ b256Encode syms la (c.swap V) = .ok (c'.swap (V ++ x)) := by
  unfold b256Encode at h ⊢
  obtain ⟨r, hl, h⟩ := bind_ok h
  obtain ⟨c1, data⟩ := r
  have hrem : (c.swap V).remaining = c.remaining := rfl
  rw [hrem]
  obtain ⟨hcw1, hl'⟩ := b256Loop_swap _ c V [] c1 data hl
  rw [hl']
  simp only [bind, Except.bind]
  obtain ⟨c2, hu, h⟩ := bind_ok h
  obtain ⟨cap, hc, h⟩ := bind_ok h
  obtain ⟨hdr, hh, h⟩ := bind_ok h
  simp only [Except.ok.injEq] at h
  subst h
  have hcw2 := (update_spec hu).1
  have hV1 : V.length = c1.cw.length := by rw [hcw1]; exact hV
  have hc1' : (c1.swap V).count = c1.count := swap_count hV1
  have hc2' : (c2.swap V).count = c2.count := swap_count (by rw [hcw2]; exact hV1)
  have hm2 : (c2.swap V).hasMore = c2.hasMore := rfl
  simp only [hc1', update_swap, hu, Except.map, capacity_swap, hc, hm2]
  try simp only [bind, Except.bind] at hh
  try simp only [bind, Except.bind]
  rw [hh]
  simp only [hc2']
  refine ⟨rand255All (hdr ++ data) (c2.count + 1), by simp [Ctx.writeAll, hcw2, hcw1], rfl⟩

theorem asciiEncode_swap {la : LookAhead} {c c' : Ctx} {V : List Nat}
    (h : asciiEncode la c = .ok c') :
    ∃ x, c'.cw = c.cw ++ x ∧ asciiEncode la (c.swap V) = .ok (c'.swap (V ++ x)) := by
  unfold asciiEncode at h ⊢
  have hmsg : (c.swap V).msg = c.msg := rfl
  have hpos : (c.swap V).pos = c.pos := rfl
  have hcur : (c.swap V).cur = c.cur := rfl
  simp only [hmsg, hpos, hcur] at h ⊢
  by_cases hn : digitRun (c.msg.drop c.pos) ≥ 2
  · simp only [hn, if_true] at h ⊢
    cases h1 : c.msg[c.pos]? with
    | none => rw [h1] at h; cases h
    | some d1 =>
      cases h2 : c.msg[c.pos + 1]? with
      | none => rw [h1, h2] at h; cases h
      | some d2 =>
        rw [h1, h2] at h
        simp only [Except.ok.injEq] at h ⊢
        subst h
        exact ⟨[(d1 - 48) * 10 + (d2 - 48) + 130], by simp [Ctx.write], by simp [Ctx.write, Ctx.swap]⟩
  · simp only [hn, if_false] at h ⊢
    obtain ⟨ch, hch, h⟩ := bind_ok h
    rw [hch]
    simp only [bind, Except.bind] at h ⊢
    generalize la c.msg c.pos ASCII = m at h ⊢
    by_cases h0 : m ≠ ASCII
    · rw [if_pos h0] at h ⊢
      by_cases h5 : m = BASE256
      · rw [if_pos h5] at h ⊢; cases h; exact ⟨[231], rfl, rfl⟩
      · rw [if_neg h5] at h ⊢
        by_cases h1 : m = C40
        · rw [if_pos h1] at h ⊢; cases h; exact ⟨[230], rfl, rfl⟩
        · rw [if_neg h1] at h ⊢
          by_cases h3 : m = X12
          · rw [if_pos h3] at h ⊢; cases h; exact ⟨[238], rfl, rfl⟩
          · rw [if_neg h3] at h ⊢
            by_cases h2 : m = TEXT
            · rw [if_pos h2] at h ⊢; cases h; exact ⟨[239], rfl, rfl⟩
            · rw [if_neg h2] at h ⊢
              by_cases h4 : m = EDIFACT
              · rw [if_pos h4] at h ⊢; cases h; exact ⟨[240], rfl, rfl⟩
              · rw [if_neg h4] at h; cases h
    · rw [if_neg h0] at h ⊢
      by_cases he : isExtended ch = true
      · rw [if_pos he] at h ⊢; cases h
        exact ⟨[235, ch - 128 + 1], by simp [Ctx.write], by simp [Ctx.write, Ctx.swap]⟩
      · rw [if_neg he] at h ⊢; cases h
        exact ⟨[ch + 1], by simp [Ctx.write], by simp [Ctx.write, Ctx.swap]⟩

theorem encodeMode_swap {syms : List SymbolInfo} {la : LookAhead} {mode : Nat} {c c' : Ctx} {V : List Nat}
    (hV : V.length = c.cw.length) (h : encodeMode syms la mode c = .ok c') :
    ∃ x, c'.cw = c.cw ++ x ∧ encodeMode syms la mode (c.swap V) = .ok (c'.swap (V ++ x)) := by
  unfold encodeMode at h ⊢
  repeat' split at h
  all_goals simp only [*, if_true, if_false]
  · exact asciiEncode_swap h
  · exact c40Encode_swap hV h
  · exact c40Encode_swap hV h
  · exact x12Encode_swap hV h
  · exact edifactEncode_swap hV h
  · exact b256Encode_swap hV h
  · cases h

end Gzx.DMHighLevel
