/-
  C02 / wp dmenc, item (b) — the symbol of the encoder context is a first fit FOR A CODEWORD COUNT THAT IS (ALMOST)
  REACHED: `SymB syms c`: `c.sym = lookup n` for some `n ≤ c.count + 1`.  Holds between the calls of the mode encoders
  (inside the C40 / Text encoder the symbol is looked up for buffered triplets that may still be backtracked —
  `ResetSymbolInfo` forgets it then; the EDIFACT end-of-data handling looks one codeword ahead).
  With a table sorted by capacity this makes the symbol a lower bound for every later one (`Proofs/DMFullRun.lean`).
-/
import Gzx.Proofs.DMEdiCall
namespace Gzx.DMHighLevel

def SymB (syms : List SymbolInfo) (c : Ctx) : Prop :=
  ∀ s, c.sym = some s → ∃ n, n ≤ c.count + 1 ∧ lookup syms c.cfg n = some s

/-- the symbol is kept, forgotten, or looked up afresh for at most `β` codewords -/
def StepB (syms : List SymbolInfo) (β : Nat) (c c' : Ctx) : Prop :=
  c'.cfg = c.cfg ∧ (c'.sym = c.sym ∨ c'.sym = none ∨ ∃ n s, n ≤ β ∧ lookup syms c.cfg n = some s ∧ c'.sym = some s)

theorem StepB.of_eq {syms : List SymbolInfo} {β : Nat} {c c' : Ctx} (h1 : c'.cfg = c.cfg) (h2 : c'.sym = c.sym) :
    StepB syms β c c' := ⟨h1, Or.inl h2⟩
theorem StepB.refl (syms : List SymbolInfo) (β : Nat) (c : Ctx) : StepB syms β c c := ⟨rfl, Or.inl rfl⟩
theorem StepB.of_none {syms : List SymbolInfo} {β : Nat} {c c' : Ctx} (h1 : c'.cfg = c.cfg) (h2 : c'.sym = none) :
    StepB syms β c c' := ⟨h1, Or.inr (Or.inl h2)⟩

theorem StepB.mono {syms : List SymbolInfo} {β β' : Nat} {c c' : Ctx} (h : StepB syms β c c') (hb : β ≤ β') :
    StepB syms β' c c' := by
  obtain ⟨e, k⟩ := h
  refine ⟨e, ?_⟩
  rcases k with k | k | ⟨n, s, hn, hl, hs⟩
  · exact Or.inl k
  · exact Or.inr (Or.inl k)
  · exact Or.inr (Or.inr ⟨n, s, by omega, hl, hs⟩)

theorem StepB.trans {syms : List SymbolInfo} {β1 β2 : Nat} {a b c : Ctx} (h1 : StepB syms β1 a b)
    (h2 : StepB syms β2 b c) : StepB syms (max β1 β2) a c := by
  obtain ⟨e1, k1⟩ := h1
  obtain ⟨e2, k2⟩ := h2
  refine ⟨by rw [e2, e1], ?_⟩
  rcases k2 with k2 | k2 | ⟨n, s, hn, hl, hs⟩
  · rw [k2]
    rcases k1 with k1 | k1 | ⟨n, s, hn, hl, hs⟩
    · exact Or.inl k1
    · exact Or.inr (Or.inl k1)
    · exact Or.inr (Or.inr ⟨n, s, by omega, hl, hs⟩)
  · exact Or.inr (Or.inl k2)
  · exact Or.inr (Or.inr ⟨n, s, by omega, by rw [← e1]; exact hl, hs⟩)

theorem SymB.step {syms : List SymbolInfo} {β : Nat} {c c' : Ctx} (hc : SymB syms c) (h : StepB syms β c c')
    (hcnt : c.count ≤ c'.count) (hb : β ≤ c'.count + 1) : SymB syms c' := by
  obtain ⟨e, k⟩ := h
  intro s hs
  rcases k with k | k | ⟨n, s', hn, hl, hs'⟩
  · rw [k] at hs
    obtain ⟨n, hn, hl⟩ := hc s hs
    exact ⟨n, by omega, by rw [e]; exact hl⟩
  · rw [k] at hs; cases hs
  · rw [hs'] at hs; cases hs
    exact ⟨n, by omega, by rw [e]; exact hl⟩

theorem update_stepB {syms : List SymbolInfo} {c c' : Ctx} {n : Nat} (h : c.update syms n = .ok c') :
    StepB syms n c c' := by
  unfold Ctx.update at h
  simp only at h
  split at h
  · split at h
    · rename_i s hl; cases h; exact ⟨rfl, Or.inr (Or.inr ⟨n, s, Nat.le_refl _, hl, rfl⟩)⟩
    · cases h
  · split at h
    · split at h
      · rename_i s hl; cases h; exact ⟨rfl, Or.inr (Or.inr ⟨n, s, Nat.le_refl _, hl, rfl⟩)⟩
      · cases h
    · cases h; exact StepB.refl _ _ _

theorem c40Available_stepB {syms : List SymbolInfo} {c c2 : Ctx} {buf : List Nat} {av : Nat}
    (h : c40Available syms c buf = .ok (c2, av)) : StepB syms (c.count + buf.length / 3 * 2) c c2 := by
  unfold c40Available at h
  obtain ⟨c3, h3, h⟩ := bind_ok h
  obtain ⟨cap, _, h⟩ := bind_ok h
  simp only [Except.ok.injEq, Prod.mk.injEq] at h
  obtain ⟨rfl, _⟩ := h
  exact update_stepB h3

/-- loop form: the symbol is the entry symbol and the buffer has not shrunk, or it was looked up for the complete
    triplets of the CURRENT buffer -/
def LoopB (syms : List SymbolInfo) (c : Ctx) (buf : List Nat) (c' : Ctx) (buf' : List Nat) : Prop :=
  c'.cfg = c.cfg ∧ c'.cw = c.cw ∧
  ((c'.sym = c.sym ∧ buf.length ≤ buf'.length) ∨
   ∃ n s, n ≤ c.count + buf'.length / 3 * 2 ∧ lookup syms c.cfg n = some s ∧ c'.sym = some s)

theorem backtrackLoop_loopB {syms : List SymbolInfo} {text : Bool} :
    ∀ (fuel : Nat) (c : Ctx) (buf : List Nat) (ls av : Nat) (c' : Ctx) (buf' : List Nat),
      backtrackLoop syms text fuel c buf ls av = .ok (c', buf') →
      c'.cfg = c.cfg ∧ c'.cw = c.cw ∧
      ((c'.sym = c.sym ∧ buf' = buf) ∨
       ∃ n s, n ≤ c.count + buf'.length / 3 * 2 ∧ lookup syms c.cfg n = some s ∧ c'.sym = some s) := by
  intro fuel
  induction fuel with
  | zero => intro c buf ls av c' buf' h; simp [backtrackLoop] at h
  | succ n ih =>
    intro c buf ls av c' buf' h
    simp only [backtrackLoop] at h
    split at h
    · obtain ⟨r1, h1, h⟩ := bind_ok h
      obtain ⟨c1, buf1, l1⟩ := r1
      obtain ⟨r2, h2, h⟩ := bind_ok h
      obtain ⟨c2, av2⟩ := r2
      have s1 := backtrackOne_symStep (syms := syms) h1
      have hcw1 := backtrackOne_cw h1
      have hnone : c1.sym = none := by
        unfold backtrackOne at h1
        split at h1
        · cases h1
        · obtain ⟨c3, h3, h1⟩ := bind_ok h1
          obtain ⟨_, _, h1⟩ := bind_ok h1
          simp only at h1
          repeat' split at h1
          all_goals first | (cases h1; done) | (simp only [Except.ok.injEq, Prod.mk.injEq] at h1; obtain ⟨rfl, _⟩ := h1; rfl)
      obtain ⟨e2, k2⟩ := c40Available_stepB h2
      obtain ⟨hcw2, _⟩ := c40Available_swap (V := c1.cw) rfl h2
      have hcnt1 : c1.count = c.count := by simp [Ctx.count, hcw1]
      have hcnt2 : c2.count = c.count := by simp [Ctx.count, hcw2, hcw1]
      -- after the reset the symbol of c2 is a fresh lookup for the triplets of buf1
      have hfresh : ∃ n s, n ≤ c.count + buf1.length / 3 * 2 ∧ lookup syms c.cfg n = some s ∧ c2.sym = some s := by
        rcases k2 with k | k | ⟨n, s, hn, hl, hs⟩
        · exfalso
          obtain ⟨_, _, _, _, _, _, s, hs, _⟩ := c40Available_spec h2
          rw [k, hnone] at hs; cases hs
        · exfalso
          obtain ⟨_, _, _, _, _, _, s, hs, _⟩ := c40Available_spec h2
          rw [k] at hs; cases hs
        · exact ⟨n, s, by rw [hcnt1] at hn; exact hn, by rw [← s1.1]; exact hl, hs⟩
      obtain ⟨e', hcw', k'⟩ := ih c2 buf1 l1 av2 c' buf' h
      refine ⟨by rw [e', e2, s1.1], by rw [hcw', hcw2, hcw1], Or.inr ?_⟩
      rcases k' with ⟨ks, kb⟩ | ⟨n, s, hn, hl, hs⟩
      · obtain ⟨n, s, hn, hl, hs⟩ := hfresh
        exact ⟨n, s, by rw [kb]; exact hn, hl, by rw [ks]; exact hs⟩
      · exact ⟨n, s, by rw [hcnt2] at hn; exact hn, by rw [← s1.1, ← e2]; exact hl, hs⟩
    · simp only [Except.ok.injEq, Prod.mk.injEq] at h
      obtain ⟨rfl, rfl⟩ := h
      exact ⟨rfl, rfl, Or.inl ⟨rfl, rfl⟩⟩

theorem update_kf {syms : List SymbolInfo} {c c' : Ctx} {n : Nat} (h : c.update syms n = .ok c') :
    c'.cfg = c.cfg ∧ c'.cw = c.cw ∧ (c'.sym = c.sym ∨ ∃ s, lookup syms c.cfg n = some s ∧ c'.sym = some s) := by
  obtain ⟨e, k⟩ := update_stepB h
  refine ⟨e, (update_spec h).1, ?_⟩
  rcases k with k | k | ⟨m, s, hm, hl, hs⟩
  · exact Or.inl k
  · obtain ⟨_, _, _, _, _, _, s, hs, _⟩ := update_spec h
    rw [k] at hs; cases hs
  · unfold Ctx.update at h
    simp only at h
    split at h
    · split at h
      · rename_i s' hl'; cases h; exact Or.inr ⟨s', hl', rfl⟩
      · cases h
    · split at h
      · split at h
        · rename_i s' hl'; cases h; exact Or.inr ⟨s', hl', rfl⟩
        · cases h
      · cases h; exact Or.inl rfl

theorem c40Available_kf {syms : List SymbolInfo} {c c2 : Ctx} {buf : List Nat} {av : Nat}
    (h : c40Available syms c buf = .ok (c2, av)) :
    c2.cfg = c.cfg ∧ c2.cw = c.cw ∧
      (c2.sym = c.sym ∨ ∃ s, lookup syms c.cfg (c.count + buf.length / 3 * 2) = some s ∧ c2.sym = some s) := by
  unfold c40Available at h
  obtain ⟨c3, h3, h⟩ := bind_ok h
  obtain ⟨cap, _, h⟩ := bind_ok h
  simp only [Except.ok.injEq, Prod.mk.injEq] at h
  obtain ⟨rfl, _⟩ := h
  exact update_kf h3

theorem LoopB.compose {syms : List SymbolInfo} {c c2 c1 : Ctx} {buf buf2 buf1 : List Nat}
    (e2 : c2.cfg = c.cfg) (hcw2 : c2.cw = c.cw)
    (k2 : c2.sym = c.sym ∨ ∃ s, lookup syms c.cfg (c.count + buf2.length / 3 * 2) = some s ∧ c2.sym = some s)
    (hb : buf.length ≤ buf2.length) (h : LoopB syms c2 buf2 c1 buf1) : LoopB syms c buf c1 buf1 := by
  obtain ⟨e1, hcw1, k1⟩ := h
  have hcnt2 : c2.count = c.count := by simp [Ctx.count, hcw2]
  refine ⟨by rw [e1, e2], by rw [hcw1, hcw2], ?_⟩
  rcases k1 with ⟨ks, kb⟩ | ⟨n, s, hn, hl, hs⟩
  · rcases k2 with k | ⟨s, hl, hs⟩
    · exact Or.inl ⟨by rw [ks, k], by omega⟩
    · exact Or.inr ⟨_, s, by omega, hl, by rw [ks]; exact hs⟩
  · exact Or.inr ⟨n, s, by rw [hcnt2] at hn; exact hn, by rw [← e2]; exact hl, hs⟩

theorem c40Loop_loopB {syms : List SymbolInfo} {la : LookAhead} {text : Bool} :
    ∀ (fuel : Nat) (c : Ctx) (buf : List Nat) (c' : Ctx) (buf' : List Nat),
      c40Loop syms la text fuel c buf = .ok (c', buf') → LoopB syms c buf c' buf' := by
  intro fuel
  induction fuel with
  | zero =>
    intro c buf c' buf' h
    simp only [c40Loop] at h
    split at h
    · cases h
    · simp only [Except.ok.injEq, Prod.mk.injEq] at h
      obtain ⟨rfl, rfl⟩ := h
      exact ⟨rfl, rfl, Or.inl ⟨rfl, Nat.le_refl _⟩⟩
  | succ n ih =>
    intro c buf c' buf' h
    simp only [c40Loop] at h
    split at h
    · simp only [Except.ok.injEq, Prod.mk.injEq] at h
      obtain ⟨rfl, rfl⟩ := h
      exact ⟨rfl, rfl, Or.inl ⟨rfl, Nat.le_refl _⟩⟩
    · obtain ⟨ch, _, h⟩ := bind_ok h
      obtain ⟨r2, h2, h⟩ := bind_ok h
      obtain ⟨c2, av⟩ := r2
      obtain ⟨e2, hcw2, k2⟩ := c40Available_kf h2
      have e2' : c2.cfg = c.cfg := e2
      have hcw2' : c2.cw = c.cw := hcw2
      have hcnt0 : ({ c with pos := c.pos + 1 } : Ctx).count = c.count := rfl
      have k2' : c2.sym = c.sym ∨ ∃ s, lookup syms c.cfg (c.count + (buf ++ cEncodeChar text ch).length / 3 * 2) = some s ∧
          c2.sym = some s := k2
      have hbl : buf.length ≤ (buf ++ cEncodeChar text ch).length := by simp
      simp only at h
      split at h
      · split at h
        · obtain ⟨r3, h3, h⟩ := bind_ok h
          obtain ⟨c3, buf3, l3⟩ := r3
          obtain ⟨r4, h4, h⟩ := bind_ok h
          obtain ⟨c4, av4⟩ := r4
          have s3 := backtrackOne_symStep (syms := syms) h3
          have hcw3 := backtrackOne_cw h3
          obtain ⟨e4, hcw4, k4⟩ := c40Available_kf h4
          have hnone : c3.sym = none := by
            unfold backtrackOne at h3
            split at h3
            · cases h3
            · obtain ⟨c5, _, h3⟩ := bind_ok h3
              obtain ⟨_, _, h3⟩ := bind_ok h3
              simp only at h3
              repeat' split at h3
              all_goals first | (cases h3; done) | (simp only [Except.ok.injEq, Prod.mk.injEq] at h3; obtain ⟨rfl, _⟩ := h3; rfl)
          have hcnt3 : c3.count = c.count := by simp [Ctx.count, hcw3, hcw2']
          have hfresh : ∃ s, lookup syms c.cfg (c.count + buf3.length / 3 * 2) = some s ∧ c4.sym = some s := by
            rcases k4 with k | ⟨s, hl, hs⟩
            · exfalso
              obtain ⟨_, _, _, _, _, _, s, hs, _⟩ := c40Available_spec h4
              rw [k, hnone] at hs; cases hs
            · exact ⟨s, by rw [hcnt3, s3.1, e2'] at hl; exact hl, hs⟩
          obtain ⟨e', hcw', k'⟩ := backtrackLoop_loopB _ _ _ _ _ _ _ h
          have hcnt4 : c4.count = c.count := by simp [Ctx.count, hcw4, hcw3, hcw2']
          refine ⟨by rw [e', e4, s3.1, e2'], by rw [hcw', hcw4, hcw3, hcw2'], Or.inr ?_⟩
          rcases k' with ⟨ks, kb⟩ | ⟨n, s, hn, hl, hs⟩
          · obtain ⟨s, hl, hs⟩ := hfresh
            exact ⟨_, s, by rw [kb]; exact Nat.le_refl _, hl, by rw [ks]; exact hs⟩
          · exact ⟨n, s, by rw [hcnt4] at hn; exact hn, by rw [e4, s3.1, e2'] at hl; exact hl, hs⟩
        · obtain ⟨e', hcw', k'⟩ := backtrackLoop_loopB _ _ _ _ _ _ _ h
          have hcnt2 : c2.count = c.count := by simp [Ctx.count, hcw2']
          refine ⟨by rw [e', e2'], by rw [hcw', hcw2'], ?_⟩
          rcases k' with ⟨ks, kb⟩ | ⟨n, s, hn, hl, hs⟩
          · rcases k2' with k | ⟨s, hl, hs⟩
            · exact Or.inl ⟨by rw [ks, k], by rw [kb]; exact hbl⟩
            · exact Or.inr ⟨_, s, by rw [kb]; exact Nat.le_refl _, hl, by rw [ks]; exact hs⟩
          · exact Or.inr ⟨n, s, by rw [hcnt2] at hn; exact hn, by rw [e2'] at hl; exact hl, hs⟩
      · by_cases h3 : (buf ++ cEncodeChar text ch).length % 3 = 0
        · simp only [h3, if_true] at h
          by_cases hla : la c2.msg c2.pos (if text = true then TEXT else C40) ≠ (if text = true then TEXT else C40)
          · rw [if_pos hla] at h
            simp only [Except.ok.injEq, Prod.mk.injEq] at h
            obtain ⟨rfl, rfl⟩ := h
            refine ⟨e2', hcw2', ?_⟩
            rcases k2' with k | ⟨s, hl, hs⟩
            · exact Or.inl ⟨k, hbl⟩
            · exact Or.inr ⟨_, s, Nat.le_refl _, hl, hs⟩
          · rw [if_neg hla] at h
            exact LoopB.compose e2' hcw2' k2' hbl (ih _ _ _ _ h)
        · simp only [h3, if_false] at h
          exact LoopB.compose e2' hcw2' k2' hbl (ih _ _ _ _ h)

theorem writeTriplets_fst_len (l : List Nat) : l.length / 3 * 2 = (writeTriplets l).1.length := by
  obtain ⟨k, h1, h2, _, _, _, h6⟩ := writeTriplets_split l.length l (Nat.le_refl _)
  rw [h6]; omega

theorem c40HandleEOD_facts {syms : List SymbolInfo} {c c' : Ctx} {buf : List Nat}
    (h : c40HandleEOD syms c buf = .ok c') :
    ∃ c2 av, c40Available syms c buf = .ok (c2, av) ∧ c'.sym = c2.sym ∧ c'.cfg = c2.cfg ∧
      c.count + buf.length / 3 * 2 ≤ c'.count := by
  unfold c40HandleEOD at h
  obtain ⟨r, hav, h⟩ := bind_ok h
  obtain ⟨c2, av⟩ := r
  obtain ⟨_, hcw2, _⟩ := c40Available_kf hav
  refine ⟨c2, av, hav, ?_⟩
  simp only at h
  have hl1 := writeTriplets_fst_len buf
  have hl2 := writeTriplets_fst_len (buf ++ [0])
  simp only [List.length_append, List.length_cons, List.length_nil] at hl2
  split at h
  · simp only [Except.ok.injEq] at h
    subst h
    refine ⟨by split <;> rfl, by split <;> rfl, ?_⟩
    split <;> simp [Ctx.signal, Ctx.write, Ctx.writeAll, Ctx.count, hcw2] <;> omega
  · split at h
    · obtain ⟨c3, h3, h⟩ := bind_ok h
      simp only [Except.ok.injEq] at h
      subst h
      obtain ⟨_, rfl⟩ := back_spec h3
      refine ⟨by simp only [Ctx.signal]; split <;> rfl, by simp only [Ctx.signal]; split <;> rfl, ?_⟩
      simp only [Ctx.signal, Ctx.count]
      split <;> simp [Ctx.write, Ctx.writeAll, hcw2] <;> omega
    · split at h
      · simp only [Except.ok.injEq] at h
        subst h
        refine ⟨by split <;> rfl, by split <;> rfl, ?_⟩
        split <;> simp [Ctx.signal, Ctx.write, Ctx.writeAll, Ctx.count, hcw2] <;> omega
      · cases h

theorem c40Encode_symB {syms : List SymbolInfo} {la : LookAhead} {text : Bool} {c c' : Ctx} (hc : SymB syms c)
    (h : c40Encode syms la text c = .ok c') : SymB syms c' ∧ c.count ≤ c'.count := by
  unfold c40Encode at h
  obtain ⟨r, hl, h⟩ := bind_ok h
  obtain ⟨c1, buf1⟩ := r
  obtain ⟨e1, hcw1, k1⟩ := c40Loop_loopB _ _ _ _ _ hl
  obtain ⟨c2, av, hav, hs, hcfg, hcnt⟩ := c40HandleEOD_facts h
  obtain ⟨e2, hcw2, k2⟩ := c40Available_kf hav
  have hcnt1 : c1.count = c.count := by simp [Ctx.count, hcw1]
  refine ⟨?_, by omega⟩
  intro s hss
  rw [hs] at hss
  have hcfg' : c'.cfg = c.cfg := by rw [hcfg, e2, e1]
  rcases k2 with k | ⟨s', hl', hs'⟩
  · rw [k] at hss
    rcases k1 with ⟨ks, _⟩ | ⟨n, s', hn, hl', hs'⟩
    · rw [ks] at hss
      obtain ⟨n, hn, hl'⟩ := hc s hss
      exact ⟨n, by omega, by rw [hcfg']; exact hl'⟩
    · rw [hs'] at hss; cases hss
      exact ⟨n, by omega, by rw [hcfg']; exact hl'⟩
  · rw [hs'] at hss; cases hss
    exact ⟨c1.count + buf1.length / 3 * 2, by omega, by rw [hcfg', ← e1]; exact hl'⟩

/-- generic closing step: the symbol of `c'` is that of `c2`, which was kept from `c` or looked up for `n ≤ c'.count + 1` -/
theorem SymB.close {syms : List SymbolInfo} {c c' : Ctx} {n : Nat} (hc : SymB syms c) (hcfg : c'.cfg = c.cfg)
    (hcnt : c.count ≤ c'.count) (hn : n ≤ c'.count + 1)
    (k : c'.sym = c.sym ∨ c'.sym = none ∨ ∃ s, lookup syms c.cfg n = some s ∧ c'.sym = some s) : SymB syms c' := by
  intro s hs
  rcases k with k | k | ⟨s', hl, hs'⟩
  · rw [k] at hs
    obtain ⟨m, hm, hl⟩ := hc s hs
    exact ⟨m, by omega, by rw [hcfg]; exact hl⟩
  · rw [k] at hs; cases hs
  · rw [hs'] at hs; cases hs
    exact ⟨n, hn, by rw [hcfg]; exact hl⟩

theorem x12HandleEOD_facts {syms : List SymbolInfo} {c c' : Ctx} {buf : List Nat}
    (h : x12HandleEOD syms c buf = .ok c') :
    ∃ c2, c.update syms c.count = .ok c2 ∧ c'.sym = c2.sym ∧ c'.cfg = c2.cfg := by
  unfold x12HandleEOD at h
  obtain ⟨c2, h2, h⟩ := bind_ok h
  obtain ⟨cap, _, h⟩ := bind_ok h
  obtain ⟨c3, h3, h⟩ := bind_ok h
  simp only [Except.ok.injEq] at h
  subst h
  obtain ⟨_, rfl⟩ := back_spec h3
  refine ⟨c2, h2, ?_, ?_⟩
  · split <;> (try simp only [Ctx.signal]) <;> split <;> rfl
  · split <;> (try simp only [Ctx.signal]) <;> split <;> rfl

theorem x12Encode_symB {syms : List SymbolInfo} {la : LookAhead} {c c' : Ctx} (hc : SymB syms c)
    (hle : c.pos ≤ c.total) (h : x12Encode syms la c = .ok c') : SymB syms c' ∧ c.count ≤ c'.count := by
  obtain ⟨x, hx, _⟩ := x12Encode_swap (V := c.cw) rfl h
  have hcnt : c.count ≤ c'.count := by simp [Ctx.count, hx]
  refine ⟨?_, hcnt⟩
  unfold x12Encode at h
  obtain ⟨r, hl, h⟩ := bind_ok h
  obtain ⟨c1, buf1⟩ := r
  obtain ⟨vals, _, hcw1, _, hsf, _⟩ := x12Loop_spec la c.remaining c [] c1 buf1 [] [] (by simp) hle rfl hl
  obtain ⟨y, hy, _⟩ := x12HandleEOD_swap (V := c1.cw) rfl h
  obtain ⟨c2, h2, hs2, hcfg2⟩ := x12HandleEOD_facts h
  obtain ⟨e2, hcw2, k2⟩ := update_kf h2
  have hc1cnt : c1.count ≤ c'.count := by simp [Ctx.count, hy]
  apply SymB.close (n := c1.count) hc
  · rw [hcfg2, e2, hsf.cfg]
  · exact hcnt
  · omega
  · rw [hs2]
    rcases k2 with k | ⟨s, hl', hs2'⟩
    · exact Or.inl (by rw [k, hsf.sym])
    · exact Or.inr (Or.inr ⟨s, by rw [← hsf.cfg]; exact hl', hs2'⟩)

theorem asciiEncode_symB {syms : List SymbolInfo} {la : LookAhead} {c c' : Ctx} (hc : SymB syms c)
    (h : asciiEncode la c = .ok c') : SymB syms c' ∧ c.count ≤ c'.count := by
  obtain ⟨x, hx, _⟩ := asciiEncode_swap (V := c.cw) h
  have hcnt : c.count ≤ c'.count := by simp [Ctx.count, hx]
  obtain ⟨e, k⟩ := asciiEncode_symStep (syms := syms) h
  refine ⟨?_, hcnt⟩
  have hk : c'.sym = c.sym := by
    -- the ASCII encoder never touches the symbol
    unfold asciiEncode at h
    simp only at h
    split at h
    · split at h
      · cases h; rfl
      · cases h
    · obtain ⟨ch, _, h⟩ := bind_ok h
      repeat' split at h
      all_goals first | (cases h; done) | (cases h; rfl)
  exact SymB.close (n := 0) hc e hcnt (by omega) (Or.inl hk)

theorem b256Encode_symB {syms : List SymbolInfo} {la : LookAhead} {c c' : Ctx} (hc : SymB syms c)
    (hle : c.pos ≤ c.total) (h : b256Encode syms la c = .ok c') : SymB syms c' ∧ c.count ≤ c'.count := by
  obtain ⟨x, hx, _⟩ := b256Encode_swap (V := c.cw) rfl h
  have hcnt : c.count ≤ c'.count := by simp [Ctx.count, hx]
  refine ⟨?_, hcnt⟩
  unfold b256Encode at h
  obtain ⟨r, hl, h⟩ := bind_ok h
  obtain ⟨c1, data⟩ := r
  obtain ⟨hcw1, hsf, _⟩ := b256Loop_spec la c.remaining c [] c1 data hle hl
  obtain ⟨c2, h2, h⟩ := bind_ok h
  obtain ⟨cap, _, h⟩ := bind_ok h
  obtain ⟨hdr, hh, h⟩ := bind_ok h
  simp only [Except.ok.injEq] at h
  subst h
  obtain ⟨e2, hcw2, k2⟩ := update_kf h2
  have hhdr : 1 ≤ hdr.length := by
    repeat' split at hh
    all_goals first | (cases hh; done) | (cases hh; simp)
  have hrl : ∀ (l : List Nat) (p : Nat), (rand255All l p).length = l.length := by
    intro l; induction l with
    | nil => intro p; rfl
    | cons y ys ih => intro p; simp [rand255All, ih]
  apply SymB.close (n := c1.count + data.length + 1) hc
  · show c2.cfg = c.cfg; rw [e2, hsf.cfg]
  · exact hcnt
  · simp only [Ctx.writeAll, Ctx.count, List.length_append, hrl, hcw2]
    omega
  · show c2.sym = c.sym ∨ c2.sym = none ∨ _
    rcases k2 with k | ⟨s, hl', hs2⟩
    · exact Or.inl (by rw [k, hsf.sym])
    · exact Or.inr (Or.inr ⟨s, by rw [← hsf.cfg]; exact hl', hs2⟩)

/-- keep / fresh with a bound on the looked-up count, composable -/
def KF (syms : List SymbolInfo) (β : Nat) (c c' : Ctx) : Prop :=
  c'.cfg = c.cfg ∧ c'.cw = c.cw ∧ (c'.sym = c.sym ∨ ∃ n s, n ≤ β ∧ lookup syms c.cfg n = some s ∧ c'.sym = some s)

theorem KF.refl (syms : List SymbolInfo) (β : Nat) (c : Ctx) : KF syms β c c := ⟨rfl, rfl, Or.inl rfl⟩

theorem KF.of_update {syms : List SymbolInfo} {c c' : Ctx} {n β : Nat} (h : c.update syms n = .ok c') (hn : n ≤ β) :
    KF syms β c c' := by
  obtain ⟨e, hcw, k⟩ := update_kf h
  refine ⟨e, hcw, ?_⟩
  rcases k with k | ⟨s, hl, hs⟩
  · exact Or.inl k
  · exact Or.inr ⟨n, s, hn, hl, hs⟩

theorem KF.trans {syms : List SymbolInfo} {β : Nat} {a b c : Ctx} (h1 : KF syms β a b) (h2 : KF syms β b c) :
    KF syms β a c := by
  obtain ⟨e1, w1, k1⟩ := h1
  obtain ⟨e2, w2, k2⟩ := h2
  refine ⟨by rw [e2, e1], by rw [w2, w1], ?_⟩
  rcases k2 with k | ⟨n, s, hn, hl, hs⟩
  · rw [k]; exact k1
  · exact Or.inr ⟨n, s, hn, by rw [← e1]; exact hl, hs⟩

theorem ediEarly_kf {syms : List SymbolInfo} {c c2 : Ctx} {count : Nat} {b : Bool}
    (h : ediEarly syms c count = .ok (c2, b)) : KF syms (c.count + 1) c c2 := by
  unfold ediEarly at h
  split at h
  · obtain ⟨c1, h1, h⟩ := bind_ok h
    obtain ⟨cap, _, h⟩ := bind_ok h
    obtain ⟨rem, _, h⟩ := bind_ok h
    obtain ⟨p, hp, h⟩ := bind_ok h
    obtain ⟨c3, av⟩ := p
    simp only [Except.ok.injEq, Prod.mk.injEq] at h
    obtain ⟨rfl, _⟩ := h
    have k1 : KF syms (c.count + 1) c c1 := KF.of_update h1 (by omega)
    have hcnt1 : c1.count = c.count := by simp [Ctx.count, k1.2.1]
    split at hp
    · obtain ⟨c4, h4, hp⟩ := bind_ok hp
      obtain ⟨cap4, _, hp⟩ := bind_ok hp
      simp only [pure, Except.pure, Except.ok.injEq, Prod.mk.injEq] at hp
      obtain ⟨rfl, _⟩ := hp
      exact k1.trans (KF.of_update h4 (by omega))
    · simp only [pure, Except.pure, Except.ok.injEq, Prod.mk.injEq] at hp
      obtain ⟨rfl, _⟩ := hp
      exact k1
  · simp only [Except.ok.injEq, Prod.mk.injEq] at h
    obtain ⟨rfl, _⟩ := h
    exact KF.refl _ _ _

theorem edifactPack_length (buf : List Nat) (h1 : 1 ≤ buf.length) :
    (edifactPack buf).length = min buf.length 3 := by
  match buf, h1 with
  | [_], _ => rfl
  | [_, _], _ => rfl
  | [_, _, _], _ => rfl
  | _ :: _ :: _ :: _ :: r, _ => simp [edifactPack, edifactWord]

theorem ediStep_kf {syms : List SymbolInfo} {c c2 : Ctx} {buf : List Nat} {b : Bool} (h1 : 1 ≤ buf.length)
    (h : ediStep syms c buf = .ok (c2, b)) : KF syms (c.count + (edifactPack buf).length) c c2 := by
  unfold ediStep at h
  simp only at h
  have hpl := edifactPack_length buf h1
  split at h
  · rename_i hr
    obtain ⟨c1, hu1, h⟩ := bind_ok h
    obtain ⟨cap, _, h⟩ := bind_ok h
    have k1 : KF syms (c.count + (edifactPack buf).length) c c1 := KF.of_update hu1 (by omega)
    have hcnt1 : c1.count = c.count := by simp [Ctx.count, k1.2.1]
    split at h
    · obtain ⟨c3, h3, h⟩ := bind_ok h
      simp only [Except.ok.injEq, Prod.mk.injEq] at h
      obtain ⟨rfl, _⟩ := h
      exact k1.trans (KF.of_update h3 (by omega))
    · simp only [Except.ok.injEq, Prod.mk.injEq] at h
      obtain ⟨rfl, _⟩ := h
      exact k1
  · simp only [Except.ok.injEq, Prod.mk.injEq] at h
    obtain ⟨rfl, _⟩ := h
    exact KF.refl _ _ _

theorem edifactEncode_symB {syms : List SymbolInfo} {la : LookAhead} {c c' : Ctx} (hc : SymB syms c)
    (hle : c.pos ≤ c.total) (h : edifactEncode syms la c = .ok c') : SymB syms c' ∧ c.count ≤ c'.count := by
  obtain ⟨x, hx, _⟩ := edifactEncode_swap (V := c.cw) rfl h
  have hcnt : c.count ≤ c'.count := by simp [Ctx.count, hx]
  refine ⟨?_, hcnt⟩
  unfold edifactEncode at h
  obtain ⟨r, hl, h⟩ := bind_ok h
  obtain ⟨c1, buf1⟩ := r
  obtain ⟨chars, _, _, hcw1, _, hsf, _⟩ := edifactLoop_spec la c.remaining c [] c1 buf1 (by simp) hle hl
  simp only at h
  obtain ⟨y, hy, _⟩ := edifactHandleEOD_swap (V := c1.cw) rfl h
  have hc1c : c.count ≤ c1.count := by simp [Ctx.count, hcw1]
  have hc1 : SymB syms c1 := SymB.close (n := 0) hc hsf.cfg hc1c (by omega) (Or.inl hsf.sym)
  have hb1 : 1 ≤ (buf1 ++ [31]).length := by simp
  rw [edifactHandleEOD_eq] at h
  have hne0 : ¬ (buf1 ++ [31]).length = 0 := by simp
  simp only [hne0, if_false] at h
  obtain ⟨p, hp, h⟩ := bind_ok h
  obtain ⟨c2, nu⟩ := p
  obtain ⟨e2, w2, k2⟩ := ediEarly_kf hp
  simp only at h
  have close1 : ∀ (cc : Ctx) (β : Nat), KF syms β c1 cc → β ≤ c'.count + 1 → c'.cfg = cc.cfg → c'.sym = cc.sym →
      c1.count ≤ c'.count → SymB syms c' := by
    intro cc β ⟨e, w, k⟩ hβ hcf hsy hcn
    intro s hs
    rw [hsy] at hs
    rcases k with k | ⟨n, s', hn, hl', hs'⟩
    · rw [k] at hs
      obtain ⟨m, hm, hl'⟩ := hc1 s hs
      exact ⟨m, by omega, by rw [hcf, e]; exact hl'⟩
    · rw [hs'] at hs; cases hs
      exact ⟨n, by omega, by rw [hcf, e]; exact hl'⟩
  split at h
  · simp only [Except.ok.injEq] at h
    subst h
    exact close1 c2 _ ⟨e2, w2, k2⟩ (by simp [Ctx.signal, Ctx.count, w2]) rfl rfl (by simp [Ctx.signal, Ctx.count, w2])
  · split at h
    · cases h
    · obtain ⟨p2, hp2, h⟩ := bind_ok h
      obtain ⟨c3, ria⟩ := p2
      have k3 := ediStep_kf hb1 hp2
      have hcnt2 : c2.count = c1.count := by simp [Ctx.count, w2]
      have k13 : KF syms (c1.count + max 1 (edifactPack (buf1 ++ [31])).length) c1 c3 :=
        KF.trans (β := c1.count + max 1 (edifactPack (buf1 ++ [31])).length)
          ⟨e2, w2, by
            rcases k2 with k | ⟨n, s, hn, hl', hs⟩
            · exact Or.inl k
            · exact Or.inr ⟨n, s, by omega, hl', hs⟩⟩
          ⟨k3.1, k3.2.1, by
            rcases k3.2.2 with k | ⟨n, s, hn, hl', hs⟩
            · exact Or.inl k
            · exact Or.inr ⟨n, s, by rw [hcnt2] at hn; omega, hl', hs⟩⟩
      simp only at h
      split at h
      · obtain ⟨c4, h4, h⟩ := bind_ok h
        simp only [Except.ok.injEq] at h
        subst h
        obtain ⟨_, rfl⟩ := back_spec h4
        intro s hs
        cases hs
      · simp only [Except.ok.injEq] at h
        subst h
        have hpl := edifactPack_length (buf1 ++ [31]) hb1
        refine close1 c3 _ k13 ?_ rfl rfl ?_
        · simp only [Ctx.signal, Ctx.writeAll, Ctx.count, List.length_append, k13.2.1]
          simp only [List.length_append, List.length_cons, List.length_nil] at hpl
          omega
        · simp [Ctx.signal, Ctx.writeAll, Ctx.count, k13.2.1]

theorem encodeMode_symB {syms : List SymbolInfo} {la : LookAhead} {mode : Nat} {c c' : Ctx} (hc : SymB syms c)
    (hle : c.pos ≤ c.total) (h : encodeMode syms la mode c = .ok c') : SymB syms c' ∧ c.count ≤ c'.count := by
  unfold encodeMode at h
  repeat' split at h
  · exact asciiEncode_symB hc h
  · exact c40Encode_symB hc h
  · exact c40Encode_symB hc h
  · exact x12Encode_symB hc hle h
  · exact edifactEncode_symB hc hle h
  · exact b256Encode_symB hc hle h
  · cases h

end Gzx.DMHighLevel
