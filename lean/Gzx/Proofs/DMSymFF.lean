/-
  C02 / C13 / wp dmenc — the symbol the high-level encoder settles on is a FIRST FIT.
  `SymFF syms c`: the context's symbol, if any, is what `SymbolInfo_Lookup` (first admissible row, in table order,
  that holds `n` codewords) returns for some `n`.  Every operation of the six mode encoders touches the symbol only
  through `UpdateSymbolInfoByLength` (keeps it or looks up afresh) and `ResetSymbolInfo` — `SymStep` — so the
  invariant holds along the whole run of `EncodeHighLevel`, for every look-ahead oracle and every table.
  Consequence (`encodeHL_symbol`): the padded codeword stream has exactly the capacity of a first-fit symbol `s`, and
  looking its length up again (what `DataMatrixWriter.Encode` does) returns that same `s`.
-/
import Gzx.Proofs.DMTermXE
namespace Gzx.DMHighLevel

/-- the context's symbol is a first fit -/
def SymFF (syms : List SymbolInfo) (c : Ctx) : Prop := ∀ s, c.sym = some s → ∃ n, lookup syms c.cfg n = some s

/-- how one operation may change the symbol: not at all, forget it, or look it up afresh -/
def SymStep (syms : List SymbolInfo) (c c' : Ctx) : Prop :=
  c'.cfg = c.cfg ∧ (c'.sym = c.sym ∨ c'.sym = none ∨ ∃ n s, lookup syms c.cfg n = some s ∧ c'.sym = some s)

theorem SymStep.refl (syms : List SymbolInfo) (c : Ctx) : SymStep syms c c := ⟨rfl, Or.inl rfl⟩

theorem SymStep.of_eq {syms : List SymbolInfo} {c c' : Ctx} (h1 : c'.cfg = c.cfg) (h2 : c'.sym = c.sym) :
    SymStep syms c c' := ⟨h1, Or.inl h2⟩

theorem SymStep.of_none {syms : List SymbolInfo} {c c' : Ctx} (h1 : c'.cfg = c.cfg) (h2 : c'.sym = none) :
    SymStep syms c c' := ⟨h1, Or.inr (Or.inl h2)⟩

theorem SymStep.trans {syms : List SymbolInfo} {a b c : Ctx} (h1 : SymStep syms a b) (h2 : SymStep syms b c) :
    SymStep syms a c := by
  obtain ⟨e1, k1⟩ := h1
  obtain ⟨e2, k2⟩ := h2
  refine ⟨by rw [e2, e1], ?_⟩
  rcases k2 with k2 | k2 | ⟨n, s, hl, hs⟩
  · rw [k2]; exact k1
  · exact Or.inr (Or.inl k2)
  · exact Or.inr (Or.inr ⟨n, s, by rw [← e1]; exact hl, hs⟩)

theorem SymStep.ff {syms : List SymbolInfo} {c c' : Ctx} (h : SymStep syms c c') (hc : SymFF syms c) : SymFF syms c' := by
  obtain ⟨e, k⟩ := h
  intro s hs
  rcases k with k | k | ⟨n, s', hl, hs'⟩
  · rw [k] at hs; rw [e]; exact hc s hs
  · rw [k] at hs; cases hs
  · rw [hs'] at hs; cases hs; rw [e]; exact ⟨n, hl⟩

theorem update_symStep {syms : List SymbolInfo} {c c' : Ctx} {n : Nat} (h : c.update syms n = .ok c') :
    SymStep syms c c' := by
  unfold Ctx.update at h
  simp only at h
  split at h
  · split at h
    · rename_i s hl; cases h; exact ⟨rfl, Or.inr (Or.inr ⟨n, s, hl, rfl⟩)⟩
    · cases h
  · split at h
    · split at h
      · rename_i s hl; cases h; exact ⟨rfl, Or.inr (Or.inr ⟨n, s, hl, rfl⟩)⟩
      · cases h
    · cases h; exact SymStep.refl _ _

theorem c40Available_symStep {syms : List SymbolInfo} {c c2 : Ctx} {buf : List Nat} {av : Nat}
    (h : c40Available syms c buf = .ok (c2, av)) : SymStep syms c c2 := by
  unfold c40Available at h
  obtain ⟨c3, h3, h⟩ := bind_ok h
  obtain ⟨cap, _, h⟩ := bind_ok h
  simp only [Except.ok.injEq, Prod.mk.injEq] at h
  obtain ⟨rfl, _⟩ := h
  exact update_symStep h3

theorem back_symStep {syms : List SymbolInfo} {c c' : Ctx} {k : Nat} (h : c.back k = .ok c') : SymStep syms c c' := by
  obtain ⟨_, rfl⟩ := back_spec h
  exact SymStep.refl _ _

theorem backtrackOne_symStep {syms : List SymbolInfo} {text : Bool} {c c' : Ctx} {buf buf' : List Nat} {ls l' : Nat}
    (h : backtrackOne text c buf ls = .ok (c', buf', l')) : SymStep syms c c' := by
  unfold backtrackOne at h
  split at h
  · cases h
  · obtain ⟨c1, h1, h⟩ := bind_ok h
    obtain ⟨_, _, h⟩ := bind_ok h
    obtain ⟨_, rfl⟩ := back_spec h1
    simp only at h
    split at h
    · split at h
      · cases h
      · split at h
        · simp only [Except.ok.injEq, Prod.mk.injEq] at h
          obtain ⟨rfl, _⟩ := h
          exact SymStep.of_none rfl rfl
        · cases h
    · simp only [Except.ok.injEq, Prod.mk.injEq] at h
      obtain ⟨rfl, _⟩ := h
      exact SymStep.of_none rfl rfl

theorem backtrackLoop_symStep {syms : List SymbolInfo} {text : Bool} :
    ∀ (fuel : Nat) (c : Ctx) (buf : List Nat) (ls av : Nat) (c' : Ctx) (buf' : List Nat),
      backtrackLoop syms text fuel c buf ls av = .ok (c', buf') → SymStep syms c c' := by
  intro fuel
  induction fuel with
  | zero => intro c buf ls av c' buf' h; simp [backtrackLoop] at h
  | succ n ih =>
    intro c buf ls av c' buf' h
    simp only [backtrackLoop] at h
    split at h
    · obtain ⟨r1, h1, h⟩ := bind_ok h
      obtain ⟨c1, buf1, l1⟩ := r1
      obtain ⟨r2, h2, h⟩ := bind_ok h
      obtain ⟨c2, av2⟩ := r2
      exact (backtrackOne_symStep h1).trans ((c40Available_symStep h2).trans (ih _ _ _ _ _ _ h))
    · simp only [Except.ok.injEq, Prod.mk.injEq] at h
      obtain ⟨rfl, _⟩ := h
      exact SymStep.refl _ _

theorem c40Loop_symStep {syms : List SymbolInfo} {la : LookAhead} {text : Bool} :
    ∀ (fuel : Nat) (c : Ctx) (buf : List Nat) (c' : Ctx) (buf' : List Nat),
      c40Loop syms la text fuel c buf = .ok (c', buf') → SymStep syms c c' := by
  intro fuel
  induction fuel with
  | zero =>
    intro c buf c' buf' h
    simp only [c40Loop] at h
    split at h
    · cases h
    · simp only [Except.ok.injEq, Prod.mk.injEq] at h
      obtain ⟨rfl, _⟩ := h
      exact SymStep.refl _ _
  | succ n ih =>
    intro c buf c' buf' h
    simp only [c40Loop] at h
    split at h
    · simp only [Except.ok.injEq, Prod.mk.injEq] at h
      obtain ⟨rfl, _⟩ := h
      exact SymStep.refl _ _
    · obtain ⟨ch, _, h⟩ := bind_ok h
      obtain ⟨r2, h2, h⟩ := bind_ok h
      obtain ⟨c2, av⟩ := r2
      have s0 : SymStep syms c ({ c with pos := c.pos + 1 } : Ctx) := SymStep.of_eq rfl rfl
      have s2 := s0.trans (c40Available_symStep h2)
      simp only at h
      split at h
      · split at h
        · obtain ⟨r3, h3, h⟩ := bind_ok h
          obtain ⟨c3, buf3, l3⟩ := r3
          obtain ⟨r4, h4, h⟩ := bind_ok h
          obtain ⟨c4, av4⟩ := r4
          exact s2.trans ((backtrackOne_symStep h3).trans ((c40Available_symStep h4).trans (backtrackLoop_symStep _ _ _ _ _ _ _ h)))
        · exact s2.trans (backtrackLoop_symStep _ _ _ _ _ _ _ h)
      · by_cases h3 : (buf ++ cEncodeChar text ch).length % 3 = 0
        · simp only [h3, if_true] at h
          by_cases hla : la c2.msg c2.pos (if text = true then TEXT else C40) ≠ (if text = true then TEXT else C40)
          · rw [if_pos hla] at h
            simp only [Except.ok.injEq, Prod.mk.injEq] at h
            obtain ⟨rfl, _⟩ := h
            exact s2.trans (SymStep.of_eq rfl rfl)
          · rw [if_neg hla] at h
            exact s2.trans (ih _ _ _ _ h)
        · simp only [h3, if_false] at h
          exact s2.trans (ih _ _ _ _ h)

theorem c40HandleEOD_symStep {syms : List SymbolInfo} {c c' : Ctx} {buf : List Nat}
    (h : c40HandleEOD syms c buf = .ok c') : SymStep syms c c' := by
  unfold c40HandleEOD at h
  obtain ⟨r, hav, h⟩ := bind_ok h
  obtain ⟨c2, av⟩ := r
  have s2 := c40Available_symStep hav
  simp only at h
  split at h
  · simp only [Except.ok.injEq] at h
    subst h
    refine s2.trans (SymStep.of_eq ?_ ?_) <;> (split <;> rfl)
  · split at h
    · obtain ⟨c3, h3, h⟩ := bind_ok h
      simp only [Except.ok.injEq] at h
      subst h
      obtain ⟨_, rfl⟩ := back_spec h3
      refine s2.trans (SymStep.of_eq ?_ ?_) <;> (simp only [Ctx.signal]; split <;> rfl)
    · split at h
      · simp only [Except.ok.injEq] at h
        subst h
        refine s2.trans (SymStep.of_eq ?_ ?_) <;> (split <;> rfl)
      · cases h

theorem c40Encode_symStep {syms : List SymbolInfo} {la : LookAhead} {text : Bool} {c c' : Ctx}
    (h : c40Encode syms la text c = .ok c') : SymStep syms c c' := by
  unfold c40Encode at h
  obtain ⟨r, hl, h⟩ := bind_ok h
  obtain ⟨c1, buf1⟩ := r
  exact (c40Loop_symStep _ _ _ _ _ hl).trans (c40HandleEOD_symStep h)

theorem x12Encode_symStep {syms : List SymbolInfo} {la : LookAhead} {c c' : Ctx} (hle : c.pos ≤ c.total)
    (h : x12Encode syms la c = .ok c') : SymStep syms c c' := by
  unfold x12Encode at h
  obtain ⟨r, hl, h⟩ := bind_ok h
  obtain ⟨c1, buf1⟩ := r
  obtain ⟨vals, _, _, _, hsf, _⟩ := x12Loop_spec la c.remaining c [] c1 buf1 [] [] (by simp) hle rfl hl
  have s1 : SymStep syms c c1 := SymStep.of_eq hsf.cfg hsf.sym
  unfold x12HandleEOD at h
  obtain ⟨c2, h2, h⟩ := bind_ok h
  obtain ⟨cap, _, h⟩ := bind_ok h
  obtain ⟨c3, h3, h⟩ := bind_ok h
  simp only [Except.ok.injEq] at h
  subst h
  obtain ⟨_, rfl⟩ := back_spec h3
  refine s1.trans ((update_symStep h2).trans (SymStep.of_eq ?_ ?_))
  · split <;> (try simp only [Ctx.signal]) <;> split <;> rfl
  · split <;> (try simp only [Ctx.signal]) <;> split <;> rfl

theorem ediEarly_symStep {syms : List SymbolInfo} {c c2 : Ctx} {count : Nat} {b : Bool}
    (h : ediEarly syms c count = .ok (c2, b)) : SymStep syms c c2 := by
  unfold ediEarly at h
  split at h
  · obtain ⟨c1, h1, h⟩ := bind_ok h
    obtain ⟨cap, _, h⟩ := bind_ok h
    obtain ⟨rem, _, h⟩ := bind_ok h
    obtain ⟨p, hp, h⟩ := bind_ok h
    obtain ⟨c3, av⟩ := p
    simp only [Except.ok.injEq, Prod.mk.injEq] at h
    obtain ⟨rfl, _⟩ := h
    split at hp
    · obtain ⟨c4, h4, hp⟩ := bind_ok hp
      obtain ⟨cap4, _, hp⟩ := bind_ok hp
      simp only [pure, Except.pure, Except.ok.injEq, Prod.mk.injEq] at hp
      obtain ⟨rfl, _⟩ := hp
      exact (update_symStep h1).trans (update_symStep h4)
    · simp only [pure, Except.pure, Except.ok.injEq, Prod.mk.injEq] at hp
      obtain ⟨rfl, _⟩ := hp
      exact update_symStep h1
  · simp only [Except.ok.injEq, Prod.mk.injEq] at h
    obtain ⟨rfl, _⟩ := h
    exact SymStep.refl _ _

theorem ediStep_symStep {syms : List SymbolInfo} {c c2 : Ctx} {buf : List Nat} {b : Bool}
    (h : ediStep syms c buf = .ok (c2, b)) : SymStep syms c c2 := by
  unfold ediStep at h
  simp only at h
  split at h
  · obtain ⟨c1, h1, h⟩ := bind_ok h
    obtain ⟨cap, _, h⟩ := bind_ok h
    split at h
    · obtain ⟨c3, h3, h⟩ := bind_ok h
      simp only [Except.ok.injEq, Prod.mk.injEq] at h
      obtain ⟨rfl, _⟩ := h
      exact (update_symStep h1).trans (update_symStep h3)
    · simp only [Except.ok.injEq, Prod.mk.injEq] at h
      obtain ⟨rfl, _⟩ := h
      exact update_symStep h1
  · simp only [Except.ok.injEq, Prod.mk.injEq] at h
    obtain ⟨rfl, _⟩ := h
    exact SymStep.refl _ _

theorem edifactHandleEOD_symStep {syms : List SymbolInfo} {c c' : Ctx} {buf : List Nat}
    (h : edifactHandleEOD syms c buf = .ok c') : SymStep syms c c' := by
  rw [edifactHandleEOD_eq] at h
  split at h
  · simp only [Except.ok.injEq] at h
    subst h
    exact SymStep.of_eq rfl rfl
  · obtain ⟨p, hp, h⟩ := bind_ok h
    obtain ⟨c1, nu⟩ := p
    have s1 := ediEarly_symStep hp
    simp only at h
    split at h
    · simp only [Except.ok.injEq] at h
      subst h
      exact s1.trans (SymStep.of_eq rfl rfl)
    · split at h
      · cases h
      · obtain ⟨p2, hp2, h⟩ := bind_ok h
        obtain ⟨c2, ria⟩ := p2
        have s2 := s1.trans (ediStep_symStep hp2)
        simp only at h
        split at h
        · obtain ⟨c3, h3, h⟩ := bind_ok h
          simp only [Except.ok.injEq] at h
          subst h
          obtain ⟨_, rfl⟩ := back_spec h3
          exact s2.trans (SymStep.of_none rfl rfl)
        · simp only [Except.ok.injEq] at h
          subst h
          exact s2.trans (SymStep.of_eq rfl rfl)

theorem edifactEncode_symStep {syms : List SymbolInfo} {la : LookAhead} {c c' : Ctx} (hle : c.pos ≤ c.total)
    (h : edifactEncode syms la c = .ok c') : SymStep syms c c' := by
  unfold edifactEncode at h
  obtain ⟨r, hl, h⟩ := bind_ok h
  obtain ⟨c1, buf1⟩ := r
  obtain ⟨chars, _, _, _, _, hsf, _⟩ := edifactLoop_spec la c.remaining c [] c1 buf1 (by simp) hle hl
  exact (SymStep.of_eq hsf.cfg hsf.sym).trans (edifactHandleEOD_symStep h)

theorem b256Encode_symStep {syms : List SymbolInfo} {la : LookAhead} {c c' : Ctx} (hle : c.pos ≤ c.total)
    (h : b256Encode syms la c = .ok c') : SymStep syms c c' := by
  unfold b256Encode at h
  obtain ⟨r, hl, h⟩ := bind_ok h
  obtain ⟨c1, data⟩ := r
  obtain ⟨_, hsf, _⟩ := b256Loop_spec la c.remaining c [] c1 data hle hl
  obtain ⟨c2, h2, h⟩ := bind_ok h
  obtain ⟨cap, _, h⟩ := bind_ok h
  obtain ⟨hdr, _, h⟩ := bind_ok h
  simp only [Except.ok.injEq] at h
  subst h
  exact (SymStep.of_eq hsf.cfg hsf.sym).trans ((update_symStep h2).trans (SymStep.of_eq rfl rfl))

theorem asciiEncode_symStep {syms : List SymbolInfo} {la : LookAhead} {c c' : Ctx}
    (h : asciiEncode la c = .ok c') : SymStep syms c c' := by
  unfold asciiEncode at h
  simp only at h
  split at h
  · split at h
    · cases h; exact SymStep.of_eq rfl rfl
    · cases h
  · obtain ⟨ch, _, h⟩ := bind_ok h
    repeat' split at h
    all_goals first | (cases h; done) | (cases h; exact SymStep.of_eq rfl rfl)

theorem encodeMode_symStep {syms : List SymbolInfo} {la : LookAhead} {mode : Nat} {c c' : Ctx} (hle : c.pos ≤ c.total)
    (h : encodeMode syms la mode c = .ok c') : SymStep syms c c' := by
  unfold encodeMode at h
  repeat' split at h
  · exact asciiEncode_symStep h
  · exact c40Encode_symStep h
  · exact c40Encode_symStep h
  · exact x12Encode_symStep hle h
  · exact edifactEncode_symStep hle h
  · exact b256Encode_symStep hle h
  · cases h

end Gzx.DMHighLevel

namespace Gzx.DMHighLevel

theorem dispatch_symStep {syms : List SymbolInfo} {la : LookAhead} :
    ∀ (fuel mode : Nat) (c c' : Ctx) (m' : Nat), dispatch syms la fuel mode c = .ok (c', m') → SymStep syms c c' := by
  intro fuel
  induction fuel with
  | zero =>
    intro mode c c' m' h
    simp only [dispatch] at h
    split at h
    · cases h
    · simp only [Except.ok.injEq, Prod.mk.injEq] at h
      obtain ⟨rfl, _⟩ := h
      exact SymStep.refl _ _
  | succ n ih =>
    intro mode c c' m' h
    simp only [dispatch] at h
    split at h
    · simp only [Except.ok.injEq, Prod.mk.injEq] at h
      obtain ⟨rfl, _⟩ := h
      exact SymStep.refl _ _
    · rename_i hm
      simp only [Bool.not_eq_true', Bool.not_eq_false] at hm
      have hle : c.pos ≤ c.total := Nat.le_of_lt ((hasMore_iff' c).mp hm)
      obtain ⟨c1, h1, h⟩ := bind_ok h
      have s1 := encodeMode_symStep (syms := syms) hle h1
      cases hn : c1.newEnc with
      | some m =>
        rw [hn] at h
        simp only at h
        have hh := ih m ({ c1 with newEnc := none } : Ctx) c' m' h
        exact s1.trans ((SymStep.of_eq (c' := ({ c1 with newEnc := none } : Ctx)) rfl rfl).trans hh)
      | none =>
        rw [hn] at h
        simp only at h
        exact s1.trans (ih mode c1 c' m' h)

/-- looking the capacity of a first fit up again finds the same symbol: earlier admissible rows were too small for
    `n`, hence too small for the capacity -/
theorem lookup_idem {syms : List SymbolInfo} {cfg : Cfg} {n : Nat} {s : SymbolInfo}
    (h : lookup syms cfg n = some s) : lookup syms cfg s.cap = some s ∧ n ≤ s.cap ∧ s ∈ syms ∧ admissible cfg s = true := by
  unfold lookup at h ⊢
  have hs := List.find?_some h
  simp only [Bool.and_eq_true, decide_eq_true_eq] at hs
  refine ⟨?_, hs.2, List.mem_of_find?_eq_some h, hs.1⟩
  induction syms with
  | nil => cases h
  | cons a rest ih =>
    rw [List.find?_cons] at h ⊢
    cases hp : (admissible cfg a && decide (n ≤ a.cap)) with
    | true =>
      rw [hp] at h
      simp only [Option.some.injEq] at h
      subst h
      rw [Bool.and_eq_true] at hp
      simp [hp.1]
    | false =>
      rw [hp] at h
      have : (admissible cfg a && decide (s.cap ≤ a.cap)) = false := by
        cases hadm : admissible cfg a
        · rfl
        · rw [hadm, Bool.true_and, decide_eq_false_iff_not] at hp
          simp only [Bool.true_and, decide_eq_false_iff_not]
          omega
      rw [this]
      exact ih h

theorem padFrom_length : ∀ (k p : Nat), (padFrom k p).length = k := by
  intro k
  induction k with
  | zero => intro p; rfl
  | succ m ih => intro p; simp [padFrom, ih]

theorem padding_length (len cap : Nat) (h : len ≤ cap) : len + (padding len cap).length = cap := by
  unfold padding
  split
  · simp only [List.length_cons, padFrom_length]; omega
  · simp only [List.length_nil]; omega

theorem initCtx_sym (msg : List Nat) (cfg : Cfg) : (initCtx msg cfg).sym = none ∧ (initCtx msg cfg).cfg = cfg := by
  unfold initCtx
  simp only
  split
  · exact ⟨rfl, rfl⟩
  · split <;> exact ⟨rfl, rfl⟩

/-- the symbol `EncodeHighLevel` pads for: a first fit `s` (what `SymbolInfo_Lookup` returns for some codeword count
    `n`, under the same hints), the stream has exactly `s.cap` codewords, and `SymbolInfo_Lookup(len(encoded))` — the
    writer's second lookup — returns `s` again.  Every look-ahead oracle, every table, every hint configuration. -/
theorem encodeHL_symbol (syms : List SymbolInfo) (la : LookAhead) (msg : List Nat) (cfg : Cfg) (cw : List Nat)
    (h : encodeHL syms la msg cfg = .ok cw) :
    ∃ s n, lookup syms cfg n = some s ∧ cw.length = s.cap ∧ lookup syms cfg cw.length = some s ∧
      s ∈ syms ∧ admissible cfg s = true := by
  unfold encodeHL at h
  obtain ⟨r, hd, h⟩ := bind_ok h
  obtain ⟨c1, mode⟩ := r
  obtain ⟨c2, hu, h⟩ := bind_ok h
  obtain ⟨cap, hc, h⟩ := bind_ok h
  obtain ⟨hs0, hcfg0⟩ := initCtx_sym msg cfg
  have hff0 : SymFF syms (initCtx msg cfg) := by intro s hs; rw [hs0] at hs; cases hs
  have st := (dispatch_symStep _ _ _ _ _ hd).trans (update_symStep hu)
  have hff2 : SymFF syms c2 := st.ff hff0
  have hcfg2 : c2.cfg = cfg := by rw [st.1, hcfg0]
  obtain ⟨ucw, _, _, _, _, _, s, hs, hcap, _⟩ := update_spec hu
  have hcapv : cap = s.cap := by
    unfold Ctx.capacity at hc; rw [hs] at hc; cases hc; rfl
  obtain ⟨n, hn⟩ := hff2 s hs
  rw [hcfg2] at hn
  obtain ⟨hidem, _, hmem, hadm⟩ := lookup_idem hn
  have hlen : cw.length = s.cap := by
    simp only [Except.ok.injEq] at h
    subst h
    have hcnt : c2.count = c1.count := by simp [Ctx.count, ucw]
    split
    · rename_i hc3
      simp only [List.length_append, Ctx.write, Ctx.count, List.length_cons, List.length_nil, Nat.zero_add]
      have := padding_length (c2.cw.length + 1) cap (by simp only [Ctx.count] at hcnt hc3; omega)
      simp only [Ctx.count] at hcnt
      omega
    · simp only [List.length_append, Ctx.count]
      have := padding_length c2.count cap (by rw [hcnt, hcapv]; exact hcap)
      simp only [Ctx.count] at this
      omega
  exact ⟨s, n, hn, hlen, by rw [hlen]; exact hidem, hmem, hadm⟩

end Gzx.DMHighLevel
