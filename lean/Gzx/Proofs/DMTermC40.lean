/-
  C02 / wp dmenc — termination and totality of `EncodeHighLevel`, part 1: the C40 / Text encoder.
    * `Clean r`: a modelled call returns a value or a WriterException — no panic, not out of fuel.
    * `c40Encode_clean`: a whole call of the C40 / Text encoder is clean, for EVERY look-ahead oracle and table.
    * `c40Encode_frame`: what a successful call leaves unchanged, and where it ends.
    * `c40Encode_noConsume`: a successful call that consumes NOTHING has taken every character up to the end of
      the message and backtracked all of them; then the value counts of the characters are
      (1 or 4), 3, 3, …, 3, (1, 3 or 4) — `NoConsume` states this through the prefix sums modulo 3.
-/
import Gzx.Proofs.DMC40
namespace Gzx.DMHighLevel

/-- value or WriterException: no panic, not out of fuel -/
def Clean {α : Type} (r : Res α) : Prop := (∃ v, r = .ok v) ∨ r = .error .writer

theorem Clean.ok {α : Type} (v : α) : Clean (.ok v : Res α) := Or.inl ⟨v, rfl⟩
theorem Clean.writer {α : Type} : Clean (.error .writer : Res α) := Or.inr rfl

theorem Clean.error_eq {α : Type} {e : Fault} (h : Clean (.error e : Res α)) : e = .writer := by
  rcases h with ⟨v, hv⟩ | h
  · cases hv
  · cases h; rfl

theorem Clean.ne_fuel {α : Type} {r : Res α} (h : Clean r) : r ≠ .error .fuel := by
  rcases h with ⟨v, hv⟩ | h
  · rw [hv]; intro x; cases x
  · rw [h]; intro x; cases x

theorem Clean.ne_panic {α : Type} {r : Res α} (h : Clean r) (s : String) : r ≠ .error (.panic s) := by
  rcases h with ⟨v, hv⟩ | h
  · rw [hv]; intro x; cases x
  · rw [h]; intro x; cases x

theorem update_clean (syms : List SymbolInfo) (c : Ctx) (n : Nat) : Clean (c.update syms n) := by
  unfold Ctx.update
  simp only
  repeat' split
  all_goals first | exact Clean.ok _ | exact Clean.writer

theorem capacity_of_update {syms : List SymbolInfo} {c c' : Ctx} {n : Nat} (h : c.update syms n = .ok c') :
    ∃ s, c'.sym = some s ∧ c'.capacity = .ok s.cap := by
  obtain ⟨_, _, _, _, _, _, s, hs, _, _⟩ := update_spec h
  exact ⟨s, hs, by simp [Ctx.capacity, hs]⟩

theorem c40Available_clean (syms : List SymbolInfo) (c : Ctx) (buf : List Nat) : Clean (c40Available syms c buf) := by
  unfold c40Available
  simp only [bind, Except.bind]
  rcases update_clean syms c (c.count + buf.length / 3 * 2) with ⟨c2, h2⟩ | h2
  · obtain ⟨s, _, hc⟩ := capacity_of_update h2
    rw [h2]; simp only [hc]
    exact Clean.ok _
  · rw [h2]; exact Clean.writer

/-- backtrackOneCharacter succeeds whenever something is buffered -/
theorem backtrackOne_ok {text : Bool} {c0 c : Ctx} {buf : List Nat} (hB : CBuf text c0 c buf) (hne : c0.pos < c.pos) :
    ∃ r, backtrackOne text c buf (lastSz text c0 c) = .ok r := by
  have hlen : c.pos ≤ c.msg.length := by have := hB.hi; simp only [Ctx.total] at this; omega
  have hget : c.msg[c.pos - 1]? = some c.msg[c.pos - 1] := List.getElem?_eq_getElem (by omega)
  let cm : Ctx := { c with pos := c.pos - 1 }
  have hchars : charsOf c0 c = charsOf c0 cm ++ [c.msg[c.pos - 1]] := by
    have := charsOf_succ (c0 := c0) (c := cm) (ch := c.msg[c.pos - 1]) hB.msg (by simp [cm]; omega) hget c
      (by simp [cm]; omega)
    exact this
  have hls : lastSz text c0 c = (cEncodeChar text c.msg[c.pos - 1]).length := by
    simp [lastSz, hne, hget]
  have hbuf : buf = cVals text (charsOf c0 cm) ++ cEncodeChar text c.msg[c.pos - 1] := by
    rw [hB.buf, hchars, cVals_append]; simp [cVals]
  unfold backtrackOne
  have hle : ¬ lastSz text c0 c > buf.length := by rw [hls, hbuf]; simp
  simp only [hle, if_false]
  have hback : c.back 1 = .ok cm := by simp [Ctx.back, cm]; omega
  rw [hback]
  simp only [bind, Except.bind]
  have hcur : cm.cur = .ok c.msg[c.pos - 1] := by simp [Ctx.cur, cm, hget]
  rw [hcur]
  simp only
  have htake : buf.take (buf.length - lastSz text c0 c) = cVals text (charsOf c0 cm) := by
    rw [hls, hbuf]; simp
  rw [htake]
  have hcmp : cm.pos = c.pos - 1 := rfl
  split
  · rename_i hpos
    have hlt0 : c0.pos < c.pos - 1 := by
      by_cases hx : c0.pos < c.pos - 1
      · exact hx
      · exfalso
        have : charsOf c0 cm = [] := by
          unfold charsOf; rw [hcmp]
          have : c.pos - 1 - c0.pos = 0 := by omega
          rw [this]; simp
        rw [this] at hpos; simp [cVals] at hpos
    split
    · rename_i h0
      exfalso
      have : cm.pos = 0 := h0
      omega
    · have hg2 : c.msg[c.pos - 1 - 1]? = some c.msg[c.pos - 1 - 1] := List.getElem?_eq_getElem (by omega)
      show ∃ r, (match c.msg[c.pos - 1 - 1]? with
        | some p => Except.ok (_, _, (cEncodeChar text p).length)
        | none => Except.error (Fault.panic "msg[pos-1] out of range")) = Except.ok r
      rw [hg2]
      exact ⟨_, rfl⟩
  · exact ⟨_, rfl⟩

theorem ite_write_fields (p : Prop) [Decidable p] (cc : Ctx) (x : Nat) :
    (if p then cc.write x else cc).msg = cc.msg ∧ (if p then cc.write x else cc).pos = cc.pos ∧
    (if p then cc.write x else cc).skipAtEnd = cc.skipAtEnd ∧ (if p then cc.write x else cc).cfg = cc.cfg ∧
    (if p then cc.write x else cc).newEnc = cc.newEnc ∧ (if p then cc.write x else cc).sym = cc.sym := by
  split <;> simp [Ctx.write]

/-- the prefix sums of the value counts: number of C40 / Text values of the characters `c0.pos ..< q` -/
def valsUpTo (text : Bool) (c0 : Ctx) (q : Nat) : Nat :=
  (cVals text ((c0.msg.drop c0.pos).take (q - c0.pos))).length

theorem CBuf.len {text : Bool} {c0 c : Ctx} {buf : List Nat} (hB : CBuf text c0 c buf) :
    buf.length = valsUpTo text c0 c.pos := by
  rw [hB.buf]; rfl

/-- the backtracking loop is clean, and every character it removes ended a buffer of `1 (mod 3)` values -/
theorem backtrackLoop_clean {text : Bool} {syms : List SymbolInfo} {c0 : Ctx} :
    ∀ (fuel : Nat) (c : Ctx) (buf : List Nat) (av : Nat),
      CBuf text c0 c buf → buf.length < fuel →
      Clean (backtrackLoop syms text fuel c buf (lastSz text c0 c) av) := by
  intro fuel
  induction fuel with
  | zero => intro c buf av _ h; omega
  | succ n ih =>
    intro c buf av hB hf
    simp only [backtrackLoop]
    split
    · rename_i hcond
      have hne : buf ≠ [] := by intro e; rw [e] at hcond; simp at hcond
      have hlt := hB.nonempty hne
      obtain ⟨r1, h1⟩ := backtrackOne_ok hB hlt
      obtain ⟨c1, buf1, last1⟩ := r1
      rw [h1]
      simp only [bind, Except.bind]
      obtain ⟨hB1, hp1, hn1, hl1, hm1, hlen1⟩ := backtrackOne_spec hB hlt h1
      rcases c40Available_clean syms c1 buf1 with ⟨r2, h2⟩ | h2
      · obtain ⟨c2, av2⟩ := r2
        rw [h2]
        simp only
        obtain ⟨a1, a2, a3, a4, a5, a6, s, hs, _, _, hidem⟩ := c40Available_spec h2
        have hB2 := hB1.avail h2
        have hl2 : last1 = lastSz text c0 c2 := by rw [hl1, lastSz_congr text c0 c1 c2 a2 a3]
        rw [hl2]
        exact ih c2 buf1 av2 hB2 (by omega)
      · rw [h2]; exact Clean.writer
    · exact Clean.ok _

theorem backtrackLoop_removed {text : Bool} {syms : List SymbolInfo} {c0 : Ctx} :
    ∀ (fuel : Nat) (c : Ctx) (buf : List Nat) (av : Nat) (c' : Ctx) (buf' : List Nat),
      CBuf text c0 c buf →
      backtrackLoop syms text fuel c buf (lastSz text c0 c) av = .ok (c', buf') →
      c'.pos ≤ c.pos ∧ ∀ q, c'.pos < q → q ≤ c.pos → valsUpTo text c0 q % 3 = 1 := by
  intro fuel
  induction fuel with
  | zero => intro c buf av c' buf' _ h; simp [backtrackLoop] at h
  | succ n ih =>
    intro c buf av c' buf' hB h
    simp only [backtrackLoop] at h
    split at h
    · rename_i hcond
      have hne : buf ≠ [] := by intro e; rw [e] at hcond; simp at hcond
      have hlt := hB.nonempty hne
      cases h1 : backtrackOne text c buf (lastSz text c0 c) with
      | error e => rw [h1] at h; simp [bind, Except.bind] at h
      | ok r1 =>
        obtain ⟨c1, buf1, last1⟩ := r1
        rw [h1] at h
        simp only [bind, Except.bind] at h
        obtain ⟨hB1, hp1, hn1, hl1, hm1, _⟩ := backtrackOne_spec hB hlt h1
        cases h2 : c40Available syms c1 buf1 with
        | error e => rw [h2] at h; simp at h
        | ok r2 =>
          obtain ⟨c2, av2⟩ := r2
          rw [h2] at h
          simp only at h
          obtain ⟨a1, a2, a3, a4, a5, a6, s, hs, _, _, hidem⟩ := c40Available_spec h2
          have hB2 := hB1.avail h2
          have hl2 : last1 = lastSz text c0 c2 := by rw [hl1, lastSz_congr text c0 c1 c2 a2 a3]
          rw [hl2] at h
          obtain ⟨hle, hall⟩ := ih c2 buf1 av2 c' buf' hB2 h
          refine ⟨by omega, ?_⟩
          intro q hq1 hq2
          by_cases hq : q ≤ c2.pos
          · exact hall q hq1 hq
          · have : q = c.pos := by omega
            rw [this, ← hB.len]; exact hcond.1
    · cases h
      exact ⟨Nat.le_refl _, fun q h1 h2 => by omega⟩

/-- the main loop is clean -/
theorem c40Loop_clean {text : Bool} {syms : List SymbolInfo} {la : LookAhead} {c0 : Ctx} :
    ∀ (fuel : Nat) (c : Ctx) (buf : List Nat),
      CBuf text c0 c buf → c.remaining ≤ fuel → Clean (c40Loop syms la text fuel c buf) := by
  intro fuel
  induction fuel with
  | zero =>
    intro c buf _ hr
    simp only [c40Loop]
    have : c.hasMore = false := by
      simp only [Ctx.remaining] at hr
      rw [hasMore_false_iff']; omega
    simp only [this, Bool.false_eq_true, if_false]
    exact Clean.ok _
  | succ n ih =>
    intro c buf hB hr
    simp only [c40Loop]
    by_cases hm : c.hasMore = true
    · simp only [hm, Bool.not_true, Bool.false_eq_true, if_false]
      obtain ⟨ch, hc, hget⟩ := hasMore_cur' hm
      rw [hc]
      simp only [bind, Except.bind]
      have hlt : c.pos < c.total := (hasMore_iff' c).mp hm
      have hB' : CBuf text c0 ({ c with pos := c.pos + 1 } : Ctx) (buf ++ cEncodeChar text ch) := by
        refine ⟨hB.cw, hB.msg, hB.cfg, hB.skip, by have := hB.lo; simp only; omega, ?_, ?_⟩
        · simp only [Ctx.total] at hlt ⊢; omega
        · rw [charsOf_succ hB.msg hB.lo hget _ rfl, cVals_append, ← hB.buf]; simp [cVals]
      rcases c40Available_clean syms ({ c with pos := c.pos + 1 } : Ctx) (buf ++ cEncodeChar text ch) with ⟨r2, h2⟩ | h2
      · obtain ⟨c2, av⟩ := r2
        rw [h2]
        simp only
        obtain ⟨a1, a2, a3, a4, a5, a6, s, hs, _, _, hidem⟩ := c40Available_spec h2
        have hB2 := hB'.avail h2
        have hls : (cEncodeChar text ch).length = lastSz text c0 c2 := by
          have h1 : c0.pos < c2.pos := by rw [a3]; have := hB.lo; simp only; omega
          have h2' : c2.msg[c2.pos - 1]? = some ch := by
            rw [a2, a3]; simp only; rw [Nat.add_sub_cancel]; exact hget
          simp [lastSz, h1, h2']
        have hne : buf ++ cEncodeChar text ch ≠ [] := by
          have := cEncodeChar_pos text ch
          intro e; have := congrArg List.length e
          simp only [List.length_append, List.length_nil] at this; omega
        split
        · split
          · rw [hls]
            obtain ⟨r3, h3⟩ := backtrackOne_ok hB2 (hB2.nonempty hne)
            obtain ⟨c3, buf3, last3⟩ := r3
            rw [h3]
            simp only [bind, Except.bind]
            obtain ⟨hB3, hp3, hn3, hl3, hm3, _⟩ := backtrackOne_spec hB2 (hB2.nonempty hne) h3
            rcases c40Available_clean syms c3 buf3 with ⟨r4, h4⟩ | h4
            · obtain ⟨c4, av4⟩ := r4
              rw [h4]
              simp only
              obtain ⟨b1, b2, b3, b4, b5, b6, _, _, _, _, hidem4⟩ := c40Available_spec h4
              have hB4 := hB3.avail h4
              have hl4 : last3 = lastSz text c0 c4 := by rw [hl3, lastSz_congr text c0 c3 c4 b2 b3]
              rw [hl4]
              exact backtrackLoop_clean _ c4 buf3 av4 hB4 (by omega)
            · rw [h4]; exact Clean.writer
          · rw [hls]
            exact backtrackLoop_clean _ c2 _ av hB2 (by omega)
        · rename_i hnm
          have hm2 : c2.hasMore = true := by simpa using hnm
          have hr2 : c2.remaining ≤ n := by
            simp only [Ctx.remaining, Ctx.total, a2, a3, a5] at hr ⊢
            simp only [Ctx.total] at hlt
            omega
          by_cases h3 : (buf ++ cEncodeChar text ch).length % 3 = 0
          · simp only [h3, if_true]
            by_cases hla : la c2.msg c2.pos (if text = true then TEXT else C40) ≠ (if text = true then TEXT else C40)
            · rw [if_pos hla]; exact Clean.ok _
            · rw [if_neg hla]; exact ih c2 _ hB2 hr2
          · simp only [h3, if_false]
            exact ih c2 _ hB2 hr2
      · rw [h2]; exact Clean.writer
    · simp only [Bool.not_eq_true] at hm
      simp only [hm, Bool.not_false, if_true]
      exact Clean.ok _

/-- where the main loop ends: the look-ahead exit has consumed something; the end-of-message exit has removed
    only characters that ended a buffer of `1 (mod 3)` values, except that the very last character may have ended
    one of `2 (mod 3)` values -/
theorem c40Loop_removed {text : Bool} {syms : List SymbolInfo} {la : LookAhead} {c0 : Ctx} :
    ∀ (fuel : Nat) (c : Ctx) (buf : List Nat) (c1 : Ctx) (buf1 : List Nat),
      CBuf text c0 c buf → c.hasMore = true → c.newEnc = none →
      c40Loop syms la text fuel c buf = .ok (c1, buf1) →
      (c1.newEnc = some ASCII → buf1 ≠ []) ∧
      (c1.newEnc = none → (∀ q, c1.pos < q → q < c0.total → valsUpTo text c0 q % 3 = 1) ∧
        (c1.pos < c0.total → valsUpTo text c0 c0.total % 3 ≠ 0)) := by
  intro fuel
  induction fuel with
  | zero => intro c buf c1 buf1 _ hm _ h; simp [c40Loop, hm] at h
  | succ n ih =>
    intro c buf c1 buf1 hB hm hnew h
    simp only [c40Loop, hm, Bool.not_true, Bool.false_eq_true, if_false] at h
    obtain ⟨ch, hc, hget⟩ := hasMore_cur' hm
    rw [hc] at h
    simp only [bind, Except.bind] at h
    have hlt : c.pos < c.total := (hasMore_iff' c).mp hm
    have htot : c.total = c0.total := by simp [Ctx.total, hB.msg, hB.skip]
    have hB' : CBuf text c0 ({ c with pos := c.pos + 1 } : Ctx) (buf ++ cEncodeChar text ch) := by
      refine ⟨hB.cw, hB.msg, hB.cfg, hB.skip, by have := hB.lo; simp only; omega, ?_, ?_⟩
      · simp only [Ctx.total] at hlt ⊢; omega
      · rw [charsOf_succ hB.msg hB.lo hget _ rfl, cVals_append, ← hB.buf]; simp [cVals]
    cases h2 : c40Available syms ({ c with pos := c.pos + 1 } : Ctx) (buf ++ cEncodeChar text ch) with
    | error e => rw [h2] at h; simp at h
    | ok r2 =>
      obtain ⟨c2, av⟩ := r2
      rw [h2] at h
      simp only at h
      obtain ⟨a1, a2, a3, a4, a5, a6, s, hs, _, _, hidem⟩ := c40Available_spec h2
      have hB2 := hB'.avail h2
      have hn2 : c2.newEnc = none := by rw [a6]; exact hnew
      have hls : (cEncodeChar text ch).length = lastSz text c0 c2 := by
        have h1 : c0.pos < c2.pos := by rw [a3]; have := hB.lo; simp only; omega
        have h2' : c2.msg[c2.pos - 1]? = some ch := by
          rw [a2, a3]; simp only; rw [Nat.add_sub_cancel]; exact hget
        simp [lastSz, h1, h2']
      have hne : buf ++ cEncodeChar text ch ≠ [] := by
        have := cEncodeChar_pos text ch
        intro e; have := congrArg List.length e
        simp only [List.length_append, List.length_nil] at this; omega
      have htot2 : c2.total = c0.total := by simp [Ctx.total, hB2.msg, hB2.skip]
      split at h
      · -- the last character has been consumed: c2.pos = total
        rename_i hnm
        simp only [Bool.not_eq_true'] at hnm
        have hend : c2.pos = c0.total := by
          have h1 := (hasMore_false_iff' c2).mp hnm
          have h2 := hB2.hi
          omega
        split at h
        · rename_i hc2
          rw [hls] at h
          cases h3 : backtrackOne text c2 (buf ++ cEncodeChar text ch) (lastSz text c0 c2) with
          | error e => rw [h3] at h; simp [bind, Except.bind] at h
          | ok r3 =>
            obtain ⟨c3, buf3, last3⟩ := r3
            rw [h3] at h
            simp only [bind, Except.bind] at h
            obtain ⟨hB3, hp3, hn3, hl3, hm3, _⟩ := backtrackOne_spec hB2 (hB2.nonempty hne) h3
            cases h4 : c40Available syms c3 buf3 with
            | error e => rw [h4] at h; simp at h
            | ok r4 =>
              obtain ⟨c4, av4⟩ := r4
              rw [h4] at h
              simp only at h
              obtain ⟨b1, b2, b3, b4, b5, b6, _, _, _, _, hidem4⟩ := c40Available_spec h4
              have hB4 := hB3.avail h4
              have hl4 : last3 = lastSz text c0 c4 := by rw [hl3, lastSz_congr text c0 c3 c4 b2 b3]
              rw [hl4] at h
              obtain ⟨hle, hall⟩ := backtrackLoop_removed _ c4 buf3 av4 c1 buf1 hB4 h
              obtain ⟨_, hnf, _⟩ := backtrackLoop_spec _ c4 buf3 av4 c1 buf1 hB4 hidem4 h
              have hn1 : c1.newEnc = none := by rw [hnf, b6, hn3, hn2]
              refine ⟨fun hx => (by rw [hn1] at hx; cases hx), fun _ => ⟨?_, ?_⟩⟩
              · intro q hq1 hq2
                exact hall q hq1 (by omega)
              · intro _
                rw [← hend, ← hB2.len]; omega
        · rename_i hc2
          rw [hls] at h
          obtain ⟨hle, hall⟩ := backtrackLoop_removed _ c2 _ av c1 buf1 hB2 h
          obtain ⟨_, hnf, _⟩ := backtrackLoop_spec _ c2 _ av c1 buf1 hB2 hidem h
          have hn1 : c1.newEnc = none := by rw [hnf, hn2]
          refine ⟨fun hx => (by rw [hn1] at hx; cases hx), fun _ => ⟨?_, ?_⟩⟩
          · intro q hq1 hq2
            exact hall q hq1 (by omega)
          · intro hlt1
            have := hall c0.total hlt1 (by omega)
            omega
      · rename_i hnm
        have hm2 : c2.hasMore = true := by simpa using hnm
        by_cases h3 : (buf ++ cEncodeChar text ch).length % 3 = 0
        · simp only [h3, if_true] at h
          by_cases hla : la c2.msg c2.pos (if text = true then TEXT else C40) ≠ (if text = true then TEXT else C40)
          · rw [if_pos hla] at h
            simp only [Except.ok.injEq, Prod.mk.injEq] at h
            obtain ⟨rfl, rfl⟩ := h
            refine ⟨fun _ => hne, fun hx => ?_⟩
            simp [Ctx.signal] at hx
          · rw [if_neg hla] at h
            exact ih c2 _ c1 buf1 hB2 hm2 hn2 h
        · simp only [h3, if_false] at h
          exact ih c2 _ c1 buf1 hB2 hm2 hn2 h

/-- c40HandleEOD is clean on a loop result, ends at the loop's position or one character before it (only when
    one value is left over), and signals ASCII -/
theorem c40HandleEOD_clean {text : Bool} {syms : List SymbolInfo} {c0 c : Ctx} {buf : List Nat}
    (hB : CBuf text c0 c buf) :
    Clean (c40HandleEOD syms c buf) ∧
    ∀ c', c40HandleEOD syms c buf = .ok c' →
      c'.msg = c0.msg ∧ c'.skipAtEnd = c0.skipAtEnd ∧ c'.cfg = c0.cfg ∧ c'.newEnc = some ASCII ∧
      (c'.pos = c.pos ∨ (c'.pos + 1 = c.pos ∧ buf.length % 3 = 1)) := by
  unfold c40HandleEOD
  simp only [bind, Except.bind]
  rcases c40Available_clean syms c buf with ⟨r, hav⟩ | hav
  · obtain ⟨c2, av⟩ := r
    rw [hav]
    simp only
    obtain ⟨a1, a2, a3, a4, a5, a6, _⟩ := c40Available_spec hav
    have hmsg : c2.msg = c0.msg := by rw [a2, hB.msg]
    have hskip : c2.skipAtEnd = c0.skipAtEnd := by rw [a5, hB.skip]
    have hcfg : c2.cfg = c0.cfg := by rw [a4, hB.cfg]
    split
    · refine ⟨Clean.ok _, ?_⟩
      intro c' h
      simp only [Except.ok.injEq] at h
      subst h
      split <;> exact ⟨hmsg, hskip, hcfg, rfl, Or.inl a3⟩
    · split
      · rename_i hcond
        have hne : buf ≠ [] := by intro e; rw [e] at hcond; simp at hcond
        have hlt := hB.nonempty hne
        have hb : ∀ cc : Ctx, cc.pos = c.pos → cc.back 1 = .ok { cc with pos := cc.pos - 1 } := by
          intro cc e; simp [Ctx.back]; omega
        obtain ⟨f1, f2, f3, f4, f5, f6⟩ := ite_write_fields ((c2.writeAll (writeTriplets buf).fst).hasMore = true)
          (c2.writeAll (writeTriplets buf).fst) 254
        rw [hb _ (by rw [f2]; exact a3)]
        refine ⟨Clean.ok _, ?_⟩
        intro c' h
        simp only [Except.ok.injEq] at h
        subst h
        refine ⟨by show Ctx.msg (ite _ _ _) = _; rw [f1]; exact hmsg, by show Ctx.skipAtEnd (ite _ _ _) = _; rw [f3]; exact hskip,
          by show Ctx.cfg (ite _ _ _) = _; rw [f4]; exact hcfg, rfl, Or.inr ⟨?_, hcond.2⟩⟩
        show Ctx.pos (ite _ _ _) - 1 + 1 = c.pos
        rw [f2]
        have : (c2.writeAll (writeTriplets buf).fst).pos = c.pos := a3
        omega
      · split
        · refine ⟨Clean.ok _, ?_⟩
          intro c' h
          simp only [Except.ok.injEq] at h
          subst h
          split <;> exact ⟨hmsg, hskip, hcfg, rfl, Or.inl a3⟩
        · exact ⟨Clean.writer, fun c' h => by cases h⟩
  · rw [hav]
    exact ⟨Clean.writer, fun c' h => by cases h⟩

/-- the characters `c.pos ..< c.total` all went through the C40 / Text encoder and were all backtracked: every
    proper prefix of at least one character has `1 (mod 3)` values, and the whole has not `0 (mod 3)` -/
def NoConsume (text : Bool) (c : Ctx) : Prop :=
  (∀ q, c.pos < q → q < c.total → valsUpTo text c q % 3 = 1) ∧
  (c.pos + 1 < c.total → valsUpTo text c c.total % 3 ≠ 0)

/-- a whole call of the C40 / Text encoder: clean; on success the frame is kept, the position does not move
    backwards, ASCII is signalled; if the position has not advanced, `NoConsume` holds -/
theorem c40Encode_total {text : Bool} {syms : List SymbolInfo} {la : LookAhead} {c : Ctx}
    (hle : c.pos ≤ c.total) (hm : c.hasMore = true) (hnew : c.newEnc = none) :
    Clean (c40Encode syms la text c) ∧
    ∀ c', c40Encode syms la text c = .ok c' →
      c'.msg = c.msg ∧ c'.skipAtEnd = c.skipAtEnd ∧ c'.cfg = c.cfg ∧ c'.newEnc = some ASCII ∧
      c.pos ≤ c'.pos ∧ c'.pos ≤ c'.total ∧ (c'.pos = c.pos → NoConsume text c) := by
  have hB0 : CBuf text c c [] := ⟨rfl, rfl, rfl, rfl, Nat.le_refl _, hle, by simp [charsOf, cVals]⟩
  unfold c40Encode
  simp only [bind, Except.bind]
  rcases c40Loop_clean (syms := syms) (la := la) c.remaining c [] hB0 (Nat.le_refl _) with ⟨r, hl⟩ | hl
  · obtain ⟨c1, buf1⟩ := r
    rw [hl]
    simp only
    obtain ⟨hB1, hexit⟩ := c40Loop_spec c.remaining c [] c1 buf1 hB0 hm hnew hl
    obtain ⟨hrA, hrB⟩ := c40Loop_removed c.remaining c [] c1 buf1 hB0 hm hnew hl
    obtain ⟨hcl, hpost⟩ := c40HandleEOD_clean (syms := syms) hB1
    refine ⟨hcl, ?_⟩
    intro c' h
    obtain ⟨p1, p2, p3, p4, p5⟩ := hpost c' h
    have htot : c'.total = c.total := by simp [Ctx.total, p1, p2]
    have hlen1 := hB1.len
    have hlo := hB1.lo
    have hhi := hB1.hi
    have htot1 : c1.total = c.total := by simp [Ctx.total, hB1.msg, hB1.skip]
    have hv0 : valsUpTo text c c.pos = 0 := by simp [valsUpTo, cVals]
    have hposge : c.pos ≤ c'.pos := by
      rcases p5 with e | ⟨e, hr⟩
      · omega
      · have : buf1 ≠ [] := by intro e; rw [e] at hr; simp at hr
        have := hB1.nonempty this
        omega
    refine ⟨p1, p2, p3, p4, hposge, by rw [htot]; rcases p5 with e | ⟨e, _⟩ <;> omega, ?_⟩
    intro hsame
    rcases hexit with ⟨hn1, h3, hm1⟩ | ⟨hn1, _⟩
    · -- look-ahead exit: something was consumed and complete triplets are written
      exfalso
      have hne := hrA hn1
      have := hB1.nonempty hne
      rcases p5 with e | ⟨e, hr⟩ <;> omega
    · obtain ⟨hall, hlast⟩ := hrB hn1
      constructor
      · intro q hq1 hq2
        by_cases hq : c1.pos < q
        · exact hall q hq hq2
        · -- q = c.pos + 1 = c1.pos and one value is left over
          rcases p5 with e | ⟨e, hr⟩
          · omega
          · have : q = c1.pos := by omega
            rw [this, ← hlen1]; exact hr
      · intro h2
        apply hlast
        rcases p5 with e | ⟨e, _⟩ <;> omega
  · rw [hl]
    exact ⟨Clean.writer, fun c' h => by cases h⟩

end Gzx.DMHighLevel
