/-
  C02 / wp dmenc — termination and totality of `EncodeHighLevel`, part 4: the dispatch loop.
    * for every look-ahead that is exact arithmetic up to float rounding (`LaFloatLike`): the mode it proposes from
      ASCII encodation is one whose encoder, called at that position, consumes at least one character or fails
      with a WriterException (`la_consumes_*`);
    * progress measure of the dispatch loop: `2 · remaining + [mode = ASCII]` decreases with every iteration —
      an ASCII data step consumes a character, a latch leaves ASCII, every other encoder call consumes and
      returns to ASCII;
    * `encodeHL_total`: `encodeHL` returns codewords or a WriterException — never out of fuel, never a panic.
-/
import Gzx.Proofs.DMTermLA
import Gzx.Proofs.DMTermXE
import Gzx.Proofs.DMTotalAB
namespace Gzx.DMHighLevel

/-! ## short tails: X12 and EDIFACT -/

theorem shortTail_checked : ∀ k1 ∈ allClasses, ∀ k2 ∈ allClasses,
    axOK [k1, k2] 0 (startCounts ASCII) = true ∧ axOK [k1, k2, otherClass, otherClass] 0 (startCounts ASCII) = true ∧
    aeOK [k1, k2] 0 (startCounts ASCII) = true ∧ aeOK [k1, k2, otherClass, otherClass] 0 (startCounts ASCII) = true := by
  decide +kernel

/-- the mode `laExactR` answers is ASCII or what its counting loop answers -/
theorem laExactR_cases (ρ : Bump) (msg : List Nat) (p mode : Nat) (hp : p < msg.length) :
    laExactR ρ msg p mode = ASCII ∨
    laExactR ρ msg p mode = laLoopR ρ ((msg.drop p).map classOf) 0 (startCounts mode) := by
  unfold laExactR laClsR
  have hnot : ¬ p ≥ (msg.map classOf).length := by simp; omega
  simp only [hnot, if_false]
  rw [← List.map_drop]
  split
  · left; rfl
  · split
    · left; rfl
    · right; rfl

theorem drop_split {msg : List Nat} {p tot : Nat} (h1 : p ≤ tot) (_h2 : tot ≤ msg.length) :
    msg.drop p = (msg.drop p).take (tot - p) ++ msg.drop tot := by
  have := (List.take_append_drop (tot - p) (msg.drop p)).symm
  rw [List.drop_drop] at this
  rw [show p + (tot - p) = tot by omega] at this
  exact this

theorem totOK_le {msg : List Nat} {tot : Nat} (h : TotOK msg tot) : tot ≤ msg.length := by
  rcases h with h | ⟨h, _⟩ <;> omega

theorem isTrailer_of {msg : List Nat} {tot : Nat} (h : TotOK msg tot) : IsTrailer (msg.drop tot) := tail_cases h

/-- with exactly two characters left, X12 and EDIFACT are not proposed from ASCII -/
theorem laExactR_two_left (ρ : Bump) (msg : List Nat) (tot : Nat) (h : TotOK msg tot) (p : Nat) (hp : p + 2 = tot) :
    laExactR ρ msg p ASCII ≠ X12 ∧ laExactR ρ msg p ASCII ≠ EDIFACT := by
  have hlen := totOK_le h
  have h0 : p < msg.length := by omega
  have h1 : p + 1 < msg.length := by omega
  have hd : msg.drop p = msg[p] :: msg[p + 1] :: msg.drop tot := by
    rw [drop_succ_of_lt h0, drop_succ_of_lt h1, show p + 1 + 1 = tot by omega]
  obtain ⟨q1, q2, q3, q4⟩ := shortTail_checked (classOf msg[p]) (classOf_mem _) (classOf msg[p + 1]) (classOf_mem _)
  have key : laLoopR ρ ((msg.drop p).map classOf) 0 (startCounts ASCII) ≠ X12 ∧
      laLoopR ρ ((msg.drop p).map classOf) 0 (startCounts ASCII) ≠ EDIFACT := by
    rw [hd]
    simp only [List.map_cons]
    rcases tail_cases h with ht | ht
    · rw [ht]
      exact ⟨laLoopR_ne_x12 ρ _ _ _ q1, laLoopR_ne_edi ρ _ _ _ q3⟩
    · rw [ht]
      simp only [List.map_cons, List.map_nil, classOf_30, classOf_4]
      exact ⟨laLoopR_ne_x12 ρ _ _ _ q2, laLoopR_ne_edi ρ _ _ _ q4⟩
  rcases laExactR_cases ρ msg p ASCII h0 with e | e
  · rw [e]; exact ⟨by decide, by decide⟩
  · rw [e]; exact key

/-! ## backtracked runs: C40 and Text -/

theorem laExactR_noConsume (ρ : Bump) (text : Bool) (c : Ctx) (hb : ∀ x ∈ c.msg, x < 256) (h : TotOK c.msg c.total)
    (hlt : c.pos + 1 < c.total) (hN : NoConsume text c) :
    laExactR ρ c.msg c.pos ASCII ≠ (if text then TEXT else C40) := by
  have hlen := totOK_le h
  have h0 : c.pos < c.msg.length := by omega
  obtain ⟨hmid, hend⟩ := hN
  -- the run
  obtain ⟨l, hl⟩ : ∃ l, l = (c.msg.drop c.pos).take (c.total - c.pos) := ⟨_, rfl⟩
  have hll : l.length = c.total - c.pos := by rw [hl, List.length_take, List.length_drop]; omega
  have hsplit : c.msg.drop c.pos = l ++ c.msg.drop c.total := by rw [hl]; exact drop_split (by omega) hlen
  have hlb : ∀ x ∈ l, x < 256 := by
    intro x hx; rw [hl] at hx
    exact hb x (List.mem_of_mem_drop (List.mem_of_mem_take hx))
  have hv : ∀ q, q ≤ c.total → valsUpTo text c q = (cVals text (l.take (q - c.pos))).length := by
    intro q hq
    unfold valsUpTo
    rw [hl, List.take_take, Nat.min_eq_left (by omega)]
  match l, hll, hsplit, hlb, hv with
  | [], hll, _, _, _ => simp at hll; omega
  | [_], hll, _, _, _ => simp at hll; omega
  | f :: g :: r, hll, hsplit, hlb, hv =>
    simp only [List.length_cons] at hll
    have hf1 : (cEncodeChar text f).length % 3 = 1 := by
      have := hmid (c.pos + 1) (by omega) (by omega)
      rw [hv _ (by omega), show c.pos + 1 - c.pos = 1 by omega] at this
      simpa [cVals] using this
    have hgood : goodCh text f = true := (sizeOK_all text f (hlb f (by simp))).1 (by omega)
    have hpat : tailPat text (g :: r) = true := by
      apply tailPat_of_sums text (g :: r) (cEncodeChar text f).length (fun x hx => hlb x (by simp [hx])) hf1 (by simp)
      · intro i hi1 hi2
        simp only [List.length_cons] at hi2
        have := hmid (c.pos + 1 + i) (by omega) (by omega)
        rw [hv _ (by omega), show c.pos + 1 + i - c.pos = i + 1 by omega] at this
        simpa [cVals] using this
      · have := hend hlt
        rw [hv _ (Nat.le_refl _), List.take_of_length_le (by simp only [List.length_cons]; omega)] at this
        simpa [cVals] using this
    have htl := isTrailer_of h
    rcases laExactR_cases ρ c.msg c.pos ASCII h0 with e | e
    · rw [e]; cases text <;> decide
    · rw [e, hsplit]
      cases text
      · simpa using laLoopR_run_c40 ρ f (g :: r) _ hgood hpat htl
      · simpa using laLoopR_run_text ρ f (g :: r) _ hgood hpat htl

/-! ## the mode a float-like look-ahead proposes from ASCII makes progress -/

/-- C40 / Text: a successful call at a position where the look-ahead proposed this mode has consumed something -/
theorem la_consumes_c40 {la : LookAhead} (hla : LaFloatLike la) {text : Bool} {c : Ctx}
    (hb : ∀ x ∈ c.msg, x < 256) (h : TotOK c.msg c.total) (hm : c.hasMore = true)
    (hmode : la c.msg c.pos ASCII = (if text then TEXT else C40)) : ¬ NoConsume text c := by
  intro hN
  obtain ⟨ρ, hρ⟩ := hla c.msg c.pos ASCII
  have hlt := (hasMore_iff' c).mp hm
  by_cases h1 : c.pos + 1 = c.total
  · have := laExactR_tail_ascii ρ c.msg c.total h c.pos h1
    rw [hρ, this] at hmode
    cases text <;> cases hmode
  · exact laExactR_noConsume ρ text c hb h (by omega) hN (by rw [← hρ]; exact hmode)

/-- X12 / EDIFACT: at a position where the look-ahead proposed this mode at least three characters are left -/
theorem la_consumes_x12_edi {la : LookAhead} (hla : LaFloatLike la) {c : Ctx}
    (h : TotOK c.msg c.total) (hm : c.hasMore = true)
    (hmode : la c.msg c.pos ASCII = X12 ∨ la c.msg c.pos ASCII = EDIFACT) : ¬ c.remaining ≤ 2 := by
  intro hr
  obtain ⟨ρ, hρ⟩ := hla c.msg c.pos ASCII
  have hlt := (hasMore_iff' c).mp hm
  simp only [Ctx.remaining] at hr
  by_cases h1 : c.pos + 1 = c.total
  · have := laExactR_tail_ascii ρ c.msg c.total h c.pos h1
    rw [hρ, this] at hmode
    rcases hmode with e | e <;> cases e
  · obtain ⟨n1, n2⟩ := laExactR_two_left ρ c.msg c.total h c.pos (by omega)
    rw [hρ] at hmode
    rcases hmode with e | e
    · exact n1 e
    · exact n2 e

/-! ## the ASCII encoder -/

/-- one step of the ASCII encoder, any look-ahead: clean; a data step advances, a latch stays and names the mode
    the look-ahead proposed -/
theorem ascii_total_gen {la : LookAhead} {c : Ctx} (h : c.hasMore = true) :
    Clean (asciiEncode la c) ∧
    ∀ c', asciiEncode la c = .ok c' → c'.msg = c.msg ∧ c'.skipAtEnd = c.skipAtEnd ∧
      ((c'.newEnc = c.newEnc ∧ c.pos < c'.pos) ∨
       (c'.pos = c.pos ∧ ∃ m, c'.newEnc = some m ∧ la c.msg c.pos ASCII = m ∧
          (m = BASE256 ∨ m = C40 ∨ m = X12 ∨ m = TEXT ∨ m = EDIFACT))) := by
  obtain ⟨ch, hc, hget⟩ := hasMore_cur' h
  unfold asciiEncode
  simp only
  split
  · rename_i hn
    obtain ⟨d1, d2, r, hl, _, _⟩ := digitRun_two hn
    obtain ⟨g1, _, dr1, _⟩ := drop_cons_facts hl
    obtain ⟨g2, _, _, _⟩ := drop_cons_facts dr1
    rw [g1, g2]
    refine ⟨Clean.ok _, ?_⟩
    intro c' h'
    simp only [Except.ok.injEq] at h'
    subst h'
    exact ⟨rfl, rfl, Or.inl ⟨rfl, by simp [Ctx.write]⟩⟩
  · rw [hc]
    simp only [bind, Except.bind]
    split
    · repeat' split
      all_goals first
        | exact ⟨Clean.writer, fun c' h' => by cases h'⟩
        | (refine ⟨Clean.ok _, ?_⟩
           intro c' h'
           simp only [Except.ok.injEq] at h'
           subst h'
           refine ⟨rfl, rfl, Or.inr ⟨rfl, _, rfl, ?_, ?_⟩⟩
           · assumption
           · simp_all)
    · split
      all_goals
        (refine ⟨Clean.ok _, ?_⟩
         intro c' h'
         simp only [Except.ok.injEq] at h'
         subst h'
         exact ⟨rfl, rfl, Or.inl ⟨rfl, by simp [Ctx.write]⟩⟩)

/-! ## the dispatch loop -/

theorem dispatch_total {syms : List SymbolInfo} {la : LookAhead} (hla : LaFloatLike la) :
    ∀ (fuel mode : Nat) (c : Ctx), (∀ x ∈ c.msg, x < 256) → TotOK c.msg c.total → c.newEnc = none →
      c.pos ≤ c.total →
      (mode = ASCII ∨ mode = BASE256 ∨
        (la c.msg c.pos ASCII = mode ∧ (mode = C40 ∨ mode = TEXT ∨ mode = X12 ∨ mode = EDIFACT))) →
      2 * c.remaining + (if mode = ASCII then 1 else 0) < fuel →
      Clean (dispatch syms la fuel mode c) := by
  intro fuel
  induction fuel with
  | zero => intro mode c _ _ _ _ _ h; omega
  | succ n ih =>
    intro mode c hb htot hnew hle hmode hfuel
    simp only [dispatch]
    by_cases hm : c.hasMore = true
    · simp only [hm, Bool.not_true, Bool.false_eq_true, if_false]
      have hr : 0 < c.remaining := by
        have hm2 := (hasMore_iff' c).mp hm
        simp only [Ctx.remaining]; omega
      -- one more round after an encoder call that returned to ASCII having consumed something
      have finish : ∀ c1 : Ctx, c1.msg = c.msg → c1.skipAtEnd = c.skipAtEnd → c1.newEnc = some ASCII →
          c.pos < c1.pos → c1.pos ≤ c1.total → ¬ mode = ASCII →
          Clean (match c1.newEnc with
            | some m => dispatch syms la n m { c1 with newEnc := none }
            | none => dispatch syms la n mode c1) := by
        intro c1 e1 e2 e3 hp hpt hnm
        rw [e3]
        simp only
        have et : ({ c1 with newEnc := none } : Ctx).total = c.total := by simp [Ctx.total, e1, e2]
        apply ih ASCII _ (by rw [show ({ c1 with newEnc := none } : Ctx).msg = c.msg from e1]; exact hb)
          (by rw [et, show ({ c1 with newEnc := none } : Ctx).msg = c.msg from e1]; exact htot) rfl
          (by rw [et]; have : c1.total = c.total := by simp [Ctx.total, e1, e2]
              show c1.pos ≤ c.total; omega) (Or.inl rfl)
        simp only [if_neg hnm, if_true] at hfuel ⊢
        have : c1.total = c.total := by simp [Ctx.total, e1, e2]
        simp only [Ctx.remaining, et] at hfuel hr ⊢
        show 2 * (c.total - c1.pos) + 1 < n
        omega
      rcases hmode with rfl | rfl | ⟨hlam, hmode⟩
      · -- ASCII
        rw [encodeMode_ascii]
        obtain ⟨hcl, hpost⟩ := ascii_total_gen (la := la) hm
        apply Clean.bind hcl
        intro c1 he
        obtain ⟨hmsg, hskip, hstep⟩ := hpost c1 he
        have et : c1.total = c.total := by simp [Ctx.total, hmsg, hskip]
        rcases hstep with ⟨hn, hp⟩ | ⟨hp, m, hn, hlam, hmm⟩
        · rw [hn, hnew]
          simp only
          by_cases hle1 : c1.pos ≤ c1.total
          · apply ih ASCII c1 (by rw [hmsg]; exact hb) (by rw [hmsg, et]; exact htot) (by rw [hn, hnew]) hle1 (Or.inl rfl)
            simp only [Ctx.remaining, et, if_true] at hfuel hr ⊢
            omega
          · have hnm : c1.hasMore = false := by rw [hasMore_false_iff']; omega
            cases n with
            | zero => simp only [if_true] at hfuel; omega
            | succ k =>
              simp only [dispatch, hnm, Bool.not_false, if_true]
              exact Clean.ok _
        · rw [hn]
          simp only
          have et' : ({ c1 with newEnc := none } : Ctx).total = c.total := by simp [Ctx.total, hmsg, hskip]
          apply ih m _ (by rw [show ({ c1 with newEnc := none } : Ctx).msg = c.msg from hmsg]; exact hb)
            (by rw [et', show ({ c1 with newEnc := none } : Ctx).msg = c.msg from hmsg]; exact htot) rfl
            (by rw [et']; show c1.pos ≤ c.total; omega)
          · rcases hmm with rfl | rfl | rfl | rfl | rfl
            · exact Or.inr (Or.inl rfl)
            · exact Or.inr (Or.inr ⟨by show la c1.msg c1.pos ASCII = _; rw [hmsg, hp]; exact hlam, Or.inl rfl⟩)
            · exact Or.inr (Or.inr ⟨by show la c1.msg c1.pos ASCII = _; rw [hmsg, hp]; exact hlam, Or.inr (Or.inr (Or.inl rfl))⟩)
            · exact Or.inr (Or.inr ⟨by show la c1.msg c1.pos ASCII = _; rw [hmsg, hp]; exact hlam, Or.inr (Or.inl rfl)⟩)
            · exact Or.inr (Or.inr ⟨by show la c1.msg c1.pos ASCII = _; rw [hmsg, hp]; exact hlam, Or.inr (Or.inr (Or.inr rfl))⟩)
          · have hne : ¬ m = ASCII := by rcases hmm with rfl | rfl | rfl | rfl | rfl <;> decide
            simp only [Ctx.remaining, et', if_true, if_neg hne] at hfuel ⊢
            show 2 * (c.total - c1.pos) + 0 < n
            rw [hp]; omega
      · -- Base 256
        rw [encodeMode_b256]
        rcases b256_total (syms := syms) (la := la) hm hle hnew with he | ⟨c1, he, hmsg, hskip, hp, hpt, hn⟩
        · rw [he]; exact Clean.writer
        · rw [he]
          simp only [bind, Except.bind]
          have et : c1.total = c.total := by simp [Ctx.total, hmsg, hskip]
          rcases hn with hn | hn
          · rw [hn]
            simp only
            apply ih BASE256 c1 (by rw [hmsg]; exact hb) (by rw [hmsg, et]; exact htot) hn hpt (Or.inr (Or.inl rfl))
            simp only [Ctx.remaining, et, show ¬ (BASE256 : Nat) = ASCII by decide, if_false] at hfuel hr ⊢
            omega
          · exact finish c1 hmsg hskip hn hp hpt (by decide)
      · rcases hmode with rfl | rfl | rfl | rfl
        · -- C40
          rw [encodeMode_c40]
          obtain ⟨hcl, hpost⟩ := c40Encode_total (text := false) (syms := syms) (la := la) hle hm hnew
          apply Clean.bind hcl
          intro c1 he
          obtain ⟨p1, p2, _, p4, p5, p6, p7⟩ := hpost c1 he
          have hp : c.pos < c1.pos := by
            rcases Nat.lt_or_ge c.pos c1.pos with h | h
            · exact h
            · exact absurd (p7 (by omega)) (la_consumes_c40 hla (text := false) hb htot hm hlam)
          exact finish c1 p1 p2 p4 hp p6 (by decide)
        · -- Text
          rw [encodeMode_text]
          obtain ⟨hcl, hpost⟩ := c40Encode_total (text := true) (syms := syms) (la := la) hle hm hnew
          apply Clean.bind hcl
          intro c1 he
          obtain ⟨p1, p2, _, p4, p5, p6, p7⟩ := hpost c1 he
          have hp : c.pos < c1.pos := by
            rcases Nat.lt_or_ge c.pos c1.pos with h | h
            · exact h
            · exact absurd (p7 (by omega)) (la_consumes_c40 hla (text := true) hb htot hm hlam)
          exact finish c1 p1 p2 p4 hp p6 (by decide)
        · -- X12
          rw [encodeMode_x12]
          obtain ⟨hcl, hpost⟩ := x12Encode_total (syms := syms) (la := la) hle hnew
          apply Clean.bind hcl
          intro c1 he
          obtain ⟨p1, p2, _, p4, p5, p6, p7⟩ := hpost c1 he
          have hp : c.pos < c1.pos := by
            rcases Nat.lt_or_ge c.pos c1.pos with h | h
            · exact h
            · exact absurd (p7 (by omega)) (la_consumes_x12_edi hla htot hm (Or.inl hlam))
          exact finish c1 p1 p2 p4 hp p6 (by decide)
        · -- EDIFACT
          have hee : encodeMode syms la EDIFACT c = edifactEncode syms la c := by
            unfold encodeMode
            simp only [show ¬ (EDIFACT : Nat) = ASCII by decide, show ¬ (EDIFACT : Nat) = C40 by decide,
              show ¬ (EDIFACT : Nat) = TEXT by decide, show ¬ (EDIFACT : Nat) = X12 by decide, if_false, if_true]
          rw [hee]
          obtain ⟨hcl, hpost⟩ := edifactEncode_total (syms := syms) (la := la) hle hnew
          apply Clean.bind hcl
          intro c1 he
          obtain ⟨p1, p2, _, p4, p5, p6, p7⟩ := hpost c1 he
          have hp : c.pos < c1.pos := by
            rcases Nat.lt_or_ge c.pos c1.pos with h | h
            · exact h
            · exact absurd (p7 (by omega)) (la_consumes_x12_edi hla htot hm (Or.inr hlam))
          exact finish c1 p1 p2 p4 hp p6 (by decide)
    · simp only [Bool.not_eq_true] at hm
      simp only [hm, Bool.not_false, if_true]
      exact Clean.ok _

/-- `encodeHL` with a look-ahead that is exact arithmetic up to float rounding, on a message of bytes: codewords or
    a WriterException — never out of fuel, never a panic -/
theorem encodeHL_total (syms : List SymbolInfo) (la : LookAhead) (hla : LaFloatLike la) (msg : List Nat) (cfg : Cfg)
    (hb : ∀ x ∈ msg, x < 256) : Clean (encodeHL syms la msg cfg) := by
  obtain ⟨a0, _, hn0, _, hle0, hmsg0, _⟩ := initCtx_inv refTables msg cfg
  have htot0 := totOK_initCtx msg cfg
  unfold encodeHL
  have hfuel : 2 * (initCtx msg cfg).remaining + (if ASCII = ASCII then 1 else 0) < dispatchFuel msg := by
    simp only [Ctx.remaining, Ctx.total, hmsg0, dispatchFuel, if_true]; omega
  have hd := dispatch_total (syms := syms) hla (dispatchFuel msg) ASCII (initCtx msg cfg) (by rw [hmsg0]; exact hb)
    (by rw [hmsg0]; exact htot0) hn0 hle0 (Or.inl rfl) hfuel
  apply Clean.bind hd
  intro r _
  obtain ⟨c1, m1⟩ := r
  simp only
  apply Clean.bind (update_clean _ _ _)
  intro c2 hu
  obtain ⟨s, _, hcap⟩ := capacity_of_update hu
  rw [hcap]
  exact Clean.ok _

end Gzx.DMHighLevel
