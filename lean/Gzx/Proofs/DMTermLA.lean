/-
  C02 / wp dmenc — termination of `EncodeHighLevel`, part 3: what the exact look-ahead `laExactR ρ` (every float
  rounding `ρ`) guarantees about the mode it proposes from ASCII encodation:
    * X12 / EDIFACT are never proposed when at most two characters are left (plus the macro trailer, if any);
    * C40 (Text) is never proposed when the rest of the message is a run of characters whose C40 (Text) value counts
      are (1 or 4), 3, …, 3, (1, 3 or 4) — exactly the runs on which the C40 / Text encoder backtracks everything
      (`NoConsume`, Proofs/DMTermC40.lean): along such a run the ASCII count never exceeds the C40 / Text / X12 /
      EDIFACT counts (linear invariants `MC`, `WC` in units of 1/12), so steps R and K answer ASCII or Base 256.
-/
import Gzx.Proofs.DMLookAhead
import Gzx.Proofs.DMTermC40
namespace Gzx.DMHighLevel

/-! ## steps K and R under `a ≤ …` -/

theorem x12ScanC_range (l : List CharClass) : x12ScanC l = C40 ∨ x12ScanC l = X12 := by
  induction l with
  | nil => left; rfl
  | cons tc rest ih =>
    unfold x12ScanC
    split
    · right; rfl
    · split
      · left; rfl
      · exact ih

theorem min_mk_le (a c t x e b : Nat) :
    (mkIntCounts a c t x e b).min ≤ a ∧ (mkIntCounts a c t x e b).min ≤ c ∧ (mkIntCounts a c t x e b).min ≤ t ∧
    (mkIntCounts a c t x e b).min ≤ x ∧ (mkIntCounts a c t x e b).min ≤ e ∧ (mkIntCounts a c t x e b).min ≤ b := by
  unfold mkIntCounts
  simp only [Nat.min_def]
  repeat' split
  all_goals omega

theorem min_mk_cases (a c t x e b : Nat) :
    let m := (mkIntCounts a c t x e b).min
    m = 2147483647 ∨ m = a ∨ m = c ∨ m = t ∨ m = x ∨ m = e ∨ m = b := by
  unfold mkIntCounts
  simp only [Nat.min_def]
  repeat' split
  all_goals omega

/-- step K does not answer Text when the ASCII count is at most the Text count -/
theorem decideK_ne_text (a c t x e b : Nat) (h : a ≤ t) : decideK (mkIntCounts a c t x e b) ≠ TEXT := by
  obtain ⟨hma, _⟩ := min_mk_le a c t x e b
  have hf : (mkIntCounts a c t x e b).a = a ∧ (mkIntCounts a c t x e b).t = t := ⟨rfl, rfl⟩
  unfold decideK
  simp only [hf.1, hf.2]
  split
  · decide
  · rename_i hne
    have ht : (mkIntCounts a c t x e b).isMin t = false := by
      unfold IntCounts.isMin
      simp only [beq_eq_false_iff_ne, ne_eq]
      omega
    simp only [ht]
    repeat' split
    all_goals first | decide | simp_all

/-- step R does not answer Text when the ASCII count is at most the Text count -/
theorem decideR_ne_text (a c t x e b scan : Nat) (hs : scan = C40 ∨ scan = X12) (h : a ≤ t) :
    decideR (mkIntCounts a c t x e b) scan ≠ some TEXT := by
  obtain ⟨hma, _⟩ := min_mk_le a c t x e b
  have hf : (mkIntCounts a c t x e b).a = a ∧ (mkIntCounts a c t x e b).t = t := ⟨rfl, rfl⟩
  by_cases hmin : (mkIntCounts a c t x e b).min = t
  · -- then a is minimal too: the minimum is attained twice
    have hat : a = t := by omega
    have hia : (mkIntCounts a c t x e b).isMin a = true := by
      unfold IntCounts.isMin; simp only [beq_iff_eq]; omega
    have hit : (mkIntCounts a c t x e b).isMin t = true := by
      unfold IntCounts.isMin; simp only [beq_iff_eq]; omega
    have hn : (mkIntCounts a c t x e b).minCount ≠ 1 := by
      unfold IntCounts.minCount
      simp only [hf.1, hf.2, hia, hit, b2n, if_true]
      omega
    unfold decideR
    simp only [hn, false_and, if_false]
    repeat' split
    all_goals (intro hh; first | (cases hh; done) | (simp_all; done) | (rcases hs with rfl | rfl <;> (cases hh; done)))
  · have ht : (mkIntCounts a c t x e b).isMin t = false := by
      unfold IntCounts.isMin
      simp only [beq_eq_false_iff_ne, ne_eq]
      omega
    unfold decideR
    simp only [hf.2, ht]
    repeat' split
    all_goals (intro hh; first | (cases hh; done) | (simp_all; done) | (rcases hs with rfl | rfl <;> (cases hh; done)))

/-- step R does not answer C40 when the ASCII count is at most the C40 count -/
theorem decideR_ne_c40 (a c t x e b scan : Nat) (h : a ≤ c) :
    decideR (mkIntCounts a c t x e b) scan ≠ some C40 := by
  have hf : (mkIntCounts a c t x e b).a = a ∧ (mkIntCounts a c t x e b).c = c := ⟨rfl, rfl⟩
  unfold decideR
  simp only [hf.1, hf.2]
  have : ¬ (c + 1 < a ∧ c + 1 < (mkIntCounts a c t x e b).b ∧ c + 1 < (mkIntCounts a c t x e b).e ∧
      c + 1 < (mkIntCounts a c t x e b).t) := by omega
  simp only [this, if_false]
  repeat' split
  all_goals (intro hh; cases hh)

/-- step K does not answer C40 when the ASCII count is at most the C40, Text, X12 and EDIFACT counts and either is
    below 2^31 or step R has just declined to decide on the same counts -/
theorem decideK_ne_c40 (a c t x e b scan : Nat) (h1 : a ≤ c) (h2 : a ≤ t) (h3 : a ≤ x) (h4 : a ≤ e)
    (hb : a ≤ 2147483647 ∨ decideR (mkIntCounts a c t x e b) scan = none) :
    decideK (mkIntCounts a c t x e b) ≠ C40 := by
  obtain ⟨hma, hmc, hmt, hmx, hme, hmb⟩ := min_mk_le a c t x e b
  have hcases := min_mk_cases a c t x e b
  simp only at hcases
  have hf : (mkIntCounts a c t x e b).a = a ∧ (mkIntCounts a c t x e b).b = b ∧ (mkIntCounts a c t x e b).c = c ∧
      (mkIntCounts a c t x e b).t = t ∧ (mkIntCounts a c t x e b).x = x ∧ (mkIntCounts a c t x e b).e = e :=
    ⟨rfl, rfl, rfl, rfl, rfl, rfl⟩
  by_cases hmin : (mkIntCounts a c t x e b).min = a
  · unfold decideK
    simp only [hf.1, hmin, if_true]
    decide
  · -- the minimum is below a, hence below c, t, x, e: it is b or 2^31 - 1
    have hlt : (mkIntCounts a c t x e b).min < a := by omega
    have hic : (mkIntCounts a c t x e b).isMin c = false := by
      unfold IntCounts.isMin; simp only [beq_eq_false_iff_ne, ne_eq]; omega
    have hit : (mkIntCounts a c t x e b).isMin t = false := by
      unfold IntCounts.isMin; simp only [beq_eq_false_iff_ne, ne_eq]; omega
    have hix : (mkIntCounts a c t x e b).isMin x = false := by
      unfold IntCounts.isMin; simp only [beq_eq_false_iff_ne, ne_eq]; omega
    have hie : (mkIntCounts a c t x e b).isMin e = false := by
      unfold IntCounts.isMin; simp only [beq_eq_false_iff_ne, ne_eq]; omega
    have hia : (mkIntCounts a c t x e b).isMin a = false := by
      unfold IntCounts.isMin; simp only [beq_eq_false_iff_ne, ne_eq]; omega
    have hbmin : (mkIntCounts a c t x e b).min = b := by
      rcases hb with hb | hb
      · omega
      · -- R declined: it would have answered Base 256 since none of c, t, x, e is minimal
        exfalso
        unfold decideR at hb
        simp only [hf.1, hf.2.1, hf.2.2.1, hf.2.2.2.1, hf.2.2.2.2.1, hf.2.2.2.2.2, hic, hit, hix, hie, Bool.not_false,
          Bool.and_self, or_true, if_true] at hb
        split at hb <;> cases hb
    have hib : (mkIntCounts a c t x e b).isMin b = true := by
      unfold IntCounts.isMin; simp only [beq_iff_eq]; omega
    have hn : (mkIntCounts a c t x e b).minCount = 1 := by
      unfold IntCounts.minCount
      simp only [hf.1, hf.2.1, hf.2.2.1, hf.2.2.2.1, hf.2.2.2.2.1, hf.2.2.2.2.2, hia, hic, hit, hix, hie, hib, b2n]
      decide
    have hmin' : ¬ a = (mkIntCounts a c t x e b).min := fun h => hmin h.symm
    unfold decideK
    simp only [hf.1, hf.2.1, hmin', if_false, hn, hib, and_self, if_true]
    decide

/-- step K does not answer EDIFACT when the ASCII count is below the EDIFACT count -/
theorem decideK_ne_edi (a c t x e b : Nat) (h : a < e) : decideK (mkIntCounts a c t x e b) ≠ EDIFACT := by
  have hmin := minCount_mk a c t x e b
  have hx : (mkIntCounts a c t x e b).isMin e = false := by
    unfold IntCounts.isMin
    simp only [beq_eq_false_iff_ne, ne_eq]
    omega
  have hxf : (mkIntCounts a c t x e b).e = e := rfl
  unfold decideK
  simp only [hxf, hx]
  repeat' split
  all_goals first | decide | simp_all

/-- step R does not answer EDIFACT when the ASCII count is below the EDIFACT count -/
theorem decideR_ne_edi (a c t x e b scan : Nat) (hs : scan = C40 ∨ scan = X12) (h : a < e) :
    decideR (mkIntCounts a c t x e b) scan ≠ some EDIFACT := by
  have hmin := minCount_mk a c t x e b
  have hx : (mkIntCounts a c t x e b).isMin e = false := by
    unfold IntCounts.isMin
    simp only [beq_eq_false_iff_ne, ne_eq]
    omega
  have hf : (mkIntCounts a c t x e b).e = e := rfl
  unfold decideR
  simp only [hf, hx]
  repeat' split
  all_goals (intro hh; first | (cases hh; done) | (rename_i hq; exact absurd hq.2 Bool.false_ne_true) |
    (rcases hs with rfl | rfl <;> (cases hh; done)))

/-! ## trajectories -/

/-- along the exact trajectory the ASCII count stays below the EDIFACT count wherever steps R / K look -/
def aeOK : List CharClass → Nat → ECounts → Bool
  | [], _, k => decide (ceil12 k.a < ceil12 k.e)
  | ch :: rest, n, k =>
    let k' := stepECounts k ch
    (decide (n + 1 < 4) || decide (ceil12 k'.a < ceil12 k'.e)) && aeOK rest (n + 1) k'

theorem laLoopR_ne_edi (ρ : Bump) : ∀ (cls : List CharClass) (n : Nat) (k : ECounts),
    aeOK cls n k = true → laLoopR ρ cls n k ≠ EDIFACT := by
  intro cls
  induction cls with
  | nil =>
    intro n k h
    simp only [aeOK, decide_eq_true_eq] at h
    unfold laLoopR eIntCountsR
    exact decideK_ne_edi _ _ _ _ _ _ h
  | cons ch rest ih =>
    intro n k h
    simp only [aeOK, Bool.and_eq_true, Bool.or_eq_true, decide_eq_true_eq] at h
    obtain ⟨h1, h2⟩ := h
    unfold laLoopR
    simp only
    split
    · rename_i hge
      have hlt : ceil12 (stepECounts k ch).a < ceil12 (stepECounts k ch).e := by
        rcases h1 with h1 | h1
        · omega
        · exact h1
      have hR := decideR_ne_edi (ceil12 (stepECounts k ch).a) (ceil12R (ρ (n + 1) 1) (stepECounts k ch).c)
        (ceil12R (ρ (n + 1) 2) (stepECounts k ch).t) (ceil12R (ρ (n + 1) 3) (stepECounts k ch).x)
        (ceil12 (stepECounts k ch).e) (ceil12 (stepECounts k ch).b) (x12ScanC (rest.drop 1))
        (x12ScanC_range _) hlt
      unfold eIntCountsR
      split
      · rename_i m hm
        intro hmx
        rw [hmx] at hm
        exact hR hm
      · exact ih _ _ h2
    · exact ih _ _ h2

/-- the ASCII count (rounded up) is at most the C40, Text, X12 and EDIFACT counts (before float rounding) -/
def SafeC (k : ECounts) : Prop :=
  ceil12 k.a ≤ ceil12 k.c ∧ ceil12 k.a ≤ ceil12 k.t ∧ ceil12 k.a ≤ ceil12 k.x ∧ ceil12 k.a ≤ ceil12 k.e

/-- `SafeC` wherever steps R / K look (and everywhere before), and a bound on the ASCII count when fewer than four
    characters are seen in all -/
def SafeRun : List CharClass → Nat → ECounts → Prop
  | [], n, k => SafeC k ∧ (n < 4 → ceil12 k.a ≤ 2147483647)
  | ch :: rest, n, k => SafeC (stepECounts k ch) ∧ SafeRun rest (n + 1) (stepECounts k ch)

theorem laLoopR_ne_c40 (ρ : Bump) : ∀ (cls : List CharClass) (n : Nat) (k : ECounts),
    SafeRun cls n k → (4 ≤ n → ∃ scan, decideR (eIntCountsR ρ n k) scan = none) →
    laLoopR ρ cls n k ≠ C40 := by
  intro cls
  induction cls with
  | nil =>
    intro n k h hR
    obtain ⟨⟨h1, h2, h3, h4⟩, hb⟩ := h
    unfold laLoopR
    by_cases hn : n < 4
    · unfold eIntCountsR
      exact decideK_ne_c40 _ _ _ _ _ _ 0 (Nat.le_trans h1 (ceil12R_ge _ _)) (Nat.le_trans h2 (ceil12R_ge _ _))
        (Nat.le_trans h3 (ceil12R_ge _ _)) h4 (Or.inl (hb hn))
    · obtain ⟨scan, hs⟩ := hR (by omega)
      unfold eIntCountsR at hs ⊢
      exact decideK_ne_c40 _ _ _ _ _ _ scan (Nat.le_trans h1 (ceil12R_ge _ _)) (Nat.le_trans h2 (ceil12R_ge _ _))
        (Nat.le_trans h3 (ceil12R_ge _ _)) h4 (Or.inr hs)
  | cons ch rest ih =>
    intro n k h _
    obtain ⟨⟨h1, h2, h3, h4⟩, hrest⟩ := h
    unfold laLoopR
    simp only
    split
    · rename_i hge
      split
      · rename_i m hm
        intro hmx
        rw [hmx] at hm
        unfold eIntCountsR at hm
        exact decideR_ne_c40 _ _ _ _ _ _ _ (Nat.le_trans h1 (ceil12R_ge _ _)) hm
      · rename_i hm
        exact ih _ _ hrest (fun _ => ⟨_, hm⟩)
    · rename_i hge
      exact ih _ _ hrest (fun h4 => by omega)

/-- the ASCII count (rounded up) is at most the Text count -/
def SafeT (k : ECounts) : Prop := ceil12 k.a ≤ ceil12 k.t

def SafeRunT : List CharClass → ECounts → Prop
  | [], k => SafeT k
  | ch :: rest, k => SafeT (stepECounts k ch) ∧ SafeRunT rest (stepECounts k ch)

theorem laLoopR_ne_text (ρ : Bump) : ∀ (cls : List CharClass) (n : Nat) (k : ECounts),
    SafeRunT cls k → laLoopR ρ cls n k ≠ TEXT := by
  intro cls
  induction cls with
  | nil =>
    intro n k h
    unfold laLoopR eIntCountsR
    exact decideK_ne_text _ _ _ _ _ _ (Nat.le_trans h (ceil12R_ge _ _))
  | cons ch rest ih =>
    intro n k h
    obtain ⟨h1, hrest⟩ := h
    unfold laLoopR
    simp only
    split
    · split
      · rename_i m hm
        intro hmx
        rw [hmx] at hm
        unfold eIntCountsR at hm
        exact decideR_ne_text _ _ _ _ _ _ _ (x12ScanC_range _) (Nat.le_trans h1 (ceil12R_ge _ _)) hm
      · exact ih _ _ hrest
    · exact ih _ _ hrest

/-! ## the linear invariants along a backtracked run -/

/-- strong invariant (before the last character of the run), C40: counts in units of 1/12, `n` characters seen -/
def MC (n : Nat) (k : ECounts) : Prop :=
  ceil12 k.a * 12 + 8 ≤ k.c ∧ k.c ≤ k.t ∧ k.c ≤ k.x ∧ k.c ≤ k.e ∧ k.a ≤ 36 * n

/-- weak invariant (after the last character and along the macro trailer), C40 -/
def WC (n : Nat) (k : ECounts) : Prop :=
  ceil12 k.a * 12 ≤ k.c ∧ k.c ≤ k.t ∧ k.c ≤ k.x ∧ k.c ≤ k.e ∧ k.a ≤ 36 * n

def MT (k : ECounts) : Prop := ceil12 k.a * 12 + 8 ≤ k.t
def WT (k : ECounts) : Prop := ceil12 k.a * 12 ≤ k.t

theorem WC.safe {n : Nat} {k : ECounts} (h : WC n k) : SafeC k ∧ (n < 4 → ceil12 k.a ≤ 2147483647) := by
  unfold WC at h; unfold SafeC ceil12 at *
  refine ⟨⟨?_, ?_, ?_, ?_⟩, ?_⟩ <;> omega

theorem MC.weak {n : Nat} {k : ECounts} (h : MC n k) : WC n k := by
  unfold MC at h; unfold WC; omega

theorem WT.safe {k : ECounts} (h : WT k) : SafeT k := by
  unfold WT at h; unfold SafeT ceil12 at *; omega

theorem MT.weak {k : ECounts} (h : MT k) : WT k := by
  unfold MT at h; unfold WT; omega

/-- a character that is native to C40 (space, digit, upper case): class facts -/
structure NatC (cl : CharClass) : Prop where
  ext : cl.ext = false
  c40 : cl.c40 = true
  x12 : cl.x12 = true
  edi : cl.edi = true

structure NatT (cl : CharClass) : Prop where
  ext : cl.ext = false
  text : cl.text = true

theorem natC_of (ch : Nat) (h : isNativeC40 ch = true) : NatC (classOf ch) := by
  have hlt : ch < 256 := by
    simp only [isNativeC40, Bool.or_eq_true, Bool.and_eq_true, decide_eq_true_eq] at h; omega
  have : ∀ c : Fin 256, isNativeC40 c.val = true →
      (classOf c.val).ext = false ∧ (classOf c.val).c40 = true ∧ (classOf c.val).x12 = true ∧ (classOf c.val).edi = true := by
    decide +kernel
  obtain ⟨a1, a2, a3, a4⟩ := this ⟨ch, hlt⟩ h
  exact ⟨a1, a2, a3, a4⟩

theorem natT_of (ch : Nat) (h : isNativeText ch = true) : NatT (classOf ch) := by
  have hlt : ch < 256 := by
    simp only [isNativeText, Bool.or_eq_true, Bool.and_eq_true, decide_eq_true_eq] at h; omega
  have : ∀ c : Fin 256, isNativeText c.val = true → (classOf c.val).ext = false ∧ (classOf c.val).text = true := by
    decide +kernel
  obtain ⟨a1, a2⟩ := this ⟨ch, hlt⟩ h
  exact ⟨a1, a2⟩

theorem step_ext (k : ECounts) :
    stepECounts k extClass = ⟨ceil12 k.a * 12 + 24, k.c + 32, k.t + 32, k.x + 52, k.e + 51, k.b + 12⟩ := by
  simp [stepECounts, extClass]

theorem step_other (k : ECounts) :
    stepECounts k otherClass = ⟨ceil12 k.a * 12 + 12, k.c + 16, k.t + 16, k.x + 40, k.e + 39, k.b + 12⟩ := by
  simp [stepECounts, otherClass]

theorem MC.ext {n : Nat} {k : ECounts} (h : MC n k) : MC (n + 1) (stepECounts k extClass) := by
  rw [step_ext]; unfold MC ceil12 at *; simp only; omega

theorem WC.other {n : Nat} {k : ECounts} (h : WC n k) : WC (n + 1) (stepECounts k otherClass) := by
  rw [step_other]; unfold WC ceil12 at *; simp only; omega

theorem MC.last_ext {n : Nat} {k : ECounts} (h : MC n k) : WC (n + 1) (stepECounts k extClass) := h.ext.weak

theorem MC.last_nat {n : Nat} {k : ECounts} {cl : CharClass} (h : MC n k) (hc : NatC cl) :
    WC (n + 1) (stepECounts k cl) := by
  unfold MC at h
  unfold WC stepECounts ceil12 at *
  simp only [hc.ext, hc.c40, hc.x12, hc.edi, if_true, Bool.false_eq_true, if_false]
  cases cl.digit <;> cases cl.text <;> simp only [if_true, Bool.false_eq_true, if_false] <;> omega

theorem MT.ext {k : ECounts} (h : MT k) : MT (stepECounts k extClass) := by
  rw [step_ext]; unfold MT ceil12 at *; simp only; omega

theorem WT.other {k : ECounts} (h : WT k) : WT (stepECounts k otherClass) := by
  rw [step_other]; unfold WT ceil12 at *; simp only; omega

theorem MT.last_nat {k : ECounts} {cl : CharClass} (h : MT k) (hc : NatT cl) : WT (stepECounts k cl) := by
  unfold MT at h
  unfold WT stepECounts ceil12 at *
  simp only [hc.ext, hc.text, if_true, Bool.false_eq_true, if_false]
  cases cl.digit <;> simp only [if_true, Bool.false_eq_true, if_false] <;> omega

/-- the first character of the run, from the start values of ASCII encodation -/
theorem MC.first_ext : MC 1 (stepECounts (startCounts ASCII) extClass) := by
  rw [step_ext]; unfold MC ceil12 startCounts; simp
theorem MC.first_nat {cl : CharClass} (hc : NatC cl) : MC 1 (stepECounts (startCounts ASCII) cl) := by
  unfold MC stepECounts ceil12 startCounts
  simp only [hc.ext, hc.c40, hc.x12, hc.edi, if_true, Bool.false_eq_true, if_false]
  cases cl.digit <;> cases cl.text <;> simp
theorem MT.first_ext : MT (stepECounts (startCounts ASCII) extClass) := by
  rw [step_ext]; unfold MT ceil12 startCounts; simp
theorem MT.first_nat {cl : CharClass} (hc : NatT cl) : MT (stepECounts (startCounts ASCII) cl) := by
  unfold MT stepECounts ceil12 startCounts
  simp only [hc.ext, hc.text, if_true, Bool.false_eq_true, if_false]
  cases cl.digit <;> simp

/-! ## the run pattern on characters -/

/-- extended, or native to the mode -/
def goodCh (text : Bool) (x : Nat) : Bool := isExtended x || (if text then isNativeText x else isNativeC40 x)

/-- the characters after the first one: extended ones, the last one extended or native -/
def tailPat (text : Bool) : List Nat → Bool
  | [] => false
  | [l] => goodCh text l
  | x :: y :: r => isExtended x && tailPat text (y :: r)

/-- the macro trailer RS EOT, or nothing -/
def IsTrailer (tl : List Nat) : Prop := tl = [] ∨ tl = [30, 4]

theorem run_c40 : ∀ (rest : List Nat) (n : Nat) (k : ECounts) (tl : List Nat), tailPat false rest = true →
    MC n k → IsTrailer tl → SafeRun ((rest ++ tl).map classOf) n k := by
  intro rest
  induction rest with
  | nil => intro n k tl h; simp [tailPat] at h
  | cons x r ih =>
    intro n k tl h hM htl
    cases r with
    | nil =>
      simp only [tailPat, goodCh, Bool.false_eq_true, if_false, Bool.or_eq_true] at h
      have hW : WC (n + 1) (stepECounts k (classOf x)) := by
        rcases h with h | h
        · rw [classOf_ext x h]; exact hM.last_ext
        · exact hM.last_nat (natC_of x h)
      rcases htl with rfl | rfl
      · simp only [List.append_nil, List.map_cons, List.map_nil, SafeRun]
        exact ⟨hW.safe.1, hW.safe⟩
      · simp only [List.cons_append, List.nil_append, List.map_cons, List.map_nil, SafeRun, classOf_30, classOf_4]
        exact ⟨hW.safe.1, hW.other.safe.1, hW.other.other.safe.1, hW.other.other.safe⟩
    | cons y r' =>
      simp only [tailPat, Bool.and_eq_true] at h
      obtain ⟨hx, hrest⟩ := h
      have key := ih (n + 1) (stepECounts k extClass) tl hrest hM.ext htl
      simp only [List.cons_append, List.map_cons, SafeRun] at key ⊢
      rw [classOf_ext x hx]
      exact ⟨hM.ext.weak.safe.1, key⟩

theorem run_text : ∀ (rest : List Nat) (k : ECounts) (tl : List Nat), tailPat true rest = true →
    MT k → IsTrailer tl → SafeRunT ((rest ++ tl).map classOf) k := by
  intro rest
  induction rest with
  | nil => intro k tl h; simp [tailPat] at h
  | cons x r ih =>
    intro k tl h hM htl
    cases r with
    | nil =>
      simp only [tailPat, goodCh, if_true, Bool.or_eq_true] at h
      have hW : WT (stepECounts k (classOf x)) := by
        rcases h with h | h
        · rw [classOf_ext x h]; exact hM.ext.weak
        · exact hM.last_nat (natT_of x h)
      rcases htl with rfl | rfl
      · simp only [List.append_nil, List.map_cons, List.map_nil, SafeRunT]
        exact ⟨hW.safe, hW.safe⟩
      · simp only [List.cons_append, List.nil_append, List.map_cons, List.map_nil, SafeRunT, classOf_30, classOf_4]
        exact ⟨hW.safe, hW.other.safe, hW.other.other.safe, hW.other.other.safe⟩
    | cons y r' =>
      simp only [tailPat, Bool.and_eq_true] at h
      obtain ⟨hx, hrest⟩ := h
      have key := ih (stepECounts k extClass) tl hrest hM.ext htl
      simp only [List.cons_append, List.map_cons, SafeRunT] at key ⊢
      rw [classOf_ext x hx]
      exact ⟨hM.ext.weak.safe, key⟩

/-- from ASCII encodation, a run `f :: rest` of the C40 pattern (plus trailer) never makes the look-ahead loop
    answer C40 -/
theorem laLoopR_run_c40 (ρ : Bump) (f : Nat) (rest tl : List Nat) (hf : goodCh false f = true)
    (hr : tailPat false rest = true) (htl : IsTrailer tl) :
    laLoopR ρ ((f :: rest ++ tl).map classOf) 0 (startCounts ASCII) ≠ C40 := by
  apply laLoopR_ne_c40
  · simp only [List.cons_append, List.map_cons, SafeRun]
    simp only [goodCh, Bool.false_eq_true, if_false, Bool.or_eq_true] at hf
    have hM : MC 1 (stepECounts (startCounts ASCII) (classOf f)) := by
      rcases hf with h | h
      · rw [classOf_ext f h]; exact MC.first_ext
      · exact MC.first_nat (natC_of f h)
    exact ⟨hM.weak.safe.1, run_c40 rest 1 _ tl hr hM htl⟩
  · intro h; omega

theorem laLoopR_run_text (ρ : Bump) (f : Nat) (rest tl : List Nat) (hf : goodCh true f = true)
    (hr : tailPat true rest = true) (htl : IsTrailer tl) :
    laLoopR ρ ((f :: rest ++ tl).map classOf) 0 (startCounts ASCII) ≠ TEXT := by
  apply laLoopR_ne_text
  simp only [List.cons_append, List.map_cons, SafeRunT]
  simp only [goodCh, if_true, Bool.or_eq_true] at hf
  have hM : MT (stepECounts (startCounts ASCII) (classOf f)) := by
    rcases hf with h | h
    · rw [classOf_ext f h]; exact MT.first_ext
    · exact MT.first_nat (natT_of f h)
  exact ⟨hM.weak.safe, run_text rest _ tl hr hM htl⟩

/-! ## from the value counts to the pattern -/

/-- value counts of bytes: `1 (mod 3)` ⇒ native or extended, `0 (mod 3)` ⇒ extended, never `2 (mod 3)` for an
    extended or native one -/
def sizeOK (text : Bool) (c : Nat) : Bool :=
  let s := (cEncodeChar text c).length
  (decide (s % 3 ≠ 2) → goodCh text c) && (decide (s % 3 = 0) → isExtended c)

set_option maxRecDepth 100000 in
theorem sizeOK_c40 : ∀ c : Fin 256, sizeOK false c.val = true := by decide +kernel
set_option maxRecDepth 100000 in
theorem sizeOK_text : ∀ c : Fin 256, sizeOK true c.val = true := by decide +kernel

theorem sizeOK_all (text : Bool) (c : Nat) (hc : c < 256) :
    ((cEncodeChar text c).length % 3 ≠ 2 → goodCh text c = true) ∧
    ((cEncodeChar text c).length % 3 = 0 → isExtended c = true) := by
  have h : sizeOK text c = true := by
    cases text
    · exact sizeOK_c40 ⟨c, hc⟩
    · exact sizeOK_text ⟨c, hc⟩
  simp only [sizeOK, Bool.and_eq_true, Bool.decide_eq_true, decide_eq_true_eq] at h
  simpa using h

theorem tailPat_of_sums (text : Bool) : ∀ (l : List Nat) (acc : Nat), (∀ x ∈ l, x < 256) → acc % 3 = 1 → l ≠ [] →
    (∀ i, 1 ≤ i → i < l.length → (acc + (cVals text (l.take i)).length) % 3 = 1) →
    (acc + (cVals text l).length) % 3 ≠ 0 → tailPat text l = true := by
  intro l
  induction l with
  | nil => intro acc _ _ h; exact absurd rfl h
  | cons x r ih =>
    intro acc hb hacc _ hmid hend
    have hx := sizeOK_all text x (hb x (by simp))
    cases r with
    | nil =>
      simp only [cVals, List.append_nil] at hend
      simp only [tailPat]
      exact hx.1 (by omega)
    | cons y r' =>
      have h1 := hmid 1 (by omega) (by simp)
      simp only [List.take_succ_cons, List.take_zero, cVals, List.append_nil] at h1
      have hext := hx.2 (by omega)
      simp only [tailPat, hext, Bool.true_and]
      apply ih (acc + (cEncodeChar text x).length) (fun z hz => hb z (by simp [hz])) (by omega) (by simp)
      · intro i hi1 hi2
        have := hmid (i + 1) (by omega) (by simp at hi2 ⊢; omega)
        simp only [List.take_succ_cons, cVals, List.length_append] at this
        omega
      · simp only [cVals, List.length_append] at hend ⊢
        omega

end Gzx.DMHighLevel
