/-
  C02 / wp dmenc — termination and totality of `EncodeHighLevel`, part 2: the X12 and EDIFACT encoders.
    * `x12Encode_total`: a whole call of the X12 encoder is clean (value or WriterException) for EVERY look-ahead
      oracle and table; on success it signals ASCII, never moves backwards, and if it has consumed nothing then
      at most two characters were left.
    * `edifactEncode_total`: the same for the EDIFACT encoder incl. every branch of `edifactHandleEOD`.
-/
import Gzx.Proofs.DMTermC40
import Gzx.Proofs.DMEdifactEOD
namespace Gzx.DMHighLevel

theorem Clean.bind {α β : Type} {x : Res α} {f : α → Res β} (hx : Clean x) (hf : ∀ v, x = .ok v → Clean (f v)) :
    Clean (x >>= f) := by
  rcases hx with ⟨v, hv⟩ | hv
  · rw [hv]; exact hf v hv
  · rw [hv]; exact Clean.writer

theorem bind_ok {α β : Type} {x : Res α} {f : α → Res β} {b : β} (h : x >>= f = .ok b) :
    ∃ a, x = .ok a ∧ f a = .ok b := by
  cases x with
  | error e => cases h
  | ok a => exact ⟨a, rfl, h⟩

/-- everything but the symbol and the codewords is the same -/
structure Frame (c c' : Ctx) : Prop where
  msg : c'.msg = c.msg
  pos : c'.pos = c.pos
  skip : c'.skipAtEnd = c.skipAtEnd
  cfg : c'.cfg = c.cfg
  newEnc : c'.newEnc = c.newEnc

theorem Frame.refl (c : Ctx) : Frame c c := ⟨rfl, rfl, rfl, rfl, rfl⟩
theorem Frame.trans {a b c : Ctx} (h1 : Frame a b) (h2 : Frame b c) : Frame a c :=
  ⟨by rw [h2.msg, h1.msg], by rw [h2.pos, h1.pos], by rw [h2.skip, h1.skip], by rw [h2.cfg, h1.cfg],
   by rw [h2.newEnc, h1.newEnc]⟩
theorem Frame.total {c c' : Ctx} (h : Frame c c') : c'.total = c.total := by simp [Ctx.total, h.msg, h.skip]
theorem Frame.hasMore {c c' : Ctx} (h : Frame c c') : c'.hasMore = c.hasMore := by
  simp [Ctx.hasMore, h.total, h.pos]
theorem Frame.remaining {c c' : Ctx} (h : Frame c c') : c'.remaining = c.remaining := by
  simp [Ctx.remaining, h.total, h.pos]

theorem update_frame {syms : List SymbolInfo} {c c' : Ctx} {n : Nat} (h : c.update syms n = .ok c') : Frame c c' := by
  obtain ⟨_, a2, a3, a4, a5, a6, _⟩ := update_spec h
  exact ⟨a2, a3, a5, a4, a6⟩

/-! ## X12 -/

theorem x12EncodeChar_clean (ch : Nat) : Clean (x12EncodeChar ch) := by
  unfold x12EncodeChar
  repeat' split
  all_goals first | exact Clean.ok _ | exact Clean.writer

theorem x12Loop_clean (la : LookAhead) :
    ∀ (fuel : Nat) (c : Ctx) (buf : List Nat), c.remaining ≤ fuel → Clean (x12Loop la fuel c buf) := by
  intro fuel
  induction fuel with
  | zero =>
    intro c buf hr
    simp only [x12Loop]
    have : c.hasMore = false := by
      simp only [Ctx.remaining] at hr
      rw [hasMore_false_iff']; omega
    simp only [this, Bool.false_eq_true, if_false]
    exact Clean.ok _
  | succ n ih =>
    intro c buf hr
    simp only [x12Loop]
    by_cases hm : c.hasMore = true
    · simp only [hm, Bool.not_true, Bool.false_eq_true, if_false]
      obtain ⟨ch, hc, _⟩ := hasMore_cur' hm
      rw [hc]
      simp only [bind, Except.bind]
      have hlt : c.pos < c.total := (hasMore_iff' c).mp hm
      have hrem : ∀ cc : Ctx, cc.msg = c.msg → cc.skipAtEnd = c.skipAtEnd → cc.pos = c.pos + 1 → cc.remaining ≤ n := by
        intro cc e1 e2 e3
        simp only [Ctx.remaining, Ctx.total, e1, e2, e3] at hr ⊢
        simp only [Ctx.total] at hlt
        omega
      rcases x12EncodeChar_clean ch with ⟨v, hv⟩ | hv
      · rw [hv]
        simp only
        repeat' split
        all_goals first | exact Clean.ok _ | (refine ih _ _ (hrem _ ?_ ?_ ?_) <;> rfl)
      · rw [hv]; exact Clean.writer
    · simp only [Bool.not_eq_true] at hm
      simp only [hm, Bool.not_false, if_true]
      exact Clean.ok _

theorem writeTriplets_snd_length (l : List Nat) :
    ∃ k, (writeTriplets l).2.length + 3 * k = l.length ∧ (writeTriplets l).2.length < 3 := by
  obtain ⟨k, h1, h2, h3, _⟩ := writeTriplets_split l.length l (Nat.le_refl _)
  refine ⟨k, ?_, ?_⟩ <;> rw [h3, List.length_drop] <;> omega

/-- a whole call of the X12 encoder -/
theorem x12Encode_total {syms : List SymbolInfo} {la : LookAhead} {c : Ctx}
    (hle : c.pos ≤ c.total) (hnew : c.newEnc = none) :
    Clean (x12Encode syms la c) ∧
    ∀ c', x12Encode syms la c = .ok c' →
      c'.msg = c.msg ∧ c'.skipAtEnd = c.skipAtEnd ∧ c'.cfg = c.cfg ∧ c'.newEnc = some ASCII ∧
      c.pos ≤ c'.pos ∧ c'.pos ≤ c'.total ∧ (c'.pos = c.pos → c.remaining ≤ 2) := by
  unfold x12Encode
  simp only [bind, Except.bind]
  rcases x12Loop_clean la c.remaining c [] (Nat.le_refl _) with ⟨r, hl⟩ | hl
  · obtain ⟨c1, buf1⟩ := r
    rw [hl]
    simp only
    obtain ⟨vals, _, _, hbuf1, hsf, hp1, hp1t, hvlen, hexit, _⟩ :=
      x12Loop_spec la c.remaining c [] c1 buf1 [] [] (by simp) hle rfl hl
    simp only [List.nil_append] at hbuf1
    obtain ⟨k, hk1, hk2⟩ := writeTriplets_snd_length vals
    rw [← hbuf1] at hk1 hk2
    unfold x12HandleEOD
    simp only [bind, Except.bind]
    rcases update_clean syms c1 c1.count with ⟨c2, h2⟩ | h2
    · rw [h2]
      simp only
      obtain ⟨s, _, hcap⟩ := capacity_of_update h2
      have hf := update_frame h2
      rw [hcap]
      simp only
      have hback : c2.back buf1.length = .ok { c2 with pos := c2.pos - buf1.length } := by
        simp only [Ctx.back]
        have : buf1.length ≤ c2.pos := by rw [hf.pos]; omega
        simp [this]
      rw [hback]
      simp only
      refine ⟨Clean.ok _, ?_⟩
      intro c' h
      simp only [Except.ok.injEq] at h
      subst h
      -- the fields of the result
      generalize hcc : (if ({ c2 with pos := c2.pos - buf1.length } : Ctx).remaining > 1 ∨ s.cap - c2.count > 1 ∨
          ({ c2 with pos := c2.pos - buf1.length } : Ctx).remaining ≠ s.cap - c2.count
          then ({ c2 with pos := c2.pos - buf1.length } : Ctx).write 254
          else ({ c2 with pos := c2.pos - buf1.length } : Ctx)) = cc
      have hccf : cc.msg = c2.msg ∧ cc.pos = c2.pos - buf1.length ∧ cc.skipAtEnd = c2.skipAtEnd ∧ cc.cfg = c2.cfg ∧
          cc.newEnc = c2.newEnc := by
        rw [← hcc]; split <;> simp [Ctx.write]
      obtain ⟨g1, g2, g3, g4, g5, _⟩ := ite_signal_fields cc
      obtain ⟨f1, f2, f3, f4, f5⟩ := hccf
      have hne : (if cc.newEnc.isNone = true then cc.signal ASCII else cc).newEnc = some ASCII := by
        rcases hexit with ⟨e, _⟩ | ⟨e, _⟩
        · have : cc.newEnc = none := by rw [f5, hf.newEnc, e, hnew]
          simp [this, Ctx.signal]
        · have : cc.newEnc = some ASCII := by rw [f5, hf.newEnc, e]
          simp [this]
      have hpos : (if cc.newEnc.isNone = true then cc.signal ASCII else cc).pos = c.pos + 3 * k := by
        rw [g3, f2, hf.pos]; omega
      refine ⟨by rw [g1, f1, hf.msg, hsf.msg], by rw [g5, f3, hf.skip, hsf.skip], by rw [g4, f4, hf.cfg, hsf.cfg], hne,
        by rw [hpos]; omega, ?_, ?_⟩
      · have : (if cc.newEnc.isNone = true then cc.signal ASCII else cc).total = c1.total := by
          unfold Ctx.total; rw [g1, g5, f1, f3, hf.msg, hf.skip]
        rw [this, hpos]; omega
      · intro hsame
        rw [hpos] at hsame
        have hk0 : k = 0 := by omega
        rcases hexit with ⟨_, hm1⟩ | ⟨_, hb, _, hlt⟩
        · have := (hasMore_false_iff' c1).mp hm1
          have ht : c1.total = c.total := by simp [Ctx.total, hsf.msg, hsf.skip]
          simp only [Ctx.remaining]
          omega
        · rw [hb] at hk1; simp at hk1; omega
    · rw [h2]
      exact ⟨Clean.writer, fun c' h => by cases h⟩
  · rw [hl]
    exact ⟨Clean.writer, fun c' h => by cases h⟩

/-! ## EDIFACT -/

theorem edifactEncodeChar_clean (ch : Nat) : Clean (edifactEncodeChar ch) := by
  unfold edifactEncodeChar
  repeat' split
  all_goals first | exact Clean.ok _ | exact Clean.writer

theorem edifactLoop_clean (la : LookAhead) :
    ∀ (fuel : Nat) (c : Ctx) (buf : List Nat), c.remaining ≤ fuel → Clean (edifactLoop la fuel c buf) := by
  intro fuel
  induction fuel with
  | zero =>
    intro c buf hr
    simp only [edifactLoop]
    have : c.hasMore = false := by
      simp only [Ctx.remaining] at hr
      rw [hasMore_false_iff']; omega
    simp only [this, Bool.false_eq_true, if_false]
    exact Clean.ok _
  | succ n ih =>
    intro c buf hr
    simp only [edifactLoop]
    by_cases hm : c.hasMore = true
    · simp only [hm, Bool.not_true, Bool.false_eq_true, if_false]
      obtain ⟨ch, hc, _⟩ := hasMore_cur' hm
      rw [hc]
      simp only [bind, Except.bind]
      have hlt : c.pos < c.total := (hasMore_iff' c).mp hm
      have hrem : ∀ cc : Ctx, cc.msg = c.msg → cc.skipAtEnd = c.skipAtEnd → cc.pos = c.pos + 1 → cc.remaining ≤ n := by
        intro cc e1 e2 e3
        simp only [Ctx.remaining, Ctx.total, e1, e2, e3] at hr ⊢
        simp only [Ctx.total] at hlt
        omega
      rcases edifactEncodeChar_clean ch with ⟨v, hv⟩ | hv
      · rw [hv]
        simp only
        repeat' split
        all_goals first | exact Clean.ok _ | (refine ih _ _ (hrem _ ?_ ?_ ?_) <;> rfl)
      · rw [hv]; exact Clean.writer
    · simp only [Bool.not_eq_true] at hm
      simp only [hm, Bool.not_false, if_true]
      exact Clean.ok _

/-- the `count == 1` prelude of edifactHandleEOD -/
def ediEarly (syms : List SymbolInfo) (c : Ctx) (count : Nat) : Res (Ctx × Bool) :=
  if count = 1 then do
    let c ← c.update syms c.count
    let cap ← c.capacity
    let available := cap - c.count
    let remaining ← edifactRestNeed c
    let (c, available) ←
      (if remaining > available then do
        let c ← c.update syms (c.count + 1)
        let cap ← c.capacity
        pure (c, cap - c.count)
       else pure (c, available) : Res (Ctx × Nat))
    .ok (c, decide (remaining ≤ available ∧ available ≤ 2))
  else .ok (c, false)

/-- the symbol re-selection of edifactHandleEOD for `count - 1` buffered characters -/
def ediStep (syms : List SymbolInfo) (c : Ctx) (buf : List Nat) : Res (Ctx × Bool) :=
  let restChars := buf.length - 1
  let restInAscii := !c.hasMore && decide (restChars ≤ 2)
  if restChars ≤ 2 then do
    let c ← c.update syms (c.count + restChars)
    let cap ← c.capacity
    let available := cap - c.count
    if available ≥ 3 then do
      let c ← c.update syms (c.count + (edifactPack buf).length)
      .ok (c, false)
    else .ok (c, restInAscii)
  else .ok (c, restInAscii)

theorem edifactHandleEOD_eq (syms : List SymbolInfo) (c : Ctx) (buf : List Nat) :
    edifactHandleEOD syms c buf =
      (if buf.length = 0 then .ok (c.signal ASCII)
      else do
        let (c, noUnlatch) ← ediEarly syms c buf.length
        if noUnlatch then .ok (c.signal ASCII)
        else if buf.length > 4 then .error .writer
        else do
          let (c, restInAscii) ← ediStep syms c buf
          if restInAscii then do
            let c ← ({ c with sym := none } : Ctx).back (buf.length - 1)
            .ok (c.signal ASCII)
          else .ok ((c.writeAll (edifactPack buf)).signal ASCII)) := by
  rfl

theorem edifactRestNeed_ok {c : Ctx} (hle : c.pos ≤ c.total) : ∃ r, edifactRestNeed c = .ok r := by
  unfold edifactRestNeed
  simp only
  split
  · split
    · exact ⟨_, rfl⟩
    · rename_i h1 h2
      exfalso; apply h2
      simp only [Ctx.remaining, Ctx.total] at h1 hle ⊢
      omega
  · exact ⟨_, rfl⟩

theorem ediEarly_total {syms : List SymbolInfo} {c : Ctx} (count : Nat) (hle : c.pos ≤ c.total) :
    Clean (ediEarly syms c count) ∧ ∀ c2 b, ediEarly syms c count = .ok (c2, b) → Frame c c2 ∧ c2.cw = c.cw := by
  unfold ediEarly
  split
  · constructor
    · apply Clean.bind (update_clean _ _ _)
      intro c1 h1
      obtain ⟨s, _, hcap⟩ := capacity_of_update h1
      have hf1 := update_frame h1
      rw [hcap]
      apply Clean.bind (Clean.ok _)
      intro cap _
      obtain ⟨r, hr⟩ := edifactRestNeed_ok (c := c1) (by rw [hf1.total, hf1.pos]; exact hle)
      rw [hr]
      apply Clean.bind (Clean.ok _)
      intro rem _
      apply Clean.bind
      · split
        · apply Clean.bind (update_clean _ _ _)
          intro c3 h3
          obtain ⟨s3, _, hcap3⟩ := capacity_of_update h3
          rw [hcap3]
          exact Clean.ok _
        · exact Clean.ok _
      · intro v _
        exact Clean.ok _
    · intro c2 b h
      obtain ⟨c1, h1, h⟩ := bind_ok h
      obtain ⟨cap, _, h⟩ := bind_ok h
      obtain ⟨rem, _, h⟩ := bind_ok h
      obtain ⟨p, hp, h⟩ := bind_ok h
      obtain ⟨c3, av⟩ := p
      simp only [Except.ok.injEq, Prod.mk.injEq] at h
      obtain ⟨rfl, _⟩ := h
      have hf1 := update_frame h1
      have hcw1 := (update_spec h1).1
      split at hp
      · obtain ⟨c4, h4, hp⟩ := bind_ok hp
        obtain ⟨cap4, _, hp⟩ := bind_ok hp
        simp only [pure, Except.pure, Except.ok.injEq, Prod.mk.injEq] at hp
        obtain ⟨rfl, _⟩ := hp
        exact ⟨hf1.trans (update_frame h4), by rw [(update_spec h4).1, hcw1]⟩
      · simp only [pure, Except.pure, Except.ok.injEq, Prod.mk.injEq] at hp
        obtain ⟨rfl, _⟩ := hp
        exact ⟨hf1, hcw1⟩
  · refine ⟨Clean.ok _, ?_⟩
    intro c2 b h
    simp only [Except.ok.injEq, Prod.mk.injEq] at h
    obtain ⟨rfl, _⟩ := h
    exact ⟨Frame.refl _, rfl⟩

theorem ediStep_total {syms : List SymbolInfo} {c : Ctx} (buf : List Nat) :
    Clean (ediStep syms c buf) ∧
    ∀ c2 b, ediStep syms c buf = .ok (c2, b) → Frame c c2 ∧ c2.cw = c.cw ∧
      (b = true → c.hasMore = false ∧ buf.length - 1 ≤ 2) := by
  unfold ediStep
  simp only
  split
  · rename_i hr2
    constructor
    · apply Clean.bind (update_clean _ _ _)
      intro c1 h1
      obtain ⟨s, _, hcap⟩ := capacity_of_update h1
      rw [hcap]
      apply Clean.bind (Clean.ok _)
      intro cap _
      split
      · apply Clean.bind (update_clean _ _ _)
        intro c3 _
        exact Clean.ok _
      · exact Clean.ok _
    · intro c2 b h
      obtain ⟨c1, h1, h⟩ := bind_ok h
      obtain ⟨cap, _, h⟩ := bind_ok h
      have hf1 := update_frame h1
      have hcw1 := (update_spec h1).1
      split at h
      · obtain ⟨c3, h3, h⟩ := bind_ok h
        simp only [Except.ok.injEq, Prod.mk.injEq] at h
        obtain ⟨rfl, rfl⟩ := h
        exact ⟨hf1.trans (update_frame h3), by rw [(update_spec h3).1, hcw1], fun hb => by cases hb⟩
      · simp only [Except.ok.injEq, Prod.mk.injEq] at h
        obtain ⟨rfl, rfl⟩ := h
        refine ⟨hf1, hcw1, ?_⟩
        intro hb
        simp only [Bool.and_eq_true, Bool.not_eq_true', decide_eq_true_eq] at hb
        exact ⟨hb.1, hb.2⟩
  · refine ⟨Clean.ok _, ?_⟩
    intro c2 b h
    simp only [Except.ok.injEq, Prod.mk.injEq] at h
    obtain ⟨rfl, rfl⟩ := h
    refine ⟨Frame.refl _, rfl, ?_⟩
    intro hb
    simp only [Bool.and_eq_true, Bool.not_eq_true', decide_eq_true_eq] at hb
    exact ⟨hb.1, hb.2⟩

/-- edifactHandleEOD: clean; on success ASCII is signalled and the position is kept or — only at the end of the
    message, with at most two characters buffered — rewound by the buffered characters -/
theorem edifactHandleEOD_total {syms : List SymbolInfo} {c : Ctx} {buf : List Nat}
    (hle : c.pos ≤ c.total) (hbp : buf.length - 1 ≤ c.pos) :
    Clean (edifactHandleEOD syms c buf) ∧
    ∀ c', edifactHandleEOD syms c buf = .ok c' →
      c'.msg = c.msg ∧ c'.skipAtEnd = c.skipAtEnd ∧ c'.cfg = c.cfg ∧ c'.newEnc = some ASCII ∧
      (c'.pos = c.pos ∨ (c.hasMore = false ∧ buf.length - 1 ≤ 2 ∧ c'.pos + (buf.length - 1) = c.pos)) := by
  rw [edifactHandleEOD_eq]
  split
  · refine ⟨Clean.ok _, ?_⟩
    intro c' h
    simp only [Except.ok.injEq] at h
    subst h
    exact ⟨rfl, rfl, rfl, rfl, Or.inl rfl⟩
  · obtain ⟨hE, hEf⟩ := ediEarly_total (syms := syms) buf.length hle
    constructor
    · apply Clean.bind hE
      intro p hp
      obtain ⟨c1, nu⟩ := p
      obtain ⟨hf1, _⟩ := hEf c1 nu hp
      simp only
      split
      · exact Clean.ok _
      · split
        · exact Clean.writer
        · obtain ⟨hS, hSf⟩ := ediStep_total (syms := syms) (c := c1) buf
          apply Clean.bind hS
          intro p2 hp2
          obtain ⟨c2, ria⟩ := p2
          obtain ⟨hf2, _, _⟩ := hSf c2 ria hp2
          simp only
          split
          · have hb : ({ c2 with sym := none } : Ctx).back (buf.length - 1) =
                .ok { ({ c2 with sym := none } : Ctx) with pos := c2.pos - (buf.length - 1) } := by
              simp only [Ctx.back]
              have : buf.length - 1 ≤ c2.pos := by rw [hf2.pos, hf1.pos]; exact hbp
              simp [this]
            rw [hb]
            exact Clean.ok _
          · exact Clean.ok _
    · intro c' h
      obtain ⟨p, hp, h⟩ := bind_ok h
      obtain ⟨c1, nu⟩ := p
      obtain ⟨hf1, _⟩ := hEf c1 nu hp
      simp only at h
      split at h
      · simp only [Except.ok.injEq] at h
        subst h
        exact ⟨hf1.msg, hf1.skip, hf1.cfg, rfl, Or.inl hf1.pos⟩
      · split at h
        · cases h
        · obtain ⟨hS, hSf⟩ := ediStep_total (syms := syms) (c := c1) buf
          obtain ⟨p2, hp2, h⟩ := bind_ok h
          obtain ⟨c2, ria⟩ := p2
          obtain ⟨hf2, _, hria⟩ := hSf c2 ria hp2
          have hf := hf1.trans hf2
          simp only at h
          split at h
          · rename_i hr
            obtain ⟨hnm, hr2⟩ := hria hr
            have hb : ({ c2 with sym := none } : Ctx).back (buf.length - 1) =
                .ok { ({ c2 with sym := none } : Ctx) with pos := c2.pos - (buf.length - 1) } := by
              simp only [Ctx.back]
              have : buf.length - 1 ≤ c2.pos := by rw [hf.pos]; exact hbp
              simp [this]
            rw [hb] at h
            simp only [bind, Except.bind, Except.ok.injEq] at h
            subst h
            refine ⟨hf.msg, hf.skip, hf.cfg, rfl, Or.inr ⟨by rw [← hf1.hasMore]; exact hnm, hr2, ?_⟩⟩
            show c2.pos - (buf.length - 1) + (buf.length - 1) = c.pos
            have := hf.pos
            omega
          · simp only [Except.ok.injEq] at h
            subst h
            exact ⟨hf.msg, hf.skip, hf.cfg, rfl, Or.inl hf.pos⟩

theorem writeQuads_snd_length (l : List Nat) :
    ∃ k, (writeQuads l).2.length + 4 * k = l.length ∧ (writeQuads l).2.length < 4 := by
  obtain ⟨k, h1, h2, _, h4⟩ := writeQuads_split l.length l (Nat.le_refl _)
  refine ⟨k, ?_, ?_⟩ <;> rw [h4, List.length_drop] <;> omega

/-- a whole call of the EDIFACT encoder -/
theorem edifactEncode_total {syms : List SymbolInfo} {la : LookAhead} {c : Ctx}
    (hle : c.pos ≤ c.total) (hnew : c.newEnc = none) :
    Clean (edifactEncode syms la c) ∧
    ∀ c', edifactEncode syms la c = .ok c' →
      c'.msg = c.msg ∧ c'.skipAtEnd = c.skipAtEnd ∧ c'.cfg = c.cfg ∧ c'.newEnc = some ASCII ∧
      c.pos ≤ c'.pos ∧ c'.pos ≤ c'.total ∧ (c'.pos = c.pos → c.remaining ≤ 2) := by
  unfold edifactEncode
  simp only [bind, Except.bind]
  rcases edifactLoop_clean la c.remaining c [] (Nat.le_refl _) with ⟨r, hl⟩ | hl
  · obtain ⟨c1, buf1⟩ := r
    rw [hl]
    simp only
    obtain ⟨chars, _, _, _, hbuf1, hsf, hp1, hp1t, hclen, hexit⟩ :=
      edifactLoop_spec la c.remaining c [] c1 buf1 (by simp) hle hl
    simp only [List.nil_append] at hbuf1
    obtain ⟨k, hk1, hk2⟩ := writeQuads_snd_length (chars.map ediVal)
    rw [← hbuf1, List.length_map] at hk1
    rw [← hbuf1] at hk2
    have hbl : (buf1 ++ [31]).length - 1 = buf1.length := by simp
    obtain ⟨hcl, hpost⟩ := edifactHandleEOD_total (syms := syms) (c := c1) (buf := buf1 ++ [31]) hp1t
      (by rw [hbl]; omega)
    refine ⟨hcl, ?_⟩
    intro c' h
    obtain ⟨q1, q2, q3, q4, q5⟩ := hpost c' h
    rw [hbl] at q5
    have htot : c'.total = c1.total := by simp [Ctx.total, q1, q2]
    have htot1 : c1.total = c.total := by simp [Ctx.total, hsf.msg, hsf.skip]
    refine ⟨by rw [q1, hsf.msg], by rw [q2, hsf.skip], by rw [q3, hsf.cfg], q4, ?_, ?_, ?_⟩
    · rcases q5 with e | ⟨_, _, e⟩ <;> omega
    · rw [htot]; rcases q5 with e | ⟨_, _, e⟩ <;> omega
    · intro hsame
      simp only [Ctx.remaining]
      rcases hexit with ⟨_, hm1⟩ | ⟨_, hb, hlt, _⟩
      · have := (hasMore_false_iff' c1).mp hm1
        rcases q5 with e | ⟨_, e2, e⟩ <;> omega
      · rw [hb] at hk1 q5
        simp only [List.length_nil] at hk1 q5
        rcases q5 with e | ⟨_, _, e⟩ <;> omega
  · rw [hl]
    exact ⟨Clean.writer, fun c' h => by cases h⟩

end Gzx.DMHighLevel
