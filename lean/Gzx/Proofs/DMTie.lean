/-
  Lemmas for the kernel theorems of `Obligations/K08b*.lean` (work package dmmirror): the regenerated Data Matrix
  encoder / decoder loops (`Gzx.Gen.K08b`) against the hand-written models `Gzx.DMEnc` / `Gzx.DMDec`.
  Nothing here mentions the text of a generated definition.

  * `loop_inv_up` / `loop_inv_down`: a counted loop whose body keeps an invariant never leaves through
    `break` / `return` / panic and ends in a state that satisfies the invariant at the last index;
  * `loop_find`: the `for i … { if xs[i] == n { t = i; break } }` search is `DMEnc.findTable`;
  * byte-list facts: checked reads / writes of `words s`, `xorZip`, the register shift of createECCBlock.
-/
import Gzx.GoMDm
import Gzx.Proofs.GoMTie
import Gzx.Model.DMEncoder
namespace Gzx.GoM
open Gzx Gzx.GoVal

variable {σ ρ : Type}

/-! ### counted loops with an invariant -/

/-- `for i := a; …; i++` with `k` iterations left at index `a+i`, invariant indexed by the number of iterations done -/
theorem loop_inv_up (body : Int → σ → Ctl σ ρ) (Inv : Nat → σ → Prop) (a n : Nat)
    (step : ∀ i st, i < n → Inv i st → ∃ st', body ((a + i : Nat) : Int) st = .next st' ∧ Inv (i + 1) st') :
    ∀ (k i : Nat) (st : σ), i + k = n → Inv i st →
      ∃ st', loop body 1 k ((a + i : Nat) : Int) st = .next st' ∧ Inv n st' := by
  intro k
  induction k with
  | zero =>
    intro i st h hi
    have : i = n := by omega
    subst this
    exact ⟨st, rfl, hi⟩
  | succ k ih =>
    intro i st h hi
    obtain ⟨st1, h1, hi1⟩ := step i st (by omega) hi
    obtain ⟨st2, h2, hi2⟩ := ih (i + 1) st1 (by omega) hi1
    refine ⟨st2, ?_, hi2⟩
    rw [loop_succ, h1]
    have e : ((a + i : Nat) : Int) + 1 = ((a + (i + 1) : Nat) : Int) := by omega
    simp only [e]; exact h2

/-- `for k := k0; k > 0; k--`: iterations at k0, k0-1, …, 1; the invariant is indexed by the next index -/
theorem loop_inv_down (body : Int → σ → Ctl σ ρ) (Inv : Nat → σ → Prop)
    (step : ∀ k st, Inv (k + 1) st → ∃ st', body ((k + 1 : Nat) : Int) st = .next st' ∧ Inv k st') :
    ∀ (k : Nat) (st : σ), Inv k st → ∃ st', loop body (-1) k (k : Int) st = .next st' ∧ Inv 0 st' := by
  intro k
  induction k with
  | zero => intro st hi; exact ⟨st, rfl, hi⟩
  | succ k ih =>
    intro st hi
    obtain ⟨st1, h1, hi1⟩ := step k st hi
    obtain ⟨st2, h2, hi2⟩ := ih st1 hi1
    refine ⟨st2, ?_, hi2⟩
    rw [loop_succ, h1]
    have e : ((k + 1 : Nat) : Int) + -1 = (k : Int) := by omega
    simp only [e]; exact h2

/-! ### checked reads and writes of byte lists -/

theorem idx_words_lt (ws : List Nat) (i : Nat) (h : i < ws.length) : idx (words ws) (i : Int) = .ok ((ws.getD i 0 : Nat) : Int) := by
  rw [idx_bytes, List.getElem?_eq_getElem h]
  simp [List.getD_eq_getElem?_getD, List.getElem?_eq_getElem h]

theorem idx_words_lt' (ws : List Nat) (e : Int) (i : Nat) (he : e = i) (h : i < ws.length) :
    idx (words ws) e = .ok ((ws.getD i 0 : Nat) : Int) := by subst he; exact idx_words_lt ws i h

theorem setIdx_words_lt (ws : List Nat) (e v : Int) (i u : Nat) (he : e = i) (hv : v = u) (h : i < ws.length) :
    setIdx (words ws) e v = .ok (words (ws.set i u)) := by
  rw [setIdx_words ws e v i u he hv]; simp [Bits.setWord, h, Except.map]

theorem idxL_map (t : List (List Nat)) (i : Nat) (r : List Nat) (h : t[i]? = some r) :
    idxL (t.map words) (i : Int) = .ok (words r) := by
  unfold idxL
  have h0 : ¬ ((i : Int) < 0) := by omega
  simp [h0, h]

theorem mk_words' (n : Nat) : mk (n : Int) = .ok (words (List.replicate n 0)) := mk_words _ n rfl

/-! ### the table search of createECCBlock -/

theorem findTable_drop (n : Nat) (fs : List Nat) (a : Nat) (h : a < fs.length) :
    DMEnc.findTable n (fs.drop a) a = if fs[a] = n then some a else DMEnc.findTable n (fs.drop (a + 1)) (a + 1) := by
  rw [List.drop_eq_getElem_cons h]; rfl

/-- `t := st; for i := a; i < len(xs); i++ { if xs[i] == n { t = i; break } }` -/
theorem loop_find (fs : List Nat) (n : Nat) (body : Int → Int → Ctl Int ρ)
    (hb : ∀ (i : Nat) (st : Int), i < fs.length → body (i : Int) st = if fs.getD i 0 = n then .brk (i : Int) else .next st) :
    ∀ (k a : Nat) (st : Int), a + k = fs.length →
      loop body 1 k (a : Int) st =
        match DMEnc.findTable n (fs.drop a) a with
        | some t => .brk (t : Int)
        | none => .next st := by
  intro k
  induction k with
  | zero =>
    intro a st h
    have : fs.drop a = [] := List.drop_eq_nil_of_le (by omega)
    rw [this]; rfl
  | succ k ih =>
    intro a st h
    have ha : a < fs.length := by omega
    rw [loop_succ, hb a st ha, findTable_drop n fs a ha]
    have e : fs.getD a 0 = fs[a] := by simp [List.getD_eq_getElem?_getD, List.getElem?_eq_getElem ha]
    rw [e]
    by_cases hf : fs[a] = n
    · simp [hf]
    · simp only [hf, if_false]
      have e2 : (a : Int) + 1 = ((a + 1 : Nat) : Int) := by omega
      rw [e2]; exact ih (a + 1) st (by omega)

theorem findTable_some (n : Nat) : ∀ (fs : List Nat) (a t : Nat), DMEnc.findTable n fs a = some t →
    a ≤ t ∧ fs[t - a]? = some n := by
  intro fs
  induction fs with
  | nil => intro a t h; cases h
  | cons f fs ih =>
    intro a t h
    unfold DMEnc.findTable at h
    by_cases hf : f = n
    · simp only [hf, if_true] at h; injection h with h; subst h; subst hf; simp
    · simp only [hf, if_false] at h
      obtain ⟨h1, h2⟩ := ih (a + 1) t h
      refine ⟨by omega, ?_⟩
      have : t - a = (t - (a + 1)) + 1 := by omega
      rw [this]; simpa using h2

/-! ### the shift register of createECCBlock -/

theorem xorZip_length : ∀ (xs ys : List Nat), (DMEnc.xorZip xs ys).length = min xs.length ys.length
  | [], _ => by simp [DMEnc.xorZip]
  | _ :: _, [] => by simp [DMEnc.xorZip]
  | x :: xs, y :: ys => by simp [DMEnc.xorZip, xorZip_length xs ys]

theorem xorZip_getD : ∀ (xs ys : List Nat) (i : Nat), i < xs.length → i < ys.length →
    (DMEnc.xorZip xs ys).getD i 0 = xs.getD i 0 ^^^ ys.getD i 0
  | [], _, _, h, _ => by simp at h
  | _ :: _, [], _, _, h => by simp at h
  | x :: xs, y :: ys, 0, _, _ => by simp [DMEnc.xorZip]
  | x :: xs, y :: ys, i + 1, h1, h2 => by
    simp only [DMEnc.xorZip, List.getD_cons_succ]
    exact xorZip_getD xs ys i (by simpa using h1) (by simpa using h2)

theorem getD_cons_dropLast (e : List Nat) (i : Nat) (h : i + 1 < e.length + 1) (hi : 0 < i) :
    (0 :: e.dropLast).getD i 0 = e.getD (i - 1) 0 := by
  obtain ⟨j, rfl⟩ : ∃ j, i = j + 1 := ⟨i - 1, by omega⟩
  simp only [List.getD_cons_succ, Nat.add_sub_cancel]
  have hj : j < e.dropLast.length := by simp; omega
  simp [List.getD_eq_getElem?_getD, List.getElem?_eq_getElem hj, List.getElem?_eq_getElem (by omega : j < e.length)]

/-- pointwise description of one step of the register: what the in-place downward loop followed by the write of
    cell 0 must have produced -/
theorem eccStep_ext (mul : Nat → Nat → Nat) (poly ecc s : List Nat) (cw n : Nat) (hn : 0 < n)
    (hl : ecc.length = n) (hp : poly.length = n) (hs : s.length = n)
    (h0 : s.getD 0 0 = mul (ecc.getLastD 0 ^^^ cw) (poly.getD 0 0))
    (hk : ∀ i, 0 < i → i < n → s.getD i 0 = ecc.getD (i - 1) 0 ^^^ mul (ecc.getLastD 0 ^^^ cw) (poly.getD i 0)) :
    s = DMEnc.eccStep mul poly ecc cw := by
  unfold DMEnc.eccStep
  have hlen : (DMEnc.xorZip (0 :: ecc.dropLast) (poly.map (mul (ecc.getLastD 0 ^^^ cw)))).length = n := by
    rw [xorZip_length]; simp; omega
  apply List.ext_getElem (by rw [hs, hlen])
  intro i h1 h2
  have e1 : s[i] = s.getD i 0 := by simp [List.getD_eq_getElem?_getD, List.getElem?_eq_getElem h1]
  have e2 : ∀ (l : List Nat) (h : i < l.length), l[i] = l.getD i 0 := by
    intro l h; simp [List.getD_eq_getElem?_getD, List.getElem?_eq_getElem h]
  rw [e1, e2 _ h2, xorZip_getD _ _ i (by simp; omega) (by simp; omega)]
  have hm : (poly.map (mul (ecc.getLastD 0 ^^^ cw))).getD i 0 = mul (ecc.getLastD 0 ^^^ cw) (poly.getD i 0) := by
    have hi : i < poly.length := by omega
    simp [List.getD_eq_getElem?_getD, List.getElem?_eq_getElem hi]
  rw [hm]
  by_cases hi : i = 0
  · subst hi
    rw [h0]; simp
  · rw [hk i (by omega) (by omega), getD_cons_dropLast ecc i (by omega) (by omega)]

/-- all elements are bytes -/
def Bytes (s : List Nat) : Prop := ∀ x ∈ s, x < 256

theorem Bytes.getD {s : List Nat} (h : Bytes s) (i : Nat) : s.getD i 0 < 256 := by
  by_cases hi : i < s.length
  · simp only [List.getD_eq_getElem?_getD, List.getElem?_eq_getElem hi, Option.getD_some]
    exact h _ (List.getElem_mem hi)
  · simp [List.getD_eq_getElem?_getD, List.getElem?_eq_none (by omega : s.length ≤ i)]

theorem Bytes.set {s : List Nat} (h : Bytes s) (i v : Nat) (hv : v < 256) : Bytes (s.set i v) := by
  intro x hx
  rcases List.mem_or_eq_of_mem_set hx with h1 | h1
  · exact h x h1
  · subst h1; exact hv

theorem bytes_replicate (n : Nat) : Bytes (List.replicate n 0) := by
  intro x hx; rw [List.mem_replicate] at hx; omega

theorem xor_lt_256 {a b : Nat} (ha : a < 256) (hb : b < 256) : a ^^^ b < 256 :=
  Nat.xor_lt_two_pow (n := 8) ha hb

end Gzx.GoM
