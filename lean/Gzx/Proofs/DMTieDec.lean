/-
  Lemmas for `Obligations/K08bDec.lean` (work package dmmirror): the fill loops of the regenerated
  `DataBlocks_getDataBlocks` against `DMDec.fillBlocks` / `DMDec.dbTargets`.  Nothing here mentions the text of a
  generated definition.

  `fillFrom raw ts off b`: write `raw[off], raw[off+1], …` to the targets `ts` (block, position) of the block list `b`,
  `none` as soon as a target or a raw index is out of range — the success path of `DMDec.fillBlocks`, with an explicit
  offset so that consecutive loops compose (`fillFrom_append`).
  `loop_fill`: a counted loop whose iteration `i` performs the targets `T i` performs `flatMap T` of its index range.
-/
import Gzx.GoMDm
import Gzx.Proofs.DMTie
import Gzx.Model.DMDecoder
namespace Gzx.GoM
open Gzx Gzx.GoVal

/-- Go `[][]byte` of a model block list -/
abbrev cwI (b : List (List Nat)) : List (List Int) := b.map words

def fillFrom (raw : List Nat) : List (Nat × Nat) → Nat → List (List Nat) → Option (List (List Nat))
  | [], _, b => some b
  | (j, i) :: ts, off, b =>
    match raw[off]? with
    | none => none
    | some x =>
      match DMDec.set2 b j i x with
      | none => none
      | some b' => fillFrom raw ts (off + 1) b'

theorem fillFrom_append (raw : List Nat) : ∀ (ts1 ts2 : List (Nat × Nat)) (off : Nat) (b : List (List Nat)),
    fillFrom raw (ts1 ++ ts2) off b = (fillFrom raw ts1 off b).bind (fillFrom raw ts2 (off + ts1.length)) := by
  intro ts1
  induction ts1 with
  | nil => intro ts2 off b; simp [fillFrom]
  | cons t ts1 ih =>
    intro ts2 off b
    obtain ⟨j, i⟩ := t
    simp only [List.cons_append, fillFrom, List.length_cons]
    cases raw[off]? with
    | none => rfl
    | some x =>
      simp only []
      cases DMDec.set2 b j i x with
      | none => rfl
      | some b' =>
        simp only []
        rw [ih ts2 (off + 1) b']
        congr 2; omega

theorem drop_eq_cons_iff (raw : List Nat) (off x : Nat) (xs : List Nat) (h : raw.drop off = x :: xs) :
    raw[off]? = some x ∧ raw.drop (off + 1) = xs := by
  have hlt : off < raw.length := by
    have := congrArg List.length h; simp at this; omega
  rw [List.drop_eq_getElem_cons hlt] at h
  injection h with h1 h2
  exact ⟨by rw [List.getElem?_eq_getElem hlt, h1], h2⟩

/-- the model's `fillBlocks` returned blocks: every target and raw index was in range and the raw codewords were used up -/
theorem fillBlocks_ok (raw : List Nat) : ∀ (ts : List (Nat × Nat)) (off : Nat) (b b' : List (List Nat)), off ≤ raw.length →
    DMDec.fillBlocks ts (raw.drop off) b = .ok b' → fillFrom raw ts off b = some b' ∧ raw.length = off + ts.length := by
  intro ts
  induction ts with
  | nil =>
    intro off b b' hoff h
    cases hd : raw.drop off with
    | nil =>
      rw [hd] at h
      simp only [DMDec.fillBlocks] at h
      injection h with h; subst h
      have : raw.length ≤ off := by have := congrArg List.length hd; simp at this; omega
      exact ⟨rfl, by simp; omega⟩
    | cons x xs => rw [hd] at h; simp [DMDec.fillBlocks] at h
  | cons t ts ih =>
    intro off b b' hoff h
    obtain ⟨j, i⟩ := t
    cases hd : raw.drop off with
    | nil => rw [hd] at h; simp [DMDec.fillBlocks] at h
    | cons x xs =>
      rw [hd] at h
      obtain ⟨hx, hxs⟩ := drop_eq_cons_iff raw off x xs hd
      have hlt : off < raw.length := (List.getElem?_eq_some_iff.mp hx).1
      simp only [DMDec.fillBlocks] at h
      cases hs : DMDec.set2 b j i x with
      | none => rw [hs] at h; cases h
      | some b1 =>
        rw [hs] at h
        simp only [] at h
        rw [← hxs] at h
        obtain ⟨h1, h2⟩ := ih (off + 1) b1 b' (by omega) h
        exact ⟨by simp only [fillFrom, hx, hs]; exact h1, by simp only [List.length_cons]; omega⟩

/-- the model's `fillBlocks` returned the FormatException: all targets were written and raw codewords were left over -/
theorem fillBlocks_format (raw : List Nat) : ∀ (ts : List (Nat × Nat)) (off : Nat) (b : List (List Nat)), off ≤ raw.length →
    DMDec.fillBlocks ts (raw.drop off) b = .error .format →
      ∃ b', fillFrom raw ts off b = some b' ∧ off + ts.length < raw.length := by
  intro ts
  induction ts with
  | nil =>
    intro off b hoff h
    cases hd : raw.drop off with
    | nil => rw [hd] at h; simp [DMDec.fillBlocks] at h
    | cons x xs =>
      have : off < raw.length := by have := congrArg List.length hd; simp at this; omega
      exact ⟨b, rfl, by simp; omega⟩
  | cons t ts ih =>
    intro off b hoff h
    obtain ⟨j, i⟩ := t
    cases hd : raw.drop off with
    | nil => rw [hd] at h; simp [DMDec.fillBlocks] at h
    | cons x xs =>
      rw [hd] at h
      obtain ⟨hx, hxs⟩ := drop_eq_cons_iff raw off x xs hd
      have hlt : off < raw.length := (List.getElem?_eq_some_iff.mp hx).1
      simp only [DMDec.fillBlocks] at h
      cases hs : DMDec.set2 b j i x with
      | none => rw [hs] at h; cases h
      | some b1 =>
        rw [hs] at h
        simp only [] at h
        rw [← hxs] at h
        obtain ⟨b', h1, h2⟩ := ih (off + 1) b1 (by omega) h
        exact ⟨b', by simp only [fillFrom, hx, hs]; exact h1, by simp only [List.length_cons]; omega⟩

theorem natCast_bne' (a b : Nat) : (((a : Int) != (b : Int)) : Bool) = (a != b) := by
  by_cases h : a = b
  · subst h; simp
  · have : ¬ (a : Int) = (b : Int) := by omega
    rw [bne_iff_ne.mpr this, bne_iff_ne.mpr h]

theorem natCast_beq' (a b : Nat) : (((a : Int) == (b : Int)) : Bool) = (a == b) := by
  by_cases h : a = b
  · subst h; simp
  · have : ¬ (a : Int) = (b : Int) := by omega
    rw [beq_eq_false_iff_ne.mpr this, beq_eq_false_iff_ne.mpr h]

/-! ### one target, one loop -/

variable {σ ρ : Type}

theorem idxL_cwI (b : List (List Nat)) (e : Int) (j : Nat) (r : List Nat) (he : e = j) (h : b[j]? = some r) :
    idxL (cwI b) e = .ok (words r) := by
  subst he; exact idxL_map b j r h

theorem setIdxLL_cwI (b : List (List Nat)) (e : Int) (j : Nat) (r : List Nat) (he : e = j) (h : j < b.length) :
    setIdxLL (cwI b) e (words r) = .ok (cwI (b.set j r)) := by
  subst he
  unfold setIdxLL
  have h0 : ¬ ((j : Int) < 0) := by omega
  simp [h0, h, cwI, List.map_set]

/-- `result[j].codewords[i] = rawCodewords[off]` (four checked operations) for a target the model accepts -/
theorem target_step (raw : List Nat) (b b' : List (List Nat)) (j i off : Nat)
    (h : fillFrom raw [(j, i)] off b = some b') (k : List (List Int) → Ctl σ ρ) (eo ej ei : Int)
    (ho : eo = off) (hj : ej = j) (hi : ei = i) :
    (tryC (idx (words raw) eo) fun t10 => tryC (idxL (cwI b) ej) fun t11 => tryC (setIdx t11 ei t10) fun t12 =>
      tryC (setIdxLL (cwI b) ej t12) k) = k (cwI b') := by
  simp only [fillFrom] at h
  cases hx : raw[off]? with
  | none => rw [hx] at h; cases h
  | some x =>
    rw [hx] at h
    simp only [] at h
    unfold DMDec.set2 at h
    cases hr : b[j]? with
    | none => rw [hr] at h; cases h
    | some r =>
      rw [hr] at h
      simp only [] at h
      by_cases hil : i < r.length
      · simp only [hil, if_true] at h
        injection h with h; subst h
        have hlt : off < raw.length := (List.getElem?_eq_some_iff.mp hx).1
        have hjl : j < b.length := (List.getElem?_eq_some_iff.mp hr).1
        rw [idx_words_lt' raw eo off ho hlt]
        simp only [tryC_ok]
        rw [idxL_cwI b ej j r hj hr]
        simp only [tryC_ok]
        rw [setIdx_words_lt r ei _ i (raw.getD off 0) hi rfl hil]
        simp only [tryC_ok]
        rw [setIdxLL_cwI b ej j _ hj hjl]
        simp only [tryC_ok]
        have : raw.getD off 0 = x := by simp [List.getD_eq_getElem?_getD, hx]
        rw [this]
      · simp only [hil, if_false] at h; cases h

/-- a counted loop whose iteration `i` writes the targets `T i` writes `flatMap T` of its index range -/
theorem loop_fill (raw : List Nat) (body : Int → (List (List Int) × Int) → Ctl (List (List Int) × Int) ρ)
    (T : Nat → List (Nat × Nat)) :
    ∀ (n i0 : Nat),
      (∀ i b off b', i0 ≤ i → i < i0 + n → fillFrom raw (T i) off b = some b' →
        body (i : Int) (cwI b, (off : Int)) = .next (cwI b', ((off + (T i).length : Nat) : Int))) →
      ∀ (b : List (List Nat)) (off : Nat) (b' : List (List Nat)),
        fillFrom raw ((List.range' i0 n).flatMap T) off b = some b' →
        loop body 1 n (i0 : Int) (cwI b, (off : Int)) =
          .next (cwI b', ((off + ((List.range' i0 n).flatMap T).length : Nat) : Int)) := by
  intro n
  induction n with
  | zero => intro i0 _ b off b' h; simp [fillFrom] at h; subst h; simp [loop]
  | succ n ih =>
    intro i0 hb b off b' h
    rw [List.range'_succ, List.flatMap_cons, fillFrom_append] at h
    cases h1 : fillFrom raw (T i0) off b with
    | none => rw [h1] at h; cases h
    | some b1 =>
      rw [h1] at h
      simp only [Option.bind_some] at h
      rw [loop_succ, hb i0 b off b1 (Nat.le_refl _) (by omega) h1]
      simp only []
      have e : (i0 : Int) + 1 = ((i0 + 1 : Nat) : Int) := by omega
      rw [e, ih (i0 + 1) (fun i b off b' h1 h2 => hb i b off b' (by omega) (by omega)) b1 _ b' h]
      rw [List.range'_succ, List.flatMap_cons, List.length_append]
      congr 3; omega

end Gzx.GoM
