/-
  C02: for look-ahead oracles proposing only ASCII / Base 256, `encodeHL` terminates within its fuel and never
  panics: the result is a codeword list or a WriterException (no symbol fits / Base-256 run too long).
-/
import Gzx.Proofs.DMRoundTripAB
namespace Gzx.DMHighLevel

theorem hasMore_iff (c : Ctx) : c.hasMore = true ↔ c.pos < c.total := by simp [Ctx.hasMore]
theorem hasMore_false_iff (c : Ctx) : c.hasMore = false ↔ ¬ c.pos < c.total := by simp [Ctx.hasMore]

theorem hasMore_cur {c : Ctx} (h : c.hasMore = true) : ∃ ch, c.cur = .ok ch ∧ c.msg[c.pos]? = some ch := by
  have hlt : c.pos < c.msg.length := by
    have := (hasMore_iff c).mp h
    simp only [Ctx.total] at this; omega
  refine ⟨c.msg[c.pos], ?_, List.getElem?_eq_getElem hlt⟩
  simp [Ctx.cur, List.getElem?_eq_getElem hlt]

theorem ascii_total {la : LookAhead} (hla : LaAB la) {c : Ctx} (h : c.hasMore = true) :
    ∃ c', asciiEncode la c = .ok c' ∧ c'.msg = c.msg ∧ c'.skipAtEnd = c.skipAtEnd ∧
      ((c'.newEnc = c.newEnc ∧ c.pos < c'.pos) ∨ (c'.newEnc = some BASE256 ∧ c'.pos = c.pos)) := by
  obtain ⟨ch, hc, hget⟩ := hasMore_cur h
  unfold asciiEncode
  simp only
  split
  · rename_i hn
    obtain ⟨d1, d2, r, hl, _, _⟩ := digitRun_two hn
    obtain ⟨g1, _, dr1, _⟩ := drop_cons_facts hl
    obtain ⟨g2, _, _, _⟩ := drop_cons_facts dr1
    rw [g1, g2]
    exact ⟨_, rfl, rfl, rfl, Or.inl ⟨rfl, by simp [Ctx.write]⟩⟩
  · rw [hc]
    simp only [bind, Except.bind]
    rcases hla c.msg c.pos ASCII with h0 | h5
    · rw [h0]
      simp only [ne_eq, not_true_eq_false, if_false]
      split
      · exact ⟨_, rfl, rfl, rfl, Or.inl ⟨rfl, by simp [Ctx.write]⟩⟩
      · exact ⟨_, rfl, rfl, rfl, Or.inl ⟨rfl, by simp [Ctx.write]⟩⟩
    · rw [h5]
      simp only [show (BASE256 : Nat) ≠ ASCII by decide, ne_eq, not_false_eq_true, if_true]
      exact ⟨_, rfl, rfl, rfl, Or.inr ⟨rfl, rfl⟩⟩

theorem b256Loop_total (la : LookAhead) :
    ∀ (fuel : Nat) (c : Ctx) (data : List Nat), c.remaining ≤ fuel →
      ∃ c1 d, b256Loop la fuel c data = .ok (c1, d) := by
  intro fuel
  induction fuel with
  | zero =>
    intro c data hr
    simp only [b256Loop]
    have : c.hasMore = false := by
      simp only [Ctx.remaining] at hr
      rw [hasMore_false_iff]; omega
    simp [this]
  | succ n ih =>
    intro c data hr
    simp only [b256Loop]
    by_cases hm : c.hasMore = true
    · obtain ⟨ch, hc, _⟩ := hasMore_cur hm
      simp only [hm, Bool.not_true, Bool.false_eq_true, if_false, hc, bind, Except.bind]
      split
      · exact ⟨_, _, rfl⟩
      · apply ih
        have hm2 := (hasMore_iff c).mp hm
        simp only [Ctx.remaining, Ctx.total] at hr hm2 ⊢
        omega
    · simp only [Bool.not_eq_true] at hm
      simp [hm]

/-- result shapes of one Base-256 encoder call -/
theorem b256_total {syms : List SymbolInfo} {la : LookAhead} {c : Ctx} (hmore : c.hasMore = true)
    (hle : c.pos ≤ c.total) (hnew : c.newEnc = none) :
    b256Encode syms la c = .error .writer ∨
    ∃ c', b256Encode syms la c = .ok c' ∧ c'.msg = c.msg ∧ c'.skipAtEnd = c.skipAtEnd ∧ c.pos < c'.pos ∧
      c'.pos ≤ c'.total ∧ (c'.newEnc = none ∨ c'.newEnc = some ASCII) := by
  obtain ⟨c1, data, hl⟩ := b256Loop_total la c.remaining c [] (Nat.le_refl _)
  obtain ⟨hcw1, hsf1, hp1, hpt1, hdata, hne1, hprog⟩ := b256Loop_spec la c.remaining c [] c1 data hle hl
  unfold b256Encode
  rw [hl]
  simp only [bind, Except.bind]
  cases hu : c1.update syms (c1.count + data.length + 1) with
  | error e =>
    left
    have : e = .writer := by
      unfold Ctx.update at hu
      simp only at hu
      repeat' split at hu
      all_goals first | (cases hu; rfl) | cases hu
    rw [this]
  | ok c2 =>
    simp only
    obtain ⟨ucw, umsg, upos, ucfg, uskip, unew, s, hs, hcap, _⟩ := update_spec hu
    have hcapok : c2.capacity = .ok s.cap := by simp [Ctx.capacity, hs]
    rw [hcapok]
    simp only
    have hnew2 : c2.newEnc = none ∨ c2.newEnc = some ASCII := by
      rw [unew]
      rcases hne1 with ⟨h1, _⟩ | h1
      · exact Or.inl (by rw [h1, hnew])
      · exact Or.inr h1
    have hpt2 : c2.pos ≤ c2.total := by simpa [Ctx.total, umsg, upos, uskip] using hpt1
    have hpos2 : c.pos < c2.pos := by rw [upos]; exact hprog hmore
    by_cases hcond : c2.hasMore = true ∨ s.cap - (c1.count + data.length + 1) > 0
    · simp only [hcond, if_true]
      by_cases h249 : data.length ≤ 249
      · simp only [h249, if_true]
        exact Or.inr ⟨_, rfl, by simp [Ctx.writeAll, umsg, hsf1.msg], by simp [Ctx.writeAll, uskip, hsf1.skip],
          hpos2, hpt2, hnew2⟩
      · by_cases h1555 : data.length ≤ 1555
        · simp only [h249, h1555, if_true, if_false]
          exact Or.inr ⟨_, rfl, by simp [Ctx.writeAll, umsg, hsf1.msg], by simp [Ctx.writeAll, uskip, hsf1.skip],
            hpos2, hpt2, hnew2⟩
        · simp [h249, h1555]
    · simp only [hcond, if_false]
      exact Or.inr ⟨_, rfl, by simp [Ctx.writeAll, umsg, hsf1.msg], by simp [Ctx.writeAll, uskip, hsf1.skip],
        hpos2, hpt2, hnew2⟩

theorem dispatch_total_ab {syms : List SymbolInfo} {la : LookAhead} (hla : LaAB la) :
    ∀ (fuel mode : Nat) (c : Ctx), (mode = ASCII ∨ mode = BASE256) → c.newEnc = none → c.pos ≤ c.total →
      2 * c.remaining + (if mode = ASCII then 1 else 0) < fuel →
      dispatch syms la fuel mode c = .error .writer ∨
      ∃ c' m', dispatch syms la fuel mode c = .ok (c', m') ∧ (m' = ASCII ∨ m' = BASE256) := by
  intro fuel
  induction fuel with
  | zero => intro mode c _ _ _ h; omega
  | succ n ih =>
    intro mode c hmode hnew hle hfuel
    simp only [dispatch]
    by_cases hm : c.hasMore = true
    · simp only [hm, Bool.not_true, Bool.false_eq_true, if_false]
      have hr : 0 < c.remaining := by
        have hm2 := (hasMore_iff c).mp hm
        simp only [Ctx.remaining]; omega
      rcases hmode with rfl | rfl
      · -- ASCII
        simp only [encodeMode, if_true]
        obtain ⟨c1, he, hmsg, hskip, hstep⟩ := ascii_total hla hm
        rw [he]
        simp only [bind, Except.bind]
        rcases hstep with ⟨hn, hp⟩ | ⟨hn, hp⟩
        · rw [hn, hnew]
          simp only
          -- the position may step over the end only by the second digit; `remaining` still shrinks
          by_cases hle1 : c1.pos ≤ c1.total
          · apply ih ASCII c1 (Or.inl rfl) (by rw [hn, hnew]) hle1
            simp only [Ctx.remaining, Ctx.total, hmsg, hskip] at hfuel hr ⊢
            simp only [if_true] at hfuel ⊢
            omega
          · -- past the end: the loop stops at once
            have hnm : c1.hasMore = false := by
              rw [hasMore_false_iff]; omega
            cases n with
            | zero => simp only [if_true] at hfuel; omega
            | succ k =>
              simp only [dispatch, hnm, Bool.not_false, if_true]
              exact Or.inr ⟨_, _, rfl, Or.inl rfl⟩
        · rw [hn]
          simp only
          apply ih BASE256 _ (Or.inr rfl) rfl
          · show c1.pos ≤ ({ c1 with newEnc := none } : Ctx).total
            simp only [Ctx.total, hmsg, hskip, hp] at hle ⊢; exact hle
          · simp only [Ctx.remaining, Ctx.total, hmsg, hskip, hp] at hfuel ⊢
            simp only [if_true, show ¬ (BASE256 : Nat) = ASCII by decide, if_false] at hfuel ⊢
            omega
      · -- Base 256
        simp only [encodeMode, show ¬ (BASE256 : Nat) = ASCII by decide, show ¬ (BASE256 : Nat) = C40 by decide,
          show ¬ (BASE256 : Nat) = TEXT by decide, show ¬ (BASE256 : Nat) = X12 by decide,
          show ¬ (BASE256 : Nat) = EDIFACT by decide, if_false, if_true]
        rcases b256_total (syms := syms) (la := la) hm hle hnew with he | ⟨c1, he, hmsg, hskip, hp, hpt, hn⟩
        · rw [he]; left; rfl
        · rw [he]
          simp only [bind, Except.bind]
          have hrem : c1.remaining < c.remaining := by
            simp only [Ctx.remaining, Ctx.total, hmsg, hskip] at hr hpt ⊢; omega
          rcases hn with hn | hn
          · rw [hn]
            simp only
            apply ih BASE256 c1 (Or.inr rfl) hn hpt
            simp only [show ¬ (BASE256 : Nat) = ASCII by decide, if_false] at hfuel ⊢
            omega
          · rw [hn]
            simp only
            apply ih ASCII _ (Or.inl rfl) rfl
            · exact hpt
            · show 2 * c1.remaining + _ < n
              simp only [show ¬ (BASE256 : Nat) = ASCII by decide, if_false, if_true] at hfuel ⊢
              omega
    · simp only [Bool.not_eq_true] at hm
      simp only [hm, Bool.not_false, if_true]
      exact Or.inr ⟨_, _, rfl, hmode⟩

/-- `encodeHL` with an ASCII / Base-256 oracle: codewords or a WriterException — never out of fuel, never a
    panic. -/
theorem encode_total_ab (syms : List SymbolInfo) (la : LookAhead) (hla : LaAB la) (msg : List Nat) (cfg : Cfg) :
    encodeHL syms la msg cfg = .error .writer ∨ ∃ cw, encodeHL syms la msg cfg = .ok cw := by
  obtain ⟨a0, _, hn0, _, hle0, hmsg0, _⟩ := initCtx_inv refTables msg cfg
  unfold encodeHL
  have hfuel : 2 * (initCtx msg cfg).remaining + (if ASCII = ASCII then 1 else 0) < dispatchFuel msg := by
    simp only [Ctx.remaining, Ctx.total, hmsg0, dispatchFuel, if_true]; omega
  rcases dispatch_total_ab (syms := syms) hla (dispatchFuel msg) ASCII (initCtx msg cfg) (Or.inl rfl) hn0 hle0 hfuel
    with he | ⟨c1, m1, he, _⟩
  · rw [he]; left; rfl
  · rw [he]
    simp only [bind, Except.bind]
    cases hu : c1.update syms c1.count with
    | error e =>
      left
      have : e = .writer := by
        unfold Ctx.update at hu
        simp only at hu
        repeat' split at hu
        all_goals first | (cases hu; rfl) | cases hu
      rw [this]
    | ok c2 =>
      obtain ⟨_, _, _, _, _, _, s, hs, _, _⟩ := update_spec hu
      have hcapok : c2.capacity = .ok s.cap := by simp [Ctx.capacity, hs]
      simp only [hcapok]
      exact Or.inr ⟨_, rfl⟩

end Gzx.DMHighLevel
