/-
  C02: C40 / Text / X12 segments at stream level — the decoder on complete triplets written by
  `writeTriplets`, followed by an explicit unlatch.
-/
import Gzx.Proofs.DMInvariant
namespace Gzx.DMHighLevel

/-! ## packing -/

theorem packTriplet_spec (a b c : Nat) (ha : a < 40) (hb : b < 40) (hc : c < 40) :
    ∃ b1 b2, packTriplet a b c = [b1, b2] ∧ b1 ≠ 254 ∧ b1 < 256 ∧ b2 < 256 ∧
      parseTwoBytes b1 b2 = ((a : Int), (b : Int), (c : Int)) := by
  have hq : (1600 * a + 40 * b + c + 1) / 256 ≤ 250 := by omega
  have hm : (1600 * a + 40 * b + c + 1) / 256 % 256 = (1600 * a + 40 * b + c + 1) / 256 := by omega
  exact ⟨_, _, rfl, by rw [hm]; omega, by omega, by omega, parseTwoBytes_pack a b c ha hb hc⟩

theorem Acc.endSeg_of_pend (b : Acc) (h : b.pend = 0) : b.endSeg = b := by
  cases b; simp_all [Acc.endSeg]

/-! ## X12 -/

/-- the characters a list of X12 values stands for -/
def x12Chars : List Nat → Res (List Nat)
  | [] => .ok []
  | v :: vs =>
    match x12Value (v : Int), x12Chars vs with
    | .ok c, .ok cs => .ok (c :: cs)
    | .error e, _ => .error e
    | _, .error e => .error e

theorem pushAll_append (a : Acc) (xs ys : List Nat) : a.pushAll (xs ++ ys) = (a.pushAll xs).pushAll ys := by
  induction xs generalizing a with
  | nil => rfl
  | cons x xs ih => simp [Acc.pushAll, ih]

/-- the decoder walks through complete triplets -/
theorem x12Seg_triplets : ∀ (k : Nat) (vals chars tail : List Nat) (a : Acc) (n : Nat),
    vals.length = 3 * k → (∀ v ∈ vals, v < 40) → x12Chars vals = .ok chars →
    x12Seg ((writeTriplets vals).1 ++ tail) a n
      = x12Seg tail (a.pushAll chars) (n + (writeTriplets vals).1.length) ∧ (writeTriplets vals).2 = [] := by
  intro k
  induction k with
  | zero =>
    intro vals chars tail a n hl _ hc
    have : vals = [] := List.eq_nil_of_length_eq_zero (by omega)
    subst this
    simp only [x12Chars, Except.ok.injEq] at hc
    subst hc
    simp [writeTriplets, Acc.pushAll]
  | succ k ih =>
    intro vals chars tail a n hl hv hc
    match vals, hl with
    | v1 :: v2 :: v3 :: rest, hl =>
      have h1 : v1 < 40 := hv v1 (by simp)
      have h2 : v2 < 40 := hv v2 (by simp)
      have h3 : v3 < 40 := hv v3 (by simp)
      obtain ⟨b1, b2, hp, hne, _, _, hparse⟩ := packTriplet_spec v1 v2 v3 h1 h2 h3
      simp only [x12Chars] at hc
      cases e1 : x12Value (v1 : Int) with
      | error e => rw [e1] at hc; simp at hc
      | ok c1 =>
        cases e2 : x12Value (v2 : Int) with
        | error e => rw [e1, e2] at hc; cases h : x12Chars (v3 :: rest) <;> simp [h, x12Chars] at hc <;> (split at hc <;> simp at hc)
        | ok c2 =>
          cases e3 : x12Value (v3 : Int) with
          | error e =>
            rw [e1, e2, e3] at hc
            exfalso
            cases h : x12Chars rest <;> simp [h] at hc
          | ok c3 =>
            cases e4 : x12Chars rest with
            | error e => rw [e1, e2, e3, e4] at hc; simp at hc
            | ok cs =>
              rw [e1, e2, e3, e4] at hc
              simp only [Except.ok.injEq] at hc
              subst hc
              have hlr : rest.length = 3 * k := by simp only [List.length_cons] at hl; omega
              obtain ⟨ihs, ihe⟩ := ih rest cs tail (((a.push c1).push c2).push c3) (n + 2) hlr
                (fun v hv' => hv v (by simp [hv'])) e4
              refine ⟨?_, by simp only [writeTriplets]; exact ihe⟩
              simp only [writeTriplets, hp, List.cons_append, List.nil_append, x12Seg, hne, if_false, hparse,
                e1, e2, e3, List.length_cons, List.length_append]
              rw [ihs]
              simp only [Acc.pushAll]
              congr 1
              first | omega | (simp only [List.length_nil]; omega)

/-- an X12 segment of complete triplets with an explicit unlatch, latch included, extends `DecodesTo` -/
theorem decodesTo_x12 {T : Tables} {cw : List Nat} {a : Acc} (h : DecodesTo T cw a) (hp : a.pend = 0)
    (k : Nat) (vals chars : List Nat) (hl : vals.length = 3 * k) (hv : ∀ v ∈ vals, v < 40)
    (hc : x12Chars vals = .ok chars) (hch : ∀ c ∈ chars, c < 128) :
    DecodesTo T (cw ++ [238] ++ (writeTriplets vals).1 ++ [254]) (a.pushAll chars) := by
  have hpend : ∀ (cs : List Nat) (b : Acc), (∀ c ∈ cs, c < 128) → (b.pushAll cs).pend = b.pend := by
    intro cs
    induction cs with
    | nil => intro b _; rfl
    | cons x xs ih =>
      intro b hx
      simp only [Acc.pushAll]
      rw [ih _ (fun c hc' => hx c (by simp [hc'])), Acc.push_pend_lt _ _ (hx x (by simp))]
  have hes : (a.pushAll chars).endSeg = a.pushAll chars :=
    Acc.endSeg_of_pend _ (by rw [hpend chars a hch, hp])
  intro suf
  obtain ⟨hseg, _⟩ := x12Seg_triplets k vals chars (254 :: suf) a 0 hl hv hc
  rw [List.append_assoc, List.append_assoc, List.append_assoc, h]
  simp only [List.singleton_append, List.cons_append, List.nil_append, decLoop,
    show ¬ (238 : Nat) = 0 by decide, show ¬ (238 : Nat) ≤ 128 by decide,
    show ¬ (238 : Nat) = 129 by decide, show ¬ (238 : Nat) ≤ 229 by decide,
    show ¬ (238 : Nat) = 230 by decide, show ¬ (238 : Nat) = 231 by decide, show ¬ (238 : Nat) = 232 by decide,
    show ¬ ((238 : Nat) = 233 ∨ (238 : Nat) = 234) by decide, show ¬ (238 : Nat) = 235 by decide,
    show ¬ (238 : Nat) = 236 by decide, show ¬ (238 : Nat) = 237 by decide, if_false, if_true]
  rw [hseg]
  simp only [Nat.zero_add, List.length_append, List.length_cons, List.length_nil]
  cases suf with
  | nil =>
    -- the unlatch is the last codeword: "one byte left", then tolerated in ASCII
    simp only [x12Seg, hes]
    have := decLoop_skip' T (writeTriplets vals).1 [254] false (cw.length + 1) (a.pushAll chars)
    rw [this]
    simp [decLoop]
  | cons s ss =>
    simp only [x12Seg, if_true, hes]
    have := decLoop_skip' T ((writeTriplets vals).1 ++ [254]) (s :: ss) false (cw.length + 1) (a.pushAll chars)
    simp only [List.length_append, List.length_cons, List.length_nil, List.append_assoc, List.singleton_append] at this
    rw [this]
    try (congr 1; try omega)

end Gzx.DMHighLevel

namespace Gzx.DMHighLevel

/-! ## C40 / Text -/

def Acc.emitAll (a : Acc) : List Emit → Acc
  | [] => a
  | e :: es => (a.emit e).emitAll es

theorem emitAll_append (a : Acc) (xs ys : List Emit) : a.emitAll (xs ++ ys) = (a.emitAll xs).emitAll ys := by
  induction xs generalizing a with
  | nil => rfl
  | cons x xs ih => simp [Acc.emitAll, ih]

theorem emitAll_real (a : Acc) (es : List Emit) : a.emitAll (realEmits es) = a.emitAll es := by
  induction es generalizing a with
  | nil => rfl
  | cons e es ih =>
    cases e with
    | none => simp [realEmits, Acc.emitAll, Acc.emit] at ih ⊢; exact ih a
    | char c => simp [realEmits, Acc.emitAll] at ih ⊢; exact ih _
    | fnc1 => simp [realEmits, Acc.emitAll] at ih ⊢; exact ih _

/-- the decoder walks through complete triplets of C40 / Text values -/
theorem cSeg_triplets (T : Tables) (text : Bool) : ∀ (k : Nat) (vals tail : List Nat) (st st' : CState)
    (es : List Emit) (a : Acc) (n : Nat),
    vals.length = 3 * k → (∀ v ∈ vals, v < 40) →
    runVals T text (vals.map Int.ofNat) st = .ok (st', es) →
    cSeg T text ((writeTriplets vals).1 ++ tail) st a n
      = cSeg T text tail st' (a.emitAll es) (n + (writeTriplets vals).1.length) := by
  intro k
  induction k with
  | zero =>
    intro vals tail st st' es a n hl _ hr
    have : vals = [] := List.eq_nil_of_length_eq_zero (by omega)
    subst this
    simp only [List.map_nil, runVals, Except.ok.injEq, Prod.mk.injEq] at hr
    obtain ⟨rfl, rfl⟩ := hr
    simp [writeTriplets, Acc.emitAll]
  | succ k ih =>
    intro vals tail st st' es a n hl hv hr
    match vals, hl with
    | v1 :: v2 :: v3 :: rest, hl =>
      have h1 : v1 < 40 := hv v1 (by simp)
      have h2 : v2 < 40 := hv v2 (by simp)
      have h3 : v3 < 40 := hv v3 (by simp)
      obtain ⟨b1, b2, hp, hne, _, _, hparse⟩ := packTriplet_spec v1 v2 v3 h1 h2 h3
      simp only [List.map_cons, runVals] at hr
      cases e1 : cValueCore T text (Int.ofNat v1) st with
      | error e => rw [e1] at hr; simp at hr
      | ok r1 =>
        obtain ⟨s1, m1⟩ := r1
        rw [e1] at hr
        simp only at hr
        cases e2 : cValueCore T text (Int.ofNat v2) s1 with
        | error e => rw [e2] at hr; simp at hr
        | ok r2 =>
          obtain ⟨s2, m2⟩ := r2
          rw [e2] at hr
          simp only at hr
          cases e3 : cValueCore T text (Int.ofNat v3) s2 with
          | error e => rw [e3] at hr; simp at hr
          | ok r3 =>
            obtain ⟨s3, m3⟩ := r3
            rw [e3] at hr
            simp only at hr
            cases e4 : runVals T text (rest.map Int.ofNat) s3 with
            | error e => rw [e4] at hr; simp at hr
            | ok r4 =>
              obtain ⟨s4, m4⟩ := r4
              rw [e4] at hr
              simp only [Except.ok.injEq, Prod.mk.injEq] at hr
              obtain ⟨rfl, rfl⟩ := hr
              have hlr : rest.length = 3 * k := by simp only [List.length_cons] at hl; omega
              have ihs := ih rest tail s3 s4 m4 (((a.emit m1).emit m2).emit m3) (n + 2) hlr
                (fun v hv' => hv v (by simp [hv'])) e4
              have c1 : (Int.ofNat v1 : Int) = (v1 : Int) := rfl
              have c2 : (Int.ofNat v2 : Int) = (v2 : Int) := rfl
              have c3 : (Int.ofNat v3 : Int) = (v3 : Int) := rfl
              rw [c1] at e1; rw [c2] at e2; rw [c3] at e3
              simp only [writeTriplets, hp, List.cons_append, List.nil_append, cSeg, hne, if_false, hparse,
                cValue, e1, e2, e3, List.length_cons, List.length_append]
              rw [ihs]
              simp only [Acc.emitAll]
              congr 1
              first | omega | (simp only [List.length_nil]; omega)

theorem runVals_append (T : Tables) (text : Bool) (xs ys : List Int) (st s1 s2 : CState) (e1 e2 : List Emit)
    (h1 : runVals T text xs st = .ok (s1, e1)) (h2 : runVals T text ys s1 = .ok (s2, e2)) :
    runVals T text (xs ++ ys) st = .ok (s2, e1 ++ e2) := by
  induction xs generalizing st e1 with
  | nil =>
    simp only [runVals, Except.ok.injEq, Prod.mk.injEq] at h1
    obtain ⟨rfl, rfl⟩ := h1
    simpa using h2
  | cons x xs ih =>
    simp only [List.cons_append, runVals] at h1 ⊢
    cases hx : cValueCore T text x st with
    | error e => rw [hx] at h1; simp at h1
    | ok r =>
      obtain ⟨sx, ex⟩ := r
      rw [hx] at h1
      simp only at h1 ⊢
      cases hr : runVals T text xs sx with
      | error e => rw [hr] at h1; simp at h1
      | ok r2 =>
        obtain ⟨sr, er⟩ := r2
        rw [hr] at h1
        simp only [Except.ok.injEq, Prod.mk.injEq] at h1
        obtain ⟨rfl, rfl⟩ := h1
        rw [ih sx er hr]
        simp

/-- the values of a list of characters -/
def cVals (text : Bool) : List Nat → List Nat
  | [] => []
  | c :: cs => cEncodeChar text c ++ cVals text cs

theorem char_run (text : Bool) (c : Nat) (hc : c < 256) :
    ∃ es, runVals refTables text ((cEncodeChar text c).map Int.ofNat) {} = .ok ({}, es) ∧
      realEmits es = [.char c] ∧ ∀ v ∈ cEncodeChar text c, v < 40 := by
  have h : charRoundTrips refTables text c = true := by
    cases text
    · exact c40_chars_roundtrip ⟨c, hc⟩
    · exact text_chars_roundtrip ⟨c, hc⟩
  unfold charRoundTrips at h
  split at h
  · rename_i st es hr
    simp only [Bool.and_eq_true, beq_iff_eq, List.all_eq_true, decide_eq_true_eq] at h
    obtain ⟨⟨h1, h2⟩, h3⟩ := h
    subst h1
    exact ⟨es, hr, h2, h3⟩
  · cases h

/-- the value automaton on the values of whole characters emits exactly those characters -/
theorem chars_run (text : Bool) : ∀ (chars : List Nat), (∀ c ∈ chars, c < 256) →
    ∃ es, runVals refTables text ((cVals text chars).map Int.ofNat) {} = .ok ({}, es) ∧
      (∀ a : Acc, a.emitAll es = a.pushAll chars) ∧ ∀ v ∈ cVals text chars, v < 40 := by
  intro chars
  induction chars with
  | nil => intro _; exact ⟨[], rfl, fun _ => rfl, by simp [cVals]⟩
  | cons c cs ih =>
    intro hb
    obtain ⟨e1, hr1, hre, hv1⟩ := char_run text c (hb c (by simp))
    obtain ⟨e2, hr2, hem, hv2⟩ := ih (fun x hx => hb x (by simp [hx]))
    refine ⟨e1 ++ e2, ?_, ?_, ?_⟩
    · simp only [cVals, List.map_append]
      exact runVals_append refTables text _ _ {} {} {} e1 e2 hr1 hr2
    · intro a
      rw [emitAll_append, ← emitAll_real a e1, hre, hem]
      simp [Acc.emitAll, Acc.emit, Acc.pushAll]
    · intro v hv
      simp only [cVals, List.mem_append] at hv
      rcases hv with h | h
      · exact hv1 v h
      · exact hv2 v h

/-- `c40_segment_inv` / `text_segment_inv`: a C40 (230) or Text (239) segment made of the complete triplets of
    whole characters and closed by an explicit unlatch, latch included, extends `DecodesTo` by exactly those
    characters (reference tables). -/
theorem decodesTo_c40 {cw : List Nat} {a : Acc} (text : Bool) (h : DecodesTo refTables cw a)
    (chars : List Nat) (hb : ∀ c ∈ chars, c < 256) (k : Nat) (hl : (cVals text chars).length = 3 * k) :
    DecodesTo refTables (cw ++ [if text then 239 else 230] ++ (writeTriplets (cVals text chars)).1 ++ [254])
      (a.pushAll chars).endSeg := by
  obtain ⟨es, hr, hem, hv⟩ := chars_run text chars hb
  intro suf
  have hseg := cSeg_triplets refTables text k (cVals text chars) (254 :: suf) {} {} es a 0 hl hv hr
  rw [List.append_assoc, List.append_assoc, List.append_assoc, h]
  cases text
  · simp only [Bool.false_eq_true, if_false, List.singleton_append, List.cons_append, List.nil_append, decLoop,
      show ¬ (230 : Nat) = 0 by decide, show ¬ (230 : Nat) ≤ 128 by decide,
      show ¬ (230 : Nat) = 129 by decide, show ¬ (230 : Nat) ≤ 229 by decide, if_true]
    rw [hseg, hem]
    simp only [Nat.zero_add]
    cases suf with
    | nil =>
      simp only [cSeg]
      have := decLoop_skip' refTables (writeTriplets (cVals false chars)).1 [254] false (cw.length + 1)
        (a.pushAll chars).endSeg
      rw [this]
      simp [decLoop]
    | cons s ss =>
      simp only [cSeg, if_true]
      have := decLoop_skip' refTables ((writeTriplets (cVals false chars)).1 ++ [254]) (s :: ss) false
        (cw.length + 1) (a.pushAll chars).endSeg
      simp only [List.length_append, List.length_cons, List.length_nil, List.append_assoc,
        List.singleton_append] at this
      rw [this]
      congr 1
      simp only [List.length_append, List.length_cons, List.length_nil]
      omega
  · simp only [if_true, List.singleton_append, List.cons_append, List.nil_append, decLoop,
      show ¬ (239 : Nat) = 0 by decide, show ¬ (239 : Nat) ≤ 128 by decide,
      show ¬ (239 : Nat) = 129 by decide, show ¬ (239 : Nat) ≤ 229 by decide,
      show ¬ (239 : Nat) = 230 by decide, show ¬ (239 : Nat) = 231 by decide, show ¬ (239 : Nat) = 232 by decide,
      show ¬ ((239 : Nat) = 233 ∨ (239 : Nat) = 234) by decide, show ¬ (239 : Nat) = 235 by decide,
      show ¬ (239 : Nat) = 236 by decide, show ¬ (239 : Nat) = 237 by decide,
      show ¬ (239 : Nat) = 238 by decide, if_false]
    rw [hseg, hem]
    simp only [Nat.zero_add]
    cases suf with
    | nil =>
      simp only [cSeg]
      have := decLoop_skip' refTables (writeTriplets (cVals true chars)).1 [254] false (cw.length + 1)
        (a.pushAll chars).endSeg
      rw [this]
      simp [decLoop]
    | cons s ss =>
      simp only [cSeg, if_true]
      have := decLoop_skip' refTables ((writeTriplets (cVals true chars)).1 ++ [254]) (s :: ss) false
        (cw.length + 1) (a.pushAll chars).endSeg
      simp only [List.length_append, List.length_cons, List.length_nil, List.append_assoc,
        List.singleton_append] at this
      rw [this]
      congr 1
      simp only [List.length_append, List.length_cons, List.length_nil]
      omega

end Gzx.DMHighLevel
