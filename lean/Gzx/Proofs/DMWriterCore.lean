/-
  C12 / wp dmenc — the Data Matrix writer core `DMWriterCore.core` (EncodeHighLevel, second symbol lookup, ECC200,
  placement, low-level matrix) is total for every look-ahead that is exact arithmetic up to float rounding:
  it returns a WriterException or the reference symbol of the codewords; the ignored errors of the writer's second
  lookup and of `ErrorCorrection_EncodeECC200` never hide a nil value.
-/
import Gzx.Proofs.DMBytesAll
import Gzx.Model.DMWriterCore
import Gzx.Properties.C08
import Gzx.Proofs.WriterFrontend
namespace Gzx.DMWriterCore
open Gzx Gzx.DMHighLevel

theorem symbols_in_table7 : DMRef.symbols.all (fun s => DMRef.table7.contains s) = true := by decide +kernel

theorem mem_table7_of_symbols {s : DMRef.Sym} (h : s ∈ DMRef.symbols) : s ∈ DMRef.table7 := by
  have := symbols_in_table7
  rw [List.all_eq_true] at this
  have := this s h
  simpa using this

theorem table7_dims : DMRef.table7.all (fun s => decide (1 ≤ s.rows) && decide (1 ≤ s.cols)) = true := by decide +kernel

/-- the encoder model's lookup on `hlSyms` is `lookupRow` -/
theorem lookup_hlSyms (cfg : Cfg) (n : Nat) : lookup hlSyms cfg n = (lookupRow cfg n).map hlOf := by
  unfold lookup hlSyms lookupRow
  rw [List.find?_map]
  rfl

/-- steps 1-4: a WriterException, or the reference symbol of the first-fit row for the padded codewords -/
theorem rowsOf_total (la : LookAhead) (hla : LaFloatLike la) (msg : List Nat) (cfg : Cfg)
    (hb : ∀ x ∈ msg, x < 256) :
    rowsOf la msg cfg = .error .writer ∨
    ∃ s cw, s ∈ DMRef.table7 ∧ encodeHL hlSyms la msg cfg = .ok cw ∧ cw.length = s.nData ∧
      lookupRow cfg cw.length = some s ∧ rowsOf la msg cfg = .ok (DMRef.symbolBits s cw) := by
  unfold rowsOf
  rcases encodeHL_total hlSyms la hla msg cfg hb with ⟨cw, he⟩ | he
  · right
    rw [he]
    simp only
    obtain ⟨s', n, _, hlen, hl2, _, _⟩ := encodeHL_symbol hlSyms la msg cfg cw he
    rw [lookup_hlSyms] at hl2
    cases hr : lookupRow cfg cw.length with
    | none => rw [hr] at hl2; cases hl2
    | some s =>
      rw [hr] at hl2
      simp only [Option.map_some, Option.some.injEq] at hl2
      have hmem : s ∈ DMRef.table7 := mem_table7_of_symbols (List.mem_of_find?_eq_some hr)
      have hn : cw.length = s.nData := by rw [hlen, ← hl2]; rfl
      have hbytes := encodeHL_bytes_all hlSyms la msg cfg cw hb he
      have hsym := Gzx.Properties.C08.model_symbol_eq_reference_symbol s hmem cw hn hbytes
      simp only [hsym]
      exact ⟨s, cw, hmem, rfl, hn, hr, rfl⟩
  · left; rw [he]

theorem modulesOf_symbolBits (s : DMRef.Sym) (hs : s ∈ DMRef.table7) (d : List Nat) :
    (modulesOf (DMRef.symbolBits s d)).mw = s.cols ∧ (modulesOf (DMRef.symbolBits s d)).mh = s.rows ∧
    1 ≤ s.cols ∧ 1 ≤ s.rows := by
  have hd := table7_dims
  rw [List.all_eq_true] at hd
  have := hd s hs
  simp only [Bool.and_eq_true, decide_eq_true_eq] at this
  obtain ⟨h1, h2⟩ := this
  unfold modulesOf DMRef.symbolBits DMRef.symbolOfCodewords DMRef.symbolOfMapping
  simp only [List.length_map, List.length_range]
  refine ⟨?_, trivial, h2, h1⟩
  obtain ⟨k, hk⟩ : ∃ k, s.rows = k + 1 := ⟨s.rows - 1, by omega⟩
  rw [hk, List.range_succ_eq_map]
  simp

open Gzx.WriterFrontend in
/-- the hypothesis `DMCoreTotal` of the C12 front-end theorems, discharged for the modelled core -/
theorem core_total (la : LookAhead) (hla : LaFloatLike la) (prep : List Nat → Option (List Nat))
    (hprep : ∀ c msg, prep c = some msg → ∀ x ∈ msg, x < 256) : DMCoreTotal ⟨core la prep⟩ := by
  constructor
  · intro c s mn mx w hw
    simp only [core] at hw
    split at hw
    · cases hw
    · rename_i msg hp
      rcases rowsOf_total la hla msg (cfgOf s mn mx) (hprep c msg hp) with h | ⟨_, _, _, _, _, _, h⟩
      · rw [h] at hw; cases hw
      · rw [h] at hw; cases hw
  · intro c s mn mx md hok
    simp only [core] at hok
    split at hok
    · cases hok
    · rename_i msg hp
      rcases rowsOf_total la hla msg (cfgOf s mn mx) (hprep c msg hp) with h | ⟨r, cw, hr, _, _, _, h⟩
      · rw [h] at hok; cases hok
      · rw [h] at hok
        simp only [Except.map, Except.ok.injEq] at hok
        subst hok
        obtain ⟨e1, e2, e3, e4⟩ := modulesOf_symbolBits r hr cw
        rw [e1, e2]; exact ⟨e3, e4⟩

end Gzx.DMWriterCore
