/-
  C02: a whole call of the X12 encoder (triplets written as they complete, `x12HandleEOD`: rewind of the
  incomplete triplet, unlatch unless the symbol is exactly used up).
-/
import Gzx.Proofs.DMGeneral
import Gzx.Proofs.DMTriplets
import Gzx.Proofs.DMMidstream
namespace Gzx.DMHighLevel

/-! ## writeTriplets -/

theorem writeTriplets_short (l : List Nat) (h : l.length < 3) : writeTriplets l = ([], l) := by
  match l, h with
  | [], _ => rfl
  | [_], _ => rfl
  | [_, _], _ => rfl

theorem writeTriplets_cons3 (a b c : Nat) (r : List Nat) :
    writeTriplets (a :: b :: c :: r) = (packTriplet a b c ++ (writeTriplets r).1, (writeTriplets r).2) := by
  simp [writeTriplets]

/-- `writeTriplets` packs the longest prefix whose length is a multiple of three and leaves the rest -/
theorem writeTriplets_split : ∀ (n : Nat) (l : List Nat), l.length ≤ n →
    ∃ k, 3 * k ≤ l.length ∧ l.length < 3 * k + 3 ∧ (writeTriplets l).2 = l.drop (3 * k) ∧
      (writeTriplets l).1 = (writeTriplets (l.take (3 * k))).1 ∧ (writeTriplets (l.take (3 * k))).2 = [] ∧
      (writeTriplets l).1.length = 2 * k := by
  intro n
  induction n using Nat.strongRecOn with
  | _ n ih =>
    intro l hl
    match l, hl with
    | [], _ => exact ⟨0, by simp, by simp, rfl, rfl, rfl, rfl⟩
    | [x], _ => exact ⟨0, by simp, by simp, rfl, rfl, rfl, rfl⟩
    | [x, y], _ => exact ⟨0, by simp, by simp, rfl, rfl, rfl, rfl⟩
    | a :: b :: c :: r, hl =>
      obtain ⟨k, h1, h2, h3, h4, h5, h6⟩ := ih (n - 3) (by simp at hl; omega) r (by simp at hl; omega)
      refine ⟨k + 1, by simp; omega, by simp; omega, ?_, ?_, ?_, ?_⟩
      · rw [writeTriplets_cons3]; simp only
        rw [h3]
        have : 3 * (k + 1) = 3 * k + 1 + 1 + 1 := by omega
        rw [this]; simp
      · have : 3 * (k + 1) = 3 * k + 1 + 1 + 1 := by omega
        rw [this]
        simp only [List.take_succ_cons, writeTriplets_cons3]
        rw [h4]
      · have : 3 * (k + 1) = 3 * k + 1 + 1 + 1 := by omega
        rw [this]
        simp only [List.take_succ_cons, writeTriplets_cons3]
        exact h5
      · rw [writeTriplets_cons3]
        simp only [List.length_append, h6, packTriplet, List.length_cons, List.length_nil]
        omega

/-! ## characters and values -/

/-- the X12 values of a list of characters, if all are X12-native -/
def x12ValsOf : List Nat → Option (List Nat)
  | [] => some []
  | c :: cs =>
    match x12EncodeChar c, x12ValsOf cs with
    | .ok v, some vs => some (v :: vs)
    | _, _ => none

theorem x12EncodeChar_ok {c v : Nat} (h : x12EncodeChar c = .ok v) :
    c < 128 ∧ v < 40 ∧ x12Value (v : Int) = .ok c := by
  have hc : c < 128 := by
    unfold x12EncodeChar at h
    repeat' split at h
    all_goals first | omega | cases h
  have hr := x12_chars_roundtrip ⟨c, by omega⟩
  simp only [x12RoundTrips, h, Bool.and_eq_true, decide_eq_true_eq, beq_iff_eq] at hr
  exact ⟨hc, hr.1.2, hr.2⟩

theorem x12ValsOf_spec : ∀ (chars vals : List Nat), x12ValsOf chars = some vals →
    vals.length = chars.length ∧ (∀ v ∈ vals, v < 40) ∧ (∀ c ∈ chars, c < 128) ∧ x12Chars vals = .ok chars := by
  intro chars
  induction chars with
  | nil => intro vals h; cases h; simp [x12Chars]
  | cons c cs ih =>
    intro vals h
    simp only [x12ValsOf] at h
    cases he : x12EncodeChar c with
    | error e => rw [he] at h; simp at h
    | ok v =>
      cases hr : x12ValsOf cs with
      | none => rw [he, hr] at h; simp at h
      | some vs =>
        rw [he, hr] at h
        simp only [Option.some.injEq] at h
        subst h
        obtain ⟨h1, h2, h3⟩ := x12EncodeChar_ok he
        obtain ⟨i1, i2, i3, i4⟩ := ih vs hr
        refine ⟨by simp [i1], ?_, ?_, ?_⟩
        · intro x hx; simp only [List.mem_cons] at hx; rcases hx with rfl | hx; exact h2; exact i2 x hx
        · intro x hx; simp only [List.mem_cons] at hx; rcases hx with rfl | hx; exact h1; exact i3 x hx
        · simp [x12Chars, h3, i4]

theorem x12ValsOf_append_one (chars vals : List Nat) (c v : Nat) (h : x12ValsOf chars = some vals)
    (hc : x12EncodeChar c = .ok v) : x12ValsOf (chars ++ [c]) = some (vals ++ [v]) := by
  induction chars generalizing vals with
  | nil => cases h; simp [x12ValsOf, hc]
  | cons x xs ih =>
    simp only [x12ValsOf] at h
    cases he : x12EncodeChar x with
    | error e => rw [he] at h; simp at h
    | ok w =>
      cases hr : x12ValsOf xs with
      | none => rw [he, hr] at h; simp at h
      | some ws =>
        rw [he, hr] at h
        simp only [Option.some.injEq] at h
        subst h
        simp [x12ValsOf, he, ih ws hr]

theorem x12ValsOf_take (chars vals : List Nat) (n : Nat) (h : x12ValsOf chars = some vals) :
    x12ValsOf (chars.take n) = some (vals.take n) := by
  induction chars generalizing vals n with
  | nil => cases h; simp [x12ValsOf]
  | cons x xs ih =>
    simp only [x12ValsOf] at h
    cases he : x12EncodeChar x with
    | error e => rw [he] at h; simp at h
    | ok w =>
      cases hr : x12ValsOf xs with
      | none => rw [he, hr] at h; simp at h
      | some ws =>
        rw [he, hr] at h
        simp only [Option.some.injEq] at h
        subst h
        cases n with
        | zero => simp [x12ValsOf]
        | succ m => simp [x12ValsOf, he, ih ws m hr]

/-! ## the loop -/

theorem x12Loop_spec (la : LookAhead) :
    ∀ (fuel : Nat) (c : Ctx) (buf : List Nat) (c1 : Ctx) (buf1 : List Nat) (chars0 vals0 : List Nat),
      buf.length < 3 → c.pos ≤ c.total → x12ValsOf chars0 = some vals0 →
      x12Loop la fuel c buf = .ok (c1, buf1) →
      ∃ vals, x12ValsOf (chars0 ++ (c.msg.drop c.pos).take (c1.pos - c.pos)) = some (vals0 ++ vals) ∧
        c1.cw = c.cw ++ (writeTriplets (buf ++ vals)).1 ∧ buf1 = (writeTriplets (buf ++ vals)).2 ∧
        SameFrame c c1 ∧ c.pos ≤ c1.pos ∧ c1.pos ≤ c1.total ∧ vals.length = c1.pos - c.pos ∧
        ((c1.newEnc = c.newEnc ∧ c1.hasMore = false) ∨
         (c1.newEnc = some ASCII ∧ buf1 = [] ∧ la c.msg c1.pos X12 ≠ X12 ∧ c.pos < c1.pos)) ∧
        (∀ q, c.pos < q → q < c1.pos → (buf.length + (q - c.pos)) % 3 = 0 → la c.msg q X12 = X12) := by
  intro fuel
  induction fuel with
  | zero =>
    intro c buf c1 buf1 chars0 vals0 hb hle hv h
    simp only [x12Loop] at h
    split at h
    · cases h
    · rename_i hm
      cases h
      simp only [Bool.not_eq_true] at hm
      refine ⟨[], by simpa using hv, by simp [writeTriplets_short buf hb], by simp [writeTriplets_short buf hb],
        ⟨rfl, rfl, rfl, rfl⟩, Nat.le_refl _, hle, by simp, Or.inl ⟨rfl, hm⟩, fun q h1 h2 => by omega⟩
  | succ n ih =>
    intro c buf c1 buf1 chars0 vals0 hb hle hv h
    simp only [x12Loop] at h
    split at h
    · rename_i hm
      cases h
      simp only [Bool.not_eq_true'] at hm
      refine ⟨[], by simpa using hv, by simp [writeTriplets_short buf hb], by simp [writeTriplets_short buf hb],
        ⟨rfl, rfl, rfl, rfl⟩, Nat.le_refl _, hle, by simp, Or.inl ⟨rfl, hm⟩, fun q h1 h2 => by omega⟩
    · rename_i hm
      simp only [Bool.not_eq_true', Bool.not_eq_false] at hm
      have hlt : c.pos < c.total := (hasMore_iff' c).mp hm
      cases hc : c.cur with
      | error e => rw [hc] at h; simp [bind, Except.bind] at h
      | ok ch =>
        rw [hc] at h
        simp only [bind, Except.bind] at h
        obtain ⟨hget, _⟩ := cur_spec hc
        have hdrop := drop_eq_cons_of_getElem? hget
        cases he : x12EncodeChar ch with
        | error e => rw [he] at h; simp at h
        | ok v =>
          rw [he] at h
          simp only at h
          have hv1 := x12ValsOf_append_one chars0 vals0 ch v hv he
          have hle' : ({ c with pos := c.pos + 1 } : Ctx).pos ≤ ({ c with pos := c.pos + 1 } : Ctx).total := by
            simp only [Ctx.total] at hlt ⊢; omega
          -- shape of the characters consumed from here on
          have hchars : ∀ p1, c.pos + 1 ≤ p1 →
              chars0 ++ (c.msg.drop c.pos).take (p1 - c.pos)
                = (chars0 ++ [ch]) ++ (c.msg.drop (c.pos + 1)).take (p1 - (c.pos + 1)) := by
            intro p1 hp
            rw [hdrop]
            have : p1 - c.pos = (p1 - (c.pos + 1)) + 1 := by omega
            rw [this, List.take_succ_cons]; simp
          by_cases h3 : (buf ++ [v]).length % 3 = 0
          · -- a triplet is complete
            have hl3 : buf.length = 2 := by simp only [List.length_append, List.length_cons, List.length_nil] at h3; omega
            obtain ⟨x, y, hxy⟩ : ∃ x y, buf = [x, y] := by
              match buf, hl3 with
              | [x, y], _ => exact ⟨x, y, rfl⟩
            subst hxy
            simp only [List.cons_append, List.nil_append, List.length_cons, List.length_nil, Nat.reduceAdd,
              Nat.mod_self, if_true] at h
            split at h
            · -- look-ahead leaves X12
              rename_i hla
              cases h
              refine ⟨[v], ?_, ?_, ?_, ⟨rfl, rfl, rfl, rfl⟩, by simp [Ctx.signal, Ctx.writeAll],
                by simp only [Ctx.signal, Ctx.writeAll, Ctx.total] at hlt ⊢; omega, by simp [Ctx.signal, Ctx.writeAll],
                Or.inr ⟨rfl, rfl, by simpa [Ctx.signal, Ctx.writeAll] using hla, by simp [Ctx.signal, Ctx.writeAll]⟩,
                fun q h1 h2 => by simp only [Ctx.signal, Ctx.writeAll] at h2; omega⟩
              · have := hchars (c.pos + 1) (Nat.le_refl _)
                simp only [Ctx.signal, Ctx.writeAll]
                rw [this]; simpa using hv1
              · simp [Ctx.signal, Ctx.writeAll, writeTriplets]
              · simp [writeTriplets]
            · rename_i hla
              simp only [ne_eq, Decidable.not_not] at hla
              obtain ⟨vals, i1, i2, i3, i4, i5, i6, i7, i8, i9⟩ :=
                ih (({ c with pos := c.pos + 1 } : Ctx).writeAll (packTriplet x y v)) [] c1 buf1 (chars0 ++ [ch])
                  (vals0 ++ [v]) (by simp) (by simp only [Ctx.writeAll, Ctx.total] at hlt ⊢; omega) hv1 h
              simp only [Ctx.writeAll] at i1 i2 i5 i7 i8 i9
              refine ⟨v :: vals, ?_, ?_, ?_, ⟨i4.msg, i4.cfg, i4.skip, i4.sym⟩, by omega, i6, by simp; omega, ?_, ?_⟩
              · rw [hchars c1.pos i5]; simpa using i1
              · rw [i2]; simp [writeTriplets_cons3, List.append_assoc]
              · rw [i3]; simp [writeTriplets_cons3]
              · rcases i8 with ⟨e1, e2⟩ | ⟨e1, e2, e3, e4⟩
                · exact Or.inl ⟨e1, e2⟩
                · exact Or.inr ⟨e1, e2, e3, by omega⟩
              · intro q h1 h2 hq
                by_cases hq1 : q = c.pos + 1
                · subst hq1; exact hla
                · apply i9 q (by omega) h2
                  simp only [List.length_cons, List.length_nil] at hq ⊢
                  omega
          · -- triplet not complete yet
            have hl3 : buf.length < 2 := by
              simp only [List.length_append, List.length_cons, List.length_nil] at h3; omega
            simp only [h3, if_false] at h
            obtain ⟨vals, i1, i2, i3, i4, i5, i6, i7, i8, i9⟩ :=
              ih ({ c with pos := c.pos + 1 } : Ctx) (buf ++ [v]) c1 buf1 (chars0 ++ [ch])
                (vals0 ++ [v]) (by simp; omega) hle' hv1 h
            simp only at i1 i2 i5 i7 i8 i9
            refine ⟨v :: vals, ?_, ?_, ?_, ⟨i4.msg, i4.cfg, i4.skip, i4.sym⟩, by omega, i6, by simp; omega, ?_, ?_⟩
            · rw [hchars c1.pos i5]; simpa using i1
            · rw [i2]; simp [List.append_assoc]
            · rw [i3]; simp [List.append_assoc]
            · rcases i8 with ⟨e1, e2⟩ | ⟨e1, e2, e3, e4⟩
              · exact Or.inl ⟨e1, e2⟩
              · exact Or.inr ⟨e1, e2, e3, by omega⟩
            · intro q h1 h2 hq
              by_cases hq1 : q = c.pos + 1
              · subst hq1
                simp only [List.length_append, List.length_cons, List.length_nil] at h3
                omega
              · apply i9 q (by omega) h2
                simp only [List.length_append, List.length_cons, List.length_nil]
                omega

end Gzx.DMHighLevel

namespace Gzx.DMHighLevel

theorem pushAll_pend_lt (cs : List Nat) (b : Acc) (h : ∀ c ∈ cs, c < 128) : (b.pushAll cs).pend = b.pend := by
  induction cs generalizing b with
  | nil => rfl
  | cons x xs ih =>
    simp only [Acc.pushAll]
    rw [ih _ (fun c hc' => h c (by simp [hc'])), Acc.push_pend_lt _ _ (h x (by simp))]

theorem pushAll_trailer (cs : List Nat) (b : Acc) : (b.pushAll cs).trailer = b.trailer := by
  induction cs generalizing b with
  | nil => rfl
  | cons x xs ih => simp only [Acc.pushAll]; rw [ih]; rfl

/-- an X12 segment of complete triplets left open: the decoder returns to ASCII for at most one more codeword -/
theorem decK_x12_open {T : Tables} {cw : List Nat} {a : Acc} (h : DecodesTo T cw a) (hp : a.pend = 0)
    (k : Nat) (vals chars : List Nat) (hl : vals.length = 3 * k) (hv : ∀ v ∈ vals, v < 40)
    (hc : x12Chars vals = .ok chars) (hch : ∀ c ∈ chars, c < 128) :
    DecK T (cw ++ [238] ++ (writeTriplets vals).1) (a.pushAll chars) 1 := by
  have hes : (a.pushAll chars).endSeg = a.pushAll chars :=
    Acc.endSeg_of_pend _ (by rw [pushAll_pend_lt chars a hch, hp])
  intro suf hs
  obtain ⟨hseg, _⟩ := x12Seg_triplets k vals chars suf a 0 hl hv hc
  rw [List.append_assoc, List.append_assoc, h]
  simp only [List.singleton_append, List.cons_append, List.nil_append, decLoop,
    show ¬ (238 : Nat) = 0 by decide, show ¬ (238 : Nat) ≤ 128 by decide,
    show ¬ (238 : Nat) = 129 by decide, show ¬ (238 : Nat) ≤ 229 by decide,
    show ¬ (238 : Nat) = 230 by decide, show ¬ (238 : Nat) = 231 by decide, show ¬ (238 : Nat) = 232 by decide,
    show ¬ ((238 : Nat) = 233 ∨ (238 : Nat) = 234) by decide, show ¬ (238 : Nat) = 235 by decide,
    show ¬ (238 : Nat) = 236 by decide, show ¬ (238 : Nat) = 237 by decide, if_false, if_true]
  rw [hseg]
  have hx : x12Seg suf (a.pushAll chars) (0 + (writeTriplets vals).1.length)
      = .ok (a.pushAll chars, (writeTriplets vals).1.length) := by
    match suf, hs with
    | [], _ => simp [x12Seg]
    | [x], _ => simp [x12Seg]
  rw [hx]
  simp only [hes]
  rw [decLoop_skip']
  first | rfl | (congr 1; (try simp only [List.length_append, List.length_cons, List.length_nil]); (try omega))

theorem ite_signal_fields (cc : Ctx) :
    (if cc.newEnc.isNone = true then cc.signal ASCII else cc).msg = cc.msg ∧
    (if cc.newEnc.isNone = true then cc.signal ASCII else cc).cw = cc.cw ∧
    (if cc.newEnc.isNone = true then cc.signal ASCII else cc).pos = cc.pos ∧
    (if cc.newEnc.isNone = true then cc.signal ASCII else cc).cfg = cc.cfg ∧
    (if cc.newEnc.isNone = true then cc.signal ASCII else cc).skipAtEnd = cc.skipAtEnd ∧
    (if cc.newEnc.isNone = true then cc.signal ASCII else cc).sym = cc.sym := by
  split <;> simp [Ctx.signal]

/-- the oracle does not stay in (or enter) X12 for a last triplet that is followed by one extended character -/
def LaX12Safe (la : LookAhead) (c : Ctx) : Prop :=
  ∀ p ch, p + 4 = c.total → c.msg[p + 3]? = some ch → isExtended ch = true →
    la c.msg p X12 ≠ X12 ∧ la c.msg p ASCII ≠ X12

/-- state right after the ASCII encoder has written the latch `latch` to mode `m` -/
def LatchedM (T : Tables) (m latch : Nat) (la : LookAhead) (c : Ctx) (a : Acc) : Prop :=
  ∃ cw0, c.cw = cw0 ++ [latch] ∧ DecodesTo T cw0 a ∧ a.rev.reverse = c.msg.take c.pos ∧ a.pend = 0 ∧
    la c.msg c.pos ASCII = m

theorem back_spec {c c' : Ctx} {k : Nat} (h : c.back k = .ok c') :
    k ≤ c.pos ∧ c' = { c with pos := c.pos - k } := by
  unfold Ctx.back at h
  split at h
  · cases h; exact ⟨by assumption, rfl⟩
  · cases h

theorem take_take_drop (l : List Nat) (p n m : Nat) (h : m ≤ n) :
    ((l.drop p).take n).take m = (l.drop p).take m := by
  rw [List.take_take]; congr 1; omega

/-- `dm_encoder_invariant`, X12: a whole call of the X12 encoder, started right after the latch 238, ends with
    the invariant (unlatch written) or in a tail state (symbol exactly used up / one codeword left for the
    one remaining character). -/
theorem x12_step_post {T : Tables} {syms : List SymbolInfo} {la : LookAhead} {c c' : Ctx} {a : Acc}
    (hL : LatchedM T X12 238 la c a) (hle : c.pos ≤ c.total)
    (hnew : c.newEnc = none) (hsafe : LaX12Safe la c) (h : x12Encode syms la c = .ok c') :
    ∃ a', a'.trailer = a.trailer ∧ c'.msg = c.msg ∧ c'.cfg = c.cfg ∧ c'.skipAtEnd = c.skipAtEnd ∧
      c.pos ≤ c'.pos ∧ c'.pos ≤ c'.total ∧ c'.newEnc = some ASCII ∧
      (Inv T c' a' ∨ ∃ k, k ≤ 1 ∧ Tail T c' a' k) := by
  obtain ⟨cw0, hcw, hdec, htext, hpend, hlaL⟩ := hL
  unfold x12Encode at h
  cases hl : x12Loop la c.remaining c [] with
  | error e => rw [hl] at h; simp [bind, Except.bind] at h
  | ok r =>
    obtain ⟨c1, buf1⟩ := r
    rw [hl] at h
    simp only [bind, Except.bind] at h
    obtain ⟨vals, i1, i2, i3, i4, i5, i6, i7, i8, i9⟩ :=
      x12Loop_spec la c.remaining c [] c1 buf1 [] [] (by simp) hle rfl hl
    simp only [List.nil_append] at i1 i2 i3
    obtain ⟨k, s1, s2, s3, s4, s5, s6⟩ := writeTriplets_split vals.length vals (Nat.le_refl _)
    -- the characters of the complete triplets
    have hv3 := x12ValsOf_take _ _ (3 * k) i1
    obtain ⟨t1, t2, t3, t4⟩ := x12ValsOf_spec _ _ hv3
    have hlen3 : (vals.take (3 * k)).length = 3 * k := by rw [List.length_take]; omega
    have hchars3 : ((c.msg.drop c.pos).take (c1.pos - c.pos)).take (3 * k) = (c.msg.drop c.pos).take (3 * k) :=
      take_take_drop _ _ _ _ (by omega)
    rw [hchars3] at t1 t3 t4 hv3
    have hb1 : buf1.length = vals.length - 3 * k := by rw [i3, s3, List.length_drop]
    -- x12HandleEOD
    unfold x12HandleEOD at h
    simp only [bind, Except.bind] at h
    cases hu : c1.update syms c1.count with
    | error e => rw [hu] at h; simp at h
    | ok c2 =>
      rw [hu] at h
      simp only at h
      obtain ⟨ucw, umsg, upos, ucfg, uskip, unew, s, hs, hcap, _⟩ := update_spec hu
      have hcapok : c2.capacity = .ok s.cap := by simp [Ctx.capacity, hs]
      rw [hcapok] at h
      simp only at h
      cases hbk : c2.back buf1.length with
      | error e => rw [hbk] at h; simp at h
      | ok c3 =>
        rw [hbk] at h
        simp only at h
        obtain ⟨hkb, hc3⟩ := back_spec hbk
        have hpos3 : c3.pos = c.pos + 3 * k := by rw [hc3]; simp only; rw [upos]; omega
        have hmsg3 : c3.msg = c.msg := by rw [hc3]; simp only; rw [umsg, i4.msg]
        have hskip3 : c3.skipAtEnd = c.skipAtEnd := by rw [hc3]; simp only; rw [uskip, i4.skip]
        have hcfg3 : c3.cfg = c.cfg := by rw [hc3]; simp only; rw [ucfg, i4.cfg]
        have hcw3 : c3.cw = cw0 ++ [238] ++ (writeTriplets (vals.take (3 * k))).1 := by
          rw [hc3]; simp only; rw [ucw, i2, hcw, s4]
        have hnew3 : c3.newEnc = none ∨ c3.newEnc = some ASCII := by
          rw [hc3]; simp only; rw [unew]
          rcases i8 with ⟨e1, _⟩ | ⟨e1, _⟩
          · exact Or.inl (by rw [e1, hnew])
          · exact Or.inr e1
        have htot3 : c3.total = c.total := by simp [Ctx.total, hmsg3, hskip3]
        have hle3 : c3.pos ≤ c3.total := by
          rw [htot3, hpos3]
          have : c1.total = c.total := by simp [Ctx.total, i4.msg, i4.skip]
          omega
        have htext3 : (a.pushAll ((c.msg.drop c.pos).take (3 * k))).rev.reverse = c3.msg.take c3.pos := by
          rw [pushAll_rev, htext, hmsg3, hpos3, take_add_drop_take]
        have hpend3 : (a.pushAll ((c.msg.drop c.pos).take (3 * k))).pend = 0 := by
          rw [pushAll_pend_lt _ _ t3, hpend]
        have hsig : ∀ cc : Ctx, (cc.newEnc = none ∨ cc.newEnc = some ASCII) →
            (if cc.newEnc.isNone then cc.signal ASCII else cc).newEnc = some ASCII := by
          intro cc hcc
          rcases hcc with e | e <;> simp [e, Ctx.signal]
        have hcount : c2.count = c1.count := by simp [Ctx.count, ucw]
        have hrestEq : ∀ cc : Ctx, cc.msg = c3.msg → cc.pos = c3.pos → cc.skipAtEnd = c3.skipAtEnd →
            cc.rest = c3.rest ∧ cc.total = c3.total ∧ cc.remaining = c3.remaining := by
          intro cc e1 e2 e3; simp [Ctx.rest, Ctx.remaining, Ctx.total, e1, e2, e3]
        by_cases hcond : c3.remaining > 1 ∨ s.cap - c1.count > 1 ∨ c3.remaining ≠ s.cap - c1.count
        · -- unlatch written
          simp only [hcount, hcond, if_true, Except.ok.injEq] at h
          subst h
          obtain ⟨f1, f2, f3, f4, f5, f6⟩ := ite_signal_fields (c3.write 254)
          obtain ⟨_, g2, _⟩ := hrestEq _ f1 f3 f5
          refine ⟨a.pushAll ((c.msg.drop c.pos).take (3 * k)), pushAll_trailer _ _, by rw [f1]; exact hmsg3,
            by rw [f4]; exact hcfg3, by rw [f5]; exact hskip3, by rw [f3]; show c.pos ≤ c3.pos; omega,
            by rw [f3, g2]; exact hle3, hsig (c3.write 254) hnew3, Or.inl ⟨?_, ?_, hpend3⟩⟩
          · have := decodesTo_x12 hdec hpend k _ _ hlen3 t2 t4 t3
            rw [f2]
            show DecodesTo T (c3.cw ++ [254]) _
            rw [hcw3]
            exact this
          · rw [f1, f3]; exact htext3
        · -- no unlatch: the symbol is used up except for `k'` codewords = remaining characters
          simp only [hcount, hcond, if_false, Except.ok.injEq] at h
          subst h
          simp only [not_or, Nat.not_lt, ne_eq, Decidable.not_not] at hcond
          obtain ⟨hr1, ha1, hra⟩ := hcond
          have hcnt : c1.count ≤ s.cap := hcap
          obtain ⟨f1, f2, f3, f4, f5, f6⟩ := ite_signal_fields c3
          obtain ⟨g1, g2, g3⟩ := hrestEq _ f1 f3 f5
          have hgoal : asciiNeed c3.rest ≤ c3.remaining := by
            by_cases hr0 : c3.remaining = 0
            · simp [Ctx.rest, hr0, asciiNeed]
            · have hr1' : c3.remaining = 1 := by omega
              have hlt3 : c3.pos < c.msg.length := by
                simp only [Ctx.remaining, Ctx.total, hmsg3, hskip3] at hr1'; omega
              have hget : c.msg[c3.pos]? = some c.msg[c3.pos] := List.getElem?_eq_getElem hlt3
              have hdrop3 := drop_eq_cons_of_getElem? hget
              have hrest1 : c3.rest = [c.msg[c3.pos]] := by
                unfold Ctx.rest; rw [hr1', hmsg3, hdrop3]; rfl
              rw [hrest1, hr1']
              simp only [asciiNeed]
              by_cases hext : isExtended c.msg[c3.pos] = true
              · exfalso
                -- not an X12-native character, so it was not rewound: the look-ahead left X12 right here
                by_cases hb0 : buf1.length = 0
                · rcases i8 with ⟨_, e2⟩ | ⟨_, _, e3, e4⟩
                  · -- the loop ran to the end: nothing remains
                    have : c1.remaining = 0 := by
                      have := (hasMore_false_iff' c1).mp e2
                      simp only [Ctx.remaining]; omega
                    have hc31 : c3.remaining = c1.remaining := by
                      simp only [Ctx.remaining, Ctx.total, hmsg3, hskip3, i4.msg, i4.skip, hpos3]
                      omega
                    omega
                  · have hk1 : 1 ≤ k := by omega
                    have hp3 : c3.pos = c1.pos := by omega
                    have hpt : (c3.pos - 3) + 4 = c.total := by
                      simp only [Ctx.remaining, htot3] at hr1'; omega
                    have hg : c.msg[c3.pos - 3 + 3]? = some c.msg[c3.pos] := by
                      have : c3.pos - 3 + 3 = c3.pos := by omega
                      rw [this]; exact hget
                    obtain ⟨n1, n2⟩ := hsafe (c3.pos - 3) _ hpt hg hext
                    by_cases hq : c3.pos - 3 = c.pos
                    · rw [hq] at n2; exact n2 hlaL
                    · exact n1 (i9 (c3.pos - 3) (by omega) (by omega) (by simp; omega))
                · -- a rewound character is X12-native
                  have hmem : c.msg[c3.pos] ∈ (c.msg.drop c.pos).take (c1.pos - c.pos) := by
                    rw [List.mem_iff_getElem?]
                    refine ⟨3 * k, ?_⟩
                    rw [List.getElem?_take_of_lt (by omega), List.getElem?_drop, ← hpos3]
                    exact hget
                  obtain ⟨_, _, hall, _⟩ := x12ValsOf_spec _ _ i1
                  have := hall _ hmem
                  simp only [isExtended, Bool.and_eq_true, decide_eq_true_eq] at hext
                  omega
              · simp [hext]
          refine ⟨a.pushAll ((c.msg.drop c.pos).take (3 * k)), pushAll_trailer _ _, by rw [f1]; exact hmsg3,
            by rw [f4]; exact hcfg3, by rw [f5]; exact hskip3, by rw [f3]; omega,
            by rw [f3, g2]; exact hle3, hsig c3 hnew3,
            Or.inr ⟨c3.remaining, hr1, ?_, ?_, hpend3, ?_, ?_⟩⟩
          · have := (decK_x12_open hdec hpend k _ _ hlen3 t2 t4 t3).mono hr1
            rw [f2, hcw3]; exact this
          · rw [f1, f3]; exact htext3
          · refine ⟨s, by rw [f6, hc3]; exact hs, ?_⟩
            have hc3c : c3.count = c1.count := by rw [hc3]; simp [Ctx.count, ucw]
            have : (if c3.newEnc.isNone = true then c3.signal ASCII else c3).count = c3.count := by
              simp only [Ctx.count, f2]
            rw [this, hc3c]; omega
          · rw [g1]; exact hgoal

end Gzx.DMHighLevel
