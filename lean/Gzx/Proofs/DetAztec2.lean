/-
  Totality lemmas for the later stages of the Aztec detector model (Gzx/Model/DetAztec2.lean): with the
  bounds-checked `BitMatrix.Get` of this tree no operation faults, whatever the float operations do.
-/
import Gzx.Model.DetAztec2
import Gzx.Properties.C06Det
namespace Gzx.Det.AZ
open Gzx Gzx.Det
open Gzx.Properties.C06Det (az_getFirstDifferent_total az_matrix_center_total)

theorem colorLoop_total {F : Type} (o : FOps F) {rd : Reader} (hrd : Total rd) {E : Fault → Prop} (cm : Bool) (dx dy : F) :
    ∀ (n : Nat) (px py : F) (err : Int), Sat E (fun _ => True) (colorLoop o rd cm dx dy n px py err) := by
  intro n
  induction n with
  | zero => intro _ _ _; exact Sat.ok trivial
  | succ n ih =>
    intro px py err
    unfold colorLoop
    exact sat_bind_true (hrd.sat trivial) (fun b => ih _ _ _)

def IsColor (c : Int) : Prop := c = 0 ∨ c = 1 ∨ c = -1

theorem getColor_total {F : Type} (o : FOps F) {rd : Reader} (hrd : Total rd) {E : Fault → Prop} (p1 p2 : IPt) :
    Sat E IsColor (getColor o rd p1 p2) := by
  unfold getColor
  simp only []
  split
  · exact Sat.ok (Or.inl rfl)
  · refine sat_bind_true (hrd.sat trivial) ?_
    intro cm
    refine sat_bind_true (colorLoop_total o hrd cm _ _ _ _ _ _) ?_
    intro err
    split
    · exact Sat.ok (Or.inl rfl)
    · split
      · exact Sat.ok (Or.inr (Or.inl rfl))
      · exact Sat.ok (Or.inr (Or.inr rfl))

attribute [local irreducible] getColor in
theorem isWhiteOrBlackRectangle_total {F : Type} (o : FOps F) {rd : Reader} (hrd : Total rd) {E : Fault → Prop}
    (w h : Int) (p1 p2 p3 p4 : IPt) :
    Sat E (fun _ => True) (isWhiteOrBlackRectangle o rd w h p1 p2 p3 p4) := by
  unfold isWhiteOrBlackRectangle
  simp only []
  refine sat_bind_true (sat_true_of (getColor_total o hrd _ _)) ?_
  intro c0
  split
  · exact Sat.ok trivial
  · refine sat_bind_true (sat_true_of (getColor_total o hrd _ _)) ?_
    intro c1
    split
    · exact Sat.ok trivial
    · refine sat_bind_true (sat_true_of (getColor_total o hrd _ _)) ?_
      intro c2
      split
      · exact Sat.ok trivial
      · refine sat_bind_true (sat_true_of (getColor_total o hrd _ _)) ?_
        intro c3
        exact Sat.ok trivial

attribute [local irreducible] getFirstDifferent isWhiteOrBlackRectangle in
theorem bullsLoop_total {F : Type} (o : FOps F) (img : Img) :
    ∀ (n : Nat) (nb : Int) (pin : Pins) (color : Bool), Sat NoFault (fun r => nb ≤ r.1 ∧ r.1 ≤ nb + n)
      (bullsLoop o img.rdGo img.w img.h n nb pin color) := by
  intro n
  induction n with
  | zero => intro nb pin color; exact Sat.ok ⟨Int.le_refl _, by omega⟩
  | succ n ih =>
    intro nb pin color
    unfold bullsLoop
    refine sat_bind_true (az_getFirstDifferent_total img _ _ _ _) ?_
    intro pa
    refine sat_bind_true (az_getFirstDifferent_total img _ _ _ _) ?_
    intro pb
    refine sat_bind_true (az_getFirstDifferent_total img _ _ _ _) ?_
    intro pc
    refine sat_bind_true (az_getFirstDifferent_total img _ _ _ _) ?_
    intro pd
    refine sat_bind_true (Q := fun (r : Int × Pins) => nb ≤ r.1 ∧ r.1 ≤ nb + (n + 1 : Nat)) (E := NoFault) (x := (if nb > 2 then do
        let q := o.div (o.mul (distanceP o pd pa) (o.ofInt nb)) (o.mul (distanceP o pin.d pin.a) (o.ofInt (nb + 2)))
        if o.lt q (o.lit 3 4) || o.gt q (o.lit 5 4) then pure true
        else do
          let r ← isWhiteOrBlackRectangle o img.rdGo img.w img.h pa pb pc pd
          pure (!r)
      else pure false : Res Bool)) ?_ ?_
    · split
      · simp only []
        split
        · exact Sat.ok trivial
        · refine sat_bind_true (isWhiteOrBlackRectangle_total o (rdGo_ok img) _ _ _ _ _ _) ?_
          intro r; exact Sat.ok trivial
      · exact Sat.ok trivial
    · intro stop
      split
      · exact Sat.ok ⟨Int.le_refl _, by omega⟩
      · refine Sat.mono (ih (nb + 1) _ _) (fun _ h => h) ?_
        intro r ⟨h1, h2⟩
        exact ⟨by omega, by omega⟩

/-- what `getBullsEyeCorners` leaves in the detector -/
def GoodBullsEye {F : Type} (be : BullsEye F) : Prop :=
  (be.nbCenterLayers = 5 ∧ be.compact = true) ∨ (be.nbCenterLayers = 7 ∧ be.compact = false)

attribute [local irreducible] bullsLoop in
theorem getBullsEyeCorners_total {F : Type} (o : FOps F) (img : Img) (pCenter : IPt) :
    Sat OnlyNotFound GoodBullsEye (getBullsEyeCorners o img.rdGo img.w img.h pCenter) := by
  unfold getBullsEyeCorners
  refine Sat.bind (Sat.mono (bullsLoop_total o img 8 1 _ true) (fun _ h => h.elim) (fun _ h => h)) ?_
  intro r _
  obtain ⟨nb, pin⟩ := r
  simp only []
  split
  · exact rfl
  · rename_i h
    refine Sat.ok ?_
    unfold GoodBullsEye
    simp only []
    by_cases h5 : nb = 5
    · left; exact ⟨h5, by simp [h5]⟩
    · right; exact ⟨by omega, by simp [h5]⟩

theorem shl1_total {E : Fault → Prop} (k : Int) (hk : 0 ≤ k) : Sat E (fun _ => True) (shl1 k) := by
  unfold shl1
  have : ¬ k < 0 := by omega
  simp only [this, if_false]
  exact Sat.ok trivial

theorem sampleLineLoop_total {F : Type} (o : FOps F) {rd : Reader} (hrd : Total rd) {E : Fault → Prop}
    (px py dx dy : F) (size : Int) :
    ∀ (n : Nat) (i : Int) (result : Nat), (n ≠ 0 → i + n ≤ size) →
      Sat E (fun _ => True) (sampleLineLoop o rd px py dx dy size n i result) := by
  intro n
  induction n with
  | zero => intro _ _ _; exact Sat.ok trivial
  | succ n ih =>
    intro i result hi
    have hi' := hi (by omega)
    unfold sampleLineLoop
    refine sat_bind_true (hrd.sat trivial) ?_
    intro b
    split
    · refine sat_bind_true (shl1_total _ (by omega)) ?_
      intro bit
      exact ih _ _ (fun _ => by omega)
    · exact ih _ _ (fun _ => by omega)

/-- `sampleLine` for ANY two float points and ANY size (also ≤ 0): a number, never a fault; every
    `1 << (size - i - 1)` has a non-negative count because `i < size` -/
theorem sampleLine_total {F : Type} (o : FOps F) {rd : Reader} (hrd : Total rd) {E : Fault → Prop}
    (p1 p2 : FPt F) (size : Int) :
    Sat E (fun _ => True) (sampleLine o rd p1 p2 size) := by
  unfold sampleLine
  exact sampleLineLoop_total o hrd _ _ _ _ size size.toNat 0 0 (fun _ => by omega)

theorem getRotation_total (expected sides : List Nat) (length : Nat) :
    Sat OnlyNotFound (fun s => s < 4) (AztecDecoder.getRotation expected sides length) := by
  unfold AztecDecoder.getRotation
  simp only []
  split
  · rename_i s hs
    have := List.mem_of_find?_eq_some hs
    exact Sat.ok (by simpa using this)
  · exact rfl

theorem correctedParameters_total (rs : AztecDecoder.RSDecoder) (compact : Bool) (pd : Nat) :
    Sat OnlyNotFound (fun r => 1 ≤ r.1 ∧ 1 ≤ r.2) (AztecDecoder.correctedParameters rs compact pd) := by
  unfold AztecDecoder.correctedParameters
  simp only []
  split
  · exact rfl
  · split
    · exact Sat.ok ⟨by omega, by omega⟩
    · exact Sat.ok ⟨by omega, by omega⟩

def GoodParams (p : Params) : Prop := p.shift < 4 ∧ 1 ≤ p.nbLayers ∧ 1 ≤ p.nbDataBlocks

attribute [local irreducible] sampleLine AztecDecoder.getRotation AztecDecoder.correctedParameters AztecDecoder.parameterData in
theorem extractParameters_total {F : Type} (o : FOps F) {rd : Reader} (hrd : Total rd) (w h : Int) (expected : List Nat)
    (rs : AztecDecoder.RSDecoder) (c : Quad F) (nb : Int) (hnb : 1 ≤ nb) (compact : Bool) :
    Sat OnlyNotFound GoodParams (extractParameters o rd w h expected rs c nb compact) := by
  unfold extractParameters
  split
  · exact rfl
  · simp only []
    refine sat_bind_true (sampleLine_total o hrd _ _ _) ?_
    intro s0
    refine sat_bind_true (sampleLine_total o hrd _ _ _) ?_
    intro s1
    refine sat_bind_true (sampleLine_total o hrd _ _ _) ?_
    intro s2
    refine sat_bind_true (sampleLine_total o hrd _ _ _) ?_
    intro s3
    have : ¬ (2 * nb < 2) := by omega
    simp only [this, if_false]
    refine Sat.bind (getRotation_total _ _ _) ?_
    intro shift hshift
    refine Sat.bind (correctedParameters_total rs compact _) ?_
    intro r ⟨h1, h2⟩
    obtain ⟨l, b⟩ := r
    exact Sat.ok ⟨hshift, h1, h2⟩

theorem quad_get_total {F : Type} (q : Quad F) (i : Int) (h0 : 0 ≤ i) (h3 : i ≤ 3) {E : Fault → Prop} :
    Sat E (fun _ => True) (q.get i) := by
  unfold Quad.get
  have : i = 0 ∨ i = 1 ∨ i = 2 ∨ i = 3 := by omega
  rcases this with rfl | rfl | rfl | rfl <;> exact Sat.ok trivial

theorem getDimension_ge (compact : Bool) (nbLayers : Int) (h : 1 ≤ nbLayers) : 15 ≤ getDimension compact nbLayers := by
  unfold getDimension
  cases compact with
  | true => simp only [if_true]; omega
  | false =>
    simp only [Bool.false_eq_true, if_false]
    have : 0 ≤ Int.tdiv (2 * nbLayers + 6) 15 := Int.tdiv_nonneg (by omega) (by decide)
    omega

/-- what `Detect` hands to the grid sampler -/
def GoodLocated {F : Type} (l : Located F) : Prop :=
  15 ≤ l.dimension ∧ l.dimension = getDimension l.compact l.nbLayers ∧ l.shift < 4 ∧ 1 ≤ l.nbLayers ∧ 1 ≤ l.nbDataBlocks


theorem tmod4_range (a : Int) (h : 0 ≤ a) : 0 ≤ Int.tmod a 4 ∧ Int.tmod a 4 ≤ 3 := by
  rw [Int.tmod_eq_emod_of_nonneg h]; omega

attribute [local irreducible] getMatrixCenter getBullsEyeCorners extractParameters expandSquare in
theorem detect_total {F : Type} (o : FOps F) (img : Img) (expected : List Nat) (rs : AztecDecoder.RSDecoder)
    (isMirror : Bool) :
    Sat OnlyNotFound GoodLocated (detect o img.rdGo img.w img.h expected rs isMirror) := by
  unfold detect
  refine sat_bind_true (Sat.mono (az_matrix_center_total o img) (fun _ h => h.elim) (fun _ h => h)) ?_
  intro pCenter
  refine Sat.bind (getBullsEyeCorners_total o img pCenter) ?_
  intro be hbe
  have hnb : 1 ≤ be.nbCenterLayers := by rcases hbe with ⟨h, _⟩ | ⟨h, _⟩ <;> omega
  simp only []
  refine Sat.bind (extractParameters_total o (rdGo_ok img) img.w img.h expected rs _ be.nbCenterLayers hnb be.compact) ?_
  intro p ⟨hs, hl, hb⟩
  have hs' : (0 : Int) ≤ (p.shift : Int) ∧ (p.shift : Int) < 4 := by omega
  have t0 := tmod4_range (p.shift : Int) (by omega)
  have t1 := tmod4_range ((p.shift : Int) + 1) (by omega)
  have t2 := tmod4_range ((p.shift : Int) + 2) (by omega)
  have t3 := tmod4_range ((p.shift : Int) + 3) (by omega)
  refine sat_bind_true (quad_get_total _ _ t0.1 t0.2) ?_
  intro tl
  refine sat_bind_true (quad_get_total _ _ t1.1 t1.2) ?_
  intro tr
  refine sat_bind_true (quad_get_total _ _ t2.1 t2.2) ?_
  intro br
  refine sat_bind_true (quad_get_total _ _ t3.1 t3.2) ?_
  intro bl
  exact Sat.ok ⟨getDimension_ge _ _ (by omega), rfl, hs, hl, hb⟩

end Gzx.Det.AZ
