/-
  Helper lemmas for the Data Matrix detector model (Gzx/Model/DetDM.lean).
-/
import Gzx.Proofs.DetQR
import Gzx.Model.DetDM
namespace Gzx.Det.DM
open Gzx Gzx.Det

theorem transLoop_sat {rd : Reader} (hrd : Total rd) (steep : Bool) (toY dx dy xstep ystep : Int) :
    ∀ (n : Nat) (x y err : Int) (inBlack : Bool) (tr : Int), 0 ≤ tr →
      Sat NoFault (fun r => 0 ≤ r) (transLoop rd steep toY dx dy xstep ystep n x y err inBlack tr) := by
  intro n
  induction n with
  | zero => intro x y err inBlack tr h; exact Sat.ok h
  | succ n ih =>
    intro x y err inBlack tr h
    unfold transLoop
    refine sat_bind_true (hrd.sat trivial) ?_
    intro b
    simp only []
    have h' : 0 ≤ (if (b != inBlack) = true then tr + 1 else tr) := by split <;> omega
    split
    · split
      · exact Sat.ok h'
      · exact ih _ _ _ _ _ h'
    · exact ih _ _ _ _ _ h'

/-- `transitionsBetween` is total for any two points (inside or outside the image, any float values):
    a non-negative count after at most `max(|dx|,|dy|)` steps -/
theorem transitionsBetween_sat {F : Type} (o : FOps F) {rd : Reader} (hrd : Total rd) (h : Int) (p q : FPt F) :
    Sat NoFault (fun r => 0 ≤ r) (transitionsBetween o rd h p q) := by
  unfold transitionsBetween
  simp only []
  split <;>
  · refine sat_bind_true (hrd.sat trivial) ?_
    intro b
    exact transLoop_sat hrd _ _ _ _ _ _ _ _ _ _ _ _ (Int.le_refl 0)

theorem transitionsBetween_true {F : Type} (o : FOps F) {rd : Reader} (hrd : Total rd) (h : Int) (p q : FPt F) :
    Sat NoFault (fun _ => True) (transitionsBetween o rd h p q) :=
  sat_true_of (transitionsBetween_sat o hrd h p q)

/-- discharges `Sat E (fun _ => True) (do …)` whose steps are `transitionsBetween` calls -/
syntax "dm_steps" : tactic
macro_rules
  | `(tactic| dm_steps) => `(tactic| repeat' (first
      | exact Sat.ok trivial
      | exact Sat.pure trivial
      | exact transitionsBetween_true _ ‹_› _ _ _
      | exact rfl
      | apply sat_bind_true
      | intro _
      | simp only []
      | split))

attribute [local irreducible] transitionsBetween in
theorem detectSolid1_sat {F : Type} (o : FOps F) {rd : Reader} (hrd : Total rd) (h : Int) (cp : List (FPt F))
    (hlen : cp.length = 4) :
    Sat NoFault (fun _ => True) (detectSolid1 o rd h cp) := by
  unfold detectSolid1
  match cp, hlen with
  | [p0, p1, p2, p3], _ =>
    simp only []
    dm_steps

attribute [local irreducible] transitionsBetween in
theorem detectSolid2_sat {F : Type} (o : FOps F) {rd : Reader} (hrd : Total rd) (h : Int) (p : Quad F) :
    Sat NoFault (fun _ => True) (detectSolid2 o rd h p) := by
  unfold detectSolid2
  dm_steps

attribute [local irreducible] transitionsBetween in
theorem correctTopRight_sat {F : Type} (o : FOps F) {rd : Reader} (hrd : Total rd) (w h : Int) (p : Quad F) :
    Sat NoFault (fun _ => True) (correctTopRight o rd w h p) := by
  unfold correctTopRight
  dm_steps

attribute [local irreducible] transitionsBetween in
theorem shiftToModuleCenter_sat {F : Type} (o : FOps F) {rd : Reader} (hrd : Total rd) (h : Int) (p : Quad F) :
    Sat NoFault (fun _ => True) (shiftToModuleCenter o rd h p) := by
  unfold shiftToModuleCenter
  dm_steps

/-- dimensions handed to `sampleGrid`: even and at least 2 -/
def GoodDims {F : Type} (l : Located F) : Prop :=
  2 ≤ l.dimensionTop ∧ 2 ≤ l.dimensionRight ∧ l.dimensionTop % 2 = 0 ∧ l.dimensionRight % 2 = 0

attribute [local irreducible] transitionsBetween detectSolid1 detectSolid2 correctTopRight shiftToModuleCenter in
theorem locate_sat {F : Type} (o : FOps F) {rd : Reader} (hrd : Total rd) (w h : Int) (cp : List (FPt F))
    (hlen : cp.length = 4) :
    Sat OnlyNotFound GoodDims (locate o rd w h cp) := by
  have lift : ∀ {α : Type} {P : α → Prop} {r : Res α}, Sat NoFault P r → Sat OnlyNotFound P r :=
    fun h => Sat.mono h (fun _ h => h.elim) (fun _ h => h)
  unfold locate
  refine sat_bind_true (lift (detectSolid1_sat o hrd h cp hlen)) ?_
  intro p1
  refine sat_bind_true (lift (detectSolid2_sat o hrd h p1)) ?_
  intro p2
  refine sat_bind_true (lift (correctTopRight_sat o hrd w h p2)) ?_
  intro d
  cases d with
  | none => exact rfl
  | some d =>
    refine sat_bind_true (lift (shiftToModuleCenter_sat o hrd h _)) ?_
    intro p3
    refine Sat.bind (lift (transitionsBetween_sat o hrd h _ _)) ?_
    intro t1 ht1
    refine Sat.bind (lift (transitionsBetween_sat o hrd h _ _)) ?_
    intro t2 ht2
    simp only []
    have e1 : 2 ≤ (if (t1 + 1) % 2 = 1 then t1 + 1 + 1 else t1 + 1) ∧ (if (t1 + 1) % 2 = 1 then t1 + 1 + 1 else t1 + 1) % 2 = 0 := by
      split <;> omega
    have e2 : 2 ≤ (if (t2 + 1) % 2 = 1 then t2 + 1 + 1 else t2 + 1) ∧ (if (t2 + 1) % 2 = 1 then t2 + 1 + 1 else t2 + 1) % 2 = 0 := by
      split <;> omega
    generalize (if (t1 + 1) % 2 = 1 then t1 + 1 + 1 else t1 + 1) = A at e1 ⊢
    generalize (if (t2 + 1) % 2 = 1 then t2 + 1 + 1 else t2 + 1) = B at e2 ⊢
    by_cases hc : 4 * A < 6 * B ∧ 4 * B < 6 * A
    · rw [if_pos hc]
      refine Sat.ok ?_
      by_cases hm : A > B
      · simp only [GoodDims, hm, if_true]; exact ⟨e1.1, e1.1, e1.2, e1.2⟩
      · simp only [GoodDims, hm, if_false]; exact ⟨e2.1, e2.1, e2.2, e2.2⟩
    · rw [if_neg hc]
      exact Sat.ok ⟨e1.1, e2.1, e1.2, e2.2⟩

end Gzx.Det.DM
