/-
  Totality lemmas for the multi QR detector model (Gzx/Model/DetMulti.lean).
-/
import Gzx.Model.DetMulti
import Gzx.Proofs.DetQRDetector
namespace Gzx.Det.Multi
open Gzx Gzx.Det Gzx.Det.QR

theorem idx_sat {α : Type} {E : Fault → Prop} (l : List α) (i : Int) (h0 : 0 ≤ i) (h1 : i < l.length) :
    Sat E (fun _ => True) (idx l i) := by
  unfold idx
  have : ¬ i < 0 := by omega
  simp only [this, if_false]
  have h2 : i.toNat < l.length := by omega
  rw [List.getElem?_eq_getElem h2]
  exact Sat.ok trivial

/-! ## the scan -/

def MInv {F : Type} (s : MScan F) : Prop := s.sc.NonNeg ∧ 0 ≤ s.cur ∧ s.cur ≤ 4

theorem mPixelStep_sat {F : Type} (o : FOps F) {rd : Reader} (hrd : Total rd) (maxI maxJ i : Int) (s : MScan F) (j : Int)
    (hs : MInv s) : Sat NoFault MInv (mPixelStep o rd maxI maxJ i s j) := by
  obtain ⟨hnn, hc0, hc4⟩ := hs
  unfold mPixelStep
  obtain ⟨b, hb⟩ := hrd j i trivial
  simp only [hb, bind, Except.bind]
  cases b with
  | true =>
    simp only [if_true]
    have hcur : 0 ≤ (if s.cur % 2 = 1 then s.cur + 1 else s.cur) ∧ (if s.cur % 2 = 1 then s.cur + 1 else s.cur) ≤ 4 := by
      split <;> omega
    have hinc := SC5.inc_sat s.sc _ hcur.1 hcur.2 hnn
    cases hi : s.sc.inc (if s.cur % 2 = 1 then s.cur + 1 else s.cur) with
    | error e => rw [hi] at hinc; exact hinc.elim
    | ok sc => rw [hi] at hinc; exact ⟨hinc, hcur.1, hcur.2⟩
  | false =>
    simp only [Bool.false_eq_true, if_false]
    by_cases heven : s.cur % 2 = 0
    · simp only [heven, if_true]
      by_cases h4 : s.cur = 4
      · simp only [h4, if_true]
        by_cases hf : foundPatternCross o s.sc = true
        · simp only [hf, if_true]
          have hh := handlePossibleCenter_sat o hrd maxI maxJ s.fs s.sc i j
          cases hr : handlePossibleCenter o rd maxI maxJ s.fs s.sc i j with
          | error e => rw [hr] at hh; exact hh.elim
          | ok p =>
            obtain ⟨confirmed, fs⟩ := p
            simp only []
            cases confirmed with
            | false =>
              simp only [Bool.false_eq_true, if_false]
              exact ⟨SC5.shift2_nonneg _ hnn, by simp only []; omega, by simp only []; omega⟩
            | true =>
              simp only [if_true]
              exact ⟨SC5.zero_nonneg, by simp only []; omega, by simp only []; omega⟩
        · simp only [hf]
          exact ⟨SC5.shift2_nonneg _ hnn, by simp only []; omega, by simp only []; omega⟩
      · simp only [h4, if_false]
        have hinc := SC5.inc_sat s.sc (s.cur + 1) (by omega) (by omega) hnn
        cases hi : s.sc.inc (s.cur + 1) with
        | error e => rw [hi] at hinc; exact hinc.elim
        | ok sc => rw [hi] at hinc; exact ⟨hinc, by simp only []; omega, by simp only []; omega⟩
    · simp only [heven, if_false]
      have hinc := SC5.inc_sat s.sc s.cur hc0 hc4 hnn
      cases hi : s.sc.inc s.cur with
      | error e => rw [hi] at hinc; exact hinc.elim
      | ok sc => rw [hi] at hinc; exact ⟨hinc, hc0, hc4⟩

theorem mRowLoop_sat {F : Type} (o : FOps F) {rd : Reader} (hrd : Total rd) (maxI maxJ i : Int) :
    ∀ (n : Nat) (j : Int) (s : MScan F), MInv s → Sat NoFault MInv (mRowLoop o rd maxI maxJ i n j s) := by
  intro n
  induction n with
  | zero => intro j s hs; exact Sat.ok hs
  | succ n ih =>
    intro j s hs
    unfold mRowLoop
    exact Sat.bind (mPixelStep_sat o hrd maxI maxJ i s j hs) (fun s' hs' => ih (j + 1) s' hs')

attribute [local irreducible] handlePossibleCenter in
theorem mScanRow_sat {F : Type} (o : FOps F) {rd : Reader} (hrd : Total rd) (maxI maxJ i : Int) (fs : FS F) :
    Sat NoFault (fun _ => True) (mScanRow o rd maxI maxJ i fs) := by
  unfold mScanRow
  refine sat_bind_true (sat_true_of (mRowLoop_sat o hrd maxI maxJ i _ 0 _ ⟨SC5.zero_nonneg, by simp, by simp⟩)) ?_
  intro s
  split
  · refine sat_bind_true (handlePossibleCenter_sat o hrd maxI maxJ _ _ _ _) ?_
    intro p
    exact Sat.ok trivial
  · exact Sat.ok trivial

attribute [local irreducible] mScanRow in
theorem mRowsLoop_sat {F : Type} (o : FOps F) {rd : Reader} (hrd : Total rd) (maxI maxJ iSkip : Int) (hsk : 1 ≤ iSkip) :
    ∀ (n : Nat) (i : Int) (fs : FS F), (maxI - i).toNat < n →
      Sat NoFault (fun _ => True) (mRowsLoop o rd maxI maxJ iSkip n i fs) := by
  intro n
  induction n with
  | zero => intro i fs h; exact absurd h (Nat.not_lt_zero _)
  | succ n ih =>
    intro i fs h
    unfold mRowsLoop
    by_cases hi : i < maxI
    · simp only [hi, if_true]
      refine sat_bind_true (mScanRow_sat o hrd maxI maxJ i fs) ?_
      intro fs'
      exact ih (i + iSkip) fs' (by omega)
    · simp only [hi, if_false]
      exact Sat.ok trivial

/-- the scan of `FindMulti` is total: `stateCount[currentState]` always has `0 ≤ currentState ≤ 4`; the
    row loop ends within `maxI` rounds because `iSkip ≥ 3` -/
theorem findMultiScan_sat {F : Type} (o : FOps F) {rd : Reader} (hrd : Total rd) (maxI maxJ : Int) (tryHarder : Bool) :
    Sat NoFault (fun _ => True) (findMultiScan o rd maxI maxJ tryHarder) := by
  unfold findMultiScan
  simp only []
  have hsk : 3 ≤ rowStep maxI tryHarder := by
    unfold rowStep
    simp only []
    split <;> omega
  refine sat_bind_true (mRowsLoop_sat o hrd maxI maxJ _ (by omega) _ _ _ (by omega)) ?_
  intro fs
  exact Sat.ok trivial

/-! ## the selection loops -/

theorem loop3_sat {F : Type} (o : FOps F) (cs : List (FP F)) (p1 p2 : FP F) :
    ∀ (n : Nat) (i3 : Int) (acc : List (Triple F)), (n ≠ 0 → 0 ≤ i3 ∧ i3 + n ≤ cs.length) →
      Sat NoFault (fun r => acc.length ≤ r.length) (loop3 o cs p1 p2 n i3 acc) := by
  intro n
  induction n with
  | zero => intro i3 acc _; exact Sat.ok (Nat.le_refl _)
  | succ n ih =>
    intro i3 acc h
    have h' := h (by omega)
    unfold loop3
    refine sat_bind_true (idx_sat cs i3 h'.1 (by omega)) ?_
    intro p3
    split
    · exact Sat.ok (Nat.le_refl _)
    · split
      · refine Sat.mono (ih (i3 + 1) _ (fun _ => ⟨by omega, by omega⟩)) (fun _ h => h) ?_
        intro r hr
        simp only [List.length_append, List.length_cons, List.length_nil] at hr
        omega
      · exact ih (i3 + 1) _ (fun _ => ⟨by omega, by omega⟩)

attribute [local irreducible] loop3 in
theorem loop2_sat {F : Type} (o : FOps F) (cs : List (FP F)) (size : Int) (hsize : size = cs.length) (p1 : FP F) :
    ∀ (n : Nat) (i2 : Int) (acc : List (Triple F)), (n ≠ 0 → 0 ≤ i2 ∧ i2 + n ≤ size - 1) →
      Sat NoFault (fun r => acc.length ≤ r.length) (loop2 o cs size p1 n i2 acc) := by
  intro n
  induction n with
  | zero => intro i2 acc _; exact Sat.ok (Nat.le_refl _)
  | succ n ih =>
    intro i2 acc h
    have h' := h (by omega)
    unfold loop2
    refine sat_bind_true (idx_sat cs i2 h'.1 (by omega)) ?_
    intro p2
    split
    · exact Sat.ok (Nat.le_refl _)
    · refine Sat.bind (loop3_sat o cs p1 p2 _ (i2 + 1) acc (fun _ => ⟨by omega, by omega⟩)) ?_
      intro acc' hacc
      refine Sat.mono (ih (i2 + 1) acc' (fun _ => ⟨by omega, by omega⟩)) (fun _ h => h) ?_
      intro r hr
      omega

attribute [local irreducible] loop2 in
theorem loop1_sat {F : Type} (o : FOps F) (cs : List (FP F)) (size : Int) (hsize : size = cs.length) :
    ∀ (n : Nat) (i1 : Int) (acc : List (Triple F)), (n ≠ 0 → 0 ≤ i1 ∧ i1 + n ≤ size - 2) →
      Sat NoFault (fun _ => True) (loop1 o cs size n i1 acc) := by
  intro n
  induction n with
  | zero => intro i1 acc _; exact Sat.ok trivial
  | succ n ih =>
    intro i1 acc h
    have h' := h (by omega)
    unfold loop1
    refine sat_bind_true (idx_sat cs i1 h'.1 (by omega)) ?_
    intro p1
    refine sat_bind_true (sat_true_of (loop2_sat o cs size hsize p1 _ (i1 + 1) acc (fun _ => ⟨by omega, by omega⟩))) ?_
    intro acc'
    exact ih (i1 + 1) acc' (fun _ => ⟨by omega, by omega⟩)

attribute [local irreducible] loop1 in
/-- `selectMultipleBestPatterns` for ANY list of centres and ANY `sort` that keeps the length (a
    permutation does): every `possibleCenters[i]` access is in range; NotFound or at least one triple -/
theorem selectMultipleBestPatterns_sat {F : Type} (o : FOps F) (sort : List (FP F) → List (FP F))
    (hsort : ∀ l, (sort l).length = l.length) (centers : List (FP F)) :
    Sat OnlyNotFound (fun ts => 0 < ts.length) (selectMultipleBestPatterns o sort centers) := by
  unfold selectMultipleBestPatterns
  simp only []
  split
  · exact rfl
  · rename_i h3
    split
    · rename_i he
      refine sat_bind_true (idx_sat centers 0 (by omega) (by omega)) ?_
      intro a
      refine sat_bind_true (idx_sat centers 1 (by omega) (by omega)) ?_
      intro b
      refine sat_bind_true (idx_sat centers 2 (by omega) (by omega)) ?_
      intro c
      exact Sat.ok (by simp)
    · refine sat_bind_true (Sat.mono (loop1_sat o (sort centers) centers.length (by rw [hsort]) _ 0 []
        (fun _ => ⟨by omega, by omega⟩)) (fun _ h => h.elim) (fun _ h => h)) ?_
      intro results
      split
      · rename_i hpos; exact Sat.ok hpos
      · exact rfl

attribute [local irreducible] selectMultipleBestPatterns in
theorem selectAndOrder_sat {F : Type} (o : FOps F) (sort : List (FP F) → List (FP F))
    (hsort : ∀ l, (sort l).length = l.length) (centers : List (FP F)) :
    Sat OnlyNotFound (fun ts => 0 < ts.length) (selectAndOrder o sort centers) := by
  unfold selectAndOrder
  refine Sat.bind (selectMultipleBestPatterns_sat o sort hsort centers) ?_
  intro ts hts
  exact Sat.ok (by simpa using hts)

/-! ## DetectMulti -/

attribute [local irreducible] locate in
theorem detectMultiLoop_sat {F : Type} (o : FOps F) {rd : Reader} (hrd : Total rd) (w h : Int) :
    ∀ (ts : List (Triple F)), Sat NoFault
      (fun ls => ∀ l ∈ ls, Int.tmod l.dimension 4 = 1 ∧ 21 ≤ l.dimension ∧ l.dimension ≤ 177)
      (detectMultiLoop o rd w h ts) := by
  intro ts
  induction ts with
  | nil => exact Sat.ok (by simp)
  | cons t ts ih =>
    obtain ⟨bl, tl, tr⟩ := t
    unfold detectMultiLoop
    have hl := locate_sat o hrd w h tl tr bl
    cases hr : locate o rd w h tl tr bl with
    | ok l =>
      rw [hr] at hl
      simp only []
      refine Sat.bind ih ?_
      intro ls hls
      refine Sat.ok ?_
      intro x hx
      simp only [List.mem_cons] at hx
      rcases hx with rfl | hx
      · exact hl
      · exact hls x hx
    | error e =>
      rw [hr] at hl
      rcases hl with rfl | rfl
      · exact ih
      · exact ih

attribute [local irreducible] selectAndOrder detectMultiLoop in
theorem detectMultiFrom_sat {F : Type} (o : FOps F) (sort : List (FP F) → List (FP F))
    (hsort : ∀ l, (sort l).length = l.length) {rd : Reader} (hrd : Total rd) (w h : Int) (centers : List (FP F)) :
    Sat OnlyNotFound (fun ls => ∀ l ∈ ls, Int.tmod l.dimension 4 = 1 ∧ 21 ≤ l.dimension ∧ l.dimension ≤ 177)
      (detectMultiFrom o sort rd w h centers) := by
  unfold detectMultiFrom
  have hs := selectAndOrder_sat o sort hsort centers
  cases hr : selectAndOrder o sort centers with
  | ok infos =>
    simp only []
    split
    · exact rfl
    · exact Sat.mono (detectMultiLoop_sat o hrd w h infos) (fun _ h => h.elim) (fun _ h => h)
  | error e =>
    rw [hr] at hs
    have : e = Fault.notFound := hs
    subst this
    exact rfl

attribute [local irreducible] findMultiScan detectMultiFrom in
theorem detectMulti_sat {F : Type} (o : FOps F) (sort : List (FP F) → List (FP F))
    (hsort : ∀ l, (sort l).length = l.length) {rd : Reader} (hrd : Total rd) (w h : Int) (tryHarder : Bool) :
    Sat OnlyNotFound (fun ls => ∀ l ∈ ls, Int.tmod l.dimension 4 = 1 ∧ 21 ≤ l.dimension ∧ l.dimension ≤ 177)
      (detectMulti o sort rd w h tryHarder) := by
  unfold detectMulti
  refine sat_bind_true (Sat.mono (findMultiScan_sat o hrd h w tryHarder) (fun _ h => h.elim) (fun _ h => h)) ?_
  intro centers
  exact detectMultiFrom_sat o sort hsort hrd w h centers

/-! ## the executable sort is a permutation -/

theorem insBySize_perm {F : Type} (o : FOps F) (x : FP F) : ∀ l : List (FP F), (insBySize o x l).Perm (x :: l) := by
  intro l
  induction l with
  | nil => exact List.Perm.refl _
  | cons y ys ih =>
    unfold insBySize
    split
    · exact (List.Perm.cons y ih).trans (List.Perm.swap x y ys)
    · exact List.Perm.refl _

theorem sortBySizeDesc_perm {F : Type} (o : FOps F) (l : List (FP F)) : (sortBySizeDesc o l).Perm l := by
  unfold sortBySizeDesc
  refine (List.reverse_perm _).trans ?_
  suffices h : ∀ (l acc : List (FP F)), (l.foldl (fun acc x => insBySize o x acc) acc).Perm (acc ++ l) by
    simpa using h l []
  intro l
  induction l with
  | nil => intro acc; simp
  | cons x xs ih =>
    intro acc
    simp only [List.foldl_cons]
    refine (ih _).trans ?_
    refine (List.Perm.append_right xs (insBySize_perm o x acc)).trans ?_
    simp only [List.cons_append]
    exact (List.perm_middle).symm

end Gzx.Det.Multi
