/-
  Helper lemmas for the QR detector models (Gzx/Model/DetQRFinder.lean, DetQRDetector.lean):
  with a total reader (`BitMatrix.Get` of this tree) no operation faults, whatever the float operations do.
-/
import Gzx.Model.DetQRDetector
namespace Gzx.Det
open Gzx

/-! ## generic steps -/

theorem sat_bind_true {α β : Type} {E : Fault → Prop} {Q : β → Prop} {x : Res α} {f : α → Res β}
    (hx : Sat E (fun _ => True) x) (hf : ∀ a, Sat E Q (f a)) : Sat E Q (x >>= f) :=
  Sat.bind hx (fun a _ => hf a)

theorem sat_true_of {α : Type} {E : Fault → Prop} {P : α → Prop} {r : Res α} (h : Sat E P r) :
    Sat E (fun _ => True) r := Sat.mono h (fun _ h => h) (fun _ _ => trivial)

abbrev Total (rd : Reader) : Prop := RdOK rd (fun _ _ => True)

theorem walk_down_total {rd : Reader} (hrd : Total rd) {E : Fault → Prop} (pt : Int → Int × Int) (color : Bool)
    (cap : Int → Bool) (p0 cnt : Int) :
    Sat E (fun _ => True) (walk rd pt color (-1) (fun p => decide (p ≥ 0)) cap (fuelTo0 p0) p0 cnt) :=
  sat_true_of (walk_down_sat pt color cap p0 cnt (fun _ _ _ => hrd.sat trivial))

theorem walk_up_total {rd : Reader} (hrd : Total rd) {E : Fault → Prop} (pt : Int → Int × Int) (color : Bool)
    (cap : Int → Bool) (L p0 cnt : Int) :
    Sat E (fun _ => True) (walk rd pt color 1 (fun p => decide (p < L)) cap (fuelTo L p0) p0 cnt) :=
  sat_true_of (walk_up_sat pt color cap L p0 cnt (fun _ _ _ => hrd.sat trivial))

/-- an upward walk whose guard implies `p < L` -/
theorem walk_up_guard_total {rd : Reader} (hrd : Total rd) {E : Fault → Prop} (pt : Int → Int × Int) (color : Bool)
    (lim cap : Int → Bool) (L p0 cnt : Int) (hl : ∀ p, lim p = true → p < L) :
    Sat E (fun _ => True) (walk rd pt color 1 lim cap (fuelTo L p0) p0 cnt) := by
  refine sat_true_of (walk_sat pt color 1 lim cap (fun _ => True) (fun p => (L - p).toNat) ?_ ?_ ?_ _ p0 cnt trivial ?_)
  · intro p _ _; exact hrd.sat trivial
  · intro _ _ _; trivial
  · intro p _ h; have := hl p h; omega
  · intro h; have := hl p0 h; unfold fuelTo; omega

/-- discharges goals `Sat E (fun _ => True) (do …)` made of total steps -/
syntax "sat_steps" : tactic
macro_rules
  | `(tactic| sat_steps) => `(tactic| repeat' (first
      | exact Sat.ok trivial
      | exact Sat.pure trivial
      | exact rfl
      | apply sat_bind_true
      | intro _
      | split))

namespace QR

/-- small arithmetic side goals about record fields -/
syntax "ar" : tactic
macro_rules
  | `(tactic| ar) => `(tactic| first | omega | (simp only [SC5.shift2, SC5.zero]; omega) | simp [SC5.shift2, SC5.zero])

/-! ## cross checks -/

theorem crossCheck_sat {F : Type} (o : FOps F) {rd : Reader} (hrd : Total rd) (vertical : Bool)
    (maxP start q maxCount origTotal : Int) :
    Sat NoFault (fun _ => True) (crossCheck o rd vertical maxP start q maxCount origTotal) := by
  unfold crossCheck
  simp only []
  sat_steps
  all_goals first | exact walk_down_total hrd _ _ _ _ _ | exact walk_up_total hrd _ _ _ _ _ _

theorem crossCheckDiagonal_sat {F : Type} (o : FOps F) {rd : Reader} (hrd : Total rd)
    (maxI maxJ centerI centerJ : Int) :
    Sat NoFault (fun _ => True) (crossCheckDiagonal o rd maxI maxJ centerI centerJ) := by
  unfold crossCheckDiagonal
  simp only []
  sat_steps
  all_goals first
    | exact walk_up_guard_total hrd _ _ _ _ (centerI + 1) _ _ (fun p h => by
        simp only [Bool.and_eq_true, decide_eq_true_eq] at h; omega)
    | exact walk_up_guard_total hrd _ _ _ _ (maxI - centerI) _ _ (fun p h => by
        simp only [Bool.and_eq_true, decide_eq_true_eq] at h; omega)

attribute [local irreducible] crossCheck crossCheckDiagonal in
theorem handlePossibleCenter_sat {F : Type} (o : FOps F) {rd : Reader} (hrd : Total rd)
    (maxI maxJ : Int) (fs : FS F) (sc : SC5) (i j : Int) :
    Sat NoFault (fun _ => True) (handlePossibleCenter o rd maxI maxJ fs sc i j) := by
  unfold handlePossibleCenter
  simp only []
  sat_steps
  all_goals first
    | exact crossCheck_sat o hrd _ _ _ _ _ _
    | exact crossCheckDiagonal_sat o hrd _ _ _ _

/-! ## the row scan -/

def SC5.NonNeg (s : SC5) : Prop := 0 ≤ s.c0 ∧ 0 ≤ s.c1 ∧ 0 ≤ s.c2 ∧ 0 ≤ s.c3 ∧ 0 ≤ s.c4

theorem SC5.inc_sat (s : SC5) (i : Int) (h0 : 0 ≤ i) (h4 : i ≤ 4) (hs : s.NonNeg) :
    Sat NoFault SC5.NonNeg (s.inc i) := by
  obtain ⟨a0, a1, a2, a3, a4⟩ := hs
  unfold SC5.inc
  by_cases e0 : i = 0
  · simp only [e0, if_true]; exact Sat.ok ⟨by simp only []; omega, a1, a2, a3, a4⟩
  by_cases e1 : i = 1
  · simp only [e1, if_true]; exact Sat.ok ⟨a0, by simp only []; omega, a2, a3, a4⟩
  by_cases e2 : i = 2
  · simp only [e2, if_true]; exact Sat.ok ⟨a0, a1, by simp only []; omega, a3, a4⟩
  by_cases e3 : i = 3
  · simp only [e3, if_true]; exact Sat.ok ⟨a0, a1, a2, by simp only []; omega, a4⟩
  by_cases e4 : i = 4
  · simp only [e4, if_true]; exact Sat.ok ⟨a0, a1, a2, a3, by simp only []; omega⟩
  · exfalso; omega

theorem SC5.zero_nonneg : SC5.zero.NonNeg := by simp [SC5.zero, SC5.NonNeg]

theorem SC5.shift2_nonneg (s : SC5) (h : s.NonNeg) : s.shift2.NonNeg := by
  obtain ⟨a0, a1, a2, a3, a4⟩ := h
  exact ⟨a2, a3, a4, by ar, by ar⟩

theorem plausible_c0 (s : SC5) (hs : s.NonNeg) (h : s.plausible = true) : 1 ≤ s.c0 := by
  unfold SC5.plausible at h
  simp only [Bool.and_eq_true, Bool.not_eq_true', Bool.or_eq_false_iff, beq_eq_false_iff_ne] at h
  have := h.1.1.1.1.1
  have := hs.1
  omega

theorem zero_not_plausible : SC5.zero.plausible = false := by decide

theorem foundPatternCross_plausible {F : Type} (o : FOps F) (s : SC5) (h : foundPatternCross o s = true) :
    s.plausible = true := by
  unfold foundPatternCross at h
  simp only [Bool.and_eq_true] at h
  exact h.1

/-- invariant of the scan state: counters non-negative, `currentState` a valid index, `iSkip ≥ 1` -/
def ScanInv {F : Type} (s : Scan F) : Prop := s.sc.NonNeg ∧ 0 ≤ s.cur ∧ s.cur ≤ 4 ∧ 1 ≤ s.iSkip

/-- the row position after a step: unchanged, or (row left through the skip) moved back by at most one
    with `iSkip = 2` and cleared counters -/
def RowPos {F : Type} (i0 : Int) (s : Scan F) : Prop :=
  s.i = i0 ∨ (i0 - 1 ≤ s.i ∧ s.iSkip = 2 ∧ s.sc = SC5.zero)

theorem pixelStep_sat {F : Type} (o : FOps F) {rd : Reader} (hrd : Total rd) (maxI maxJ : Int) (s : Scan F) (j : Int)
    (hs : ScanInv s) :
    Sat NoFault (fun r => ScanInv r.1 ∧ (r.2 = false → r.1.i = s.i) ∧ (r.2 = true → RowPos s.i r.1))
      (pixelStep o rd maxI maxJ s j) := by
  obtain ⟨hnn, hc0, hc4, hsk⟩ := hs
  unfold pixelStep
  obtain ⟨b, hb⟩ := hrd j s.i trivial
  simp only [hb, bind, Except.bind]
  cases b with
  | true =>
    simp only [if_true]
    have hcur : 0 ≤ (if s.cur % 2 = 1 then s.cur + 1 else s.cur) ∧ (if s.cur % 2 = 1 then s.cur + 1 else s.cur) ≤ 4 := by
      split <;> omega
    have hinc := SC5.inc_sat s.sc _ hcur.1 hcur.2 hnn
    cases hi : s.sc.inc (if s.cur % 2 = 1 then s.cur + 1 else s.cur) with
    | error e => rw [hi] at hinc; exact hinc.elim
    | ok sc =>
      rw [hi] at hinc
      exact ⟨⟨hinc, hcur.1, hcur.2, hsk⟩, fun _ => rfl, fun h => by cases h⟩
  | false =>
    simp only [Bool.false_eq_true, if_false]
    by_cases heven : s.cur % 2 = 0
    · simp only [heven, if_true]
      by_cases h4 : s.cur = 4
      · simp only [h4, if_true]
        by_cases hf : foundPatternCross o s.sc = true
        · simp only [hf, if_true]
          have hh := handlePossibleCenter_sat o hrd maxI maxJ s.fs s.sc s.i j
          cases hr : handlePossibleCenter o rd maxI maxJ s.fs s.sc s.i j with
          | error e => rw [hr] at hh; exact hh.elim
          | ok p =>
            obtain ⟨confirmed, fs⟩ := p
            simp only []
            cases confirmed with
            | false =>
              simp only [Bool.false_eq_true, if_false]
              exact ⟨⟨SC5.shift2_nonneg _ hnn, by ar, by ar, hsk⟩, fun _ => rfl, fun h => by cases h⟩
            | true =>
              simp only [if_true]
              by_cases hsk2 : fs.hasSkipped = true
              · simp only [hsk2, if_true]
                exact ⟨⟨SC5.zero_nonneg, by ar, by ar, by ar⟩, fun _ => rfl, fun h => by cases h⟩
              · simp only [hsk2, if_false]
                by_cases hrs : (findRowSkip o fs).1 > s.sc.c2
                · simp only [hrs, if_true]
                  refine ⟨⟨SC5.zero_nonneg, by ar, by ar, by ar⟩, (fun h => by cases h), fun _ => Or.inr ⟨?_, rfl, rfl⟩⟩
                  simp only []; omega
                · simp only [hrs, if_false]
                  exact ⟨⟨SC5.zero_nonneg, by ar, by ar, by ar⟩, fun _ => rfl, fun h => by cases h⟩
        · simp only [hf]
          exact ⟨⟨SC5.shift2_nonneg _ hnn, by ar, by ar, hsk⟩, fun _ => rfl, fun h => by cases h⟩
      · simp only [h4, if_false]
        have hinc := SC5.inc_sat s.sc (s.cur + 1) (by omega) (by omega) hnn
        cases hi : s.sc.inc (s.cur + 1) with
        | error e => rw [hi] at hinc; exact hinc.elim
        | ok sc =>
          rw [hi] at hinc
          exact ⟨⟨hinc, by simp only []; omega, by simp only []; omega, hsk⟩, fun _ => rfl, fun h => by cases h⟩
    · simp only [heven, if_false]
      have hinc := SC5.inc_sat s.sc s.cur hc0 hc4 hnn
      cases hi : s.sc.inc s.cur with
      | error e => rw [hi] at hinc; exact hinc.elim
      | ok sc =>
        rw [hi] at hinc
        exact ⟨⟨hinc, hc0, hc4, hsk⟩, fun _ => rfl, fun h => by cases h⟩

theorem rowLoop_sat {F : Type} (o : FOps F) {rd : Reader} (hrd : Total rd) (maxI maxJ : Int) :
    ∀ (n : Nat) (j : Int) (s : Scan F), ScanInv s →
      Sat NoFault (fun r => ScanInv r ∧ RowPos s.i r) (rowLoop o rd maxI maxJ n j s) := by
  intro n
  induction n with
  | zero => intro j s hs; exact Sat.ok ⟨hs, Or.inl rfl⟩
  | succ n ih =>
    intro j s hs
    unfold rowLoop
    refine Sat.bind (pixelStep_sat o hrd maxI maxJ s j hs) ?_
    intro r ⟨h1, h2, h3⟩
    obtain ⟨s', leave⟩ := r
    cases leave with
    | true => exact Sat.ok ⟨h1, h3 rfl⟩
    | false =>
      simp only [Bool.false_eq_true, if_false]
      have hi : s'.i = s.i := h2 rfl
      refine Sat.mono (ih (j + 1) s' h1) (fun _ h => h) ?_
      intro r ⟨hr1, hr2⟩
      exact ⟨hr1, by rw [hi] at hr2; exact hr2⟩

/-- one row: the invariant is kept and the next row index is strictly larger -/
theorem scanRow_sat {F : Type} (o : FOps F) {rd : Reader} (hrd : Total rd) (maxI maxJ : Int) (s : Scan F)
    (hs : ScanInv s) :
    Sat NoFault (fun r => ScanInv r ∧ s.i + 1 ≤ r.i + r.iSkip) (scanRow o rd maxI maxJ s) := by
  unfold scanRow
  have hs0 : ScanInv { s with sc := SC5.zero, cur := 0 } := ⟨SC5.zero_nonneg, by ar, by ar, hs.2.2.2⟩
  refine Sat.bind (rowLoop_sat o hrd maxI maxJ _ 0 _ hs0) ?_
  intro s1 ⟨h1, hpos⟩
  simp only [] at hpos
  obtain ⟨hnn, hc0, hc4, hsk⟩ := h1
  by_cases hf : foundPatternCross o s1.sc = true
  · simp only [hf, if_true]
    have hpl := foundPatternCross_plausible o _ hf
    have hc0' := plausible_c0 _ hnn hpl
    have hi : s1.i = s.i := by
      rcases hpos with h | ⟨_, _, hz⟩
      · exact h
      · rw [hz, zero_not_plausible] at hpl; cases hpl
    refine Sat.bind (sat_true_of (handlePossibleCenter_sat o hrd maxI maxJ s1.fs s1.sc s1.i maxJ)) ?_
    intro p _
    obtain ⟨confirmed, fs⟩ := p
    simp only []
    cases confirmed with
    | false =>
      simp only [Bool.false_eq_true, if_false]
      exact Sat.ok ⟨⟨hnn, hc0, hc4, hsk⟩, by simp only []; omega⟩
    | true =>
      simp only [if_true]
      by_cases hsk2 : fs.hasSkipped = true
      · simp only [hsk2, if_true]
        exact Sat.ok ⟨⟨hnn, hc0, hc4, hc0'⟩, by simp only []; omega⟩
      · simp only [hsk2]
        exact Sat.ok ⟨⟨hnn, hc0, hc4, hc0'⟩, by simp only []; omega⟩
  · simp only [hf]
    refine Sat.ok ⟨⟨hnn, hc0, hc4, hsk⟩, ?_⟩
    rcases hpos with h | ⟨h1, h2, _⟩
    · omega
    · omega

theorem rowsLoop_sat {F : Type} (o : FOps F) {rd : Reader} (hrd : Total rd) (maxI maxJ : Int) :
    ∀ (n : Nat) (s : Scan F), ScanInv s → (maxI - s.i).toNat ≤ n →
      Sat NoFault (fun _ => True) (rowsLoop o rd maxI maxJ n s) := by
  intro n
  induction n with
  | zero =>
    intro s _ hn
    unfold rowsLoop
    by_cases hc : s.i < maxI ∧ (!s.done) = true
    · exfalso; omega
    · simp only [hc]; exact Sat.ok trivial
  | succ n ih =>
    intro s hs hn
    unfold rowsLoop
    by_cases hc : s.i < maxI ∧ (!s.done) = true
    · simp only [hc, if_true]
      refine Sat.bind (scanRow_sat o hrd maxI maxJ s hs) ?_
      intro s' ⟨h1, h2⟩
      exact ih _ ⟨h1.1, h1.2.1, h1.2.2.1, h1.2.2.2⟩ (by simp only []; omega)
    · simp only [hc]; exact Sat.ok trivial

theorem findScan_sat {F : Type} (o : FOps F) {rd : Reader} (hrd : Total rd) (maxI maxJ : Int) (tryHarder : Bool) :
    Sat NoFault (fun _ => True) (findScan o rd maxI maxJ tryHarder) := by
  unfold findScan
  simp only []
  refine rowsLoop_sat o hrd maxI maxJ _ _ ⟨SC5.zero_nonneg, by ar, by ar, ?_⟩ ?_
  · simp only []; split <;> omega
  · simp only []; split <;> omega

end QR
end Gzx.Det
