/-
  Helper lemmas: SelectBestPatterns / Find, and the Detector steps (module size walk, dimension,
  alignment search) of the QR detector model.
-/
import Gzx.Proofs.DetQR
namespace Gzx.Det.QR
open Gzx Gzx.Det

/-! ## SelectBestPatterns -/

/-- `bestPatterns` is still `nil` only while `distortion` still is the initial `math.MaxFloat64` -/
def BestInv {F : Type} (o : FOps F) (b : Best F) : Prop := b.pats = none → b.distortion = o.maxFloat

theorem bestK_inv {F : Type} (o : FOps F) (fpi fpj : FP F) (sq : F) :
    ∀ (ks : List (FP F)) (b : Best F), BestInv o b → BestInv o (bestK o fpi fpj sq ks b) := by
  intro ks
  induction ks with
  | nil => intro b hb; exact hb
  | cons k ks ih =>
    intro b hb
    unfold bestK
    split
    · exact ih b hb
    · simp only []
      split
      · exact ih _ (fun h => by cases h)
      · exact ih b hb

theorem bestJ_inv {F : Type} (o : FOps F) (fpi : FP F) :
    ∀ (js : List (FP F)) (b : Best F), BestInv o b → BestInv o (bestJ o fpi js b) := by
  intro js
  induction js with
  | nil => intro b hb; exact hb
  | cons j js ih => intro b hb; exact ih _ (bestK_inv o fpi j _ js b hb)

theorem bestI_inv {F : Type} (o : FOps F) :
    ∀ (is : List (FP F)) (b : Best F), BestInv o b → BestInv o (bestI o is b) := by
  intro is
  induction is with
  | nil => intro b hb; exact hb
  | cons i is ih => intro b hb; exact ih _ (bestJ_inv o i is b hb)

/-- the one property of float64 the totality of `SelectBestPatterns` rests on -/
def MaxEqSelf {F : Type} (o : FOps F) : Prop := o.eq o.maxFloat o.maxFloat = true

theorem selectBestPatterns_sat {F : Type} (o : FOps F) (hmax : MaxEqSelf o) (centers : List (FP F)) :
    Sat OnlyNotFound (fun _ => True) (selectBestPatterns o centers) := by
  unfold selectBestPatterns
  split
  · exact rfl
  · simp only []
    have hinv := bestI_inv o (sortBySize o centers) { distortion := o.maxFloat, pats := none } (fun _ => rfl)
    split
    · exact rfl
    · rename_i hne
      split
      · exact Sat.ok trivial
      · rename_i hnone
        exfalso
        apply hne
        rw [hinv hnone]
        exact hmax

attribute [local irreducible] findScan selectBestPatterns in
theorem find_sat {F : Type} (o : FOps F) (hmax : MaxEqSelf o) {rd : Reader} (hrd : Total rd)
    (maxI maxJ : Int) (tryHarder : Bool) :
    Sat OnlyNotFound (fun _ => True) (find o rd maxI maxJ tryHarder) := by
  unfold find
  refine sat_bind_true (Sat.mono (findScan_sat o hrd maxI maxJ tryHarder) (fun _ h => h.elim) (fun _ h => h)) ?_
  intro s
  refine sat_bind_true (selectBestPatterns_sat o hmax _) ?_
  intro p
  exact Sat.ok trivial

/-! ## module size -/

theorem bwbLoop_sat {F : Type} (o : FOps F) {rd : Reader} (hrd : Total rd) (steep : Bool)
    (fromX fromY toY dx dy xstep ystep : Int) :
    ∀ (n : Nat) (x y err state : Int),
      Sat NoFault (fun _ => True) (bwbLoop o rd steep fromX fromY toY dx dy xstep ystep n x y err state) := by
  intro n
  induction n with
  | zero => intro x y err state; exact Sat.ok trivial
  | succ n ih =>
    intro x y err state
    unfold bwbLoop
    refine sat_bind_true (hrd.sat trivial) ?_
    intro b
    simp only []
    split
    · exact Sat.ok trivial
    · split
      · split
        · exact Sat.ok trivial
        · exact ih _ _ _ _
      · exact ih _ _ _ _

attribute [local irreducible] bwbLoop in
theorem sizeOfBlackWhiteBlackRun_sat {F : Type} (o : FOps F) {rd : Reader} (hrd : Total rd)
    (fromX fromY toX toY : Int) :
    Sat NoFault (fun _ => True) (sizeOfBlackWhiteBlackRun o rd fromX fromY toX toY) := by
  unfold sizeOfBlackWhiteBlackRun
  simp only []
  split <;> simp only [] <;>
  · refine sat_bind_true (bwbLoop_sat o hrd _ _ _ _ _ _ _ _ _ _ _ _ _) ?_
    intro r
    sat_steps

attribute [local irreducible] sizeOfBlackWhiteBlackRun in
theorem sizeOfBlackWhiteBlackRunBothWays_sat {F : Type} (o : FOps F) {rd : Reader} (hrd : Total rd)
    (w h fromX fromY toX toY : Int) :
    Sat NoFault (fun _ => True) (sizeOfBlackWhiteBlackRunBothWays o rd w h fromX fromY toX toY) := by
  unfold sizeOfBlackWhiteBlackRunBothWays
  refine sat_bind_true (sizeOfBlackWhiteBlackRun_sat o hrd _ _ _ _) ?_
  intro r
  simp only []
  refine sat_bind_true (sizeOfBlackWhiteBlackRun_sat o hrd _ _ _ _) ?_
  intro r2
  exact Sat.ok trivial

attribute [local irreducible] sizeOfBlackWhiteBlackRunBothWays in
theorem calculateModuleSizeOneWay_sat {F : Type} (o : FOps F) {rd : Reader} (hrd : Total rd)
    (w h : Int) (p q : FP F) :
    Sat NoFault (fun _ => True) (calculateModuleSizeOneWay o rd w h p q) := by
  unfold calculateModuleSizeOneWay
  refine sat_bind_true (sizeOfBlackWhiteBlackRunBothWays_sat o hrd _ _ _ _ _ _) ?_
  intro e1
  refine sat_bind_true (sizeOfBlackWhiteBlackRunBothWays_sat o hrd _ _ _ _ _ _) ?_
  intro e2
  sat_steps

attribute [local irreducible] calculateModuleSizeOneWay in
theorem calculateModuleSize_sat {F : Type} (o : FOps F) {rd : Reader} (hrd : Total rd)
    (w h : Int) (tl tr bl : FP F) :
    Sat NoFault (fun _ => True) (calculateModuleSize o rd w h tl tr bl) := by
  unfold calculateModuleSize
  refine sat_bind_true (calculateModuleSizeOneWay_sat o hrd _ _ _ _) ?_
  intro a
  refine sat_bind_true (calculateModuleSizeOneWay_sat o hrd _ _ _ _) ?_
  intro b
  exact Sat.ok trivial

/-! ## dimension -/

/-- `computeDimension` answers a dimension ≡ 1 (mod 4) — or, for a negative sum, one whose Go remainder
    is -1, -2 or -3 — or NotFoundException; never anything else -/
theorem adjustDimension_sat (a b : Int) :
    Sat OnlyNotFound (fun d => Int.tmod d 4 = 1 ∨ d < 7) (adjustDimension a b) := by
  unfold adjustDimension
  simp only []
  generalize Int.tdiv (wrap64 (a + b)) 2 + 7 = d
  by_cases h0 : Int.tmod d 4 = 0
  · simp only [h0, if_true]
    refine Sat.ok ?_
    by_cases hd : 0 ≤ d
    · left
      have := Int.tmod_eq_emod_of_nonneg hd (b := 4)
      have h1 : 0 ≤ d + 1 := by omega
      rw [Int.tmod_eq_emod_of_nonneg h1]
      omega
    · right; omega
  · simp only [h0, if_false]
    by_cases h2 : Int.tmod d 4 = 2
    · simp only [h2, if_true]
      refine Sat.ok ?_
      by_cases hd : 0 ≤ d
      · left
        have := Int.tmod_eq_emod_of_nonneg hd (b := 4)
        have h1 : 0 ≤ d - 1 := by omega
        rw [Int.tmod_eq_emod_of_nonneg h1]
        omega
      · right; omega
    · simp only [h2, if_false]
      by_cases h3 : Int.tmod d 4 = 3
      · simp only [h3, if_true]; exact rfl
      · simp only [h3, if_false]
        refine Sat.ok ?_
        by_cases hd : 0 ≤ d
        · left
          have := Int.tmod_eq_emod_of_nonneg hd (b := 4)
          omega
        · right; omega

/-! ## AlignmentPatternFinder -/

theorem apCrossCheckVertical_sat {F : Type} (o : FOps F) {rd : Reader} (hrd : Total rd) (maxI : Int) (moduleSize : F)
    (startI centerJ maxCount origTotal : Int) :
    Sat NoFault (fun _ => True) (apCrossCheckVertical o rd maxI moduleSize startI centerJ maxCount origTotal) := by
  unfold apCrossCheckVertical
  simp only []
  sat_steps
  all_goals first | exact walk_down_total hrd _ _ _ _ _ | exact walk_up_total hrd _ _ _ _ _ _

attribute [local irreducible] apCrossCheckVertical in
theorem apHandlePossibleCenter_sat {F : Type} (o : FOps F) {rd : Reader} (hrd : Total rd) (maxI : Int) (moduleSize : F)
    (centers : List (AP F)) (sc : SC3) (i j : Int) :
    Sat NoFault (fun _ => True) (apHandlePossibleCenter o rd maxI moduleSize centers sc i j) := by
  unfold apHandlePossibleCenter
  simp only []
  refine sat_bind_true (apCrossCheckVertical_sat o hrd _ _ _ _ _ _) ?_
  intro c
  sat_steps

theorem SC3.inc_sat (s : SC3) (i : Int) (h0 : 0 ≤ i) (h2 : i ≤ 2) : Sat NoFault (fun _ => True) (s.inc i) := by
  unfold SC3.inc
  by_cases e0 : i = 0
  · simp only [e0, if_true]; exact Sat.ok trivial
  by_cases e1 : i = 1
  · simp only [e1, if_true]; exact Sat.ok trivial
  by_cases e2 : i = 2
  · simp only [e2, if_true]; exact Sat.ok trivial
  · exfalso; omega

attribute [local irreducible] apHandlePossibleCenter in
theorem apRowLoop_sat {F : Type} (o : FOps F) {rd : Reader} (hrd : Total rd) (maxI : Int) (moduleSize : F) (i : Int) :
    ∀ (n : Nat) (j : Int) (s : APScan F), 0 ≤ s.cur → s.cur ≤ 2 →
      Sat NoFault (fun _ => True) (apRowLoop o rd maxI moduleSize i n j s) := by
  intro n
  induction n with
  | zero => intro j s _ _; exact Sat.ok trivial
  | succ n ih =>
    intro j s h0 h2
    unfold apRowLoop
    refine sat_bind_true (hrd.sat trivial) ?_
    intro b
    cases b with
    | true =>
      simp only [if_true]
      by_cases c1 : s.cur = 1
      · simp only [c1, if_true]
        refine sat_bind_true (SC3.inc_sat _ 1 (by decide) (by decide)) ?_
        intro sc
        exact ih _ _ (by simp only []; omega) (by simp only []; omega)
      · simp only [c1, if_false]
        by_cases c2 : s.cur = 2
        · simp only [c2, if_true]
          split
          · refine sat_bind_true (apHandlePossibleCenter_sat o hrd _ _ _ _ _ _) ?_
            intro p
            obtain ⟨confirmed, centers⟩ := p
            simp only []
            split
            · exact Sat.ok trivial
            · exact ih _ _ (by simp only []; omega) (by simp only []; omega)
          · exact ih _ _ (by simp only []; omega) (by simp only []; omega)
        · simp only [c2, if_false]
          refine sat_bind_true (SC3.inc_sat _ _ (by omega) (by omega)) ?_
          intro sc
          exact ih _ _ (by simp only []; omega) (by simp only []; omega)
    | false =>
      simp only [Bool.false_eq_true, if_false]
      refine sat_bind_true (SC3.inc_sat _ _ (by split <;> omega) (by split <;> omega)) ?_
      intro sc
      exact ih _ _ (by simp only []; split <;> omega) (by simp only []; split <;> omega)

attribute [local irreducible] apHandlePossibleCenter apRowLoop in
theorem apRowsLoop_sat {F : Type} (o : FOps F) {rd : Reader} (hrd : Total rd) (maxI : Int) (moduleSize : F)
    (startX maxJ middleI : Int) :
    ∀ (n : Nat) (iGen : Int) (centers : List (AP F)),
      Sat NoFault (fun _ => True) (apRowsLoop o rd maxI moduleSize startX maxJ middleI n iGen centers) := by
  intro n
  induction n with
  | zero => intro iGen centers; exact Sat.ok trivial
  | succ n ih =>
    intro iGen centers
    unfold apRowsLoop
    simp only []
    refine sat_bind_true (walk_up_total hrd _ _ _ _ _ _) ?_
    intro r
    refine sat_bind_true (apRowLoop_sat o hrd _ _ _ _ _ _ (by simp) (by simp)) ?_
    intro r2
    split
    · exact Sat.ok trivial
    · split
      · refine sat_bind_true (apHandlePossibleCenter_sat o hrd _ _ _ _ _ _) ?_
        intro p
        obtain ⟨confirmed, centers'⟩ := p
        simp only []
        split
        · exact Sat.ok trivial
        · exact ih _ _
      · exact ih _ _

attribute [local irreducible] apRowsLoop in
theorem apFind_sat {F : Type} (o : FOps F) {rd : Reader} (hrd : Total rd) (maxI startX startY width height : Int)
    (moduleSize : F) :
    Sat OnlyNotFound (fun _ => True) (apFind o rd maxI startX startY width height moduleSize) := by
  unfold apFind
  refine sat_bind_true (Sat.mono (apRowsLoop_sat o hrd _ _ _ _ _ _ _ _) (fun _ h => h.elim) (fun _ h => h)) ?_
  intro r
  sat_steps

attribute [local irreducible] apFind in
theorem findAlignmentInRegion_sat {F : Type} (o : FOps F) {rd : Reader} (hrd : Total rd) (w h : Int) (moduleSize : F)
    (estX estY : Int) (factor : F) :
    Sat OnlyNotFound (fun _ => True) (findAlignmentInRegion o rd w h moduleSize estX estY factor) := by
  unfold findAlignmentInRegion
  simp only []
  repeat' split
  all_goals first | exact rfl | exact apFind_sat o hrd _ _ _ _ _ _

attribute [local irreducible] findAlignmentInRegion in
theorem alignmentSearch_sat {F : Type} (o : FOps F) {rd : Reader} (hrd : Total rd) (w h : Int) (moduleSize : F)
    (estX estY : Int) :
    ∀ (l : List Int), Sat NoFault (fun _ => True) (alignmentSearch o rd w h moduleSize estX estY l) := by
  intro l
  induction l with
  | nil => exact Sat.ok trivial
  | cons i is ih =>
    unfold alignmentSearch
    have hf := findAlignmentInRegion_sat o hrd w h moduleSize estX estY (o.ofInt i)
    cases hr : findAlignmentInRegion o rd w h moduleSize estX estY (o.ofInt i) with
    | ok a => exact Sat.ok trivial
    | error e =>
      rw [hr] at hf
      have : e = Fault.notFound := hf
      subst this
      exact ih

/-- the errors `ProcessFinderPatternInfo` can return before sampling: NotFound, or Format (dimension
    that no QR version has) -/
def NotFoundOrFormat : Fault → Prop := fun e => e = .notFound ∨ e = .format

attribute [local irreducible] calculateModuleSize alignmentSearch in
theorem locate_sat {F : Type} (o : FOps F) {rd : Reader} (hrd : Total rd) (w h : Int) (tl tr bl : FP F) :
    Sat NotFoundOrFormat (fun l => Int.tmod l.dimension 4 = 1 ∧ 21 ≤ l.dimension ∧ l.dimension ≤ 177)
      (locate o rd w h tl tr bl) := by
  unfold locate
  refine sat_bind_true (Sat.mono (calculateModuleSize_sat o hrd w h tl tr bl) (fun _ h => h.elim) (fun _ h => h)) ?_
  intro ms
  split
  · exact Or.inl rfl
  · simp only [bind, Except.bind]
    have hd : Sat OnlyNotFound (fun _ => True) (computeDimension o tl tr bl ms) :=
      sat_true_of (adjustDimension_sat _ _)
    cases hr : computeDimension o tl tr bl ms with
    | error e => rw [hr] at hd; exact Or.inl hd
    | ok d =>
      show Sat NotFoundOrFormat _ (if Int.tmod d 4 ≠ 1 then _ else _)
      by_cases hm : Int.tmod d 4 ≠ 1
      · rw [if_pos hm]; exact Or.inr rfl
      · rw [if_neg hm]
        by_cases hv : Int.tdiv (d - 17) 4 < 1 ∨ Int.tdiv (d - 17) 4 > 40
        · rw [if_pos hv]; exact Or.inr rfl
        · rw [if_neg hv]
          have hm' : Int.tmod d 4 = 1 := by
            by_cases e : Int.tmod d 4 = 1
            · exact e
            · exact absurd e hm
          have hbounds : 21 ≤ d ∧ d ≤ 177 := by
            have h1 : 1 ≤ Int.tdiv (d - 17) 4 := by omega
            have h2 : Int.tdiv (d - 17) 4 ≤ 40 := by omega
            have hpos : 0 ≤ d - 17 := by
              by_cases hp : 0 ≤ d - 17
              · exact hp
              · exfalso
                have hx : Int.tdiv (d - 17) 4 = -(Int.tdiv (-(d - 17)) 4) := by
                  rw [Int.neg_tdiv, Int.neg_neg]
                have := Int.tdiv_nonneg (a := -(d - 17)) (b := 4) (by omega) (by decide)
                omega
            rw [Int.tdiv_eq_ediv_of_nonneg hpos] at h1 h2
            have hmod := hm'
            rw [Int.tmod_eq_emod_of_nonneg (by omega : 0 ≤ d)] at hmod
            constructor <;> omega
          split
          · refine sat_bind_true (Sat.mono (alignmentSearch_sat o hrd w h ms _ _ _) (fun _ h => h.elim) (fun _ h => h)) ?_
            intro a
            exact Sat.ok ⟨hm', hbounds⟩
          · exact Sat.ok ⟨hm', hbounds⟩

attribute [local irreducible] find locate in
theorem detect_sat {F : Type} (o : FOps F) (hmax : MaxEqSelf o) {rd : Reader} (hrd : Total rd) (w h : Int)
    (tryHarder : Bool) :
    Sat NotFoundOrFormat (fun r => Int.tmod r.2.dimension 4 = 1 ∧ 21 ≤ r.2.dimension ∧ r.2.dimension ≤ 177)
      (detect o rd w h tryHarder) := by
  unfold detect
  refine sat_bind_true (Sat.mono (find_sat o hmax hrd h w tryHarder) (fun _ h => Or.inl h) (fun _ h => h)) ?_
  intro info
  refine Sat.bind (locate_sat o hrd w h _ _ _) ?_
  intro loc hl
  exact Sat.ok hl

end Gzx.Det.QR
