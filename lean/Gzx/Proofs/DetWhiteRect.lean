/-
  Helper lemmas for the WhiteRectangleDetector model (Gzx/Model/DetWhiteRect.lean).
-/
import Gzx.Model.DetWhiteRect
namespace Gzx.Det.WRD
open Gzx Gzx.Det

/-! ## containsBlackPoint -/

theorem scanLine_sat {rd : Reader} {R : Int → Int → Prop} (hrd : RdOK rd R) {E : Fault → Prop}
    (horizontal : Bool) (fixed : Int) :
    ∀ (n : Nat) (c : Int),
      (∀ k : Int, c ≤ k → k < c + n → if horizontal then R k fixed else R fixed k) →
      Sat E (fun _ => True) (scanLine rd horizontal fixed n c) := by
  intro n
  induction n with
  | zero => intro c _; exact Sat.ok trivial
  | succ n ih =>
    intro c hR
    unfold scanLine
    have h0 := hR c (Int.le_refl c) (by omega)
    have hread : Sat E (fun _ => True) (rd (if horizontal then c else fixed) (if horizontal then fixed else c)) := by
      cases horizontal with
      | true => exact hrd.sat (by simpa using h0)
      | false => exact hrd.sat (by simpa using h0)
    refine Sat.bind hread ?_
    intro b _
    cases b with
    | true => exact Sat.ok trivial
    | false =>
      simp only [Bool.false_eq_true, if_false]
      exact ih (c + 1) (fun k h1 h2 => hR k (by omega) (by omega))

theorem containsBlackPoint_sat {rd : Reader} {R : Int → Int → Prop} (hrd : RdOK rd R) {E : Fault → Prop}
    (a b fixed : Int) (horizontal : Bool)
    (hR : ∀ k : Int, a ≤ k → k ≤ b → if horizontal then R k fixed else R fixed k) :
    Sat E (fun _ => True) (containsBlackPoint rd a b fixed horizontal) := by
  unfold containsBlackPoint
  exact scanLine_sat hrd horizontal fixed _ a (fun k h1 h2 => hR k h1 (by omega))

/-! ## one expansion loop -/

/-- Generic specification of `expandLoop`.  `I` is an invariant of the moving border, `J` says "the
    border has moved" (closed under further steps), `μ` the distance to the limit. -/
theorem expandLoop_sat {rd : Reader} {E : Fault → Prop} (horizontal : Bool) (a b step : Int) (lim : Int → Bool)
    (I J : Int → Prop) (μ : Int → Nat)
    (hcb : ∀ c, I c → lim c = true → Sat E (fun _ => True) (containsBlackPoint rd a b c horizontal))
    (hI : ∀ c, I c → lim c = true → I (c + step))
    (hJ : ∀ c, I c → lim c = true → J (c + step))
    (hμ : ∀ c, I c → lim c = true → μ (c + step) < μ c) :
    ∀ (n : Nat) (c : Int) (nw one found : Bool), I c →
      (((nw || !one) && lim c) = true → μ c < n) →
      Sat E (fun r => I r.1 ∧ (J c → J r.1) ∧ (r.2.2 = true → found = true ∨ J r.1))
        (expandLoop rd horizontal a b step lim n c nw one found) := by
  intro n
  induction n with
  | zero =>
    intro c nw one found hIc hfuel
    unfold expandLoop
    by_cases hc : ((nw || !one) && lim c) = true
    · exact absurd (hfuel hc) (Nat.not_lt_zero _)
    · simp only [hc, if_false]
      exact Sat.ok ⟨hIc, id, Or.inl⟩
  | succ n ih =>
    intro c nw one found hIc hfuel
    unfold expandLoop
    by_cases hc : ((nw || !one) && lim c) = true
    · simp only [hc, if_true]
      have hl : lim c = true := by
        simp only [Bool.and_eq_true] at hc; exact hc.2
      have hm := hfuel hc
      have hm' := hμ c hIc hl
      refine Sat.bind (hcb c hIc hl) ?_
      intro nw' _
      have hstepfuel : ∀ (x y : Bool), (((x || !y) && lim (c + step)) = true → μ (c + step) < n) := by
        intro _ _ _; omega
      cases nw' with
      | true =>
        simp only [if_true]
        refine Sat.mono (ih (c + step) true true true (hI c hIc hl) (hstepfuel _ _)) (fun _ h => h) ?_
        intro r ⟨h1, h2, _⟩
        have hj := h2 (hJ c hIc hl)
        exact ⟨h1, fun _ => hj, fun _ => Or.inr hj⟩
      | false =>
        simp only [Bool.false_eq_true, if_false]
        cases one with
        | false =>
          simp only [Bool.not_false, if_true]
          refine Sat.mono (ih (c + step) false false found (hI c hIc hl) (hstepfuel _ _)) (fun _ h => h) ?_
          intro r ⟨h1, h2, _⟩
          have hj := h2 (hJ c hIc hl)
          exact ⟨h1, fun _ => hj, fun _ => Or.inr hj⟩
        | true =>
          simp only [Bool.not_true, Bool.false_eq_true, if_false]
          exact ih c false true found hIc (by simp)
    · simp only [hc, if_false]
      exact Sat.ok ⟨hIc, id, Or.inl⟩

/-! ## one round of the outer loop -/

/-- the borders enclose a non-empty box with its top-left corner inside the image
    (what `new` establishes for `initSize ≥ 0`) -/
def Box (s : St) : Prop := 0 ≤ s.left ∧ s.left ≤ s.right ∧ 0 ≤ s.up ∧ s.up ≤ s.down

/-- what holds of every state with which the loop continues -/
def InLimits (w h : Int) (s : St) : Prop := s.right < w ∧ s.down < h ∧ 0 ≤ s.left ∧ 0 ≤ s.up

/-- the measure of the outer loop -/
def measure (w h : Int) (s : St) : Int := (w - s.right) + (h - s.down) + (s.left + 1) + (s.up + 1)

def Grown (s s' : St) : Prop :=
  s.right ≤ s'.right ∧ s.down ≤ s'.down ∧ s'.left ≤ s.left ∧ s'.up ≤ s.up

/-- Specification of one round, for a reader that is total (`Or.inl`) or total on the image with the
    box invariant (`Or.inr`): no fault; borders only grow; a continuing round stays within the limits,
    and if it reports a black point on the border, some border has moved. -/
theorem round_sat {rd : Reader} {R : Int → Int → Prop} (hrd : RdOK rd R) (w h : Int) (s : St)
    (hsafe : (∀ x y, R x y) ∨ (Box s ∧ InLimits w h s ∧ ∀ x y, (0 ≤ x ∧ x < w ∧ 0 ≤ y ∧ y < h) → R x y)) :
    Sat NoFault (fun r => ∀ s' f, r = some (s', f) →
        Grown s s' ∧ InLimits w h s' ∧ (f = true → measure w h s' < measure w h s) ∧ (Box s → Box s'))
      (round rd w h s) := by
  unfold round
  -- right border
  refine Sat.bind (P := fun r => s.right ≤ r.1 ∧ (r.2.2 = true → s.right < r.1))
    (Sat.mono (expandLoop_sat (E := NoFault) false s.up s.down 1 (fun c => decide (c < w))
      (fun c => s.right ≤ c) (fun c => s.right < c) (fun c => (w - c).toNat)
      ?_ ?_ ?_ ?_ (fuelUp w s.right) s.right true s.oneR false (Int.le_refl _) ?_) (fun _ h => h) ?_) ?_
  · -- reads of the right loop
    intro c hc hl
    have hl' : c < w := by simpa using hl
    refine containsBlackPoint_sat hrd _ _ _ _ ?_
    intro k hk1 hk2
    simp only [Bool.false_eq_true, if_false]
    rcases hsafe with hall | ⟨hbox, hlim, hin⟩
    · exact hall _ _
    · obtain ⟨b1, b2, b3, b4⟩ := hbox
      obtain ⟨l1, l2, l3, l4⟩ := hlim
      exact hin _ _ ⟨by omega, hl', by omega, by omega⟩
  · intro c hc _; omega
  · intro c hc _; omega
  · intro c _ hl
    have hl' : c < w := by simpa using hl
    omega
  · intro hl
    have hl' : s.right < w := by simpa using hl
    unfold fuelUp; omega
  · intro r ⟨h1, _, h3⟩
    refine ⟨h1, fun hf => ?_⟩
    rcases h3 hf with h | h
    · exact absurd h (by simp)
    · exact h
  intro r1 ⟨hr1, hf1⟩
  by_cases hx1 : r1.1 ≥ w
  · simp only [hx1, if_true]
    exact Sat.ok (fun _ _ h => by cases h)
  simp only [hx1, if_false]
  -- bottom border
  refine Sat.bind (P := fun r => s.down ≤ r.1 ∧ (r.2.2 = true → r1.2.2 = true ∨ s.down < r.1))
    (Sat.mono (expandLoop_sat (E := NoFault) true s.left r1.1 1 (fun c => decide (c < h))
      (fun c => s.down ≤ c) (fun c => s.down < c) (fun c => (h - c).toNat)
      ?_ ?_ ?_ ?_ (fuelUp h s.down) s.down true s.oneB r1.2.2 (Int.le_refl _) ?_) (fun _ h => h) ?_) ?_
  · intro c hc hl
    have hl' : c < h := by simpa using hl
    refine containsBlackPoint_sat hrd _ _ _ _ ?_
    intro k hk1 hk2
    simp only [if_true]
    rcases hsafe with hall | ⟨hbox, hlim, hin⟩
    · exact hall _ _
    · obtain ⟨b1, b2, b3, b4⟩ := hbox
      obtain ⟨l1, l2, l3, l4⟩ := hlim
      exact hin _ _ ⟨by omega, by omega, by omega, hl'⟩
  · intro c hc _; omega
  · intro c hc _; omega
  · intro c _ hl
    have hl' : c < h := by simpa using hl
    omega
  · intro hl
    have hl' : s.down < h := by simpa using hl
    unfold fuelUp; omega
  · intro r ⟨h1, _, h3⟩
    exact ⟨h1, h3⟩
  intro r2 ⟨hr2, hf2⟩
  by_cases hx2 : r2.1 ≥ h
  · simp only [hx2, if_true]
    exact Sat.ok (fun _ _ h => by cases h)
  simp only [hx2, if_false]
  -- left border
  refine Sat.bind (P := fun r => r.1 ≤ s.left ∧ (s.left ≥ 0 → r.1 ≥ -1) ∧ (r.2.2 = true → r2.2.2 = true ∨ r.1 < s.left))
    (Sat.mono (expandLoop_sat (E := NoFault) false s.up r2.1 (-1) (fun c => decide (c ≥ 0))
      (fun c => c ≤ s.left ∧ (s.left ≥ 0 → c ≥ -1)) (fun c => c < s.left) (fun c => (c + 1).toNat)
      ?_ ?_ ?_ ?_ (fuelDown s.left) s.left true s.oneL r2.2.2 ⟨Int.le_refl _, fun h => by omega⟩ ?_) (fun _ h => h) ?_) ?_
  · intro c hc hl
    have hl' : c ≥ 0 := by simpa using hl
    refine containsBlackPoint_sat hrd _ _ _ _ ?_
    intro k hk1 hk2
    simp only [Bool.false_eq_true, if_false]
    rcases hsafe with hall | ⟨hbox, hlim, hin⟩
    · exact hall _ _
    · obtain ⟨b1, b2, b3, b4⟩ := hbox
      obtain ⟨l1, l2, l3, l4⟩ := hlim
      exact hin _ _ ⟨hl', by omega, by omega, by omega⟩
  · intro c hc hl
    have hl' : c ≥ 0 := by simpa using hl
    exact ⟨by omega, fun _ => by omega⟩
  · intro c hc _; omega
  · intro c _ hl
    have hl' : c ≥ 0 := by simpa using hl
    omega
  · intro hl
    have hl' : s.left ≥ 0 := by simpa using hl
    unfold fuelDown; omega
  · intro r ⟨h1, _, h3⟩
    exact ⟨h1.1, h1.2, h3⟩
  intro r3 ⟨hr3, hr3', hf3⟩
  by_cases hx3 : r3.1 < 0
  · simp only [hx3, if_true]
    exact Sat.ok (fun _ _ h => by cases h)
  simp only [hx3, if_false]
  -- top border
  refine Sat.bind (P := fun r => r.1 ≤ s.up ∧ (r.2.2 = true → r3.2.2 = true ∨ r.1 < s.up))
    (Sat.mono (expandLoop_sat (E := NoFault) true r3.1 r1.1 (-1) (fun c => decide (c ≥ 0))
      (fun c => c ≤ s.up) (fun c => c < s.up) (fun c => (c + 1).toNat)
      ?_ ?_ ?_ ?_ (fuelDown s.up) s.up true s.oneT r3.2.2 (Int.le_refl _) ?_) (fun _ h => h) ?_) ?_
  · intro c hc hl
    have hl' : c ≥ 0 := by simpa using hl
    refine containsBlackPoint_sat hrd _ _ _ _ ?_
    intro k hk1 hk2
    simp only [if_true]
    rcases hsafe with hall | ⟨hbox, hlim, hin⟩
    · exact hall _ _
    · obtain ⟨b1, b2, b3, b4⟩ := hbox
      obtain ⟨l1, l2, l3, l4⟩ := hlim
      exact hin _ _ ⟨by omega, by omega, hl', by omega⟩
  · intro c hc _; omega
  · intro c hc _; omega
  · intro c _ hl
    have hl' : c ≥ 0 := by simpa using hl
    omega
  · intro hl
    have hl' : s.up ≥ 0 := by simpa using hl
    unfold fuelDown; omega
  · intro r ⟨h1, _, h3⟩
    exact ⟨h1, h3⟩
  intro r4 ⟨hr4, hf4⟩
  by_cases hx4 : r4.1 < 0
  · simp only [hx4, if_true]
    exact Sat.ok (fun _ _ h => by cases h)
  simp only [hx4, if_false]
  refine Sat.ok ?_
  intro s' f hs
  simp only [pure, Except.pure, Option.some.injEq, Prod.mk.injEq] at hs
  obtain ⟨hs1, hs2⟩ := hs
  subst hs1 hs2
  refine ⟨⟨hr1, hr2, hr3, hr4⟩, ⟨by simp only []; omega, by simp only []; omega, by simp only []; omega, by simp only []; omega⟩, ?_, ?_⟩
  · intro hf
    simp only [measure]
    rcases hf4 hf with h | h
    · rcases hf3 h with h | h
      · rcases hf2 h with h | h
        · have := hf1 h; omega
        · omega
      · omega
    · omega
  · intro ⟨b1, b2, b3, b4⟩
    exact ⟨by simp only []; omega, by simp only []; omega, by simp only []; omega, by simp only []; omega⟩

/-! ## the outer loop -/

theorem detectLoop_sat {rd : Reader} {R : Int → Int → Prop} (hrd : RdOK rd R) (w h : Int) :
    ∀ (n : Nat) (s : St),
      ((∀ x y, R x y) ∨ (Box s ∧ InLimits w h s ∧ ∀ x y, (0 ≤ x ∧ x < w ∧ 0 ≤ y ∧ y < h) → R x y)) →
      (measure w h s).toNat < n →
      Sat NoFault (fun r => ∀ s', r = some s' → InLimits w h s' ∧ (Box s → Box s'))
        (detectLoop rd w h n s) := by
  intro n
  induction n with
  | zero => intro s _ hm; exact absurd hm (Nat.not_lt_zero _)
  | succ n ih =>
    intro s hsafe hm
    unfold detectLoop
    refine Sat.bind (round_sat hrd w h s hsafe) ?_
    intro r hr
    cases r with
    | none => exact Sat.ok (fun _ h => by cases h)
    | some p =>
      obtain ⟨s', f⟩ := p
      obtain ⟨hg, hlim, hdec, hbox⟩ := hr s' f rfl
      cases f with
      | false =>
        simp only [Bool.false_eq_true, if_false]
        refine Sat.ok ?_
        intro s'' hs
        simp only [pure, Except.pure, Option.some.injEq] at hs
        subst hs
        exact ⟨hlim, hbox⟩
      | true =>
        simp only [if_true]
        have hd := hdec rfl
        have hpos : 0 < measure w h s' := by
          obtain ⟨l1, l2, l3, l4⟩ := hlim
          simp only [measure]; omega
        have hsafe' : (∀ x y, R x y) ∨ (Box s' ∧ InLimits w h s' ∧ ∀ x y, (0 ≤ x ∧ x < w ∧ 0 ≤ y ∧ y < h) → R x y) := by
          rcases hsafe with hall | ⟨hb, _, hin⟩
          · exact Or.inl hall
          · exact Or.inr ⟨hbox hb, hlim, hin⟩
        refine Sat.mono (ih s' hsafe' (by omega)) (fun _ h => h) ?_
        intro r hr' s'' hs
        obtain ⟨h1, h2⟩ := hr' s'' hs
        exact ⟨h1, fun hb => h2 (hbox hb)⟩

/-! ## corner search -/

theorem segLoop_sat {F : Type} (o : FOps F) {rd : Reader} (hrd : RdOK rd (fun _ _ => True))
    (aX aY : Int) (xStep yStep : F) :
    ∀ (n : Nat) (i : Int),
      Sat NoFault (fun r => ∀ p, r = some p → rd p.1 p.2 = .ok true) (segLoop o rd aX aY xStep yStep n i) := by
  intro n
  induction n with
  | zero => intro i; exact Sat.ok (fun _ h => by cases h)
  | succ n ih =>
    intro i
    unfold segLoop
    simp only []
    obtain ⟨b, hb⟩ := hrd (o.round (o.add (o.ofInt aX) (o.mul (o.ofInt i) xStep)))
      (o.round (o.add (o.ofInt aY) (o.mul (o.ofInt i) yStep))) trivial
    simp only [hb, bind, Except.bind]
    cases b with
    | true =>
      simp only [if_true]
      refine Sat.ok ?_
      intro p hp
      simp only [pure, Except.pure, Option.some.injEq] at hp
      subst hp
      exact hb
    | false =>
      simp only [Bool.false_eq_true, if_false]
      exact ih (i + 1)

theorem getBlackPointOnSegment_sat {F : Type} (o : FOps F) {rd : Reader} (hrd : RdOK rd (fun _ _ => True))
    (aX aY bX bY : Int) :
    Sat NoFault (fun r => ∀ p, r = some p → rd p.1 p.2 = .ok true) (getBlackPointOnSegment o rd aX aY bX bY) := by
  unfold getBlackPointOnSegment
  exact segLoop_sat o hrd _ _ _ _ _ _

theorem cornerLoop_sat {F : Type} (o : FOps F) {rd : Reader} (hrd : RdOK rd (fun _ _ => True))
    (seg : Int → Int × Int × Int × Int) :
    ∀ (n : Nat) (i : Int),
      Sat NoFault (fun r => ∀ p, r = some p → rd p.1 p.2 = .ok true) (cornerLoop o rd seg n i) := by
  intro n
  induction n with
  | zero => intro i; exact Sat.ok (fun _ h => by cases h)
  | succ n ih =>
    intro i
    unfold cornerLoop
    simp only []
    refine Sat.bind (getBlackPointOnSegment_sat o hrd _ _ _ _) ?_
    intro r hr
    cases r with
    | none => exact ih (i + 1)
    | some p =>
      refine Sat.ok ?_
      intro q hq
      simp only [pure, Except.pure, Option.some.injEq] at hq
      subst hq
      exact hr p rfl

/-- "black" of a list of four points built by `centerEdges` from pixels the reader answered `true` for -/
def FromBlack (rd : Reader) (pts : List (Int × Int)) : Prop :=
  ∃ y z x t : Int × Int, rd y.1 y.2 = .ok true ∧ rd z.1 z.2 = .ok true ∧ rd x.1 x.2 = .ok true ∧
    rd t.1 t.2 = .ok true ∧
    (pts = [(t.1 - 1, t.2 + 1), (z.1 + 1, z.2 + 1), (x.1 - 1, x.2 - 1), (y.1 + 1, y.2 - 1)] ∨
     pts = [(t.1 + 1, t.2 + 1), (z.1 + 1, z.2 - 1), (x.1 - 1, x.2 + 1), (y.1 - 1, y.2 - 1)])

theorem corners_sat {F : Type} (o : FOps F) {rd : Reader} (hrd : RdOK rd (fun _ _ => True)) (w : Int) (s : St) :
    Sat OnlyNotFound (FromBlack rd) (corners o rd w s) := by
  unfold corners
  simp only []
  have lift : ∀ {α : Type} {P : α → Prop} {r : Res α}, Sat NoFault P r → Sat OnlyNotFound P r :=
    fun h => Sat.mono h (fun _ h => h.elim) (fun _ h => h)
  refine Sat.bind (lift (cornerLoop_sat o hrd _ _ _)) ?_
  intro rz hz
  cases rz with
  | none => exact rfl
  | some z =>
  refine Sat.bind (lift (cornerLoop_sat o hrd _ _ _)) ?_
  intro rt ht
  cases rt with
  | none => exact rfl
  | some t =>
  refine Sat.bind (lift (cornerLoop_sat o hrd _ _ _)) ?_
  intro rx hx
  cases rx with
  | none => exact rfl
  | some x =>
  refine Sat.bind (lift (cornerLoop_sat o hrd _ _ _)) ?_
  intro ry hy
  cases ry with
  | none => exact rfl
  | some y =>
  refine Sat.ok ?_
  refine ⟨y, z, x, t, hy y rfl, hz z rfl, hx x rfl, ht t rfl, ?_⟩
  unfold centerEdges
  by_cases hc : 2 * y.1 < w
  · simp [hc]
  · simp [hc]

end Gzx.Det.WRD
