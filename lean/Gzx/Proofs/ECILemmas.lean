/-
  Lemmas about the ECI designator encoding/parsing and the registry lookups (C15).
-/
import Gzx.Proofs.QRBitsLemmas
namespace Gzx.ECI
open Gzx Gzx.QRDec

set_option maxRecDepth 100000 in
theorem bf1 : ∀ v, v < 256 → ((v < 0x80 → v &&& 0x80 = 0 ∧ v &&& 0x7F = v) ∧
     (0x80 ≤ v → v &&& 0x80 ≠ 0) ∧
     (0x80 ≤ v → v < 0xC0 → v &&& 0x40 = 0 ∧ v &&& 0xC0 = 0x80 ∧ v &&& 0x3F = v - 0x80)) := by decide

set_option maxRecDepth 100000 in
theorem bf2 : ∀ v, v < 256 → (
     (0xC0 ≤ v → v &&& 0x40 ≠ 0 ∧ v &&& 0xC0 ≠ 0x80) ∧
     (0xC0 ≤ v → v < 0xE0 → v &&& 0x20 = 0 ∧ v &&& 0xE0 = 0xC0 ∧ v &&& 0x1F = v - 0xC0) ∧
     (0xE0 ≤ v → v &&& 0x20 ≠ 0 ∧ v &&& 0xE0 ≠ 0xC0)) := by decide

set_option maxRecDepth 100000 in
theorem bf3 : ∀ v, v < 256 → (
     (0xE0 ≤ v → v < 0xF0 → v &&& 0x10 = 0) ∧
     (0xF0 ≤ v → v &&& 0x10 ≠ 0) ∧
     (0xF0 ≤ v → v < 0xF8 → v &&& 0x08 = 0) ∧
     (0xF8 ≤ v → v &&& 0x08 ≠ 0)) := by decide

theorem shl_or (a b k : Nat) (h : b < 2 ^ k) : (a <<< k) ||| b = a * 2 ^ k + b := by
  rw [← Nat.shiftLeft_add_eq_or_of_lt h, Nat.shiftLeft_eq]

/-- one-byte form: 0bbbbbbb -/
theorem parseECI_form1 (v : Nat) (hv : v < 128) (rest : List Bool) :
    parseECIValue (encodeECIValue 1 v ++ rest) = .ok (v, rest) := by
  unfold parseECIValue encodeECIValue
  simp only [if_true]
  rw [readBitsF_natToBits_lt 8 v rest (by omega) (by omega) (by omega)]
  have f := (bf1 v (by omega)).1 hv
  simp [bind, Except.bind, f.1, f.2]

/-- two-byte form: 10bbbbbb bbbbbbbb -/
theorem parseECI_form2 (v : Nat) (hv : v < 16384) (rest : List Bool) :
    parseECIValue (encodeECIValue 2 v ++ rest) = .ok (v, rest) := by
  unfold parseECIValue encodeECIValue
  simp only [show (2 : Nat) = 1 ↔ False by decide, if_false, if_true]
  rw [show (16 : Nat) = 8 + 8 from rfl, natToBits_add, List.append_assoc]
  rw [readBitsF_natToBits 8 _ _ (by omega) (by omega)]
  have h1 : (0x8000 + v) / 2 ^ 8 % 2 ^ 8 = 0x80 + v / 256 := by omega
  rw [h1]
  have hf : 0x80 + v / 256 < 256 := by omega
  have f := bf1 (0x80 + v / 256) hf
  have f2 := f.2.1 (by omega)
  have f3 := f.2.2 (by omega) (by omega)
  simp only [bind, Except.bind, f2, if_false, f3.2.1, if_true]
  rw [readBitsF_natToBits 8 _ _ (by omega) (by omega)]
  simp only [f3.2.2]
  rw [shl_or _ _ 8 (Nat.mod_lt _ (by decide))]
  have : (0x80 + v / 256 - 0x80) * 2 ^ 8 + (0x8000 + v) % 2 ^ 8 = v := by omega
  rw [this]

/-- three-byte form: 110bbbbb bbbbbbbb bbbbbbbb -/
theorem parseECI_form3 (v : Nat) (hv : v < 2097152) (rest : List Bool) :
    parseECIValue (encodeECIValue 3 v ++ rest) = .ok (v, rest) := by
  unfold parseECIValue encodeECIValue
  simp only [show (3 : Nat) = 1 ↔ False by decide, show (3 : Nat) = 2 ↔ False by decide, if_false]
  rw [show (24 : Nat) = 8 + 16 from rfl, natToBits_add, List.append_assoc]
  rw [readBitsF_natToBits 8 _ _ (by omega) (by omega)]
  have h1 : (0xC00000 + v) / 2 ^ 16 % 2 ^ 8 = 0xC0 + v / 65536 := by omega
  rw [h1]
  have hf : 0xC0 + v / 65536 < 256 := by omega
  have f2 := (bf1 (0xC0 + v / 65536) hf).2.1 (by omega)
  have f4 := (bf2 (0xC0 + v / 65536) hf).1 (by omega)
  have f5 := (bf2 (0xC0 + v / 65536) hf).2.1 (by omega) (by omega)
  simp only [bind, Except.bind, f2, if_false, f4.2, f5.2.1, if_true]
  rw [readBitsF_natToBits 16 _ _ (by omega) (by omega)]
  simp only [f5.2.2]
  rw [shl_or _ _ 16 (Nat.mod_lt _ (by decide))]
  have : (0xC0 + v / 65536 - 0xC0) * 2 ^ 16 + (0xC00000 + v) % 2 ^ 16 = v := by omega
  rw [this]

end Gzx.ECI
