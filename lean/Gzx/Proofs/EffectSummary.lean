/-
  Soundness of the merge checks of Model/EffectSummary.lean — for ARBITRARY lists (sortedness is only needed
  for completeness, which nothing relies on: an incomplete check can only fail an obligation, never pass one).
-/
import Gzx.Model.EffectSummary
namespace Gzx.EffectSummary

theorem nat_beq_eq {a b : Nat} (h : Nat.beq a b = true) : a = b := Nat.eq_of_beq_eq_true h

theorem eqPair_eq {a b : Nat × Nat} (h : eqPair a b = true) : a = b := by
  unfold eqPair at h
  rw [Bool.and_eq_true] at h
  exact Prod.ext (nat_beq_eq h.1) (nat_beq_eq h.2)

theorem subCodes_sound : ∀ (xs ys : List Nat), subCodes xs ys = true → ∀ x ∈ xs, x ∈ ys
  | [], _, _, x, hx => by cases hx
  | _ :: _, [], h, _, _ => by simp [subCodes] at h
  | a :: as, b :: bs, h, x, hx => by
    unfold subCodes at h
    split at h
    · rename_i hab
      have e := nat_beq_eq hab
      rcases List.mem_cons.mp hx with rfl | hx'
      · rw [e]; exact List.mem_cons_self
      · exact List.mem_cons_of_mem _ (subCodes_sound as bs h x hx')
    · split at h
      · exact List.mem_cons_of_mem _ (subCodes_sound (a :: as) bs h x hx)
      · cases h

theorem subPairs_sound : ∀ (xs ys : List (Nat × Nat)), subPairs xs ys = true → ∀ x ∈ xs, x ∈ ys
  | [], _, _, x, hx => by cases hx
  | _ :: _, [], h, _, _ => by simp [subPairs] at h
  | a :: as, b :: bs, h, x, hx => by
    unfold subPairs at h
    split at h
    · rename_i hab
      have e := eqPair_eq hab
      rcases List.mem_cons.mp hx with rfl | hx'
      · rw [e]; exact List.mem_cons_self
      · exact List.mem_cons_of_mem _ (subPairs_sound as bs h x hx')
    · split at h
      · exact List.mem_cons_of_mem _ (subPairs_sound (a :: as) bs h x hx)
      · cases h

theorem eqCodes_sound : ∀ (xs ys : List Nat), eqCodes xs ys = true → xs = ys
  | [], [], _ => rfl
  | [], _ :: _, h => by simp [eqCodes] at h
  | _ :: _, [], h => by simp [eqCodes] at h
  | a :: as, b :: bs, h => by
    unfold eqCodes at h
    rw [Bool.and_eq_true] at h
    rw [nat_beq_eq h.1, eqCodes_sound as bs h.2]

theorem eqPairs_sound : ∀ (xs ys : List (Nat × Nat)), eqPairs xs ys = true → xs = ys
  | [], [], _ => rfl
  | [], _ :: _, h => by simp [eqPairs] at h
  | _ :: _, [], h => by simp [eqPairs] at h
  | a :: as, b :: bs, h => by
    unfold eqPairs at h
    rw [Bool.and_eq_true] at h
    rw [eqPair_eq h.1, eqPairs_sound as bs h.2]

/-- a list that passes `subCodes … []` is empty -/
theorem subCodes_nil {xs : List Nat} (h : subCodes xs [] = true) : xs = [] := by
  cases xs with
  | nil => rfl
  | cons a as => simp [subCodes] at h

theorem subPairs_nil {xs : List (Nat × Nat)} (h : subPairs xs [] = true) : xs = [] := by
  cases xs with
  | nil => rfl
  | cons a as => simp [subPairs] at h

example : subCodes [2, 5] [1, 2, 3, 5, 8] = true := by decide
example : subCodes [2, 4] [1, 2, 3, 5, 8] = false := by decide
example : subPairs [(1, 2), (3, 1)] [(1, 1), (1, 2), (2, 9), (3, 1)] = true := by decide
example : subPairs [(1, 3)] [(1, 1), (1, 2), (2, 9), (3, 1)] = false := by decide

end Gzx.EffectSummary
