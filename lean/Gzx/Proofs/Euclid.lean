/-
  Invariants of the model's Euclidean algorithm (Model/RS.lean `euclidDivLoop`, `euclidLoop`) at the level of
  coefficient sequences: every remainder/cofactor pair satisfies `t·S ≡ r (mod x^R)`, and
  `deg t + deg rLast = R`.  Helper lemmas for Properties/C04.lean.  Core Lean only.
-/
import Gzx.Proofs.Coef
import Gzx.Proofs.Total
namespace Gzx.Proofs.Euclid
open Gzx Gzx.GF Gzx.RS Gzx.Ref.GF Gzx.Proofs.GF Gzx.Proofs.Poly Gzx.Proofs.Conv Gzx.Proofs.Coef
  Gzx.Proofs.SingleError Gzx.Proofs.Total

section F
variable {F : GF} (hF : FieldOK F)
include hF

/-- the product with a monomial `c·x^d` (as first factor) -/
theorem conv_monomial (d c : Nat) (g : Nat → Nat) (hg : ∀ j, g j < F.size) (m : Nat) :
    conv F.prim (fun j => if j = d then c else 0) g m = if m ≥ d then gmul F.prim c (g (m - d)) else 0 := by
  have ok := hF.2
  unfold conv
  by_cases hm : m ≥ d
  · rw [if_pos hm]
    have := xsum_single (n := m + 1) (F := fun j => gmul F.prim (if j = d then c else 0) (g (m - j))) d (by omega)
      (fun j _ hne => by simp only [hne, if_false]; exact gmul_zero_left ok _ (hg _))
    rw [this]; simp
  · rw [if_neg hm]
    apply xsum_zero
    intro j hj
    have : ¬ j = d := by omega
    simp only [this, if_false]
    exact gmul_zero_left ok _ (hg _)

omit hF in
/-- a longer first operand keeps its length under `AddOrSubtract` -/
theorem addOrSubtract_len_gt (p q r : List Nat) (hp : Norm p) (hq : Norm q) (hlen : q.length < p.length)
    (h : addOrSubtract p q = .ok r) : r.length = p.length := by
  have hql : 0 < q.length := List.length_pos_iff.2 hq.ne_nil
  unfold addOrSubtract at h
  by_cases hzp : isZero p = true
  · have := (isZero_iff hp).1 hzp
    subst this
    simp only [List.length_cons, List.length_nil] at hlen; omega
  · rw [if_neg hzp] at h
    by_cases hzq : isZero q = true
    · rw [if_pos hzq] at h; cases h; rfl
    · rw [if_neg hzq] at h
      have hgt : p.length > q.length := hlen
      simp only [hgt, if_true] at h
      -- p = ph :: pt with ph ≠ 0
      rcases hp with h0 | ⟨ph, pt, rfl, hph⟩
      · subst h0; simp [isZero] at hzp
      · have hd : (ph :: pt).length - q.length = ((ph :: pt).length - q.length - 1) + 1 := by omega
        rw [hd, List.take_succ_cons, List.cons_append, mkPoly_ok _ (by simp),
          normalize_of_head_ne_zero _ _ hph] at h
        cases h
        simp only [List.length_cons, List.length_append, List.length_take, List.length_zipWith,
          List.length_drop]
        simp only [List.length_cons] at hlen
        omega

/-- product of two non-zero polynomials: the lengths add -/
theorem multiply_len (ph : Nat) (pt : List Nat) (qh : Nat) (qt : List Nat) (hp : InR F.size (ph :: pt))
    (hq : InR F.size (qh :: qt)) (hph : ph ≠ 0) (hqh : qh ≠ 0) (r : List Nat)
    (h : multiply F (ph :: pt) (qh :: qt) = .ok r) :
    r.length = pt.length + qt.length + 1 ∧ r ≠ [0] := by
  have ok := hF.2
  unfold multiply at h
  rw [isZero_false hph, isZero_false hqh] at h
  simp only [Bool.or_self, Bool.false_eq_true, if_false] at h
  obtain ⟨pr, hpr, _, hprlen, _, hhead⟩ := mulRaw_spec hF (qh :: qt) hq (by simp) (ph :: pt) hp
  rw [hpr] at h
  simp only [bind, Except.bind] at h
  have hh := hhead ph pt qh qt rfl rfl
  cases pr with
  | nil => simp at hh
  | cons c cs =>
    simp only [List.head?_cons, Option.some.injEq] at hh
    have hc : c ≠ 0 := by rw [hh]; exact gmul_ne_zero ok _ _ hp.head hq.head hph hqh
    rw [mkPoly_ok _ (by simp), normalize_of_head_ne_zero _ _ hc] at h
    cases h
    constructor
    · simp only [List.length_cons] at hprlen ⊢; omega
    · intro h0
      have : c = 0 := by
        have := congrArg List.head? h0
        simpa using this
      exact hc this

/-- one iteration of the inner division loop, with the polynomial `term` that is added to the remainder -/
theorem euclidDiv_step' (lh : Nat) (lt : List Nat) (hl : InR F.size (lh :: lt)) (inv : Nat) (hinv : inv < F.size)
    (hmul : gmul F.prim lh inv = 1) (rh : Nat) (rt : List Nat) (hr : InR F.size (rh :: rt))
    (hrh : rh ≠ 0) (hdeg : lt.length ≤ rt.length) :
    ∃ term, multiplyByMonomial F (lh :: lt) (rt.length - lt.length) (gmul F.prim rh inv) = .ok term ∧
      WF F.size term ∧
      addOrSubtract (rh :: rt) term = .ok (normalize (List.zipWith (· ^^^ ·) rt
        (lt.map (gmul F.prim (gmul F.prim rh inv)) ++ List.replicate (rt.length - lt.length) 0))) := by
  have ok := hF.2
  have hlh : lh < F.size := hl.head
  have hrh' : rh < F.size := hr.head
  have hlead : gmul F.prim (gmul F.prim rh inv) lh = rh := by
    rw [gmul_assoc ok rh inv lh hrh' hinv hlh, gmul_comm ok inv lh hinv hlh, hmul,
      gmul_one_right ok rh hrh']
  have hmono := multiplyByMonomial_ok hF lh lt hl (rt.length - lt.length) _ (gmul_lt ok _ _)
    (by rw [hlead]; exact hrh)
  rw [hlead] at hmono
  refine ⟨_, hmono, ⟨?_, Or.inr ⟨rh, _, rfl, hrh⟩⟩, ?_⟩
  · exact InR.cons hrh' (InR.append (InR_map_gmul ok _ _) (InR.replicate (size_pos hF)))
  · exact addOrSubtract_cancel rh rt _ hrh (by simp; omega)

/-- The inner division loop computes quotient and remainder:
    `r' = A + q'·B` coefficient-wise, `deg q' = deg A - deg B`, `deg r' < deg B`. -/
theorem euclidDiv_inv (lh : Nat) (lt : List Nat) (hB : WF F.size (lh :: lt)) (hlh : lh ≠ 0)
    (inv : Nat) (hinv : inv < F.size) (hmul : gmul F.prim lh inv = 1)
    (A : List Nat) (hA : WF F.size A) (hAB : (lh :: lt).length < A.length) :
    ∀ (fuel : Nat) (q r : List Nat), WF F.size q → WF F.size r →
      (if r = [0] then 1 else r.length + 1) ≤ fuel →
      (∀ m, coef r m = coef A m ^^^ conv F.prim (coef q) (coef (lh :: lt)) m) →
      ((q = [0] ∧ r = A) ∨ (q.length = A.length - (lh :: lt).length + 1 ∧ r.length < A.length)) →
      ∃ q' r', euclidDivLoop F (lh :: lt) inv fuel q r = .ok (q', r') ∧ WF F.size q' ∧ WF F.size r' ∧
        (r'.length < (lh :: lt).length ∨ r' = [0]) ∧
        (∀ m, coef r' m = coef A m ^^^ conv F.prim (coef q') (coef (lh :: lt)) m) ∧
        q'.length = A.length - (lh :: lt).length + 1
  | 0, _, r, _, _, hfuel, _, _ => by
    exfalso
    split at hfuel <;> omega
  | fuel + 1, q, r, hq, hr, hfuel, hcoef, hshape => by
    have ok := hF.2
    have hBlt : ∀ j, coef (lh :: lt) j < F.size := coef_lt (size_pos hF) _ hB.1
    by_cases hcond : (decide (degree r ≥ degree (lh :: lt)) && !isZero r) = true
    · simp only [Bool.and_eq_true, decide_eq_true_eq, Bool.not_eq_true'] at hcond
      obtain ⟨hdeg, hnz⟩ := hcond
      have hne0 : r ≠ [0] := fun h => by rw [h] at hnz; simp [isZero] at hnz
      obtain ⟨rh, rt, rfl, hrh⟩ : ∃ c t, r = c :: t ∧ c ≠ 0 := by
        rcases hr.2 with h | h
        · exact absurd h hne0
        · exact h
      simp only [degree, List.length_cons, Nat.add_sub_cancel] at hdeg
      rw [euclidDiv_step hF lh lt hB.1 inv hinv hmul q rh rt hr.1 hrh hdeg fuel]
      obtain ⟨term, hterm, htermwf, haddr⟩ := euclidDiv_step' hF lh lt hB.1 inv hinv hmul rh rt hr.1 hrh hdeg
      have hinv0 : inv ≠ 0 := by
        intro h; rw [h, gmul_zero_right ok] at hmul; exact absurd hmul (by decide)
      have hscale : gmul F.prim rh inv < F.size := gmul_lt ok _ _
      have hscale0 : gmul F.prim rh inv ≠ 0 := gmul_ne_zero ok _ _ hr.1.head hinv hrh hinv0
      have hmono : WF F.size (gmul F.prim rh inv :: List.replicate (rt.length - lt.length) 0) :=
        ⟨InR.cons hscale (InR.replicate (size_pos hF)), Or.inr ⟨_, _, rfl, hscale0⟩⟩
      have hmonoB := buildMonomial_ok (rt.length - lt.length) _ hscale0
      obtain ⟨q', hq', hq'wf, _, _⟩ := addOrSubtract_spec hF q _ hq hmono
      rw [hq']
      simp only
      have hr'in : InR F.size (List.zipWith (· ^^^ ·) rt
          (lt.map (gmul F.prim (gmul F.prim rh inv)) ++ List.replicate (rt.length - lt.length) 0)) :=
        InR_zipWith_xor ok _ _ hr.1.tail (InR.append (InR_map_gmul ok _ _) (InR.replicate (size_pos hF)))
      have hr'wf := wf_normalize (size_pos hF) _ hr'in
      have hzl : (List.zipWith (· ^^^ ·) rt
          (lt.map (gmul F.prim (gmul F.prim rh inv)) ++ List.replicate (rt.length - lt.length) 0)).length = rt.length := by
        simp; omega
      have hlen' := normalize_length_le' (List.zipWith (· ^^^ ·) rt
          (lt.map (gmul F.prim (gmul F.prim rh inv)) ++ List.replicate (rt.length - lt.length) 0))
      rw [hzl] at hlen'
      have hAlen : 2 ≤ A.length := by simp only [List.length_cons] at hAB; omega
      -- the remainder gets shorter
      have hr'short : (normalize (List.zipWith (· ^^^ ·) rt
          (lt.map (gmul F.prim (gmul F.prim rh inv)) ++ List.replicate (rt.length - lt.length) 0))).length < A.length := by
        rcases hshape with ⟨_, hrA⟩ | ⟨_, hrl⟩
        · rw [← hrA]; simp only [List.length_cons]
          rw [← hrA] at hAlen; simp only [List.length_cons] at hAlen; omega
        · simp only [List.length_cons] at hrl; omega
      have hfuel' : (if normalize (List.zipWith (· ^^^ ·) rt
          (lt.map (gmul F.prim (gmul F.prim rh inv)) ++ List.replicate (rt.length - lt.length) 0)) = [0]
          then 1 else (normalize (List.zipWith (· ^^^ ·) rt
          (lt.map (gmul F.prim (gmul F.prim rh inv)) ++ List.replicate (rt.length - lt.length) 0))).length + 1) ≤ fuel := by
        rw [if_neg hne0] at hfuel
        simp only [List.length_cons] at hfuel
        split
        · omega
        · rename_i hr0
          cases rt with
          | nil => exfalso; apply hr0; simp [normalize]
          | cons x xs => simp only [List.length_cons] at hlen' hfuel ⊢; omega
      -- coefficients
      have hcoef' : ∀ m, coef (normalize (List.zipWith (· ^^^ ·) rt
          (lt.map (gmul F.prim (gmul F.prim rh inv)) ++ List.replicate (rt.length - lt.length) 0))) m =
          coef A m ^^^ conv F.prim (coef q') (coef (lh :: lt)) m := by
        intro m
        rw [addOrSubtract_coef hF _ _ _ hr htermwf haddr m,
          multiplyByMonomial_coef hF _ _ hB _ _ hscale hterm m, hcoef m]
        have hq'c : ∀ i, i ≤ m → coef q' i =
            (fun j => coef q j ^^^ (if j = rt.length - lt.length then gmul F.prim rh inv else 0)) i := by
          intro i _
          rw [addOrSubtract_coef hF _ _ _ hq hmono hq' i, buildMonomial_coef hF _ _ _ hmonoB i]
        rw [conv_congr_left hq'c,
          conv_xor_left ok _ _ _ (coef_lt (size_pos hF) q hq.1)
            (fun j => by split; exact hscale; exact size_pos hF) hBlt m,
          conv_monomial hF _ _ _ hBlt m, Nat.xor_assoc]
      -- shape of the quotient
      have hshape' : (q' = [0] ∧ normalize (List.zipWith (· ^^^ ·) rt
          (lt.map (gmul F.prim (gmul F.prim rh inv)) ++ List.replicate (rt.length - lt.length) 0)) = A) ∨
          (q'.length = A.length - (lh :: lt).length + 1 ∧ (normalize (List.zipWith (· ^^^ ·) rt
          (lt.map (gmul F.prim (gmul F.prim rh inv)) ++ List.replicate (rt.length - lt.length) 0))).length < A.length) := by
        right
        refine ⟨?_, hr'short⟩
        rcases hshape with ⟨hq0, hrA⟩ | ⟨hql, hrl⟩
        · subst hq0
          have : addOrSubtract [0] (gmul F.prim rh inv :: List.replicate (rt.length - lt.length) 0) =
              .ok (gmul F.prim rh inv :: List.replicate (rt.length - lt.length) 0) := rfl
          rw [this] at hq'
          cases hq'
          rw [← hrA]
          simp only [List.length_cons, List.length_replicate]
          omega
        · have hlt : (gmul F.prim rh inv :: List.replicate (rt.length - lt.length) 0).length < q.length := by
            simp only [List.length_cons, List.length_replicate] at hrl ⊢
            rw [hql]; simp only [List.length_cons]; omega
          rw [addOrSubtract_len_gt q _ q' hq.2 hmono.2 hlt hq', hql]
      exact euclidDiv_inv lh lt hB hlh inv hinv hmul A hA hAB fuel q' _ hq'wf hr'wf hfuel' hcoef' hshape'
    · have hres : euclidDivLoop F (lh :: lt) inv (fuel + 1) q r = .ok (q, r) := by
        conv => lhs; unfold euclidDivLoop
        rw [if_neg hcond]
      simp only [Bool.and_eq_true, decide_eq_true_eq, Bool.not_eq_true', not_and, Bool.not_eq_false] at hcond
      have hlenr : r.length < (lh :: lt).length ∨ r = [0] := by
        by_cases hdeg : degree r ≥ degree (lh :: lt)
        · right; exact (isZero_iff hr.2).1 (hcond hdeg)
        · left
          have := List.length_pos_iff.2 hr.2.ne_nil
          simp only [degree, List.length_cons, Nat.add_sub_cancel] at hdeg ⊢
          omega
      rcases hshape with ⟨hq0, hrA⟩ | ⟨hql, _⟩
      · -- impossible: A itself is longer than B and non-zero, so the loop condition holds
        exfalso
        subst hrA
        rcases hlenr with h | h
        · omega
        · subst h; simp at hAB
      · exact ⟨q, r, hres, hq, hr, hlenr, hcoef, hql⟩

theorem conv_zero_left (g : Nat → Nat) (hg : ∀ j, g j < F.size) (m : Nat) :
    conv F.prim (coef [0]) g m = 0 := by
  apply xsum_zero
  intro j _
  show gmul F.prim (coef [0] j) _ = 0
  rw [coef_zero_poly hF, gmul_zero_left hF.2 _ (hg _)]

theorem conv_one_left (g : Nat → Nat) (hg : ∀ j, g j < F.size) (m : Nat) :
    conv F.prim (coef [1]) g m = g m := by
  have h : ∀ i, i ≤ m → coef [1] i = (fun j => if j = 0 then 1 else 0) i := by
    intro i _; simp [coef]
  rw [conv_congr_left h, conv_monomial hF 0 1 g hg m]
  simp [gmul_one_left hF.2 _ (hg m)]

/-- invariant of the outer loop of `runEuclideanAlgorithm` for the syndrome sequence `S` modulo `x^R` -/
structure Inv (F : GF) (R : Nat) (S : Nat → Nat) (rLast r tLast t : List Nat) : Prop where
  wf1 : WF F.size rLast
  wf2 : WF F.size r
  wf3 : WF F.size tLast
  wf4 : WF F.size t
  c1 : ∀ m, m < R → conv F.prim (coef tLast) S m = coef rLast m
  c2 : ∀ m, m < R → conv F.prim (coef t) S m = coef r m
  d1 : degree t + degree rLast = R
  d2 : degree r < degree rLast
  d3 : tLast = [0] ∨ degree tLast < degree t
  d4 : 2 * degree rLast ≥ R
  d5 : t ≠ [0]

omit hF in
theorem wf_cons_of_ne_zero {size : Nat} {p : List Nat} (hp : WF size p) (h : p ≠ [0]) :
    ∃ c t, p = c :: t ∧ c ≠ 0 := by
  rcases hp.2 with h0 | h1
  · exact absurd h0 h
  · exact h1

/-- the outer loop terminates within the fuel, never fails, and keeps the invariant; it stops with `2·deg r < R` -/
theorem euclidLoop_inv (R : Nat) (hR : 1 ≤ R) (S : Nat → Nat) (hS : ∀ j, S j < F.size) :
    ∀ (fuel : Nat) (rLast r tLast t : List Nat), Inv F R S rLast r tLast t → r.length + 1 ≤ fuel →
    ∃ rLast' r' tLast' t', euclidLoop F R fuel rLast r tLast t = .ok (t', r') ∧
      Inv F R S rLast' r' tLast' t' ∧ 2 * degree r' < R
  | 0, _, r, _, _, _, hfuel => by omega
  | fuel + 1, rLast, r, tLast, t, hI, hfuel => by
    have ok := hF.2
    conv => enter [1, rLast', 1, r', 1, tLast', 1, t', 1, 1]; unfold euclidLoop
    by_cases hcond : 2 * degree r ≥ R
    · simp only [if_pos hcond]
      have hrl : 2 ≤ r.length := by unfold degree at hcond; omega
      have hne0 : r ≠ [0] := fun h => by rw [h] at hrl; simp at hrl
      obtain ⟨lh, lt, rfl, hlh⟩ := wf_cons_of_ne_zero hI.wf2 hne0
      have hz' : isZero (lh :: lt) = false := isZero_false hlh
      obtain ⟨u, hinv, hu, _, hmul⟩ := F_inv hF lh hlh hI.wf2.1.head
      have hAB : (lh :: lt).length < rLast.length := by
        have := hI.d2
        have h1 := List.length_pos_iff.2 hI.wf1.2.ne_nil
        unfold degree at this; omega
      have hfuelD : (if rLast = [0] then 1 else rLast.length + 1) ≤ rLast.length + 1 := by
        split <;> omega
      obtain ⟨q, r', hdiv, hqwf, hr'wf, hr'len, hr'coef, hqlen⟩ :=
        euclidDiv_inv hF lh lt hI.wf2 hlh u hu hmul rLast hI.wf1 hAB (rLast.length + 1) [0] rLast
          (wf_zero (size_pos hF)) hI.wf1 hfuelD
          (fun m => by rw [conv_zero_left hF _ (coef_lt (size_pos hF) _ hI.wf2.1) m, Nat.xor_zero])
          (Or.inl ⟨rfl, rfl⟩)
      -- q and t are non-zero
      have hql2 : 2 ≤ q.length := by rw [hqlen]; omega
      have hq0 : q ≠ [0] := fun h => by rw [h] at hql2; simp at hql2
      obtain ⟨qh, qt', rfl, hqh⟩ := wf_cons_of_ne_zero hqwf hq0
      obtain ⟨th, tt, rfl, hth⟩ := wf_cons_of_ne_zero hI.wf4 hI.d5
      obtain ⟨qt, hqt, hqtwf, _, _⟩ := multiply_spec hF _ _ hqwf hI.wf4
      obtain ⟨hqtlen, hqt0⟩ := multiply_len hF qh qt' th tt hqwf.1 hI.wf4.1 hqh hth qt hqt
      obtain ⟨t', ht', ht'wf, _, _⟩ := addOrSubtract_spec hF qt tLast hqtwf hI.wf3
      have htLastlen : tLast.length < qt.length := by
        rcases hI.d3 with h | h
        · rw [h, hqtlen]; simp only [List.length_cons, List.length_nil] at hql2 ⊢; omega
        · unfold degree at h
          have := List.length_pos_iff.2 hI.wf3.2.ne_nil
          simp only [List.length_cons] at h hql2
          rw [hqtlen]; omega
      have ht'len := addOrSubtract_len_gt qt tLast t' hqtwf.2 hI.wf3.2 htLastlen ht'
      simp only [hz', getCoefficient_lead, hinv, hdiv, hqt, ht', liftD, bind, Except.bind, pure, Except.pure,
        Bool.false_eq_true, if_false]
      have hdeg' : ¬ degree r' ≥ degree (lh :: lt) := by
        rcases hr'len with h | h
        · unfold degree
          have := List.length_pos_iff.2 hr'wf.2.ne_nil
          omega
        · rw [h]; unfold degree; simp only [List.length_cons, List.length_nil] at hrl ⊢; omega
      simp only [hdeg', if_false]
      -- the new invariant
      have hI' : Inv F R S (lh :: lt) r' (th :: tt) t' := by
        refine ⟨hI.wf2, hr'wf, hI.wf4, ht'wf, hI.c2, ?_, ?_, ?_, ?_, hcond, ?_⟩
        · intro m hm
          have hqtc : ∀ i, i ≤ m → coef t' i = (fun j => coef qt j ^^^ coef tLast j) i := by
            intro i _
            exact addOrSubtract_coef hF _ _ _ hqtwf hI.wf3 ht' i
          have hqc : ∀ i, i ≤ m → coef qt i = conv F.prim (coef (qh :: qt')) (coef (th :: tt)) i := by
            intro i _
            exact multiply_coef hF _ _ _ hqwf hI.wf4 hqt i
          have hcr : ∀ i, i ≤ m → conv F.prim (coef (th :: tt)) S i = coef (lh :: lt) i := by
            intro i hi
            exact hI.c2 i (by omega)
          rw [conv_congr_left hqtc,
            conv_xor_left ok _ _ _ (coef_lt (size_pos hF) _ hqtwf.1) (coef_lt (size_pos hF) _ hI.wf3.1) hS m,
            conv_congr_left hqc,
            conv_assoc ok _ _ _ (coef_lt (size_pos hF) _ hqwf.1) (coef_lt (size_pos hF) _ hI.wf4.1) hS m,
            conv_congr_right hcr, hI.c1 m hm, hr'coef m, Nat.xor_comm]
        · -- degrees
          have h1 := hI.d1
          unfold degree at h1 ⊢
          simp only [List.length_cons] at h1 hqlen hqtlen ⊢
          rw [ht'len, hqtlen]
          have := List.length_pos_iff.2 hI.wf1.2.ne_nil
          simp only [List.length_cons] at hAB
          omega
        · rcases hr'len with h | h
          · unfold degree
            have := List.length_pos_iff.2 hr'wf.2.ne_nil
            omega
          · rw [h]; unfold degree; simp only [List.length_cons, List.length_nil] at hrl ⊢; omega
        · right
          unfold degree
          rw [ht'len, hqtlen]
          simp only [List.length_cons] at hql2 ⊢
          omega
        · intro h0
          rw [h0] at ht'len
          rw [hqtlen] at ht'len
          simp only [List.length_cons, List.length_nil] at ht'len hql2
          omega
      have hr'l : r'.length + 1 ≤ fuel := by
        rcases hr'len with h | h
        · omega
        · rw [h]; simp only [List.length_cons, List.length_nil]; omega
      exact euclidLoop_inv R hR S hS fuel (lh :: lt) r' (th :: tt) t' hI' hr'l
    · simp only [if_neg hcond]
      exact ⟨rLast, r, tLast, t, rfl, hI, by omega⟩

end F
end Gzx.Proofs.Euclid
