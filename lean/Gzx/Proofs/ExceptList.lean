import Gzx.Model.ExceptList
namespace Gzx

variable {ε α β : Type}

theorem mapME_nil (f : α → Except ε β) : mapME f [] = .ok [] := rfl

theorem mapME_cons_ok (f : α → Except ε β) (a : α) (as : List α) (b : β) (bs : List β)
    (h1 : f a = .ok b) (h2 : mapME f as = .ok bs) : mapME f (a :: as) = .ok (b :: bs) := by
  simp [mapME, h1, h2]

/-- inversion of a successful `mapME` on a cons -/
theorem mapME_cons_inv (f : α → Except ε β) (a : α) (as : List α) (r : List β)
    (h : mapME f (a :: as) = .ok r) : ∃ b bs, f a = .ok b ∧ mapME f as = .ok bs ∧ r = b :: bs := by
  unfold mapME at h
  split at h
  · cases h
  · rename_i b hb
    split at h
    · cases h
    · rename_i bs hbs
      cases h
      exact ⟨b, bs, hb, hbs, rfl⟩

/-- if every element succeeds, the whole traversal succeeds with the image of some function -/
theorem mapME_eq_map (f : α → Except ε β) (g : α → β) (l : List α)
    (h : ∀ a ∈ l, f a = .ok (g a)) : mapME f l = .ok (l.map g) := by
  induction l with
  | nil => rfl
  | cons a as ih =>
    have h1 := h a (by simp)
    have h2 := ih (fun x hx => h x (by simp [hx]))
    simp [mapME, h1, h2]

theorem mapME_exists (f : α → Except ε β) (l : List α)
    (h : ∀ a ∈ l, ∃ b, f a = .ok b) : ∃ bs, mapME f l = .ok bs := by
  induction l with
  | nil => exact ⟨[], rfl⟩
  | cons a as ih =>
    obtain ⟨b, hb⟩ := h a (by simp)
    obtain ⟨bs, hbs⟩ := ih (fun x hx => h x (by simp [hx]))
    exact ⟨b :: bs, mapME_cons_ok f a as b bs hb hbs⟩

theorem mapME_length (f : α → Except ε β) (l : List α) (bs : List β) (h : mapME f l = .ok bs) :
    bs.length = l.length := by
  induction l generalizing bs with
  | nil => simp [mapME] at h; subst h; rfl
  | cons a as ih =>
    obtain ⟨b, bs', _, h2, rfl⟩ := mapME_cons_inv f a as bs h
    simp [ih bs' h2]

/-- every result comes from some element, every element yields some result -/
theorem mapME_mem_right (f : α → Except ε β) (l : List α) (bs : List β) (h : mapME f l = .ok bs) :
    ∀ b ∈ bs, ∃ a ∈ l, f a = .ok b := by
  induction l generalizing bs with
  | nil => simp [mapME] at h; subst h; simp
  | cons a as ih =>
    obtain ⟨b0, bs', h1, h2, rfl⟩ := mapME_cons_inv f a as bs h
    intro b hb
    rcases List.mem_cons.mp hb with rfl | hb
    · exact ⟨a, by simp, h1⟩
    · obtain ⟨a', ha', hf⟩ := ih bs' h2 b hb
      exact ⟨a', by simp [ha'], hf⟩

theorem mapME_mem_left (f : α → Except ε β) (l : List α) (bs : List β) (h : mapME f l = .ok bs) :
    ∀ a ∈ l, ∃ b ∈ bs, f a = .ok b := by
  induction l generalizing bs with
  | nil => simp
  | cons a as ih =>
    obtain ⟨b0, bs', h1, h2, rfl⟩ := mapME_cons_inv f a as bs h
    intro x hx
    rcases List.mem_cons.mp hx with rfl | hx
    · exact ⟨b0, by simp, h1⟩
    · obtain ⟨b, hb, hf⟩ := ih bs' h2 x hx
      exact ⟨b, by simp [hb], hf⟩

/-- index-wise -/
theorem mapME_getElem (f : α → Except ε β) (l : List α) (bs : List β) (h : mapME f l = .ok bs)
    (i : Nat) (a : α) (ha : l[i]? = some a) : ∃ b, bs[i]? = some b ∧ f a = .ok b := by
  induction l generalizing bs i with
  | nil => simp at ha
  | cons a0 as ih =>
    obtain ⟨b0, bs', h1, h2, rfl⟩ := mapME_cons_inv f a0 as bs h
    cases i with
    | zero => simp at ha; subst ha; exact ⟨b0, by simp, h1⟩
    | succ i =>
      simp at ha
      obtain ⟨b, hb, hf⟩ := ih bs' h2 i ha
      exact ⟨b, by simp [hb], hf⟩

/-- an error of the traversal is an error of some element -/
theorem mapME_error (f : α → Except ε β) (l : List α) (e : ε) (h : mapME f l = .error e) :
    ∃ a ∈ l, f a = .error e := by
  induction l with
  | nil => simp [mapME] at h
  | cons a as ih =>
    unfold mapME at h
    split at h
    · rename_i e' he; cases h; exact ⟨a, by simp, he⟩
    · split at h
      · rename_i e' he; cases h
        obtain ⟨a', ha', hf⟩ := ih he
        exact ⟨a', by simp [ha'], hf⟩
      · cases h

end Gzx
