/-
  Forney's formula as computed by the model (`magDenominator`, `errorMagnitude`, `magLoop`): on the true
  evaluator and the found locators it returns the error values.
  Helper lemmas for Properties/C04.lean.  Core Lean only.
-/
import Gzx.Proofs.Chien
namespace Gzx.Proofs.Forney
open Gzx Gzx.GF Gzx.RS Gzx.Ref.GF Gzx.Proofs.GF Gzx.Proofs.Poly Gzx.Proofs.Conv Gzx.Proofs.Coef
  Gzx.Proofs.MinDist Gzx.Proofs.SingleError Gzx.Proofs.KeyEq Gzx.Proofs.Locator Gzx.Proofs.Sugiyama
  Gzx.Proofs.Total Gzx.Proofs.Chien

/-- the bit-flip form of `+1` in `findErrorMagnitudes` is `xor 1` -/
theorem termPlus1_eq (t : Nat) : (if t &&& 1 = 0 then t ||| 1 else t - 1) = t ^^^ 1 := by
  rw [Nat.and_one_is_mod]
  apply Nat.eq_of_testBit_eq
  intro i
  cases i with
  | zero =>
    by_cases h : t % 2 = 0
    · rw [if_pos h]
      simp [Nat.testBit_zero, Nat.or_mod_two_eq_one, Nat.xor_mod_two_eq_one, h]
    · rw [if_neg h]
      have h1 : t % 2 = 1 := by omega
      have h2 : (t - 1) % 2 = 0 := by omega
      simp [Nat.testBit_zero, Nat.xor_mod_two_eq_one, h1, h2]
  | succ i =>
    rw [Nat.testBit_succ, Nat.testBit_succ, Nat.xor_div_two]
    have e1 : (1 : Nat) / 2 = 0 := rfl
    rw [e1, Nat.xor_zero]
    by_cases h : t % 2 = 0
    · rw [if_pos h, Nat.or_div_two, e1, Nat.or_zero]
    · rw [if_neg h]
      have : (t - 1) / 2 = t / 2 := by omega
      rw [this]

/-- `Π_{x ∈ xs} (1 + x·a)` -/
def prodAll (prim : Nat) : List Nat → Nat → Nat
  | [], _ => 1
  | x :: xs, a => gmul prim (1 ^^^ gmul prim x a) (prodAll prim xs a)

/-- `Π_{x ∈ xs, x ≠ v} (1 + x·a)` -/
def prodSkip (prim : Nat) : List Nat → Nat → Nat → Nat
  | [], _, _ => 1
  | x :: xs, v, a => if x = v then prodSkip prim xs v a else gmul prim (1 ^^^ gmul prim x a) (prodSkip prim xs v a)

theorem prodSkip_of_not_mem (prim : Nat) : ∀ (xs : List Nat) (v a : Nat), v ∉ xs →
    prodSkip prim xs v a = prodAll prim xs a
  | [], _, _, _ => rfl
  | x :: xs, v, a, h => by
    have h1 : x ≠ v := fun e => h (by rw [e]; simp)
    have h2 : v ∉ xs := fun e => h (List.mem_cons_of_mem _ e)
    simp only [prodSkip, prodAll, h1, if_false, prodSkip_of_not_mem prim xs v a h2]

section field
variable {prim size : Nat} (ok : ParamsOK prim size)
include ok

theorem prodAll_lt : ∀ xs a, prodAll prim xs a < size
  | [], _ => one_lt_size ok
  | _ :: _, _ => gmul_lt ok _ _

theorem prodSkip_lt : ∀ xs v a, prodSkip prim xs v a < size
  | [], _, _ => one_lt_size ok
  | x :: xs, v, a => by
    unfold prodSkip
    split
    · exact prodSkip_lt xs v a
    · exact gmul_lt ok _ _

theorem prodAll_map_snd (a : Nat) : ∀ (L : List (Nat × Nat)), prodAll prim (L.map (·.2)) a = lamVal prim L a
  | [] => rfl
  | p :: L => by
    show gmul prim _ (prodAll prim (L.map (·.2)) a) = gmul prim _ (lamVal prim L a)
    rw [prodAll_map_snd a L]

/-- the product does not depend on the order -/
theorem prodSkip_perm (v a : Nat) {xs ys : List Nat} (h : xs.Perm ys) :
    prodSkip prim xs v a = prodSkip prim ys v a := by
  induction h with
  | nil => rfl
  | cons x _ ih => simp only [prodSkip, ih]
  | swap x y l =>
    simp only [prodSkip]
    have hl := prodSkip_lt ok l v a
    have hx : 1 ^^^ gmul prim x a < size := xor_lt_size ok _ _ (one_lt_size ok) (gmul_lt ok _ _)
    have hy : 1 ^^^ gmul prim y a < size := xor_lt_size ok _ _ (one_lt_size ok) (gmul_lt ok _ _)
    by_cases h1 : x = v <;> by_cases h2 : y = v <;> simp only [h1, h2, if_true, if_false]
    rw [← gmul_assoc ok _ _ _ hy hx hl, gmul_comm ok _ _ hy hx, gmul_assoc ok _ _ _ hx hy hl]
  | trans _ _ ih1 ih2 => rw [ih1, ih2]

end field

section F
variable {F : GF} (hF : FieldOK F)
include hF

/-- the denominator loop once the skipped index is behind -/
theorem magDenominator_past (a i : Nat) (ha : a < F.size) : ∀ (xs : List Nat) (j den : Nat),
    InR F.size xs → den < F.size → i < j →
    magDenominator F a i xs j den = .ok (gmul F.prim den (prodAll F.prim xs a))
  | [], j, den, _, hd, _ => by
    show Except.ok den = _
    rw [show prodAll F.prim [] a = 1 from rfl, gmul_one_right hF.2 den hd]
  | x :: xs, j, den, hx, hd, hij => by
    have ok := hF.2
    unfold magDenominator
    have hne : i ≠ j := by omega
    rw [if_pos hne, F_mul hF x a hx.head ha]
    simp only [bind, Except.bind]
    rw [termPlus1_eq, F_mul hF den _ hd (xor_lt_size ok _ _ (gmul_lt ok _ _) (one_lt_size ok))]
    simp only
    rw [magDenominator_past a i ha xs (j + 1) _ hx.tail (gmul_lt ok _ _) (by omega)]
    show _ = Except.ok (gmul F.prim den (gmul F.prim (1 ^^^ gmul F.prim x a) (prodAll F.prim xs a)))
    rw [Nat.xor_comm, gmul_assoc ok den _ _ hd (xor_lt_size ok _ _ (one_lt_size ok) (gmul_lt ok _ _))
      (prodAll_lt ok xs a)]

/-- the denominator loop: the product over all locations except the one at index `i` -/
theorem magDenominator_at (a i : Nat) (ha : a < F.size) : ∀ (xs : List Nat) (j den : Nat),
    InR F.size xs → xs.Nodup → den < F.size → j ≤ i → (h : i - j < xs.length) →
    magDenominator F a i xs j den = .ok (gmul F.prim den (prodSkip F.prim xs (xs[i - j]) a))
  | [], _, _, _, _, _, _, h => by simp at h
  | x :: xs, j, den, hx, hnd, hd, hji, h => by
    have ok := hF.2
    have hnd' := List.nodup_cons.1 hnd
    unfold magDenominator
    by_cases hij : i = j
    · subst hij
      have : ¬ i ≠ i := fun h => h rfl
      rw [if_neg this, magDenominator_past hF a i ha xs (i + 1) den hx.tail hd (by omega)]
      simp only [Nat.sub_self, List.getElem_cons_zero, prodSkip, if_true]
      rw [prodSkip_of_not_mem F.prim xs x a hnd'.1]
    · rw [if_pos hij, F_mul hF x a hx.head ha]
      simp only [bind, Except.bind]
      rw [termPlus1_eq, F_mul hF den _ hd (xor_lt_size ok _ _ (gmul_lt ok _ _) (one_lt_size ok))]
      simp only
      have hlt : i - (j + 1) < xs.length := by simp only [List.length_cons] at h; omega
      rw [magDenominator_at a i ha xs (j + 1) _ hx.tail hnd'.2 (gmul_lt ok _ _) (by omega) hlt]
      have hidx : (x :: xs)[i - j] = xs[i - (j + 1)] := by
        have e : i - j = (i - (j + 1)) + 1 := by omega
        simp only [e, List.getElem_cons_succ]
      have hxne : x ≠ xs[i - (j + 1)] := fun e => hnd'.1 (by rw [e]; exact List.getElem_mem hlt)
      rw [hidx]
      simp only [prodSkip, hxne, if_false]
      rw [Nat.xor_comm, gmul_assoc ok den _ _ hd (xor_lt_size ok _ _ (one_lt_size ok) (gmul_lt ok _ _))
        (prodSkip_lt ok xs _ a)]

/-- value of the evaluator at an inverse locator: `Ω(X_k⁻¹) = Y_k · Π_{j≠k} (1 + X_j X_k⁻¹)` -/
theorem omVal_at_root (a : Nat) (ha : a < F.size) : ∀ (L : List (Nat × Nat)), PairsIn F.size L →
    L.Pairwise (fun p q => p.2 ≠ q.2) → ∀ k, k ∈ L → gmul F.prim k.2 a = 1 →
    omVal F.prim L a = gmul F.prim k.1 (prodSkip F.prim (L.map (·.2)) k.2 a)
  | [], _, _, k, hk, _ => by simp at hk
  | p :: L, hL, hd, k, hk, hka => by
    have ok := hF.2
    have hp := hL p (by simp)
    have hL' : PairsIn F.size L := fun q hq => hL q (List.mem_cons_of_mem _ hq)
    have hd' := List.pairwise_cons.1 hd
    show gmul F.prim (1 ^^^ gmul F.prim p.2 a) (omVal F.prim L a) ^^^ gmul F.prim p.1 (lamVal F.prim L a) = _
    by_cases hpk : p.2 = k.2
    · -- k is the head
      have hkp : k = p := by
        rcases List.mem_cons.1 hk with h | h
        · exact h
        · exact absurd hpk (hd'.1 k h)
      subst hkp
      have hnm : k.2 ∉ L.map (·.2) := by
        intro hm
        obtain ⟨q, hq, hqe⟩ := List.mem_map.1 hm
        exact hd'.1 q hq hqe.symm
      rw [hka, Nat.xor_self, gmul_zero_left ok _ (omVal_lt ok L a), Nat.zero_xor]
      simp only [List.map_cons, prodSkip, if_true]
      rw [prodSkip_of_not_mem F.prim _ _ a hnm, prodAll_map_snd ok a L]
    · have hkL : k ∈ L := by
        rcases List.mem_cons.1 hk with h | h
        · rw [h] at hpk; exact absurd rfl hpk
        · exact h
      have hk' := hL' k hkL
      rw [(lamVal_eq_zero_iff ok a ha L hL').2 ⟨k, hkL, hka⟩, gmul_zero_right ok, Nat.xor_zero,
        omVal_at_root a ha L hL' hd'.2 k hkL hka]
      simp only [List.map_cons, prodSkip, hpk, if_false]
      have hf : 1 ^^^ gmul F.prim p.2 a < F.size := xor_lt_size ok _ _ (one_lt_size ok) (gmul_lt ok _ _)
      have hps := prodSkip_lt ok (L.map (·.2)) k.2 a
      rw [← gmul_assoc ok _ k.1 _ hf hk'.1 hps, gmul_comm ok _ k.1 hf hk'.1, gmul_assoc ok k.1 _ _ hk'.1 hf hps]

/-- the denominator of Forney's formula is non-zero -/
theorem prodSkip_ne_zero (a v : Nat) (ha : a < F.size) (hv : v < F.size) (hva : gmul F.prim v a = 1) :
    ∀ (xs : List Nat), InR F.size xs → prodSkip F.prim xs v a ≠ 0
  | [], _ => by show (1 : Nat) ≠ 0; decide
  | x :: xs, hx => by
    have ok := hF.2
    unfold prodSkip
    split
    · exact prodSkip_ne_zero a v ha hv hva xs hx.tail
    · rename_i hxv
      apply gmul_ne_zero ok _ _ (xor_lt_size ok _ _ (one_lt_size ok) (gmul_lt ok _ _)) (prodSkip_lt ok xs v a)
      · intro h
        have h1 : gmul F.prim x a = 1 := (xor_eq_zero h).symm
        exact hxv (inv_unique ok x v a hx.head hv ha h1 hva)
      · exact prodSkip_ne_zero a v ha hv hva xs hx.tail

/-- one error value by Forney's formula with the generator-base correction -/
theorem errorMagnitude_ok (L : List (Nat × Nat)) (hE : ErrSet F.prim F.size L (invOf F))
    (omega : List Nat) (howf : WF F.size omega) (hocoef : ∀ m, coef omega m = coef (omList F.prim L) m)
    (locs : List Nat) (hnd : locs.Nodup) (hperm : locs.Perm (L.map (·.2)))
    (i : Nat) (hi : i < locs.length) (k : Nat × Nat) (hk : k ∈ L) (hkx : k.2 = locs[i]) :
    errorMagnitude F omega locs i locs[i] =
      .ok (if F.base ≠ 0 then gmul F.prim k.1 (invOf F k.2) else k.1) := by
  have ok := hF.2
  have hkin := hE.inr k hk
  obtain ⟨hinv, halt, _, hka⟩ := invOf_spec hF k.2 (hE.xnz k hk) hkin.2
  have hlin : InR F.size locs := by
    intro x hx
    obtain ⟨p, hp, rfl⟩ := List.mem_map.1 (hperm.subset hx)
    exact (hE.inr p hp).2
  -- denominator
  have hD : prodSkip F.prim locs k.2 (invOf F k.2) = prodSkip F.prim (L.map (·.2)) k.2 (invOf F k.2) :=
    prodSkip_perm ok _ _ hperm
  have hDlt := prodSkip_lt ok locs k.2 (invOf F k.2)
  have hD0 := prodSkip_ne_zero hF (invOf F k.2) k.2 halt hkin.2 hka locs hlin
  obtain ⟨hDinv, hDilt, _, hDmul⟩ := invOf_spec hF _ hD0 hDlt
  have hden := magDenominator_at hF (invOf F k.2) i halt locs 0 1 hlin hnd (one_lt_size ok) (Nat.zero_le _)
    (by simpa using hi)
  simp only [Nat.sub_zero] at hden
  rw [← hkx, gmul_one_left ok _ hDlt] at hden
  -- numerator
  have hev : evaluateAt F omega (invOf F k.2) = .ok (gmul F.prim k.1 (prodSkip F.prim locs k.2 (invOf F k.2))) := by
    rw [evaluateAt_ok hF omega howf.2.ne_nil howf.1 _ halt,
      evalH_congr_coef ok _ halt omega _ howf.1 (omList_inR ok L) hocoef,
      evalH_omList ok _ halt L hE.inr, omVal_at_root hF _ halt L hE.inr hE.distinct k hk hka, hD]
  unfold errorMagnitude
  rw [← hkx]
  simp only [hinv, hden, hDinv, hev, bind, Except.bind,
    F_mul hF _ _ (gmul_lt ok _ _) hDilt]
  have hY : gmul F.prim (gmul F.prim k.1 (prodSkip F.prim locs k.2 (invOf F k.2)))
      (invOf F (prodSkip F.prim locs k.2 (invOf F k.2))) = k.1 := by
    rw [gmul_assoc ok _ _ _ hkin.1 hDlt hDilt, hDmul, gmul_one_right ok _ hkin.1]
  rw [hY]
  by_cases hb : F.base ≠ 0
  · rw [if_pos hb, if_pos hb, F_mul hF _ _ hkin.1 halt]
  · rw [if_neg hb, if_neg hb]

/-- all error values -/
theorem magLoop_ok (L : List (Nat × Nat)) (hE : ErrSet F.prim F.size L (invOf F))
    (omega : List Nat) (howf : WF F.size omega) (hocoef : ∀ m, coef omega m = coef (omList F.prim L) m)
    (locs : List Nat) (hnd : locs.Nodup) (hperm : locs.Perm (L.map (·.2)))
    (E : Nat → Nat) (hEv : ∀ p, p ∈ L → (if F.base ≠ 0 then gmul F.prim p.1 (invOf F p.2) else p.1) = E p.2) :
    ∀ (rest pre : List Nat), locs = pre ++ rest →
      magLoop F omega locs rest pre.length = .ok (rest.map E)
  | [], _, _ => rfl
  | xi :: rest, pre, hsplit => by
    have hi : pre.length < locs.length := by rw [hsplit]; simp
    have hxi : locs[pre.length] = xi := by
      simp only [hsplit]
      rw [List.getElem_append_right (Nat.le_refl _)]
      simp
    obtain ⟨k, hk, hkx⟩ : ∃ k, k ∈ L ∧ k.2 = xi := by
      have : xi ∈ L.map (·.2) := hperm.subset (by rw [hsplit]; simp)
      obtain ⟨k, hk, hke⟩ := List.mem_map.1 this
      exact ⟨k, hk, hke⟩
    have hmag := errorMagnitude_ok hF L hE omega howf hocoef locs hnd hperm pre.length hi k hk (by rw [hxi, hkx])
    rw [hxi, hEv k hk, hkx] at hmag
    unfold magLoop
    rw [hmag]
    simp only [bind, Except.bind]
    have hrec := magLoop_ok L hE omega howf hocoef locs hnd hperm E hEv rest (pre ++ [xi])
      (by rw [hsplit]; simp)
    rw [List.length_append, List.length_singleton] at hrec
    rw [hrec]
    rfl

end F
end Gzx.Proofs.Forney
