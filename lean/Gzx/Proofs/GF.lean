/-
  The table-driven field of Model/GF.lean is GF(2)[x]/(prim):  `FieldOK`, table semantics
  (`exp[i] = x^i`, `log` its inverse on 1..size-1), and the field laws of the reference product
  `gmul prim a b = pmod prim (clmul a b)` on `[0,size)`.   Helper lemmas for Properties/C04.lean.
-/
import Gzx.Model.GF
import Gzx.Proofs.GF2
namespace Gzx.GF
open Gzx.Ref.GF Gzx.Proofs.GF2

/-- the order check: `x·1, x²·1, …` (k more values) are all `≠ 1` and the next one is `1` -/
def ordLoop (prim size : Nat) : Nat → Nat → Bool
  | 0, x => x == 1
  | k + 1, x => x != 1 && ordLoop prim size k (step prim size x)

/-- decidable well-formedness of field parameters: `size = 2^m ≥ 2`, `prim` has degree `m` and
    constant term 1, and `x` has multiplicative order exactly `size-1` modulo `prim`
    (one loop of `size-1` doubling steps) — i.e. `prim` is a primitive polynomial. -/
def ParamsOK (prim size : Nat) : Prop :=
  size = 2 ^ size.log2 ∧ 2 ≤ size ∧ size ≤ prim ∧ prim < 2 * size ∧ prim % 2 = 1 ∧
    ordLoop prim size (size - 2) (step prim size 1) = true

instance (prim size : Nat) : Decidable (ParamsOK prim size) := by unfold ParamsOK; infer_instance

/-- `F` is what `NewGenericGF` builds from well-formed parameters -/
def FieldOK (F : GF) : Prop := F = mk' F.prim F.size F.base ∧ ParamsOK F.prim F.size

instance (F : GF) : Decidable (FieldOK F) := by unfold FieldOK; infer_instance

theorem fieldOK_mk' {prim size base : Nat} (h : ParamsOK prim size) : FieldOK (mk' prim size base) :=
  ⟨rfl, h⟩

end Gzx.GF

namespace Gzx.Proofs.GF
open Gzx Gzx.GF Gzx.Ref.GF Gzx.Proofs.GF2

theorem xor_eq_zero {a b : Nat} (h : a ^^^ b = 0) : a = b := by
  have : a ^^^ (a ^^^ b) = b := by rw [← Nat.xor_assoc, Nat.xor_self, Nat.zero_xor]
  rw [h, Nat.xor_zero] at this
  exact this

/-! ## parameters -/

section params
variable {prim size : Nat} (ok : ParamsOK prim size)
include ok

/-- degree -/
theorem size_eq : size = 2 ^ size.log2 := ok.1

theorem degIs : DegIs prim size.log2 := by
  have h := ok.1
  refine ⟨?_, ?_⟩
  · rw [← h]; exact ok.2.2.1
  · rw [Nat.pow_succ, ← h]; have := ok.2.2.2.1; omega

theorem deg_pos : 1 ≤ size.log2 := by
  have h := ok.1
  have h2 := ok.2.1
  cases hd : size.log2 with
  | zero => rw [hd] at h; simp at h; omega
  | succ n => omega

theorem step_eq_xt (x : Nat) (hx : x < size) : step prim size x = xt prim size.log2 x := by
  have hs := ok.1
  unfold step xt
  simp only
  have hx' : x < 2 ^ size.log2 := by rw [← hs]; exact hx
  by_cases hb : (2 * x).testBit size.log2 = true
  · have hge : 2 * x ≥ 2 ^ size.log2 := Nat.ge_two_pow_of_testBit hb
    have hlt := xt_lt (degIs ok) x hx'
    unfold xt at hlt
    rw [if_pos hb] at hlt
    have : x * 2 ≥ size := by omega
    rw [if_pos this, if_pos hb]
    have e : x * 2 = 2 * x := by omega
    rw [e]
    have e2 : size - 1 = 2 ^ size.log2 - 1 := by omega
    rw [e2, Nat.and_two_pow_sub_one_eq_mod, Nat.mod_eq_of_lt hlt]
  · have hb' : (2 * x).testBit size.log2 = false := by simpa using hb
    have hlt : 2 * x < 2 ^ size.log2 := by
      apply lt_two_pow_of_bits
      intro i hi
      by_cases hid : i = size.log2
      · subst hid; exact hb'
      · apply testBit_false_of_lt (n := size.log2 + 1) _ (by omega)
        rw [Nat.pow_succ]; omega
    have : ¬ x * 2 ≥ size := by omega
    rw [if_neg this, if_neg hb]
    omega

theorem xt_lt_size (x : Nat) (hx : x < size) : xt prim size.log2 x < size := by
  have hs := ok.1
  have := xt_lt (degIs ok) x (by omega)
  omega

theorem iter_step_eq : ∀ (j x : Nat), x < size →
    iter (step prim size) j x = iter (xt prim size.log2) j x
  | 0, _, _ => rfl
  | j + 1, x, hx => by
    show iter _ j (step prim size x) = iter _ j (xt prim size.log2 x)
    rw [step_eq_xt ok x hx]
    exact iter_step_eq j _ (xt_lt_size ok x hx)

theorem iter_xt_lt : ∀ (j x : Nat), x < size → iter (xt prim size.log2) j x < size
  | 0, _, hx => hx
  | j + 1, x, hx => iter_xt_lt j _ (xt_lt_size ok x hx)

/-- `x·c = 0 → c = 0` (prim has constant term 1) -/
theorem xt_eq_zero (c : Nat) (h : xt prim size.log2 c = 0) : c = 0 := by
  unfold xt at h
  split at h
  · have := xor_eq_zero h
    have := ok.2.2.2.2.1
    omega
  · omega

theorem xt_inj (a b : Nat) (h : xt prim size.log2 a = xt prim size.log2 b) : a = b := by
  apply xor_eq_zero
  apply xt_eq_zero ok
  rw [xt_xor, h, Nat.xor_self]

end params

/-- `x^j mod prim` by repeated multiplication by x -/
def pw (prim size j : Nat) : Nat := iter (xt prim size.log2) j 1

theorem ordLoop_spec (prim size : Nat) : ∀ (k x : Nat), ordLoop prim size k x = true →
    (∀ j, j < k → iter (step prim size) j x ≠ 1) ∧ iter (step prim size) k x = 1
  | 0, x, h => by
    simp [ordLoop] at h
    exact ⟨fun j hj => by omega, h⟩
  | k + 1, x, h => by
    simp [ordLoop] at h
    obtain ⟨ih1, ih2⟩ := ordLoop_spec prim size k _ h.2
    refine ⟨?_, ih2⟩
    intro j hj
    cases j with
    | zero => exact h.1
    | succ j => exact ih1 j (by omega)

section order
variable {prim size : Nat} (ok : ParamsOK prim size)
include ok

theorem one_lt_size : 1 < size := by have := ok.2.1; omega

theorem pw_lt (j : Nat) : pw prim size j < size := iter_xt_lt ok j 1 (one_lt_size ok)

omit ok in
theorem pw_succ (j : Nat) : pw prim size (j + 1) = xt prim size.log2 (pw prim size j) :=
  iter_succ' _ j 1

omit ok in
theorem pw_add (i j : Nat) : pw prim size (i + j) = iter (xt prim size.log2) j (pw prim size i) :=
  iter_add _ i j 1

/-- order divides size-1 -/
theorem pw_order : pw prim size (size - 1) = 1 := by
  have h := (ordLoop_spec prim size _ _ ok.2.2.2.2.2).2
  have e : size - 1 = (size - 2) + 1 := by have := ok.2.1; omega
  unfold pw
  rw [e]
  show iter _ (size - 2) (xt prim size.log2 1) = 1
  rw [← step_eq_xt ok 1 (one_lt_size ok), ← iter_step_eq ok _ _ ?_]
  · exact h
  · rw [step_eq_xt ok 1 (one_lt_size ok)]; exact xt_lt_size ok 1 (one_lt_size ok)

/-- order is not smaller -/
theorem pw_ne_one (j : Nat) (h0 : 0 < j) (hj : j < size - 1) : pw prim size j ≠ 1 := by
  have h := (ordLoop_spec prim size _ _ ok.2.2.2.2.2).1 (j - 1) (by omega)
  have e : j = (j - 1) + 1 := by omega
  unfold pw
  rw [e]
  show iter _ (j - 1) (xt prim size.log2 1) ≠ 1
  rw [← step_eq_xt ok 1 (one_lt_size ok), ← iter_step_eq ok _ _ ?_]
  · exact h
  · rw [step_eq_xt ok 1 (one_lt_size ok)]; exact xt_lt_size ok 1 (one_lt_size ok)

theorem pw_ne_zero : ∀ (j : Nat), pw prim size j ≠ 0
  | 0 => by simp [pw, iter]
  | j + 1 => by
    rw [pw_succ]
    intro h
    exact pw_ne_zero j (xt_eq_zero ok _ h)

theorem pw_inj : ∀ (i j : Nat), i < j → j < size - 1 → pw prim size i ≠ pw prim size j
  | 0, j, hij, hj => by
    intro h
    exact pw_ne_one ok j hij hj h.symm
  | i + 1, j, hij, hj => by
    intro h
    have e : j = (j - 1) + 1 := by omega
    rw [e, pw_succ, pw_succ] at h
    exact pw_inj i (j - 1) (by omega) (by omega) (xt_inj ok _ _ h)

theorem pw_period (j : Nat) : pw prim size (j + (size - 1)) = pw prim size j := by
  rw [Nat.add_comm, pw_add, pw_order ok]; rfl

theorem pw_mod (j : Nat) : pw prim size (j % (size - 1)) = pw prim size j := by
  have hn : 0 < size - 1 := by have := ok.2.1; omega
  induction j using Nat.strongRecOn with
  | _ j ih =>
    by_cases hj : j < size - 1
    · rw [Nat.mod_eq_of_lt hj]
    · have e : j = (j - (size - 1)) + (size - 1) := by omega
      rw [e, Nat.add_mod_right, pw_period ok, ih _ (by omega)]

end order

/-! ## pigeonhole -/

theorem inj_surj : ∀ (n : Nat) (f : Nat → Nat), (∀ i j, i < n → j < n → f i = f j → i = j) →
    (∀ i, i < n → f i < n) → ∀ a, a < n → ∃ i, i < n ∧ f i = a
  | 0, _, _, _, a, ha => by omega
  | n + 1, f, hinj, hr, a, ha => by
    by_cases hex : ∃ i0, i0 < n + 1 ∧ f i0 = n
    · obtain ⟨i0, hi0, hf0⟩ := hex
      -- g = f with i0 and n swapped, restricted to [0,n)
      let g : Nat → Nat := fun i => if i = i0 then f n else f i
      have hg_ne : ∀ i, i < n → g i ≠ n := by
        intro i hi hgi
        by_cases h : i = i0
        · simp only [g, h, if_true] at hgi
          have := hinj n i0 (by omega) hi0 (by rw [hgi, hf0])
          omega
        · simp only [g, h, if_false] at hgi
          have := hinj i i0 (by omega) hi0 (by rw [hgi, hf0])
          exact h this
      have hg_r : ∀ i, i < n → g i < n := by
        intro i hi
        have h1 := hg_ne i hi
        have h2 : g i < n + 1 := by
          by_cases h : i = i0
          · simp only [g, h, if_true]; exact hr n (by omega)
          · simp only [g, h, if_false]; exact hr i (by omega)
        omega
      have hg_inj : ∀ i j, i < n → j < n → g i = g j → i = j := by
        intro i j hi hj hij
        by_cases h1 : i = i0 <;> by_cases h2 : j = i0
        · omega
        · simp only [g, h1, h2, if_true, if_false] at hij
          have := hinj n j (by omega) (by omega) hij
          omega
        · simp only [g, h1, h2, if_true, if_false] at hij
          have := hinj i n (by omega) (by omega) hij
          omega
        · simp only [g, h1, h2, if_false] at hij
          exact hinj i j (by omega) (by omega) hij
      by_cases han : a = n
      · exact ⟨i0, hi0, by rw [hf0, han]⟩
      · obtain ⟨i, hi, hgi⟩ := inj_surj n g hg_inj hg_r a (by omega)
        by_cases h : i = i0
        · simp only [g, h, if_true] at hgi
          exact ⟨n, by omega, hgi⟩
        · simp only [g, h, if_false] at hgi
          exact ⟨i, by omega, hgi⟩
    · -- no preimage of n: f maps [0,n) injectively into [0,n), so f n collides
      exfalso
      have hlt : ∀ i, i < n + 1 → f i < n := by
        intro i hi
        have h1 := hr i hi
        have h2 : f i ≠ n := fun h => hex ⟨i, hi, h⟩
        omega
      obtain ⟨i, hi, hfi⟩ := inj_surj n f (fun i j hi hj => hinj i j (by omega) (by omega))
        (fun i hi => hlt i (by omega)) (f n) (hlt n (by omega))
      have := hinj i n (by omega) (by omega) hfi
      omega

/-- every non-zero element is a power of x -/
theorem pw_surj {prim size : Nat} (ok : ParamsOK prim size) (a : Nat) (h0 : a ≠ 0) (ha : a < size) :
    ∃ j, j < size - 1 ∧ pw prim size j = a := by
  have := inj_surj (size - 1) (fun i => pw prim size i - 1)
    (by
      intro i j hi hj h
      have h1 := pw_ne_zero ok i
      have h2 := pw_ne_zero ok j
      have h3 : pw prim size i = pw prim size j := by omega
      by_cases hij : i < j
      · exact absurd h3 (pw_inj ok i j hij hj)
      · by_cases hji : j < i
        · exact absurd h3.symm (pw_inj ok j i hji hi)
        · omega)
    (by
      intro i _
      have h1 := pw_ne_zero ok i
      have h2 := pw_lt ok i
      omega)
    (a - 1) (by omega)
  obtain ⟨j, hj, hp⟩ := this
  refine ⟨j, hj, ?_⟩
  have h1 := pw_ne_zero ok j
  omega


/-! ## tables -/

theorem expList_getElem? (prim size : Nat) : ∀ (k x j : Nat),
    (expList prim size k x)[j]? = if j < k then some (iter (step prim size) j x) else none
  | 0, _, _ => by simp [expList]
  | k + 1, x, 0 => by simp [expList, iter]
  | k + 1, x, j + 1 => by
    simp only [expList, List.getElem?_cons_succ]
    rw [expList_getElem? prim size k _ j]
    simp [iter]

theorem expList_length (prim size : Nat) : ∀ (k x : Nat), (expList prim size k x).length = k
  | 0, _ => rfl
  | k + 1, x => by simp [expList, expList_length prim size k]

theorem logLoop_length : ∀ (es : List Nat) (i : Nat) (acc : List Nat), (logLoop es i acc).length = acc.length
  | [], _, _ => rfl
  | e :: es, i, acc => by simp [logLoop, logLoop_length es]

theorem logLoop_not_mem : ∀ (es : List Nat) (i : Nat) (acc : List Nat) (a : Nat),
    (∀ j : Nat, es[j]? ≠ some a) → (logLoop es i acc)[a]? = acc[a]?
  | [], _, _, _, _ => rfl
  | e :: es, i, acc, a, h => by
    simp only [logLoop]
    have h' : ∀ j : Nat, es[j]? ≠ some a := by
      intro j
      have := h (j + 1)
      simpa using this
    rw [logLoop_not_mem es (i + 1) _ a h']
    have : e ≠ a := by have := h 0; simpa using this
    exact List.getElem?_set_ne this

theorem logLoop_mem : ∀ (es : List Nat) (i : Nat) (acc : List Nat),
    (∀ (j1 j2 a : Nat), j1 < j2 → es[j1]? = some a → es[j2]? = some a → False) →
    (∀ (j a : Nat), es[j]? = some a → a < acc.length) →
    ∀ (j a : Nat), es[j]? = some a → (logLoop es i acc)[a]? = some (i + j)
  | [], _, _, _, _, j, a, h => by simp at h
  | e :: es, i, acc, hd, hl, j, a, h => by
    simp only [logLoop]
    cases j with
    | zero =>
      have hea : e = a := by simpa using h
      subst hea
      have hne : ∀ j : Nat, es[j]? ≠ some e := by
        intro j hj
        exact hd 0 (j + 1) e (by omega) (by simp) (by simpa using hj)
      rw [logLoop_not_mem es (i + 1) _ e hne]
      exact List.getElem?_set_self (hl 0 e (by simp))
    | succ j =>
      have hd' : ∀ (j1 j2 a : Nat), j1 < j2 → es[j1]? = some a → es[j2]? = some a → False := by
        intro j1 j2 a hlt h1 h2
        exact hd (j1 + 1) (j2 + 1) a (by omega) (by simpa using h1) (by simpa using h2)
      have hl' : ∀ (j a : Nat), es[j]? = some a → a < (acc.set e i).length := by
        intro j a hj
        rw [List.length_set]; exact hl (j + 1) a (by simpa using hj)
      have hj' : es[j]? = some a := by simpa using h
      rw [logLoop_mem es (i + 1) (acc.set e i) hd' hl' j a hj']
      congr 1; omega

section tables
variable {prim size : Nat} (ok : ParamsOK prim size) (base : Nat)
include ok

theorem exp_get (j : Nat) (hj : j < size) : idx (mk' prim size base).exp j = .ok (pw prim size j) := by
  unfold idx mk'
  simp only [List.getElem?_toArray, expList_getElem?, hj, if_true]
  rw [iter_step_eq ok j 1 (one_lt_size ok)]; rfl

omit ok in
theorem exp_get_oob (j : Nat) (hj : ¬ j < size) : ∃ w, idx (mk' prim size base).exp j = .error (.panic w) := by
  unfold idx mk'
  simp only [List.getElem?_toArray, expList_getElem?, hj, if_false]
  exact ⟨_, rfl⟩

theorem log_get (j : Nat) (hj : j < size - 1) : idx (mk' prim size base).log (pw prim size j) = .ok j := by
  unfold idx mk'
  simp only [List.getElem?_toArray]
  have key : ∀ j a, (List.take (size - 1) (expList prim size size 1))[j]? = some a →
      j < size - 1 ∧ a = pw prim size j := by
    intro j a h
    rw [List.getElem?_take] at h
    by_cases hj : j < size - 1
    · rw [if_pos hj, expList_getElem?, if_pos (by omega), iter_step_eq ok j 1 (one_lt_size ok)] at h
      exact ⟨hj, by simpa [pw] using h.symm⟩
    · simp [hj] at h
  rw [logLoop_mem _ 0 _ ?_ ?_ j (pw prim size j) ?_]
  · simp
  · intro j1 j2 a hlt h1 h2
    obtain ⟨_, e1⟩ := key j1 a h1
    obtain ⟨hj2, e2⟩ := key j2 a h2
    exact pw_inj ok j1 j2 hlt hj2 (by rw [← e1, ← e2])
  · intro j a h
    obtain ⟨_, e⟩ := key j a h
    rw [List.length_replicate, e]; exact pw_lt ok j
  · rw [List.getElem?_take, if_pos hj, expList_getElem?, if_pos (by omega),
      iter_step_eq ok j 1 (one_lt_size ok)]; rfl

omit ok in
theorem log_get_oob (a : Nat) (ha : ¬ a < size) : ∃ w, idx (mk' prim size base).log a = .error (.panic w) := by
  unfold idx mk'
  simp only [List.getElem?_toArray]
  have : (logLoop (List.take (size - 1) (expList prim size size 1)) 0 (List.replicate size 0))[a]? = none := by
    rw [List.getElem?_eq_none_iff, logLoop_length, List.length_replicate]; omega
  rw [this]
  exact ⟨_, rfl⟩

end tables

/-! ## the reference product on `[0,size)` -/

section field
variable {prim size : Nat} (ok : ParamsOK prim size)
include ok

theorem lt_size_iff (a : Nat) : a < size ↔ a < 2 ^ size.log2 := by
  have := ok.1
  constructor <;> intro h <;> omega

theorem gmul_eq_peasant (a b : Nat) (hb : b < size) :
    gmul prim a b = peasant prim size.log2 (a.log2 + 1) a b := by
  unfold gmul clmul
  exact pmod_clmulAux (degIs ok) _ a b ((lt_size_iff ok b).1 hb)

theorem gmul_lt (a b : Nat) : gmul prim a b < size := by
  rw [lt_size_iff ok]
  exact pmod_lt (degIs ok) _

theorem gmul_pw (a j : Nat) (ha : a < size) :
    gmul prim a (pw prim size j) = iter (xt prim size.log2) j a := by
  rw [gmul_eq_peasant ok a _ (pw_lt ok j)]
  unfold pw
  rw [peasant_iter, peasant_one]
  · by_cases h0 : a = 0
    · subst h0; have := deg_pos ok; simp [Nat.log2_zero]; omega
    · have := (Nat.log2_lt h0).2 ((lt_size_iff ok a).1 ha)
      omega
  · exact Nat.lt_log2_self

theorem gmul_pw_pw (i j : Nat) : gmul prim (pw prim size i) (pw prim size j) = pw prim size (i + j) := by
  rw [gmul_pw ok _ j (pw_lt ok i), pw_add]

theorem gmul_zero_left (b : Nat) (hb : b < size) : gmul prim 0 b = 0 := by
  rw [gmul_eq_peasant ok 0 b hb]; exact peasant_zero_left _ _ _ _

theorem gmul_zero_right (a : Nat) : gmul prim a 0 = 0 := by
  rw [gmul_eq_peasant ok a 0 (by have := ok.2.1; omega)]; exact peasant_zero_right _ _ _ _

theorem gmul_one_right (a : Nat) (ha : a < size) : gmul prim a 1 = a := by
  have := gmul_pw ok a 0 ha
  simpa [pw, iter] using this

theorem gmul_comm (a b : Nat) (ha : a < size) (hb : b < size) : gmul prim a b = gmul prim b a := by
  by_cases ha0 : a = 0
  · subst ha0; rw [gmul_zero_left ok b hb, gmul_zero_right ok]
  by_cases hb0 : b = 0
  · subst hb0; rw [gmul_zero_left ok a ha, gmul_zero_right ok]
  obtain ⟨i, _, rfl⟩ := pw_surj ok a ha0 ha
  obtain ⟨j, _, rfl⟩ := pw_surj ok b hb0 hb
  rw [gmul_pw_pw ok, gmul_pw_pw ok, Nat.add_comm]

theorem gmul_one_left (a : Nat) (ha : a < size) : gmul prim 1 a = a := by
  rw [gmul_comm ok 1 a (one_lt_size ok) ha, gmul_one_right ok a ha]

theorem gmul_assoc (a b c : Nat) (ha : a < size) (hb : b < size) (hc : c < size) :
    gmul prim (gmul prim a b) c = gmul prim a (gmul prim b c) := by
  by_cases ha0 : a = 0
  · subst ha0; rw [gmul_zero_left ok b hb, gmul_zero_left ok c hc, gmul_zero_left ok _ (gmul_lt ok _ _)]
  by_cases hb0 : b = 0
  · subst hb0; rw [gmul_zero_right ok, gmul_zero_left ok c hc, gmul_zero_right ok]
  by_cases hc0 : c = 0
  · subst hc0; rw [gmul_zero_right ok, gmul_zero_right ok, gmul_zero_right ok]
  obtain ⟨i, _, rfl⟩ := pw_surj ok a ha0 ha
  obtain ⟨j, _, rfl⟩ := pw_surj ok b hb0 hb
  obtain ⟨k, _, rfl⟩ := pw_surj ok c hc0 hc
  rw [gmul_pw_pw ok, gmul_pw_pw ok, gmul_pw_pw ok, gmul_pw_pw ok, Nat.add_assoc]

theorem xor_lt_size (a b : Nat) (ha : a < size) (hb : b < size) : a ^^^ b < size := by
  rw [lt_size_iff ok] at *
  exact Nat.xor_lt_two_pow ha hb

theorem gmul_xor_right (a b c : Nat) (hb : b < size) (hc : c < size) :
    gmul prim a (b ^^^ c) = gmul prim a b ^^^ gmul prim a c := by
  rw [gmul_eq_peasant ok a _ (xor_lt_size ok b c hb hc), gmul_eq_peasant ok a b hb,
    gmul_eq_peasant ok a c hc, peasant_xor]

theorem gmul_xor_left (a b c : Nat) (ha : a < size) (hb : b < size) (hc : c < size) :
    gmul prim (a ^^^ b) c = gmul prim a c ^^^ gmul prim b c := by
  rw [gmul_comm ok _ c (xor_lt_size ok a b ha hb) hc, gmul_xor_right ok c a b ha hb,
    gmul_comm ok c a hc ha, gmul_comm ok c b hc hb]

theorem gmul_eq_zero (a b : Nat) (ha : a < size) (hb : b < size) (h : gmul prim a b = 0) :
    a = 0 ∨ b = 0 := by
  by_cases ha0 : a = 0
  · exact Or.inl ha0
  by_cases hb0 : b = 0
  · exact Or.inr hb0
  exfalso
  obtain ⟨i, _, rfl⟩ := pw_surj ok a ha0 ha
  obtain ⟨j, _, rfl⟩ := pw_surj ok b hb0 hb
  rw [gmul_pw_pw ok] at h
  exact pw_ne_zero ok _ h

end field

/-! ## the table-driven operations compute the reference field -/

section ops
variable {prim size : Nat} (ok : ParamsOK prim size) (base : Nat)
include ok

theorem mk'_mul (a b : Nat) (ha : a < size) (hb : b < size) :
    (mk' prim size base).mul a b = .ok (gmul prim a b) := by
  unfold GF.mul
  by_cases h0 : a = 0 ∨ b = 0
  · rw [if_pos h0]
    cases h0 with
    | inl h => subst h; rw [gmul_zero_left ok b hb]
    | inr h => subst h; rw [gmul_zero_right ok]
  · rw [if_neg h0]
    have ha0 : a ≠ 0 := fun h => h0 (Or.inl h)
    have hb0 : b ≠ 0 := fun h => h0 (Or.inr h)
    obtain ⟨i, hi, rfl⟩ := pw_surj ok a ha0 ha
    obtain ⟨j, hj, rfl⟩ := pw_surj ok b hb0 hb
    have hs : ¬ (mk' prim size base).size ≤ 1 := by have := ok.2.1; show ¬ size ≤ 1; omega
    have hm : (i + j) % (size - 1) < size := by
      have := Nat.mod_lt (i + j) (show 0 < size - 1 by omega); omega
    simp only [log_get ok base i hi, log_get ok base j hj, bind, Except.bind, hs, if_false]
    show idx (mk' prim size base).exp ((i + j) % (size - 1)) = _
    rw [exp_get ok base _ hm, pw_mod ok, gmul_pw_pw ok]

theorem mk'_inv (a : Nat) (h0 : a ≠ 0) (ha : a < size) :
    ∃ v, (mk' prim size base).inv a = .ok v ∧ v < size ∧ v ≠ 0 ∧ gmul prim a v = 1 := by
  obtain ⟨i, hi, rfl⟩ := pw_surj ok a h0 ha
  refine ⟨pw prim size (size - 1 - i), ?_, pw_lt ok _, pw_ne_zero ok _, ?_⟩
  · unfold GF.inv
    rw [if_neg h0]
    have hs : ¬ i + 1 > (mk' prim size base).size := by show ¬ i + 1 > size; omega
    simp only [log_get ok base i hi, bind, Except.bind, hs, if_false]
    show idx (mk' prim size base).exp (size - i - 1) = _
    have e : size - i - 1 = size - 1 - i := by omega
    rw [e, exp_get ok base _ (by omega)]
  · rw [gmul_pw_pw ok]
    have e : i + (size - 1 - i) = size - 1 := by omega
    rw [e, pw_order ok]

theorem mk'_log (a : Nat) (h0 : a ≠ 0) (ha : a < size) :
    ∃ l, (mk' prim size base).logOf a = .ok l ∧ l < size - 1 ∧ (mk' prim size base).expAt l = .ok a := by
  obtain ⟨i, hi, rfl⟩ := pw_surj ok a h0 ha
  refine ⟨i, ?_, hi, ?_⟩
  · unfold GF.logOf; rw [if_neg h0, log_get ok base i hi]
  · unfold GF.expAt; rw [exp_get ok base i (by omega)]

theorem mk'_exp (i : Nat) (hi : i < size - 1) :
    ∃ v, (mk' prim size base).expAt i = .ok v ∧ v ≠ 0 ∧ v < size ∧ (mk' prim size base).logOf v = .ok i := by
  refine ⟨pw prim size i, ?_, pw_ne_zero ok i, pw_lt ok i, ?_⟩
  · unfold GF.expAt; rw [exp_get ok base i (by omega)]
  · unfold GF.logOf; rw [if_neg (pw_ne_zero ok i), log_get ok base i hi]

/-- `x^i mod prim` by the long-division reference -/
theorem pw_eq_pmod : ∀ (i : Nat), pw prim size i = pmod prim (2 ^ i)
  | 0 => by
    rw [pmod_of_lt (degIs ok) _ (by have := deg_pos ok; exact Nat.one_lt_two_pow (by omega))]; rfl
  | i + 1 => by
    rw [pw_succ, pw_eq_pmod i, ← pmod_two_mul (degIs ok), Nat.pow_succ, Nat.mul_comm]

end ops


/-! ## the same facts for a field `F` with `FieldOK F` -/

section F
variable {F : GF} (hF : FieldOK F)
include hF

theorem F_mul (a b : Nat) (ha : a < F.size) (hb : b < F.size) : F.mul a b = .ok (gmul F.prim a b) := by
  have := mk'_mul hF.2 F.base a b ha hb
  rw [← hF.1] at this
  exact this

theorem F_inv (a : Nat) (h0 : a ≠ 0) (ha : a < F.size) :
    ∃ v, F.inv a = .ok v ∧ v < F.size ∧ v ≠ 0 ∧ gmul F.prim a v = 1 := by
  have := mk'_inv hF.2 F.base a h0 ha
  rw [← hF.1] at this
  exact this

theorem F_exp (i : Nat) (hi : i < F.size) : F.expAt i = .ok (pw F.prim F.size i) := by
  have := exp_get hF.2 F.base i hi
  rw [← hF.1] at this
  exact this

theorem F_log (a : Nat) (h0 : a ≠ 0) (ha : a < F.size) : ∃ l, F.logOf a = .ok l ∧ l < F.size - 1 := by
  have := mk'_log hF.2 F.base a h0 ha
  rw [← hF.1] at this
  obtain ⟨l, h1, h2, _⟩ := this
  exact ⟨l, h1, h2⟩

theorem F_log_pw (j : Nat) (hj : j < F.size - 1) : F.logOf (pw F.prim F.size j) = .ok j := by
  have := log_get hF.2 F.base j hj
  rw [← hF.1] at this
  unfold GF.logOf
  rw [if_neg (pw_ne_zero hF.2 j)]
  exact this

end F

end Gzx.Proofs.GF
