/-
  GF(2)[x] on `Nat` bit vectors: long division `pmod` is xor-linear, multiplication by x commutes with
  it, and the carry-less product followed by `pmod` is the shift-and-add ("peasant") product.
  Helper lemmas for Properties/C04.lean.  Core Lean only.
-/
import Gzx.Ref.GF
namespace Gzx.Proofs.GF2
open Gzx.Ref.GF

/-- `p` is a polynomial of degree exactly `d` -/
def DegIs (p d : Nat) : Prop := 2 ^ d ≤ p ∧ p < 2 ^ (d + 1)

theorem lt_two_pow_of_bits {x n : Nat} (h : ∀ i, i ≥ n → x.testBit i = false) : x < 2 ^ n :=
  Nat.lt_pow_two_of_testBit x h

theorem testBit_false_of_lt {x n i : Nat} (h : x < 2 ^ n) (hi : n ≤ i) : x.testBit i = false :=
  Nat.testBit_lt_two_pow (Nat.lt_of_lt_of_le h (Nat.pow_le_pow_right (by omega) hi))

theorem DegIs.testBit_top {p d : Nat} (h : DegIs p d) : p.testBit d = true := by
  cases hb : p.testBit d with
  | true => rfl
  | false =>
    exfalso
    have : p < 2 ^ d := by
      apply lt_two_pow_of_bits
      intro i hi
      by_cases hid : i = d
      · subst hid; exact hb
      · exact testBit_false_of_lt h.2 (by omega)
    have := h.1
    omega

theorem two_mul_xor (a b : Nat) : 2 * a ^^^ 2 * b = 2 * (a ^^^ b) := by
  have h := @Nat.shiftLeft_xor_distrib 1 a b
  simp only [Nat.shiftLeft_eq, Nat.pow_one] at h
  rw [Nat.mul_comm 2 a, Nat.mul_comm 2 b, Nat.mul_comm 2, h]

theorem testBit_two_mul_succ (y n : Nat) : (2 * y).testBit (n + 1) = y.testBit n := by
  rw [Nat.testBit_succ]; congr 1; omega

/-- one step of the long division -/
def st (p d k y : Nat) : Nat := if y.testBit (d + k) then y ^^^ (p <<< k) else y

theorem pmodAux_succ (p d k y : Nat) : pmodAux p d (k + 1) y = pmodAux p d k (st p d k y) := rfl

theorem shift_top {p d : Nat} (h : DegIs p d) (k : Nat) : (p <<< k).testBit (d + k) = true := by
  rw [Nat.testBit_shiftLeft]
  have : d + k - k = d := by omega
  simp [this, h.testBit_top]

theorem shift_lt {p d : Nat} (h : DegIs p d) (k : Nat) : p <<< k < 2 ^ (d + k + 1) := by
  rw [Nat.shiftLeft_eq]
  have : 2 ^ (d + k + 1) = 2 ^ (d + 1) * 2 ^ k := by
    rw [← Nat.pow_add]; congr 1; omega
  rw [this]
  exact Nat.mul_lt_mul_of_lt_of_le h.2 (Nat.le_refl _) (Nat.two_pow_pos k)

theorem st_lt {p d : Nat} (h : DegIs p d) (k y : Nat) (hy : y < 2 ^ (d + k + 1)) :
    st p d k y < 2 ^ (d + k) := by
  apply lt_two_pow_of_bits
  intro i hi
  unfold st
  by_cases hid : i = d + k
  · subst hid
    cases hb : y.testBit (d + k) with
    | true => simp [Nat.testBit_xor, hb, shift_top h k]
    | false => simp [hb]
  · have h1 : y.testBit i = false := testBit_false_of_lt hy (by omega)
    have h2 : (p <<< k).testBit i = false := testBit_false_of_lt (shift_lt h k) (by omega)
    split <;> simp [Nat.testBit_xor, h1, h2]

theorem st_xor (p d k y z : Nat) : st p d k (y ^^^ z) = st p d k y ^^^ st p d k z := by
  unfold st
  rw [Nat.testBit_xor]
  cases y.testBit (d + k) <;> cases z.testBit (d + k) <;> simp
  · rw [Nat.xor_assoc]
  · rw [Nat.xor_assoc, Nat.xor_assoc, Nat.xor_comm z]
  · apply Nat.eq_of_testBit_eq; intro i
    simp only [Nat.testBit_xor]
    cases y.testBit i <;> cases z.testBit i <;> cases (p <<< k).testBit i <;> rfl

theorem st_of_lt (p d k y : Nat) (hy : y < 2 ^ (d + k)) : st p d k y = y := by
  unfold st
  rw [Nat.testBit_lt_two_pow hy]; rfl

/-- A2 -/
theorem pmodAux_lt {p d : Nat} (h : DegIs p d) : ∀ (k y : Nat), y < 2 ^ (d + k) → pmodAux p d k y < 2 ^ d
  | 0, y, hy => by simpa [pmodAux] using hy
  | k + 1, y, hy => by
    rw [pmodAux_succ]
    exact pmodAux_lt h k _ (st_lt h k y (by simpa [Nat.add_assoc] using hy))

/-- A1: long division is xor-linear -/
theorem pmodAux_xor {p d : Nat} (h : DegIs p d) : ∀ (k y z : Nat), y < 2 ^ (d + k) → z < 2 ^ (d + k) →
    pmodAux p d k (y ^^^ z) = pmodAux p d k y ^^^ pmodAux p d k z
  | 0, y, z, _, _ => rfl
  | k + 1, y, z, hy, hz => by
    rw [pmodAux_succ, pmodAux_succ, pmodAux_succ, st_xor]
    exact pmodAux_xor h k _ _ (st_lt h k y (by simpa [Nat.add_assoc] using hy))
      (st_lt h k z (by simpa [Nat.add_assoc] using hz))

/-- A3: extra fuel is harmless -/
theorem pmodAux_fuel (p d : Nat) : ∀ (j k y : Nat), y < 2 ^ (d + k) → pmodAux p d (k + j) y = pmodAux p d k y
  | 0, _, _, _ => rfl
  | j + 1, k, y, hy => by
    have : k + (j + 1) = (k + j) + 1 := by omega
    rw [this, pmodAux_succ, st_of_lt]
    · exact pmodAux_fuel p d j k y hy
    · exact Nat.lt_of_lt_of_le hy (Nat.pow_le_pow_right (by omega) (by omega))

theorem DegIs.log2 {p d : Nat} (h : DegIs p d) : p.log2 = d := by
  have hp : p ≠ 0 := by have := h.1; have := Nat.two_pow_pos d; omega
  have h1 : p.log2 < d + 1 := (Nat.log2_lt hp).2 h.2
  have h2 : ¬ p.log2 < d := by
    intro hlt
    have := (Nat.log2_lt hp).1 hlt
    have := h.1; omega
  omega

/-- A4: `pmod` is `pmodAux` with any sufficient fuel -/
theorem pmod_eq {p d : Nat} (h : DegIs p d) (K y : Nat) (hy : y < 2 ^ (d + K)) :
    pmod p y = pmodAux p d K y := by
  unfold pmod
  rw [h.log2]
  have hy0 : y < 2 ^ (d + (y.log2 + 1 - d)) := by
    have := @Nat.lt_log2_self y
    exact Nat.lt_of_lt_of_le this (Nat.pow_le_pow_right (by omega) (by omega))
  by_cases hk : y.log2 + 1 - d ≤ K
  · obtain ⟨j, hj⟩ := Nat.exists_eq_add_of_le hk
    rw [hj, pmodAux_fuel p d j _ y hy0]
  · have hk' : K ≤ y.log2 + 1 - d := by omega
    obtain ⟨j, hj⟩ := Nat.exists_eq_add_of_le hk'
    rw [hj, pmodAux_fuel p d j _ y hy]

/-- A6 -/
theorem pmod_of_lt {p d : Nat} (h : DegIs p d) (y : Nat) (hy : y < 2 ^ d) : pmod p y = y := by
  rw [pmod_eq h 0 y (by simpa using hy)]; rfl

theorem pmod_lt {p d : Nat} (h : DegIs p d) (y : Nat) : pmod p y < 2 ^ d := by
  have hy : y < 2 ^ (d + (y.log2 + 1)) :=
    Nat.lt_of_lt_of_le (@Nat.lt_log2_self y) (Nat.pow_le_pow_right (by omega) (by omega))
  rw [pmod_eq h _ y hy]
  exact pmodAux_lt h _ _ hy

theorem pmod_xor {p d : Nat} (h : DegIs p d) (y z : Nat) : pmod p (y ^^^ z) = pmod p y ^^^ pmod p z := by
  -- common fuel
  let K := y.log2 + 1 + (z.log2 + 1)
  have hy : y < 2 ^ (d + K) :=
    Nat.lt_of_lt_of_le (@Nat.lt_log2_self y) (Nat.pow_le_pow_right (by omega) (by omega))
  have hz : z < 2 ^ (d + K) :=
    Nat.lt_of_lt_of_le (@Nat.lt_log2_self z) (Nat.pow_le_pow_right (by omega) (by omega))
  rw [pmod_eq h K _ (Nat.xor_lt_two_pow hy hz), pmod_eq h K y hy, pmod_eq h K z hz]
  exact pmodAux_xor h K y z hy hz

/-- multiplication by x modulo p on reduced elements -/
def xt (p d r : Nat) : Nat := if (2 * r).testBit d then 2 * r ^^^ p else 2 * r

theorem degIs_two_mul {p d : Nat} (h : DegIs p d) : DegIs (2 * p) (d + 1) := by
  unfold DegIs at *
  have h1 : 2 ^ (d + 1) = 2 ^ d * 2 := Nat.pow_succ _ _
  have h2 : 2 ^ (d + 1 + 1) = 2 ^ (d + 1) * 2 := Nat.pow_succ _ _
  omega

theorem st_shift (p d k y : Nat) : st p d (k + 1) y = st (2 * p) (d + 1) k y := by
  unfold st
  have h1 : d + (k + 1) = d + 1 + k := by omega
  have h2 : p <<< (k + 1) = (2 * p) <<< k := by
    rw [Nat.shiftLeft_eq, Nat.shiftLeft_eq, Nat.pow_succ]
    rw [Nat.mul_comm 2 p, Nat.mul_assoc, Nat.mul_comm 2]
  rw [h1, h2]

/-- the top `k` division steps are a division by `x·p` -/
theorem pmodAux_split (p d : Nat) : ∀ (k y : Nat),
    pmodAux p d (k + 1) y = pmodAux p d 1 (pmodAux (2 * p) (d + 1) k y)
  | 0, _ => rfl
  | k + 1, y => by
    rw [pmodAux_succ, st_shift, pmodAux_split p d k]
    rfl

theorem st_two_mul (p d k y : Nat) : st (2 * p) (d + 1) k (2 * y) = 2 * st p d k y := by
  unfold st
  have h1 : d + 1 + k = (d + k) + 1 := by omega
  rw [h1, testBit_two_mul_succ]
  have h2 : (2 * p) <<< k = 2 * (p <<< k) := by
    rw [Nat.shiftLeft_eq, Nat.shiftLeft_eq, Nat.mul_assoc]
  split
  · rw [h2, two_mul_xor]
  · rfl

theorem pmodAux_two_mul (p d : Nat) : ∀ (k y : Nat),
    pmodAux (2 * p) (d + 1) k (2 * y) = 2 * pmodAux p d k y
  | 0, _ => rfl
  | k + 1, y => by
    rw [pmodAux_succ, pmodAux_succ, st_two_mul, pmodAux_two_mul p d k]

/-- A5: `(x·y) mod p = xt (y mod p)` -/
theorem pmod_two_mul {p d : Nat} (h : DegIs p d) (y : Nat) : pmod p (2 * y) = xt p d (pmod p y) := by
  let K := y.log2 + 1
  have hy : y < 2 ^ (d + K) :=
    Nat.lt_of_lt_of_le (@Nat.lt_log2_self y) (Nat.pow_le_pow_right (by omega) (by omega))
  have hy2 : 2 * y < 2 ^ (d + (K + 1)) := by
    have : d + (K + 1) = (d + K) + 1 := by omega
    rw [this, Nat.pow_succ]; omega
  rw [pmod_eq h (K + 1) _ hy2, pmod_eq h K y hy, pmodAux_split, pmodAux_two_mul]
  show st p d 0 _ = _
  unfold st xt
  simp

theorem xt_lt {p d : Nat} (h : DegIs p d) (r : Nat) (hr : r < 2 ^ d) : xt p d r < 2 ^ d := by
  have : xt p d r = st p d 0 (2 * r) := by unfold st xt; simp
  rw [this]
  have := st_lt h 0 (2 * r) (by simp only [Nat.add_zero]; rw [Nat.pow_succ]; omega)
  simpa using this

theorem xt_xor (p d a b : Nat) : xt p d (a ^^^ b) = xt p d a ^^^ xt p d b := by
  have e : ∀ r, xt p d r = st p d 0 (2 * r) := by intro r; unfold st xt; simp
  rw [e, e, e, ← two_mul_xor, st_xor]

theorem xt_zero (p d : Nat) : xt p d 0 = 0 := by unfold xt; simp


/-! ## carry-less product followed by reduction = shift-and-add product -/

/-- shift-and-add ("peasant") product modulo p over the bits of `a` (lowest first, Horner from the top) -/
def peasant (p d : Nat) : Nat → Nat → Nat → Nat
  | 0, _, _ => 0
  | k + 1, a, b => (if a % 2 = 1 then b else 0) ^^^ xt p d (peasant p d k (a / 2) b)

theorem clmulAux_lt (m : Nat) : ∀ (k a b : Nat), b < 2 ^ m → clmulAux k a b < 2 ^ (m + k)
  | 0, _, _, _ => by simp [clmulAux]; exact Nat.two_pow_pos m
  | k + 1, a, b, hb => by
    unfold clmulAux
    have ih := clmulAux_lt m k (a / 2) b hb
    have e : 2 ^ (m + (k + 1)) = 2 ^ (m + k) * 2 := Nat.pow_succ _ _
    apply Nat.xor_lt_two_pow
    · have : b < 2 ^ (m + (k + 1)) :=
        Nat.lt_of_lt_of_le hb (Nat.pow_le_pow_right (by omega) (by omega))
      split
      · exact this
      · exact Nat.two_pow_pos _
    · omega

theorem peasant_lt {p d : Nat} (h : DegIs p d) : ∀ (k a b : Nat), b < 2 ^ d → peasant p d k a b < 2 ^ d
  | 0, _, _, _ => by simp [peasant]; exact Nat.two_pow_pos d
  | k + 1, a, b, hb => by
    unfold peasant
    apply Nat.xor_lt_two_pow
    · split
      · exact hb
      · exact Nat.two_pow_pos _
    · exact xt_lt h _ (peasant_lt h k (a / 2) b hb)

theorem pmod_clmulAux {p d : Nat} (h : DegIs p d) : ∀ (k a b : Nat), b < 2 ^ d →
    pmod p (clmulAux k a b) = peasant p d k a b
  | 0, _, _, _ => by
    simp only [clmulAux, peasant]
    exact pmod_of_lt h 0 (Nat.two_pow_pos d)
  | k + 1, a, b, hb => by
    unfold clmulAux peasant
    rw [pmod_xor h, pmod_two_mul h, pmod_clmulAux h k (a / 2) b hb]
    congr 1
    split
    · exact pmod_of_lt h b hb
    · exact pmod_of_lt h 0 (Nat.two_pow_pos d)

theorem xor_xor_xor_comm (a b c e : Nat) : (a ^^^ b) ^^^ (c ^^^ e) = (a ^^^ c) ^^^ (b ^^^ e) := by
  apply Nat.eq_of_testBit_eq; intro i
  simp only [Nat.testBit_xor]
  cases a.testBit i <;> cases b.testBit i <;> cases c.testBit i <;> cases e.testBit i <;> rfl

/-- C1 -/
theorem peasant_xor (p d : Nat) : ∀ (k a b c : Nat),
    peasant p d k a (b ^^^ c) = peasant p d k a b ^^^ peasant p d k a c
  | 0, _, _, _ => by simp [peasant]
  | k + 1, a, b, c => by
    unfold peasant
    rw [peasant_xor p d k, xt_xor]
    split
    · exact xor_xor_xor_comm _ _ _ _
    · simp

/-- C2 -/
theorem peasant_xt (p d : Nat) : ∀ (k a b : Nat),
    peasant p d k a (xt p d b) = xt p d (peasant p d k a b)
  | 0, _, _ => by simp [peasant, xt_zero]
  | k + 1, a, b => by
    unfold peasant
    rw [peasant_xt p d k, xt_xor]
    split
    · rfl
    · rw [xt_zero]

theorem peasant_zero_right (p d : Nat) : ∀ (k a : Nat), peasant p d k a 0 = 0
  | 0, _ => rfl
  | k + 1, a => by
    unfold peasant
    rw [peasant_zero_right p d k, xt_zero]; simp

theorem peasant_zero_left (p d : Nat) : ∀ (k b : Nat), peasant p d k 0 b = 0
  | 0, _ => rfl
  | k + 1, b => by
    unfold peasant
    simp [peasant_zero_left p d k, xt_zero]

/-- iterate -/
def iter (f : Nat → Nat) : Nat → Nat → Nat
  | 0, x => x
  | n + 1, x => iter f n (f x)

theorem iter_succ' (f : Nat → Nat) : ∀ (n x : Nat), iter f (n + 1) x = f (iter f n x)
  | 0, _ => rfl
  | n + 1, x => by
    show iter f (n + 1) (f x) = f (iter f n (f x))
    exact iter_succ' f n (f x)

theorem iter_add (f : Nat → Nat) : ∀ (m n x : Nat), iter f (m + n) x = iter f n (iter f m x)
  | 0, n, x => by simp [iter]
  | m + 1, n, x => by
    have : m + 1 + n = (m + n) + 1 := by omega
    rw [this]
    show iter f (m + n) (f x) = iter f n (iter f m (f x))
    exact iter_add f m n (f x)

theorem peasant_iter (p d k a : Nat) : ∀ (j b : Nat),
    peasant p d k a (iter (xt p d) j b) = iter (xt p d) j (peasant p d k a b)
  | 0, _ => rfl
  | j + 1, b => by
    rw [iter_succ', iter_succ', peasant_xt, peasant_iter p d k a j b]

theorem bit_decomp (a : Nat) : (if a % 2 = 1 then 1 else 0) ^^^ 2 * (a / 2) = a := by
  apply Nat.eq_of_testBit_eq; intro i
  cases i with
  | zero =>
    rw [Nat.testBit_xor, Nat.testBit_zero, Nat.testBit_zero, Nat.testBit_zero]
    have h2 : 2 * (a / 2) % 2 = 0 := by omega
    by_cases h : a % 2 = 1 <;> simp [h, h2]
  | succ i =>
    rw [Nat.testBit_succ, Nat.testBit_succ, Nat.xor_div_two]
    have h1 : (if a % 2 = 1 then 1 else 0) / 2 = 0 := by split <;> rfl
    have h2 : 2 * (a / 2) / 2 = a / 2 := by omega
    rw [h1, h2, Nat.zero_xor]

/-- C4: `a · 1 = a` -/
theorem peasant_one {p d : Nat} : ∀ (k a : Nat), k ≤ d → a < 2 ^ k → peasant p d k a 1 = a
  | 0, a, _, ha => by simp at ha; simp [peasant, ha]
  | k + 1, a, hk, ha => by
    unfold peasant
    have ha2 : a / 2 < 2 ^ k := by
      have : 2 ^ (k + 1) = 2 ^ k * 2 := Nat.pow_succ _ _
      omega
    rw [peasant_one k (a / 2) (by omega) ha2]
    have hx : xt p d (a / 2) = 2 * (a / 2) := by
      unfold xt
      have : (2 * (a / 2)).testBit d = false := by
        apply testBit_false_of_lt (n := k + 1) _ hk
        have : 2 * (a / 2) ≤ a := by omega
        omega
      simp [this]
    rw [hx]
    exact bit_decomp a

end Gzx.Proofs.GF2
