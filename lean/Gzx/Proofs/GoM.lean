/-
  Generic lemmas about the translator's loop combinator (`Gzx.GoM.loop`): a counted loop whose body
  reads `s[i]` is a fold over (a segment of) the list.  The kernel theorems in `Obligations/K*.lean`
  use them as follows (shape-robust: nothing below mentions the text of a generated body):
    1. a *body lemma* `∀ i < |s|, Gen.f_body s … i st = g s[i] st`, proved by unfolding the generated
       body once and normalising (`simp`/`omega`),
    2. one of the `loop_*` lemmas turns the loop into `foldC g` / `foldC2 g` over a list,
    3. an induction over that list relates the fold to the hand-written model.
-/
import Gzx.GoM
namespace Gzx.GoM

variable {σ ρ : Type}

/-- per-element fold with early exit -/
def foldC (g : Int → σ → Ctl σ ρ) : List Int → σ → Ctl σ ρ
  | [], st => .next st
  | v :: vs, st =>
    match g v st with
    | .next st' => foldC g vs st'
    | .brk s => .brk s
    | .ret r => .ret r
    | .panic f => .panic f

/-- the same, visiting elements 0, 2, 4, … -/
def foldC2 (g : Int → σ → Ctl σ ρ) : List Int → σ → Ctl σ ρ
  | [], st => .next st
  | [v], st =>
    match g v st with
    | .next st' => .next st'
    | .brk s => .brk s
    | .ret r => .ret r
    | .panic f => .panic f
  | v :: _ :: vs, st =>
    match g v st with
    | .next st' => foldC2 g vs st'
    | .brk s => .brk s
    | .ret r => .ret r
    | .panic f => .panic f

/-! ### checked reads -/

theorem idx_ofNat (s : List Int) (i : Nat) (h : i < s.length) : idx s (i : Int) = .ok s[i] := by
  unfold idx
  have : ¬ ((i : Int) < 0) := by omega
  simp only [this, if_false, Int.toNat_natCast, List.getElem?_eq_getElem h]

theorem idx_eq_ok (s : List Int) (i : Int) (h0 : 0 ≤ i) (h : i.toNat < s.length) : idx s i = .ok s[i.toNat] := by
  have := idx_ofNat s i.toNat h
  rwa [Int.toNat_of_nonneg h0] at this

theorem idx_neg (s : List Int) (i : Int) (h : i < 0) : idx s i = .error oob := by
  unfold idx; simp [h]

theorem idx_ge (s : List Int) (i : Int) (h : (s.length : Int) ≤ i) : idx s i = .error oob := by
  unfold idx
  have h0 : ¬ i < 0 := by omega
  have : s.length ≤ i.toNat := by omega
  simp [h0, List.getElem?_eq_none this]

theorem len_map (f : Nat → Int) (s : List Nat) : len (s.map f) = (s.length : Int) := by
  simp [len]

theorem slice_zero (xs : List Int) (b : Int) (h0 : 0 ≤ b) (h : b ≤ (xs.length : Nat)) :
    slice xs 0 b = .ok (xs.take b.toNat) := by
  unfold slice
  have : (0 : Int) ≤ 0 ∧ 0 ≤ b ∧ b ≤ (xs.length : Nat) := ⟨by omega, h0, h⟩
  simp [this]

theorem tmod_natCast_emod (n : Nat) (k : Int) : Int.tmod (n : Int) k = (n : Int) % k :=
  Int.tmod_eq_emod_of_nonneg (by omega)

/-! ### trip counts -/

theorem tripDown_one (a b : Int) : tripDown a b 1 = (a - b).toNat := by
  unfold tripDown; simp

theorem tripUp_one (a b : Int) : tripUp a b 1 = (b - a).toNat := by
  unfold tripUp; simp

theorem tripDown_two (a b : Int) : tripDown a b 2 = ((a - b + 1) / 2).toNat := by
  unfold tripDown
  by_cases h : 0 ≤ a - b + 1
  · rw [Int.tdiv_eq_ediv_of_nonneg (by omega)]; rfl
  · have h1 : (a - b + (2 - 1)).tdiv 2 ≤ 0 := by
      have e : a - b + (2 - 1) = -(b - a - 1) := by omega
      rw [e, Int.neg_tdiv]
      have := Int.tdiv_nonneg (a := b - a - 1) (b := 2) (by omega) (by decide)
      omega
    have h2 : (a - b + 1) / 2 ≤ 0 := by omega
    omega

theorem tripUp_two (a b : Int) : tripUp a b 2 = ((b - a + 1) / 2).toNat := by
  have := tripDown_two b a
  unfold tripUp tripDown at *
  exact this

/-! ### loops as folds -/

/-- `for i := m-1; i >= 0; i--` over the first `m` elements of `s`, last first -/
theorem loop_down1 (s : List Int) (body g : Int → σ → Ctl σ ρ)
    (hb : ∀ (i : Nat) (h : i < s.length) st, body (i : Int) st = g s[i] st) :
    ∀ (m : Nat), m ≤ s.length → ∀ st, loop body (-1) m ((m : Int) - 1) st = foldC g (s.take m).reverse st := by
  intro m
  induction m with
  | zero => intro _ st; simp [loop, foldC]
  | succ m ih =>
    intro hm st
    have hlt : m < s.length := by omega
    have e : ((m + 1 : Nat) : Int) - 1 = (m : Int) := by omega
    rw [e, List.take_succ_eq_append_getElem hlt, List.reverse_append]
    simp only [List.reverse_cons, List.reverse_nil, List.nil_append, List.cons_append, loop, foldC]
    rw [hb m hlt st]
    have e2 : (m : Int) + -1 = (m : Int) - 1 := by omega
    cases hg : g s[m] st with
    | next st' => simp only [e2]; exact ih (by omega) st'
    | brk s' => rfl
    | ret r => rfl
    | panic f => rfl

/-- `for i := m-1; i >= 0; i -= 2` over the first `m` elements of `s`: elements m-1, m-3, … -/
theorem loop_down2 (s : List Int) (body g : Int → σ → Ctl σ ρ)
    (hb : ∀ (i : Nat) (h : i < s.length) st, body (i : Int) st = g s[i] st) :
    ∀ (m : Nat), m ≤ s.length → ∀ st,
      loop body (-2) ((m + 1) / 2) ((m : Int) - 1) st = foldC2 g (s.take m).reverse st := by
  intro m
  induction m using Nat.strongRecOn with
  | _ m ih =>
    intro hm st
    match m, ih, hm with
    | 0, _, _ => simp [loop, foldC2]
    | 1, _, hm =>
      have hlt : 0 < s.length := by omega
      have e : (s.take 1).reverse = [s[0]] := by
        cases s with
        | nil => simp at hlt
        | cons a t => simp
      rw [e]
      show loop body (-2) 1 (((1 : Nat) : Int) - 1) st = _
      have e0 : (((1 : Nat) : Int) - 1) = ((0 : Nat) : Int) := by omega
      rw [e0]
      simp only [loop, foldC2]
      rw [hb 0 hlt st]
      cases g s[0] st <;> rfl
    | m + 2, ih, hm =>
      have h1 : m + 1 < s.length := by omega
      have h0 : m < s.length := by omega
      have e : (s.take (m + 2)).reverse = s[m + 1] :: s[m] :: (s.take m).reverse := by
        rw [List.take_succ_eq_append_getElem h1, List.take_succ_eq_append_getElem h0]
        simp
      have en : (m + 2 + 1) / 2 = (m + 1) / 2 + 1 := by omega
      have ei : ((m + 2 : Nat) : Int) - 1 = ((m + 1 : Nat) : Int) := by omega
      rw [e, en, ei]
      simp only [loop, foldC2]
      rw [hb (m + 1) h1 st]
      have e2 : ((m + 1 : Nat) : Int) + -2 = (m : Int) - 1 := by omega
      cases hg : g s[m + 1] st with
      | next st' => simp only [e2]; exact ih m (by omega) (by omega) st'
      | brk s' => rfl
      | ret r => rfl
      | panic f => rfl

/-- `for i := a; i < a + n; i++` over `n` elements of `s` starting at `a` -/
theorem loop_up1 (s : List Int) (body g : Int → σ → Ctl σ ρ)
    (hb : ∀ (i : Nat) (h : i < s.length) st, body (i : Int) st = g s[i] st) :
    ∀ (n a : Nat), a + n ≤ s.length → ∀ st,
      loop body 1 n (a : Int) st = foldC g ((s.drop a).take n) st := by
  intro n
  induction n with
  | zero => intro a _ st; simp [loop, foldC]
  | succ n ih =>
    intro a ha st
    have hlt : a < s.length := by omega
    have e : (s.drop a).take (n + 1) = s[a] :: (s.drop (a + 1)).take n := by
      rw [List.drop_eq_getElem_cons hlt, List.take_succ_cons]
    rw [e]
    simp only [loop, foldC]
    rw [hb a hlt st]
    have e2 : (a : Int) + 1 = ((a + 1 : Nat) : Int) := by omega
    cases hg : g s[a] st with
    | next st' => simp only [e2]; exact ih (a + 1) (by omega) st'
    | brk s' => rfl
    | ret r => rfl
    | panic f => rfl

/-- a loop whose body never depends on a slice: plain iteration (used with `decide` on small ranges) -/
theorem loop_zero (body : Int → σ → Ctl σ ρ) (d i : Int) (st : σ) : loop body d 0 i st = .next st := rfl

theorem loop_succ (body : Int → σ → Ctl σ ρ) (d : Int) (n : Nat) (i : Int) (st : σ) :
    loop body d (n + 1) i st =
      match body i st with
      | .next st' => loop body d n (i + d) st'
      | .brk st' => .brk st'
      | .ret r => .ret r
      | .panic f => .panic f := rfl


/-! ### the same with the trip count / start index as side conditions (for `rw` against generated code) -/

theorem loop_down1' (s : List Int) (g : Int → σ → Ctl σ ρ) (m : Nat) (hm : m ≤ s.length)
    {body : Int → σ → Ctl σ ρ} {n : Nat} {i0 : Int} {st : σ}
    (hb : ∀ (i : Nat) (h : i < s.length) st, body (i : Int) st = g s[i] st)
    (hn : n = m) (hi : i0 = (m : Int) - 1) :
    loop body (-1) n i0 st = foldC g (s.take m).reverse st := by
  subst hn hi; exact loop_down1 s body g hb n hm st

theorem loop_down2' (s : List Int) (g : Int → σ → Ctl σ ρ) (m : Nat) (hm : m ≤ s.length)
    {body : Int → σ → Ctl σ ρ} {n : Nat} {i0 : Int} {st : σ}
    (hb : ∀ (i : Nat) (h : i < s.length) st, body (i : Int) st = g s[i] st)
    (hn : n = (m + 1) / 2) (hi : i0 = (m : Int) - 1) :
    loop body (-2) n i0 st = foldC2 g (s.take m).reverse st := by
  subst hn hi; exact loop_down2 s body g hb m hm st

theorem loop_up1' (s : List Int) (g : Int → σ → Ctl σ ρ) (a k : Nat) (ha : a + k ≤ s.length)
    {body : Int → σ → Ctl σ ρ} {n : Nat} {i0 : Int} {st : σ}
    (hb : ∀ (i : Nat) (h : i < s.length) st, body (i : Int) st = g s[i] st)
    (hn : n = k) (hi : i0 = (a : Int)) :
    loop body 1 n i0 st = foldC g ((s.drop a).take k) st := by
  subst hn hi; exact loop_up1 s body g hb n a ha st

theorem take_pred_reverse {α} (s : List α) : (s.take (s.length - 1)).reverse = s.reverse.tail := by
  rw [List.tail_reverse, List.dropLast_eq_take]

/-! ### bit operators on non-negative values -/

theorem iand_natCast (a b : Nat) : GoVal.iand (a : Int) (b : Int) = ((a &&& b : Nat) : Int) := by
  unfold GoVal.iand
  have h1 : (a : Int) ≥ 0 := Int.natCast_nonneg a
  have h2 : (b : Int) ≥ 0 := Int.natCast_nonneg b
  simp only [h1, h2, if_true, Int.toNat_natCast]
  rfl

theorem ishr_natCast (a k : Nat) : GoVal.ishr (a : Int) (k : Int) = ((a >>> k : Nat) : Int) := by
  unfold GoVal.ishr
  simp only [Int.toNat_natCast]
  rfl

theorem ishl_natCast (a k : Nat) : GoVal.ishl (a : Int) (k : Int) = ((a <<< k : Nat) : Int) := by
  unfold GoVal.ishl
  simp only [Int.toNat_natCast]
  rfl

theorem wrap_natCast (bits n : Nat) : wrap bits (n : Int) = ((n % 2 ^ bits : Nat) : Int) := by
  unfold wrap
  rw [Int.natCast_emod, Int.natCast_pow]; rfl

theorem tdiv_natCast (a b : Nat) : Int.tdiv (a : Int) (b : Int) = ((a / b : Nat) : Int) := rfl
theorem tmod_natCast (a b : Nat) : Int.tmod (a : Int) (b : Int) = ((a % b : Nat) : Int) := (Int.ofNat_tmod a b).symm

/-- `idx` of a list of naturals read as Go integers = the model's checked read -/
theorem idx_bytes (ws : List Nat) (i : Nat) :
    idx (ws.map Int.ofNat) (i : Int) =
      match ws[i]? with
      | some w => .ok (w : Int)
      | none => .error oob := by
  by_cases h : i < ws.length
  · rw [idx_ofNat _ _ (by simpa using h)]
    simp [h]
  · rw [idx_ge _ _ (by simp; omega)]
    simp [List.getElem?_eq_none (by omega : ws.length ≤ i)]

/-! ### byte strings -/

/-- Go string / []byte argument built from a model byte list -/
def bytes (s : List Nat) : List Int := s.map Int.ofNat

theorem bytes_length (s : List Nat) : (bytes s).length = s.length := by simp [bytes]

theorem bytes_getElem (s : List Nat) (i : Nat) (h : i < (bytes s).length) :
    (bytes s)[i] = ((s[i]'(by simpa [bytes] using h) : Nat) : Int) := by
  simp [bytes]

theorem bytes_take (s : List Nat) (m : Nat) : (bytes s).take m = bytes (s.take m) := by
  simp [bytes, List.map_take]

theorem bytes_reverse (s : List Nat) : (bytes s).reverse = bytes s.reverse := by
  simp [bytes, List.map_reverse]

theorem wrap8_byte_sub (b k : Nat) (_hb : b < 256) (_hk : k ≤ 256) :
    wrap 8 ((b : Int) - (k : Int)) = (((b + (256 - k)) % 256 : Nat) : Int) := by
  unfold wrap
  omega

end Gzx.GoM
