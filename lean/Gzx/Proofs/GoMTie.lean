/-
  Lemmas for the kernel theorems of `Obligations/K16b*.lean` (work package c16tie): the regenerated
  BitMatrix / BitArray methods (`Gzx.Gen.K16b`, monadic target with the receiver's slice state threaded
  through) against the hand-written word model of `Model/Bits.lean`.

  Proof pattern of a kernel theorem (nothing below mentions the text of a generated definition):
    1. unfold the generated definition and its loop bodies,
    2. `loop_up_fold` / `loop_down_fold` turn a counted loop whose state is `R t` (`R` = the embedding of a
       model state, e.g. `words : List Nat → List Int`) into `ofRes ((List.range' a n).foldlM f t)`; the
       hypothesis about one iteration is proved by unfolding the body once,
    3. `updC` / `updR` / `idxC` / … rewrite one checked read-modify-write of the word slice into the model's
       `updWord` / `wordAt` / `setWord`; their side goals (index expression = model index, value expression
       = model value) are closed by `omega` after `gonorm` (truncated division, shifts, masks of
       non-negative values as `/`, `%`) — so `x>>5` for `x/32` or `x&31` for `x%32` in the Go source keeps
       the proofs.
-/
import Gzx.GoMTie
import Gzx.Proofs.GoM
import Gzx.Model.Bits
namespace Gzx.GoM
open Gzx Gzx.Bits Gzx.GoVal

/-- Go `[]uint32` contents of a model word list -/
abbrev words (ws : List Nat) : List Int := ws.map Int.ofNat

theorem words_length (ws : List Nat) : (words ws).length = ws.length := by simp [words]

theorem len_words (ws : List Nat) : len (words ws) = (ws.length : Int) := by simp [len, words]

/-! ### control values -/

variable {σ ρ τ : Type}

/-- a model step (`Res`) as the outcome of a loop body -/
def ofRes : Res σ → Ctl σ ρ
  | .ok s => .next s
  | .error f => .panic f

@[simp] theorem ofRes_ok (s : σ) : (ofRes (.ok s) : Ctl σ ρ) = .next s := rfl
@[simp] theorem ofRes_error (f : Fault) : (ofRes (.error f : Res σ) : Ctl σ ρ) = .panic f := rfl

theorem ofRes_thenR (r : Res σ) (k : σ → Res ρ) :
    (ofRes r : Ctl σ ρ).thenR k = match r with | .ok s => k s | .error e => .error e := by
  cases r <;> rfl

theorem ofRes_thenC {σ' : Type} (r : Res σ') (k : σ' → Ctl σ ρ) :
    (ofRes r : Ctl σ' ρ).thenC k = match r with | .ok s => k s | .error e => .panic e := by
  cases r <;> rfl

theorem ofRes_thenC_next (r : Res σ) : (ofRes r : Ctl σ ρ).thenC (fun st => Ctl.next st) = ofRes r := by
  cases r <;> rfl

@[simp] theorem next_thenR (s : σ) (k : σ → Res ρ) : (Ctl.next s : Ctl σ ρ).thenR k = k s := rfl
@[simp] theorem next_thenC {σ' : Type} (s : σ') (k : σ' → Ctl σ ρ) : (Ctl.next s : Ctl σ' ρ).thenC k = k s := rfl
@[simp] theorem brk_thenR (s : σ) (k : σ → Res ρ) : (Ctl.brk s : Ctl σ ρ).thenR k = k s := rfl
@[simp] theorem ret_thenR (r : ρ) (k : σ → Res ρ) : (Ctl.ret r : Ctl σ ρ).thenR k = .ok r := rfl
@[simp] theorem panic_thenR (f : Fault) (k : σ → Res ρ) : (Ctl.panic f : Ctl σ ρ).thenR k = .error f := rfl
@[simp] theorem panic_thenC {σ' : Type} (f : Fault) (k : σ' → Ctl σ ρ) : (Ctl.panic f : Ctl σ' ρ).thenC k = .panic f := rfl
@[simp] theorem ret_thenC {σ' : Type} (r : ρ) (k : σ' → Ctl σ ρ) : (Ctl.ret r : Ctl σ' ρ).thenC k = .ret r := rfl
@[simp] theorem brk_thenC {σ' : Type} (s : σ') (k : σ' → Ctl σ ρ) : (Ctl.brk s : Ctl σ' ρ).thenC k = k s := rfl
@[simp] theorem tryR_ok {α : Type} (a : α) (k : α → Res ρ) : tryR (.ok a) k = k a := rfl
@[simp] theorem tryR_error {α : Type} (f : Fault) (k : α → Res ρ) : tryR (.error f) k = .error f := rfl
@[simp] theorem tryC_ok {α : Type} (a : α) (k : α → Ctl σ ρ) : tryC (.ok a) k = k a := rfl
@[simp] theorem tryC_error {α : Type} (f : Fault) (k : α → Ctl σ ρ) : tryC (.error f) k = .panic f := rfl

/-! ### counted loops as monadic folds over the index range -/

/-- `for i := a; i < a+n; i++` whose body is a model step `f` on related states -/
theorem loop_up_fold (R : τ → σ) (body : Int → σ → Ctl σ ρ) (f : τ → Nat → Res τ) :
    ∀ (n a : Nat) (t : τ),
      (∀ i, a ≤ i → i < a + n → ∀ t, body (i : Int) (R t) = ofRes ((f t i).map R)) →
      loop body 1 n (a : Int) (R t) = ofRes (((List.range' a n).foldlM f t).map R) := by
  intro n
  induction n with
  | zero => intro a t _; simp [loop, List.range', pure, Except.pure, Except.map]
  | succ n ih =>
    intro a t hb
    rw [loop_succ, hb a (Nat.le_refl a) (by omega) t]
    simp only [List.range', List.foldlM, bind, Except.bind]
    cases hf : f t a with
    | error e => simp [Except.map]
    | ok t' =>
      simp only [Except.map, ofRes_ok]
      have e : (a : Int) + 1 = ((a + 1 : Nat) : Int) := by omega
      rw [e]
      exact ih (a + 1) t' (fun i h1 h2 => hb i (by omega) (by omega))

/-- the same with the trip count and start index as side conditions (for `rw` against generated code) -/
theorem loop_up_fold' (R : τ → σ) (f : τ → Nat → Res τ) (a k : Nat)
    {body : Int → σ → Ctl σ ρ} {n : Nat} {i0 : Int} {s : σ} (t : τ)
    (hs : s = R t) (hn : n = k) (hi : i0 = (a : Int))
    (hb : ∀ i, a ≤ i → i < a + k → ∀ t, body (i : Int) (R t) = ofRes ((f t i).map R)) :
    loop body 1 n i0 s = ofRes (((List.range' a k).foldlM f t).map R) := by
  subst hs hn hi; exact loop_up_fold R body f n a t hb

/-- `for i := m-1; i >= 0; i--`: indices m-1, …, 0 -/
theorem loop_down_fold (R : τ → σ) (body : Int → σ → Ctl σ ρ) (f : τ → Nat → Res τ) :
    ∀ (m : Nat) (t : τ),
      (∀ i, i < m → ∀ t, body (i : Int) (R t) = ofRes ((f t i).map R)) →
      loop body (-1) m ((m : Int) - 1) (R t) = ofRes (((List.range m).reverse.foldlM f t).map R) := by
  intro m
  induction m with
  | zero => intro t _; simp [loop, pure, Except.pure, Except.map]
  | succ m ih =>
    intro t hb
    have e : ((m + 1 : Nat) : Int) - 1 = (m : Int) := by omega
    rw [e, loop_succ, hb m (by omega) t, List.range_succ, List.reverse_append]
    simp only [List.reverse_cons, List.reverse_nil, List.nil_append, List.cons_append, List.foldlM, bind, Except.bind]
    cases hf : f t m with
    | error e => simp [Except.map]
    | ok t' =>
      simp only [Except.map, ofRes_ok]
      have e2 : (m : Int) + -1 = (m : Int) - 1 := by omega
      rw [e2]
      exact ih t' (fun i h => hb i (by omega))

theorem loop_down_fold' (R : τ → σ) (f : τ → Nat → Res τ) (m : Nat)
    {body : Int → σ → Ctl σ ρ} {n : Nat} {i0 : Int} {s : σ} (t : τ)
    (hs : s = R t) (hn : n = m) (hi : i0 = (m : Int) - 1)
    (hb : ∀ i, i < m → ∀ t, body (i : Int) (R t) = ofRes ((f t i).map R)) :
    loop body (-1) n i0 s = ofRes (((List.range m).reverse.foldlM f t).map R) := by
  subst hs hn hi; exact loop_down_fold R body f n t hb

/-! ### `for cond` loops -/

theorem whileLoop_succ (body : σ → Ctl σ ρ) (n : Nat) (st : σ) :
    whileLoop body (n + 1) st =
      match body st with
      | .next st' => whileLoop body n st'
      | .brk st' => .brk st'
      | .ret r => .ret r
      | .panic f => .panic f := rfl

/-- `for i := a; i < lim; i += d { step }` written as a `for cond` loop (non-constant stride `d ≥ 1`): `n` iterations -/
theorem whileLoop_stride (R : τ → σ) (f : τ → Nat → Res τ) (a d lim : Nat) (body : σ × Int → Ctl (σ × Int) ρ)
    (hin : ∀ j t, a + j * d < lim → body (R t, ((a + j * d : Nat) : Int)) =
      match f t j with
      | .ok t' => .next (R t', ((a + (j + 1) * d : Nat) : Int))
      | .error e => .panic e)
    (hout : ∀ j t, ¬ a + j * d < lim → body (R t, ((a + j * d : Nat) : Int)) = .brk (R t, ((a + j * d : Nat) : Int))) :
    ∀ (n j : Nat) (t : τ) (fuel : Nat), n < fuel → (∀ i, j ≤ i → i < j + n → a + i * d < lim) → ¬ (a + (j + n) * d < lim) →
      whileLoop body fuel (R t, ((a + j * d : Nat) : Int)) =
        match (List.range' j n).foldlM f t with
        | .ok t' => .brk (R t', ((a + (j + n) * d : Nat) : Int))
        | .error e => .panic e := by
  intro n
  induction n with
  | zero =>
    intro j t fuel hf _ hend
    obtain ⟨fuel, rfl⟩ : ∃ k, fuel = k + 1 := ⟨fuel - 1, by omega⟩
    rw [whileLoop_succ, hout j t (by simpa using hend)]
    simp [pure, Except.pure]
  | succ n ih =>
    intro j t fuel hf hlt hend
    obtain ⟨fuel, rfl⟩ : ∃ k, fuel = k + 1 := ⟨fuel - 1, by omega⟩
    rw [whileLoop_succ, hin j t (hlt j (Nat.le_refl j) (by omega))]
    simp only [List.range', List.foldlM, bind, Except.bind]
    cases hfj : f t j with
    | error e => rfl
    | ok t' =>
      simp only []
      have e : j + (n + 1) = (j + 1) + n := by omega
      rw [e]
      exact ih (j + 1) t' fuel (by omega) (fun i h1 h2 => hlt i (by omega) (by omega)) (by rw [← e]; exact hend)

/-! ### normal form of the integer arithmetic of generated code (`gonorm`) -/

theorem wrap_of_lt (bits : Nat) (e : Int) (h0 : 0 ≤ e) (h1 : e < 2 ^ bits) : wrap bits e = e := by
  unfold wrap; exact Int.emod_eq_of_lt h0 h1

theorem wrap_nonneg (bits : Nat) (e : Int) : 0 ≤ wrap bits e := by
  unfold wrap
  have hp : (0 : Int) < 2 ^ bits := Int.pow_pos (by decide)
  exact Int.emod_nonneg _ (by omega)

/-- `x >> k` of a non-negative value -/
theorem ishr_eq_div (e : Int) (k : Nat) (h : 0 ≤ e) : ishr e (k : Int) = e / (2 ^ k : Nat) := by
  obtain ⟨n, rfl⟩ := Int.eq_ofNat_of_zero_le h
  rw [ishr_natCast, Nat.shiftRight_eq_div_pow]; simp

/-- `x & (2^k - 1)` of a non-negative value -/
theorem iand_mask_eq_mod (e : Int) (k : Nat) (h : 0 ≤ e) : iand e ((2 ^ k - 1 : Nat) : Int) = e % (2 ^ k : Nat) := by
  obtain ⟨n, rfl⟩ := Int.eq_ofNat_of_zero_le h
  rw [iand_natCast, Nat.and_two_pow_sub_one_eq_mod]; simp

theorem ishr5 (e : Int) (h : 0 ≤ e) : ishr e 5 = e / 32 := ishr_eq_div e 5 h
theorem iand31 (e : Int) (h : 0 ≤ e) : iand e 31 = e % 32 := iand_mask_eq_mod e 5 h
theorem iand7 (e : Int) (h : 0 ≤ e) : iand e 7 = e % 8 := iand_mask_eq_mod e 3 h
theorem ishr3 (e : Int) (h : 0 ≤ e) : ishr e 3 = e / 8 := ishr_eq_div e 3 h

/-- `simp (disch := omega) only [gonorm…]`: truncated division / remainder, `>>5`, `&31`, conversions of small
    non-negative values become `/`, `%` on `Int`, which `omega` understands -/
macro "gonorm" : tactic =>
  `(tactic| simp (disch := omega) only [Int.tdiv_eq_ediv_of_nonneg, Int.tmod_eq_emod_of_nonneg, ishr5, iand31, ishr3, iand7,
      wrap_of_lt, len_words])

macro "gonorm" " at " h:ident : tactic =>
  `(tactic| simp (disch := omega) only [Int.tdiv_eq_ediv_of_nonneg, Int.tmod_eq_emod_of_nonneg, ishr5, iand31, ishr3, iand7,
      wrap_of_lt, len_words] at $h:ident)

/-! ### bit operators on values of `uint32` words -/

theorem ior_natCast (a b : Nat) : ior (a : Int) (b : Int) = ((a ||| b : Nat) : Int) := by
  unfold ior inot iand
  have h1 : ¬ (-(a : Int) - 1 ≥ 0) := by omega
  have h2 : ¬ (-(b : Int) - 1 ≥ 0) := by omega
  have e1 : (-(-(a : Int) - 1) - 1).toNat = a := by omega
  have e2 : (-(-(b : Int) - 1) - 1).toNat = b := by omega
  simp only [h1, h2, if_false, e1, e2]
  show -(-((a ||| b : Nat) : Int) - 1) - 1 = _
  omega

theorem or_eq_xor_add_and (a : Nat) : ∀ b : Nat, a ||| b = (a ^^^ b) + (a &&& b) := by
  induction a using Nat.strongRecOn with
  | _ a ih =>
    intro b
    by_cases ha : a = 0
    · subst ha; simp
    · have hlt : a / 2 < a := Nat.div_lt_self (by omega) (by decide)
      have hr := ih (a / 2) hlt (b / 2)
      rw [← Nat.or_div_two, ← Nat.xor_div_two, ← Nat.and_div_two] at hr
      have ho := @Nat.or_mod_two_eq_one a b
      have hx := @Nat.xor_mod_two_eq_one a b
      have hn := @Nat.and_mod_two_eq_one a b
      have d1 := Nat.div_add_mod (a ||| b) 2
      have d2 := Nat.div_add_mod (a ^^^ b) 2
      have d3 := Nat.div_add_mod (a &&& b) 2
      have m1 := Nat.mod_two_eq_zero_or_one (a ||| b)
      have m2 := Nat.mod_two_eq_zero_or_one (a ^^^ b)
      have m3 := Nat.mod_two_eq_zero_or_one (a &&& b)
      have ma := Nat.mod_two_eq_zero_or_one a
      have mb := Nat.mod_two_eq_zero_or_one b
      omega

theorem ixor_natCast (a b : Nat) : ixor (a : Int) (b : Int) = ((a ^^^ b : Nat) : Int) := by
  unfold ixor
  rw [ior_natCast, iand_natCast, or_eq_xor_add_and]
  omega

/-- `^x` on uint32 -/
theorem not32_natCast (a : Nat) (h : a < W32) : wrap 32 (inot (a : Int)) = ((not32 a : Nat) : Int) := by
  have hx : a ^^^ 4294967295 = 4294967295 - a := by
    have h2 := or_eq_xor_add_and a 4294967295
    have h3 : a ||| 4294967295 = 4294967295 := by
      apply Nat.eq_of_testBit_eq; intro i
      have e : (4294967295 : Nat) = 2 ^ 32 - 1 := by decide
      rw [Nat.testBit_or, e, Nat.testBit_two_pow_sub_one]
      by_cases hi : i < 32
      · simp [hi]
      · have h32 : (2 : Nat) ^ 32 ≤ 2 ^ i := Nat.pow_le_pow_right (by decide) (by omega)
        have hlt : a < 2 ^ i := Nat.lt_of_lt_of_le h h32
        have : a.testBit i = false := Nat.testBit_lt_two_pow hlt
        simp [hi, this]
    have h4 : a &&& 4294967295 = a := by
      have e : (4294967295 : Nat) = 2 ^ 32 - 1 := by decide
      rw [e, Nat.and_two_pow_sub_one_eq_mod]; exact Nat.mod_eq_of_lt h
    omega
  unfold wrap inot not32
  rw [hx]
  unfold W32 at h
  omega

/-- `-x` on uint32 -/
theorem neg32_natCast (v : Nat) : wrap 32 (-(v : Int)) = ((neg32 v : Nat) : Int) := by
  unfold wrap neg32 W32
  omega

/-- `1 << k` for a bit position of a word -/
theorem bit_natCast (e : Int) (k : Nat) (hk : e = k) (h32 : k < 32) :
    wrap 32 (ishl 1 e) = ((1 <<< k : Nat) : Int) := by
  subst hk
  have e1 : (1 : Int) = ((1 : Nat) : Int) := rfl
  rw [e1, ishl_natCast, wrap_natCast]
  congr 1
  apply Nat.mod_eq_of_lt
  rw [Nat.one_shiftLeft]
  exact Nat.pow_lt_pow_right (by decide) h32

theorem ishl_one (k : Nat) : ishl 1 (k : Int) = ((1 <<< k : Nat) : Int) := by
  have e1 : (1 : Int) = ((1 : Nat) : Int) := rfl
  rw [e1, ishl_natCast]

theorem one_shl_lt (k : Nat) (h : k < 32) : 1 <<< k < W32 := by
  rw [Nat.one_shiftLeft]; exact Nat.pow_lt_pow_right (by decide) h

/-- a shift by a non-negative signed count does not panic -/
theorem shl_of_nonneg (a e : Int) (h : 0 ≤ e) : shl a e = .ok (ishl a e) := by
  unfold shl; simp [Int.not_lt.mpr h]

theorem shr_of_nonneg (a e : Int) (h : 0 ≤ e) : shr a e = .ok (ishr a e) := by
  unfold shr; simp [Int.not_lt.mpr h]

theorem natCast_bne_zero (n : Nat) : (((n : Int) != 0) : Bool) = (n != 0) := by
  cases h : (n != 0) <;> simp_all

/-- the range mask of `SetRange` (`int` arithmetic, then `uint32(mask)`) -/
theorem rangeMask_cast (fb lb : Nat) (h1 : fb ≤ lb + 1) (eF eL : Int) (hF : eF = fb) (hL : eL = lb) :
    wrap 32 (ishl 2 eL - ishl 1 eF) = (((2 <<< lb - 1 <<< fb) % W32 : Nat) : Int) := by
  subst hF hL
  have e2 : (2 : Int) = ((2 : Nat) : Int) := rfl
  have e1 : (1 : Int) = ((1 : Nat) : Int) := rfl
  rw [e2, e1, ishl_natCast, ishl_natCast]
  have hle : 1 <<< fb ≤ 2 <<< lb := by
    rw [Nat.one_shiftLeft, Nat.shiftLeft_eq, ← Nat.pow_succ']
    exact Nat.pow_le_pow_right (by decide) h1
  rw [← Int.natCast_sub hle, wrap_natCast]
  rfl

/-- the same computed in `uint32` (as in `IsRange`) -/
theorem rangeMask_cast32 (fb lb : Nat) (h1 : fb ≤ lb + 1) (eF eL : Int) (hF : eF = fb) (hL : eL = lb) :
    wrap 32 (wrap 32 (ishl 2 eL) - wrap 32 (ishl 1 eF)) = (((2 <<< lb - 1 <<< fb) % W32 : Nat) : Int) := by
  rw [← rangeMask_cast fb lb h1 eF eL hF hL]
  unfold wrap
  exact (Int.sub_emod _ _ _).symm

/-! ### checked reads / writes of the word slice -/

theorem idx_words (ws : List Nat) (e : Int) (n : Nat) (h : e = n) :
    idx (words ws) e = (wordAt ws n).map Int.ofNat := by
  subst h
  rw [idx_bytes]; unfold wordAt
  cases ws[n]? <;> rfl

theorem setIdx_words (ws : List Nat) (e v : Int) (n u : Nat) (h : e = n) (hv : v = u) :
    setIdx (words ws) e v = (setWord ws n u).map words := by
  subst h hv
  unfold setIdx setWord
  have h0 : ¬ ((n : Int) < 0) := by omega
  simp only [h0, if_false, Int.toNat_natCast, words_length]
  by_cases hl : n < ws.length
  · simp [hl, Except.map, words, List.map_set]
  · simp [hl, Except.map, oob]

/-- `b.bits[e] op= …` inside a loop body: read, combine, write back -/
theorem updC (ws : List Nat) (n : Nat) (f : Nat → Nat) {e e' : Int} {g : Int → Int} (k : List Int → Ctl σ ρ)
    (he : e = n) (he' : e' = n) (hg : ∀ w : Nat, g (w : Int) = ((f w : Nat) : Int)) :
    tryC (idx (words ws) e) (fun t => tryC (setIdx (words ws) e' (g t)) k) =
      match updWord ws n f with
      | .ok ws' => k (words ws')
      | .error er => .panic er := by
  rw [idx_words ws e n he]
  unfold wordAt updWord
  cases hw : ws[n]? with
  | none => rfl
  | some w =>
    simp only [Except.map, tryC_ok]
    rw [show Int.ofNat w = (w : Int) from rfl, setIdx_words ws e' (g w) n (f w) he' (hg w)]
    have hl : n < ws.length := by
      have := List.getElem?_eq_some_iff.mp hw; exact this.1
    simp [setWord, hl, Except.map]

/-- the same at function level -/
theorem updR (ws : List Nat) (n : Nat) (f : Nat → Nat) {e e' : Int} {g : Int → Int} (k : List Int → Res ρ)
    (he : e = n) (he' : e' = n) (hg : ∀ w : Nat, g (w : Int) = ((f w : Nat) : Int)) :
    tryR (idx (words ws) e) (fun t => tryR (setIdx (words ws) e' (g t)) k) =
      match updWord ws n f with
      | .ok ws' => k (words ws')
      | .error er => .error er := by
  rw [idx_words ws e n he]
  unfold wordAt updWord
  cases hw : ws[n]? with
  | none => rfl
  | some w =>
    simp only [Except.map, tryR_ok]
    rw [show Int.ofNat w = (w : Int) from rfl, setIdx_words ws e' (g w) n (f w) he' (hg w)]
    have hl : n < ws.length := by
      have := List.getElem?_eq_some_iff.mp hw; exact this.1
    simp [setWord, hl, Except.map]

/-- a checked read inside a loop body -/
theorem idxC (ws : List Nat) (n : Nat) {e : Int} (k : Int → Ctl σ ρ) (he : e = n) :
    tryC (idx (words ws) e) k =
      match wordAt ws n with
      | .ok w => k (w : Int)
      | .error er => .panic er := by
  rw [idx_words ws e n he]; cases wordAt ws n <;> rfl

theorem idxR (ws : List Nat) (n : Nat) {e : Int} (k : Int → Res ρ) (he : e = n) :
    tryR (idx (words ws) e) k =
      match wordAt ws n with
      | .ok w => k (w : Int)
      | .error er => .error er := by
  rw [idx_words ws e n he]; cases wordAt ws n <;> rfl

/-- a checked write inside a loop body -/
theorem setC (ws : List Nat) (n u : Nat) {e v : Int} (k : List Int → Ctl σ ρ) (he : e = n) (hv : v = u) :
    tryC (setIdx (words ws) e v) k =
      match setWord ws n u with
      | .ok ws' => k (words ws')
      | .error er => .panic er := by
  rw [setIdx_words ws e v n u he hv]; cases setWord ws n u <;> rfl

theorem setR (ws : List Nat) (n u : Nat) {e v : Int} (k : List Int → Res ρ) (he : e = n) (hv : v = u) :
    tryR (setIdx (words ws) e v) k =
      match setWord ws n u with
      | .ok ws' => k (words ws')
      | .error er => .error er := by
  rw [setIdx_words ws e v n u he hv]; cases setWord ws n u <;> rfl

/-- `make([]uint32, n)` -/
theorem mk_words (e : Int) (n : Nat) (h : e = n) : mk e = .ok (words (List.replicate n 0)) := by
  subst h
  unfold mk
  have h0 : ¬ ((n : Int) < 0) := by omega
  simp [h0, words]

/-! ### faults of the word primitives are panics (never the checked `illegalArg`) -/

/-- a fault that is not Go's checked error -/
def NotArg (e : Fault) : Prop := e ≠ .illegalArg

theorem foldlM_error {α : Type} (P : Fault → Prop) (f : τ → α → Res τ)
    (hf : ∀ t a e, f t a = .error e → P e) :
    ∀ (l : List α) (t : τ) (e : Fault), l.foldlM f t = .error e → P e := by
  intro l
  induction l with
  | nil => intro t e h; simp [List.foldlM, pure, Except.pure] at h
  | cons a l ih =>
    intro t e h
    simp only [List.foldlM, bind, Except.bind] at h
    cases hfa : f t a with
    | error e' => rw [hfa] at h; injection h with h; subst h; exact hf t a _ hfa
    | ok t' => rw [hfa] at h; exact ih t' e h

theorem updWord_error {ws : List Nat} {i : Nat} {f : Nat → Nat} {e : Fault} (h : updWord ws i f = .error e) : NotArg e := by
  unfold updWord at h
  cases hw : ws[i]? <;> rw [hw] at h <;> cases h
  intro h'; cases h'

theorem wordAt_error {ws : List Nat} {i : Nat} {e : Fault} (h : wordAt ws i = .error e) : NotArg e := by
  unfold wordAt at h
  cases hw : ws[i]? <;> rw [hw] at h <;> cases h
  intro h'; cases h'

theorem setWord_error {ws : List Nat} {i v : Nat} {e : Fault} (h : setWord ws i v = .error e) : NotArg e := by
  unfold setWord at h
  split at h <;> cases h
  intro h'; cases h'

/-! ### loops that rewrite every word -/

/-- a loop that applies `g` to the words 0 … n-1, one after the other -/
theorem foldlM_updWord_prefix (g : Nat → Nat) (ws : List Nat) :
    ∀ n, n ≤ ws.length →
      (List.range' 0 n).foldlM (fun ws i => updWord ws i g) ws = .ok ((ws.take n).map g ++ ws.drop n) := by
  intro n
  induction n with
  | zero => intro _; simp [pure, Except.pure]
  | succ n ih =>
    intro h
    rw [List.range'_1_concat, List.foldlM_append, ih (by omega)]
    simp only [bind, Except.bind, List.foldlM, Nat.zero_add, pure, Except.pure]
    have hl : n < ((ws.take n).map g ++ ws.drop n).length := by simp; omega
    unfold updWord
    rw [List.getElem?_eq_getElem hl]
    simp only []
    congr 1
    apply List.ext_getElem
    · simp; omega
    · intro i h1 h2
      simp only [List.getElem_set, List.getElem_append, List.length_map, List.length_take, List.getElem_map, List.getElem_take, List.getElem_drop]
      by_cases hi : i < n
      · have : ¬ n = i := by omega
        simp [this, hi, Nat.min_eq_left (by omega : n ≤ ws.length), Nat.min_eq_left (by omega : n + 1 ≤ ws.length)]
        omega
      · by_cases hn : n = i
        · subst hn
          simp [Nat.min_eq_left (by omega : n ≤ ws.length), Nat.min_eq_left (by omega : n + 1 ≤ ws.length)]
        · have h3 : ¬ i < n + 1 := by omega
          simp [hn, hi, h3, Nat.min_eq_left (by omega : n ≤ ws.length), Nat.min_eq_left (by omega : n + 1 ≤ ws.length)]
          congr 1; omega

theorem foldlM_updWord_all (g : Nat → Nat) (ws : List Nat) :
    (List.range' 0 ws.length).foldlM (fun ws i => updWord ws i g) ws = .ok (ws.map g) := by
  rw [foldlM_updWord_prefix g ws ws.length (Nat.le_refl _)]; simp

/-- `ws[i] = v` as a read-modify-write that ignores what it read (same index check) -/
theorem setWord_eq_updWord (ws : List Nat) (i v : Nat) : setWord ws i v = updWord ws i (fun _ => v) := by
  unfold setWord updWord
  by_cases h : i < ws.length
  · simp [h]
  · simp [h]

/-- Go `copy` on word slices is the model's `copyInto` -/
theorem copyL_words (d s : List Nat) : copyL (words d) (words s) = words (copyInto d s) := by
  simp [copyL, copyInto, words, List.map_take, List.map_drop]

/-! ### the specified `math/bits` functions are the model's -/

theorem revBits_eq (n w : Nat) : GoM.revBits n w = Bits.revBits n w := by
  induction n generalizing w with
  | zero => rfl
  | succ n ih => simp [GoM.revBits, Bits.revBits, ih]

theorem rev32_natCast (w : Nat) : GoM.rev32 (w : Int) = ((Bits.rev32 w : Nat) : Int) := by
  simp [GoM.rev32, Bits.rev32, revBits_eq]

theorem ctz_eq (n w : Nat) : GoM.ctz n w = Bits.ctz n w := by
  induction n generalizing w with
  | zero => rfl
  | succ n ih => simp [GoM.ctz, Bits.ctz, ih]

theorem tz32_natCast (w : Nat) : GoM.tz32 (w : Int) = ((Bits.tz32 w : Nat) : Int) := by
  simp [GoM.tz32, Bits.tz32, ctz_eq]


/-! ### what a regenerated method must return for a result of the word model -/

/-- what a regenerated void method on the word slice must return for a model result -/
def expW (r : Res WMat) : Res (List Int) := r.map (fun m' => words m'.words)

/-- … a method with an `error` result: `illegalArg` is the Go error (state unchanged), other faults are panics -/
def expEW (orig : List Nat) : Res WMat → Res (Bool × List Int)
  | .ok m' => .ok (false, words m'.words)
  | .error .illegalArg => .ok (true, words orig)
  | .error e => .error e

theorem expEW_error (o : List Nat) {e : Fault} (h : NotArg e) : expEW o (.error e) = .error e := by
  cases e <;> first | rfl | exact absurd rfl h

/-- resolve the argument checks: every `if` whose condition `omega` decides from the context -/
macro "resolve_ifs" : tactic =>
  `(tactic| simp (disch := omega) only [Bool.or_eq_true, Bool.and_eq_true, decide_eq_true_eq, bne_iff_ne, beq_iff_eq, ne_eq,
      if_pos, if_neg])

end Gzx.GoM
