/-
  Helper lemmas for C19 (decision logic of checkAndNudgePoints / SampleGridWithTransform).
  Core Lean only.
-/
import Gzx.Model.GridSampler
namespace Gzx.GridSampler
open Gzx Gzx.Perspective

/-! ### pointwise list relation (core has no `List.Forall₂`) -/

inductive All2 {α β : Type} (R : α → β → Prop) : List α → List β → Prop
  | nil : All2 R [] []
  | cons {a b as bs} : R a b → All2 R as bs → All2 R (a :: as) (b :: bs)

namespace All2
variable {α β γ : Type} {R : α → β → Prop}

theorem refl' {R : α → α → Prop} (h : ∀ a, R a a) : ∀ l, All2 R l l
  | [] => .nil
  | a :: l => .cons (h a) (refl' h l)

theorem imp {S : α → β → Prop} (h : ∀ a b, R a b → S a b) {l l'} (H : All2 R l l') : All2 S l l' := by
  induction H with
  | nil => exact .nil
  | cons hab _ ih => exact .cons (h _ _ hab) ih

theorem append {l1 l1' l2 l2'} (H1 : All2 R l1 l1') (H2 : All2 R l2 l2') : All2 R (l1 ++ l2) (l1' ++ l2') := by
  induction H1 with
  | nil => simpa using H2
  | cons hab _ ih => exact .cons hab ih

theorem reverse {l l'} (H : All2 R l l') : All2 R l.reverse l'.reverse := by
  induction H with
  | nil => exact .nil
  | cons hab _ ih =>
    simp only [List.reverse_cons]
    exact append ih (.cons hab .nil)

theorem comp {S : β → γ → Prop} {T : α → γ → Prop} (h : ∀ a b c, R a b → S b c → T a c)
    {l l' l''} (H1 : All2 R l l') (H2 : All2 S l' l'') : All2 T l l'' := by
  induction H1 generalizing l'' with
  | nil => cases H2; exact .nil
  | cons hab _ ih =>
    cases H2 with
    | cons hbc H2' => exact .cons (h _ _ _ hab hbc) (ih H2')

theorem length_eq {l l'} (H : All2 R l l') : l.length = l'.length := by
  induction H with
  | nil => rfl
  | cons _ _ ih => simp [ih]

theorem head? {l l'} (H : All2 R l l') {a} (ha : l.head? = some a) : ∃ b, l'.head? = some b ∧ R a b := by
  cases H with
  | nil => simp at ha
  | cons hab _ => simp at ha; subst ha; exact ⟨_, rfl, hab⟩

theorem getLast? {l l'} (H : All2 R l l') {a} (ha : l.getLast? = some a) : ∃ b, l'.getLast? = some b ∧ R a b := by
  have := H.reverse.head? (a := a) (by simpa [List.head?_reverse] using ha)
  simpa [List.head?_reverse] using this

theorem get {l l'} (H : All2 R l l') (i : Nat) (h1 : i < l.length) (h2 : i < l'.length) : R l[i] l'[i] := by
  induction H generalizing i with
  | nil => simp at h1
  | cons hab _ ih =>
    cases i with
    | zero => simpa using hab
    | succ i => simpa using ih i (by simpa using h1) (by simpa using h2)

theorem forall_mem {P : α → Prop} {l l'} (H : All2 R l l') (hP : ∀ a b, R a b → P a) : ∀ a ∈ l, P a := by
  induction H with
  | nil => intro a ha; simp at ha
  | cons hab _ ih =>
    intro a ha
    rcases List.mem_cons.mp ha with rfl | h
    · exact hP _ _ hab
    · exact ih a h

end All2

/-! ### truncation -/

theorem trunc_intCast (k : Int) : trunc (k : Rat) = k := by simp [trunc]

theorem trunc_zero : trunc (0 : Rat) = 0 := by decide

/-- for non-negative coordinates Go's `int()` is the floor of the property statement -/
theorem trunc_eq_floor_of_nonneg {x : Rat} (hx : 0 ≤ x) : trunc x = x.floor := by
  have hn : 0 ≤ x.num := Rat.num_nonneg.mpr hx
  unfold trunc Rat.floor
  split
  · next h => rw [h]; simp
  · exact Int.tdiv_eq_ediv_of_nonneg hn

/-! ### one point -/

/-- pixel indices of the point are inside the image -/
def inImage (w h : Int) (p : Pt) : Prop :=
  0 ≤ trunc p.1 ∧ trunc p.1 < w ∧ 0 ≤ trunc p.2 ∧ trunc p.2 < h

instance (w h : Int) (p : Pt) : Decidable (inImage w h p) := by unfold inImage; infer_instance

/-- what the nudge does to one coordinate: pixel index `-1 ↦ 0`, `n ↦ n-1`, anything else stays -/
def clampCoord (n : Int) (x : Rat) : Rat := (nudgeCoord n (n - 1) x).1

def clampPt (w h : Int) (p : Pt) : Pt := (clampCoord w p.1, clampCoord h p.2)

def needsNudge (w h : Int) (p : Pt) : Bool := (nudgeCoord w (w - 1) p.1).2 || (nudgeCoord h (h - 1) p.2).2

theorem clampCoord_low {n : Int} {x : Rat} (h : trunc x = -1) : clampCoord n x = 0 := by
  simp [clampCoord, nudgeCoord, h]

theorem clampCoord_high {n : Int} {x : Rat} (h1 : trunc x ≠ -1) (h : trunc x = n) :
    clampCoord n x = ((n - 1 : Int) : Rat) := by
  subst h
  simp [clampCoord, nudgeCoord, h1]

theorem clampCoord_inside {n : Int} {x : Rat} (h0 : 0 ≤ trunc x) (h1 : trunc x < n) : clampCoord n x = x := by
  have a : trunc x ≠ -1 := by omega
  have b : trunc x ≠ n := by omega
  simp [clampCoord, nudgeCoord, a, b]

theorem nudgeCoord_false {n t : Int} {x : Rat} (h : (nudgeCoord n t x).2 = false) : (nudgeCoord n t x).1 = x := by
  unfold nudgeCoord at *
  split at h
  · simp at h
  · split at h
    · simp at h
    · simp [*]

theorem trunc_clampCoord {n : Int} (hn : 1 ≤ n) {x : Rat} (hlo : -1 ≤ trunc x) (hhi : trunc x ≤ n) :
    0 ≤ trunc (clampCoord n x) ∧ trunc (clampCoord n x) < n := by
  by_cases h1 : trunc x = -1
  · rw [clampCoord_low h1, trunc_zero]; omega
  · by_cases h2 : trunc x = n
    · rw [clampCoord_high h1 h2, trunc_intCast]; omega
    · rw [clampCoord_inside (by omega) (by omega)]; omega

theorem not_beyond_iff {w h : Int} {p : Pt} :
    beyond w h p = false ↔ (-1 ≤ trunc p.1 ∧ trunc p.1 ≤ w ∧ -1 ≤ trunc p.2 ∧ trunc p.2 ≤ h) := by
  simp only [beyond, Bool.or_eq_false_iff, decide_eq_false_iff_not]
  omega

theorem inImage_clampPt {w h : Int} (hw : 1 ≤ w) (hh : 1 ≤ h) {p : Pt} (hb : beyond w h p = false) :
    inImage w h (clampPt w h p) := by
  have := not_beyond_iff.mp hb
  have a := trunc_clampCoord hw this.1 this.2.1
  have b := trunc_clampCoord hh this.2.2.1 this.2.2.2
  exact ⟨a.1, a.2, b.1, b.2⟩

theorem clampPt_of_inImage {w h : Int} {p : Pt} (hp : inImage w h p) : clampPt w h p = p := by
  obtain ⟨a, b, c, d⟩ := hp
  simp [clampPt, clampCoord_inside a b, clampCoord_inside c d]

theorem not_beyond_of_inImage {w h : Int} {p : Pt} (hp : inImage w h p) : beyond w h p = false := by
  obtain ⟨a, b, c, d⟩ := hp
  exact not_beyond_iff.mpr ⟨by omega, by omega, by omega, by omega⟩

theorem needsNudge_false_of_inImage {w h : Int} {p : Pt} (hp : inImage w h p) : needsNudge w h p = false := by
  obtain ⟨a, b, c, d⟩ := hp
  have a1 : trunc p.1 ≠ -1 := by omega
  have a2 : trunc p.1 ≠ w := by omega
  have c1 : trunc p.2 ≠ -1 := by omega
  have c2 : trunc p.2 ≠ h := by omega
  simp [needsNudge, nudgeCoord, a1, a2, c1, c2]

theorem clampPt_idem {w h : Int} (hw : 1 ≤ w) (hh : 1 ≤ h) {p : Pt} (hb : beyond w h p = false) :
    clampPt w h (clampPt w h p) = clampPt w h p :=
  clampPt_of_inImage (inImage_clampPt hw hh hb)

theorem clampPt_of_not_needs {w h : Int} {p : Pt} (hn : needsNudge w h p = false) : clampPt w h p = p := by
  simp only [needsNudge, Bool.or_eq_false_iff] at hn
  simp [clampPt, clampCoord, nudgeCoord_false hn.1, nudgeCoord_false hn.2]

/-! ### one pass -/

/-- what a pass may do to a point: nothing, or (only if it is at most one pixel index outside) pull it in -/
def Moved (w h : Int) (p p' : Pt) : Prop := p' = p ∨ (beyond w h p = false ∧ p' = clampPt w h p)

theorem nudgePass_cons (w h : Int) (p : Pt) (rest : List Pt) :
    nudgePass w h (p :: rest) =
      if beyond w h p then .error .notFound
      else if needsNudge w h p then
        (match nudgePass w h rest with
         | .ok rest' => .ok (clampPt w h p :: rest')
         | .error e => .error e)
      else .ok (p :: rest) := by
  simp only [nudgePass, nudgePassG, needsNudge, clampPt, clampCoord]
  rfl

theorem nudgePass_error {w h : Int} : ∀ {ps : List Pt} {e}, nudgePass w h ps = .error e → e = .notFound
  | [], e, hk => by simp [nudgePass, nudgePassG] at hk
  | p :: rest, e, hk => by
    rw [nudgePass_cons] at hk
    split at hk
    · cases hk; rfl
    · split at hk
      · cases hr : nudgePass w h rest with
        | ok r => rw [hr] at hk; cases hk
        | error e' => rw [hr] at hk; cases hk; exact nudgePass_error hr
      · cases hk

theorem nudgePass_ok {w h : Int} : ∀ {ps ps' : List Pt}, nudgePass w h ps = .ok ps' → All2 (Moved w h) ps ps'
  | [], ps', hk => by simp [nudgePass, nudgePassG] at hk; subst hk; exact .nil
  | p :: rest, ps', hk => by
    rw [nudgePass_cons] at hk
    split at hk
    · cases hk
    · next hb =>
      have hb' : beyond w h p = false := by simpa using hb
      split at hk
      · cases hr : nudgePass w h rest with
        | ok r =>
          rw [hr] at hk; cases hk
          exact .cons (.inr ⟨hb', rfl⟩) (nudgePass_ok hr)
        | error e' => rw [hr] at hk; cases hk
      · cases hk
        exact All2.refl' (fun a => .inl rfl) _

/-- the point a pass starts with is always examined: NotFound if beyond, else it ends up clamped -/
theorem nudgePass_head {w h : Int} {p : Pt} {rest ps' : List Pt} (hok : nudgePass w h (p :: rest) = .ok ps') :
    beyond w h p = false ∧ ps'.head? = some (clampPt w h p) := by
  rw [nudgePass_cons] at hok
  split at hok
  · cases hok
  · next hb =>
    have hb' : beyond w h p = false := by simpa using hb
    split at hok
    · cases hr : nudgePass w h rest with
      | ok r => rw [hr] at hok; cases hok; exact ⟨hb', rfl⟩
      | error e' => rw [hr] at hok; cases hok
    · next hn =>
      cases hok
      have hn' : needsNudge w h p = false := by simpa using hn
      exact ⟨hb', by simp [clampPt_of_not_needs hn']⟩

theorem nudgePass_head_beyond {w h : Int} {p : Pt} {rest : List Pt} (hb : beyond w h p = true) :
    nudgePass w h (p :: rest) = .error .notFound := by
  rw [nudgePass_cons]; simp [hb]

/-- a pass over points none of which is beyond succeeds, and none of the results is beyond -/
theorem nudgePass_within {w h : Int} (hw : 1 ≤ w) (hh : 1 ≤ h) :
    ∀ ps : List Pt, (∀ p ∈ ps, beyond w h p = false) →
      ∃ ps', nudgePass w h ps = .ok ps' ∧ ∀ p ∈ ps', beyond w h p = false
  | [], _ => ⟨[], by simp [nudgePass, nudgePassG], by simp⟩
  | p :: rest, hall => by
    have hp : beyond w h p = false := hall p (by simp)
    have hrest : ∀ q ∈ rest, beyond w h q = false := fun q hq => hall q (by simp [hq])
    obtain ⟨r', hr, hr'⟩ := nudgePass_within hw hh rest hrest
    rw [nudgePass_cons]
    simp only [hp, Bool.false_eq_true, if_false]
    by_cases hn : needsNudge w h p = true
    · simp only [hn, if_true, hr]
      refine ⟨_, rfl, ?_⟩
      intro q hq
      rcases List.mem_cons.mp hq with rfl | hq
      · exact not_beyond_of_inImage (inImage_clampPt hw hh hp)
      · exact hr' q hq
    · simp only [hn]
      exact ⟨_, rfl, hall⟩

/-- a pass that starts on a point inside the image changes nothing -/
theorem nudgePass_inside_head {w h : Int} {p : Pt} {rest : List Pt} (hp : inImage w h p) :
    nudgePass w h (p :: rest) = .ok (p :: rest) := by
  rw [nudgePass_cons]
  simp [not_beyond_of_inImage hp, needsNudge_false_of_inImage hp]

/-! ### both passes -/

theorem moved_comp {w h : Int} (hw : 1 ≤ w) (hh : 1 ≤ h) (a b c : Pt) (h1 : Moved w h a b) (h2 : Moved w h b c) :
    Moved w h a c := by
  rcases h1 with rfl | ⟨hb, rfl⟩
  · exact h2
  · rcases h2 with rfl | ⟨_, rfl⟩
    · exact .inr ⟨hb, rfl⟩
    · exact .inr ⟨hb, clampPt_idem hw hh hb⟩

theorem checkAndNudge_ok_iff {w h : Int} {ps ps' : List Pt} :
    checkAndNudge w h ps = .ok ps' ↔
      ∃ ps1 ps2, nudgePass w h ps = .ok ps1 ∧ nudgePass w h ps1.reverse = .ok ps2 ∧ ps' = ps2.reverse := by
  unfold checkAndNudge
  constructor
  · intro hh
    cases h1 : nudgePass w h ps with
    | error e => simp only [h1] at hh; cases hh
    | ok ps1 =>
      simp only [h1] at hh
      cases h2 : nudgePass w h ps1.reverse with
      | error e => simp only [h2] at hh; cases hh
      | ok ps2 =>
        simp only [h2] at hh
        cases hh
        exact ⟨ps1, ps2, rfl, h2, rfl⟩
  · rintro ⟨ps1, ps2, h1, h2, rfl⟩
    simp [h1, h2]

theorem checkAndNudge_moved {w h : Int} (hw : 1 ≤ w) (hh : 1 ≤ h) {ps ps' : List Pt}
    (hok : checkAndNudge w h ps = .ok ps') : All2 (Moved w h) ps ps' := by
  obtain ⟨ps1, ps2, h1, h2, rfl⟩ := checkAndNudge_ok_iff.mp hok
  have a := nudgePass_ok h1
  have b := (nudgePass_ok h2).reverse
  rw [List.reverse_reverse] at b
  exact All2.comp (moved_comp hw hh) a b

theorem checkAndNudge_error {w h : Int} {ps : List Pt} {e} (herr : checkAndNudge w h ps = .error e) :
    e = .notFound := by
  unfold checkAndNudge at herr
  cases h1 : nudgePass w h ps with
  | error e1 => simp only [h1] at herr; cases herr; exact nudgePass_error h1
  | ok ps1 =>
    simp only [h1] at herr
    cases h2 : nudgePass w h ps1.reverse with
    | error e2 => simp only [h2] at herr; cases herr; exact nudgePass_error h2
    | ok ps2 => simp only [h2] at herr; cases herr

/-- both row ends are always examined: each is at most one pixel index outside and ends up clamped -/
theorem checkAndNudge_ends {w h : Int} (hw : 1 ≤ w) (hh : 1 ≤ h) {ps ps' : List Pt}
    (hok : checkAndNudge w h ps = .ok ps') :
    (∀ p, ps.head? = some p → beyond w h p = false ∧ ps'.head? = some (clampPt w h p)) ∧
    (∀ q, ps.getLast? = some q → beyond w h q = false ∧ ps'.getLast? = some (clampPt w h q)) := by
  obtain ⟨ps1, ps2, h1, h2, rfl⟩ := checkAndNudge_ok_iff.mp hok
  have m1 := nudgePass_ok h1
  have m2 := nudgePass_ok h2
  constructor
  · intro p hp
    cases ps with
    | nil => simp at hp
    | cons p0 rest =>
      simp at hp; subst hp
      obtain ⟨hb, hhead⟩ := nudgePass_head h1
      have hl : ps1.reverse.getLast? = some (clampPt w h p0) := by
        rw [List.getLast?_reverse]; exact hhead
      obtain ⟨q, hq, hm⟩ := m2.getLast? hl
      have : q = clampPt w h p0 := by
        rcases hm with rfl | ⟨_, rfl⟩
        · rfl
        · exact clampPt_idem hw hh hb
      subst this
      refine ⟨hb, ?_⟩
      rw [List.head?_reverse]; exact hq
  · intro q hlast
    obtain ⟨q1, hq1, hm⟩ := m1.getLast? hlast
    have hne : ps1.reverse.head? = some q1 := by rw [List.head?_reverse]; exact hq1
    cases hr : ps1.reverse with
    | nil => rw [hr] at hne; simp at hne
    | cons a rest =>
      rw [hr] at hne h2
      simp at hne; subst hne
      obtain ⟨hb, hhead⟩ := nudgePass_head h2
      rw [List.getLast?_reverse, hhead]
      rcases hm with rfl | ⟨hbq, rfl⟩
      · exact ⟨hb, rfl⟩
      · exact ⟨hbq, by rw [clampPt_idem hw hh hbq]⟩

/-! ### `mapRes` -/

theorem mapRes_ok {α β : Type} {f : α → Res β} : ∀ {l : List α} {l' : List β},
    mapRes f l = .ok l' → All2 (fun a b => f a = .ok b) l l'
  | [], l', h => by simp [mapRes] at h; subst h; exact .nil
  | a :: as, l', h => by
    unfold mapRes at h
    cases hf : f a with
    | error e => rw [hf] at h; cases h
    | ok b =>
      rw [hf] at h
      cases hr : mapRes f as with
      | error e => rw [hr] at h; cases h
      | ok bs =>
        rw [hr] at h
        cases h
        exact .cons hf (mapRes_ok hr)

theorem mapRes_error {α β : Type} {f : α → Res β} : ∀ {l : List α} {e},
    mapRes f l = .error e → ∃ a ∈ l, f a = .error e
  | [], e, h => by simp [mapRes] at h
  | a :: as, e, h => by
    unfold mapRes at h
    cases hf : f a with
    | error e' => rw [hf] at h; cases h; exact ⟨a, by simp, hf⟩
    | ok b =>
      rw [hf] at h
      cases hr : mapRes f as with
      | error e' =>
        rw [hr] at h; cases h
        obtain ⟨a', ha', hfa'⟩ := mapRes_error hr
        exact ⟨a', by simp [ha'], hfa'⟩
      | ok bs => rw [hr] at h; cases h

theorem transformRow_some {t : PT Rat} : ∀ {ps qs : List Pt},
    transformRow t ps = some qs → All2 (fun p q => t.apply? p.1 p.2 = some q) ps qs
  | [], qs, h => by simp [transformRow] at h; subst h; exact .nil
  | p :: ps, qs, h => by
    unfold transformRow at h
    cases h1 : t.apply? p.1 p.2 with
    | none => rw [h1] at h; simp at h
    | some q =>
      cases h2 : transformRow t ps with
      | none => rw [h1, h2] at h; simp at h
      | some qs' =>
        rw [h1, h2] at h
        cases h
        exact .cons h1 (transformRow_some h2)

end Gzx.GridSampler
