/-
  `StringUtils_guessCharset` on structurally well-formed UTF-8 (C15 / C01 `guess_utf8`).
-/
import Gzx.Proofs.ECILemmas
namespace Gzx.ECI
open Gzx Gzx.QRDec

def isCont (b : Nat) : Bool := decide (0x80 ≤ b) && decide (b < 0xC0)

/-- one UTF-8 encoded character by its byte classes: 0xxxxxxx | 110xxxxx 10xxxxxx | 1110xxxx 10.. 10.. |
    11110xxx 10.. 10.. 10..  (a superset of valid UTF-8: overlong forms and surrogates are not excluded) -/
def wfChar : List Nat → Bool
  | [a] => decide (a < 0x80)
  | [l, c1] => decide (0xC0 ≤ l) && decide (l < 0xE0) && isCont c1
  | [l, c1, c2] => decide (0xE0 ≤ l) && decide (l < 0xF0) && isCont c1 && isCont c2
  | [l, c1, c2, c3] => decide (0xF0 ≤ l) && decide (l < 0xF8) && isCont c1 && isCont c2 && isCont c3
  | _ => false

/-- the UTF-8 automaton is in its rest state and has seen `n` multi-byte characters -/
def Good (s : Utf8St) (n : Nat) : Prop := s.can = true ∧ s.left = 0 ∧ s.two + s.three + s.four = n

theorem cont_step (s : Utf8St) (b : Nat) (hc : isCont b = true) (hcan : s.can = true) (hl : s.left > 0) :
    utf8Step s b = { s with left := s.left - 1 } := by
  simp only [isCont, Bool.and_eq_true, decide_eq_true_eq] at hc
  have f := (bf1 b (by omega)).2.1 hc.1
  unfold utf8Step
  simp [hcan, hl, f]

theorem char_step (c : List Nat) (h : wfChar c = true) (s : Utf8St) (n : Nat) (hs : Good s n) :
    Good (c.foldl utf8Step s) (n + (if c.length > 1 then 1 else 0)) := by
  obtain ⟨hcan, hleft, hn⟩ := hs
  match c, h with
  | [a], h =>
    simp only [wfChar, decide_eq_true_eq] at h
    have f := (bf1 a (by omega)).1 h
    have : utf8Step s a = s := by
      unfold utf8Step; simp [hcan, hleft, f.1]
    simp [List.foldl, this, Good, hcan, hleft, hn]
  | [l, c1], h =>
    simp only [wfChar, Bool.and_eq_true, decide_eq_true_eq] at h
    obtain ⟨⟨h1, h2⟩, h3⟩ := h
    have f1 := (bf1 l (by omega)).2.1 (by omega)
    have f2 := (bf2 l (by omega)).1 h1
    have f3 := (bf2 l (by omega)).2.1 h1 h2
    have e1 : utf8Step s l = { s with left := s.left + 1, two := s.two + 1 } := by
      unfold utf8Step; simp [hcan, hleft, f1, f2.1, f3.1]
    simp only [List.foldl, e1]
    rw [cont_step _ c1 h3 (by simp [hcan]) (by simp)]
    simp [Good, hcan, hleft]; omega
  | [l, c1, c2], h =>
    simp only [wfChar, Bool.and_eq_true, decide_eq_true_eq] at h
    obtain ⟨⟨⟨h1, h2⟩, h3⟩, h4⟩ := h
    have f1 := (bf1 l (by omega)).2.1 (by omega)
    have f2 := (bf2 l (by omega)).1 (by omega)
    have f3 := (bf2 l (by omega)).2.2 h1
    have f4 := (bf3 l (by omega)).1 h1 h2
    have e1 : utf8Step s l = { s with left := s.left + 2, three := s.three + 1 } := by
      unfold utf8Step; simp [hcan, hleft, f1, f2.1, f3.1, f4]
    simp only [List.foldl, e1]
    rw [cont_step _ c1 h3 (by simp [hcan]) (by simp)]
    rw [cont_step _ c2 h4 (by simp [hcan]) (by simp [hleft])]
    simp [Good, hcan, hleft]; omega
  | [l, c1, c2, c3], h =>
    simp only [wfChar, Bool.and_eq_true, decide_eq_true_eq] at h
    obtain ⟨⟨⟨⟨h1, h2⟩, h3⟩, h4⟩, h5⟩ := h
    have f1 := (bf1 l (by omega)).2.1 (by omega)
    have f2 := (bf2 l (by omega)).1 (by omega)
    have f3 := (bf2 l (by omega)).2.2 (by omega)
    have f4 := (bf3 l (by omega)).2.1 h1
    have f5 := (bf3 l (by omega)).2.2.1 h1 h2
    have e1 : utf8Step s l = { s with left := s.left + 3, four := s.four + 1 } := by
      unfold utf8Step; simp [hcan, hleft, f1, f2.1, f3.1, f4, f5]
    simp only [List.foldl, e1]
    rw [cont_step _ c1 h3 (by simp [hcan]) (by simp)]
    rw [cont_step _ c2 h4 (by simp [hcan]) (by simp [hleft])]
    rw [cont_step _ c3 h5 (by simp [hcan]) (by simp [hleft])]
    simp [Good, hcan, hleft]; omega

def multiCount (chars : List (List Nat)) : Nat := (chars.filter (fun c => c.length > 1)).length

theorem chars_step (chars : List (List Nat)) (h : ∀ c ∈ chars, wfChar c = true) (s : Utf8St) (n : Nat)
    (hs : Good s n) : Good (chars.flatten.foldl utf8Step s) (n + multiCount chars) := by
  induction chars generalizing s n with
  | nil => simpa [multiCount] using hs
  | cons c cs ih =>
    simp only [List.flatten_cons, List.foldl_append]
    have g := char_step c (h c (by simp)) s n hs
    have := ih (fun c' hc' => h c' (List.mem_cons_of_mem _ hc')) _ _ g
    have e : n + multiCount (c :: cs) = n + (if c.length > 1 then 1 else 0) + multiCount cs := by
      unfold multiCount
      by_cases hc : c.length > 1 <;> simp [List.filter, hc] <;> omega
    rw [e]; exact this

theorem guessStep_u (g : GuessSt) (v : Nat) : (guessStep g v).u = utf8Step g.u v := by
  unfold guessStep
  split
  · rfl
  · rename_i h
    have hc : g.u.can = false := by
      cases hu : g.u.can <;> simp [hu] at h ⊢
    unfold utf8Step; simp [hc]

theorem foldl_guessStep_u (bs : List Nat) (g : GuessSt) : (bs.foldl guessStep g).u = bs.foldl utf8Step g.u := by
  induction bs generalizing g with
  | nil => rfl
  | cons b bs ih => simp only [List.foldl]; rw [ih, guessStep_u]

/-- the scan leaves the initial state untouched on 7-bit input -/
theorem guessStep_ascii (v : Nat) (hv : v < 0x80) : guessStep {} v = {} := by
  have f := (bf1 v (by omega)).1 hv
  unfold guessStep utf8Step isoStep sjisStep
  have h1 : ¬ (v > 0x7F ∧ v < 0xA0) := by omega
  have h2 : ¬ (v > 0x9F ∧ (v < 0xC0 ∨ v = 0xD7 ∨ v = 0xF7)) := by omega
  have h3 : ¬ (v = 0x80 ∨ v = 0xA0 ∨ v > 0xEF) := by omega
  have h4 : ¬ (v > 0xA0 ∧ v < 0xE0) := by omega
  have h5 : ¬ v > 0x7F := by omega
  simp [f.1, h1, h2, h3, h4, h5]

theorem foldl_guessStep_ascii (bs : List Nat) (h : ∀ b ∈ bs, b < 0x80) : bs.foldl guessStep {} = {} := by
  induction bs with
  | nil => rfl
  | cons b bs ih =>
    simp only [List.foldl]
    rw [guessStep_ascii b (h b (by simp))]
    exact ih (fun x hx => h x (List.mem_cons_of_mem _ hx))

end Gzx.ECI
