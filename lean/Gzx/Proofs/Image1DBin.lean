/-
  wp imgpath1d — binariser facts the 1-D image path uses.

  `GetBlackRow` (the one row method both binarisers share: HybridBinarizer embeds GlobalHistogramBinarizer) on the
  luminances of a row of a rendered 1-D symbol: the row is bilevel (0 / 255), both colours are present, so the
  histogram has exactly two non-empty buckets (0 and 31), the contrast test passes (31 - 0 > 32/16), the black
  point estimate lies in [8, 240], and the -1 4 -1 filter then reproduces every interior pixel exactly; the two
  border pixels are never set, which agrees with the row because a rendered row starts and ends white.
-/
import Gzx.Proofs.Binarizer
import Gzx.Properties.C17
namespace Gzx.Image1DBin
open Gzx Gzx.Binarizer

/-- luminance of a BitMatrix pixel seen through `BitMatrix.At` (`color.Gray{0}` for a set bit, `{255}` otherwise) -/
def lumBit (b : Bool) : Nat := if b then 0 else 255

theorem argmaxStrict_skip (best : Nat × Int) (l : List (Nat × Int)) (h : ∀ p ∈ l, p.2 ≤ best.2) :
    argmaxStrict best l = best := by
  induction l with
  | nil => rfl
  | cons c cs ih =>
    obtain ⟨x, s⟩ := c
    unfold argmaxStrict
    have h1 : ¬ s > best.2 := by have := h (x, s) (by simp); simp only at this; omega
    rw [if_neg h1]
    exact ih (fun p hp => h p (by simp [hp]))

theorem argmaxStrict_append (best : Nat × Int) (l1 l2 : List (Nat × Int)) :
    argmaxStrict best (l1 ++ l2) = argmaxStrict (argmaxStrict best l1) l2 := by
  induction l1 generalizing best with
  | nil => rfl
  | cons c cs ih =>
    obtain ⟨x, s⟩ := c
    simp only [List.cons_append, argmaxStrict]
    split <;> exact ih _

/-- the 32-bucket histogram of a black/white row: `nB` in bucket 0, `nW` in bucket 31 -/
def twoPeaks (nB nW : Nat) : List Nat := nB :: (List.replicate 30 0 ++ [nW])

theorem indexed_twoPeaks (nB nW : Nat) :
    indexed (twoPeaks nB nW) = (0, nB) :: (((List.range 30).map (fun i => (i + 1, 0))) ++ [(31, nW)]) := by
  rfl

/-- the shape of both peak searches on a two-peak histogram: bucket 0 scores `a ≥ 0`, the buckets between score
    nothing, bucket 31 scores `b` -/
theorem argmax_peaks (a b : Int) (ha : 0 ≤ a) (mid : List (Nat × Int)) (hmid : ∀ p ∈ mid, p.2 ≤ 0) :
    argmaxStrict (0, 0) ((0, a) :: (mid ++ [(31, b)])) = if b > a then (31, b) else (0, a) := by
  have h1 : argmaxStrict (0, 0) ((0, a) :: (mid ++ [(31, b)])) = argmaxStrict (0, a) (mid ++ [(31, b)]) := by
    rw [argmaxStrict]
    by_cases h : a > 0
    · rw [if_pos h]
    · rw [if_neg h]
      have : a = 0 := by omega
      rw [this]
  rw [h1, argmaxStrict_append, argmaxStrict_skip (0, a) mid (fun p hp => by have := hmid p hp; simp only; omega)]
  simp only [argmaxStrict]

/-- both colours present: the two peaks are buckets 0 and 31 and the contrast test passes -/
theorem estimateBlackPoint_twoPeaks (nB nW : Nat) (hB : 0 < nB) (hW : 0 < nW) :
    ∃ bp, estimateBlackPoint (twoPeaks nB nW) = .ok bp := by
  have hlen : (twoPeaks nB nW).length = 32 := by simp [twoPeaks]
  unfold estimateBlackPoint
  simp only [hlen, indexed_twoPeaks, List.map_cons, List.map_append, List.map_map, List.map_nil]
  rw [argmax_peaks (nB : Int) (nW : Int) (by omega) _ (by
    intro p hp
    obtain ⟨i, _, rfl⟩ := List.mem_map.mp hp
    simp only [Function.comp]; omega)]
  by_cases hc : (nW : Int) > nB
  · -- white is the tallest: first peak 31, second peak 0
    simp only [if_pos hc]
    rw [argmax_peaks _ _ (by omega) _ (by
      intro p hp
      obtain ⟨i, _, rfl⟩ := List.mem_map.mp hp
      simp only [Function.comp, Nat.zero_mul]; omega)]
    have hq : sqDist 0 31 = 961 := by decide
    have hq' : sqDist 31 31 = 0 := by decide
    rw [hq, hq']
    simp only [Nat.mul_zero]
    rw [if_neg (show ¬ (((0 : Nat) : Int) > ((nB * 961 : Nat) : Int)) by omega)]
    simp only []
    rw [if_neg (by omega)]
    exact ⟨_, rfl⟩
  · simp only [if_neg hc]
    rw [argmax_peaks _ _ (by omega) _ (by
      intro p hp
      obtain ⟨i, _, rfl⟩ := List.mem_map.mp hp
      simp only [Function.comp, Nat.zero_mul]; omega)]
    have hq : sqDist 31 0 = 961 := by decide
    have hq' : sqDist 0 0 = 0 := by decide
    rw [hq, hq']
    simp only [Nat.mul_zero]
    rw [if_pos (show (((nW * 961 : Nat) : Int) > ((0 : Nat) : Int)) by omega)]
    simp only []
    rw [if_neg (by omega)]
    exact ⟨_, rfl⟩

theorem bucketOf_lumBit (b : Bool) : bucketOf (lumBit b) = if b then 0 else 31 := by
  cases b <;> decide

/-- the histogram of a black/white row -/
theorem histogram_bits (bits : List Bool) :
    histogram (bits.map lumBit) = twoPeaks (bits.countP (· == true)) (bits.countP (· == false)) := by
  have hc : ∀ k : Nat, (bits.map lumBit).countP (fun p => bucketOf p == k) =
      if k = 0 then bits.countP (· == true) else if k = 31 then bits.countP (· == false) else 0 := by
    intro k
    rw [List.countP_map]
    induction bits with
    | nil => simp
    | cons b bs ih =>
      simp only [List.countP_cons, Function.comp, bucketOf_lumBit] at ih ⊢
      rw [ih]
      cases b <;> by_cases h0 : k = 0 <;> by_cases h31 : k = 31 <;> simp [h0, h31] <;> omega
  unfold histogram LUMINANCE_BUCKETS
  have hr : List.range 32 = 0 :: ((List.range 30).map (· + 1) ++ [31]) := by decide
  rw [hr]
  simp only [List.map_cons, List.map_append, List.map_map, List.map_nil, hc, twoPeaks]
  simp only [if_pos, List.cons.injEq, true_and]
  congr 1

theorem countP_pos_of_mem (bits : List Bool) (b : Bool) (h : b ∈ bits) : 0 < bits.countP (· == b) :=
  List.countP_pos_iff.mpr ⟨b, h, by simp⟩

/-- **GetBlackRow reproduces a rendered row**: a row of BitMatrix pixels that starts and ends white and contains
    a bar is binarised to itself (by either binariser — they share the method). -/
theorem blackRow_bits (bits : List Bool) (hfirst : bits.head? = some false) (hlast : bits.getLast? = some false)
    (hbar : true ∈ bits) : blackRow (bits.map lumBit) = .ok bits := by
  have hwhite : false ∈ bits := by
    cases bits with
    | nil => cases hfirst
    | cons b bs => simp only [List.head?_cons, Option.some.injEq] at hfirst; subst hfirst; simp
  have hbi : ∀ p ∈ bits.map lumBit, p = 0 ∨ p = 255 := by
    intro p hp
    obtain ⟨b, _, rfl⟩ := List.mem_map.mp hp
    cases b <;> simp [lumBit]
  rcases Properties.C17.blackRow_bilevel (bits.map lumBit) hbi with hnf | ⟨out, hout, hlen, hpx⟩
  · -- NotFound is impossible: both buckets are populated
    exfalso
    obtain ⟨bp, hbp⟩ := estimateBlackPoint_twoPeaks _ _ (countP_pos_of_mem bits true hbar) (countP_pos_of_mem bits false hwhite)
    unfold blackRow at hnf
    rw [histogram_bits, hbp] at hnf
    simp only at hnf
    split at hnf <;> cases hnf
  · rw [hout]
    congr 1
    simp only [List.length_map] at hlen hpx
    apply List.ext_getElem?
    intro i
    by_cases hi : i < bits.length
    · rw [hpx i hi, List.getElem?_eq_getElem hi]
      congr 1
      have hb : (bits.map lumBit)[i]'(by simpa using hi) = lumBit bits[i] := by simp
      rw [hb]
      by_cases h0 : i = 0
      · subst h0
        have : bits[0] = false := by
          cases bits with
          | nil => cases hfirst
          | cons b bs => simpa using hfirst
        simp [this, lumBit]
      · by_cases hl : i + 1 = bits.length
        · have : bits[i] = false := by
            have := List.getLast?_eq_getElem? (l := bits)
            rw [this] at hlast
            have e : bits.length - 1 = i := by omega
            rw [e, List.getElem?_eq_getElem hi] at hlast
            simpa using hlast
          simp [this, lumBit]
        · have h3 : ¬ bits.length < 3 := by omega
          have hin : 0 < i ∧ i + 1 < bits.length := by omega
          cases hbv : bits[i] <;> simp [lumBit, h3, hin]
    · rw [List.getElem?_eq_none (by omega), List.getElem?_eq_none (by omega)]

end Gzx.Image1DBin
